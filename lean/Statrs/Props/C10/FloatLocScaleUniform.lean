/-
  C10 (float level, quantitative) — location–scale identity of `Uniform` in floating point:
  for `d = Uniform(a, b)`, `ŵ = b ⊖ a` (the same float the cdf divides by) and `z ∈ [0,1]`,

      |toReal (cdf d (a ⊕ ŵ ⊗ z)) − toReal z| ≤ 2·((|a| + 3w)·u + 2η)/w + 3u + η  =  (2κ + 9)·u + 4η/w + η,

  `w = toReal ŵ`, `κ = |a|/w` (the condition number of the affine map: the cancellation in `(a ⊕ ŵ⊗z) ⊖ a`),
  on every carrier satisfying `FloatLaws`, `ExtraLaws`, `StdModel`, hence over IEEE `Float`; and
  `cdf (Uniform(0,1)) z` has the real value of `z` exactly (`uniform_std_cdf_toReal`), so this is
  `|cdf(a + w z; a, b) − cdf(z; 0, 1)|`.  Hypotheses: `UniformOK d`, `|a|, |b| ≤ 2^1000` (no overflow of the argument).
-/
import Statrs.Props.C02.FloatSfUniform
import Statrs.Props.Common.FloatLawsFloat_Extra
import Statrs.Lemmas.FloatStdModelLemmas
import Statrs.Lemmas.FloatStdModelInst
set_option linter.unusedSectionVars false
namespace Statrs.Props.C10
open Statrs Statrs.Gen Statrs.Spec Statrs.Spec.FloatStd Statrs.Props.C01

/-- full(ℝ): the computed offset `(a ⊕ w⊗z) − a` against `w·z` -/
theorem offset_err_real {a w z δ1 ε1 δ2 : ℝ} (hw : 0 < w) (hz0 : 0 ≤ z) (hz1 : z ≤ 1)
    (hδ1 : |δ1| ≤ u) (hε1 : |ε1| ≤ η) (hδ2 : |δ2| ≤ u) :
    |((a + (w * z * (1 + δ1) + ε1)) * (1 + δ2) - a) - w * z| ≤ (|a| + 3 * w) * u + 2 * η := by
  have hu := u_pos
  have hu1 := u_le_one
  have hη := η_pos
  have e : ((a + (w * z * (1 + δ1) + ε1)) * (1 + δ2) - a) - w * z
      = w * z * δ1 + ε1 + (a + (w * z * (1 + δ1) + ε1)) * δ2 := by ring
  rw [e]
  have hwz : |w * z| ≤ w := by
    rw [abs_mul, abs_of_pos hw, abs_of_nonneg hz0]; nlinarith
  have h1 : |w * z * δ1| ≤ w * u := abs_mul_le_mul hwz hδ1
  have hP : |w * z * (1 + δ1) + ε1| ≤ w * (1 + u) + η :=
    (abs_add_le _ _).trans (add_le_add (abs_mul_le_mul hwz (abs_one_add_le hδ1)) hε1)
  have h2 : |(a + (w * z * (1 + δ1) + ε1)) * δ2| ≤ (|a| + (w * (1 + u) + η)) * u :=
    abs_mul_le_mul ((abs_add_le _ _).trans (add_le_add le_rfl hP)) hδ2
  have h3 : w * u * u ≤ w * u := by nlinarith [mul_pos hw hu]
  have h4 : η * u ≤ η := by nlinarith
  calc _ ≤ |w * z * δ1 + ε1| + |(a + (w * z * (1 + δ1) + ε1)) * δ2| := abs_add_le _ _
    _ ≤ |w * z * δ1| + |ε1| + |(a + (w * z * (1 + δ1) + ε1)) * δ2| := by linarith [abs_add_le (w * z * δ1) ε1]
    _ ≤ (|a| + 3 * w) * u + 2 * η := by nlinarith

/-- full(ℝ): the quotient branch: `fl(fl(A)/w)` against `z` when `|A − w z| ≤ Ea` -/
theorem quot_err_real {A w z Ea δ4 δ6 ε6 : ℝ} (hw : 0 < w) (hz0 : 0 ≤ z) (hz1 : z ≤ 1) (hA : |A - w * z| ≤ Ea)
    (hδ4 : |δ4| ≤ u) (hδ6 : |δ6| ≤ u) (hε6 : |ε6| ≤ η) :
    |A * (1 + δ4) / w * (1 + δ6) + ε6 - z| ≤ 2 * Ea / w + 3 * u + η := by
  have hu := u_pos
  have hu1 := u_lt
  have hEa : 0 ≤ Ea := (abs_nonneg _).trans hA
  have hq : |A / w - z| ≤ Ea / w := by
    have : A / w - z = (A - w * z) / w := by field_simp
    rw [this, abs_div, abs_of_pos hw]
    exact div_le_div_of_nonneg_right hA hw.le
  have hF : |(1 + δ4) * (1 + δ6) - 1| ≤ 3 * u := by
    have e : (1 + δ4) * (1 + δ6) - 1 = δ4 + δ6 + δ4 * δ6 := by ring
    rw [e]
    have h1 : |δ4 * δ6| ≤ u * u := abs_mul_le_mul hδ4 hδ6
    calc _ ≤ |δ4 + δ6| + |δ4 * δ6| := abs_add_le _ _
      _ ≤ |δ4| + |δ6| + |δ4 * δ6| := by linarith [abs_add_le δ4 δ6]
      _ ≤ 3 * u := by nlinarith
  have hF1 : |(1 + δ4) * (1 + δ6)| ≤ 2 := by
    have := abs_mul_le_mul (abs_one_add_le hδ4) (abs_one_add_le hδ6)
    nlinarith
  have e : A * (1 + δ4) / w * (1 + δ6) + ε6 - z
      = (A / w - z) * ((1 + δ4) * (1 + δ6)) + z * ((1 + δ4) * (1 + δ6) - 1) + ε6 := by
    field_simp; ring
  rw [e]
  have h1 : |(A / w - z) * ((1 + δ4) * (1 + δ6))| ≤ Ea / w * 2 := abs_mul_le_mul hq hF1
  have h2 : |z * ((1 + δ4) * (1 + δ6) - 1)| ≤ 1 * (3 * u) :=
    abs_mul_le_mul (by rw [abs_of_nonneg hz0]; exact hz1) hF
  have e2 : 2 * Ea / w = Ea / w * 2 := by ring
  rw [e2]
  calc _ ≤ |(A / w - z) * ((1 + δ4) * (1 + δ6)) + z * ((1 + δ4) * (1 + δ6) - 1)| + |ε6| := abs_add_le _ _
    _ ≤ |(A / w - z) * ((1 + δ4) * (1 + δ6))| + |z * ((1 + δ4) * (1 + δ6) - 1)| + |ε6| := by
        linarith [abs_add_le ((A / w - z) * ((1 + δ4) * (1 + δ6))) (z * ((1 + δ4) * (1 + δ6) - 1))]
    _ ≤ _ := by linarith

/-- full(ℝ): the bound in condition-number form: `(2κ + 9)·u + 4η/w + η` with `κ = |a|/w` -/
theorem loc_scale_bound_eq {a w : ℝ} (hw : 0 < w) :
    2 * ((|a| + 3 * w) * u + 2 * η) / w + 3 * u + η = (2 * (|a| / w) + 9) * u + 4 * η / w + η := by
  field_simp; ring

section
variable {α : Type} [Add α] [Sub α] [Mul α] [Div α] [Neg α] [LT α] [LE α] [BEq α]
  [DecidableLT α] [DecidableLE α] [OfScientific α] [Inhabited α] [RFun α]
variable (L : FloatLaws α) (E : ExtraLaws α) (M : StdModel α)
include L E

/-- full(∀α, FloatLaws+ExtraLaws+StdModel): the standard uniform: `cdf(z; 0, 1)` has exactly the real value of `z`
    for a finite `z` with `0 ≤ z ≤ 1` -/
theorem uniform_std_cdf_toReal {z : α} (hz : Spec.Fin z) (hz0 : 0 ≤ M.toReal z) (hz1 : M.toReal z ≤ 1) :
    M.toReal (Uniform.cdf ({ f_min := (0.0 : α), f_max := (1.0 : α) } : Uniform α) z) = M.toReal z := by
  unfold Uniform.cdf
  simp only
  by_cases h1 : z ≤ (0.0 : α)
  · rw [if_pos h1, M.toReal_zero]
    have := (M.le_iff _ _ hz M.zero_fin).1 h1
    rw [M.toReal_zero] at this; linarith
  rw [if_neg h1]
  by_cases h2 : (1.0 : α) ≤ z
  · rw [if_pos h2, M.toReal_one]
    have := (M.le_iff _ _ M.one_fin hz).1 h2
    rw [M.toReal_one] at this; linarith
  rw [if_neg h2]
  obtain ⟨f1, e1⟩ := M.sub_exact z (0.0 : α) z hz M.zero_fin hz (by rw [M.toReal_zero]; ring)
  obtain ⟨f2, e2⟩ := M.sub_exact (1.0 : α) (0.0 : α) (1.0 : α) M.one_fin M.zero_fin M.one_fin
    (by rw [M.toReal_zero]; ring)
  have h0 : M.toReal ((1.0 : α) - (0.0 : α)) ≠ 0 := by rw [e2, M.toReal_one]; norm_num
  obtain ⟨_, e3⟩ := M.div_exact _ _ z f1 f2 hz h0 (by rw [e1, e2, M.toReal_one]; ring)
  exact e3

variable (d : Uniform α) (ok : UniformOK d)
include ok

/-- full(∀α, FloatLaws+ExtraLaws+StdModel): C10 — location–scale identity of `Uniform.cdf` in floating point:
    `|cdf d (a ⊕ (b⊖a)⊗z) − z| ≤ 2((|a| + 3w)u + 2η)/w + 3u + η`, `w = toReal (b ⊖ a)`, for `z ∈ [0,1]` -/
theorem uniform_cdf_loc_scale_std (hmin : |M.toReal d.f_min| ≤ (2 : ℝ) ^ (1000 : ℤ))
    (hmax : |M.toReal d.f_max| ≤ (2 : ℝ) ^ (1000 : ℤ)) {z : α} (hz : Spec.Fin z) (hz0 : 0 ≤ M.toReal z)
    (hz1 : M.toReal z ≤ 1) :
    |M.toReal (Uniform.cdf d (d.f_min + (d.f_max - d.f_min) * z)) - M.toReal z|
      ≤ 2 * ((|M.toReal d.f_min| + 3 * M.toReal (d.f_max - d.f_min)) * u + 2 * η) / M.toReal (d.f_max - d.f_min)
        + 3 * u + η := by
  have hu := u_pos
  have hu1 := u_lt
  have hη := η_pos
  have hη1 : η ≤ 1 := η_le_u.trans u_le_one
  -- the width
  have hwpos := uniform_width_pos L E d ok
  have hw0 : 0 < M.toReal (d.f_max - d.f_min) := by
    have := (M.lt_iff _ _ M.zero_fin ok.width_fin).1 hwpos
    rwa [M.toReal_zero] at this
  obtain ⟨δw, hδw, ew⟩ := M.sub_std _ _ ok.max_fin ok.min_fin ok.width_fin
  -- magnitudes (K = 2^1000)
  have hK1 : (1 : ℝ) ≤ (2 : ℝ) ^ (1000 : ℤ) := by
    calc (1 : ℝ) = (2 : ℝ) ^ (0 : ℤ) := by simp
      _ ≤ _ := zpow_le_zpow_right₀ (by norm_num) (by norm_num)
  have hKbig : 32 * (2 : ℝ) ^ (1000 : ℤ) ≤ big := by
    unfold big
    have : (2 : ℝ) ^ (1005 : ℤ) = 32 * (2 : ℝ) ^ (1000 : ℤ) := by
      rw [show (1005 : ℤ) = 5 + 1000 by norm_num, zpow_add₀ (by norm_num : (2 : ℝ) ≠ 0)]; norm_num
    rw [← this]; exact zpow_le_zpow_right₀ (by norm_num) (by norm_num)
  generalize (2 : ℝ) ^ (1000 : ℤ) = K at hmin hmax hK1 hKbig
  have hwK : M.toReal (d.f_max - d.f_min) ≤ 4 * K := by
    rw [ew]
    have h1 : |M.toReal d.f_max - M.toReal d.f_min| ≤ 2 * K := by
      calc _ ≤ |M.toReal d.f_max| + |M.toReal d.f_min| := abs_sub _ _
        _ ≤ 2 * K := by linarith
    have := abs_mul_le_mul h1 (abs_one_add_le hδw)
    have := le_abs_self ((M.toReal d.f_max - M.toReal d.f_min) * (1 + δw))
    nlinarith
  have hzabs : |M.toReal z| ≤ 1 := by rw [abs_of_nonneg hz0]; exact hz1
  -- the product ŵ ⊗ z
  have hpm : |M.toReal (d.f_max - d.f_min) * M.toReal z| ≤ 4 * K := by
    have := abs_mul_le_mul (by rw [abs_of_pos hw0]; exact hwK : |M.toReal (d.f_max - d.f_min)| ≤ 4 * K) hzabs
    linarith
  have hpf : Spec.Fin ((d.f_max - d.f_min) * z) := M.mul_fin _ _ ok.width_fin hz (by linarith)
  obtain ⟨δ1, ε1, hδ1, hε1, _, e1⟩ := M.mul_std _ _ ok.width_fin hz hpf
  have hpabs : |M.toReal ((d.f_max - d.f_min) * z)| ≤ 9 * K := by
    rw [e1]
    have := abs_mul_le_mul hpm (abs_one_add_le hδ1)
    calc _ ≤ |M.toReal (d.f_max - d.f_min) * M.toReal z * (1 + δ1)| + |ε1| := abs_add_le _ _
      _ ≤ 9 * K := by nlinarith
  -- the argument x = a ⊕ ŵ⊗z
  have hxf : Spec.Fin (d.f_min + (d.f_max - d.f_min) * z) := by
    apply M.add_fin _ _ ok.min_fin hpf
    calc _ ≤ |M.toReal d.f_min| + |M.toReal ((d.f_max - d.f_min) * z)| := abs_add_le _ _
      _ ≤ big := by linarith
  obtain ⟨δ2, hδ2, e2⟩ := M.add_std _ _ ok.min_fin hpf hxf
  have hxnn : NN (d.f_min + (d.f_max - d.f_min) * z) := L.fin_nn' hxf
  -- the offset
  have hA := offset_err_real (a := M.toReal d.f_min) hw0 hz0 hz1 hδ1 hε1 hδ2
  rw [← e1, ← e2] at hA
  generalize hEa : (|M.toReal d.f_min| + 3 * M.toReal (d.f_max - d.f_min)) * u + 2 * η = Ea at hA ⊢
  have hEa0 : 0 ≤ Ea := (abs_nonneg _).trans hA
  have hEaw : 0 ≤ Ea / M.toReal (d.f_max - d.f_min) := div_nonneg hEa0 hw0.le
  have e2Ea : 2 * Ea / M.toReal (d.f_max - d.f_min) = 2 * (Ea / M.toReal (d.f_max - d.f_min)) := by ring
  unfold Uniform.cdf
  by_cases h1 : d.f_min + (d.f_max - d.f_min) * z ≤ d.f_min
  · -- below: cdf = 0
    rw [if_pos h1, M.toReal_zero]
    have hle := (M.le_iff _ _ hxf ok.min_fin).1 h1
    have hzw : M.toReal (d.f_max - d.f_min) * M.toReal z ≤ Ea := by
      have := (abs_le.1 hA).1; linarith
    have hzE : M.toReal z ≤ Ea / M.toReal (d.f_max - d.f_min) := by
      rw [le_div_iff₀ hw0]; linarith
    rw [zero_sub, abs_neg, abs_of_nonneg hz0, e2Ea]; linarith
  rw [if_neg h1]
  by_cases h2 : d.f_max ≤ d.f_min + (d.f_max - d.f_min) * z
  · -- above: cdf = 1
    rw [if_pos h2, M.toReal_one]
    have hle := (M.le_iff _ _ ok.max_fin hxf).1 h2
    have hba : 0 < M.toReal d.f_max - M.toReal d.f_min := by
      have := (M.lt_iff _ _ ok.min_fin ok.max_fin).1 ok.lt; linarith
    have hwle : M.toReal (d.f_max - d.f_min) * (1 - u) ≤ M.toReal d.f_max - M.toReal d.f_min := by
      have h3 : M.toReal (d.f_max - d.f_min) ≤ (M.toReal d.f_max - M.toReal d.f_min) * (1 + u) := by
        rw [ew]; exact mul_le_mul_of_nonneg_left (by have := (abs_le.1 hδw).2; linarith) hba.le
      have h4 := mul_le_mul_of_nonneg_right h3 (by linarith : (0 : ℝ) ≤ 1 - u)
      have h5 : (M.toReal d.f_max - M.toReal d.f_min) * (1 + u) * (1 - u)
          ≤ M.toReal d.f_max - M.toReal d.f_min := by
        nlinarith [mul_nonneg hba.le (mul_nonneg hu.le hu.le)]
      linarith
    have hzw : M.toReal (d.f_max - d.f_min) * (1 - M.toReal z) ≤ Ea + M.toReal (d.f_max - d.f_min) * u := by
      have := (abs_le.1 hA).2; nlinarith
    have hzE : 1 - M.toReal z ≤ Ea / M.toReal (d.f_max - d.f_min) + u := by
      have : (1 - M.toReal z) ≤ (Ea + M.toReal (d.f_max - d.f_min) * u) / M.toReal (d.f_max - d.f_min) := by
        rw [le_div_iff₀ hw0]; linarith
      have e : (Ea + M.toReal (d.f_max - d.f_min) * u) / M.toReal (d.f_max - d.f_min)
          = Ea / M.toReal (d.f_max - d.f_min) + u := by field_simp
      linarith
    rw [abs_of_nonneg (by linarith), e2Ea]; linarith
  -- interior: the quotient
  rw [if_neg h2]
  obtain ⟨a0, a1⟩ := uniform_interior L E d ok hxnn h1 h2
  have haf : Spec.Fin (d.f_min + (d.f_max - d.f_min) * z - d.f_min) :=
    E.fin_of_between L L.zero_fin ok.width_fin a0 a1
  have hc := uniform_cdf_mem_unit L E d ok hxnn
  unfold Uniform.cdf at hc
  simp only [if_neg h1, if_neg h2] at hc
  have hcf := E.fin_of_between L L.zero_fin L.one_fin hc.1 hc.2
  obtain ⟨δ4, hδ4, e4⟩ := M.sub_std _ _ hxf ok.min_fin haf
  obtain ⟨δ6, ε6, hδ6, hε6, _, e6⟩ := M.div_std _ _ haf ok.width_fin hw0.ne' hcf
  rw [e6, e4]
  exact quot_err_real hw0 hz0 hz1 hA hδ4 hδ6 hε6

end

/-! ### IEEE `Float` -/
open Statrs.Lemmas.FloatModel (toReal stdModel_float)
open Statrs.Props.Common (floatLaws_float extraLaws_float)

/-- full(Float): C10 — location–scale identity of `Uniform.cdf` over IEEE binary64 against the standard uniform:
    `|cdf(a ⊕ ŵ⊗z; a, b) − cdf(z; 0, 1)| ≤ 2((|a| + 3w)u + 2η)/w + 3u + η` for finite `z ∈ [0,1]` -/
theorem uniform_cdf_loc_scale_float (d : Uniform Float) (ok : UniformOK d)
    (hmin : |toReal d.f_min| ≤ (2 : ℝ) ^ (1000 : ℤ)) (hmax : |toReal d.f_max| ≤ (2 : ℝ) ^ (1000 : ℤ))
    {z : Float} (hz : Spec.Fin z) (hz0 : 0 ≤ toReal z) (hz1 : toReal z ≤ 1) :
    |toReal (Uniform.cdf d (d.f_min + (d.f_max - d.f_min) * z))
        - toReal (Uniform.cdf ({ f_min := (0.0 : Float), f_max := (1.0 : Float) } : Uniform Float) z)|
      ≤ 2 * ((|toReal d.f_min| + 3 * toReal (d.f_max - d.f_min)) * u + 2 * η) / toReal (d.f_max - d.f_min)
        + 3 * u + η := by
  have h := uniform_std_cdf_toReal floatLaws_float extraLaws_float stdModel_float hz hz0 hz1
  change toReal _ = toReal z at h
  rw [h]
  exact uniform_cdf_loc_scale_std floatLaws_float extraLaws_float stdModel_float d ok hmin hmax hz hz0 hz1

/-- non-vacuity: `Uniform(1, 2)` over `Float` satisfies the hypotheses -/
example : UniformOK ({ f_min := 1.0, f_max := 2.0 } : Uniform Float) ∧
    |toReal (1.0 : Float)| ≤ (2 : ℝ) ^ (1000 : ℤ) ∧ |toReal (2.0 : Float)| ≤ (2 : ℝ) ^ (1000 : ℤ) := by
  have h1 : (2 : ℝ) ≤ (2 : ℝ) ^ (1000 : ℤ) := by
    calc (2 : ℝ) = (2 : ℝ) ^ (1 : ℤ) := by simp
      _ ≤ _ := zpow_le_zpow_right₀ (by norm_num) (by norm_num)
  refine ⟨⟨by decide, by decide, by decide, by decide⟩, ?_, ?_⟩
  · rw [Statrs.Lemmas.FloatModel.toReal_one, abs_one]; exact le_trans (by norm_num) h1
  · rw [Statrs.Lemmas.FloatModel.toReal_two, abs_of_pos (by norm_num : (0 : ℝ) < 2)]; exact h1

end Statrs.Props.C10
