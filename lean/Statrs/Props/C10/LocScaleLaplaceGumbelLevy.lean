/-
  C10 (location–scale part 2) — Laplace, Gumbel, Levy: `F(l + s·z; l, s) = F(z; 0, 1)`,
  densities scale by `1/s`, quantiles are `l + s·(standard quantile)`.  Carrier ℝ, `s > 0`.
  For Levy the cdf/sf identity is proved at the level of the argument handed to the abstract
  `SF.erfc`/`SF.erf`, so no premise on `SF ℝ` is needed.
-/
import Statrs.Real.Simp
import Statrs.Gen.D_laplace
import Statrs.Gen.D_gumbel
import Statrs.Gen.D_levy
import Mathlib.Tactic
namespace Statrs.Props.C10
open Statrs Statrs.Gen

private lemma shift_div (l s z : ℝ) (hs : 0 < s) : (l + s * z - l) / s = z := by
  have hs' : s ≠ 0 := hs.ne'
  field_simp; ring

private lemma abs_shift_div (l s z : ℝ) (hs : 0 < s) : -|l + s * z - l| / s = -|z - 0| / 1 := by
  have hs' : s ≠ 0 := hs.ne'
  have : l + s * z - l = s * z := by ring
  rw [this, abs_mul, abs_of_pos hs, sub_zero]
  field_simp

section laplace

theorem laplace_cdf_loc_scale (l s z : ℝ) (hs : 0 < s) :
    Laplace.cdf ⟨l, s⟩ (l + s * z) = Laplace.cdf ⟨0, 1⟩ z := by
  unfold Laplace.cdf
  rfun_norm
  simp only [abs_shift_div l s z hs]
  have hiff : (l ≤ l + s * z) ↔ ((0 : ℝ) ≤ z) := by
    constructor
    · intro h; by_contra hz; rw [not_le] at hz; nlinarith
    · intro h; nlinarith [mul_nonneg hs.le h]
  by_cases hz : (0 : ℝ) ≤ z
  · simp [hz, hiff.mpr hz]
  · simp [hz, mt hiff.mp hz]

theorem laplace_sf_loc_scale (l s z : ℝ) (hs : 0 < s) :
    Laplace.sf ⟨l, s⟩ (l + s * z) = Laplace.sf ⟨0, 1⟩ z := by
  unfold Laplace.sf
  rfun_norm
  simp only [abs_shift_div l s z hs]
  have hiff : (l ≤ l + s * z) ↔ ((0 : ℝ) ≤ z) := by
    constructor
    · intro h; by_contra hz; rw [not_le] at hz; nlinarith
    · intro h; nlinarith [mul_nonneg hs.le h]
  by_cases hz : (0 : ℝ) ≤ z
  · simp [hz, hiff.mpr hz]
  · simp [hz, mt hiff.mp hz]

theorem laplace_pdf_loc_scale (l s z : ℝ) (hs : 0 < s) :
    Laplace.pdf ⟨l, s⟩ (l + s * z) = Laplace.pdf ⟨0, 1⟩ z / s := by
  unfold Laplace.pdf
  rfun_norm
  simp only [abs_shift_div l s z hs]
  have hs' : s ≠ 0 := hs.ne'
  field_simp

theorem laplace_ln_pdf_loc_scale (l s z : ℝ) (hs : 0 < s) :
    Laplace.ln_pdf ⟨l, s⟩ (l + s * z) = Laplace.ln_pdf ⟨0, 1⟩ z - Real.log s := by
  unfold Laplace.ln_pdf
  rfun_norm
  simp only [abs_shift_div l s z hs]
  have hs' : s ≠ 0 := hs.ne'
  have he : Real.exp (-|z - 0| / 1) ≠ 0 := (Real.exp_pos _).ne'
  rw [Real.log_div he (by positivity), Real.log_div he (by norm_num),
    Real.log_mul (by norm_num) hs']
  norm_num
  ring

/-- quantile on the open interval `0 < p < 1` where Rust does not panic -/
theorem laplace_inverse_cdf_loc_scale (l s p : ℝ) (hp0 : 0 < p) (hp1 : p < 1) :
    Laplace.inverse_cdf ⟨l, s⟩ p = l + s * Laplace.inverse_cdf ⟨0, 1⟩ p := by
  unfold Laplace.inverse_cdf
  have : ¬ (p ≤ (0.0 : ℝ) ∨ (1.0 : ℝ) ≤ p) := by norm_num; exact ⟨hp0, hp1⟩
  simp only [this, if_false]
  split_ifs <;> ring

theorem laplace_median_loc_scale (l s : ℝ) :
    Laplace.median ⟨l, s⟩ = l + s * Laplace.median (⟨0, 1⟩ : Laplace ℝ) := by
  unfold Laplace.median; simp

theorem laplace_mode_loc_scale (l s : ℝ) :
    Laplace.mode ⟨l, s⟩ = (Laplace.mode (⟨0, 1⟩ : Laplace ℝ)).map (fun m => l + s * m) := by
  unfold Laplace.mode; simp

end laplace

section gumbel

private lemma neg_shift_div (l s z : ℝ) (hs : 0 < s) : -(l + s * z - l) / s = -(z - 0) / 1 := by
  have hs' : s ≠ 0 := hs.ne'
  field_simp; ring

theorem gumbel_cdf_loc_scale (l s z : ℝ) (hs : 0 < s) :
    Gumbel.cdf ⟨l, s⟩ (l + s * z) = Gumbel.cdf ⟨0, 1⟩ z := by
  unfold Gumbel.cdf
  simp only [neg_shift_div l s z hs]

theorem gumbel_sf_loc_scale (l s z : ℝ) (hs : 0 < s) :
    Gumbel.sf ⟨l, s⟩ (l + s * z) = Gumbel.sf ⟨0, 1⟩ z := by
  unfold Gumbel.sf
  simp only [neg_shift_div l s z hs]

theorem gumbel_pdf_loc_scale (l s z : ℝ) (hs : 0 < s) :
    Gumbel.pdf ⟨l, s⟩ (l + s * z) = Gumbel.pdf ⟨0, 1⟩ z / s := by
  unfold Gumbel.pdf
  simp only [neg_shift_div l s z hs]
  have hs' : s ≠ 0 := hs.ne'
  field_simp

theorem gumbel_ln_pdf_loc_scale (l s z : ℝ) (hs : 0 < s) :
    Gumbel.ln_pdf ⟨l, s⟩ (l + s * z) = Gumbel.ln_pdf ⟨0, 1⟩ z - Real.log s := by
  unfold Gumbel.ln_pdf
  simp only [neg_shift_div l s z hs]
  rfun_norm
  have hs' : s ≠ 0 := hs.ne'
  have he1 := (Real.exp_pos (-(z - 0) / 1)).ne'
  have he2 := (Real.exp_pos (-Real.exp (-(z - 0) / 1))).ne'
  rw [Real.log_mul (by positivity) he2, Real.log_mul (by positivity) he1,
    Real.log_mul (by positivity) he2, Real.log_mul (by norm_num) he1, Real.log_div (by norm_num) hs']
  norm_num
  ring

/-- quantile on the open interval `0 < p < 1` (outside it the code returns ±∞) -/
theorem gumbel_inverse_cdf_loc_scale (l s p : ℝ) (hp0 : 0 < p) (hp1 : p < 1) :
    Gumbel.inverse_cdf ⟨l, s⟩ p = l + s * Gumbel.inverse_cdf ⟨0, 1⟩ p := by
  unfold Gumbel.inverse_cdf
  have h0 : ¬ p ≤ (0.0 : ℝ) := by norm_num; exact hp0
  have h1 : ¬ (1.0 : ℝ) ≤ p := by norm_num; exact hp1
  simp only [h0, h1, if_false]
  ring

theorem gumbel_median_loc_scale (l s : ℝ) :
    Gumbel.median ⟨l, s⟩ = l + s * Gumbel.median (⟨0, 1⟩ : Gumbel ℝ) := by
  unfold Gumbel.median; ring

theorem gumbel_mode_loc_scale (l s : ℝ) :
    Gumbel.mode ⟨l, s⟩ = l + s * Gumbel.mode (⟨0, 1⟩ : Gumbel ℝ) := by
  unfold Gumbel.mode; simp

end gumbel

section levy

private lemma levy_arg (m c z : ℝ) (hc : 0 < c) :
    (0.5 : ℝ) * c / (m + c * z - m) = (0.5 : ℝ) * 1 / (z - 0) := by
  have hc' : c ≠ 0 := hc.ne'
  by_cases hz : z = 0
  · subst hz; simp
  · field_simp; ring

private lemma levy_le_iff (m c z : ℝ) (hc : 0 < c) : (m + c * z ≤ m) ↔ (z ≤ 0) := by
  constructor
  · intro h; by_contra hz; rw [not_le] at hz; nlinarith [mul_pos hc hz]
  · intro h; nlinarith [mul_nonneg hc.le (neg_nonneg.mpr h)]

theorem levy_cdf_loc_scale [SF ℝ] (m c z : ℝ) (hc : 0 < c) :
    Levy.cdf ⟨m, c⟩ (m + c * z) = Levy.cdf ⟨0, 1⟩ z := by
  unfold Levy.cdf
  rfun_norm
  simp only [levy_arg m c z hc, levy_le_iff m c z hc]
  simp

theorem levy_sf_loc_scale [SF ℝ] (m c z : ℝ) (hc : 0 < c) :
    Levy.sf ⟨m, c⟩ (m + c * z) = Levy.sf ⟨0, 1⟩ z := by
  unfold Levy.sf
  rfun_norm
  simp only [levy_arg m c z hc, levy_le_iff m c z hc]
  simp

theorem levy_pdf_loc_scale (m c z : ℝ) (hc : 0 < c) :
    Levy.pdf ⟨m, c⟩ (m + c * z) = Levy.pdf ⟨0, 1⟩ z / c := by
  unfold Levy.pdf
  rfun_norm
  simp only [levy_arg m c z hc, levy_le_iff m c z hc]
  by_cases hz : z ≤ 0
  · simp [hz]; norm_num
  · have hz' : ¬ z ≤ 0 := hz
    rw [not_le] at hz
    simp only [hz', if_false, sub_zero]
    have hd : m + c * z - m = c * z := by ring
    rw [hd, Real.mul_rpow hc.le hz.le]
    have hc15 : c ^ (1.5 : ℝ) = c * Real.sqrt c := by
      rw [show (1.5 : ℝ) = 1 + 1 / 2 by norm_num, Real.rpow_add hc, Real.rpow_one,
        Real.sqrt_eq_rpow]
    have hpi : (0 : ℝ) < 2 * Real.pi := by positivity
    rw [hc15, Real.sqrt_div hc.le, Real.sqrt_div (by norm_num : (0 : ℝ) ≤ 1), Real.sqrt_one]
    have h1 : Real.sqrt c ≠ 0 := (Real.sqrt_pos.mpr hc).ne'
    have h2 : Real.sqrt (2 * Real.pi) ≠ 0 := (Real.sqrt_pos.mpr hpi).ne'
    have h3 : z ^ (1.5 : ℝ) ≠ 0 := (Real.rpow_pos_of_pos hz _).ne'
    have hc' : c ≠ 0 := hc.ne'
    field_simp

theorem levy_inverse_cdf_loc_scale [SF ℝ] (m c p : ℝ) (hp0 : 0 ≤ p) (hp1 : p ≤ 1) :
    Levy.inverse_cdf ⟨m, c⟩ p = m + c * Levy.inverse_cdf ⟨0, 1⟩ p := by
  unfold Levy.inverse_cdf
  have : ¬ ¬ ((0.0 : ℝ) ≤ p ∧ p ≤ (1.0 : ℝ)) := by norm_num; exact ⟨hp0, hp1⟩
  simp only [this, if_false]
  ring

theorem levy_median_loc_scale [SF ℝ] (m c : ℝ) :
    Levy.median ⟨m, c⟩ = m + c * Levy.median (⟨0, 1⟩ : Levy ℝ) := by
  unfold Levy.median; rfun_norm
  generalize SF.erfc_inv (0.5 : ℝ) ^ (-(2.0 : ℝ)) = e
  ring

theorem levy_mode_loc_scale (m c : ℝ) :
    Levy.mode ⟨m, c⟩ = (Levy.mode (⟨0, 1⟩ : Levy ℝ)).map (fun x => m + c * x) := by
  unfold Levy.mode; simp; norm_num; ring

theorem levy_min_loc_scale (m c : ℝ) :
    Levy.min ⟨m, c⟩ = m + c * Levy.min (⟨0, 1⟩ : Levy ℝ) := by
  unfold Levy.min; simp

end levy

example : ∃ s : ℝ, 0 < s := ⟨1, one_pos⟩

end Statrs.Props.C10
