/-
  C10 (location–scale part 1) — Normal and Cauchy: `F(l + s·z; l, s) = F(z; 0, 1)`,
  densities scale by `1/s`, quantiles/medians/modes are `l + s·(standard value)`.
  Carrier ℝ, `s > 0` (what `new` enforces).  For Normal the identity is proved at the level of
  the argument handed to the abstract `SF.erfc`/`SF.erfc_inv`, so NO premise on `SF ℝ` is needed.
-/
import Statrs.Real.Simp
import Statrs.Gen.D_normal
import Statrs.Gen.D_cauchy
import Mathlib.Tactic
namespace Statrs.Props.C10
open Statrs Statrs.Gen

section normal

theorem normal_cdf_loc_scale [SF ℝ] (l s z : ℝ) (hs : 0 < s) :
    Normal.cdf ⟨l, s⟩ (l + s * z) = Normal.cdf ⟨0, 1⟩ z := by
  unfold Normal.cdf D.normal.cdf_unchecked
  have hs' : s ≠ 0 := hs.ne'
  have h2 : Real.sqrt 2 ≠ 0 := by positivity
  rfun_norm
  congr 2
  field_simp
  ring

theorem normal_sf_loc_scale [SF ℝ] (l s z : ℝ) (hs : 0 < s) :
    Normal.sf ⟨l, s⟩ (l + s * z) = Normal.sf ⟨0, 1⟩ z := by
  unfold Normal.sf D.normal.sf_unchecked
  have hs' : s ≠ 0 := hs.ne'
  have h2 : Real.sqrt 2 ≠ 0 := by positivity
  rfun_norm
  congr 2
  field_simp
  ring

theorem normal_pdf_loc_scale (l s z : ℝ) (hs : 0 < s) :
    Normal.pdf ⟨l, s⟩ (l + s * z) = Normal.pdf ⟨0, 1⟩ z / s := by
  unfold Normal.pdf D.normal.pdf_unchecked
  have hs' : s ≠ 0 := hs.ne'
  rfun_norm
  have h : (l + s * z - l) / s = z := by field_simp; ring
  simp only [h, sub_zero, div_one, mul_one]
  rw [div_div]

theorem normal_ln_pdf_loc_scale (l s z : ℝ) (hs : 0 < s) :
    Normal.ln_pdf ⟨l, s⟩ (l + s * z) = Normal.ln_pdf ⟨0, 1⟩ z - Real.log s := by
  unfold Normal.ln_pdf D.normal.ln_pdf_unchecked
  have hs' : s ≠ 0 := hs.ne'
  rfun_norm
  have h : (l + s * z - l) / s = z := by field_simp; ring
  simp only [h, sub_zero, div_one, Real.log_one]

/-- quantile: `Q(p; l, s) = l + s·Q(p; 0, 1)` on the domain `0 ≤ p ≤ 1` where Rust does not panic -/
theorem normal_inverse_cdf_loc_scale [SF ℝ] (l s p : ℝ) (hp0 : 0 ≤ p) (hp1 : p ≤ 1) :
    Normal.inverse_cdf ⟨l, s⟩ p = l + s * Normal.inverse_cdf ⟨0, 1⟩ p := by
  unfold Normal.inverse_cdf
  have : ¬ ¬ ((0.0 : ℝ) ≤ p ∧ p ≤ (1.0 : ℝ)) := by norm_num; exact ⟨hp0, hp1⟩
  simp only [this, if_false]
  rfun_norm
  ring

theorem normal_median_loc_scale (l s : ℝ) :
    Normal.median ⟨l, s⟩ = l + s * Normal.median (⟨0, 1⟩ : Normal ℝ) := by
  unfold Normal.median; simp

theorem normal_mode_loc_scale (l s : ℝ) :
    Normal.mode ⟨l, s⟩ = (Normal.mode (⟨0, 1⟩ : Normal ℝ)).map (fun m => l + s * m) := by
  unfold Normal.mode; simp

end normal

section cauchy

theorem cauchy_cdf_loc_scale (l s z : ℝ) (hs : 0 < s) :
    Cauchy.cdf ⟨l, s⟩ (l + s * z) = Cauchy.cdf ⟨0, 1⟩ z := by
  unfold Cauchy.cdf
  have hs' : s ≠ 0 := hs.ne'
  have h : (l + s * z - l) / s = z := by field_simp; ring
  simp only [h, sub_zero, div_one]

theorem cauchy_sf_loc_scale (l s z : ℝ) (hs : 0 < s) :
    Cauchy.sf ⟨l, s⟩ (l + s * z) = Cauchy.sf ⟨0, 1⟩ z := by
  unfold Cauchy.sf
  have hs' : s ≠ 0 := hs.ne'
  have h : (l - (l + s * z)) / s = (0 - z) / 1 := by field_simp; ring
  simp only [h]

theorem cauchy_pdf_loc_scale (l s z : ℝ) (hs : 0 < s) :
    Cauchy.pdf ⟨l, s⟩ (l + s * z) = Cauchy.pdf ⟨0, 1⟩ z / s := by
  unfold Cauchy.pdf
  have hs' : s ≠ 0 := hs.ne'
  have h : (l + s * z - l) / s = z := by field_simp; ring
  simp only [h, sub_zero, div_one, mul_one]
  rfun_norm
  have hpi : Real.pi ≠ 0 := Real.pi_ne_zero
  have h1 : (1.0 : ℝ) + z * z ≠ 0 := by norm_num; nlinarith [mul_self_nonneg z]
  field_simp

theorem cauchy_ln_pdf_loc_scale (l s z : ℝ) (hs : 0 < s) :
    Cauchy.ln_pdf ⟨l, s⟩ (l + s * z) = Cauchy.ln_pdf ⟨0, 1⟩ z - Real.log s := by
  unfold Cauchy.ln_pdf
  have hs' : s ≠ 0 := hs.ne'
  have h : (l + s * z - l) / s = z := by field_simp; ring
  simp only [h, sub_zero, div_one, mul_one]
  rfun_norm
  have hpi : Real.pi ≠ 0 := Real.pi_ne_zero
  have h1 : (1.0 : ℝ) + z * z ≠ 0 := by norm_num; nlinarith [mul_self_nonneg z]
  rw [Real.log_mul (mul_ne_zero hpi hs') h1, Real.log_mul hpi hs', Real.log_mul hpi h1]
  ring

theorem cauchy_inverse_cdf_loc_scale (l s p : ℝ) (hp0 : 0 ≤ p) (hp1 : p ≤ 1) :
    Cauchy.inverse_cdf ⟨l, s⟩ p = l + s * Cauchy.inverse_cdf ⟨0, 1⟩ p := by
  unfold Cauchy.inverse_cdf
  have : ¬ ¬ ((0.0 : ℝ) ≤ p ∧ p ≤ (1.0 : ℝ)) := by norm_num; exact ⟨hp0, hp1⟩
  simp only [this, if_false]
  ring

theorem cauchy_median_loc_scale (l s : ℝ) :
    Cauchy.median ⟨l, s⟩ = l + s * Cauchy.median (⟨0, 1⟩ : Cauchy ℝ) := by
  unfold Cauchy.median; simp

theorem cauchy_mode_loc_scale (l s : ℝ) :
    Cauchy.mode ⟨l, s⟩ = (Cauchy.mode (⟨0, 1⟩ : Cauchy ℝ)).map (fun m => l + s * m) := by
  unfold Cauchy.mode; simp

end cauchy

example : ∃ s : ℝ, 0 < s := ⟨1, one_pos⟩

end Statrs.Props.C10
