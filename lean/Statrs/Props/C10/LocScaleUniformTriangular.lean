/-
  C10 (location–scale part 3) — Uniform(a,b) and Triangular(a,b,c) as affine images of the
  standard objects on [0,1]:  with `w = b − a > 0`,
    `F(a + w·z; a, b) = F(z; 0, 1)`,  `f(a + w·z; a, b) = f(z; 0, 1) / w`,
    `Q(p; a, b) = a + w·Q(p; 0, 1)`,
  and for Triangular the standard mode is `m = (c − a)/(b − a)`.   Carrier ℝ, full(ℝ).
-/
import Statrs.Real.Simp
import Statrs.Gen.D_uniform
import Statrs.Gen.D_triangular
import Mathlib.Tactic
namespace Statrs.Props.C10
open Statrs Statrs.Gen

private lemma aff_le_left (a w z : ℝ) (hw : 0 < w) : (a + w * z ≤ a) ↔ (z ≤ 0) := by
  constructor
  · intro h; by_contra hz; rw [not_le] at hz; nlinarith [mul_pos hw hz]
  · intro h; nlinarith [mul_nonneg hw.le (neg_nonneg.mpr h)]
private lemma aff_lt_left (a w z : ℝ) (hw : 0 < w) : (a + w * z < a) ↔ (z < 0) := by
  constructor
  · intro h; by_contra hz; rw [not_lt] at hz; nlinarith [mul_nonneg hw.le hz]
  · intro h; nlinarith [mul_pos hw (neg_pos.mpr h)]
private lemma aff_le_aff (a w z m : ℝ) (hw : 0 < w) : (a + w * z ≤ a + w * m) ↔ (z ≤ m) := by
  constructor
  · intro h; have : w * z ≤ w * m := by linarith
    exact le_of_mul_le_mul_left this hw
  · intro h; have := mul_le_mul_of_nonneg_left h hw.le; linarith
private lemma aff_lt_aff (a w z m : ℝ) (hw : 0 < w) : (a + w * z < a + w * m) ↔ (z < m) := by
  constructor
  · intro h; have : w * z < w * m := by linarith
    exact lt_of_mul_lt_mul_left this hw.le
  · intro h; have := mul_lt_mul_of_pos_left h hw; linarith

section uniform

theorem uniform_cdf_loc_scale (d : Uniform ℝ) (h : d.f_min < d.f_max) (z : ℝ) :
    Uniform.cdf d (d.f_min + (d.f_max - d.f_min) * z) = Uniform.cdf ⟨0, 1⟩ z := by
  obtain ⟨a, b⟩ := d
  simp only at h ⊢
  have hw : 0 < b - a := by linarith
  unfold Uniform.cdf
  simp only [aff_le_left a (b - a) z hw]
  have h1 : (b ≤ a + (b - a) * z) ↔ ((1 : ℝ) ≤ z) := by
    have := aff_le_aff a (b - a) 1 z hw
    rw [← this]; constructor <;> intro h <;> linarith
  simp only [h1]
  have hne : b - a ≠ 0 := hw.ne'
  split_ifs <;> norm_num
  field_simp

theorem uniform_sf_loc_scale (d : Uniform ℝ) (h : d.f_min < d.f_max) (z : ℝ) :
    Uniform.sf d (d.f_min + (d.f_max - d.f_min) * z) = Uniform.sf ⟨0, 1⟩ z := by
  obtain ⟨a, b⟩ := d
  simp only at h ⊢
  have hw : 0 < b - a := by linarith
  unfold Uniform.sf
  simp only [aff_le_left a (b - a) z hw]
  have h1 : (b ≤ a + (b - a) * z) ↔ ((1 : ℝ) ≤ z) := by
    have := aff_le_aff a (b - a) 1 z hw
    rw [← this]; constructor <;> intro h <;> linarith
  simp only [h1]
  have hne : b - a ≠ 0 := hw.ne'
  split_ifs <;> norm_num
  field_simp
  ring

theorem uniform_pdf_loc_scale (d : Uniform ℝ) (h : d.f_min < d.f_max) (z : ℝ) :
    Uniform.pdf d (d.f_min + (d.f_max - d.f_min) * z)
      = Uniform.pdf ⟨0, 1⟩ z / (d.f_max - d.f_min) := by
  obtain ⟨a, b⟩ := d
  simp only at h ⊢
  have hw : 0 < b - a := by linarith
  unfold Uniform.pdf
  simp only [aff_lt_left a (b - a) z hw]
  have h1 : (b < a + (b - a) * z) ↔ ((1 : ℝ) < z) := by
    have := aff_lt_aff a (b - a) 1 z hw
    rw [← this]; constructor <;> intro h <;> linarith
  simp only [h1]
  split_ifs <;> norm_num

/-- log-density on the support (`0 ≤ z ≤ 1`); off the support both sides are `−∞` in Rust -/
theorem uniform_ln_pdf_loc_scale (d : Uniform ℝ) (h : d.f_min < d.f_max) (z : ℝ)
    (hz0 : 0 ≤ z) (hz1 : z ≤ 1) :
    Uniform.ln_pdf d (d.f_min + (d.f_max - d.f_min) * z)
      = Uniform.ln_pdf ⟨0, 1⟩ z - Real.log (d.f_max - d.f_min) := by
  obtain ⟨a, b⟩ := d
  simp only at h ⊢
  have hw : 0 < b - a := by linarith
  unfold Uniform.ln_pdf
  simp only [aff_lt_left a (b - a) z hw]
  have h1 : (b < a + (b - a) * z) ↔ ((1 : ℝ) < z) := by
    have := aff_lt_aff a (b - a) 1 z hw
    rw [← this]; constructor <;> intro h <;> linarith
  simp only [h1]
  have : ¬ (z < 0 ∨ 1 < z) := by rintro (h | h) <;> linarith
  simp only [this, if_false]
  rfun_norm
  norm_num

theorem uniform_inverse_cdf_loc_scale (d : Uniform ℝ) (p : ℝ) (hp0 : 0 ≤ p) (hp1 : p ≤ 1) :
    Uniform.inverse_cdf d p
      = d.f_min + (d.f_max - d.f_min) * Uniform.inverse_cdf ⟨0, 1⟩ p := by
  unfold Uniform.inverse_cdf
  have : ¬ ¬ ((0.0 : ℝ) ≤ p ∧ p ≤ (1.0 : ℝ)) := by norm_num; exact ⟨hp0, hp1⟩
  simp only [this, if_false]
  rfun_norm
  split_ifs <;> ring

theorem uniform_median_loc_scale (d : Uniform ℝ) :
    Uniform.median d = d.f_min + (d.f_max - d.f_min) * Uniform.median (⟨0, 1⟩ : Uniform ℝ) := by
  unfold Uniform.median; norm_num; ring

theorem uniform_mode_loc_scale (d : Uniform ℝ) :
    Uniform.mode d = (Uniform.mode (⟨0, 1⟩ : Uniform ℝ)).map
      (fun m => d.f_min + (d.f_max - d.f_min) * m) := by
  unfold Uniform.mode; simp; norm_num; ring

theorem uniform_min_max_loc_scale (d : Uniform ℝ) :
    Uniform.min d = d.f_min + (d.f_max - d.f_min) * Uniform.min (⟨0, 1⟩ : Uniform ℝ) ∧
    Uniform.max d = d.f_min + (d.f_max - d.f_min) * Uniform.max (⟨0, 1⟩ : Uniform ℝ) := by
  unfold Uniform.min Uniform.max; constructor <;> simp

example : ∃ d : Uniform ℝ, d.f_min < d.f_max := ⟨⟨0, 1⟩, by norm_num⟩

end uniform

section triangular

/-- the standard mode of `Triangular(a,b,c)` -/
noncomputable def triStdMode (d : Triangular ℝ) : ℝ := (d.f_mode - d.f_min) / (d.f_max - d.f_min)

/-- core identity in affine coordinates `(a, w, m)`: `b = a + w`, `c = a + w·m` -/
private lemma tri_cdf_aff (a w m z : ℝ) (hw : 0 < w) :
    Triangular.cdf ⟨a, a + w, a + w * m⟩ (a + w * z) = Triangular.cdf ⟨0, 1, m⟩ z := by
  unfold Triangular.cdf
  simp only [aff_le_left a w z hw, aff_le_aff a w z m hw]
  have h1 : (a + w * z < a + w) ↔ (z < 1) := by
    have := aff_lt_aff a w z 1 hw; rw [mul_one] at this; exact this
  simp only [h1]
  have hw' : w ≠ 0 := hw.ne'
  by_cases hz0 : z ≤ 0
  · simp [hz0]
  · rw [not_le] at hz0
    by_cases hzm : z ≤ m
    · have hm : m ≠ 0 := by intro h0; rw [h0] at hzm; linarith
      simp only [not_le.mpr hz0, hzm, if_false, if_true]
      norm_num
      field_simp
    · by_cases hz1 : z < 1
      · have hm : 1 - m ≠ 0 := by rw [not_le] at hzm; intro h0; linarith
        simp only [not_le.mpr hz0, hzm, hz1, if_false, if_true]
        norm_num
        field_simp
      · simp [not_le.mpr hz0, hzm, hz1]

private lemma tri_sf_aff (a w m z : ℝ) (hw : 0 < w) :
    Triangular.sf ⟨a, a + w, a + w * m⟩ (a + w * z) = Triangular.sf ⟨0, 1, m⟩ z := by
  unfold Triangular.sf
  simp only [aff_le_left a w z hw, aff_le_aff a w z m hw]
  have h1 : (a + w * z < a + w) ↔ (z < 1) := by
    have := aff_lt_aff a w z 1 hw; rw [mul_one] at this; exact this
  simp only [h1]
  have hw' : w ≠ 0 := hw.ne'
  by_cases hz0 : z ≤ 0
  · simp [hz0]
  · rw [not_le] at hz0
    by_cases hzm : z ≤ m
    · have hm : m ≠ 0 := by intro h0; rw [h0] at hzm; linarith
      simp only [not_le.mpr hz0, hzm, if_false, if_true]
      norm_num
      field_simp
    · by_cases hz1 : z < 1
      · have hm : 1 - m ≠ 0 := by rw [not_le] at hzm; intro h0; linarith
        simp only [not_le.mpr hz0, hzm, hz1, if_false, if_true]
        norm_num
        field_simp
      · simp [not_le.mpr hz0, hzm, hz1]

/-- Since the source fix (`if x == c { 2/(b−a) }` first, then `a ≤ x < c`, then `c < x ≤ b`) the
    identity needs no hypothesis on the mode at all: the former `0/0` at `x = mode = min` is gone. -/
private lemma tri_pdf_aff (a w m z : ℝ) (hw : 0 < w) :
    Triangular.pdf ⟨a, a + w, a + w * m⟩ (a + w * z) = Triangular.pdf ⟨0, 1, m⟩ z / w := by
  unfold Triangular.pdf
  rfun_norm
  have h0 : (a ≤ a + w * z) ↔ (0 ≤ z) := by
    have := aff_le_aff a w 0 z hw; rw [mul_zero, add_zero] at this; exact this
  have h1 : (a + w * z ≤ a + w) ↔ (z ≤ 1) := by
    have := aff_le_aff a w z 1 hw; rw [mul_one] at this; exact this
  have hw' : w ≠ 0 := hw.ne'
  have he : (a + w * z = a + w * m) ↔ (z = m) := by
    constructor
    · intro h; exact mul_left_cancel₀ hw' (by linarith)
    · intro h; rw [h]
  simp only [h0, h1, he, aff_lt_aff a w z m hw, aff_lt_aff a w m z hw]
  by_cases hE : z = m
  · simp only [hE, if_true]
    norm_num
  · simp only [hE, if_false]
    by_cases hA : 0 ≤ z ∧ z < m
    · simp only [hA, and_self, if_true]
      have hm : m ≠ 0 := by intro h0'; linarith [hA.1, hA.2]
      norm_num
      field_simp
    · simp only [hA, if_false]
      by_cases hB : m < z ∧ z ≤ 1
      · simp only [hB, and_self, if_true]
        have hm : 1 - m ≠ 0 := by intro h0'; linarith [hB.1, hB.2]
        norm_num
        field_simp
      · simp only [hB, if_false]; norm_num

private lemma sqrt_sq_mul (w t : ℝ) (hw : 0 < w) : Real.sqrt (w * w * t) = w * Real.sqrt t := by
  rw [Real.sqrt_mul (mul_self_nonneg w), Real.sqrt_mul_self hw.le]

private lemma tri_inv_aff (a w m p : ℝ) (hw : 0 < w) (hp0 : 0 ≤ p) (hp1 : p ≤ 1) :
    Triangular.inverse_cdf ⟨a, a + w, a + w * m⟩ p
      = a + w * Triangular.inverse_cdf ⟨0, 1, m⟩ p := by
  unfold Triangular.inverse_cdf
  have : ¬ ¬ ((0.0 : ℝ) ≤ p ∧ p ≤ (1.0 : ℝ)) := by norm_num; exact ⟨hp0, hp1⟩
  simp only [this, if_false]
  rfun_norm
  have hw' : w ≠ 0 := hw.ne'
  have e1 : (a + w * m - a) / (a + w - a) = (m - 0) / (1 - 0) := by
    rw [show a + w * m - a = w * m by ring, show a + w - a = w by ring,
      mul_div_cancel_left₀ _ hw']; simp
  have e2 : (a + w * m - a) * (a + w - a) * p = w * w * ((m - 0) * (1 - 0) * p) := by ring
  have e3 : (a + w - a) * (a + w - (a + w * m)) * (1.0 - p)
      = w * w * ((1 - 0) * (1 - m) * (1.0 - p)) := by norm_num; ring
  rw [e1, e2, e3, sqrt_sq_mul _ _ hw, sqrt_sq_mul _ _ hw]
  split_ifs <;> ring

private lemma tri_median_aff (a w m : ℝ) (hw : 0 < w) :
    Triangular.median ⟨a, a + w, a + w * m⟩ = a + w * Triangular.median ⟨0, 1, m⟩ := by
  unfold Triangular.median
  rfun_norm
  have hw' : w ≠ 0 := hw.ne'
  have e1 : ((a + (a + w)) / 2.0 ≤ a + w * m) ↔ (((0 : ℝ) + 1) / 2.0 ≤ m) := by
    norm_num
    constructor
    · intro h; have : w * (1 / 2) ≤ w * m := by linarith
      exact le_of_mul_le_mul_left this hw
    · intro h; have := mul_le_mul_of_nonneg_left h hw.le; linarith
  have e2 : (a + w - a) * (a + w * m - a) / 2.0 = w * w * ((1 - 0) * (m - 0) / 2.0) := by
    norm_num; ring
  have e3 : (a + w - a) * (a + w - (a + w * m)) / 2.0 = w * w * ((1 - 0) * (1 - m) / 2.0) := by
    norm_num; ring
  simp only [e1]
  rw [e2, e3, sqrt_sq_mul _ _ hw, sqrt_sq_mul _ _ hw]
  split_ifs <;> ring

private lemma tri_struct (d : Triangular ℝ) (h : d.f_min < d.f_max) :
    d = ⟨d.f_min, d.f_min + (d.f_max - d.f_min),
      d.f_min + (d.f_max - d.f_min) * triStdMode d⟩ := by
  obtain ⟨a, b, c⟩ := d
  simp only at h
  have : b - a ≠ 0 := by linarith
  simp only [triStdMode]
  congr 1
  · ring
  · field_simp; ring

private lemma triStdMode_mem (d : Triangular ℝ) (h : d.f_min < d.f_max)
    (h1 : d.f_min ≤ d.f_mode) (h2 : d.f_mode ≤ d.f_max) :
    0 ≤ triStdMode d ∧ triStdMode d ≤ 1 := by
  have hw : 0 < d.f_max - d.f_min := by linarith
  unfold triStdMode
  constructor
  · apply div_nonneg <;> linarith
  · rw [div_le_one hw]; linarith

variable (d : Triangular ℝ) (h : d.f_min < d.f_max) (h1 : d.f_min ≤ d.f_mode)
  (h2 : d.f_mode ≤ d.f_max)
include h h1 h2

omit h1 h2 in
theorem triangular_cdf_loc_scale (z : ℝ) :
    Triangular.cdf d (d.f_min + (d.f_max - d.f_min) * z)
      = Triangular.cdf ⟨0, 1, triStdMode d⟩ z := by
  have key := tri_cdf_aff d.f_min (d.f_max - d.f_min) (triStdMode d) z (by linarith)
  rw [← tri_struct d h] at key
  exact key

omit h1 h2 in
theorem triangular_sf_loc_scale (z : ℝ) :
    Triangular.sf d (d.f_min + (d.f_max - d.f_min) * z)
      = Triangular.sf ⟨0, 1, triStdMode d⟩ z := by
  have key := tri_sf_aff d.f_min (d.f_max - d.f_min) (triStdMode d) z (by linarith)
  rw [← tri_struct d h] at key
  exact key

omit h1 h2 in
/-- density: holds for every mode (in particular `mode = min` and `mode = max`, where the
    pre-fix code evaluated `0/0` at `x = mode`); the constructor's `min ≤ mode ≤ max` is not
    needed. -/
theorem triangular_pdf_loc_scale (z : ℝ) :
    Triangular.pdf d (d.f_min + (d.f_max - d.f_min) * z)
      = Triangular.pdf ⟨0, 1, triStdMode d⟩ z / (d.f_max - d.f_min) := by
  have key := tri_pdf_aff d.f_min (d.f_max - d.f_min) (triStdMode d) z (by linarith)
  rw [← tri_struct d h] at key
  exact key

omit h1 h2 in
/-- quantile on `0 ≤ p ≤ 1` (outside it Rust panics) -/
theorem triangular_inverse_cdf_loc_scale (p : ℝ) (hp0 : 0 ≤ p) (hp1 : p ≤ 1) :
    Triangular.inverse_cdf d p
      = d.f_min + (d.f_max - d.f_min) * Triangular.inverse_cdf ⟨0, 1, triStdMode d⟩ p := by
  have key := tri_inv_aff d.f_min (d.f_max - d.f_min) (triStdMode d) p (by linarith) hp0 hp1
  rw [← tri_struct d h] at key
  exact key

omit h1 h2 in
theorem triangular_median_loc_scale :
    Triangular.median d
      = d.f_min + (d.f_max - d.f_min) * Triangular.median ⟨0, 1, triStdMode d⟩ := by
  have key := tri_median_aff d.f_min (d.f_max - d.f_min) (triStdMode d) (by linarith)
  rw [← tri_struct d h] at key
  exact key

omit h1 h2 in
theorem triangular_mode_loc_scale :
    Triangular.mode d = (Triangular.mode (⟨0, 1, triStdMode d⟩ : Triangular ℝ)).map
      (fun m => d.f_min + (d.f_max - d.f_min) * m) := by
  have : d.f_max - d.f_min ≠ 0 := by linarith
  unfold Triangular.mode triStdMode; simp; field_simp; ring

example : ∃ d : Triangular ℝ, d.f_min < d.f_max ∧ d.f_min ≤ d.f_mode ∧ d.f_mode ≤ d.f_max :=
  ⟨⟨0, 1, 0⟩, by norm_num⟩

end triangular

end Statrs.Props.C10
