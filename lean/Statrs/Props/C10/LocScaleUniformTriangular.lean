/-
  C10 (location–scale part 3) — Uniform(a,b) and Triangular(a,b,c) as affine images of the
  standard objects on [0,1]:  with `w = b − a > 0`,
    `F(a + w·z; a, b) = F(z; 0, 1)`,  `f(a + w·z; a, b) = f(z; 0, 1) / w`,
    `Q(p; a, b) = a + w·Q(p; 0, 1)`,
  and for Triangular the standard mode is `m = (c − a)/(b − a)`.   Carrier ℝ, full(ℝ).
-/
import Statrs.Real.Simp
import Statrs.Gen.D_uniform
import Statrs.Gen.D_triangular
import Mathlib.Tactic
namespace Statrs.Props.C10
open Statrs Statrs.Gen

private lemma aff_le_left (a w z : ℝ) (hw : 0 < w) : (a + w * z ≤ a) ↔ (z ≤ 0) := by
  constructor
  · intro h; by_contra hz; rw [not_le] at hz; nlinarith [mul_pos hw hz]
  · intro h; nlinarith [mul_nonneg hw.le (neg_nonneg.mpr h)]
private lemma aff_lt_left (a w z : ℝ) (hw : 0 < w) : (a + w * z < a) ↔ (z < 0) := by
  constructor
  · intro h; by_contra hz; rw [not_lt] at hz; nlinarith [mul_nonneg hw.le hz]
  · intro h; nlinarith [mul_pos hw (neg_pos.mpr h)]
private lemma aff_le_aff (a w z m : ℝ) (hw : 0 < w) : (a + w * z ≤ a + w * m) ↔ (z ≤ m) := by
  constructor
  · intro h; have : w * z ≤ w * m := by linarith
    exact le_of_mul_le_mul_left this hw
  · intro h; have := mul_le_mul_of_nonneg_left h hw.le; linarith
private lemma aff_lt_aff (a w z m : ℝ) (hw : 0 < w) : (a + w * z < a + w * m) ↔ (z < m) := by
  constructor
  · intro h; have : w * z < w * m := by linarith
    exact lt_of_mul_lt_mul_left this hw.le
  · intro h; have := mul_lt_mul_of_pos_left h hw; linarith

section uniform

theorem uniform_cdf_loc_scale (d : Uniform ℝ) (h : d.f_min < d.f_max) (z : ℝ) :
    Uniform.cdf d (d.f_min + (d.f_max - d.f_min) * z) = Uniform.cdf ⟨0, 1⟩ z := by
  obtain ⟨a, b⟩ := d
  simp only at h ⊢
  have hw : 0 < b - a := by linarith
  unfold Uniform.cdf
  simp only [aff_le_left a (b - a) z hw]
  have h1 : (b ≤ a + (b - a) * z) ↔ ((1 : ℝ) ≤ z) := by
    have := aff_le_aff a (b - a) 1 z hw
    rw [← this]; constructor <;> intro h <;> linarith
  simp only [h1]
  have hne : b - a ≠ 0 := hw.ne'
  split_ifs <;> norm_num
  field_simp

theorem uniform_sf_loc_scale (d : Uniform ℝ) (h : d.f_min < d.f_max) (z : ℝ) :
    Uniform.sf d (d.f_min + (d.f_max - d.f_min) * z) = Uniform.sf ⟨0, 1⟩ z := by
  obtain ⟨a, b⟩ := d
  simp only at h ⊢
  have hw : 0 < b - a := by linarith
  unfold Uniform.sf
  simp only [aff_le_left a (b - a) z hw]
  have h1 : (b ≤ a + (b - a) * z) ↔ ((1 : ℝ) ≤ z) := by
    have := aff_le_aff a (b - a) 1 z hw
    rw [← this]; constructor <;> intro h <;> linarith
  simp only [h1]
  have hne : b - a ≠ 0 := hw.ne'
  split_ifs <;> norm_num
  field_simp
  ring

theorem uniform_pdf_loc_scale (d : Uniform ℝ) (h : d.f_min < d.f_max) (z : ℝ) :
    Uniform.pdf d (d.f_min + (d.f_max - d.f_min) * z)
      = Uniform.pdf ⟨0, 1⟩ z / (d.f_max - d.f_min) := by
  obtain ⟨a, b⟩ := d
  simp only at h ⊢
  have hw : 0 < b - a := by linarith
  unfold Uniform.pdf
  simp only [aff_lt_left a (b - a) z hw]
  have h1 : (b < a + (b - a) * z) ↔ ((1 : ℝ) < z) := by
    have := aff_lt_aff a (b - a) 1 z hw
    rw [← this]; constructor <;> intro h <;> linarith
  simp only [h1]
  split_ifs <;> norm_num

/-- log-density on the support (`0 ≤ z ≤ 1`); off the support both sides are `−∞` in Rust -/
theorem uniform_ln_pdf_loc_scale (d : Uniform ℝ) (h : d.f_min < d.f_max) (z : ℝ)
    (hz0 : 0 ≤ z) (hz1 : z ≤ 1) :
    Uniform.ln_pdf d (d.f_min + (d.f_max - d.f_min) * z)
      = Uniform.ln_pdf ⟨0, 1⟩ z - Real.log (d.f_max - d.f_min) := by
  obtain ⟨a, b⟩ := d
  simp only at h ⊢
  have hw : 0 < b - a := by linarith
  unfold Uniform.ln_pdf
  simp only [aff_lt_left a (b - a) z hw]
  have h1 : (b < a + (b - a) * z) ↔ ((1 : ℝ) < z) := by
    have := aff_lt_aff a (b - a) 1 z hw
    rw [← this]; constructor <;> intro h <;> linarith
  simp only [h1]
  have : ¬ (z < 0 ∨ 1 < z) := by rintro (h | h) <;> linarith
  simp only [this, if_false]
  rfun_norm
  norm_num

theorem uniform_inverse_cdf_loc_scale (d : Uniform ℝ) (p : ℝ) (hp0 : 0 ≤ p) (hp1 : p ≤ 1) :
    Uniform.inverse_cdf d p
      = d.f_min + (d.f_max - d.f_min) * Uniform.inverse_cdf ⟨0, 1⟩ p := by
  unfold Uniform.inverse_cdf
  have : ¬ ¬ ((0.0 : ℝ) ≤ p ∧ p ≤ (1.0 : ℝ)) := by norm_num; exact ⟨hp0, hp1⟩
  simp only [this, if_false]
  rfun_norm
  split_ifs <;> ring

theorem uniform_median_loc_scale (d : Uniform ℝ) :
    Uniform.median d = d.f_min + (d.f_max - d.f_min) * Uniform.median (⟨0, 1⟩ : Uniform ℝ) := by
  unfold Uniform.median; norm_num; ring

theorem uniform_mode_loc_scale (d : Uniform ℝ) :
    Uniform.mode d = (Uniform.mode (⟨0, 1⟩ : Uniform ℝ)).map
      (fun m => d.f_min + (d.f_max - d.f_min) * m) := by
  unfold Uniform.mode; simp; norm_num; ring

theorem uniform_min_max_loc_scale (d : Uniform ℝ) :
    Uniform.min d = d.f_min + (d.f_max - d.f_min) * Uniform.min (⟨0, 1⟩ : Uniform ℝ) ∧
    Uniform.max d = d.f_min + (d.f_max - d.f_min) * Uniform.max (⟨0, 1⟩ : Uniform ℝ) := by
  unfold Uniform.min Uniform.max; constructor <;> simp

example : ∃ d : Uniform ℝ, d.f_min < d.f_max := ⟨⟨0, 1⟩, by norm_num⟩

end uniform

end Statrs.Props.C10
