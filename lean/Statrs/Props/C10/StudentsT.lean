/-
  C10 — StudentsT:
   (a) location–scale equivariance over ℝ (no premise on the abstract special functions: the
       arguments handed to `SF.beta_reg`/`SF.inv_beta_reg`/`SF.ln_gamma` coincide);
   (b) the `dof = ∞` limit, as branch lemmas valid for EVERY carrier α (so also IEEE Float):
       when `isInf freedom` the cdf/sf/inverse_cdf/variance/entropy are literally the Normal formulas;
   (c) the DISCREPANCY hinted at by the property text: the density switches to the Normal density
       already at `freedom ≥ 1e8`, while cdf/sf switch only at `freedom = ∞`.  For every finite
       `freedom ≥ 1e8` the object therefore pairs a Normal pdf with a (non-Normal) Student cdf.
   (d) entropy (after the source fix `shift = +ln σ`): the differential entropy of `μ + σX` is
       `h(X) + ln σ` (`studentsT_entropy_loc_scale`, full(ℝ)), and with `ν = 1` it is the Cauchy
       entropy `ln(4πσ)` (`studentsT1_entropy_eq_cauchy_rel`, premises `StudentEntropySpec`:
       ψ(1) − ψ(½) = 2 ln 2, B(½,½) = π).
-/
import Statrs.Real.Simp
import Statrs.Inst.Float
import Statrs.Gen.D_normal
import Statrs.Gen.D_students_t
import Statrs.Gen.D_cauchy
import Statrs.Spec.SFSpec_related
import Statrs.Lemmas.Related
import Mathlib.Tactic
namespace Statrs.Props.C10
open Statrs Statrs.Gen Statrs.Lemmas.Related

/-! ### (a) location–scale, carrier ℝ -/
section locscale

private lemma st_shift (l s z : ℝ) (hs : 0 < s) : (l + s * z - l) / s = (z - 0) / 1 := by
  have hs' : s ≠ 0 := hs.ne'
  field_simp; ring

private lemma st_le (l s z : ℝ) (hs : 0 < s) : (l + s * z ≤ l) ↔ (z ≤ 0) := by
  constructor
  · intro h; by_contra hz; rw [not_le] at hz; nlinarith [mul_pos hs hz]
  · intro h; nlinarith [mul_nonneg hs.le (neg_nonneg.mpr h)]

variable [SF ℝ]

theorem studentsT_cdf_loc_scale (l s ν z : ℝ) (hs : 0 < s) :
    StudentsT.cdf ⟨l, s, ν⟩ (l + s * z) = StudentsT.cdf ⟨0, 1, ν⟩ z := by
  unfold StudentsT.cdf
  simp only [rfun_isInf, Bool.false_eq_true, if_false, st_shift l s z hs, st_le l s z hs]

theorem studentsT_sf_loc_scale (l s ν z : ℝ) (hs : 0 < s) :
    StudentsT.sf ⟨l, s, ν⟩ (l + s * z) = StudentsT.sf ⟨0, 1, ν⟩ z := by
  unfold StudentsT.sf
  simp only [rfun_isInf, Bool.false_eq_true, if_false, st_shift l s z hs, st_le l s z hs]

theorem studentsT_pdf_loc_scale (l s ν z : ℝ) (hs : 0 < s) :
    StudentsT.pdf ⟨l, s, ν⟩ (l + s * z) = StudentsT.pdf ⟨0, 1, ν⟩ z / s := by
  unfold StudentsT.pdf D.normal.pdf_unchecked
  simp only [rfun_isInf, Bool.false_eq_true, if_false, st_shift l s z hs]
  have hs' : s ≠ 0 := hs.ne'
  split_ifs
  · rfun_norm; rw [mul_one, div_div]
  · simp only [div_one]

theorem studentsT_ln_pdf_loc_scale (l s ν z : ℝ) (hs : 0 < s) :
    StudentsT.ln_pdf ⟨l, s, ν⟩ (l + s * z) = StudentsT.ln_pdf ⟨0, 1, ν⟩ z - Real.log s := by
  unfold StudentsT.ln_pdf D.normal.ln_pdf_unchecked
  simp only [rfun_isInf, Bool.false_eq_true, if_false, st_shift l s z hs]
  split_ifs <;> rfun_norm <;> simp only [Real.log_one, sub_zero]

theorem studentsT_inverse_cdf_loc_scale (l s ν p : ℝ) (hp0 : 0 ≤ p) (hp1 : p ≤ 1) :
    StudentsT.inverse_cdf ⟨l, s, ν⟩ p = l + s * StudentsT.inverse_cdf ⟨0, 1, ν⟩ p := by
  unfold StudentsT.inverse_cdf
  have : ((0.0 : ℝ) ≤ p ∧ p ≤ (1.0 : ℝ)) := by norm_num; exact ⟨hp0, hp1⟩
  simp only [this, and_self, if_true, rfun_isInf, Bool.false_eq_true, if_false]
  ring

omit [SF ℝ] in
theorem studentsT_median_loc_scale (l s ν : ℝ) :
    StudentsT.median ⟨l, s, ν⟩ = l + s * StudentsT.median (⟨0, 1, ν⟩ : StudentsT ℝ) := by
  unfold StudentsT.median; simp

omit [SF ℝ] in
theorem studentsT_mode_loc_scale (l s ν : ℝ) :
    StudentsT.mode ⟨l, s, ν⟩ = (StudentsT.mode (⟨0, 1, ν⟩ : StudentsT ℝ)).map (fun m => l + s * m) := by
  unfold StudentsT.mode; simp

/-- entropy: `h(l + s·X) = h(X) + ln s` (the textbook shift; the fixed source adds `ln σ`).
    Holds for every `l s ν` (no premise on the special functions: the digamma/beta arguments
    coincide). -/
theorem studentsT_entropy_loc_scale (l s ν : ℝ) :
    StudentsT.entropy ⟨l, s, ν⟩
      = (StudentsT.entropy (⟨0, 1, ν⟩ : StudentsT ℝ)).map (fun h => h + Real.log s) := by
  unfold StudentsT.entropy
  rfun_norm
  simp only [Bool.false_eq_true, if_false, Option.map_some, Real.log_one, add_zero]

example : ∃ s : ℝ, 0 < s := ⟨1, one_pos⟩
end locscale

/-! ### (d) entropy of StudentsT(l, s, 1) is the Cauchy entropy -/

/-- premises on the abstract special functions used by `StudentsT.entropy` at `ν = 1`:
    `ψ(1) − ψ(½) = 2 ln 2` (ψ(1) = −γ, ψ(½) = −γ − 2 ln 2) and `B(½, ½) = Γ(½)² / Γ(1) = π`. -/
structure StudentEntropySpec [SF ℝ] : Prop where
  digamma_one_sub_half : SF.digamma (1 : ℝ) - SF.digamma ((1 : ℝ) / 2) = 2 * Real.log 2
  beta_half_half : SF.beta ((1 : ℝ) / 2) ((1 : ℝ) / 2) = Real.pi

/-- `StudentsT(l, s, 1).entropy = Cauchy(l, s).entropy = ln(4πs)` for every scale `s > 0`.
    (Before the source fix the model returned `ln(4π) − ln s`, equal to the Cauchy value only at
    `s = 1`.) -/
theorem studentsT1_entropy_eq_cauchy_rel [SF ℝ] (P : StudentEntropySpec) (l s : ℝ) (hs : 0 < s) :
    StudentsT.entropy ⟨l, s, 1⟩ = Cauchy.entropy ⟨l, s⟩ := by
  unfold StudentsT.entropy Cauchy.entropy
  rfun_norm; lit_norm
  simp only [Bool.false_eq_true, if_false, Option.some.injEq]
  rw [show ((1 : ℝ) + 1) / 2 = 1 by norm_num, P.digamma_one_sub_half, P.beta_half_half,
    Real.sqrt_one, one_mul, one_mul,
    Real.log_mul (mul_pos (by norm_num) Real.pi_pos).ne' hs.ne',
    Real.log_mul (by norm_num) Real.pi_pos.ne',
    show (4 : ℝ) = 2 ^ (2 : ℕ) by norm_num, Real.log_pow]
  push_cast; ring

/-- the premises are satisfiable -/
example : ∃ (_ : SF ℝ) (_ : StudentEntropySpec) (s : ℝ), 0 < s := by
  let I : SF ℝ := { Spec.witnessSF with
    digamma := fun x => if x = 1 then 2 * Real.log 2 else 0
    beta := fun _ _ => Real.pi }
  refine ⟨I, ⟨?_, rfl⟩, 1, one_pos⟩
  show (if (1 : ℝ) = 1 then 2 * Real.log 2 else 0) - (if (1 : ℝ) / 2 = 1 then 2 * Real.log 2 else 0)
    = 2 * Real.log 2
  norm_num

/-! ### (b) `dof = ∞` is the Normal, for every carrier -/
section generic
variable {α : Type} [Add α] [Sub α] [Mul α] [Div α] [Neg α] [LT α] [LE α] [BEq α]
  [DecidableLT α] [DecidableLE α] [OfScientific α] [Inhabited α] [RFun α]

theorem studentsT_cdf_inf_eq_normal [SF α] (d : StudentsT α) (hinf : RFun.isInf d.f_freedom = true)
    (x : α) : StudentsT.cdf d x = Normal.cdf ⟨d.f_location, d.f_scale⟩ x := by
  unfold StudentsT.cdf Normal.cdf; simp [hinf]

theorem studentsT_sf_inf_eq_normal [SF α] (d : StudentsT α) (hinf : RFun.isInf d.f_freedom = true)
    (x : α) : StudentsT.sf d x = Normal.sf ⟨d.f_location, d.f_scale⟩ x := by
  unfold StudentsT.sf Normal.sf; simp [hinf]

theorem studentsT_variance_inf_eq_normal (d : StudentsT α)
    (hinf : RFun.isInf d.f_freedom = true) :
    StudentsT.variance d = Normal.variance ⟨d.f_location, d.f_scale⟩ := by
  unfold StudentsT.variance Normal.variance; simp [hinf]

/-- mean / skewness / median / mode agree with the Normal as soon as the comparisons
    `freedom ≤ 1`, `freedom ≤ 3` are false (true for `+∞` in IEEE arithmetic) -/
theorem studentsT_mean_eq_normal_of_not_le (d : StudentsT α) (h1 : ¬ d.f_freedom ≤ (1.0 : α)) :
    StudentsT.mean d = Normal.mean ⟨d.f_location, d.f_scale⟩ := by
  unfold StudentsT.mean Normal.mean; simp [h1]

theorem studentsT_skewness_eq_normal_of_not_le (d : StudentsT α) (h3 : ¬ d.f_freedom ≤ (3.0 : α)) :
    StudentsT.skewness d = Normal.skewness ⟨d.f_location, d.f_scale⟩ := by
  unfold StudentsT.skewness Normal.skewness; simp [h3]

theorem studentsT_median_mode_eq_normal (d : StudentsT α) :
    StudentsT.median d = Normal.median ⟨d.f_location, d.f_scale⟩ ∧
    StudentsT.mode d = Normal.mode ⟨d.f_location, d.f_scale⟩ := ⟨rfl, rfl⟩

theorem studentsT_min_max_eq_normal (d : StudentsT α) (n : Normal α) :
    StudentsT.min d = Normal.min n ∧ StudentsT.max d = Normal.max n := ⟨rfl, rfl⟩

/-- density: the Normal density is used as soon as `1e8 ≤ freedom` (and `x` is finite) -/
theorem studentsT_pdf_eq_normal_of_large_dof [SF α] (d : StudentsT α) (x : α)
    (hx : RFun.isInf x = false) (hbig : (1e8 : α) ≤ d.f_freedom) :
    StudentsT.pdf d x = Normal.pdf ⟨d.f_location, d.f_scale⟩ x ∧
    StudentsT.ln_pdf d x = Normal.ln_pdf ⟨d.f_location, d.f_scale⟩ x := by
  unfold StudentsT.pdf StudentsT.ln_pdf Normal.pdf Normal.ln_pdf; simp [hx, hbig]

/-- quantile: with `dof = ∞` the quantile is literally the Normal quantile
    `μ − σ·√2·erfc_inv(2p)`, for EVERY argument `p` (outside `[0,1]` both panic).  (Before the source
    fix `freedom = ∞` was handed to `inv_beta_reg`, which does not terminate.) -/
theorem studentsT_inverse_cdf_inf_eq_normal [SF α] (d : StudentsT α)
    (hinf : RFun.isInf d.f_freedom = true) (p : α) :
    StudentsT.inverse_cdf d p = Normal.inverse_cdf ⟨d.f_location, d.f_scale⟩ p := by
  unfold StudentsT.inverse_cdf Normal.inverse_cdf
  by_cases hp : ((0.0 : α) ≤ p) ∧ (p ≤ (1.0 : α)) <;> simp [hinf, hp]

/-- the same, spelled out on `[0,1]`: the closed form `μ − σ·√2·erfc_inv(2p)` -/
theorem studentsT_inverse_cdf_inf_formula [SF α] (d : StudentsT α)
    (hinf : RFun.isInf d.f_freedom = true) (p : α) (hp0 : (0.0 : α) ≤ p) (hp1 : p ≤ (1.0 : α)) :
    StudentsT.inverse_cdf d p
      = d.f_location - ((d.f_scale * (RFun.sqrt2 : α)) * (SF.erfc_inv ((2.0 : α) * p))) := by
  unfold StudentsT.inverse_cdf; simp [hinf, hp0, hp1]

/-- entropy: with `dof = ∞` the entropy is the Normal entropy `ln σ + ln √(2πe)`.  (Before the source
    fix `StudentsT.entropy` had no `dof = ∞` branch and evaluated `∞·(ψ(∞) − ψ(∞)) + …` = NaN.) -/
theorem studentsT_entropy_inf_eq_normal [SF α] (d : StudentsT α)
    (hinf : RFun.isInf d.f_freedom = true) :
    StudentsT.entropy d = Normal.entropy ⟨d.f_location, d.f_scale⟩ := by
  unfold StudentsT.entropy Normal.entropy; simp [hinf]

/-- for FINITE `freedom` the entropy is the digamma/beta formula (the only other branch) -/
theorem studentsT_entropy_of_finite [SF α] (d : StudentsT α)
    (hfin : RFun.isInf d.f_freedom = false) :
    StudentsT.entropy d =
      some (((((d.f_freedom + (1.0 : α)) / (2.0 : α)) *
          ((SF.digamma ((d.f_freedom + (1.0 : α)) / (2.0 : α))) - (SF.digamma (d.f_freedom / (2.0 : α)))))
        + (RFun.ln ((RFun.sqrt d.f_freedom) * (SF.beta (d.f_freedom / (2.0 : α)) (0.5 : α)))))
        + (RFun.ln d.f_scale)) := by
  unfold StudentsT.entropy; simp [hfin]

/-- the hypothesis `isInf freedom` is satisfiable on the IEEE carrier (`StudentsT::new(0, 1, +∞)` is
    accepted by the constructor) -/
example : ∃ d : StudentsT Float, RFun.isInf d.f_freedom = true := ⟨⟨0, 1, RFun.inf⟩, by decide⟩

/-! ### (c) the switch-point discrepancy -/

/-- For every FINITE `freedom ≥ 1e8` (and finite `x`) the model returns the Normal density but the
    Student (incomplete-beta) cdf: pdf and cdf of the same object belong to different
    distributions.  Holds for every carrier, in particular IEEE Float. -/
theorem studentsT_pdf_cdf_switch_mismatch [SF α] (d : StudentsT α) (x : α)
    (hx : RFun.isInf x = false) (hfin : RFun.isInf d.f_freedom = false)
    (hbig : (1e8 : α) ≤ d.f_freedom) :
    StudentsT.pdf d x = D.normal.pdf_unchecked x d.f_location d.f_scale ∧
    StudentsT.cdf d x =
      (let k := (x - d.f_location) / d.f_scale
       let h := d.f_freedom / (d.f_freedom + k * k)
       let ib := (0.5 : α) * SF.beta_reg (d.f_freedom / (2.0 : α)) (0.5 : α) h
       if x ≤ d.f_location then ib else (1.0 : α) - ib) := by
  unfold StudentsT.pdf StudentsT.cdf; simp [hx, hfin, hbig]

end generic

/-- witness for (c) over ℝ: `StudentsT(0, 1, 1e8)` — every real `x` gets the Normal density … -/
theorem studentsT_1e8_pdf_is_normal [SF ℝ] (x : ℝ) :
    StudentsT.pdf ⟨0, 1, 1e8⟩ x = Normal.pdf ⟨0, 1⟩ x := by
  unfold StudentsT.pdf Normal.pdf; simp

/-- … while its cdf is the incomplete-beta expression, not `½·erfc(−x/√2)`. -/
theorem studentsT_1e8_cdf_is_beta [SF ℝ] (x : ℝ) :
    StudentsT.cdf ⟨0, 1, 1e8⟩ x =
      if x ≤ 0 then 0.5 * SF.beta_reg ((1e8 : ℝ) / 2.0) 0.5 ((1e8 : ℝ) / (1e8 + (x - 0) / 1 * ((x - 0) / 1)))
      else 1.0 - 0.5 * SF.beta_reg ((1e8 : ℝ) / 2.0) 0.5 ((1e8 : ℝ) / (1e8 + (x - 0) / 1 * ((x - 0) / 1))) := by
  unfold StudentsT.cdf; simp only [rfun_isInf, Bool.false_eq_true, if_false]

end Statrs.Props.C10
