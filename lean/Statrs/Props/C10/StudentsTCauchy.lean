/-
  C10 — StudentsT(l, s, 1) = Cauchy(l, s), carrier ℝ, `s > 0`.
  Moments/median/mode: branch logic, full(ℝ).  pdf / ln_pdf / cdf / sf: `_rel` w.r.t.
  `Spec.StudentCauchySpec` (ln Γ(1) = 0, ln Γ(½) = ln √π, arcsine law for I_x(½,½)).
-/
import Statrs.Real.Simp
import Statrs.Gen.D_students_t
import Statrs.Gen.D_cauchy
import Statrs.Spec.SFSpec_studentCauchy
import Statrs.Lemmas.Related
import Mathlib.Tactic
namespace Statrs.Props.C10
open Statrs Statrs.Gen Statrs.Spec Statrs.Lemmas.Related

section
variable (l s : ℝ)

theorem studentsT1_moments_eq_cauchy :
    StudentsT.mean ⟨l, s, 1⟩ = Cauchy.mean ⟨l, s⟩ ∧
    StudentsT.variance ⟨l, s, 1⟩ = Cauchy.variance ⟨l, s⟩ ∧
    StudentsT.std_dev ⟨l, s, 1⟩ = Cauchy.std_dev ⟨l, s⟩ ∧
    StudentsT.skewness ⟨l, s, 1⟩ = Cauchy.skewness ⟨l, s⟩ ∧
    StudentsT.median ⟨l, s, 1⟩ = Cauchy.median ⟨l, s⟩ ∧
    StudentsT.mode ⟨l, s, 1⟩ = Cauchy.mode ⟨l, s⟩ ∧
    StudentsT.min (⟨l, s, 1⟩ : StudentsT ℝ) = Cauchy.min ⟨l, s⟩ ∧
    StudentsT.max (⟨l, s, 1⟩ : StudentsT ℝ) = Cauchy.max ⟨l, s⟩ := by
  unfold StudentsT.mean StudentsT.std_dev StudentsT.variance StudentsT.skewness StudentsT.median
    StudentsT.mode StudentsT.min StudentsT.max Cauchy.mean Cauchy.std_dev Cauchy.variance
    Cauchy.skewness Cauchy.median Cauchy.mode Cauchy.min Cauchy.max
  rfun_norm; lit_norm
  refine ⟨?_, ?_, ?_, ?_, ?_, ?_, ?_, ?_⟩
  all_goals first
    | rfl
    | norm_num

variable [SF ℝ] (S : StudentCauchySpec) (hs : 0 < s)
include S hs

theorem studentsT1_pdf_eq_cauchy_rel (x : ℝ) :
    StudentsT.pdf ⟨l, s, 1⟩ x = Cauchy.pdf ⟨l, s⟩ x := by
  unfold StudentsT.pdf Cauchy.pdf
  rfun_norm; lit_norm
  have h8 : ¬ ((100000000 : ℝ) ≤ 1) := by norm_num
  simp only [Bool.false_eq_true, if_false, h8]
  rw [show ((1 : ℝ) + 1) / 2 = 1 by norm_num, S.ln_gamma_one, S.ln_gamma_half,
    show -(1 / 2 : ℝ) * (1 + 1) = -1 by norm_num, Real.rpow_neg_one, zero_sub, Real.exp_neg,
    Real.exp_log (Real.sqrt_pos.mpr Real.pi_pos), one_mul, div_one]
  have h1 : Real.sqrt Real.pi ≠ 0 := (Real.sqrt_pos.mpr Real.pi_pos).ne'
  have h2 : (1 + (x - l) / s * ((x - l) / s)) ≠ 0 := by nlinarith [mul_self_nonneg ((x - l) / s)]
  have h3 : s ≠ 0 := hs.ne'
  have h4 : Real.pi ≠ 0 := Real.pi_ne_zero
  field_simp
  rw [Real.sq_sqrt Real.pi_pos.le]

theorem studentsT1_ln_pdf_eq_cauchy_rel (x : ℝ) :
    StudentsT.ln_pdf ⟨l, s, 1⟩ x = Cauchy.ln_pdf ⟨l, s⟩ x := by
  unfold StudentsT.ln_pdf Cauchy.ln_pdf
  rfun_norm; lit_norm
  have h8 : ¬ ((100000000 : ℝ) ≤ 1) := by norm_num
  simp only [Bool.false_eq_true, if_false, h8]
  rw [show ((1 : ℝ) + 1) / 2 = 1 by norm_num, S.ln_gamma_one, S.ln_gamma_half]
  have h2 : (1 + (x - l) / s * ((x - l) / s)) ≠ 0 := by nlinarith [mul_self_nonneg ((x - l) / s)]
  have h3 : s ≠ 0 := hs.ne'
  have h4 : Real.pi ≠ 0 := Real.pi_ne_zero
  rw [Real.log_mul (mul_ne_zero h4 h3) h2, Real.log_mul h4 h3, Real.log_sqrt Real.pi_pos.le,
    div_one, one_mul]
  ring

theorem studentsT1_cdf_eq_cauchy_rel (x : ℝ) :
    StudentsT.cdf ⟨l, s, 1⟩ x = Cauchy.cdf ⟨l, s⟩ x := by
  unfold StudentsT.cdf Cauchy.cdf
  rfun_norm; lit_norm
  simp only [Bool.false_eq_true, if_false]
  set k := (x - l) / s with hk
  have hden : 0 < 1 + k * k := by nlinarith [mul_self_nonneg k]
  have h0 : 0 ≤ 1 / (1 + k * k) := by positivity
  have h1 : 1 / (1 + k * k) ≤ 1 := by rw [div_le_one hden]; nlinarith [mul_self_nonneg k]
  rw [S.beta_reg_half_half _ h0 h1]
  have hpi : Real.pi ≠ 0 := Real.pi_ne_zero
  by_cases hx : x ≤ l
  · have hk0 : k ≤ 0 := by rw [hk]; exact div_nonpos_of_nonpos_of_nonneg (by linarith) hs.le
    simp only [hx, if_true]
    rw [arcsin_inv_sqrt_of_nonpos k hk0]
    field_simp; ring
  · have hk0 : 0 ≤ k := by rw [hk]; exact div_nonneg (by linarith) hs.le
    simp only [hx, if_false]
    rw [arcsin_inv_sqrt_of_nonneg k hk0]
    field_simp; ring

theorem studentsT1_sf_eq_cauchy_rel (x : ℝ) :
    StudentsT.sf ⟨l, s, 1⟩ x = Cauchy.sf ⟨l, s⟩ x := by
  unfold StudentsT.sf Cauchy.sf
  rfun_norm; lit_norm
  simp only [Bool.false_eq_true, if_false]
  set k := (x - l) / s with hk
  have hkn : (l - x) / s = -k := by rw [hk]; ring
  have hden : 0 < 1 + k * k := by nlinarith [mul_self_nonneg k]
  have h0 : 0 ≤ 1 / (1 + k * k) := by positivity
  have h1 : 1 / (1 + k * k) ≤ 1 := by rw [div_le_one hden]; nlinarith [mul_self_nonneg k]
  rw [S.beta_reg_half_half _ h0 h1, hkn, Real.arctan_neg]
  have hpi : Real.pi ≠ 0 := Real.pi_ne_zero
  by_cases hx : x ≤ l
  · have hk0 : k ≤ 0 := by rw [hk]; exact div_nonpos_of_nonpos_of_nonneg (by linarith) hs.le
    simp only [hx, if_true]
    rw [arcsin_inv_sqrt_of_nonpos k hk0]
    field_simp; ring
  · have hk0 : 0 ≤ k := by rw [hk]; exact div_nonneg (by linarith) hs.le
    simp only [hx, if_false]
    rw [arcsin_inv_sqrt_of_nonneg k hk0]
    field_simp; ring

end

example : ∃ (_ : SF ℝ) (_ : StudentCauchySpec) (s : ℝ), 0 < s :=
  ⟨witnessSF2, studentCauchySpec_witness, 1, one_pos⟩

end Statrs.Props.C10
