/-
  C10 — families related by a change of variable, carrier ℝ:
    LogNormal(μ,σ) = exp(Normal(μ,σ)),  InverseGamma(a,b) = 1/Gamma(a,b),
    Chi(k)² ~ ChiSquared(k),  FisherSnedecor(d1,d2) via Beta(d1/2,d2/2).
  The cdf/sf identities are proved at the level of the argument handed to the abstract special
  function (`SF.erfc`, `SF.gamma_lr`, `SF.gamma_ur`, `SF.beta_reg`): no premise on `SF ℝ`.
-/
import Statrs.Real.Simp
import Statrs.Gen.D_normal
import Statrs.Gen.D_log_normal
import Statrs.Gen.D_gamma
import Statrs.Gen.D_inverse_gamma
import Statrs.Gen.D_chi
import Statrs.Gen.D_chi_squared
import Statrs.Gen.D_beta
import Statrs.Gen.D_fisher_snedecor
import Statrs.Spec.SFSpec_related
import Statrs.Lemmas.Related
import Mathlib.Tactic
namespace Statrs.Props.C10
open Statrs Statrs.Gen Statrs.Spec Statrs.Lemmas.Related

/-! ### LogNormal = exp(Normal) -/
section lognormal
variable (d : LogNormal ℝ)

theorem logNormal_cdf_eq_normal [SF ℝ] (x : ℝ) (hx : 0 < x) :
    LogNormal.cdf d x = Normal.cdf ⟨d.f_location, d.f_scale⟩ (Real.log x) := by
  unfold LogNormal.cdf Normal.cdf D.normal.cdf_unchecked
  rfun_norm; lit_norm
  simp [not_le.mpr hx]

theorem logNormal_sf_eq_normal [SF ℝ] (x : ℝ) (hx : 0 < x) :
    LogNormal.sf d x = Normal.sf ⟨d.f_location, d.f_scale⟩ (Real.log x) := by
  unfold LogNormal.sf Normal.sf D.normal.sf_unchecked
  rfun_norm; lit_norm
  simp [not_le.mpr hx]

/-- density with the Jacobian `1/x` -/
theorem logNormal_pdf_eq_normal (x : ℝ) (hx : 0 < x) :
    LogNormal.pdf d x = Normal.pdf ⟨d.f_location, d.f_scale⟩ (Real.log x) / x := by
  unfold LogNormal.pdf Normal.pdf D.normal.pdf_unchecked
  rfun_norm; lit_norm
  simp only [not_le.mpr hx, Bool.false_eq_true, or_false, if_false]
  rw [div_div]
  congr 1
  ring

theorem logNormal_ln_pdf_eq_normal (hs : 0 < d.f_scale) (x : ℝ) (hx : 0 < x) :
    LogNormal.ln_pdf d x = Normal.ln_pdf ⟨d.f_location, d.f_scale⟩ (Real.log x) - Real.log x := by
  unfold LogNormal.ln_pdf Normal.ln_pdf D.normal.ln_pdf_unchecked
  rfun_norm; lit_norm
  simp only [not_le.mpr hx, Bool.false_eq_true, or_false, if_false]
  rw [Real.log_mul hx.ne' hs.ne']
  ring

/-- quantile: `Q_LN(p) = exp(Q_N(p))` on `0 < p < 1` -/
theorem logNormal_inverse_cdf_eq_normal [SF ℝ] (p : ℝ) (hp0 : 0 < p) (hp1 : p < 1) :
    LogNormal.inverse_cdf d p = Real.exp (Normal.inverse_cdf ⟨d.f_location, d.f_scale⟩ p) := by
  unfold LogNormal.inverse_cdf Normal.inverse_cdf
  rfun_norm; lit_norm
  have : ¬ ¬ ((0 : ℝ) ≤ p ∧ p ≤ 1) := not_not.mpr ⟨hp0.le, hp1.le⟩
  simp only [hp0.ne', hp1, this, if_false, if_true]

theorem logNormal_median_eq_normal :
    LogNormal.median d = Real.exp (Normal.median ⟨d.f_location, d.f_scale⟩) := rfl

example : ∃ d : LogNormal ℝ, 0 < d.f_scale := ⟨⟨0, 1⟩, one_pos⟩
end lognormal

/-! ### InverseGamma(a, b) = 1 / Gamma(a, b)   (the field `f_rate` of InverseGamma is the rate of
the underlying Gamma, i.e. the *scale* of the inverse-gamma law) -/
section invgamma
variable (d : InverseGamma ℝ)

/-- `hr`: since a21bb2d `Gamma.sf` returns `1.0` when `x * rate == 0.0` instead of calling
`gamma_ur`; `InverseGamma::new` enforces `0 < rate`, so the guard is vacuous for constructed
objects (a zero rate would need the extra premise `gamma_ur a 0 = 1`). -/
theorem inverseGamma_cdf_eq_gamma_sf [SF ℝ] (hr : d.f_rate ≠ 0) (x : ℝ) (hx : 0 < x) :
    InverseGamma.cdf d x = Gamma.sf ⟨d.f_shape, d.f_rate⟩ (1 / x) := by
  unfold InverseGamma.cdf Gamma.sf
  rfun_norm; lit_norm
  have h1 : ¬ (1 / x ≤ 0) := not_le.mpr (by positivity)
  have h3 : 1 / x * d.f_rate ≠ 0 := mul_ne_zero (by positivity) hr
  simp only [not_le.mpr hx, h1, h3, if_false, Bool.false_eq_true, and_false]
  congr 1; ring

theorem inverseGamma_sf_eq_gamma_cdf [SF ℝ] (hr : d.f_rate ≠ 0) (x : ℝ) (hx : 0 < x) :
    InverseGamma.sf d x = Gamma.cdf ⟨d.f_shape, d.f_rate⟩ (1 / x) := by
  unfold InverseGamma.sf Gamma.cdf
  rfun_norm; lit_norm
  have h1 : ¬ (1 / x ≤ 0) := not_le.mpr (by positivity)
  have h3 : 1 / x * d.f_rate ≠ 0 := mul_ne_zero (by positivity) hr
  simp only [not_le.mpr hx, h1, h3, if_false, Bool.false_eq_true, and_false]
  congr 1; ring

/-- density with the Jacobian `1/x²`, on the branch `shape ≤ 160` where `Gamma.pdf` uses the
    direct formula (above 160 it goes through `exp(ln_pdf)` and `SF.ln_gamma`). -/
theorem inverseGamma_pdf_eq_gamma_pdf_of_shape_le_160 [SF ℝ] (hshape : d.f_shape ≤ 160)
    (x : ℝ) (hx : 0 < x) :
    InverseGamma.pdf d x = Gamma.pdf ⟨d.f_shape, d.f_rate⟩ (1 / x) / (x * x) := by
  unfold InverseGamma.pdf Gamma.pdf
  rfun_norm; lit_norm
  have h1 : ¬ (1 / x < 0) := not_lt.mpr (by positivity)
  simp only [not_le.mpr hx, h1, not_lt.mpr hshape, if_false, Bool.false_eq_true, or_false]
  have hx' : x ≠ 0 := hx.ne'
  by_cases hs1 : d.f_shape = 1
  · simp only [hs1, decide_true, if_true]
    rw [show -d.f_rate * (1 / x) = -d.f_rate / x by ring]
    field_simp
  · simp only [hs1, decide_false, Bool.false_eq_true, if_false]
    have hp : (1 / x) ^ (d.f_shape - 1) / (x * x) = x ^ (-d.f_shape - 1) := by
      rw [one_div, Real.inv_rpow hx.le, ← Real.rpow_neg hx.le,
        show x * x = x ^ (2 : ℝ) by rw [Real.rpow_two]; ring, ← Real.rpow_sub hx]
      congr 1; ring
    rw [show -d.f_rate * (1 / x) = -d.f_rate / x by ring, ← hp]
    ring

example : ∃ d : InverseGamma ℝ, 0 < d.f_shape ∧ 0 < d.f_rate ∧ d.f_shape ≤ 160 :=
  ⟨⟨1, 1⟩, by norm_num⟩
end invgamma

/-! ### Chi(k)² ~ ChiSquared(k) -/
section chi

/-- the ChiSquared object `ChiSquared.new (k as f64)` builds (see `chiSquared_new_ok`) -/
noncomputable def chiAsChiSquared (c : Chi) : ChiSquared ℝ :=
  ⟨(c.f_freedom : ℝ), ⟨(c.f_freedom : ℝ) / 2, 1 / 2⟩⟩

theorem chi_cdf_eq_chiSquared [SF ℝ] (c : Chi) (x : ℝ) (hx : 0 < x) :
    Chi.cdf c x = ChiSquared.cdf (chiAsChiSquared c) (x * x) := by
  unfold Chi.cdf ChiSquared.cdf Gamma.cdf chiAsChiSquared Chi.freedom
  rfun_norm; lit_norm
  have h1 : ¬ (x * x ≤ 0) := not_le.mpr (by positivity)
  have h2 : ¬ (x = (RFun.inf : ℝ)) := hx.ne'
  have h3 : x * x * (1 / 2) ≠ 0 := by positivity
  simp only [not_le.mpr hx, h1, h2, h3, if_false, Bool.false_eq_true, and_false]
  congr 1; ring

theorem chi_sf_eq_chiSquared [SF ℝ] (c : Chi) (x : ℝ) (hx : 0 < x) :
    Chi.sf c x = ChiSquared.sf (chiAsChiSquared c) (x * x) := by
  unfold Chi.sf ChiSquared.sf Gamma.sf chiAsChiSquared Chi.freedom
  rfun_norm; lit_norm
  have h1 : ¬ (x * x ≤ 0) := not_le.mpr (by positivity)
  have h2 : ¬ (x = (RFun.inf : ℝ)) := hx.ne'
  have h3 : x * x * (1 / 2) ≠ 0 := by positivity
  simp only [not_le.mpr hx, h1, h2, h3, if_false, Bool.false_eq_true, and_false]
  congr 1; ring

end chi

/-! ### FisherSnedecor(d1, d2) via Beta(d1/2, d2/2) at `d1·x/(d1·x + d2)` -/
section fisher
variable (d : FisherSnedecor ℝ) (h1 : 0 < d.f_freedom_1) (h2 : 0 < d.f_freedom_2)
include h1 h2

private lemma fisher_t_mem (x : ℝ) (hx : 0 ≤ x) :
    0 ≤ d.f_freedom_1 * x / (d.f_freedom_1 * x + d.f_freedom_2) ∧
    d.f_freedom_1 * x / (d.f_freedom_1 * x + d.f_freedom_2) < 1 := by
  have hnum : 0 ≤ d.f_freedom_1 * x := mul_nonneg h1.le hx
  have hden : 0 < d.f_freedom_1 * x + d.f_freedom_2 := by linarith
  exact ⟨div_nonneg hnum hden.le, by rw [div_lt_one hden]; linarith⟩

/-- Outside the single parameter point `(d1, d2) = (2, 2)` (where `Beta.cdf` short-cuts
    `I_t(1,1)` to `t`) the two cdfs are the same expression. -/
theorem fisher_cdf_eq_beta [SF ℝ] (hne : ¬ (d.f_freedom_1 = 2 ∧ d.f_freedom_2 = 2))
    (x : ℝ) (hx : 0 ≤ x) :
    FisherSnedecor.cdf d x =
      Beta.cdf ⟨d.f_freedom_1 / 2, d.f_freedom_2 / 2⟩
        (d.f_freedom_1 * x / (d.f_freedom_1 * x + d.f_freedom_2)) := by
  obtain ⟨ht0, ht1⟩ := fisher_t_mem d h1 h2 x hx
  unfold FisherSnedecor.cdf Beta.cdf
  rfun_norm; lit_norm
  have hne' : ¬ (d.f_freedom_1 / 2 = 1 ∧ d.f_freedom_2 / 2 = 1) := by
    rintro ⟨ha, hb⟩; exact hne ⟨by linarith, by linarith⟩
  simp [not_lt.mpr hx, not_lt.mpr ht0, not_le.mpr ht1, hne']

/-- At every parameter (including `(2, 2)`), relative to `I_t(1, 1) = t`. -/
theorem fisher_cdf_eq_beta_rel [SF ℝ] (S : RelatedSpec) (x : ℝ) (hx : 0 ≤ x) :
    FisherSnedecor.cdf d x =
      Beta.cdf ⟨d.f_freedom_1 / 2, d.f_freedom_2 / 2⟩
        (d.f_freedom_1 * x / (d.f_freedom_1 * x + d.f_freedom_2)) := by
  by_cases hne : d.f_freedom_1 = 2 ∧ d.f_freedom_2 = 2
  · obtain ⟨ht0, ht1⟩ := fisher_t_mem d h1 h2 x hx
    unfold FisherSnedecor.cdf Beta.cdf
    rfun_norm; lit_norm
    obtain ⟨ha, hb⟩ := hne
    rw [ha, hb] at ht0 ht1 ⊢
    simp only [not_lt.mpr hx, not_lt.mpr ht0, not_le.mpr ht1, if_false, Bool.false_eq_true]
    norm_num
    exact S.beta_reg_one_one _ ht0 ht1.le
  · exact fisher_cdf_eq_beta d h1 h2 hne x hx

theorem fisher_sf_eq_beta [SF ℝ] (hne : ¬ (d.f_freedom_1 = 2 ∧ d.f_freedom_2 = 2))
    (x : ℝ) (hx : 0 ≤ x) :
    FisherSnedecor.sf d x =
      Beta.sf ⟨d.f_freedom_1 / 2, d.f_freedom_2 / 2⟩
        (d.f_freedom_1 * x / (d.f_freedom_1 * x + d.f_freedom_2)) := by
  obtain ⟨ht0, ht1⟩ := fisher_t_mem d h1 h2 x hx
  unfold FisherSnedecor.sf Beta.sf
  rfun_norm; lit_norm
  have hne' : ¬ (d.f_freedom_1 / 2 = 1 ∧ d.f_freedom_2 / 2 = 1) := by
    rintro ⟨ha, hb⟩; exact hne ⟨by linarith, by linarith⟩
  simp [not_lt.mpr hx, not_lt.mpr ht0, not_le.mpr ht1, hne']

example : ∃ d : FisherSnedecor ℝ, 0 < d.f_freedom_1 ∧ 0 < d.f_freedom_2 ∧
    ¬ (d.f_freedom_1 = 2 ∧ d.f_freedom_2 = 2) := ⟨⟨1, 1⟩, by norm_num⟩
end fisher

end Statrs.Props.C10
