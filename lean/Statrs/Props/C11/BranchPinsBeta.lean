/-
  C11 — BRANCH PINS for src/function/beta.rs (`checked_ln_beta`, `checked_beta`, `checked_beta_reg`,
  `checked_beta_inc`, the panicking variants, and the hand model of `inv_beta_reg`).
  Sections 1–4 are branch logic for EVERY carrier α; section 5 (`inv_beta_reg`) is about the
  hand-written IEEE-double model `Statrs.Gen.FHand.F.beta.inv_beta_reg`.
  Tables: `Statrs/Spec/FunctionBranches.lean`.

  What is pinned for `checked_beta_reg` (Lentz continued fraction, beta.rs:138–234):
  the three domain guards in order; the prefactor `bt` (exactly 0 at `x == 0` and `x ≈ 1`);
  the symmetry switch `x ≥ (a + 1)/(a + b + 2)` and what it swaps; `eps = F64_PREC =
  1.1102230246251565e-16`; `fpmin = MIN_POSITIVE/eps`; the iteration list `1..141` (140 entries,
  first 1, last 140); the start state `(d, c, h) = (1/⌊1 − qab·x/qap⌉, 1, d)`; one full step of the
  loop; the stopping test `|del − 1| ≤ eps`; and that exhausting the 140 iterations returns the SAME
  expression as convergence (no error, no panic).
-/
import Mathlib.Tactic
import Statrs.Real.Simp
import Statrs.Inst.Float
import Statrs.Spec.FunctionBranches
namespace Statrs.Props.C11.BranchPins
open Statrs Statrs.Gen Statrs.Spec.FunctionBranches
set_option linter.unusedSectionVars false

section generic
variable {α : Type} [Add α] [Sub α] [Mul α] [Div α] [Neg α] [LT α] [LE α] [BEq α]
  [DecidableLT α] [DecidableLE α] [OfScientific α] [Inhabited α] [RFun α]

/-! ## 1. `checked_ln_beta`, `checked_beta` and the panicking variants (beta.rs:45–135) -/

theorem checked_ln_beta_eq_spec (a b : α) : F.beta.checked_ln_beta a b = lnBetaSpec a b := by
  unfold F.beta.checked_ln_beta; simp only [lnBetaSpec, firstMatch]
theorem checked_ln_beta_a_invalid (a b : α) (ha : a ≤ (0.0 : α)) :
    F.beta.checked_ln_beta a b = .error BetaFuncError.ANotGreaterThanZero := by
  unfold F.beta.checked_ln_beta; rw [if_pos ha]
theorem checked_ln_beta_b_invalid (a b : α) (ha : ¬ a ≤ (0.0 : α)) (hb : b ≤ (0.0 : α)) :
    F.beta.checked_ln_beta a b = .error BetaFuncError.BNotGreaterThanZero := by
  unfold F.beta.checked_ln_beta; rw [if_neg ha, if_pos hb]
/-- inside the domain: `ln Γ(a) + ln Γ(b) − ln Γ(a + b)`, in this association -/
theorem checked_ln_beta_value (a b : α) (ha : ¬ a ≤ (0.0 : α)) (hb : ¬ b ≤ (0.0 : α)) :
    F.beta.checked_ln_beta a b
      = .ok (((F.gamma.ln_gamma a) + (F.gamma.ln_gamma b)) - (F.gamma.ln_gamma (a + b))) := by
  unfold F.beta.checked_ln_beta; rw [if_neg ha, if_neg hb]
/-- `beta = exp ∘ ln_beta`, errors passed through -/
theorem checked_beta_eq (a b : α) :
    F.beta.checked_beta a b = exceptMap (fun v => RFun.exp v) (F.beta.checked_ln_beta a b) := rfl
theorem ln_beta_eq (a b : α) : F.beta.ln_beta a b = unwrapE (F.beta.checked_ln_beta a b) := rfl
theorem beta_eq (a b : α) : F.beta.beta a b = unwrapE (F.beta.checked_beta a b) := rfl
theorem beta_reg_eq (a b x : α) : F.beta.beta_reg a b x = unwrapE (F.beta.checked_beta_reg a b x) := rfl
theorem beta_inc_eq (a b x : α) : F.beta.beta_inc a b x = unwrapE (F.beta.checked_beta_inc a b x) := rfl
/-- `B(a,b,x) = I_x(a,b) · B(a,b)`: an error of `checked_beta_reg` is returned first, then one of
    `checked_beta` -/
theorem checked_beta_inc_ok (a b x v : α) (h : F.beta.checked_beta_reg a b x = .ok v) :
    F.beta.checked_beta_inc a b x = exceptMap (fun y => v * y) (F.beta.checked_beta a b) := by
  unfold F.beta.checked_beta_inc; rw [h]
theorem checked_beta_inc_err (a b x : α) (e : BetaFuncError) (h : F.beta.checked_beta_reg a b x = .error e) :
    F.beta.checked_beta_inc a b x = .error e := by
  unfold F.beta.checked_beta_inc; rw [h]

/-! ## 2. constants of `checked_beta_reg` (beta.rs:159–161, 185; prec.rs:7) -/

/-- prec.rs:7 — `F64_PREC = 2^-53` written as a decimal literal -/
theorem F64_PREC_eq : (R.prec.F64_PREC : α) = (0.00000000000000011102230246251565 : α) := rfl
theorem betaRegEps_eq : (betaRegEps : α) = (R.prec.F64_PREC : α) := rfl
theorem betaRegFpmin_eq : (betaRegFpmin : α) = (RFun.minPositive : α) / (R.prec.F64_PREC : α) := rfl
theorem betaRegSymm_eq (a b x : α) : betaRegSymm a b x = decide (((a + (1.0 : α)) / ((a + b) + (2.0 : α))) ≤ x) := rfl
set_option maxRecDepth 100000 in
/-- `for m in 1..141`: the 140 integers `1, 2, …, 140`, in this order -/
theorem betaRegIters_eq : betaRegIters = (List.range 140).map (fun i => (1 : Int) + (i : Int)) := by decide
theorem betaRegIters_length : betaRegIters.length = 140 := by simp [betaRegIters, rangeList]
theorem betaRegIters_head : betaRegIters.head? = some 1 := rfl
set_option maxRecDepth 100000 in
theorem betaRegIters_last : betaRegIters.getLast? = some 140 := by decide

theorem lentzFloor_eq (fpmin v : α) : lentzFloor fpmin v = if (RFun.abs v) < fpmin then fpmin else v := rfl
theorem betaRegOut_swap (bt h a : α) : betaRegOut true bt h a = .ok ((1.0 : α) - ((bt * h) / a)) := rfl
theorem betaRegOut_noswap (bt h a : α) : betaRegOut false bt h a = .ok ((bt * h) / a) := rfl

/-- the prefactor: exactly `0.0` at `x == 0` and at `x ≈ 1` (ulps) -/
theorem betaRegFront_ends (a b x : α) (h : ((x == (0.0 : α)) = true) ∨ ((RFun.ulpsEq x (1.0 : α)) = true)) :
    betaRegFront a b x = (0.0 : α) := by
  simp only [betaRegFront, firstMatch, if_pos h]
/-- elsewhere `exp(ln Γ(a+b) − ln Γ(a) − ln Γ(b) + a·ln x + b·ln(1 − x))` -/
theorem betaRegFront_interior (a b x : α) (h : ¬ (((x == (0.0 : α)) = true) ∨ ((RFun.ulpsEq x (1.0 : α)) = true))) :
    betaRegFront a b x = RFun.exp (((((F.gamma.ln_gamma (a + b)) - (F.gamma.ln_gamma a)) - (F.gamma.ln_gamma b))
      + (a * (RFun.ln x))) + (b * (RFun.ln ((1.0 : α) - x)))) := by
  simp only [betaRegFront, firstMatch, if_neg h]

/-! ## 3. the loop of `checked_beta_reg`, one step (beta.rs:185–226) -/

/-- the iteration list exhausted: the loop hands back its state (no early return) -/
theorem beta_reg_loop1_nil (a b bt eps fpmin qab qam qap : α) (symm : Bool) (x d c h : α) :
    F.beta.checked_beta_reg.loop1 [] a b bt eps fpmin qab qam qap symm x d c h = LoopR.done (d, c, h) := rfl
/-- one iteration `m`: the even and the odd Lentz step `betaRegStep`, then `return` iff
    `|del − 1| ≤ eps` with the value `betaRegOut symm bt h a` -/
theorem beta_reg_loop1_cons (m : Int) (l : List Int) (a b bt eps fpmin qab qam qap : α) (symm : Bool) (x d c h : α) :
    F.beta.checked_beta_reg.loop1 (m :: l) a b bt eps fpmin qab qam qap symm x d c h =
      if RFun.abs ((betaRegStep fpmin a b qab qam qap x m (d, c, h)).2 - (1.0 : α)) ≤ eps then
        LoopR.ret (betaRegOut symm bt (betaRegStep fpmin a b qab qam qap x m (d, c, h)).1.2.2 a)
      else F.beta.checked_beta_reg.loop1 l a b bt eps fpmin qab qam qap symm x
        (betaRegStep fpmin a b qab qam qap x m (d, c, h)).1.1
        (betaRegStep fpmin a b qab qam qap x m (d, c, h)).1.2.1
        (betaRegStep fpmin a b qab qam qap x m (d, c, h)).1.2.2 := by
  rw [F.beta.checked_beta_reg.loop1]
  rfl
/-- `betaRegStep` written out (beta.rs:186–217): `m2 = 2m`;
    even step `aa = m(b − m)x / ((qam + m2)(a + m2))`, odd step `aa = −(a + m)(qab + m)x / ((a + m2)(qap + m2))`;
    after each: `d = ⌊1 + aa·d⌉`, `c = ⌊1 + aa/c⌉`, `d = 1/d`; `h` is multiplied by `d·c` both times -/
theorem betaRegStep_eq (fpmin a b qab qam qap x : α) (m : Int) (d c h : α) :
    betaRegStep fpmin a b qab qam qap x m (d, c, h) =
      let mf := (RFun.ofInt m : α)
      let m2 := mf * (2.0 : α)
      let aa1 := ((mf * (b - mf)) * x) / ((qam + m2) * (a + m2))
      let d1 := (1.0 : α) / lentzFloor fpmin ((1.0 : α) + (aa1 * d))
      let c1 := lentzFloor fpmin ((1.0 : α) + (aa1 / c))
      let h1 := (h * d1) * c1
      let aa2 := (((-(a + mf)) * (qab + mf)) * x) / ((a + m2) * (qap + m2))
      let d2 := (1.0 : α) / lentzFloor fpmin ((1.0 : α) + (aa2 * d1))
      let c2 := lentzFloor fpmin ((1.0 : α) + (aa2 / c1))
      ((d2, c2, h1 * (d2 * c2)), d2 * c2) := rfl

/-! ## 4. `checked_beta_reg` (beta.rs:138–234) -/

theorem checked_beta_reg_a_invalid (a b x : α) (ha : a ≤ (0.0 : α)) :
    F.beta.checked_beta_reg a b x = .error BetaFuncError.ANotGreaterThanZero := by
  unfold F.beta.checked_beta_reg; rw [if_pos ha]
theorem checked_beta_reg_b_invalid (a b x : α) (ha : ¬ a ≤ (0.0 : α)) (hb : b ≤ (0.0 : α)) :
    F.beta.checked_beta_reg a b x = .error BetaFuncError.BNotGreaterThanZero := by
  unfold F.beta.checked_beta_reg; rw [if_neg ha, if_pos hb]
theorem checked_beta_reg_x_invalid (a b x : α) (ha : ¬ a ≤ (0.0 : α)) (hb : ¬ b ≤ (0.0 : α))
    (hx : ¬ (((0.0 : α) ≤ x) ∧ (x ≤ (1.0 : α)))) :
    F.beta.checked_beta_reg a b x = .error BetaFuncError.XOutOfRange := by
  unfold F.beta.checked_beta_reg; rw [if_neg ha, if_neg hb, if_pos hx]
/-- `x < (a + 1)/(a + b + 2)` (as `¬ … ≤ x`): the continued fraction is run on `(a, b, x)` itself -/
theorem checked_beta_reg_noswap (a b x : α) (ha : ¬ a ≤ (0.0 : α)) (hb : ¬ b ≤ (0.0 : α))
    (hx : ¬ ¬ (((0.0 : α) ≤ x) ∧ (x ≤ (1.0 : α)))) (hs : ¬ (((a + (1.0 : α)) / ((a + b) + (2.0 : α))) ≤ x)) :
    F.beta.checked_beta_reg a b x = betaRegCf false (betaRegFront a b x) a b x := by
  unfold F.beta.checked_beta_reg
  rw [if_neg ha, if_neg hb, if_neg hx]
  have hd : decide (((a + (1.0 : α)) / ((a + b) + (2.0 : α))) ≤ x) = false := decide_eq_false hs
  dsimp only
  rw [hd]
  rfl
/-- `x ≥ (a + 1)/(a + b + 2)`: the continued fraction is run on `(b, a, 1 − x)` and the result is
    complemented (`bt` is NOT recomputed: it is symmetric) -/
theorem checked_beta_reg_swap (a b x : α) (ha : ¬ a ≤ (0.0 : α)) (hb : ¬ b ≤ (0.0 : α))
    (hx : ¬ ¬ (((0.0 : α) ≤ x) ∧ (x ≤ (1.0 : α)))) (hs : (((a + (1.0 : α)) / ((a + b) + (2.0 : α))) ≤ x)) :
    F.beta.checked_beta_reg a b x = betaRegCf true (betaRegFront a b x) b a ((1.0 : α) - x) := by
  unfold F.beta.checked_beta_reg
  rw [if_neg ha, if_neg hb, if_neg hx]
  have hd : decide (((a + (1.0 : α)) / ((a + b) + (2.0 : α))) ≤ x) = true := decide_eq_true hs
  dsimp only
  rw [hd]
  rfl

/-- beta.rs:138–234: the generated `checked_beta_reg` IS the Spec table `betaRegSpec` -/
theorem checked_beta_reg_eq_spec (a b x : α) : F.beta.checked_beta_reg a b x = betaRegSpec a b x := by
  simp only [betaRegSpec, firstMatch]
  by_cases ha : a ≤ (0.0 : α)
  · rw [checked_beta_reg_a_invalid a b x ha, if_pos ha]
  rw [if_neg ha]
  by_cases hb : b ≤ (0.0 : α)
  · rw [checked_beta_reg_b_invalid a b x ha hb, if_pos hb]
  rw [if_neg hb]
  by_cases hx : ¬ (((0.0 : α) ≤ x) ∧ (x ≤ (1.0 : α)))
  · rw [checked_beta_reg_x_invalid a b x ha hb hx, if_pos hx]
  rw [if_neg hx]
  by_cases hs : (((a + (1.0 : α)) / ((a + b) + (2.0 : α))) ≤ x)
  · rw [checked_beta_reg_swap a b x ha hb hx hs, if_pos (by simpa [betaRegSymm] using hs)]
  · rw [checked_beta_reg_noswap a b x ha hb hx hs, if_neg (by simpa [betaRegSymm] using hs)]

/-- the continued fraction with its literal start state, tolerance and iteration list:
    convergence inside the 140 iterations returns the value computed by the loop … -/
theorem betaRegCf_converged (symm : Bool) (bt a b x : α) (v : Except BetaFuncError α)
    (hloop : F.beta.checked_beta_reg.loop1 (rangeList (1 : Int) (141 : Int)) a b bt (R.prec.F64_PREC : α)
        ((RFun.minPositive : α) / (R.prec.F64_PREC : α)) (a + b) (a - (1.0 : α)) (a + (1.0 : α)) symm x
        ((1.0 : α) / lentzFloor ((RFun.minPositive : α) / (R.prec.F64_PREC : α)) ((1.0 : α) - (((a + b) * x) / (a + (1.0 : α)))))
        (1.0 : α)
        ((1.0 : α) / lentzFloor ((RFun.minPositive : α) / (R.prec.F64_PREC : α)) ((1.0 : α) - (((a + b) * x) / (a + (1.0 : α)))))
      = LoopR.ret v) :
    betaRegCf symm bt a b x = v := by
  unfold betaRegCf betaRegIters betaRegEps betaRegFpmin; dsimp only; rw [hloop]
/-- … and running through all 140 iterations returns the SAME expression from the final `h`
    (`1 − bt·h/a` when swapped, `bt·h/a` otherwise): non-convergence is silent -/
theorem betaRegCf_exhausted (symm : Bool) (bt a b x d c h : α)
    (hloop : F.beta.checked_beta_reg.loop1 (rangeList (1 : Int) (141 : Int)) a b bt (R.prec.F64_PREC : α)
        ((RFun.minPositive : α) / (R.prec.F64_PREC : α)) (a + b) (a - (1.0 : α)) (a + (1.0 : α)) symm x
        ((1.0 : α) / lentzFloor ((RFun.minPositive : α) / (R.prec.F64_PREC : α)) ((1.0 : α) - (((a + b) * x) / (a + (1.0 : α)))))
        (1.0 : α)
        ((1.0 : α) / lentzFloor ((RFun.minPositive : α) / (R.prec.F64_PREC : α)) ((1.0 : α) - (((a + b) * x) / (a + (1.0 : α)))))
      = LoopR.done (d, c, h)) :
    betaRegCf symm bt a b x = betaRegOut symm bt h a := by
  unfold betaRegCf betaRegIters betaRegEps betaRegFpmin; dsimp only; rw [hloop]
/-- the list-driven loop never reports `hang` -/
theorem beta_reg_loop1_ne_hang (l : List Int) (a b bt eps fpmin qab qam qap : α) (symm : Bool) (x d c h : α) :
    F.beta.checked_beta_reg.loop1 l a b bt eps fpmin qab qam qap symm x d c h ≠ LoopR.hang := by
  induction l generalizing d c h with
  | nil => rw [beta_reg_loop1_nil]; intro h'; cases h'
  | cons m l ih =>
    rw [beta_reg_loop1_cons]; split_ifs
    · intro h'; cases h'
    · exact ih _ _ _

end generic

/-! ## 5. `inv_beta_reg` (beta.rs:264–425) — hand model over IEEE doubles -/
section invBetaReg
open Statrs.Gen.FHand Statrs.Spec.FunctionBranches.InvBetaReg

theorem invBetaReg_fpu : InvBetaReg.fpu = (1e-30 : Float) := rfl
theorem invBetaReg_sae : InvBetaReg.sae = -30 := rfl
theorem invBetaReg_clamp : (InvBetaReg.clampLo, InvBetaReg.clampHi) = ((0.0001 : Float), (0.9999 : Float)) := rfl
/-- Hastings' coefficients `2.30753, 0.27061, 0.99229, 0.04481` -/
theorem invBetaReg_hastings (p : Float) :
    InvBetaReg.hastings p = p - (2.30753 + 0.27061 * p) / (1.0 + (0.99229 + 0.04481 * p) * p) := rfl

/-- beta.rs:264–425: the hand model IS the Spec table `InvBetaReg.spec` -/
theorem inv_beta_reg_eq_spec (a b x : Float) : FHand.F.beta.inv_beta_reg a b x = InvBetaReg.spec a b x := by
  unfold FHand.F.beta.inv_beta_reg InvBetaReg.spec
  simp only [firstMatch]
  by_cases h0 : (x == 0.0) = true
  · rw [if_pos h0, if_pos h0]
  rw [if_neg h0, if_neg h0]
  by_cases h1 : (x == 1.0) = true
  · rw [if_pos h1, if_pos h1]
  rw [if_neg h1, if_neg h1]
  by_cases hf : 0.5 < x
  · simp only [if_pos hf, InvBetaReg.start, InvBetaReg.startWilsonHilferty, firstMatch, InvBetaReg.acu]
    rfl
  · simp only [if_neg hf, InvBetaReg.start, InvBetaReg.startWilsonHilferty, firstMatch, InvBetaReg.acu]
    rfl

theorem inv_beta_reg_zero (a b x : Float) (h : (x == 0.0) = true) : FHand.F.beta.inv_beta_reg a b x = 0.0 := by
  unfold FHand.F.beta.inv_beta_reg; simp only [if_pos h]
theorem inv_beta_reg_one (a b x : Float) (h0 : ¬ (x == 0.0) = true) (h : (x == 1.0) = true) :
    FHand.F.beta.inv_beta_reg a b x = 1.0 := by
  unfold FHand.F.beta.inv_beta_reg; simp only [if_neg h0, if_pos h]
/-- `x ≤ 0.5`: Newton iteration on `(a, b, x)` from the clamped start value -/
theorem inv_beta_reg_direct (a b x : Float) (h0 : ¬ (x == 0.0) = true) (h1 : ¬ (x == 1.0) = true) (hf : ¬ 0.5 < x) :
    FHand.F.beta.inv_beta_reg a b x
      = FHand.F.beta.invOuter a b x (Gen.F.beta.ln_beta (α := Float) a b) (InvBetaReg.acu a x) (1e-30 : Float)
          (InvBetaReg.start a b x (Gen.F.beta.ln_beta (α := Float) a b)) 0.0 1.0 1.0 5000 := by
  rw [inv_beta_reg_eq_spec]; simp only [InvBetaReg.spec, firstMatch, if_neg h0, if_neg h1, if_neg hf]; rfl
/-- `0.5 < x`: the same on `(b, a, 1 − x)`, answer `1 − p` -/
theorem inv_beta_reg_flipped (a b x : Float) (h0 : ¬ (x == 0.0) = true) (h1 : ¬ (x == 1.0) = true) (hf : 0.5 < x) :
    FHand.F.beta.inv_beta_reg a b x
      = 1.0 - FHand.F.beta.invOuter b a (1.0 - x) (Gen.F.beta.ln_beta (α := Float) a b) (InvBetaReg.acu b (1.0 - x))
          (1e-30 : Float) (InvBetaReg.start b a (1.0 - x) (Gen.F.beta.ln_beta (α := Float) a b)) 0.0 1.0 1.0 5000 := by
  rw [inv_beta_reg_eq_spec]; simp only [InvBetaReg.spec, firstMatch, if_neg h0, if_neg h1, if_pos hf]; rfl

/-- start value, `1 < a ∧ 1 < b`: Carter (AS 109), clamped to `[0.0001, 0.9999]` -/
theorem invBetaReg_start_carter (a b x lnBeta : Float) (h : (1.0 < a && 1.0 < b) = true) :
    InvBetaReg.start a b x lnBeta
      = fclamp (InvBetaReg.startCarter a b (InvBetaReg.hastings (Float.sqrt (-(Float.log (x * x)))))) 0.0001 0.9999 := by
  simp only [InvBetaReg.start, firstMatch, if_pos h]; rfl
/-- otherwise: Wilson–Hilferty with its fall-backs (AS 64), clamped -/
theorem invBetaReg_start_wh (a b x lnBeta : Float) (h : ¬ (1.0 < a && 1.0 < b) = true) :
    InvBetaReg.start a b x lnBeta
      = fclamp (InvBetaReg.startWilsonHilferty a b x (InvBetaReg.hastings (Float.sqrt (-(Float.log (x * x))))) lnBeta)
          0.0001 0.9999 := by
  simp only [InvBetaReg.start, firstMatch, if_neg h]; rfl

/-- innermost loop (beta.rs:383–396): accept `g` when `sq = (g·q)² < prev` and `0 ≤ p − g·q ≤ 1`,
    else `g /= 3` -/
theorem invInner_step (p q prev g : Float) (fuel : Nat) :
    FHand.F.beta.invInner p q prev g (fuel + 1) =
      if ((g * q) * (g * q) < prev && (0.0 ≤ p - g * q && p - g * q ≤ 1.0)) = true then
        some (g, (g * q) * (g * q), p - g * q)
      else FHand.F.beta.invInner p q prev (g / 3.0) fuel := by
  rw [FHand.F.beta.invInner]
/-- middle loop (beta.rs:382–409): leave the OUTER loop when `prev ≤ acu ∨ q² ≤ acu`; accept the
    step when `pnext ∉ {0, 1}`; else `g /= 3` and retry -/
theorem invMiddle_step (p q prev acu g : Float) (fuel : Nat) :
    FHand.F.beta.invMiddle p q prev acu g (fuel + 1) =
      match FHand.F.beta.invInner p q prev g 5000 with
      | none => none
      | some (g, sq, pnext) =>
        if (prev ≤ acu || q * q ≤ acu) = true then some (sq, pnext, true)
        else if (pnext != 0.0 && pnext != 1.0) = true then some (sq, pnext, false)
        else FHand.F.beta.invMiddle p q prev acu (g / 3.0) fuel := by
  rw [FHand.F.beta.invMiddle]
  rcases FHand.F.beta.invInner p q prev g 5000 with _ | ⟨g', sq, pnext⟩ <;> rfl

end invBetaReg

/-! ## non-vacuity -/

example : ∃ a b x : ℝ, ¬ a ≤ (0.0 : ℝ) ∧ ¬ b ≤ (0.0 : ℝ) ∧ ¬ ¬ (((0.0 : ℝ) ≤ x) ∧ (x ≤ (1.0 : ℝ)))
    ∧ ¬ (((a + (1.0 : ℝ)) / ((a + b) + (2.0 : ℝ))) ≤ x) := ⟨1, 1, 1/4, by norm_num⟩
example : ∃ a b x : ℝ, ¬ a ≤ (0.0 : ℝ) ∧ ¬ b ≤ (0.0 : ℝ) ∧ ¬ ¬ (((0.0 : ℝ) ≤ x) ∧ (x ≤ (1.0 : ℝ)))
    ∧ (((a + (1.0 : ℝ)) / ((a + b) + (2.0 : ℝ))) ≤ x) := ⟨1, 1, 3/4, by norm_num⟩
example : ∃ x : ℝ, ¬ (((0.0 : ℝ) ≤ x) ∧ (x ≤ (1.0 : ℝ))) := ⟨2, by norm_num⟩
example : ¬ (((0.0 : Float) ≤ RFun.nan) ∧ ((RFun.nan : Float) ≤ 1.0)) := by decide
example : ∃ x : Float, ¬ (x == 0.0) = true ∧ ¬ (x == 1.0) = true ∧ 0.5 < x := ⟨0.75, by decide⟩
example : ∃ x : Float, ¬ (x == 0.0) = true ∧ ¬ (x == 1.0) = true ∧ ¬ 0.5 < x := ⟨0.25, by decide⟩
example : ∃ a b : Float, (1.0 < a && 1.0 < b) = true := ⟨2.0, 3.0, by decide⟩
example : ∃ a b : Float, ¬ (1.0 < a && 1.0 < b) = true := ⟨0.5, 3.0, by decide⟩

end Statrs.Props.C11.BranchPins
