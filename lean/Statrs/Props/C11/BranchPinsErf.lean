/-
  C11 — BRANCH PINS for src/function/erf.rs (`erf`, `erfc`, `erf_inv`, `erfc_inv`, `erf_impl`,
  `erf_inv_impl`).  Every theorem is branch logic and holds for EVERY carrier α (so also for IEEE
  doubles, NaN included: the hypotheses are exactly the outcomes of the model's own comparisons,
  `¬ z < c` is NOT replaced by `c ≤ z`).

  What is pinned (tables: `Statrs/Spec/FunctionBranches.lean`):
  1. the LENGTH of each of the 42 coefficient tables;
  2. the data tables `erfcPieces`, `erfInvPieces` themselves (number of rows, contiguity: the
     shift of piece k+1 is the cut point of piece k);
  3. whole-table theorems `F.erf.X = Spec table` (`*_eq_spec`): order of guards, literals, which
     coefficient table serves which interval;
  4. one theorem per function and per PIECE: under the guards of the piece, stated with the same
     literals, the generated function is the named expression of the piece.
  A moved cut point (e.g. `z < 1e-10` → `z < 1e-3`), two swapped guards, a table used on the wrong
  interval, a changed additive constant `b`/`y` or a lengthened/shortened table breaks a theorem.

  NOT here (cannot be proved for rational approximations): continuity across the cut points and
  accuracy against the true erf — both are decided by the reference-table search.
-/
import Mathlib.Tactic
import Statrs.Real.Simp
import Statrs.Inst.Float
import Statrs.Spec.FunctionBranches
namespace Statrs.Props.C11.BranchPins
open Statrs Statrs.Gen Statrs.Spec.FunctionBranches
set_option linter.unusedSectionVars false

section generic
variable {α : Type} [Add α] [Sub α] [Mul α] [Div α] [Neg α] [LT α] [LE α] [BEq α]
  [DecidableLT α] [DecidableLE α] [OfScientific α] [Inhabited α] [RFun α]

/-! ## 1. coefficient-table lengths (erf.rs:72–568) -/

theorem ERF_IMPL_AN_length : (F.erf.ERF_IMPL_AN (α := α)).length = 8 := rfl
theorem ERF_IMPL_AD_length : (F.erf.ERF_IMPL_AD (α := α)).length = 8 := rfl
theorem ERF_IMPL_BN_length : (F.erf.ERF_IMPL_BN (α := α)).length = 6 := rfl
theorem ERF_IMPL_BD_length : (F.erf.ERF_IMPL_BD (α := α)).length = 6 := rfl
theorem ERF_IMPL_CN_length : (F.erf.ERF_IMPL_CN (α := α)).length = 7 := rfl
theorem ERF_IMPL_CD_length : (F.erf.ERF_IMPL_CD (α := α)).length = 7 := rfl
theorem ERF_IMPL_DN_length : (F.erf.ERF_IMPL_DN (α := α)).length = 7 := rfl
theorem ERF_IMPL_DD_length : (F.erf.ERF_IMPL_DD (α := α)).length = 8 := rfl
theorem ERF_IMPL_EN_length : (F.erf.ERF_IMPL_EN (α := α)).length = 7 := rfl
theorem ERF_IMPL_ED_length : (F.erf.ERF_IMPL_ED (α := α)).length = 7 := rfl
theorem ERF_IMPL_FN_length : (F.erf.ERF_IMPL_FN (α := α)).length = 7 := rfl
theorem ERF_IMPL_FD_length : (F.erf.ERF_IMPL_FD (α := α)).length = 8 := rfl
theorem ERF_IMPL_GN_length : (F.erf.ERF_IMPL_GN (α := α)).length = 6 := rfl
theorem ERF_IMPL_GD_length : (F.erf.ERF_IMPL_GD (α := α)).length = 7 := rfl
theorem ERF_IMPL_HN_length : (F.erf.ERF_IMPL_HN (α := α)).length = 6 := rfl
theorem ERF_IMPL_HD_length : (F.erf.ERF_IMPL_HD (α := α)).length = 6 := rfl
theorem ERF_IMPL_IN_length : (F.erf.ERF_IMPL_IN (α := α)).length = 5 := rfl
theorem ERF_IMPL_ID_length : (F.erf.ERF_IMPL_ID (α := α)).length = 6 := rfl
theorem ERF_IMPL_JN_length : (F.erf.ERF_IMPL_JN (α := α)).length = 5 := rfl
theorem ERF_IMPL_JD_length : (F.erf.ERF_IMPL_JD (α := α)).length = 5 := rfl
theorem ERF_IMPL_KN_length : (F.erf.ERF_IMPL_KN (α := α)).length = 5 := rfl
theorem ERF_IMPL_KD_length : (F.erf.ERF_IMPL_KD (α := α)).length = 5 := rfl
theorem ERF_IMPL_LN_length : (F.erf.ERF_IMPL_LN (α := α)).length = 5 := rfl
theorem ERF_IMPL_LD_length : (F.erf.ERF_IMPL_LD (α := α)).length = 5 := rfl
theorem ERF_IMPL_MN_length : (F.erf.ERF_IMPL_MN (α := α)).length = 4 := rfl
theorem ERF_IMPL_MD_length : (F.erf.ERF_IMPL_MD (α := α)).length = 5 := rfl
theorem ERF_IMPL_NN_length : (F.erf.ERF_IMPL_NN (α := α)).length = 4 := rfl
theorem ERF_IMPL_ND_length : (F.erf.ERF_IMPL_ND (α := α)).length = 4 := rfl
theorem ERF_INV_IMPL_AN_length : (F.erf.ERF_INV_IMPL_AN (α := α)).length = 8 := rfl
theorem ERF_INV_IMPL_AD_length : (F.erf.ERF_INV_IMPL_AD (α := α)).length = 10 := rfl
theorem ERF_INV_IMPL_BN_length : (F.erf.ERF_INV_IMPL_BN (α := α)).length = 9 := rfl
theorem ERF_INV_IMPL_BD_length : (F.erf.ERF_INV_IMPL_BD (α := α)).length = 9 := rfl
theorem ERF_INV_IMPL_CN_length : (F.erf.ERF_INV_IMPL_CN (α := α)).length = 11 := rfl
theorem ERF_INV_IMPL_CD_length : (F.erf.ERF_INV_IMPL_CD (α := α)).length = 8 := rfl
theorem ERF_INV_IMPL_DN_length : (F.erf.ERF_INV_IMPL_DN (α := α)).length = 9 := rfl
theorem ERF_INV_IMPL_DD_length : (F.erf.ERF_INV_IMPL_DD (α := α)).length = 7 := rfl
theorem ERF_INV_IMPL_EN_length : (F.erf.ERF_INV_IMPL_EN (α := α)).length = 9 := rfl
theorem ERF_INV_IMPL_ED_length : (F.erf.ERF_INV_IMPL_ED (α := α)).length = 7 := rfl
theorem ERF_INV_IMPL_FN_length : (F.erf.ERF_INV_IMPL_FN (α := α)).length = 8 := rfl
theorem ERF_INV_IMPL_FD_length : (F.erf.ERF_INV_IMPL_FD (α := α)).length = 7 := rfl
theorem ERF_INV_IMPL_GN_length : (F.erf.ERF_INV_IMPL_GN (α := α)).length = 8 := rfl
theorem ERF_INV_IMPL_GD_length : (F.erf.ERF_INV_IMPL_GD (α := α)).length = 7 := rfl


/-! ## 2. the data tables of the Spec -/

theorem erfcPieces_length : (erfcPieces (α := α)).length = 12 := rfl
theorem erfInvPieces_length : (erfInvPieces (α := α)).length = 4 := rfl

/-- the 13 intervals of `[0.5, 110)` are contiguous: each guard literal `hi` is the shift `lo` of
    the next piece (so each rational approximation is expanded at the left end of its interval) -/
theorem erfcPieces_contiguous :
    (erfcPieces (α := α)).map (·.hi) = ((erfcPieces (α := α)).map (·.lo)).tail ++ [(erfcLastPiece (α := α)).lo] := rfl
/-- the guard literals of `erf_impl`'s inner chain, in order -/
theorem erfcPieces_cuts : (erfcPieces (α := α)).map (·.hi)
    = [(0.75 : α), 1.25, 2.25, 3.5, 5.25, 8.0, 11.5, 17.0, 24.0, 38.0, 60.0, 85.0] := rfl
theorem erfcPieces_first_lo : ((erfcPieces (α := α)).map (·.lo)).head? = some (0.5 : α) := rfl
theorem erfcLastPiece_hi : (erfcLastPiece (α := α)).hi = (110.0 : α) := rfl
/-- the guard literals of `erf_inv_impl`'s tail chain in `x = √(−ln q)`, in order; from piece D on the
    shift is the previous cut (piece C shifts by 1.125) -/
theorem erfInvPieces_cuts : (erfInvPieces (α := α)).map (·.hi) = [(3.0 : α), 6.0, 18.0, 44.0] := rfl
theorem erfInvPieces_shifts : (erfInvPieces (α := α)).map (·.shift) = [(1.125 : α), 3.0, 6.0, 18.0] := rfl
theorem erfInvLastShift_eq : (erfInvLastShift : α) = (44.0 : α) := rfl

/-! ## 3. whole-table theorems -/

/-- `erf_impl` is its fuelled recursion at depth `recFuel = 16` (reflection needs depth 2) -/
theorem erf_impl_fuel (z : α) (inv : Bool) : F.erf.erf_impl z inv = F.erf.erf_impl.rec (15 + 1) z inv := rfl

/-- the Spec tables of `erf_impl`, unfolded into plain `if … else if …` chains (definitional) -/
theorem erfImplSpec_chain (rec : α → Bool → α) (z : α) (inv : Bool) :
    erfImplSpec rec z inv =
      if z < (0.0 : α) then
        (if ¬ (inv = true) then -(rec (-z) false)
         else if z < (-(0.5 : α)) then (2.0 : α) - rec (-z) true else (1.0 : α) + rec (-z) false)
      else erfSelect z inv (erfImplResult z) := rfl
theorem erfImplResult_chain (z : α) :
    erfImplResult z = (if z < (0.5 : α) then (if z < (1e-10 : α) then erfLinear z else erfRatA z)
      else if z < (110.0 : α) then erfImplTail z else (0.0 : α)) := rfl
theorem erfSelect_chain (z : α) (inv : Bool) (result : α) : erfSelect z inv result =
    (if ((inv = true) ∧ ((0.5 : α) ≤ z)) then result
     else (if (((0.5 : α) ≤ z) ∨ (inv = true)) then ((1.0 : α) - result) else result)) := rfl
theorem erfImplTail_chain (z : α) : erfImplTail z =
    if z < (0.75 : α) then erfcTail z 0.5 0.3440242112 F.erf.ERF_IMPL_BN F.erf.ERF_IMPL_BD else
    if z < (1.25 : α) then erfcTail z 0.75 0.419990927 F.erf.ERF_IMPL_CN F.erf.ERF_IMPL_CD else
    if z < (2.25 : α) then erfcTail z 1.25 0.4898625016 F.erf.ERF_IMPL_DN F.erf.ERF_IMPL_DD else
    if z < (3.5 : α) then erfcTail z 2.25 0.5317370892 F.erf.ERF_IMPL_EN F.erf.ERF_IMPL_ED else
    if z < (5.25 : α) then erfcTail z 3.5 0.5489973426 F.erf.ERF_IMPL_FN F.erf.ERF_IMPL_FD else
    if z < (8.0 : α) then erfcTail z 5.25 0.5571740866 F.erf.ERF_IMPL_GN F.erf.ERF_IMPL_GD else
    if z < (11.5 : α) then erfcTail z 8.0 0.5609807968 F.erf.ERF_IMPL_HN F.erf.ERF_IMPL_HD else
    if z < (17.0 : α) then erfcTail z 11.5 0.5626493692 F.erf.ERF_IMPL_IN F.erf.ERF_IMPL_ID else
    if z < (24.0 : α) then erfcTail z 17.0 0.5634598136 F.erf.ERF_IMPL_JN F.erf.ERF_IMPL_JD else
    if z < (38.0 : α) then erfcTail z 24.0 0.5638477802 F.erf.ERF_IMPL_KN F.erf.ERF_IMPL_KD else
    if z < (60.0 : α) then erfcTail z 38.0 0.5640528202 F.erf.ERF_IMPL_LN F.erf.ERF_IMPL_LD else
    if z < (85.0 : α) then erfcTail z 60.0 0.5641309023 F.erf.ERF_IMPL_MN F.erf.ERF_IMPL_MD else
    erfcTail z 85.0 0.5641584396 F.erf.ERF_IMPL_NN F.erf.ERF_IMPL_ND := rfl

/-- erf.rs:572–687, every level: the generated `erf_impl` IS the Spec table `erfImplSpec` -/
theorem erf_impl_rec_eq_spec (n : Nat) (z : α) (inv : Bool) :
    F.erf.erf_impl.rec (n + 1) z inv = erfImplSpec (F.erf.erf_impl.rec n) z inv := by
  rw [F.erf.erf_impl.rec, erfImplSpec_chain, erfImplResult_chain, erfImplTail_chain, erfSelect_chain]
  by_cases h0 : z < (0.0 : α)
  · rw [if_pos h0, if_pos h0]
  · rw [if_neg h0, if_neg h0]
    by_cases hA : z < (0.5 : α)
    · rw [if_pos hA, if_pos hA]; rfl
    · rw [if_neg hA, if_neg hA]
      by_cases h110 : z < (110.0 : α)
      · rw [if_pos h110, if_pos h110]
        by_cases hB : z < (0.75 : α)
        · rw [if_pos hB, if_pos hB]; rfl
        rw [if_neg hB, if_neg hB]
        by_cases hC : z < (1.25 : α)
        · rw [if_pos hC, if_pos hC]; rfl
        rw [if_neg hC, if_neg hC]
        by_cases hD : z < (2.25 : α)
        · rw [if_pos hD, if_pos hD]; rfl
        rw [if_neg hD, if_neg hD]
        by_cases hE : z < (3.5 : α)
        · rw [if_pos hE, if_pos hE]; rfl
        rw [if_neg hE, if_neg hE]
        by_cases hF : z < (5.25 : α)
        · rw [if_pos hF, if_pos hF]; rfl
        rw [if_neg hF, if_neg hF]
        by_cases hG : z < (8.0 : α)
        · rw [if_pos hG, if_pos hG]; rfl
        rw [if_neg hG, if_neg hG]
        by_cases hH : z < (11.5 : α)
        · rw [if_pos hH, if_pos hH]; rfl
        rw [if_neg hH, if_neg hH]
        by_cases hI : z < (17.0 : α)
        · rw [if_pos hI, if_pos hI]; rfl
        rw [if_neg hI, if_neg hI]
        by_cases hJ : z < (24.0 : α)
        · rw [if_pos hJ, if_pos hJ]; rfl
        rw [if_neg hJ, if_neg hJ]
        by_cases hK : z < (38.0 : α)
        · rw [if_pos hK, if_pos hK]; rfl
        rw [if_neg hK, if_neg hK]
        by_cases hL : z < (60.0 : α)
        · rw [if_pos hL, if_pos hL]; rfl
        rw [if_neg hL, if_neg hL]
        by_cases hM : z < (85.0 : α)
        · rw [if_pos hM, if_pos hM]; rfl
        rw [if_neg hM, if_neg hM]
        rfl
      · rw [if_neg h110, if_neg h110]

theorem erf_impl_eq_spec (z : α) (inv : Bool) :
    F.erf.erf_impl z inv = erfImplSpec (F.erf.erf_impl.rec 15) z inv := erf_impl_rec_eq_spec 15 z inv

/-- erf.rs:688–741: the generated `erf_inv_impl` IS the Spec table `erfInvImplSpec` -/
theorem erf_inv_impl_eq_spec (p q s : α) : F.erf.erf_inv_impl p q s = erfInvImplSpec p q s := by
  unfold F.erf.erf_inv_impl
  simp only [erfInvImplSpec, erfInvPieces, ErfInvPiece.eval, List.map, firstMatch]
  split_ifs <;> rfl

theorem erf_eq_spec (x : α) : F.erf.erf x = erfSpec x := by
  unfold F.erf.erf; simp only [erfSpec, firstMatch]
theorem erfc_eq_spec (x : α) : F.erf.erfc x = erfcSpec x := by
  unfold F.erf.erfc; simp only [erfcSpec, firstMatch]
theorem erf_inv_eq_spec (x : α) : F.erf.erf_inv x = erfInvSpec x := by
  unfold F.erf.erf_inv; simp only [erfInvSpec, firstMatch]
theorem erfc_inv_eq_spec (x : α) : F.erf.erfc_inv x = erfcInvSpec x := by
  unfold F.erf.erfc_inv; simp only [erfcInvSpec, firstMatch]

/-! ## 4a. `erf_impl`, `z < 0` (erf.rs:573–581) and `0 ≤ z < 0.5` (erf.rs:593–601) -/

/-- `z < 0`, `inv = false`: `erf(z) = −erf(−z)` (raw form: the recursive call has one unit less fuel) -/
theorem erf_impl_neg_erf (z : α) (h0 : z < (0.0 : α)) :
    F.erf.erf_impl z false = -(F.erf.erf_impl.rec 15 (-z) false) := by
  rw [erf_impl_fuel, F.erf.erf_impl.rec]; simp only [if_pos h0]; rfl
/-- `z < −0.5`, `inv = true`: `erfc(z) = 2 − erfc(−z)` -/
theorem erf_impl_neg_erfc_far (z : α) (h0 : z < (0.0 : α)) (h1 : z < (-(0.5 : α))) :
    F.erf.erf_impl z true = (2.0 : α) - F.erf.erf_impl.rec 15 (-z) true := by
  rw [erf_impl_fuel, F.erf.erf_impl.rec]; simp only [if_pos h0, if_pos h1]; rfl
/-- `−0.5 ≤ z < 0`, `inv = true`: `erfc(z) = 1 + erf(−z)` -/
theorem erf_impl_neg_erfc_near (z : α) (h0 : z < (0.0 : α)) (h1 : ¬ z < (-(0.5 : α))) :
    F.erf.erf_impl z true = (1.0 : α) + F.erf.erf_impl.rec 15 (-z) false := by
  rw [erf_impl_fuel, F.erf.erf_impl.rec]; simp only [if_pos h0, if_neg h1]; rfl

/-- the fuel is irrelevant once the argument is not below 0 (no further recursion) -/
theorem erf_impl_rec_fuel_irrelevant (n m : Nat) (w : α) (inv : Bool) (h : ¬ w < (0.0 : α)) :
    F.erf.erf_impl.rec (n + 1) w inv = F.erf.erf_impl.rec (m + 1) w inv := by
  rw [F.erf.erf_impl.rec, F.erf.erf_impl.rec]; simp only [if_neg h]

/-- the three reflection pieces with the recursive call folded back into `erf_impl`
    (`¬ −z < 0` holds for every negative double and every negative real) -/
theorem erf_impl_neg_erf' (z : α) (h0 : z < (0.0 : α)) (h' : ¬ (-z) < (0.0 : α)) :
    F.erf.erf_impl z false = -(F.erf.erf_impl (-z) false) := by
  rw [erf_impl_neg_erf z h0, erf_impl_fuel (-z), erf_impl_rec_fuel_irrelevant 14 15 (-z) false h']
theorem erf_impl_neg_erfc_far' (z : α) (h0 : z < (0.0 : α)) (h1 : z < (-(0.5 : α))) (h' : ¬ (-z) < (0.0 : α)) :
    F.erf.erf_impl z true = (2.0 : α) - F.erf.erf_impl (-z) true := by
  rw [erf_impl_neg_erfc_far z h0 h1, erf_impl_fuel (-z), erf_impl_rec_fuel_irrelevant 14 15 (-z) true h']
theorem erf_impl_neg_erfc_near' (z : α) (h0 : z < (0.0 : α)) (h1 : ¬ z < (-(0.5 : α))) (h' : ¬ (-z) < (0.0 : α)) :
    F.erf.erf_impl z true = (1.0 : α) + F.erf.erf_impl (-z) false := by
  rw [erf_impl_neg_erfc_near z h0 h1, erf_impl_fuel (-z), erf_impl_rec_fuel_irrelevant 14 15 (-z) false h']

/-- piece A0, `z ∈ [0, 1e-10)`: the linear form `z·1.125 + z·0.0033791670955125738…` -/
theorem erf_impl_piece_A0 (z : α) (inv : Bool) (h0 : ¬ z < (0.0 : α)) (hA : z < (0.5 : α)) (hA0 : z < (1e-10 : α)) :
    F.erf.erf_impl z inv = erfSelect z inv
      ((z * (1.125 : α)) + (z * (0.003379167095512573896158903121545171688 : α))) := by
  rw [erf_impl_fuel, F.erf.erf_impl.rec]
  simp only [if_neg h0, if_pos hA, if_pos hA0]
  rfl
/-- piece A, `z ∈ [1e-10, 0.5)`: `z·1.125 + z·P(z)/Q(z)`, tables `ERF_IMPL_AN / ERF_IMPL_AD`, no shift -/
theorem erf_impl_piece_A (z : α) (inv : Bool) (h0 : ¬ z < (0.0 : α)) (hA : z < (0.5 : α)) (hA0 : ¬ z < (1e-10 : α)) :
    F.erf.erf_impl z inv = erfSelect z inv
      ((z * (1.125 : α)) + ((z * F.evaluate.polynomial z (F.erf.ERF_IMPL_AN (α := α)))
        / F.evaluate.polynomial z (F.erf.ERF_IMPL_AD (α := α)))) := by
  rw [erf_impl_fuel, F.erf.erf_impl.rec]
  simp only [if_neg h0, if_pos hA, if_neg hA0]
  rfl
/-- beyond the last piece (`¬ z < 110`, also NaN): `result = 0.0`, i.e. erfc underflows to 0 -/
theorem erf_impl_piece_beyond (z : α) (inv : Bool) (h0 : ¬ z < (0.0 : α)) (hA : ¬ z < (0.5 : α)) (h110 : ¬ z < (110.0 : α)) :
    F.erf.erf_impl z inv = erfSelect z inv (0.0 : α) := by
  rw [erf_impl_fuel, F.erf.erf_impl.rec]
  simp only [if_neg h0, if_neg hA, if_neg h110]
  rfl

/-- the named tail expression, written out: `g·b + g·(N(z−shift)/D(z−shift))`, `g = exp(−z·z)/z` -/
theorem erfcTail_eq (z shift b : α) (num den : List α) :
    erfcTail z shift b num den
      = ((RFun.exp ((-z) * z) / z) * b) + ((RFun.exp ((-z) * z) / z)
          * (F.evaluate.polynomial (z - shift) num / F.evaluate.polynomial (z - shift) den)) := rfl

/-- final selection (erf.rs:681–687), the three outcomes -/
theorem erfSelect_erfc_direct (z result : α) (h : (0.5 : α) ≤ z) : erfSelect z true result = result := by
  simp [erfSelect, firstMatch, h]
theorem erfSelect_complement (z : α) (inv : Bool) (result : α) (h1 : ¬ (inv = true ∧ (0.5 : α) ≤ z))
    (h2 : (0.5 : α) ≤ z ∨ inv = true) : erfSelect z inv result = (1.0 : α) - result := by
  simp only [erfSelect, firstMatch, if_neg h1, if_pos h2]
theorem erfSelect_erf_direct (z result : α) (h : ¬ (0.5 : α) ≤ z) : erfSelect z false result = result := by
  simp [erfSelect, firstMatch, h]

/-! ## 4. `erf_impl`, one theorem per piece of `[0.5, 110)` (erf.rs:602–680) -/

/-- piece B, `z ∈ [0.5, 0.75)`: shift `0.5`, tables `ERF_IMPL_BN / ERF_IMPL_BD`, `b = 0.3440242112` -/
theorem erf_impl_piece_B (z : α) (inv : Bool) (h0 : ¬ z < (0.0 : α)) (hA : ¬ z < (0.5 : α)) (h110 : z < (110.0 : α)) (hB : z < (0.75 : α)) :
    F.erf.erf_impl z inv = erfSelect z inv
      (erfcTail z (0.5 : α) (0.3440242112 : α) (F.erf.ERF_IMPL_BN (α := α)) (F.erf.ERF_IMPL_BD (α := α))) := by
  rw [erf_impl_fuel, F.erf.erf_impl.rec]
  simp only [if_neg h0, if_neg hA, if_pos h110, if_pos hB]
  rfl

/-- piece C, `z ∈ [0.75, 1.25)`: shift `0.75`, tables `ERF_IMPL_CN / ERF_IMPL_CD`, `b = 0.419990927` -/
theorem erf_impl_piece_C (z : α) (inv : Bool) (h0 : ¬ z < (0.0 : α)) (hA : ¬ z < (0.5 : α)) (h110 : z < (110.0 : α)) (hB : ¬ z < (0.75 : α)) (hC : z < (1.25 : α)) :
    F.erf.erf_impl z inv = erfSelect z inv
      (erfcTail z (0.75 : α) (0.419990927 : α) (F.erf.ERF_IMPL_CN (α := α)) (F.erf.ERF_IMPL_CD (α := α))) := by
  rw [erf_impl_fuel, F.erf.erf_impl.rec]
  simp only [if_neg h0, if_neg hA, if_pos h110, if_neg hB, if_pos hC]
  rfl

/-- piece D, `z ∈ [1.25, 2.25)`: shift `1.25`, tables `ERF_IMPL_DN / ERF_IMPL_DD`, `b = 0.4898625016` -/
theorem erf_impl_piece_D (z : α) (inv : Bool) (h0 : ¬ z < (0.0 : α)) (hA : ¬ z < (0.5 : α)) (h110 : z < (110.0 : α)) (hB : ¬ z < (0.75 : α)) (hC : ¬ z < (1.25 : α)) (hD : z < (2.25 : α)) :
    F.erf.erf_impl z inv = erfSelect z inv
      (erfcTail z (1.25 : α) (0.4898625016 : α) (F.erf.ERF_IMPL_DN (α := α)) (F.erf.ERF_IMPL_DD (α := α))) := by
  rw [erf_impl_fuel, F.erf.erf_impl.rec]
  simp only [if_neg h0, if_neg hA, if_pos h110, if_neg hB, if_neg hC, if_pos hD]
  rfl

/-- piece E, `z ∈ [2.25, 3.5)`: shift `2.25`, tables `ERF_IMPL_EN / ERF_IMPL_ED`, `b = 0.5317370892` -/
theorem erf_impl_piece_E (z : α) (inv : Bool) (h0 : ¬ z < (0.0 : α)) (hA : ¬ z < (0.5 : α)) (h110 : z < (110.0 : α)) (hB : ¬ z < (0.75 : α)) (hC : ¬ z < (1.25 : α)) (hD : ¬ z < (2.25 : α)) (hE : z < (3.5 : α)) :
    F.erf.erf_impl z inv = erfSelect z inv
      (erfcTail z (2.25 : α) (0.5317370892 : α) (F.erf.ERF_IMPL_EN (α := α)) (F.erf.ERF_IMPL_ED (α := α))) := by
  rw [erf_impl_fuel, F.erf.erf_impl.rec]
  simp only [if_neg h0, if_neg hA, if_pos h110, if_neg hB, if_neg hC, if_neg hD, if_pos hE]
  rfl

/-- piece F, `z ∈ [3.5, 5.25)`: shift `3.5`, tables `ERF_IMPL_FN / ERF_IMPL_FD`, `b = 0.5489973426` -/
theorem erf_impl_piece_F (z : α) (inv : Bool) (h0 : ¬ z < (0.0 : α)) (hA : ¬ z < (0.5 : α)) (h110 : z < (110.0 : α)) (hB : ¬ z < (0.75 : α)) (hC : ¬ z < (1.25 : α)) (hD : ¬ z < (2.25 : α)) (hE : ¬ z < (3.5 : α)) (hF : z < (5.25 : α)) :
    F.erf.erf_impl z inv = erfSelect z inv
      (erfcTail z (3.5 : α) (0.5489973426 : α) (F.erf.ERF_IMPL_FN (α := α)) (F.erf.ERF_IMPL_FD (α := α))) := by
  rw [erf_impl_fuel, F.erf.erf_impl.rec]
  simp only [if_neg h0, if_neg hA, if_pos h110, if_neg hB, if_neg hC, if_neg hD, if_neg hE, if_pos hF]
  rfl

/-- piece G, `z ∈ [5.25, 8.0)`: shift `5.25`, tables `ERF_IMPL_GN / ERF_IMPL_GD`, `b = 0.5571740866` -/
theorem erf_impl_piece_G (z : α) (inv : Bool) (h0 : ¬ z < (0.0 : α)) (hA : ¬ z < (0.5 : α)) (h110 : z < (110.0 : α)) (hB : ¬ z < (0.75 : α)) (hC : ¬ z < (1.25 : α)) (hD : ¬ z < (2.25 : α)) (hE : ¬ z < (3.5 : α)) (hF : ¬ z < (5.25 : α)) (hG : z < (8.0 : α)) :
    F.erf.erf_impl z inv = erfSelect z inv
      (erfcTail z (5.25 : α) (0.5571740866 : α) (F.erf.ERF_IMPL_GN (α := α)) (F.erf.ERF_IMPL_GD (α := α))) := by
  rw [erf_impl_fuel, F.erf.erf_impl.rec]
  simp only [if_neg h0, if_neg hA, if_pos h110, if_neg hB, if_neg hC, if_neg hD, if_neg hE, if_neg hF, if_pos hG]
  rfl

/-- piece H, `z ∈ [8.0, 11.5)`: shift `8.0`, tables `ERF_IMPL_HN / ERF_IMPL_HD`, `b = 0.5609807968` -/
theorem erf_impl_piece_H (z : α) (inv : Bool) (h0 : ¬ z < (0.0 : α)) (hA : ¬ z < (0.5 : α)) (h110 : z < (110.0 : α)) (hB : ¬ z < (0.75 : α)) (hC : ¬ z < (1.25 : α)) (hD : ¬ z < (2.25 : α)) (hE : ¬ z < (3.5 : α)) (hF : ¬ z < (5.25 : α)) (hG : ¬ z < (8.0 : α)) (hH : z < (11.5 : α)) :
    F.erf.erf_impl z inv = erfSelect z inv
      (erfcTail z (8.0 : α) (0.5609807968 : α) (F.erf.ERF_IMPL_HN (α := α)) (F.erf.ERF_IMPL_HD (α := α))) := by
  rw [erf_impl_fuel, F.erf.erf_impl.rec]
  simp only [if_neg h0, if_neg hA, if_pos h110, if_neg hB, if_neg hC, if_neg hD, if_neg hE, if_neg hF, if_neg hG, if_pos hH]
  rfl

/-- piece I, `z ∈ [11.5, 17.0)`: shift `11.5`, tables `ERF_IMPL_IN / ERF_IMPL_ID`, `b = 0.5626493692` -/
theorem erf_impl_piece_I (z : α) (inv : Bool) (h0 : ¬ z < (0.0 : α)) (hA : ¬ z < (0.5 : α)) (h110 : z < (110.0 : α)) (hB : ¬ z < (0.75 : α)) (hC : ¬ z < (1.25 : α)) (hD : ¬ z < (2.25 : α)) (hE : ¬ z < (3.5 : α)) (hF : ¬ z < (5.25 : α)) (hG : ¬ z < (8.0 : α)) (hH : ¬ z < (11.5 : α)) (hI : z < (17.0 : α)) :
    F.erf.erf_impl z inv = erfSelect z inv
      (erfcTail z (11.5 : α) (0.5626493692 : α) (F.erf.ERF_IMPL_IN (α := α)) (F.erf.ERF_IMPL_ID (α := α))) := by
  rw [erf_impl_fuel, F.erf.erf_impl.rec]
  simp only [if_neg h0, if_neg hA, if_pos h110, if_neg hB, if_neg hC, if_neg hD, if_neg hE, if_neg hF, if_neg hG, if_neg hH, if_pos hI]
  rfl

/-- piece J, `z ∈ [17.0, 24.0)`: shift `17.0`, tables `ERF_IMPL_JN / ERF_IMPL_JD`, `b = 0.5634598136` -/
theorem erf_impl_piece_J (z : α) (inv : Bool) (h0 : ¬ z < (0.0 : α)) (hA : ¬ z < (0.5 : α)) (h110 : z < (110.0 : α)) (hB : ¬ z < (0.75 : α)) (hC : ¬ z < (1.25 : α)) (hD : ¬ z < (2.25 : α)) (hE : ¬ z < (3.5 : α)) (hF : ¬ z < (5.25 : α)) (hG : ¬ z < (8.0 : α)) (hH : ¬ z < (11.5 : α)) (hI : ¬ z < (17.0 : α)) (hJ : z < (24.0 : α)) :
    F.erf.erf_impl z inv = erfSelect z inv
      (erfcTail z (17.0 : α) (0.5634598136 : α) (F.erf.ERF_IMPL_JN (α := α)) (F.erf.ERF_IMPL_JD (α := α))) := by
  rw [erf_impl_fuel, F.erf.erf_impl.rec]
  simp only [if_neg h0, if_neg hA, if_pos h110, if_neg hB, if_neg hC, if_neg hD, if_neg hE, if_neg hF, if_neg hG, if_neg hH, if_neg hI, if_pos hJ]
  rfl

/-- piece K, `z ∈ [24.0, 38.0)`: shift `24.0`, tables `ERF_IMPL_KN / ERF_IMPL_KD`, `b = 0.5638477802` -/
theorem erf_impl_piece_K (z : α) (inv : Bool) (h0 : ¬ z < (0.0 : α)) (hA : ¬ z < (0.5 : α)) (h110 : z < (110.0 : α)) (hB : ¬ z < (0.75 : α)) (hC : ¬ z < (1.25 : α)) (hD : ¬ z < (2.25 : α)) (hE : ¬ z < (3.5 : α)) (hF : ¬ z < (5.25 : α)) (hG : ¬ z < (8.0 : α)) (hH : ¬ z < (11.5 : α)) (hI : ¬ z < (17.0 : α)) (hJ : ¬ z < (24.0 : α)) (hK : z < (38.0 : α)) :
    F.erf.erf_impl z inv = erfSelect z inv
      (erfcTail z (24.0 : α) (0.5638477802 : α) (F.erf.ERF_IMPL_KN (α := α)) (F.erf.ERF_IMPL_KD (α := α))) := by
  rw [erf_impl_fuel, F.erf.erf_impl.rec]
  simp only [if_neg h0, if_neg hA, if_pos h110, if_neg hB, if_neg hC, if_neg hD, if_neg hE, if_neg hF, if_neg hG, if_neg hH, if_neg hI, if_neg hJ, if_pos hK]
  rfl

/-- piece L, `z ∈ [38.0, 60.0)`: shift `38.0`, tables `ERF_IMPL_LN / ERF_IMPL_LD`, `b = 0.5640528202` -/
theorem erf_impl_piece_L (z : α) (inv : Bool) (h0 : ¬ z < (0.0 : α)) (hA : ¬ z < (0.5 : α)) (h110 : z < (110.0 : α)) (hB : ¬ z < (0.75 : α)) (hC : ¬ z < (1.25 : α)) (hD : ¬ z < (2.25 : α)) (hE : ¬ z < (3.5 : α)) (hF : ¬ z < (5.25 : α)) (hG : ¬ z < (8.0 : α)) (hH : ¬ z < (11.5 : α)) (hI : ¬ z < (17.0 : α)) (hJ : ¬ z < (24.0 : α)) (hK : ¬ z < (38.0 : α)) (hL : z < (60.0 : α)) :
    F.erf.erf_impl z inv = erfSelect z inv
      (erfcTail z (38.0 : α) (0.5640528202 : α) (F.erf.ERF_IMPL_LN (α := α)) (F.erf.ERF_IMPL_LD (α := α))) := by
  rw [erf_impl_fuel, F.erf.erf_impl.rec]
  simp only [if_neg h0, if_neg hA, if_pos h110, if_neg hB, if_neg hC, if_neg hD, if_neg hE, if_neg hF, if_neg hG, if_neg hH, if_neg hI, if_neg hJ, if_neg hK, if_pos hL]
  rfl

/-- piece M, `z ∈ [60.0, 85.0)`: shift `60.0`, tables `ERF_IMPL_MN / ERF_IMPL_MD`, `b = 0.5641309023` -/
theorem erf_impl_piece_M (z : α) (inv : Bool) (h0 : ¬ z < (0.0 : α)) (hA : ¬ z < (0.5 : α)) (h110 : z < (110.0 : α)) (hB : ¬ z < (0.75 : α)) (hC : ¬ z < (1.25 : α)) (hD : ¬ z < (2.25 : α)) (hE : ¬ z < (3.5 : α)) (hF : ¬ z < (5.25 : α)) (hG : ¬ z < (8.0 : α)) (hH : ¬ z < (11.5 : α)) (hI : ¬ z < (17.0 : α)) (hJ : ¬ z < (24.0 : α)) (hK : ¬ z < (38.0 : α)) (hL : ¬ z < (60.0 : α)) (hM : z < (85.0 : α)) :
    F.erf.erf_impl z inv = erfSelect z inv
      (erfcTail z (60.0 : α) (0.5641309023 : α) (F.erf.ERF_IMPL_MN (α := α)) (F.erf.ERF_IMPL_MD (α := α))) := by
  rw [erf_impl_fuel, F.erf.erf_impl.rec]
  simp only [if_neg h0, if_neg hA, if_pos h110, if_neg hB, if_neg hC, if_neg hD, if_neg hE, if_neg hF, if_neg hG, if_neg hH, if_neg hI, if_neg hJ, if_neg hK, if_neg hL, if_pos hM]
  rfl

/-- piece N, `z ∈ [85.0, 110.0)`: shift `85.0`, tables `ERF_IMPL_NN / ERF_IMPL_ND`, `b = 0.5641584396` -/
theorem erf_impl_piece_N (z : α) (inv : Bool) (h0 : ¬ z < (0.0 : α)) (hA : ¬ z < (0.5 : α)) (h110 : z < (110.0 : α)) (hB : ¬ z < (0.75 : α)) (hC : ¬ z < (1.25 : α)) (hD : ¬ z < (2.25 : α)) (hE : ¬ z < (3.5 : α)) (hF : ¬ z < (5.25 : α)) (hG : ¬ z < (8.0 : α)) (hH : ¬ z < (11.5 : α)) (hI : ¬ z < (17.0 : α)) (hJ : ¬ z < (24.0 : α)) (hK : ¬ z < (38.0 : α)) (hL : ¬ z < (60.0 : α)) (hM : ¬ z < (85.0 : α)) :
    F.erf.erf_impl z inv = erfSelect z inv
      (erfcTail z (85.0 : α) (0.5641584396 : α) (F.erf.ERF_IMPL_NN (α := α)) (F.erf.ERF_IMPL_ND (α := α))) := by
  rw [erf_impl_fuel, F.erf.erf_impl.rec]
  simp only [if_neg h0, if_neg hA, if_pos h110, if_neg hB, if_neg hC, if_neg hD, if_neg hE, if_neg hF, if_neg hG, if_neg hH, if_neg hI, if_neg hJ, if_neg hK, if_neg hL, if_neg hM]
  rfl

/-! ## 5. `erf_inv_impl`, one theorem per piece (erf.rs:688–741) -/

/-- piece A, `p ≤ 0.5`: `s·(g·y + g·R(p))`, `g = p(p+10)`, `y = 0.0891314744949340820313`,
    tables `ERF_INV_IMPL_AN / _AD`, no shift -/
theorem erf_inv_impl_piece_A (p q s : α) (hA : p ≤ (0.5 : α)) :
    F.erf.erf_inv_impl p q s = s * (((p * (p + (10.0 : α))) * (0.0891314744949340820313 : α))
      + ((p * (p + (10.0 : α))) * (F.evaluate.polynomial p (F.erf.ERF_INV_IMPL_AN (α := α))
          / F.evaluate.polynomial p (F.erf.ERF_INV_IMPL_AD (α := α))))) := by
  unfold F.erf.erf_inv_impl; simp only [if_pos hA]
/-- piece B, `¬ p ≤ 0.5`, `q ≥ 0.25`: `s·g/(y + R(q − 0.25))`, `g = √(−2 ln q)`, `y = 2.249481201171875`,
    tables `ERF_INV_IMPL_BN / _BD` -/
theorem erf_inv_impl_piece_B (p q s : α) (hA : ¬ p ≤ (0.5 : α)) (hB : (0.25 : α) ≤ q) :
    F.erf.erf_inv_impl p q s = s * (RFun.sqrt ((-(2.0 : α)) * RFun.ln q) / ((2.249481201171875 : α)
      + (F.evaluate.polynomial (q - (0.25 : α)) (F.erf.ERF_INV_IMPL_BN (α := α))
          / F.evaluate.polynomial (q - (0.25 : α)) (F.erf.ERF_INV_IMPL_BD (α := α))))) := by
  unfold F.erf.erf_inv_impl; simp only [if_neg hA, if_pos hB]
/-- piece C, `x = √(−ln q) < 3`: `y = 0.807220458984375`, shift `1.125`, tables `_CN / _CD` -/
theorem erf_inv_impl_piece_C (p q s : α) (hA : ¬ p ≤ (0.5 : α)) (hB : ¬ (0.25 : α) ≤ q)
    (hC : RFun.sqrt (-(RFun.ln q)) < (3.0 : α)) :
    F.erf.erf_inv_impl p q s = s * erfInvTail (RFun.sqrt (-(RFun.ln q))) (0.807220458984375 : α) (1.125 : α)
      (F.erf.ERF_INV_IMPL_CN (α := α)) (F.erf.ERF_INV_IMPL_CD (α := α)) := by
  unfold F.erf.erf_inv_impl; simp only [if_neg hA, if_neg hB, if_pos hC]; rfl
/-- piece D, `3 ≤ x < 6`: `y = 0.93995571136474609375`, shift `3`, tables `_DN / _DD` -/
theorem erf_inv_impl_piece_D (p q s : α) (hA : ¬ p ≤ (0.5 : α)) (hB : ¬ (0.25 : α) ≤ q)
    (hC : ¬ RFun.sqrt (-(RFun.ln q)) < (3.0 : α)) (hD : RFun.sqrt (-(RFun.ln q)) < (6.0 : α)) :
    F.erf.erf_inv_impl p q s = s * erfInvTail (RFun.sqrt (-(RFun.ln q))) (0.93995571136474609375 : α) (3.0 : α)
      (F.erf.ERF_INV_IMPL_DN (α := α)) (F.erf.ERF_INV_IMPL_DD (α := α)) := by
  unfold F.erf.erf_inv_impl; simp only [if_neg hA, if_neg hB, if_neg hC, if_pos hD]; rfl
/-- piece E, `6 ≤ x < 18`: `y = 0.98362827301025390625`, shift `6`, tables `_EN / _ED` -/
theorem erf_inv_impl_piece_E (p q s : α) (hA : ¬ p ≤ (0.5 : α)) (hB : ¬ (0.25 : α) ≤ q)
    (hC : ¬ RFun.sqrt (-(RFun.ln q)) < (3.0 : α)) (hD : ¬ RFun.sqrt (-(RFun.ln q)) < (6.0 : α))
    (hE : RFun.sqrt (-(RFun.ln q)) < (18.0 : α)) :
    F.erf.erf_inv_impl p q s = s * erfInvTail (RFun.sqrt (-(RFun.ln q))) (0.98362827301025390625 : α) (6.0 : α)
      (F.erf.ERF_INV_IMPL_EN (α := α)) (F.erf.ERF_INV_IMPL_ED (α := α)) := by
  unfold F.erf.erf_inv_impl; simp only [if_neg hA, if_neg hB, if_neg hC, if_neg hD, if_pos hE]; rfl
/-- piece F, `18 ≤ x < 44`: `y = 0.99714565277099609375`, shift `18`, tables `_FN / _FD` -/
theorem erf_inv_impl_piece_F (p q s : α) (hA : ¬ p ≤ (0.5 : α)) (hB : ¬ (0.25 : α) ≤ q)
    (hC : ¬ RFun.sqrt (-(RFun.ln q)) < (3.0 : α)) (hD : ¬ RFun.sqrt (-(RFun.ln q)) < (6.0 : α))
    (hE : ¬ RFun.sqrt (-(RFun.ln q)) < (18.0 : α)) (hF : RFun.sqrt (-(RFun.ln q)) < (44.0 : α)) :
    F.erf.erf_inv_impl p q s = s * erfInvTail (RFun.sqrt (-(RFun.ln q))) (0.99714565277099609375 : α) (18.0 : α)
      (F.erf.ERF_INV_IMPL_FN (α := α)) (F.erf.ERF_INV_IMPL_FD (α := α)) := by
  unfold F.erf.erf_inv_impl; simp only [if_neg hA, if_neg hB, if_neg hC, if_neg hD, if_neg hE, if_pos hF]; rfl
/-- piece G, `x ≥ 44` (the `else`): `y = 0.99941349029541015625`, shift `44`, tables `_GN / _GD` -/
theorem erf_inv_impl_piece_G (p q s : α) (hA : ¬ p ≤ (0.5 : α)) (hB : ¬ (0.25 : α) ≤ q)
    (hC : ¬ RFun.sqrt (-(RFun.ln q)) < (3.0 : α)) (hD : ¬ RFun.sqrt (-(RFun.ln q)) < (6.0 : α))
    (hE : ¬ RFun.sqrt (-(RFun.ln q)) < (18.0 : α)) (hF : ¬ RFun.sqrt (-(RFun.ln q)) < (44.0 : α)) :
    F.erf.erf_inv_impl p q s = s * erfInvTail (RFun.sqrt (-(RFun.ln q))) (0.99941349029541015625 : α) (44.0 : α)
      (F.erf.ERF_INV_IMPL_GN (α := α)) (F.erf.ERF_INV_IMPL_GD (α := α)) := by
  unfold F.erf.erf_inv_impl; simp only [if_neg hA, if_neg hB, if_neg hC, if_neg hD, if_neg hE, if_neg hF]; rfl

/-- the named tail expression of `erf_inv_impl`, written out: `y·x + R(x − shift)·x` -/
theorem erfInvTail_eq (x y shift : α) (num den : List α) :
    erfInvTail x y shift num den
      = (y * x) + ((F.evaluate.polynomial (x - shift) num / F.evaluate.polynomial (x - shift) den) * x) := rfl

/-! ## 6. the public wrappers, one theorem per guard (erf.rs:8–66) -/

theorem erf_nan (x : α) (h : RFun.isNaN x = true) : F.erf.erf x = (RFun.nan : α) := by
  unfold F.erf.erf; simp only [if_pos h]
theorem erf_posInf (x : α) (h : ¬ RFun.isNaN x = true) (h1 : (0.0 : α) ≤ x ∧ RFun.isInf x = true) :
    F.erf.erf x = (1.0 : α) := by
  unfold F.erf.erf; simp only [if_neg h, if_pos h1]
theorem erf_negInf (x : α) (h : ¬ RFun.isNaN x = true) (h1 : ¬ ((0.0 : α) ≤ x ∧ RFun.isInf x = true))
    (h2 : x ≤ (0.0 : α) ∧ RFun.isInf x = true) : F.erf.erf x = -(1.0 : α) := by
  unfold F.erf.erf; simp only [if_neg h, if_neg h1, if_pos h2]
theorem erf_at_zero (x : α) (h : ¬ RFun.isNaN x = true) (h1 : ¬ ((0.0 : α) ≤ x ∧ RFun.isInf x = true))
    (h2 : ¬ (x ≤ (0.0 : α) ∧ RFun.isInf x = true)) (h3 : (x == (0.0 : α)) = true) : F.erf.erf x = (0.0 : α) := by
  unfold F.erf.erf; simp only [if_neg h, if_neg h1, if_neg h2, if_pos h3]
theorem erf_kernel (x : α) (h : ¬ RFun.isNaN x = true) (h1 : ¬ ((0.0 : α) ≤ x ∧ RFun.isInf x = true))
    (h2 : ¬ (x ≤ (0.0 : α) ∧ RFun.isInf x = true)) (h3 : ¬ (x == (0.0 : α)) = true) :
    F.erf.erf x = F.erf.erf_impl x false := by
  unfold F.erf.erf; simp only [if_neg h, if_neg h1, if_neg h2, if_neg h3]

theorem erfc_nan (x : α) (h : RFun.isNaN x = true) : F.erf.erfc x = (RFun.nan : α) := by
  unfold F.erf.erfc; simp only [if_pos h]
theorem erfc_posInf (x : α) (h : ¬ RFun.isNaN x = true) (h1 : (x == (RFun.inf : α)) = true) :
    F.erf.erfc x = (0.0 : α) := by
  unfold F.erf.erfc; simp only [if_neg h, if_pos h1]
theorem erfc_negInf (x : α) (h : ¬ RFun.isNaN x = true) (h1 : ¬ (x == (RFun.inf : α)) = true)
    (h2 : (x == (RFun.negInf : α)) = true) : F.erf.erfc x = (2.0 : α) := by
  unfold F.erf.erfc; simp only [if_neg h, if_neg h1, if_pos h2]
theorem erfc_kernel (x : α) (h : ¬ RFun.isNaN x = true) (h1 : ¬ (x == (RFun.inf : α)) = true)
    (h2 : ¬ (x == (RFun.negInf : α)) = true) : F.erf.erfc x = F.erf.erf_impl x true := by
  unfold F.erf.erfc; simp only [if_neg h, if_neg h1, if_neg h2]

theorem erf_inv_at_zero (x : α) (h : (x == (0.0 : α)) = true) : F.erf.erf_inv x = (0.0 : α) := by
  unfold F.erf.erf_inv; simp only [if_pos h]
theorem erf_inv_ge_one (x : α) (h : ¬ (x == (0.0 : α)) = true) (h1 : (1.0 : α) ≤ x) :
    F.erf.erf_inv x = (RFun.inf : α) := by
  unfold F.erf.erf_inv; simp only [if_neg h, if_pos h1]
theorem erf_inv_le_neg_one (x : α) (h : ¬ (x == (0.0 : α)) = true) (h1 : ¬ (1.0 : α) ≤ x) (h2 : x ≤ (-(1.0 : α))) :
    F.erf.erf_inv x = (RFun.negInf : α) := by
  unfold F.erf.erf_inv; simp only [if_neg h, if_neg h1, if_pos h2]
/-- `−1 < x < 0`: kernel at `(p, q, s) = (−x, 1 + x, −1)` -/
theorem erf_inv_negative (x : α) (h : ¬ (x == (0.0 : α)) = true) (h1 : ¬ (1.0 : α) ≤ x) (h2 : ¬ x ≤ (-(1.0 : α)))
    (h3 : x < (0.0 : α)) : F.erf.erf_inv x = F.erf.erf_inv_impl (-x) ((1.0 : α) + x) (-(1.0 : α)) := by
  unfold F.erf.erf_inv; simp only [if_neg h, if_neg h1, if_neg h2, if_pos h3]
/-- `0 < x < 1`: kernel at `(p, q, s) = (x, 1 − x, 1)` -/
theorem erf_inv_positive (x : α) (h : ¬ (x == (0.0 : α)) = true) (h1 : ¬ (1.0 : α) ≤ x) (h2 : ¬ x ≤ (-(1.0 : α)))
    (h3 : ¬ x < (0.0 : α)) : F.erf.erf_inv x = F.erf.erf_inv_impl x ((1.0 : α) - x) (1.0 : α) := by
  unfold F.erf.erf_inv; simp only [if_neg h, if_neg h1, if_neg h2, if_neg h3]

theorem erfc_inv_le_zero (x : α) (h : x ≤ (0.0 : α)) : F.erf.erfc_inv x = (RFun.inf : α) := by
  unfold F.erf.erfc_inv; simp only [if_pos h]
theorem erfc_inv_ge_two (x : α) (h : ¬ x ≤ (0.0 : α)) (h1 : (2.0 : α) ≤ x) : F.erf.erfc_inv x = (RFun.negInf : α) := by
  unfold F.erf.erfc_inv; simp only [if_neg h, if_pos h1]
/-- `1 < x < 2`: kernel at `(p, q, s) = (−1 + x, 2 − x, −1)` -/
theorem erfc_inv_upper (x : α) (h : ¬ x ≤ (0.0 : α)) (h1 : ¬ (2.0 : α) ≤ x) (h2 : (1.0 : α) < x) :
    F.erf.erfc_inv x = F.erf.erf_inv_impl ((-(1.0 : α)) + x) ((2.0 : α) - x) (-(1.0 : α)) := by
  unfold F.erf.erfc_inv; simp only [if_neg h, if_neg h1, if_pos h2]
/-- `0 < x ≤ 1`: kernel at `(p, q, s) = (1 − x, x, 1)` -/
theorem erfc_inv_lower (x : α) (h : ¬ x ≤ (0.0 : α)) (h1 : ¬ (2.0 : α) ≤ x) (h2 : ¬ (1.0 : α) < x) :
    F.erf.erfc_inv x = F.erf.erf_inv_impl ((1.0 : α) - x) x (1.0 : α) := by
  unfold F.erf.erfc_inv; simp only [if_neg h, if_neg h1, if_neg h2]

end generic

/-! ## non-vacuity: over ℝ every guard combination used above is inhabited -/
/-- reflection pieces: `z = −1` (far), `z = −1/4` (near); the folding hypothesis `¬ −z < 0` holds -/
example : ∃ z : ℝ, z < (0.0 : ℝ) ∧ z < (-(0.5 : ℝ)) ∧ ¬ (-z) < (0.0 : ℝ) := ⟨-1, by norm_num⟩
example : ∃ z : ℝ, z < (0.0 : ℝ) ∧ ¬ z < (-(0.5 : ℝ)) ∧ ¬ (-z) < (0.0 : ℝ) := ⟨-1/4, by norm_num⟩
/-- pieces A0, A, and beyond -/
example : ∃ z : ℝ, ¬ z < (0.0 : ℝ) ∧ z < (0.5 : ℝ) ∧ z < (1e-10 : ℝ) := ⟨0, by norm_num⟩
example : ∃ z : ℝ, ¬ z < (0.0 : ℝ) ∧ z < (0.5 : ℝ) ∧ ¬ z < (1e-10 : ℝ) := ⟨1/4, by norm_num⟩
example : ∃ z : ℝ, ¬ z < (0.0 : ℝ) ∧ ¬ z < (0.5 : ℝ) ∧ ¬ z < (110.0 : ℝ) := ⟨200, by norm_num⟩
/-- …and a NaN double falls through every `<` guard into the `beyond` piece -/
example : ¬ (RFun.nan : Float) < (0.0 : Float) ∧ ¬ (RFun.nan : Float) < (0.5 : Float) ∧ ¬ (RFun.nan : Float) < (110.0 : Float) := by decide
/-- pieces B … N: one interior point each -/
example : ∃ z : ℝ, ¬ z < (0.0 : ℝ) ∧ ¬ z < (0.5 : ℝ) ∧ z < (110.0 : ℝ) ∧ z < (0.75 : ℝ) := ⟨3/5, by norm_num⟩
example : ∃ z : ℝ, ¬ z < (0.0 : ℝ) ∧ ¬ z < (0.5 : ℝ) ∧ z < (110.0 : ℝ) ∧ ¬ z < (0.75 : ℝ) ∧ z < (1.25 : ℝ) := ⟨1, by norm_num⟩
example : ∃ z : ℝ, ¬ z < (0.0 : ℝ) ∧ ¬ z < (0.5 : ℝ) ∧ z < (110.0 : ℝ) ∧ ¬ z < (0.75 : ℝ) ∧ ¬ z < (1.25 : ℝ) ∧ z < (2.25 : ℝ) := ⟨2, by norm_num⟩
example : ∃ z : ℝ, ¬ z < (0.0 : ℝ) ∧ ¬ z < (0.5 : ℝ) ∧ z < (110.0 : ℝ) ∧ ¬ z < (0.75 : ℝ) ∧ ¬ z < (1.25 : ℝ) ∧ ¬ z < (2.25 : ℝ) ∧ z < (3.5 : ℝ) := ⟨3, by norm_num⟩
example : ∃ z : ℝ, ¬ z < (0.0 : ℝ) ∧ ¬ z < (0.5 : ℝ) ∧ z < (110.0 : ℝ) ∧ ¬ z < (0.75 : ℝ) ∧ ¬ z < (1.25 : ℝ) ∧ ¬ z < (2.25 : ℝ) ∧ ¬ z < (3.5 : ℝ) ∧ z < (5.25 : ℝ) := ⟨4, by norm_num⟩
example : ∃ z : ℝ, ¬ z < (0.0 : ℝ) ∧ ¬ z < (0.5 : ℝ) ∧ z < (110.0 : ℝ) ∧ ¬ z < (0.75 : ℝ) ∧ ¬ z < (1.25 : ℝ) ∧ ¬ z < (2.25 : ℝ) ∧ ¬ z < (3.5 : ℝ) ∧ ¬ z < (5.25 : ℝ) ∧ z < (8.0 : ℝ) := ⟨6, by norm_num⟩
example : ∃ z : ℝ, ¬ z < (0.0 : ℝ) ∧ ¬ z < (0.5 : ℝ) ∧ z < (110.0 : ℝ) ∧ ¬ z < (0.75 : ℝ) ∧ ¬ z < (1.25 : ℝ) ∧ ¬ z < (2.25 : ℝ) ∧ ¬ z < (3.5 : ℝ) ∧ ¬ z < (5.25 : ℝ) ∧ ¬ z < (8.0 : ℝ) ∧ z < (11.5 : ℝ) := ⟨9, by norm_num⟩
example : ∃ z : ℝ, ¬ z < (0.0 : ℝ) ∧ ¬ z < (0.5 : ℝ) ∧ z < (110.0 : ℝ) ∧ ¬ z < (0.75 : ℝ) ∧ ¬ z < (1.25 : ℝ) ∧ ¬ z < (2.25 : ℝ) ∧ ¬ z < (3.5 : ℝ) ∧ ¬ z < (5.25 : ℝ) ∧ ¬ z < (8.0 : ℝ) ∧ ¬ z < (11.5 : ℝ) ∧ z < (17.0 : ℝ) := ⟨12, by norm_num⟩
example : ∃ z : ℝ, ¬ z < (0.0 : ℝ) ∧ ¬ z < (0.5 : ℝ) ∧ z < (110.0 : ℝ) ∧ ¬ z < (0.75 : ℝ) ∧ ¬ z < (1.25 : ℝ) ∧ ¬ z < (2.25 : ℝ) ∧ ¬ z < (3.5 : ℝ) ∧ ¬ z < (5.25 : ℝ) ∧ ¬ z < (8.0 : ℝ) ∧ ¬ z < (11.5 : ℝ) ∧ ¬ z < (17.0 : ℝ) ∧ z < (24.0 : ℝ) := ⟨20, by norm_num⟩
example : ∃ z : ℝ, ¬ z < (0.0 : ℝ) ∧ ¬ z < (0.5 : ℝ) ∧ z < (110.0 : ℝ) ∧ ¬ z < (0.75 : ℝ) ∧ ¬ z < (1.25 : ℝ) ∧ ¬ z < (2.25 : ℝ) ∧ ¬ z < (3.5 : ℝ) ∧ ¬ z < (5.25 : ℝ) ∧ ¬ z < (8.0 : ℝ) ∧ ¬ z < (11.5 : ℝ) ∧ ¬ z < (17.0 : ℝ) ∧ ¬ z < (24.0 : ℝ) ∧ z < (38.0 : ℝ) := ⟨30, by norm_num⟩
example : ∃ z : ℝ, ¬ z < (0.0 : ℝ) ∧ ¬ z < (0.5 : ℝ) ∧ z < (110.0 : ℝ) ∧ ¬ z < (0.75 : ℝ) ∧ ¬ z < (1.25 : ℝ) ∧ ¬ z < (2.25 : ℝ) ∧ ¬ z < (3.5 : ℝ) ∧ ¬ z < (5.25 : ℝ) ∧ ¬ z < (8.0 : ℝ) ∧ ¬ z < (11.5 : ℝ) ∧ ¬ z < (17.0 : ℝ) ∧ ¬ z < (24.0 : ℝ) ∧ ¬ z < (38.0 : ℝ) ∧ z < (60.0 : ℝ) := ⟨50, by norm_num⟩
example : ∃ z : ℝ, ¬ z < (0.0 : ℝ) ∧ ¬ z < (0.5 : ℝ) ∧ z < (110.0 : ℝ) ∧ ¬ z < (0.75 : ℝ) ∧ ¬ z < (1.25 : ℝ) ∧ ¬ z < (2.25 : ℝ) ∧ ¬ z < (3.5 : ℝ) ∧ ¬ z < (5.25 : ℝ) ∧ ¬ z < (8.0 : ℝ) ∧ ¬ z < (11.5 : ℝ) ∧ ¬ z < (17.0 : ℝ) ∧ ¬ z < (24.0 : ℝ) ∧ ¬ z < (38.0 : ℝ) ∧ ¬ z < (60.0 : ℝ) ∧ z < (85.0 : ℝ) := ⟨70, by norm_num⟩
example : ∃ z : ℝ, ¬ z < (0.0 : ℝ) ∧ ¬ z < (0.5 : ℝ) ∧ z < (110.0 : ℝ) ∧ ¬ z < (0.75 : ℝ) ∧ ¬ z < (1.25 : ℝ) ∧ ¬ z < (2.25 : ℝ) ∧ ¬ z < (3.5 : ℝ) ∧ ¬ z < (5.25 : ℝ) ∧ ¬ z < (8.0 : ℝ) ∧ ¬ z < (11.5 : ℝ) ∧ ¬ z < (17.0 : ℝ) ∧ ¬ z < (24.0 : ℝ) ∧ ¬ z < (38.0 : ℝ) ∧ ¬ z < (60.0 : ℝ) ∧ ¬ z < (85.0 : ℝ) := ⟨100, by norm_num⟩

/-- `erf_inv_impl`: piece A at `p = 1/4`, piece B at `(p, q) = (3/4, 1/4)` -/
example : ∃ p : ℝ, p ≤ (0.5 : ℝ) := ⟨1/4, by norm_num⟩
example : ∃ p q : ℝ, ¬ p ≤ (0.5 : ℝ) ∧ (0.25 : ℝ) ≤ q := ⟨3/4, 1/4, by norm_num⟩

/-- for `t ≥ 2` the point `q = exp(−t²)` has `q < 0.25` and `√(−ln q) = t`: it lands in the tail
    chain of `erf_inv_impl` at `x = t` -/
theorem erf_inv_tail_point (t : ℝ) (ht : 2 ≤ t) :
    ¬ (0.25 : ℝ) ≤ Real.exp (-(t * t)) ∧ RFun.sqrt (-(RFun.ln (Real.exp (-(t * t))))) = t := by
  constructor
  · have h1 := Real.add_one_le_exp (t * t)
    have h2 : (5 : ℝ) ≤ Real.exp (t * t) := by nlinarith
    rw [Real.exp_neg, not_le]
    have : (Real.exp (t * t))⁻¹ ≤ (5 : ℝ)⁻¹ := inv_anti₀ (by norm_num) h2
    norm_num at this ⊢; linarith
  · rw [rfun_ln, rfun_sqrt, Real.log_exp, neg_neg, Real.sqrt_mul_self (by linarith)]

/-- pieces C, D, E, F, G are inhabited (`x = 2, 4, 10, 20, 50`, any `p > 0.5`) -/
example : ∃ p q : ℝ, ¬ p ≤ (0.5 : ℝ) ∧ ¬ (0.25 : ℝ) ≤ q ∧ RFun.sqrt (-(RFun.ln q)) < (3.0 : ℝ) := by
  obtain ⟨h1, h2⟩ := erf_inv_tail_point 2 (by norm_num)
  exact ⟨3/4, _, by norm_num, h1, by rw [h2]; norm_num⟩
example : ∃ p q : ℝ, ¬ p ≤ (0.5 : ℝ) ∧ ¬ (0.25 : ℝ) ≤ q ∧ ¬ RFun.sqrt (-(RFun.ln q)) < (3.0 : ℝ)
    ∧ RFun.sqrt (-(RFun.ln q)) < (6.0 : ℝ) := by
  obtain ⟨h1, h2⟩ := erf_inv_tail_point 4 (by norm_num)
  exact ⟨3/4, _, by norm_num, h1, by rw [h2]; norm_num, by rw [h2]; norm_num⟩
example : ∃ p q : ℝ, ¬ p ≤ (0.5 : ℝ) ∧ ¬ (0.25 : ℝ) ≤ q ∧ ¬ RFun.sqrt (-(RFun.ln q)) < (3.0 : ℝ)
    ∧ ¬ RFun.sqrt (-(RFun.ln q)) < (6.0 : ℝ) ∧ RFun.sqrt (-(RFun.ln q)) < (18.0 : ℝ) := by
  obtain ⟨h1, h2⟩ := erf_inv_tail_point 10 (by norm_num)
  exact ⟨3/4, _, by norm_num, h1, by rw [h2]; norm_num, by rw [h2]; norm_num, by rw [h2]; norm_num⟩
example : ∃ p q : ℝ, ¬ p ≤ (0.5 : ℝ) ∧ ¬ (0.25 : ℝ) ≤ q ∧ ¬ RFun.sqrt (-(RFun.ln q)) < (3.0 : ℝ)
    ∧ ¬ RFun.sqrt (-(RFun.ln q)) < (6.0 : ℝ) ∧ ¬ RFun.sqrt (-(RFun.ln q)) < (18.0 : ℝ)
    ∧ RFun.sqrt (-(RFun.ln q)) < (44.0 : ℝ) := by
  obtain ⟨h1, h2⟩ := erf_inv_tail_point 20 (by norm_num)
  exact ⟨3/4, _, by norm_num, h1, by rw [h2]; norm_num, by rw [h2]; norm_num, by rw [h2]; norm_num,
    by rw [h2]; norm_num⟩
example : ∃ p q : ℝ, ¬ p ≤ (0.5 : ℝ) ∧ ¬ (0.25 : ℝ) ≤ q ∧ ¬ RFun.sqrt (-(RFun.ln q)) < (3.0 : ℝ)
    ∧ ¬ RFun.sqrt (-(RFun.ln q)) < (6.0 : ℝ) ∧ ¬ RFun.sqrt (-(RFun.ln q)) < (18.0 : ℝ)
    ∧ ¬ RFun.sqrt (-(RFun.ln q)) < (44.0 : ℝ) := by
  obtain ⟨h1, h2⟩ := erf_inv_tail_point 50 (by norm_num)
  exact ⟨3/4, _, by norm_num, h1, by rw [h2]; norm_num, by rw [h2]; norm_num, by rw [h2]; norm_num,
    by rw [h2]; norm_num⟩

/-- the wrappers: NaN / ±inf guards are inhabited by doubles, the interior guards by reals -/
example : RFun.isNaN (RFun.nan : Float) = true := by decide
example : ¬ RFun.isNaN (RFun.inf : Float) = true ∧ ((0.0 : Float) ≤ RFun.inf ∧ RFun.isInf (RFun.inf : Float) = true) := by decide
example : ¬ RFun.isNaN (RFun.negInf : Float) = true ∧ ¬ ((0.0 : Float) ≤ RFun.negInf ∧ RFun.isInf (RFun.negInf : Float) = true)
    ∧ ((RFun.negInf : Float) ≤ 0.0 ∧ RFun.isInf (RFun.negInf : Float) = true) := by decide
example : ¬ RFun.isNaN (RFun.inf : Float) = true ∧ ((RFun.inf : Float) == (RFun.inf : Float)) = true := by decide
example : ¬ RFun.isNaN (RFun.negInf : Float) = true ∧ ¬ ((RFun.negInf : Float) == (RFun.inf : Float)) = true
    ∧ ((RFun.negInf : Float) == (RFun.negInf : Float)) = true := by decide
example : ∃ x : ℝ, ¬ (x == (0.0 : ℝ)) = true ∧ ¬ (1.0 : ℝ) ≤ x ∧ ¬ x ≤ (-(1.0 : ℝ)) ∧ x < (0.0 : ℝ) := ⟨-1/2, by norm_num⟩
example : ∃ x : ℝ, ¬ (x == (0.0 : ℝ)) = true ∧ ¬ (1.0 : ℝ) ≤ x ∧ ¬ x ≤ (-(1.0 : ℝ)) ∧ ¬ x < (0.0 : ℝ) := ⟨1/2, by norm_num⟩
example : ∃ x : ℝ, ¬ x ≤ (0.0 : ℝ) ∧ ¬ (2.0 : ℝ) ≤ x ∧ (1.0 : ℝ) < x := ⟨3/2, by norm_num⟩
example : ∃ x : ℝ, ¬ x ≤ (0.0 : ℝ) ∧ ¬ (2.0 : ℝ) ≤ x ∧ ¬ (1.0 : ℝ) < x := ⟨1/2, by norm_num⟩

end Statrs.Props.C11.BranchPins
