/-
  C11 — BRANCH PINS for src/function/gamma.rs (`gamma`, `ln_gamma`, `checked_gamma_lr/ur/li/ui`,
  `digamma`, `inv_digamma`, `signum`).  Every theorem is branch logic and holds for EVERY carrier α
  (IEEE doubles included); hypotheses are the outcomes of the model's own comparisons, with the
  SAME literals as the tables of `Statrs/Spec/FunctionBranches.lean`.

  What is pinned:
  1. constants: `GAMMA_R = 10.900511`, `GAMMA_DK.length = 11`, the Lanczos sum runs over indices
     1..10 of that table; `eps = 1e-15`, `big = 2^52`, `big_inv = 2^-52`, underflow cut
     `−709.78271289338399`; `digamma`: `c = 12`, `s = 1e-6`, `d1`, `d2`, `s3..s7`; `inv_digamma`:
     tolerance `1e-15`, start `(exp x, 1)`, halving;
  2. whole-table theorems `generated = Spec table` (`*_eq_spec`);
  3. one theorem per function and per piece;
  4. ONE-STEP unfoldings of every lifted loop (`*_loop*_step`): recurrence, stopping test
     (`≤ eps`, not `<`), rescaling test (`big < |p|`), zero-divisor skip.
  Iterative pieces are stated relative to the outcome of the generated loop
  (`hloop : loop … = LoopR.done s`): the start state, the tolerance and the fuel appear in `hloop`.

  `checked_gamma_lr` has FOUR prologue guards (NaN, `a` domain, `x` domain, `a ≈ 0`); the former fifth one
  (`almost_eq(x, 0.0, DEFAULT_F64_ACC) ⇒ Ok(0.0)`) was removed from the source (commit 9f2f5b7), so the pins of the
  underflow / series / continued-fraction pieces carry no hypothesis about `almost_eq x 0.0`
  (`checked_gamma_lr_past_a_zero`).

  The NaN / domain-error prologue of `checked_gamma_lr/ur` is also covered (with exact error
  domains) by `Statrs.Props.C12` (`Props/C12/Twins.lean`); it is restated here per guard so that
  the table is complete in one place.
-/
import Mathlib.Tactic
import Statrs.Real.Simp
import Statrs.Inst.Float
import Statrs.Spec.FunctionBranches
namespace Statrs.Props.C11.BranchPins
open Statrs Statrs.Gen Statrs.Spec.FunctionBranches
set_option linter.unusedSectionVars false

section generic
variable {α : Type} [Add α] [Sub α] [Mul α] [Div α] [Neg α] [LT α] [LE α] [BEq α]
  [DecidableLT α] [DecidableLE α] [OfScientific α] [Inhabited α] [RFun α]

/-! ## 1. gamma / ln_gamma (gamma.rs:33–107) -/

theorem GAMMA_R_eq : (F.gamma.GAMMA_R : α) = (10.900511 : α) := rfl
theorem GAMMA_DK_length : (F.gamma.GAMMA_DK (α := α)).length = 11 := rfl

/-- the Lanczos sum is `dk₀ + Σ_{k = 1..10} dk_k / den k`, accumulated left to right, over the
    entries of `GAMMA_DK` (all 11 are used, none twice) -/
theorem lanczosSum_eq (den : Int → α) :
    lanczosSum den = List.foldl (fun s k => s + (listGet (F.gamma.GAMMA_DK (α := α)) k / den k))
      (listGet (F.gamma.GAMMA_DK (α := α)) 0) [1, 2, 3, 4, 5, 6, 7, 8, 9, 10] := rfl

theorem gamma_eq_spec (x : α) : F.gamma.gamma x = gammaSpec x := by
  unfold F.gamma.gamma; simp only [gammaSpec, firstMatch]; split_ifs <;> rfl
theorem ln_gamma_eq_spec (x : α) : F.gamma.ln_gamma x = lnGammaSpec x := by
  unfold F.gamma.ln_gamma; simp only [lnGammaSpec, firstMatch]; split_ifs <;> rfl

/-- `x < 0.5`: reflection `π / (sin(πx) · S(k − x) · 2√(e/π) · ((0.5 − x + r)/e)^(0.5 − x))` -/
theorem gamma_reflection (x : α) (h : x < (0.5 : α)) :
    F.gamma.gamma x = (RFun.pi : α) / ((((RFun.sin ((RFun.pi : α) * x)) * lanczosSum (fun k => (RFun.ofInt k : α) - x))
        * (RFun.c_TWO_SQRT_E_OVER_PI : α))
      * (RFun.pow ((((0.5 : α) - x) + (F.gamma.GAMMA_R (α := α))) / (RFun.e : α)) ((0.5 : α) - x))) := by
  unfold F.gamma.gamma; rw [if_pos h]; rfl
/-- `¬ x < 0.5`: Lanczos `S(x + k − 1) · 2√(e/π) · ((x − 0.5 + r)/e)^(x − 0.5)` -/
theorem gamma_lanczos (x : α) (h : ¬ x < (0.5 : α)) :
    F.gamma.gamma x = ((lanczosSum (fun k => (x + (RFun.ofInt k : α)) - (1.0 : α))) * (RFun.c_TWO_SQRT_E_OVER_PI : α))
      * (RFun.pow (((x - (0.5 : α)) + (F.gamma.GAMMA_R (α := α))) / (RFun.e : α)) (x - (0.5 : α))) := by
  unfold F.gamma.gamma; rw [if_neg h]; rfl
/-- `x < 0.5`: `ln π − ln sin(πx) − ln S(k − x) − ln(2√(e/π)) − (0.5 − x)·ln((0.5 − x + r)/e)` -/
theorem ln_gamma_reflection (x : α) (h : x < (0.5 : α)) :
    F.gamma.ln_gamma x = ((((RFun.c_LN_PI : α) - (RFun.ln (RFun.sin ((RFun.pi : α) * x))))
          - (RFun.ln (lanczosSum (fun k => (RFun.ofInt k : α) - x)))) - (RFun.c_LN_2_SQRT_E_OVER_PI : α))
      - (((0.5 : α) - x) * (RFun.ln ((((0.5 : α) - x) + (F.gamma.GAMMA_R (α := α))) / (RFun.e : α)))) := by
  unfold F.gamma.ln_gamma; rw [if_pos h]; rfl
/-- `¬ x < 0.5`: `ln S(x + k − 1) + ln(2√(e/π)) + (x − 0.5)·ln((x − 0.5 + r)/e)` -/
theorem ln_gamma_lanczos (x : α) (h : ¬ x < (0.5 : α)) :
    F.gamma.ln_gamma x = ((RFun.ln (lanczosSum (fun k => (x + (RFun.ofInt k : α)) - (1.0 : α))))
        + (RFun.c_LN_2_SQRT_E_OVER_PI : α))
      + ((x - (0.5 : α)) * (RFun.ln (((x - (0.5 : α)) + (F.gamma.GAMMA_R (α := α))) / (RFun.e : α)))) := by
  unfold F.gamma.ln_gamma; rw [if_neg h]; rfl

/-! ## 2. constants of the incomplete gamma functions (gamma.rs:198–208, 292–301) -/

theorem gammaIncEps_eq : (gammaIncEps : α) = (1e-15 : α) := rfl
theorem gammaIncBig_eq : (gammaIncBig : α) = (4503599627370496.0 : α) := rfl
theorem gammaIncBigInv_eq : (gammaIncBigInv : α) = (2.22044604925031308085e-16 : α) := rfl
theorem gammaIncUnderflow_eq : (gammaIncUnderflow : α) = -(709.78271289338399 : α) := rfl
theorem gammaIncAx_eq (a x : α) : gammaIncAx a x = ((a * (RFun.ln x)) - x) - (F.gamma.ln_gamma a) := rfl
/-- prec.rs:10 — the accuracy of the `a ≈ 0` shortcut (the `x ≈ 0` shortcut of `checked_gamma_lr` that used the
    same constant was removed from the source, commit 9f2f5b7) -/
theorem DEFAULT_F64_ACC_eq : (R.prec.DEFAULT_F64_ACC : α) = (0.0000000000000011102230246251565 : α) := rfl
/-- prec.rs:14–21 — `almost_eq a b acc` is `|a − b| ≤ acc` unless both are infinite -/
theorem almost_eq_finite (a b acc : α) (h : ¬ (RFun.isInf a = true ∧ RFun.isInf b = true)) :
    R.prec.almost_eq a b acc = decide ((if b < a then a - b else b - a) ≤ acc) := by
  unfold R.prec.almost_eq; rw [if_neg h]; rfl

/-! ## 3. the lifted loops, one step each -/

/-- gamma.rs:312–320 — series: `r2 += 1; c2 *= x/r2; ans2 += c2; stop when c2/ans2 ≤ eps` -/
theorem gamma_lr_loop1_step (fuel : Nat) (eps x r2 c2 ans2 : α) :
    F.gamma.checked_gamma_lr.loop1 (fuel + 1) eps x r2 c2 ans2 =
      if ((c2 * (x / (r2 + (1.0 : α)))) / (ans2 + (c2 * (x / (r2 + (1.0 : α)))))) ≤ eps then
        LoopR.done (r2 + (1.0 : α), c2 * (x / (r2 + (1.0 : α))), ans2 + (c2 * (x / (r2 + (1.0 : α)))))
      else F.gamma.checked_gamma_lr.loop1 fuel eps x (r2 + (1.0 : α)) (c2 * (x / (r2 + (1.0 : α))))
        (ans2 + (c2 * (x / (r2 + (1.0 : α))))) := by
  rw [F.gamma.checked_gamma_lr.loop1]
theorem gamma_lr_loop1_zero (eps x r2 c2 ans2 : α) :
    F.gamma.checked_gamma_lr.loop1 0 eps x r2 c2 ans2 = LoopR.hang := rfl
/-- the same step through the Spec names `gammaSeriesStep` / `gammaSeriesStop` -/
theorem gamma_lr_loop1_step_spec (fuel : Nat) (eps x r2 c2 ans2 : α) :
    F.gamma.checked_gamma_lr.loop1 (fuel + 1) eps x r2 c2 ans2 =
      if gammaSeriesStop eps (gammaSeriesStep x (r2, c2, ans2)) then LoopR.done (gammaSeriesStep x (r2, c2, ans2))
      else F.gamma.checked_gamma_lr.loop1 fuel eps x (gammaSeriesStep x (r2, c2, ans2)).1
        (gammaSeriesStep x (r2, c2, ans2)).2.1 (gammaSeriesStep x (r2, c2, ans2)).2.2 := by
  rw [gamma_lr_loop1_step]; rfl

/-- the rescaled quadruple of both continued fractions: multiply by `big_inv` when `big < |p|` -/
def cfRescale (big big_inv p p3 p2 q3 q2 : α) : α × α × α × α :=
  if big < RFun.abs p then (p3 * big_inv, p2 * big_inv, q3 * big_inv, q2 * big_inv) else (p3, p2, q3, q2)

/-- gamma.rs:334–364 — continued fraction of `checked_gamma_lr` (integer counter `c`):
    `y += 1; z += 2; c += 1; p = p2·z − p3·y·c; q = q2·z − q3·y·c`; shift; rescale when `big < |p|`;
    when `q ≠ 0`: `ans = p/q`, stop when `|(ans_old − ans)/ans| ≤ eps` -/
theorem gamma_lr_loop3_step (fuel : Nat) (big big_inv eps y z : α) (c : Int) (p3 p2 q3 q2 ans : α) :
    F.gamma.checked_gamma_lr.loop3 (fuel + 1) big big_inv eps y z c p3 p2 q3 q2 ans =
      let y' := y + (1.0 : α)
      let z' := z + (2.0 : α)
      let c' := c + (1 : Int)
      let yc := y' * (RFun.ofInt c' : α)
      let p := (p2 * z') - (p3 * yc)
      let q := (q2 * z') - (q3 * yc)
      let s := cfRescale big big_inv p p2 p q2 q
      if ¬ ((q == (0.0 : α)) = true) then
        (if RFun.abs ((ans - (p / q)) / (p / q)) ≤ eps then
          LoopR.done (y', z', c', s.1, s.2.1, s.2.2.1, s.2.2.2, p / q)
         else F.gamma.checked_gamma_lr.loop3 fuel big big_inv eps y' z' c' s.1 s.2.1 s.2.2.1 s.2.2.2 (p / q))
      else F.gamma.checked_gamma_lr.loop3 fuel big big_inv eps y' z' c' s.1 s.2.1 s.2.2.1 s.2.2.2 ans := by
  rw [F.gamma.checked_gamma_lr.loop3]
  simp only [cfRescale]
theorem gamma_lr_loop3_zero (big big_inv eps y z : α) (c : Int) (p3 p2 q3 q2 ans : α) :
    F.gamma.checked_gamma_lr.loop3 0 big big_inv eps y z c p3 p2 q3 q2 ans = LoopR.hang := rfl

/-- gamma.rs:221–250 — continued fraction of `checked_gamma_ur` (float counter `c`), same recurrence -/
theorem gamma_ur_loop1_step (fuel : Nat) (big big_inv eps y z c pkm2 pkm1 qkm2 qkm1 ans : α) :
    F.gamma.checked_gamma_ur.loop1 (fuel + 1) big big_inv eps y z c pkm2 pkm1 qkm2 qkm1 ans =
      let y' := y + (1.0 : α)
      let z' := z + (2.0 : α)
      let c' := c + (1.0 : α)
      let yc := y' * c'
      let pk := (pkm1 * z') - (pkm2 * yc)
      let qk := (qkm1 * z') - (qkm2 * yc)
      let s := cfRescale big big_inv pk pkm1 pk qkm1 qk
      if ¬ ((qk == (0.0 : α)) = true) then
        (if RFun.abs ((ans - (pk / qk)) / (pk / qk)) ≤ eps then
          LoopR.done (y', z', c', s.1, s.2.1, s.2.2.1, s.2.2.2, pk / qk)
         else F.gamma.checked_gamma_ur.loop1 fuel big big_inv eps y' z' c' s.1 s.2.1 s.2.2.1 s.2.2.2 (pk / qk))
      else F.gamma.checked_gamma_ur.loop1 fuel big big_inv eps y' z' c' s.1 s.2.1 s.2.2.1 s.2.2.2 ans := by
  rw [F.gamma.checked_gamma_ur.loop1]
  simp only [cfRescale]
theorem gamma_ur_loop1_zero (big big_inv eps y z c pkm2 pkm1 qkm2 qkm1 ans : α) :
    F.gamma.checked_gamma_ur.loop1 0 big big_inv eps y z c pkm2 pkm1 qkm2 qkm1 ans = LoopR.hang := rfl

/-- gamma.rs:395–398 — recurrence `while z < c { result −= 1/z; z += 1 }` -/
theorem digamma_loop1_step (fuel : Nat) (c result z : α) :
    F.gamma.digamma.loop1 (fuel + 1) c result z =
      if z < c then F.gamma.digamma.loop1 fuel c (result - ((1.0 : α) / z)) (z + (1.0 : α))
      else LoopR.done (result, z) := by
  rw [F.gamma.digamma.loop1]
theorem digamma_loop1_zero (c result z : α) : F.gamma.digamma.loop1 0 c result z = LoopR.hang := rfl

/-- gamma.rs:422–425 — `while i > 1e-15 { y += i·signum(x − ψ(y)); i /= 2 }` -/
theorem inv_digamma_loop1_step (fuel : Nat) (x y i : α) :
    F.gamma.inv_digamma.loop1 (fuel + 1) x y i =
      if (1e-15 : α) < i then
        F.gamma.inv_digamma.loop1 fuel x (y + (i * F.gamma.signum (x - F.gamma.digamma y))) (i / (2.0 : α))
      else LoopR.done (y, i) := by
  rw [F.gamma.inv_digamma.loop1]
theorem inv_digamma_loop1_zero (x y i : α) : F.gamma.inv_digamma.loop1 0 x y i = LoopR.hang := rfl

/-! ## 4. `checked_gamma_lr` (gamma.rs:281–367) -/

theorem gammaLrSpec_chain (a x : α) : gammaLrSpec a x =
    if (RFun.isNaN a = true) ∨ (RFun.isNaN x = true) then .ok (RFun.nan : α) else
    if (a ≤ (0.0 : α)) ∨ ((a == (RFun.inf : α)) = true) then .error GammaFuncError.AInvalid else
    if (x ≤ (0.0 : α)) ∨ ((x == (RFun.inf : α)) = true) then .error GammaFuncError.XInvalid else
    if (R.prec.almost_eq a (0.0 : α) (R.prec.DEFAULT_F64_ACC (α := α))) = true then .ok (1.0 : α) else
    if gammaIncAx a x < -(709.78271289338399 : α) then (if a < x then .ok (1.0 : α) else .ok (0.0 : α)) else
    if (x ≤ (1.0 : α)) ∨ (x ≤ a) then
      gammaLrSeriesOut (gammaIncAx a x) a
        (F.gamma.checked_gamma_lr.loop1 loopFuel (1e-15 : α) x a (1.0 : α) (1.0 : α))
    else gammaLrCfOut (gammaIncAx a x)
      (F.gamma.checked_gamma_lr.loop3 loopFuel (4503599627370496.0 : α) (2.22044604925031308085e-16 : α) (1e-15 : α)
        ((1.0 : α) - a) ((x + ((1.0 : α) - a)) + (1.0 : α)) (0 : Int) (1.0 : α) (x + (1.0 : α)) x
        (((x + ((1.0 : α) - a)) + (1.0 : α)) * x)
        ((x + (1.0 : α)) / (((x + ((1.0 : α) - a)) + (1.0 : α)) * x))) := rfl

/-- gamma.rs:281–367: the generated `checked_gamma_lr` IS the Spec table `gammaLrSpec` -/
theorem checked_gamma_lr_eq_spec (a x : α) : F.gamma.checked_gamma_lr a x = gammaLrSpec a x := by
  rw [gammaLrSpec_chain]; unfold F.gamma.checked_gamma_lr gammaIncAx
  dsimp only
  split_ifs
  all_goals rfl

theorem checked_gamma_lr_nan (a x : α) (hn : (RFun.isNaN a = true) ∨ (RFun.isNaN x = true)) :
    F.gamma.checked_gamma_lr a x = .ok (RFun.nan : α) := by
  unfold F.gamma.checked_gamma_lr; rw [if_pos hn]
theorem checked_gamma_lr_a_invalid (a x : α) (hn : ¬ ((RFun.isNaN a = true) ∨ (RFun.isNaN x = true)))
    (ha : (a ≤ (0.0 : α)) ∨ ((a == (RFun.inf : α)) = true)) :
    F.gamma.checked_gamma_lr a x = .error GammaFuncError.AInvalid := by
  unfold F.gamma.checked_gamma_lr; rw [if_neg hn, if_pos ha]
theorem checked_gamma_lr_x_invalid (a x : α) (hn : ¬ ((RFun.isNaN a = true) ∨ (RFun.isNaN x = true)))
    (ha : ¬ ((a ≤ (0.0 : α)) ∨ ((a == (RFun.inf : α)) = true)))
    (hx : (x ≤ (0.0 : α)) ∨ ((x == (RFun.inf : α)) = true)) :
    F.gamma.checked_gamma_lr a x = .error GammaFuncError.XInvalid := by
  unfold F.gamma.checked_gamma_lr; rw [if_neg hn, if_neg ha, if_pos hx]
/-- `a ≈ 0` (within `DEFAULT_F64_ACC`): `P(0, x) = 1` -/
theorem checked_gamma_lr_a_zero (a x : α) (hn : ¬ ((RFun.isNaN a = true) ∨ (RFun.isNaN x = true)))
    (ha : ¬ ((a ≤ (0.0 : α)) ∨ ((a == (RFun.inf : α)) = true)))
    (hx : ¬ ((x ≤ (0.0 : α)) ∨ ((x == (RFun.inf : α)) = true)))
    (haz : (R.prec.almost_eq a (0.0 : α) (R.prec.DEFAULT_F64_ACC (α := α))) = true) :
    F.gamma.checked_gamma_lr a x = .ok (1.0 : α) := by
  unfold F.gamma.checked_gamma_lr; simp only [if_neg hn, if_neg ha, if_neg hx, if_pos haz]
/-- past the `a ≈ 0` guard there is NO `x ≈ 0` shortcut (the `almost_eq(x, 0.0, DEFAULT_F64_ACC) ⇒ Ok(0.0)` of
    earlier versions was removed, commit 9f2f5b7): whatever `almost_eq x 0.0 …` says, the function goes on with the
    underflow test on `ax`, then the series / continued-fraction split -/
theorem checked_gamma_lr_past_a_zero (a x : α) (hn : ¬ ((RFun.isNaN a = true) ∨ (RFun.isNaN x = true)))
    (ha : ¬ ((a ≤ (0.0 : α)) ∨ ((a == (RFun.inf : α)) = true)))
    (hx : ¬ ((x ≤ (0.0 : α)) ∨ ((x == (RFun.inf : α)) = true)))
    (haz : ¬ (R.prec.almost_eq a (0.0 : α) (R.prec.DEFAULT_F64_ACC (α := α))) = true) :
    F.gamma.checked_gamma_lr a x =
      if gammaIncAx a x < -(709.78271289338399 : α) then (if a < x then .ok (1.0 : α) else .ok (0.0 : α)) else
      if (x ≤ (1.0 : α)) ∨ (x ≤ a) then
        gammaLrSeriesOut (gammaIncAx a x) a
          (F.gamma.checked_gamma_lr.loop1 loopFuel (1e-15 : α) x a (1.0 : α) (1.0 : α))
      else gammaLrCfOut (gammaIncAx a x)
        (F.gamma.checked_gamma_lr.loop3 loopFuel (4503599627370496.0 : α) (2.22044604925031308085e-16 : α) (1e-15 : α)
          ((1.0 : α) - a) ((x + ((1.0 : α) - a)) + (1.0 : α)) (0 : Int) (1.0 : α) (x + (1.0 : α)) x
          (((x + ((1.0 : α) - a)) + (1.0 : α)) * x)
          ((x + (1.0 : α)) / (((x + ((1.0 : α) - a)) + (1.0 : α)) * x))) := by
  rw [checked_gamma_lr_eq_spec, gammaLrSpec_chain, if_neg hn, if_neg ha, if_neg hx, if_neg haz]
/-- `ax < −709.78271289338399`: the prefactor underflows; `1` right of the mode (`a < x`), else `0` -/
theorem checked_gamma_lr_underflow (a x : α) (hn : ¬ ((RFun.isNaN a = true) ∨ (RFun.isNaN x = true)))
    (ha : ¬ ((a ≤ (0.0 : α)) ∨ ((a == (RFun.inf : α)) = true)))
    (hx : ¬ ((x ≤ (0.0 : α)) ∨ ((x == (RFun.inf : α)) = true)))
    (haz : ¬ (R.prec.almost_eq a (0.0 : α) (R.prec.DEFAULT_F64_ACC (α := α))) = true)
    (hu : (((a * (RFun.ln x)) - x) - (F.gamma.ln_gamma a)) < -(709.78271289338399 : α)) :
    F.gamma.checked_gamma_lr a x = if a < x then .ok (1.0 : α) else .ok (0.0 : α) := by
  unfold F.gamma.checked_gamma_lr; simp only [if_neg hn, if_neg ha, if_neg hx, if_neg haz, if_pos hu]
/-- `x ≤ 1 ∨ x ≤ a`: SERIES from `(r2, c2, ans2) = (a, 1, 1)` with `eps = 1e-15`;
    result `exp(ax)·ans2 / a` -/
theorem checked_gamma_lr_series (a x r2 c2 ans2 : α) (hn : ¬ ((RFun.isNaN a = true) ∨ (RFun.isNaN x = true)))
    (ha : ¬ ((a ≤ (0.0 : α)) ∨ ((a == (RFun.inf : α)) = true)))
    (hx : ¬ ((x ≤ (0.0 : α)) ∨ ((x == (RFun.inf : α)) = true)))
    (haz : ¬ (R.prec.almost_eq a (0.0 : α) (R.prec.DEFAULT_F64_ACC (α := α))) = true)
    (hu : ¬ (((a * (RFun.ln x)) - x) - (F.gamma.ln_gamma a)) < -(709.78271289338399 : α))
    (hs : (x ≤ (1.0 : α)) ∨ (x ≤ a))
    (hloop : F.gamma.checked_gamma_lr.loop1 loopFuel (0.000000000000001 : α) x a (1.0 : α) (1.0 : α)
      = LoopR.done (r2, c2, ans2)) :
    F.gamma.checked_gamma_lr a x
      = .ok (((RFun.exp (((a * (RFun.ln x)) - x) - (F.gamma.ln_gamma a))) * ans2) / a) := by
  unfold F.gamma.checked_gamma_lr
  simp only [if_neg hn, if_neg ha, if_neg hx, if_neg haz, if_neg hu, if_pos hs]
  rw [hloop]
/-- the series piece when the lifted loop runs out of fuel (Rust: non-termination): the sentinel -/
theorem checked_gamma_lr_series_hang (a x : α) (hn : ¬ ((RFun.isNaN a = true) ∨ (RFun.isNaN x = true)))
    (ha : ¬ ((a ≤ (0.0 : α)) ∨ ((a == (RFun.inf : α)) = true)))
    (hx : ¬ ((x ≤ (0.0 : α)) ∨ ((x == (RFun.inf : α)) = true)))
    (haz : ¬ (R.prec.almost_eq a (0.0 : α) (R.prec.DEFAULT_F64_ACC (α := α))) = true)
    (hu : ¬ (((a * (RFun.ln x)) - x) - (F.gamma.ln_gamma a)) < -(709.78271289338399 : α))
    (hs : (x ≤ (1.0 : α)) ∨ (x ≤ a))
    (hloop : F.gamma.checked_gamma_lr.loop1 loopFuel (0.000000000000001 : α) x a (1.0 : α) (1.0 : α)
      = LoopR.hang) :
    F.gamma.checked_gamma_lr a x = panicV := by
  unfold F.gamma.checked_gamma_lr
  simp only [if_neg hn, if_neg ha, if_neg hx, if_neg haz, if_neg hu, if_pos hs]
  rw [hloop]
/-- otherwise: CONTINUED FRACTION for `Q` with `eps = 1e-15`, `big = 2^52`, `big_inv = 2^-52`, from
    `y = 1 − a`, `z = x + y + 1`, `c = 0`, `(p3, p2, q3, q2) = (1, x + 1, x, z·x)`, `ans = p2/q2`;
    result `1 − exp(ax)·ans` -/
theorem checked_gamma_lr_cf (a x y z : α) (c : Int) (p3 p2 q3 q2 ans : α)
    (hn : ¬ ((RFun.isNaN a = true) ∨ (RFun.isNaN x = true)))
    (ha : ¬ ((a ≤ (0.0 : α)) ∨ ((a == (RFun.inf : α)) = true)))
    (hx : ¬ ((x ≤ (0.0 : α)) ∨ ((x == (RFun.inf : α)) = true)))
    (haz : ¬ (R.prec.almost_eq a (0.0 : α) (R.prec.DEFAULT_F64_ACC (α := α))) = true)
    (hu : ¬ (((a * (RFun.ln x)) - x) - (F.gamma.ln_gamma a)) < -(709.78271289338399 : α))
    (hs : ¬ ((x ≤ (1.0 : α)) ∨ (x ≤ a)))
    (hloop : F.gamma.checked_gamma_lr.loop3 loopFuel (4503599627370496.0 : α) (2.22044604925031308085e-16 : α)
        (0.000000000000001 : α) ((1.0 : α) - a) ((x + ((1.0 : α) - a)) + (1.0 : α)) (0 : Int) (1.0 : α)
        (x + (1.0 : α)) x (((x + ((1.0 : α) - a)) + (1.0 : α)) * x)
        ((x + (1.0 : α)) / (((x + ((1.0 : α) - a)) + (1.0 : α)) * x))
      = LoopR.done (y, z, c, p3, p2, q3, q2, ans)) :
    F.gamma.checked_gamma_lr a x
      = .ok ((1.0 : α) - ((RFun.exp (((a * (RFun.ln x)) - x) - (F.gamma.ln_gamma a))) * ans)) := by
  unfold F.gamma.checked_gamma_lr
  simp only [if_neg hn, if_neg ha, if_neg hx, if_neg haz, if_neg hu, if_neg hs]
  rw [hloop]

/-! ## 5. `checked_gamma_ur` (gamma.rs:187–252) -/

theorem gammaUrSpec_chain (a x : α) : gammaUrSpec a x =
    if (RFun.isNaN a = true) ∨ (RFun.isNaN x = true) then .ok (RFun.nan : α) else
    if (a ≤ (0.0 : α)) ∨ ((a == (RFun.inf : α)) = true) then .error GammaFuncError.AInvalid else
    if (x ≤ (0.0 : α)) ∨ ((x == (RFun.inf : α)) = true) then .error GammaFuncError.XInvalid else
    if (x < (1.0 : α)) ∨ (x ≤ a) then .ok ((1.0 : α) - F.gamma.gamma_lr a x) else
    if gammaIncAx a x < -(709.78271289338399 : α) then (if a < x then .ok (0.0 : α) else .ok (1.0 : α)) else
    gammaUrCfOut (gammaIncAx a x)
      (F.gamma.checked_gamma_ur.loop1 loopFuel (4503599627370496.0 : α) (2.22044604925031308085e-16 : α) (1e-15 : α)
        ((1.0 : α) - a) ((x + ((1.0 : α) - a)) + (1.0 : α)) (0.0 : α) (1.0 : α) (x + (1.0 : α)) x
        (((x + ((1.0 : α) - a)) + (1.0 : α)) * x)
        ((x + (1.0 : α)) / (((x + ((1.0 : α) - a)) + (1.0 : α)) * x))) := rfl

/-- gamma.rs:187–252: the generated `checked_gamma_ur` IS the Spec table `gammaUrSpec` -/
theorem checked_gamma_ur_eq_spec (a x : α) : F.gamma.checked_gamma_ur a x = gammaUrSpec a x := by
  rw [gammaUrSpec_chain]; unfold F.gamma.checked_gamma_ur gammaIncAx
  dsimp only
  split_ifs
  all_goals rfl

theorem checked_gamma_ur_nan (a x : α) (hn : (RFun.isNaN a = true) ∨ (RFun.isNaN x = true)) :
    F.gamma.checked_gamma_ur a x = .ok (RFun.nan : α) := by
  unfold F.gamma.checked_gamma_ur; rw [if_pos hn]
theorem checked_gamma_ur_a_invalid (a x : α) (hn : ¬ ((RFun.isNaN a = true) ∨ (RFun.isNaN x = true)))
    (ha : (a ≤ (0.0 : α)) ∨ ((a == (RFun.inf : α)) = true)) :
    F.gamma.checked_gamma_ur a x = .error GammaFuncError.AInvalid := by
  unfold F.gamma.checked_gamma_ur; rw [if_neg hn, if_pos ha]
theorem checked_gamma_ur_x_invalid (a x : α) (hn : ¬ ((RFun.isNaN a = true) ∨ (RFun.isNaN x = true)))
    (ha : ¬ ((a ≤ (0.0 : α)) ∨ ((a == (RFun.inf : α)) = true)))
    (hx : (x ≤ (0.0 : α)) ∨ ((x == (RFun.inf : α)) = true)) :
    F.gamma.checked_gamma_ur a x = .error GammaFuncError.XInvalid := by
  unfold F.gamma.checked_gamma_ur; rw [if_neg hn, if_neg ha, if_pos hx]
/-- `x < 1 ∨ x ≤ a` (strict `<`, unlike `checked_gamma_lr`): complement of the series, `1 − gamma_lr a x` -/
theorem checked_gamma_ur_complement (a x : α) (hn : ¬ ((RFun.isNaN a = true) ∨ (RFun.isNaN x = true)))
    (ha : ¬ ((a ≤ (0.0 : α)) ∨ ((a == (RFun.inf : α)) = true)))
    (hx : ¬ ((x ≤ (0.0 : α)) ∨ ((x == (RFun.inf : α)) = true)))
    (hs : (x < (1.0 : α)) ∨ (x ≤ a)) :
    F.gamma.checked_gamma_ur a x = .ok ((1.0 : α) - F.gamma.gamma_lr a x) := by
  unfold F.gamma.checked_gamma_ur; simp only [if_neg hn, if_neg ha, if_neg hx, if_pos hs]
/-- `ax < −709.78271289338399`: `0` right of the mode (`a < x`), else `1` — complementary to `checked_gamma_lr` -/
theorem checked_gamma_ur_underflow (a x : α) (hn : ¬ ((RFun.isNaN a = true) ∨ (RFun.isNaN x = true)))
    (ha : ¬ ((a ≤ (0.0 : α)) ∨ ((a == (RFun.inf : α)) = true)))
    (hx : ¬ ((x ≤ (0.0 : α)) ∨ ((x == (RFun.inf : α)) = true)))
    (hs : ¬ ((x < (1.0 : α)) ∨ (x ≤ a)))
    (hu : (((a * (RFun.ln x)) - x) - (F.gamma.ln_gamma a)) < -(709.78271289338399 : α)) :
    F.gamma.checked_gamma_ur a x = if a < x then .ok (0.0 : α) else .ok (1.0 : α) := by
  unfold F.gamma.checked_gamma_ur; simp only [if_neg hn, if_neg ha, if_neg hx, if_neg hs, if_pos hu]
/-- otherwise: CONTINUED FRACTION with the same constants and start state as in `checked_gamma_lr`
    (float counter `c = 0.0`); result `ans · exp(ax)` -/
theorem checked_gamma_ur_cf (a x y z c p3 p2 q3 q2 ans : α)
    (hn : ¬ ((RFun.isNaN a = true) ∨ (RFun.isNaN x = true)))
    (ha : ¬ ((a ≤ (0.0 : α)) ∨ ((a == (RFun.inf : α)) = true)))
    (hx : ¬ ((x ≤ (0.0 : α)) ∨ ((x == (RFun.inf : α)) = true)))
    (hs : ¬ ((x < (1.0 : α)) ∨ (x ≤ a)))
    (hu : ¬ (((a * (RFun.ln x)) - x) - (F.gamma.ln_gamma a)) < -(709.78271289338399 : α))
    (hloop : F.gamma.checked_gamma_ur.loop1 loopFuel (4503599627370496.0 : α) (2.22044604925031308085e-16 : α)
        (0.000000000000001 : α) ((1.0 : α) - a) ((x + ((1.0 : α) - a)) + (1.0 : α)) (0.0 : α) (1.0 : α)
        (x + (1.0 : α)) x (((x + ((1.0 : α) - a)) + (1.0 : α)) * x)
        ((x + (1.0 : α)) / (((x + ((1.0 : α) - a)) + (1.0 : α)) * x))
      = LoopR.done (y, z, c, p3, p2, q3, q2, ans)) :
    F.gamma.checked_gamma_ur a x
      = .ok (ans * (RFun.exp (((a * (RFun.ln x)) - x) - (F.gamma.ln_gamma a)))) := by
  unfold F.gamma.checked_gamma_ur
  simp only [if_neg hn, if_neg ha, if_neg hx, if_neg hs, if_neg hu]
  rw [hloop]

/-! ## 6. the unregularised and the panicking variants (gamma.rs:117–180, 265–267) -/

/-- `γ(a,x) = P(a,x)·Γ(a)`: the regularised value times `gamma a`, errors passed through -/
theorem checked_gamma_li_eq (a x : α) : F.gamma.checked_gamma_li a x
    = exceptMap (fun v => v * F.gamma.gamma a) (F.gamma.checked_gamma_lr a x) := rfl
theorem checked_gamma_ui_eq (a x : α) : F.gamma.checked_gamma_ui a x
    = exceptMap (fun v => v * F.gamma.gamma a) (F.gamma.checked_gamma_ur a x) := rfl
theorem gamma_lr_eq (a x : α) : F.gamma.gamma_lr a x = unwrapE (F.gamma.checked_gamma_lr a x) := rfl
theorem gamma_ur_eq (a x : α) : F.gamma.gamma_ur a x = unwrapE (F.gamma.checked_gamma_ur a x) := rfl
theorem gamma_li_eq (a x : α) : F.gamma.gamma_li a x = unwrapE (F.gamma.checked_gamma_li a x) := rfl
theorem gamma_ui_eq (a x : α) : F.gamma.gamma_ui a x = unwrapE (F.gamma.checked_gamma_ui a x) := rfl

/-! ## 7. `digamma` (gamma.rs:371–409) -/

theorem digammaC_eq : (digammaC : α) = (12.0 : α) := rfl
theorem digammaS_eq : (digammaS : α) = (1e-6 : α) := rfl
theorem digammaD1_eq : (digammaD1 : α) = -(0.57721566490153286 : α) := rfl
theorem digammaD2_eq : (digammaD2 : α) = (1.6449340668482264365 : α) := rfl
/-- the asymptotic piece written out with its five literal coefficients
    `1/12, 1/120, 1/252, 1/240, 1/132` and the `0.5·(1/z)` term -/
theorem digammaAsymptotic_eq (result z : α) : digammaAsymptotic result z =
    (result + ((RFun.ln z) - ((0.5 : α) * ((1.0 : α) / z))))
      - ((((1.0 : α) / z) * ((1.0 : α) / z)) * (((1.0 : α) / (12.0 : α))
        - ((((1.0 : α) / z) * ((1.0 : α) / z)) * (((1.0 : α) / (120.0 : α))
          - ((((1.0 : α) / z) * ((1.0 : α) / z)) * (((1.0 : α) / (252.0 : α))
            - ((((1.0 : α) / z) * ((1.0 : α) / z)) * (((1.0 : α) / (240.0 : α))
              - ((((1.0 : α) / z) * ((1.0 : α) / z)) * ((1.0 : α) / (132.0 : α))))))))))) := rfl

theorem digamma_fuel (x : α) : F.gamma.digamma x = F.gamma.digamma.rec (15 + 1) x := rfl

theorem digammaSpec_chain (rec : α → α) (x : α) : digammaSpec rec x =
    if ((x == (RFun.negInf : α)) = true) ∨ (RFun.isNaN x = true) then (RFun.nan : α) else
    if (x ≤ (0.0 : α)) ∧ ((RFun.ulpsEq (RFun.floor x) x) = true) then (RFun.negInf : α) else
    if x < (0.0 : α) then (rec ((1.0 : α) - x)) + ((RFun.pi : α) / (RFun.tan ((-(RFun.pi : α)) * x))) else
    if x ≤ (1e-6 : α) then digammaSmall x else
    digammaOut (F.gamma.digamma.loop1 loopFuel (12.0 : α) (0.0 : α) x) := rfl

/-- gamma.rs:371–409, every level: the generated `digamma` IS the Spec table `digammaSpec` -/
theorem digamma_rec_eq_spec (n : Nat) (x : α) :
    F.gamma.digamma.rec (n + 1) x = digammaSpec (F.gamma.digamma.rec n) x := by
  rw [digammaSpec_chain, F.gamma.digamma.rec]
  split_ifs
  all_goals rfl
theorem digamma_eq_spec (x : α) : F.gamma.digamma x = digammaSpec (F.gamma.digamma.rec 15) x :=
  digamma_rec_eq_spec 15 x

theorem digamma_nan (x : α) (h : ((x == (RFun.negInf : α)) = true) ∨ (RFun.isNaN x = true)) :
    F.gamma.digamma x = (RFun.nan : α) := by
  rw [digamma_fuel, F.gamma.digamma.rec]; simp only [if_pos h]
/-- pole: `x ≤ 0` and `floor x` equals `x` up to ulps -/
theorem digamma_pole (x : α) (h : ¬ (((x == (RFun.negInf : α)) = true) ∨ (RFun.isNaN x = true)))
    (hp : (x ≤ (0.0 : α)) ∧ ((RFun.ulpsEq (RFun.floor x) x) = true)) :
    F.gamma.digamma x = (RFun.negInf : α) := by
  rw [digamma_fuel, F.gamma.digamma.rec]; simp only [if_neg h, if_pos hp]
/-- `x < 0`: reflection `ψ(x) = ψ(1 − x) + π / tan(−πx)` -/
theorem digamma_reflection (x : α) (h : ¬ (((x == (RFun.negInf : α)) = true) ∨ (RFun.isNaN x = true)))
    (hp : ¬ ((x ≤ (0.0 : α)) ∧ ((RFun.ulpsEq (RFun.floor x) x) = true))) (h0 : x < (0.0 : α)) :
    F.gamma.digamma x = (F.gamma.digamma.rec 15 ((1.0 : α) - x))
      + ((RFun.pi : α) / (RFun.tan ((-(RFun.pi : α)) * x))) := by
  rw [digamma_fuel, F.gamma.digamma.rec]; simp only [if_neg h, if_neg hp, if_pos h0]
/-- `0 ≤ x ≤ 1e-6`: `−0.57721566490153286 − 1/x + 1.6449340668482264365·x` -/
theorem digamma_small (x : α) (h : ¬ (((x == (RFun.negInf : α)) = true) ∨ (RFun.isNaN x = true)))
    (hp : ¬ ((x ≤ (0.0 : α)) ∧ ((RFun.ulpsEq (RFun.floor x) x) = true))) (h0 : ¬ x < (0.0 : α))
    (hs : x ≤ (1e-6 : α)) :
    F.gamma.digamma x = ((-(0.57721566490153286 : α)) - ((1.0 : α) / x)) + ((1.6449340668482264365 : α) * x) := by
  rw [digamma_fuel, F.gamma.digamma.rec]; simp only [if_neg h, if_neg hp, if_neg h0, if_pos hs]
/-- `x > 1e-6`: recurrence up to `c = 12` from `(result, z) = (0, x)`, then the asymptotic series
    (taken when the loop exits with `12 ≤ z`, i.e. always for non-NaN `z`) -/
theorem digamma_tail (x result z : α) (h : ¬ (((x == (RFun.negInf : α)) = true) ∨ (RFun.isNaN x = true)))
    (hp : ¬ ((x ≤ (0.0 : α)) ∧ ((RFun.ulpsEq (RFun.floor x) x) = true))) (h0 : ¬ x < (0.0 : α))
    (hs : ¬ x ≤ (1e-6 : α))
    (hloop : F.gamma.digamma.loop1 loopFuel (12.0 : α) (0.0 : α) x = LoopR.done (result, z)) :
    F.gamma.digamma x = if (12.0 : α) ≤ z then digammaAsymptotic result z else result := by
  rw [digamma_fuel, F.gamma.digamma.rec]; simp only [if_neg h, if_neg hp, if_neg h0, if_neg hs]
  rw [hloop]
  rfl

/-! ## 8. `inv_digamma`, `signum` (gamma.rs:412–440) -/

theorem invDigammaTol_eq : (invDigammaTol : α) = (1e-15 : α) := rfl

theorem inv_digamma_eq_spec (x : α) : F.gamma.inv_digamma x = invDigammaSpec x := by
  unfold F.gamma.inv_digamma; simp only [invDigammaSpec, firstMatch]
  split_ifs
  all_goals rfl

theorem inv_digamma_nan (x : α) (h : RFun.isNaN x = true) : F.gamma.inv_digamma x = (RFun.nan : α) := by
  unfold F.gamma.inv_digamma; rw [if_pos h]
theorem inv_digamma_negInf (x : α) (h : ¬ RFun.isNaN x = true) (h1 : (x == (RFun.negInf : α)) = true) :
    F.gamma.inv_digamma x = (0.0 : α) := by
  unfold F.gamma.inv_digamma; rw [if_neg h, if_pos h1]
theorem inv_digamma_posInf (x : α) (h : ¬ RFun.isNaN x = true) (h1 : ¬ (x == (RFun.negInf : α)) = true)
    (h2 : (x == (RFun.inf : α)) = true) : F.gamma.inv_digamma x = (RFun.inf : α) := by
  unfold F.gamma.inv_digamma; rw [if_neg h, if_neg h1, if_pos h2]
/-- finite `x`: the search from `(y, i) = (exp x, 1)`; the result is the final `y` -/
theorem inv_digamma_search (x y i : α) (h : ¬ RFun.isNaN x = true) (h1 : ¬ (x == (RFun.negInf : α)) = true)
    (h2 : ¬ (x == (RFun.inf : α)) = true)
    (hloop : F.gamma.inv_digamma.loop1 loopFuel x (RFun.exp x) (1.0 : α) = LoopR.done (y, i)) :
    F.gamma.inv_digamma x = y := by
  unfold F.gamma.inv_digamma; simp only [if_neg h, if_neg h1, if_neg h2]; rw [hloop]

theorem signum_eq_spec (x : α) : F.gamma.signum x = signumSpec x := by
  unfold F.gamma.signum; simp only [signumSpec, firstMatch]
theorem signum_zero (x : α) (h : (x == (0.0 : α)) = true) : F.gamma.signum x = (0.0 : α) := by
  unfold F.gamma.signum; rw [if_pos h]
theorem signum_nonzero (x : α) (h : ¬ (x == (0.0 : α)) = true) : F.gamma.signum x = RFun.signum x := by
  unfold F.gamma.signum; rw [if_neg h]

end generic

/-! ## non-vacuity -/

/-- `gamma` / `ln_gamma`: both sides of the cut `0.5` -/
example : ∃ x : ℝ, x < (0.5 : ℝ) := ⟨0, by norm_num⟩
example : ∃ x : ℝ, ¬ x < (0.5 : ℝ) := ⟨1, by norm_num⟩

/-- the prologue guards of `checked_gamma_lr/ur` over ℝ (`isNaN = false`, `inf` is the junk value 0,
    so `a == inf` is `a = 0`): `a = 2, x = 1` passes them and takes the series (`x ≤ 1`);
    `a = 1, x = 3` passes them and takes the continued fraction -/
example : ∃ a x : ℝ, ¬ ((RFun.isNaN a = true) ∨ (RFun.isNaN x = true))
    ∧ ¬ ((a ≤ (0.0 : ℝ)) ∨ ((a == (RFun.inf : ℝ)) = true))
    ∧ ¬ ((x ≤ (0.0 : ℝ)) ∨ ((x == (RFun.inf : ℝ)) = true)) ∧ ((x ≤ (1.0 : ℝ)) ∨ (x ≤ a)) := by
  refine ⟨2, 1, ?_, ?_, ?_, ?_⟩ <;> norm_num [show (RFun.inf : ℝ) = 0 from rfl]
example : ∃ a x : ℝ, ¬ ((RFun.isNaN a = true) ∨ (RFun.isNaN x = true))
    ∧ ¬ ((a ≤ (0.0 : ℝ)) ∨ ((a == (RFun.inf : ℝ)) = true))
    ∧ ¬ ((x ≤ (0.0 : ℝ)) ∨ ((x == (RFun.inf : ℝ)) = true)) ∧ ¬ ((x ≤ (1.0 : ℝ)) ∨ (x ≤ a))
    ∧ ¬ ((x < (1.0 : ℝ)) ∨ (x ≤ a)) := by
  refine ⟨1, 3, ?_, ?_, ?_, ?_, ?_⟩ <;> norm_num [show (RFun.inf : ℝ) = 0 from rfl]
/-- an argument that the removed `x ≈ 0` shortcut used to catch: `a = 2, x = 1e-16` passes the prologue,
    `almost_eq x 0.0 DEFAULT_F64_ACC` is TRUE there, and the series guard `x ≤ 1` holds -/
example : ∃ a x : ℝ, ¬ ((RFun.isNaN a = true) ∨ (RFun.isNaN x = true))
    ∧ ¬ ((a ≤ (0.0 : ℝ)) ∨ ((a == (RFun.inf : ℝ)) = true))
    ∧ ¬ ((x ≤ (0.0 : ℝ)) ∨ ((x == (RFun.inf : ℝ)) = true))
    ∧ ¬ ((R.prec.almost_eq a (0.0 : ℝ) (R.prec.DEFAULT_F64_ACC (α := ℝ))) = true)
    ∧ ((R.prec.almost_eq x (0.0 : ℝ) (R.prec.DEFAULT_F64_ACC (α := ℝ))) = true)
    ∧ ((x ≤ (1.0 : ℝ)) ∨ (x ≤ a)) := by
  refine ⟨2, 1e-16, ?_, ?_, ?_, ?_, ?_, ?_⟩
  · norm_num
  · norm_num [show (RFun.inf : ℝ) = 0 from rfl]
  · norm_num [show (RFun.inf : ℝ) = 0 from rfl]
  · rw [almost_eq_finite _ _ _ (by simp)]; simp only [R.prec.DEFAULT_F64_ACC]; norm_num
  · rw [almost_eq_finite _ _ _ (by simp)]; simp only [R.prec.DEFAULT_F64_ACC]; norm_num
  · norm_num
/-- NaN and `+inf` arguments are doubles -/
example : (RFun.isNaN (RFun.nan : Float) = true) ∨ (RFun.isNaN (1.0 : Float) = true) := by decide
example : ¬ ((RFun.isNaN (RFun.inf : Float) = true) ∨ (RFun.isNaN (1.0 : Float) = true))
    ∧ (((RFun.inf : Float) ≤ (0.0 : Float)) ∨ (((RFun.inf : Float) == (RFun.inf : Float)) = true)) := by decide

/-- `digamma`: the pole guard at `x = −1`, the reflection at `x = −1/2`, the expansion at `x = 1e-7`,
    the tail at `x = 1` (over ℝ `negInf` is the junk value 0, `ulpsEq` is equality) -/
example : ¬ ((((-1 : ℝ) == (RFun.negInf : ℝ)) = true) ∨ (RFun.isNaN (-1 : ℝ) = true))
    ∧ (((-1 : ℝ) ≤ (0.0 : ℝ)) ∧ ((RFun.ulpsEq (RFun.floor (-1 : ℝ)) (-1 : ℝ)) = true)) := by
  norm_num [show (RFun.negInf : ℝ) = 0 from rfl]
example : ∃ x : ℝ, ¬ (((x == (RFun.negInf : ℝ)) = true) ∨ (RFun.isNaN x = true))
    ∧ ¬ ((x ≤ (0.0 : ℝ)) ∧ ((RFun.ulpsEq (RFun.floor x) x) = true)) ∧ x < (0.0 : ℝ) := by
  refine ⟨-1/2, ?_, ?_, ?_⟩
  · norm_num [show (RFun.negInf : ℝ) = 0 from rfl]
  · have : ⌊(-1/2 : ℝ)⌋ = -1 := by rw [Int.floor_eq_iff]; norm_num
    simp [this]; norm_num
  · norm_num
example : ∃ x : ℝ, ¬ (((x == (RFun.negInf : ℝ)) = true) ∨ (RFun.isNaN x = true))
    ∧ ¬ ((x ≤ (0.0 : ℝ)) ∧ ((RFun.ulpsEq (RFun.floor x) x) = true)) ∧ ¬ x < (0.0 : ℝ) ∧ x ≤ (1e-6 : ℝ) := by
  refine ⟨1e-7, ?_, ?_, ?_, ?_⟩ <;> norm_num [show (RFun.negInf : ℝ) = 0 from rfl]
example : ∃ x : ℝ, ¬ (((x == (RFun.negInf : ℝ)) = true) ∨ (RFun.isNaN x = true))
    ∧ ¬ ((x ≤ (0.0 : ℝ)) ∧ ((RFun.ulpsEq (RFun.floor x) x) = true)) ∧ ¬ x < (0.0 : ℝ) ∧ ¬ x ≤ (1e-6 : ℝ) := by
  refine ⟨1, ?_, ?_, ?_, ?_⟩ <;> norm_num [show (RFun.negInf : ℝ) = 0 from rfl]

/-- the loop hypotheses are satisfiable: over ℝ the recurrence of `digamma 13` exits at once with
    `(result, z) = (0, 13)` and `12 ≤ z` -/
example : F.gamma.digamma.loop1 loopFuel (12.0 : ℝ) (0.0 : ℝ) 13 = LoopR.done ((0.0 : ℝ), 13) := by
  have : loopFuel = 19999 + 1 := rfl
  rw [this, digamma_loop1_step, if_neg (by norm_num)]

end Statrs.Props.C11.BranchPins
