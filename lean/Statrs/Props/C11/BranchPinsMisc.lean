/-
  C11 — BRANCH PINS for src/function/{evaluate,factorial,harmonic,logistic,exponential}.rs.
  Sections 1–5 are branch logic for EVERY carrier α (IEEE doubles included); section 6 uses ℝ for
  the one statement that needs real arithmetic (the factorial table is strictly increasing).
  Tables: `Statrs/Spec/FunctionBranches.lean`.

  What is pinned:
  * `polynomial` IS Horner's rule with the constant term first (`polynomial_eq_horner`, all α);
  * the factorial table: 171 entries, `FCACHE[0] = 1.0`, `FCACHE[n] = FCACHE[n−1] · n` for
    `1 ≤ n ≤ 170` (all α, through the generated initialiser loop); `factorial n = FCACHE[n]` up to
    `MAX_FACTORIAL = 170` and `+inf` above; `ln_factorial` switches to `ln_gamma(n + 1)` at the same
    point; `binomial` / `ln_binomial` / `checked_multinomial` guards and the rounding
    `floor(0.5 + exp(·))`;
  * `harmonic`, `gen_harmonic`: the `0 ↦ 1.0` special case; `logistic`, `checked_logit`;
  * exponential integral `Eₙ(x)`: guards `n = 0`, `x == 0`, `1 < x` (continued fraction) else series;
    `eps = 1e-17`, `max_iter = 100` (iteration list `1..101`), Lentz start `c = 1/1e-100`; one step
    of each loop; stopping tests are STRICT (`< eps`); exhausting 100 iterations returns `None`.
-/
import Mathlib.Tactic
import Statrs.Real.Simp
import Statrs.Inst.Float
import Statrs.Spec.FunctionBranches
namespace Statrs.Props.C11.BranchPins
open Statrs Statrs.Gen Statrs.Spec.FunctionBranches
set_option linter.unusedSectionVars false

section generic
variable {α : Type} [Add α] [Sub α] [Mul α] [Div α] [Neg α] [LT α] [LE α] [BEq α]
  [DecidableLT α] [DecidableLE α] [OfScientific α] [Inhabited α] [RFun α]

/-! ## 1. `polynomial` (evaluate.rs:13–23) -/

/-- the lifted `for c in coeff[0..n-1].iter().rev()` is a left fold `sum ← c + z·sum` -/
theorem polynomial_loop1_eq (l : List α) (z sum : α) :
    F.evaluate.polynomial.loop1 l z sum = LoopR.done (l.foldl (fun s c => c + (z * s)) sum) := by
  induction l generalizing sum with
  | nil => rfl
  | cons c l ih => rw [F.evaluate.polynomial.loop1]; exact ih _

theorem horner_nil (z : α) : horner z [] = (0.0 : α) := rfl
theorem horner_single (z c : α) : horner z [c] = c := rfl
theorem horner_cons (z c d : α) (ds : List α) : horner z (c :: d :: ds) = c + (z * horner z (d :: ds)) := rfl

theorem horner_eq_foldr (z c : α) (cs : List α) :
    horner z (c :: cs) = (c :: cs).dropLast.foldr (fun c s => c + (z * s)) ((c :: cs).getLast (by simp)) := by
  induction cs generalizing c with
  | nil => rfl
  | cons d ds ih =>
    rw [horner_cons, ih d]
    rfl

/-- evaluate.rs:13–23: `polynomial z [c₀, …, cₖ] = c₀ + z·(c₁ + z·(… + z·cₖ))` — Horner, constant
    term first, highest coefficient innermost; `0.0` on the empty table -/
theorem polynomial_eq_horner (z : α) (coeff : List α) : F.evaluate.polynomial z coeff = horner z coeff := by
  cases coeff with
  | nil => rfl
  | cons c cs =>
    unfold F.evaluate.polynomial
    have hn : ¬ (listLen (c :: cs) = (0 : Int)) := by simp [listLen]; omega
    simp only [if_neg hn]
    rw [polynomial_loop1_eq, horner_eq_foldr]
    have hu : Int.toNat (usub (listLen (c :: cs)) (1 : Int) - (0 : Int)) = cs.length := by
      unfold usub listLen
      rw [if_neg (by simp)]
      simp
    have hlast : unwrapO ((c :: cs).getLast?) = (c :: cs).getLast (by simp) := by
      rw [List.getLast?_eq_some_getLast (by simp)]; rfl
    show List.foldl _ (unwrapO ((c :: cs).getLast?)) (List.reverse ((List.drop (Int.toNat 0) (c :: cs)).take _)) = _
    rw [hu, hlast, List.foldl_reverse]
    have htake : (List.drop (Int.toNat 0) (c :: cs)).take cs.length = (c :: cs).dropLast := by
      rw [List.dropLast_eq_take]; simp
    rw [htake]
theorem polynomial_nil (z : α) : F.evaluate.polynomial z [] = (0.0 : α) := rfl
theorem polynomial_single (z c : α) : F.evaluate.polynomial z [c] = c := by rw [polynomial_eq_horner]; rfl
theorem polynomial_cons (z c d : α) (ds : List α) :
    F.evaluate.polynomial z (c :: d :: ds) = c + (z * F.evaluate.polynomial z (d :: ds)) := by
  rw [polynomial_eq_horner, polynomial_eq_horner]; rfl

/-! ## 2. the factorial table (factorial.rs:9, 90–103) -/

theorem MAX_FACTORIAL_eq : (F.factorial.MAX_FACTORIAL (α := α)) = 170 := rfl
theorem maxFactorial_eq : maxFactorial = 170 := rfl

/-- invariant of the `FCACHE` initialiser `while i < MAX_FACTORIAL + 1 { fc[i] = fc[i−1]·i; i += 1 }`:
    171 slots, slot 0 is `1.0`, every slot `1 ≤ j < i` is its predecessor times `j` -/
def FcRec (fc : List α) (i : Nat) : Prop :=
  fc.length = 171 ∧ listGet fc 0 = (1.0 : α) ∧
    ∀ j : Nat, 1 ≤ j → j < i → listGet fc (j : Int) = listGet fc ((j : Int) - 1) * (RFun.ofInt (j : Int) : α)

theorem listGet_nat (fc : List α) (j : Nat) : listGet fc (j : Int) = fc.getD j default := by
  unfold listGet; rw [if_neg (by omega)]; simp

theorem fcache_loop_any (k : Nat) : ∀ (i : Nat) (fc : List α) (fuel : Nat), 1 ≤ i → i + k = 171 → k < fuel →
    FcRec fc i → ∃ fc', F.factorial.FCACHE.loop1 (α := α) fuel fc (i : Int) = LoopR.done (fc', 171) ∧ FcRec fc' 171 := by
  induction k with
  | zero =>
    intro i fc fuel hi hik hf hinv
    obtain ⟨f', rfl⟩ : ∃ f', fuel = f' + 1 := ⟨fuel - 1, by omega⟩
    have : i = 171 := by omega
    subst this
    refine ⟨fc, ?_, hinv⟩
    unfold F.factorial.FCACHE.loop1
    simp [F.factorial.MAX_FACTORIAL]
  | succ k ih =>
    intro i fc fuel hi hik hf hinv
    obtain ⟨f', rfl⟩ : ∃ f', fuel = f' + 1 := ⟨fuel - 1, by omega⟩
    unfold F.factorial.FCACHE.loop1
    have hlt : (i : Int) < F.factorial.MAX_FACTORIAL (α := α) + 1 := by
      simp only [F.factorial.MAX_FACTORIAL]; omega
    rw [if_pos hlt]
    simp only
    have hcast : (i : Int) + 1 = ((i + 1 : Nat) : Int) := by push_cast; ring
    rw [hcast]
    apply ih (i + 1) _ f' (by omega) (by omega) (by omega)
    obtain ⟨hlen, h0, hval⟩ := hinv
    have hnn : ¬ ((i : Int) < 0) := by omega
    obtain ⟨p, rfl⟩ : ∃ p, i = p + 1 := ⟨i - 1, by omega⟩
    have hpred : ((p + 1 : Nat) : Int) - 1 = (p : Int) := by push_cast; ring
    set v : α := listGet fc (((p + 1 : Nat) : Int) - 1) * (RFun.ofInt ((p + 1 : Nat) : Int) : α) with hv
    -- the new table agrees with the old one away from slot `p + 1`, and holds `v` there
    have hget : ∀ j : Nat, j ≠ p + 1 →
        listGet (listSet fc ((p + 1 : Nat) : Int) v) (j : Int) = listGet fc (j : Int) := by
      intro j hj
      rw [listGet_nat, listGet_nat]
      simp only [listSet, if_neg hnn, Int.toNat_natCast, List.getD_eq_getElem?_getD]
      rw [List.getElem?_set_ne (by omega)]
    have hself : listGet (listSet fc ((p + 1 : Nat) : Int) v) ((p + 1 : Nat) : Int) = v := by
      rw [listGet_nat]
      simp only [listSet, if_neg hnn, Int.toNat_natCast, List.getD_eq_getElem?_getD]
      rw [List.getElem?_set_self (by omega)]; rfl
    have hlen' : (listSet fc ((p + 1 : Nat) : Int) v).length = 171 := by
      unfold listSet; rw [if_neg hnn, List.length_set]; exact hlen
    refine ⟨hlen', ?_, ?_⟩
    · have h := hget 0 (by omega)
      simp only [Nat.cast_zero] at h
      exact h.trans h0
    · intro j hj1 hj
      by_cases hji : j = p + 1
      · subst hji
        rw [hself, hpred, hget p (by omega), hv, hpred]
      · have hjm : ((j : Int) - 1) = ((j - 1 : Nat) : Int) := by omega
        rw [hget j hji, hjm, hget (j - 1) (by omega), ← hjm]
        exact hval j hj1 (by omega)

/-- the generated `FCACHE`, on every carrier: 171 entries with the factorial recurrence -/
theorem FCACHE_rec : FcRec (F.factorial.FCACHE (α := α)) 171 := by
  unfold F.factorial.FCACHE
  have hN : Int.toNat (F.factorial.MAX_FACTORIAL (α := α) + 1) = 171 := rfl
  have h0 : FcRec (List.replicate (Int.toNat (F.factorial.MAX_FACTORIAL (α := α) + 1)) (1.0 : α)) 1 := by
    rw [hN]
    refine ⟨List.length_replicate, ?_, ?_⟩
    · have := listGet_nat (List.replicate 171 (1.0 : α)) 0
      simp only [Nat.cast_zero] at this
      rw [this]; rfl
    · intro j hj1 hj; omega
  obtain ⟨fc', h1, h2⟩ := fcache_loop_any 170 1 _ loopFuel (by omega) (by omega) (by unfold loopFuel; omega) h0
  simp only [Nat.cast_one] at h1
  show FcRec (match F.factorial.FCACHE.loop1 (α := α) loopFuel _ 1 with
    | LoopR.ret v_ => v_ | LoopR.hang => panicV | LoopR.done (fcache, i) => fcache) 171
  rw [h1]
  exact h2

/-- table LENGTH: `MAX_FACTORIAL + 1 = 171` entries -/
theorem FCACHE_length : (F.factorial.FCACHE (α := α)).length = 171 := FCACHE_rec.1
theorem FCACHE_zero : listGet (F.factorial.FCACHE (α := α)) 0 = (1.0 : α) := FCACHE_rec.2.1
/-- `FCACHE[n] = FCACHE[n−1] · n` for `1 ≤ n ≤ 170` (the product is taken in this order) -/
theorem FCACHE_succ (n : Nat) (h1 : 1 ≤ n) (h : n ≤ 170) :
    listGet (F.factorial.FCACHE (α := α)) (n : Int)
      = listGet (F.factorial.FCACHE (α := α)) ((n : Int) - 1) * (RFun.ofInt (n : Int) : α) :=
  FCACHE_rec.2.2 n h1 (by omega)

theorem FCACHE_get?_some (n : Nat) (h : n ≤ 170) :
    listGet? (F.factorial.FCACHE (α := α)) (n : Int) = some (listGet (F.factorial.FCACHE (α := α)) (n : Int)) := by
  rw [listGet_nat]
  unfold listGet?
  rw [if_neg (by omega)]
  have hl : n < (F.factorial.FCACHE (α := α)).length := by rw [FCACHE_length]; omega
  simp [List.getD_eq_getElem?_getD, List.getElem?_eq_getElem hl]
theorem FCACHE_get?_none (x : Int) (h : 170 < x) : listGet? (F.factorial.FCACHE (α := α)) x = none := by
  unfold listGet?
  rw [if_neg (by omega), List.getElem?_eq_none_iff, FCACHE_length]; omega

/-! ## 3. factorial / ln_factorial / binomial / multinomial (factorial.rs:18–86) -/

theorem factorial_eq_spec (x : Int) : F.factorial.factorial (α := α) x = factorialSpec x := by
  unfold F.factorial.factorial factorialSpec
  dsimp only
  generalize listGet? (F.factorial.FCACHE (α := α)) x = o
  cases o <;> rfl
theorem ln_factorial_eq_spec (x : Int) : F.factorial.ln_factorial (α := α) x = lnFactorialSpec x := by
  unfold F.factorial.ln_factorial lnFactorialSpec
  dsimp only
  generalize listGet? (F.factorial.FCACHE (α := α)) x = o
  cases o <;> rfl

/-- `n ≤ 170`: `factorial n = FCACHE[n]` -/
theorem factorial_table (n : Nat) (h : n ≤ 170) :
    F.factorial.factorial (α := α) (n : Int) = listGet (F.factorial.FCACHE (α := α)) (n : Int) := by
  unfold F.factorial.factorial; dsimp only; rw [FCACHE_get?_some n h]
/-- `n > 170`: `factorial n = +inf` (the cut is `MAX_FACTORIAL = 170`) -/
theorem factorial_beyond (x : Int) (h : 170 < x) : F.factorial.factorial (α := α) x = (RFun.inf : α) := by
  unfold F.factorial.factorial; dsimp only; rw [FCACHE_get?_none x h]
theorem factorial_zero : F.factorial.factorial (α := α) 0 = (1.0 : α) := by
  have := factorial_table (α := α) 0 (by omega)
  simp only [Nat.cast_zero] at this
  rw [this, FCACHE_zero]
/-- the recurrence `n! = (n−1)!·n` inside the table, on every carrier -/
theorem factorial_rec (n : Nat) (h1 : 1 ≤ n) (h : n ≤ 170) :
    F.factorial.factorial (α := α) (n : Int)
      = F.factorial.factorial (α := α) ((n : Int) - 1) * (RFun.ofInt (n : Int) : α) := by
  have hm : ((n : Int) - 1) = ((n - 1 : Nat) : Int) := by omega
  rw [factorial_table n h, hm, factorial_table (n - 1) (by omega), ← hm, FCACHE_succ n h1 h]

/-- `n ≤ 170`: `ln_factorial n = ln FCACHE[n]` -/
theorem ln_factorial_table (n : Nat) (h : n ≤ 170) :
    F.factorial.ln_factorial (α := α) (n : Int) = RFun.ln (listGet (F.factorial.FCACHE (α := α)) (n : Int)) := by
  unfold F.factorial.ln_factorial; dsimp only; rw [FCACHE_get?_some n h]
/-- `n > 170`: `ln_factorial n = ln_gamma(n + 1)` (Lanczos) -/
theorem ln_factorial_beyond (x : Int) (h : 170 < x) :
    F.factorial.ln_factorial (α := α) x = F.gamma.ln_gamma ((RFun.ofInt x : α) + (1.0 : α)) := by
  unfold F.factorial.ln_factorial; dsimp only; rw [FCACHE_get?_none x h]

theorem binomial_eq_spec (n k : Int) : F.factorial.binomial (α := α) n k = binomialSpec n k := by
  unfold F.factorial.binomial; simp only [binomialSpec, firstMatch]
theorem ln_binomial_eq_spec (n k : Int) : F.factorial.ln_binomial (α := α) n k = lnBinomialSpec n k := by
  unfold F.factorial.ln_binomial; simp only [lnBinomialSpec, firstMatch]
/-- `k > n`: `0.0` (also `Statrs.Props.C11.binomial_of_lt` in Props/C11/Structure.lean) -/
theorem binomial_gt (n k : Int) (h : n < k) : F.factorial.binomial (α := α) n k = (0.0 : α) := by
  unfold F.factorial.binomial; rw [if_pos h]
/-- `k ≤ n`: `floor(0.5 + exp(ln n! − ln k! − ln (n−k)!))`, rounding constant `0.5` -/
theorem binomial_le (n k : Int) (h : ¬ n < k) :
    F.factorial.binomial (α := α) n k = RFun.floor ((0.5 : α) + (RFun.exp (((F.factorial.ln_factorial (α := α) n)
      - (F.factorial.ln_factorial (α := α) k)) - (F.factorial.ln_factorial (α := α) (n - k))))) := by
  unfold F.factorial.binomial; rw [if_neg h]; unfold usub; rw [if_neg h]
/-- `k > n`: `−inf`; `k ≤ n`: the log-factorial difference (also `Statrs.Props.C11.ln_binomial_of_lt/_of_le`
    in Props/C11/Structure.lean) -/
theorem ln_binomial_gt (n k : Int) (h : n < k) : F.factorial.ln_binomial (α := α) n k = (RFun.negInf : α) := by
  unfold F.factorial.ln_binomial; rw [if_pos h]
theorem ln_binomial_le (n k : Int) (h : ¬ n < k) :
    F.factorial.ln_binomial (α := α) n k = (F.factorial.ln_factorial (α := α) n - F.factorial.ln_factorial (α := α) k)
      - F.factorial.ln_factorial (α := α) (n - k) := by
  unfold F.factorial.ln_binomial; rw [if_neg h]; unfold usub; rw [if_neg h]

/-- the single fold of `checked_multinomial` computes `(Σ nᵢ, ln n! − Σ ln nᵢ!)` -/
theorem multinomial_fold (ni : List Int) (s : Int) (r : α) :
    List.foldl (fun (acc : Int × α) x => ((acc.1 + x), (acc.2 - (F.factorial.ln_factorial (α := α) x)))) (s, r) ni
      = (ni.foldl (· + ·) s, ni.foldl (fun r x => r - F.factorial.ln_factorial (α := α) x) r) := by
  induction ni generalizing s r with
  | nil => rfl
  | cons x xs ih => simp only [List.foldl_cons]; exact ih _ _
theorem checked_multinomial_eq_spec (n : Int) (ni : List Int) :
    F.factorial.checked_multinomial (α := α) n ni = multinomialSpec n ni := by
  unfold F.factorial.checked_multinomial multinomialSpec
  rw [multinomial_fold]; rfl
/-- `Σ nᵢ ≠ n`: `None` -/
theorem checked_multinomial_none (n : Int) (ni : List Int) (h : ¬ ni.foldl (· + ·) (0 : Int) = n) :
    F.factorial.checked_multinomial (α := α) n ni = none := by
  rw [checked_multinomial_eq_spec]; simp only [multinomialSpec, firstMatch, if_neg h]
/-- `Σ nᵢ = n`: `Some(floor(0.5 + exp(ln n! − Σ ln nᵢ!)))` -/
theorem checked_multinomial_some (n : Int) (ni : List Int) (h : ni.foldl (· + ·) (0 : Int) = n) :
    F.factorial.checked_multinomial (α := α) n ni = some (RFun.floor ((0.5 : α) + (RFun.exp
      (ni.foldl (fun r x => r - F.factorial.ln_factorial (α := α) x) (F.factorial.ln_factorial (α := α) n))))) := by
  rw [checked_multinomial_eq_spec]; simp only [multinomialSpec, firstMatch, if_pos h]
theorem multinomial_eq (n : Int) (ni : List Int) :
    F.factorial.multinomial (α := α) n ni = unwrapO (F.factorial.checked_multinomial (α := α) n ni) := rfl

/-! ## 4. harmonic / gen_harmonic / logistic / logit (harmonic.rs, logistic.rs) -/

theorem harmonic_zero : F.harmonic.harmonic (α := α) 0 = (1.0 : α) := rfl
/-- `t ≠ 0`: `γ + ψ(t + 1)` -/
theorem harmonic_pos (t : Int) (h : t ≠ 0) :
    F.harmonic.harmonic (α := α) t = (RFun.c_EULER_MASCHERONI : α) + F.gamma.digamma ((RFun.ofInt t : α) + (1.0 : α)) := by
  unfold F.harmonic.harmonic
  split
  · exact absurd rfl h
  · rfl
theorem harmonic_eq_spec (t : Int) : F.harmonic.harmonic (α := α) t = harmonicSpec t := by
  by_cases h : t = 0
  · subst h; rfl
  · rw [harmonic_pos t h]; simp only [harmonicSpec, firstMatch, if_neg h]

theorem gen_harmonic_zero (m : α) : F.harmonic.gen_harmonic 0 m = (1.0 : α) := rfl
/-- `n ≠ 0`: `Σ_{x = 0}^{n−1} (x + 1)^(−m)` accumulated from `0.0`, left to right -/
theorem gen_harmonic_pos (n : Int) (m : α) (h : n ≠ 0) :
    F.harmonic.gen_harmonic n m = List.foldl (fun acc x => acc + (RFun.pow ((RFun.ofInt x : α) + (1.0 : α)) (-m)))
      (0.0 : α) (rangeList (0 : Int) n) := by
  unfold F.harmonic.gen_harmonic
  split
  · exact absurd rfl h
  · rfl
theorem gen_harmonic_eq_spec (n : Int) (m : α) : F.harmonic.gen_harmonic n m = genHarmonicSpec n m := by
  by_cases h : n = 0
  · subst h; rfl
  · rw [gen_harmonic_pos n m h]; simp only [genHarmonicSpec, firstMatch, if_neg h]

/-- no guard: `1 / (exp(−p) + 1)` for every `p` -/
theorem logistic_eq_spec (p : α) : F.logistic.logistic p = (1.0 : α) / ((RFun.exp (-p)) + (1.0 : α)) := rfl
theorem checked_logit_eq_spec (p : α) : F.logistic.checked_logit p = logitSpec p := by
  unfold F.logistic.checked_logit; simp only [logitSpec, firstMatch]
theorem checked_logit_inside (p : α) (h : ((0.0 : α) ≤ p) ∧ (p ≤ (1.0 : α))) :
    F.logistic.checked_logit p = some (RFun.ln (p / ((1.0 : α) - p))) := by
  unfold F.logistic.checked_logit; rw [if_pos h]
theorem checked_logit_outside (p : α) (h : ¬ (((0.0 : α) ≤ p) ∧ (p ≤ (1.0 : α)))) :
    F.logistic.checked_logit p = none := by
  unfold F.logistic.checked_logit; rw [if_neg h]
theorem logit_eq (p : α) : F.logistic.logit p = unwrapO (F.logistic.checked_logit p) := rfl

/-! ## 5. exponential integral `Eₙ(x)` (exponential.rs:27–84) -/

theorem expIntEps_eq : (expIntEps : α) = (1e-17 : α) := rfl
theorem expIntNearMin_eq : (expIntNearMin : α) = (1e-100 : α) := rfl
set_option maxRecDepth 100000 in
/-- `for i in 1..max_iter + 1`, `max_iter = 100`: the integers `1, …, 100` -/
theorem expIntIters_eq : expIntIters = (List.range 100).map (fun i => (1 : Int) + (i : Int)) := by decide
theorem expIntIters_length : expIntIters.length = 100 := by simp [expIntIters, rangeList]

/-- continued-fraction loop, list exhausted: hands back its state (the caller then returns `None`) -/
theorem expint_loop1_nil (eps nf64 x b d c h : α) :
    F.exponential.integral.loop1 [] eps nf64 x b d c h = LoopR.done (b, d, c, h) := rfl
/-- one Lentz step `expIntCfStep`; `return Some(h·exp(−x))` iff `|del − 1| < eps` (strict) -/
theorem expint_loop1_cons (i : Int) (l : List Int) (eps nf64 x b d c h : α) :
    F.exponential.integral.loop1 (i :: l) eps nf64 x b d c h =
      if RFun.abs ((expIntCfStep nf64 i (b, d, c, h)).2 - (1.0 : α)) < eps then
        LoopR.ret (some ((expIntCfStep nf64 i (b, d, c, h)).1.2.2.2 * (RFun.exp (-x))))
      else F.exponential.integral.loop1 l eps nf64 x (expIntCfStep nf64 i (b, d, c, h)).1.1
        (expIntCfStep nf64 i (b, d, c, h)).1.2.1 (expIntCfStep nf64 i (b, d, c, h)).1.2.2.1
        (expIntCfStep nf64 i (b, d, c, h)).1.2.2.2 := by
  rw [F.exponential.integral.loop1]; rfl
/-- `ψ` accumulation `for ii in 1..n { psi += 1/ii }` is a left fold -/
theorem expint_loop104_eq (l : List Int) (psi : α) :
    F.exponential.integral.loop104 l psi
      = LoopR.done (l.foldl (fun psi ii => psi + ((1.0 : α) / (RFun.ofInt ii : α))) psi) := by
  induction l generalizing psi with
  | nil => rfl
  | cons i l ih => rw [F.exponential.integral.loop104]; exact ih _
theorem expint_loop3_nil (eps : α) (n : Int) (nf64 x factorial result : α) :
    F.exponential.integral.loop3 [] eps n nf64 x factorial result = LoopR.done (factorial, result) := rfl
/-- one series step: `factorial *= −x/i`, `del = expIntSeriesDel …`, `result += del`;
    `return Some(result)` iff `|del| < |result|·eps` (strict) -/
theorem expint_loop3_cons (i : Int) (l : List Int) (eps : α) (n : Int) (nf64 x factorial result : α) :
    F.exponential.integral.loop3 (i :: l) eps n nf64 x factorial result =
      if RFun.abs (expIntSeriesDel n nf64 x (factorial * (((-(1.0 : α)) * x) / (RFun.ofInt i : α))) i)
          < (RFun.abs (result + expIntSeriesDel n nf64 x (factorial * (((-(1.0 : α)) * x) / (RFun.ofInt i : α))) i)) * eps then
        LoopR.ret (some (result + expIntSeriesDel n nf64 x (factorial * (((-(1.0 : α)) * x) / (RFun.ofInt i : α))) i))
      else F.exponential.integral.loop3 l eps n nf64 x (factorial * (((-(1.0 : α)) * x) / (RFun.ofInt i : α)))
        (result + expIntSeriesDel n nf64 x (factorial * (((-(1.0 : α)) * x) / (RFun.ofInt i : α))) i) := by
  rw [F.exponential.integral.loop3]
  simp only [expIntSeriesDel, expIntPsi, firstMatch, expint_loop104_eq]
  rfl

theorem expint_n_zero (x : α) : F.exponential.integral x 0 = some ((RFun.exp ((-(1.0 : α)) * x)) / x) := by
  unfold F.exponential.integral; simp only [if_pos]
theorem expint_x_zero (x : α) (n : Int) (hn : ¬ n = 0) (hx : (x == (0.0 : α)) = true) :
    F.exponential.integral x n = some ((1.0 : α) / ((RFun.ofInt n : α) - (1.0 : α))) := by
  unfold F.exponential.integral; simp only [if_neg hn, if_pos hx]
/-- `1 < x`: Lentz continued fraction from `b = x + n`, `c = 1/1e-100`, `d = h = 1/b`, over `1..101`,
    `eps = 1e-17`; converged value as returned by the loop … -/
theorem expint_cf_converged (x : α) (n : Int) (v : Option α) (hn : ¬ n = 0) (hx : ¬ (x == (0.0 : α)) = true)
    (h1 : (1.0 : α) < x)
    (hloop : F.exponential.integral.loop1 (rangeList (1 : Int) ((100 : Int) + (1 : Int))) (0.00000000000000001 : α)
        (RFun.ofInt n : α) x (x + (RFun.ofInt n : α)) ((1.0 : α) / (x + (RFun.ofInt n : α)))
        ((1.0 : α) / (1e-100 : α)) ((1.0 : α) / (x + (RFun.ofInt n : α))) = LoopR.ret v) :
    F.exponential.integral x n = v := by
  unfold F.exponential.integral; simp only [if_neg hn, if_neg hx, if_pos h1]; rw [hloop]
/-- … and `None` when the 100 iterations are exhausted -/
theorem expint_cf_exhausted (x : α) (n : Int) (s : α × α × α × α) (hn : ¬ n = 0) (hx : ¬ (x == (0.0 : α)) = true)
    (h1 : (1.0 : α) < x)
    (hloop : F.exponential.integral.loop1 (rangeList (1 : Int) ((100 : Int) + (1 : Int))) (0.00000000000000001 : α)
        (RFun.ofInt n : α) x (x + (RFun.ofInt n : α)) ((1.0 : α) / (x + (RFun.ofInt n : α)))
        ((1.0 : α) / (1e-100 : α)) ((1.0 : α) / (x + (RFun.ofInt n : α))) = LoopR.done s) :
    F.exponential.integral x n = none := by
  unfold F.exponential.integral; simp only [if_neg hn, if_neg hx, if_pos h1]; rw [hloop]
/-- `¬ 1 < x`: power series from `factorial = 1`, first term `1/(n − 1)` (`n ≠ 1`) or `−ln x − γ` (`n = 1`) -/
theorem expint_series_converged (x : α) (n : Int) (v : Option α) (hn : ¬ n = 0) (hx : ¬ (x == (0.0 : α)) = true)
    (h1 : ¬ (1.0 : α) < x)
    (hloop : F.exponential.integral.loop3 (rangeList (1 : Int) ((100 : Int) + (1 : Int))) (0.00000000000000001 : α)
        n (RFun.ofInt n : α) x (1.0 : α)
        (if (usub n (1 : Int)) ≠ (0 : Int) then ((1.0 : α) / ((RFun.ofInt n : α) - (1.0 : α)))
          else (((-(1.0 : α)) * (RFun.ln x)) - (RFun.c_EULER_MASCHERONI : α))) = LoopR.ret v) :
    F.exponential.integral x n = v := by
  unfold F.exponential.integral; simp only [if_neg hn, if_neg hx, if_neg h1]; rw [hloop]
theorem expint_series_exhausted (x : α) (n : Int) (s : α × α) (hn : ¬ n = 0) (hx : ¬ (x == (0.0 : α)) = true)
    (h1 : ¬ (1.0 : α) < x)
    (hloop : F.exponential.integral.loop3 (rangeList (1 : Int) ((100 : Int) + (1 : Int))) (0.00000000000000001 : α)
        n (RFun.ofInt n : α) x (1.0 : α)
        (if (usub n (1 : Int)) ≠ (0 : Int) then ((1.0 : α) / ((RFun.ofInt n : α) - (1.0 : α)))
          else (((-(1.0 : α)) * (RFun.ln x)) - (RFun.c_EULER_MASCHERONI : α))) = LoopR.done s) :
    F.exponential.integral x n = none := by
  unfold F.exponential.integral; simp only [if_neg hn, if_neg hx, if_neg h1]; rw [hloop]

/-- exponential.rs:27–84: the generated `integral` IS the Spec table `expIntSpec` -/
theorem expint_eq_spec (x : α) (n : Int) : F.exponential.integral x n = expIntSpec x n := by
  unfold F.exponential.integral expIntSpec
  simp only [firstMatch, expIntIters, expIntEps, expIntNearMin]
  split_ifs <;> rfl

end generic

/-! ## 6. over ℝ: the factorial table holds `n!` and is strictly increasing from index 1 -/

/-- over ℝ the table recurrence gives `FCACHE[n] = n!` (the same fact, by a different route, is
    `Statrs.Lemmas.FunctionLayer.fcache_get` / `Statrs.Props.C11.factorial_eq` in Props/C11/Structure.lean) -/
theorem FCACHE_real (n : Nat) (h : n ≤ 170) :
    listGet (F.factorial.FCACHE (α := ℝ)) (n : Int) = (n.factorial : ℝ) := by
  induction n with
  | zero =>
    have h0 := FCACHE_zero (α := ℝ)
    simp only [Nat.cast_zero, Nat.factorial_zero, Nat.cast_one]
    rw [h0]; norm_num
  | succ k ih =>
    have hs := FCACHE_succ (α := ℝ) (k + 1) (by omega) h
    have hk : (((k + 1 : Nat) : Int) - 1) = (k : Int) := by push_cast; ring
    rw [hs, hk, ih (by omega), Nat.factorial_succ, rfun_ofInt]
    push_cast; ring
/-- `factorial n = n!` for `n ≤ 170` -/
theorem factorial_real (n : Nat) (h : n ≤ 170) : F.factorial.factorial (α := ℝ) (n : Int) = (n.factorial : ℝ) := by
  rw [factorial_table n h, FCACHE_real n h]
/-- `1 ≤ m < n ≤ 170 ⇒ FCACHE[m] < FCACHE[n]`: strictly increasing from index 1
    (indices 0 and 1 both hold `1`, `FCACHE_zero_one`) -/
theorem FCACHE_strictMono (m n : Nat) (hm : 1 ≤ m) (hmn : m < n) (hn : n ≤ 170) :
    listGet (F.factorial.FCACHE (α := ℝ)) (m : Int) < listGet (F.factorial.FCACHE (α := ℝ)) (n : Int) := by
  rw [FCACHE_real m (by omega), FCACHE_real n hn]
  exact_mod_cast (Nat.factorial_lt (by omega)).mpr hmn
theorem factorial_strictMono (m n : Nat) (hm : 1 ≤ m) (hmn : m < n) (hn : n ≤ 170) :
    F.factorial.factorial (α := ℝ) (m : Int) < F.factorial.factorial (α := ℝ) (n : Int) := by
  rw [factorial_table m (by omega), factorial_table n hn]
  exact FCACHE_strictMono m n hm hmn hn
theorem FCACHE_zero_one : listGet (F.factorial.FCACHE (α := ℝ)) 0 = 1 ∧ listGet (F.factorial.FCACHE (α := ℝ)) 1 = 1 := by
  have h0 := FCACHE_real 0 (by omega)
  have h1 := FCACHE_real 1 (by omega)
  constructor
  · simpa using h0
  · simpa using h1

/-! ## non-vacuity -/

example : ∃ n k : Int, n < k := ⟨1, 2, by norm_num⟩
example : ∃ n k : Int, ¬ n < k := ⟨2, 1, by norm_num⟩
example : ∃ p : ℝ, ((0.0 : ℝ) ≤ p) ∧ (p ≤ (1.0 : ℝ)) := ⟨1/2, by norm_num⟩
example : ∃ p : ℝ, ¬ (((0.0 : ℝ) ≤ p) ∧ (p ≤ (1.0 : ℝ))) := ⟨2, by norm_num⟩
example : ¬ (((0.0 : Float) ≤ RFun.nan) ∧ ((RFun.nan : Float) ≤ 1.0)) := by decide
example : ∃ (x : ℝ) (n : Int), ¬ n = 0 ∧ ¬ (x == (0.0 : ℝ)) = true ∧ (1.0 : ℝ) < x := ⟨2, 1, by norm_num⟩
example : ∃ (x : ℝ) (n : Int), ¬ n = 0 ∧ ¬ (x == (0.0 : ℝ)) = true ∧ ¬ (1.0 : ℝ) < x := ⟨1/2, 1, by norm_num⟩
example : ∃ ni : List Int, ni.foldl (· + ·) (0 : Int) = 5 := ⟨[2, 3], rfl⟩
example : F.evaluate.polynomial (2 : ℝ) [3, -1, 2] = 9 := by
  rw [polynomial_eq_horner]; norm_num [horner]

end Statrs.Props.C11.BranchPins
