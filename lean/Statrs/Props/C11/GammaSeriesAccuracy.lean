/-
  C11 — `checked_gamma_lr`, SERIES branch, against the TRUE regularised incomplete gamma function
  `P(a,x) = gammaLrR a x = (∫₀ˣ e^{−t} t^{a−1} dt)/Γ(a)` (`Props/C03/SFDerivWitness.lean`), in exact real
  arithmetic.  `LG = F.gamma.ln_gamma` is the model's Lanczos `ln_gamma`; it is never unfolded.

  * `gamma_series_identity`        `Σ_{n≥0} x^n/((a+1)…(a+n)) = a·Γ(a)·P(a,x)·x^{−a}·e^x`;
  * `gamma_series_remainder`       `P(a,x) − x^a e^{−x}/Γ(a+1)·S_N = P(a+N+1,x)`  (exact truncation error);
  * `gamma_series_trunc_bounds`    `1 − eps·x/(a+N+1−x) ≤ S_N/S_∞ ≤ 1` at the stopping index `N` of tolerance `eps`;
  * `gamma_lr_series_accuracy`     `checked_gamma_lr a x = ok (P(a,x) · exp(log Γ(a) − LG a) · S_N/S_∞)` with
                                   `1 − 1e-15·x/(a+N+1−x) ≤ S_N/S_∞ ≤ 1`;
  * `gamma_lr_series_accuracy_rel` two-sided relative error given a bound `η` on the Lanczos error
                                   `|log Γ(a) − LG a|`;
  * `gamma_lr_series_exact_rel`    if `LG a = log Γ(a)` the result is exactly `P(a,x) − P(a+N+1,x)`.
-/
import Statrs.Props.C11.GammaSeriesValue
import Statrs.Lemmas.GammaSeriesTrue
namespace Statrs.Props.C11
open Statrs Statrs.Gen Statrs.Lemmas.GammaSeries Statrs.Props.C03.Witness

private theorem exp_ax {a x L : ℝ} (hx : 0 < x) :
    Real.exp (a * Real.log x - x - L) = x ^ a * Real.exp (-x) / Real.exp L := by
  rw [Real.exp_sub, Real.exp_sub, Real.rpow_def_of_pos hx, mul_comm (Real.log x) a, Real.exp_neg]
  field_simp

private theorem exp_lg {a L : ℝ} (ha : 0 < a) :
    Real.exp (Real.log (Real.Gamma a) - L) = Real.Gamma a / Real.exp L := by
  rw [Real.exp_sub, Real.exp_log (Real.Gamma_pos_of_pos ha)]

/-- full(ℝ): the series identity.  For `a > 0`, `x > 0` the series `Σ_{n≥0} x^n/((a+1)…(a+n))` (the one the
    loop of `checked_gamma_lr` sums) converges to `a·Γ(a)·P(a,x)·x^{−a}·e^x`, `P` the true regularised lower
    incomplete gamma function. -/
theorem gamma_series_identity {a x : ℝ} (ha : 0 < a) (hx : 0 < x) :
    HasSum (term a x) (a * Real.Gamma a * gammaLrR a x * x ^ (-a) * Real.exp x) := by
  have h := hasSum_term ha hx
  rw [Real.Gamma_add_one ha.ne'] at h
  convert h using 1
  ring

/-- full(ℝ): the exact truncation error of the series after `N` terms is the shifted function:
    `P(a,x) − x^a e^{−x}/Γ(a+1) · S_N = P(a+N+1, x)`. -/
theorem gamma_series_remainder {a x : ℝ} (ha : 0 < a) (hx : 0 < x) (N : ℕ) :
    gammaLrR a x - x ^ a * Real.exp (-x) / Real.Gamma (a + 1) * psum a x N
      = gammaLrR (a + ((N + 1 : ℕ) : ℝ)) x := by
  have := gammaLrR_eq_psum_add ha hx N
  linarith

/-- full(ℝ): truncation factor at a stopping index.  If the stopping test `c_N / S_N ≤ eps` holds at `N` and
    the term ratio there is below one (`x < a + N + 1`), then
    `1 − eps · x/(a+N+1−x) ≤ S_N / S_∞ ≤ 1`  (geometric tail with ratio `x/(a+N+1)`). -/
theorem gamma_series_trunc_bounds {a x eps : ℝ} (ha : 0 < a) (hx : 0 < x) (N : ℕ)
    (hN : x < a + ((N + 1 : ℕ) : ℝ)) (hstop : term a x N / psum a x N ≤ eps) :
    1 - eps * (x / (a + ((N + 1 : ℕ) : ℝ) - x)) ≤ psum a x N / ∑' n, term a x n ∧
    psum a x N / ∑' n, term a x n ≤ 1 := by
  have hp := psum_pos ha.le hx.le N
  have hle := psum_le_tsum ha.le hx N
  have hT : 0 < ∑' n, term a x n := lt_of_lt_of_le hp hle
  have hsplit := psum_add_tail ha.le hx N
  have htail0 := tail_nonneg ha.le hx N
  have htail := tail_le ha.le hx N hN
  have hq : 0 ≤ x / (a + ((N + 1 : ℕ) : ℝ) - x) := div_nonneg hx.le (by linarith)
  have hstop' : term a x N ≤ eps * psum a x N := (div_le_iff₀ hp).mp hstop
  refine ⟨?_, (div_le_one hT).mpr hle⟩
  rw [le_div_iff₀ hT]
  -- tail ≤ eps · S_N · q ≤ eps · S_∞ · q
  have h1 : ∑' k, term a x (k + (N + 1)) ≤ eps * psum a x N * (x / (a + ((N + 1 : ℕ) : ℝ) - x)) :=
    htail.trans (mul_le_mul_of_nonneg_right hstop' hq)
  have heps : 0 ≤ eps := by
    have := term_pos ha.le hx N
    by_contra hneg
    have : eps * psum a x N < 0 := mul_neg_of_neg_of_pos (not_le.mp hneg) hp
    linarith
  have h2 : eps * psum a x N * (x / (a + ((N + 1 : ℕ) : ℝ) - x))
      ≤ eps * (∑' n, term a x n) * (x / (a + ((N + 1 : ℕ) : ℝ) - x)) :=
    mul_le_mul_of_nonneg_right (mul_le_mul_of_nonneg_left hle heps) hq
  nlinarith

/-- full(ℝ): in the series region every term ratio `x/(a+N+1)` (`N ≥ 0`) is below one -/
theorem series_ratio_lt_one {a x : ℝ} (ha : 0 < a) (hs : x ≤ 1 ∨ x ≤ a) (N : ℕ) :
    x < a + ((N + 1 : ℕ) : ℝ) := by
  have : (0 : ℝ) ≤ N := Nat.cast_nonneg N
  push_cast
  rcases hs with h | h <;> linarith

/-- full(ℝ): ACCURACY of the series branch in exact arithmetic.  Under the hypotheses of
    `gamma_lr_series_value` (`N = stopIdx a x 1e-15`):
      `checked_gamma_lr a x = ok ( P(a,x) · exp(log Γ(a) − LG a) · S_N/S_∞ )`,
    and the truncation factor satisfies `1 − 1e-15 · x/(a+N+1−x) ≤ S_N/S_∞ ≤ 1`.
    So the relative error of the branch is the error of the Lanczos `ln_gamma` (in the exponent) times a
    truncation factor within `1e-15 · x/(a+N+1−x)` of 1. -/
theorem gamma_lr_series_accuracy (a x : ℝ) (ha : (0.0000000000000011102230246251565 : ℝ) < a)
    (hx : 0 < x)
    (hu : -(709.78271289338399 : ℝ) ≤ a * Real.log x - x - F.gamma.ln_gamma a)
    (hs : x ≤ 1 ∨ x ≤ a) (hfuel : stopIdx a x 1e-15 ≤ loopFuel) :
    F.gamma.checked_gamma_lr a x =
      .ok (gammaLrR a x * Real.exp (Real.log (Real.Gamma a) - F.gamma.ln_gamma a)
        * (psum a x (stopIdx a x 1e-15) / ∑' n, term a x n)) ∧
    1 - 1e-15 * (x / (a + ((stopIdx a x 1e-15 + 1 : ℕ) : ℝ) - x))
      ≤ psum a x (stopIdx a x 1e-15) / ∑' n, term a x n ∧
    psum a x (stopIdx a x 1e-15) / ∑' n, term a x n ≤ 1 := by
  have ha0 : (0 : ℝ) < a := lt_trans (by norm_num) ha
  have hx0 : (0 : ℝ) < x := hx
  set N := stopIdx a x 1e-15 with hNdef
  have hspec := stopIdx_spec ha0.le hx0 (by norm_num : (0 : ℝ) < 1e-15)
  refine ⟨?_, gamma_series_trunc_bounds ha0 hx0 N (series_ratio_lt_one ha0 hs N) hspec.2⟩
  rw [gamma_lr_series_value a x ha hx hu hs hfuel]
  congr 1
  have hG := Real.Gamma_pos_of_pos ha0
  have hT : 0 < ∑' n, term a x n :=
    lt_of_lt_of_le (psum_pos ha0.le hx0.le 0) (psum_le_tsum ha0.le hx0 0)
  rw [gammaLrR_eq_tsum ha0 hx0, Real.Gamma_add_one ha0.ne', exp_ax hx0, exp_lg ha0]
  have h1 := (Real.exp_pos (F.gamma.ln_gamma a)).ne'
  field_simp
  rfl

/-- rel(`|log Γ(a) − LG a| ≤ η`, a bound on the error of the Lanczos `ln_gamma`): two-sided relative accuracy
    of the series branch.  The returned value `v` satisfies
      `exp(−η) · (1 − 1e-15·x/(a+N+1−x)) · P(a,x) ≤ v ≤ exp(η) · P(a,x)`. -/
theorem gamma_lr_series_accuracy_rel (a x η : ℝ) (ha : (0.0000000000000011102230246251565 : ℝ) < a)
    (hx : 0 < x)
    (hu : -(709.78271289338399 : ℝ) ≤ a * Real.log x - x - F.gamma.ln_gamma a)
    (hs : x ≤ 1 ∨ x ≤ a) (hfuel : stopIdx a x 1e-15 ≤ loopFuel)
    (hη : |Real.log (Real.Gamma a) - F.gamma.ln_gamma a| ≤ η) :
    ∃ v : ℝ, F.gamma.checked_gamma_lr a x = .ok v ∧
      Real.exp (-η) * (1 - 1e-15 * (x / (a + ((stopIdx a x 1e-15 + 1 : ℕ) : ℝ) - x))) * gammaLrR a x ≤ v ∧
      v ≤ Real.exp η * gammaLrR a x := by
  have ha0 : (0 : ℝ) < a := lt_trans (by norm_num) ha
  have hx0 : (0 : ℝ) < x := hx
  obtain ⟨hv, hlo, hhi⟩ := gamma_lr_series_accuracy a x ha hx hu hs hfuel
  refine ⟨_, hv, ?_, ?_⟩
  all_goals
    have hP := gammaLrR_pos ha0 hx0
    have habs := abs_le.mp hη
    have he1 : Real.exp (-η) ≤ Real.exp (Real.log (Real.Gamma a) - F.gamma.ln_gamma a) :=
      Real.exp_le_exp.mpr habs.1
    have he2 : Real.exp (Real.log (Real.Gamma a) - F.gamma.ln_gamma a) ≤ Real.exp η :=
      Real.exp_le_exp.mpr habs.2
    have he0 := Real.exp_pos (Real.log (Real.Gamma a) - F.gamma.ln_gamma a)
    have hen := Real.exp_pos (-η)
    have hT : 0 < ∑' n, term a x n :=
      lt_of_lt_of_le (psum_pos ha0.le hx0.le 0) (psum_le_tsum ha0.le hx0 0)
    have hq0 : 0 < psum a x (stopIdx a x 1e-15) / ∑' n, term a x n :=
      div_pos (psum_pos ha0.le hx0.le _) hT
  · -- lower bound
    by_cases hneg : 1 - 1e-15 * (x / (a + ((stopIdx a x 1e-15 + 1 : ℕ) : ℝ) - x)) ≤ 0
    · have h1 : Real.exp (-η) * (1 - 1e-15 * (x / (a + ((stopIdx a x 1e-15 + 1 : ℕ) : ℝ) - x))) * gammaLrR a x ≤ 0 :=
        mul_nonpos_of_nonpos_of_nonneg (mul_nonpos_of_nonneg_of_nonpos hen.le hneg) hP.le
      exact h1.trans (by positivity)
    · have hpos := (not_le.mp hneg).le
      calc Real.exp (-η) * (1 - 1e-15 * (x / (a + ((stopIdx a x 1e-15 + 1 : ℕ) : ℝ) - x))) * gammaLrR a x
          ≤ Real.exp (Real.log (Real.Gamma a) - F.gamma.ln_gamma a)
              * (psum a x (stopIdx a x 1e-15) / ∑' n, term a x n) * gammaLrR a x :=
            mul_le_mul_of_nonneg_right (mul_le_mul he1 hlo hpos he0.le) hP.le
        _ = _ := by ring
  · -- upper bound
    calc gammaLrR a x * Real.exp (Real.log (Real.Gamma a) - F.gamma.ln_gamma a)
          * (psum a x (stopIdx a x 1e-15) / ∑' n, term a x n)
        ≤ gammaLrR a x * Real.exp η * 1 :=
          mul_le_mul (mul_le_mul_of_nonneg_left he2 hP.le) hhi hq0.le (by positivity)
      _ = _ := by ring

/-- rel(`LG a = log Γ(a)`, i.e. an exact `ln_gamma`): then the series branch returns the true value minus the
    exact tail, `P(a,x) − P(a+N+1,x)`, `N = stopIdx a x 1e-15`: the only error left is the truncation. -/
theorem gamma_lr_series_exact_rel (a x : ℝ) (ha : (0.0000000000000011102230246251565 : ℝ) < a)
    (hx : 0 < x)
    (hu : -(709.78271289338399 : ℝ) ≤ a * Real.log x - x - F.gamma.ln_gamma a)
    (hs : x ≤ 1 ∨ x ≤ a) (hfuel : stopIdx a x 1e-15 ≤ loopFuel)
    (hLG : F.gamma.ln_gamma a = Real.log (Real.Gamma a)) :
    F.gamma.checked_gamma_lr a x =
      .ok (gammaLrR a x - gammaLrR (a + ((stopIdx a x 1e-15 + 1 : ℕ) : ℝ)) x) := by
  have ha0 : (0 : ℝ) < a := lt_trans (by norm_num) ha
  have hx0 : (0 : ℝ) < x := hx
  rw [gamma_lr_series_value a x ha hx hu hs hfuel, ← gamma_series_remainder ha0 hx0, hLG]
  congr 1
  have hG := Real.Gamma_pos_of_pos ha0
  rw [Real.Gamma_add_one ha0.ne', exp_ax hx0, Real.exp_log hG]
  field_simp
  ring

/-- full(ℝ): size of the truncation bound in the two parts of the series region: for `x ≤ 1` it is at most
    `eps`, for `x ≤ a` at most `eps · x/(N+1)`. -/
theorem gamma_series_trunc_delta_le {a x eps : ℝ} (ha : 0 < a) (hx : 0 < x) (he : 0 ≤ eps) (N : ℕ) (hN : 1 ≤ N) :
    (x ≤ 1 → eps * (x / (a + ((N + 1 : ℕ) : ℝ) - x)) ≤ eps) ∧
    (x ≤ a → eps * (x / (a + ((N + 1 : ℕ) : ℝ) - x)) ≤ eps * (x / ((N : ℝ) + 1))) := by
  have hN' : (1 : ℝ) ≤ N := by exact_mod_cast hN
  constructor
  · intro h
    have hd : 0 < a + ((N + 1 : ℕ) : ℝ) - x := by push_cast; linarith
    have : x / (a + ((N + 1 : ℕ) : ℝ) - x) ≤ 1 := by
      rw [div_le_one hd]; push_cast; linarith
    nlinarith
  · intro h
    have : x / (a + ((N + 1 : ℕ) : ℝ) - x) ≤ x / ((N : ℝ) + 1) :=
      div_le_div_of_nonneg_left hx.le (by positivity) (by push_cast; linarith)
    exact mul_le_mul_of_nonneg_left this he

/-- full(ℝ): the accuracy statement without a fuel hypothesis, for `a ≤ 2 847 142`, with an `N`-free bound for the
    truncation factor: `1 − 1e-15·max 1 (x/2) ≤ S_N/S_∞ ≤ 1`. -/
theorem gamma_lr_series_accuracy_of_le (a x : ℝ) (ha : (0.0000000000000011102230246251565 : ℝ) < a)
    (hx : 0 < x)
    (hu : -(709.78271289338399 : ℝ) ≤ a * Real.log x - x - F.gamma.ln_gamma a)
    (hs : x ≤ 1 ∨ x ≤ a) (ha2 : a ≤ 2847142) :
    ∃ q : ℝ, F.gamma.checked_gamma_lr a x =
        .ok (gammaLrR a x * Real.exp (Real.log (Real.Gamma a) - F.gamma.ln_gamma a) * q) ∧
      1 - 1e-15 * max 1 (x / 2) ≤ q ∧ q ≤ 1 := by
  have ha0 : (0 : ℝ) < a := lt_trans (by norm_num) ha
  have hx0 : (0 : ℝ) < x := hx
  obtain ⟨hv, hlo, hhi⟩ := gamma_lr_series_accuracy a x ha hx hu hs (gamma_lr_series_fuel a x ha0 hx0 hs ha2)
  refine ⟨_, hv, le_trans ?_ hlo, hhi⟩
  have hN := (stopIdx_spec ha0.le hx0 (by norm_num : (0 : ℝ) < 1e-15)).1
  obtain ⟨h1, h2⟩ := gamma_series_trunc_delta_le ha0 hx0 (by norm_num : (0 : ℝ) ≤ 1e-15) _ hN
  have hN' : (1 : ℝ) ≤ (stopIdx a x 1e-15 : ℝ) := by exact_mod_cast hN
  rcases hs with h | h
  · have := h1 h
    have hm : (1 : ℝ) ≤ max 1 (x / 2) := le_max_left _ _
    nlinarith
  · have := h2 h
    have hm : x / 2 ≤ max 1 (x / 2) := le_max_right _ _
    have hq : x / ((stopIdx a x 1e-15 : ℝ) + 1) ≤ x / 2 :=
      div_le_div_of_nonneg_left hx0.le two_pos (by linarith)
    nlinarith

end Statrs.Props.C11
