/-
  C11 — `checked_gamma_lr` / `checked_gamma_ur`, CONTINUED-FRACTION branch (src/function/gamma.rs:323–364,
  211–250) in exact real arithmetic: the loop's quotients `p/q` are the convergents `A_k/B_k` of the three-term
  recurrence of `Lemmas/GammaSeriesCF.lean`; the rescaling by `big_inv` changes `(p3,p2,q3,q2)` by a common
  non-zero factor (`cfScale`, a power of `big_inv`) and therefore neither `p/q` nor the test `q ≠ 0`.

  * `gamma_lr_loop3_step_cf`   one iteration on the invariant state;
  * `gamma_lr_loop3_run`       from state `k`, the loop ends at the first iteration `K ≥ k` with `cfTest K` and
                               returns `ans = A_{K+2}/B_{K+2}` together with the scaled quadruple;
  * `gamma_lr_cf_value`        `checked_gamma_lr a x = ok (1 − exp(a·ln x − x − LG a) · A_{K+2}/B_{K+2})`;
  * `gamma_lr_cf_value_convs`  the same with Mathlib's `GenContFract.convs` of `gammaCF a x`;
  * `gamma_lr_loop3_done_convergent`  whatever the fuel: IF the loop returns, its `ans` is a convergent.
  Convergence of `A_k/B_k` to `Q(a,x)·Γ(a)·e^x·x^{−a}` (hence existence of `K`) is NOT proved here.
-/
import Statrs.Props.C11.GammaSeriesValue
import Statrs.Lemmas.GammaSeriesCF
namespace Statrs.Props.C11
open Statrs Statrs.Gen Statrs.Lemmas.GammaCF

private theorem cfY_step (a : ℝ) (k : ℕ) : cfY a k + (1.0 : ℝ) = cfY a (k + 1) := by
  unfold cfY; push_cast; norm_num; ring
private theorem cfZ_step (a x : ℝ) (k : ℕ) : cfZ a x k + (2.0 : ℝ) = cfZ a x (k + 1) := by
  unfold cfZ; push_cast; norm_num; ring

/-- full(ℝ): ONE iteration of the continued-fraction loop of `checked_gamma_lr` on the invariant state
    `(y,z,c,p3,p2,q3,q2,ans) = (y_k, z_k, k, s_k·A_k, s_k·A_{k+1}, s_k·B_k, s_k·B_{k+1}, ans_k)`:
    it stops iff `cfTest k` (new denominator `B_{k+2} ≠ 0` and relative change `≤ eps`), returning the
    quotient `A_{k+2}/B_{k+2}`; otherwise it continues from the invariant state `k+1`. -/
theorem gamma_lr_loop3_step_cf (big big_inv eps a x : ℝ) (hbi : big_inv ≠ 0) (fuel k : ℕ) :
    F.gamma.checked_gamma_lr.loop3 (fuel + 1) big big_inv eps (cfY a k) (cfZ a x k) (k : Int)
        (cfScale big big_inv a x k * cfA a x k) (cfScale big big_inv a x k * cfA a x (k + 1))
        (cfScale big big_inv a x k * cfB a x k) (cfScale big big_inv a x k * cfB a x (k + 1)) (cfAns a x k)
      = if cfTest a x eps k then
          LoopR.done (cfY a (k + 1), cfZ a x (k + 1), ((k + 1 : ℕ) : Int),
            cfScale big big_inv a x (k + 1) * cfA a x (k + 1), cfScale big big_inv a x (k + 1) * cfA a x (k + 2),
            cfScale big big_inv a x (k + 1) * cfB a x (k + 1), cfScale big big_inv a x (k + 1) * cfB a x (k + 2),
            cfA a x (k + 2) / cfB a x (k + 2))
        else
          F.gamma.checked_gamma_lr.loop3 fuel big big_inv eps (cfY a (k + 1)) (cfZ a x (k + 1)) ((k + 1 : ℕ) : Int)
            (cfScale big big_inv a x (k + 1) * cfA a x (k + 1)) (cfScale big big_inv a x (k + 1) * cfA a x (k + 2))
            (cfScale big big_inv a x (k + 1) * cfB a x (k + 1)) (cfScale big big_inv a x (k + 1) * cfB a x (k + 2))
            (cfAns a x (k + 1)) := by
  have hS := cfScale_ne_zero (big := big) a x hbi k
  rw [BranchPins.gamma_lr_loop3_step]
  dsimp only
  have hc : ((k : Int) + (1 : Int)) = ((k + 1 : ℕ) : Int) := by push_cast; rfl
  have ho : (RFun.ofInt ((k + 1 : ℕ) : Int) : ℝ) = ((k + 1 : ℕ) : ℝ) := by
    rw [rfun_ofInt, Int.cast_natCast]
  rw [cfY_step, cfZ_step, hc, ho]
  have hp : cfScale big big_inv a x k * cfA a x (k + 1) * cfZ a x (k + 1)
      - cfScale big big_inv a x k * cfA a x k * (cfY a (k + 1) * ((k + 1 : ℕ) : ℝ))
      = cfScale big big_inv a x k * cfA a x (k + 2) := by rw [cfA_succ_succ]; ring
  have hq : cfScale big big_inv a x k * cfB a x (k + 1) * cfZ a x (k + 1)
      - cfScale big big_inv a x k * cfB a x k * (cfY a (k + 1) * ((k + 1 : ℕ) : ℝ))
      = cfScale big big_inv a x k * cfB a x (k + 2) := by rw [cfB_succ_succ]; ring
  rw [hp, hq]
  have hr : BranchPins.cfRescale big big_inv (cfScale big big_inv a x k * cfA a x (k + 2))
      (cfScale big big_inv a x k * cfA a x (k + 1)) (cfScale big big_inv a x k * cfA a x (k + 2))
      (cfScale big big_inv a x k * cfB a x (k + 1)) (cfScale big big_inv a x k * cfB a x (k + 2))
      = (cfScale big big_inv a x (k + 1) * cfA a x (k + 1), cfScale big big_inv a x (k + 1) * cfA a x (k + 2),
         cfScale big big_inv a x (k + 1) * cfB a x (k + 1), cfScale big big_inv a x (k + 1) * cfB a x (k + 2)) := by
    unfold BranchPins.cfRescale
    rw [cfScale]
    simp only [rfun_abs]
    split_ifs
    · simp only [Prod.mk.injEq]; refine ⟨?_, ?_, ?_, ?_⟩ <;> ring
    · rfl
  rw [hr]
  dsimp only
  have hquot : cfScale big big_inv a x k * cfA a x (k + 2) / (cfScale big big_inv a x k * cfB a x (k + 2))
      = cfA a x (k + 2) / cfB a x (k + 2) := mul_div_mul_left _ _ hS
  have h0 : (0.0 : ℝ) = 0 := by norm_num
  rw [hquot]
  simp only [real_beq, rfun_abs, h0, mul_eq_zero, hS, false_or]
  by_cases hB : cfB a x (k + 2) = 0
  · have hnt : ¬ cfTest a x eps k := fun h => h.1 hB
    rw [if_neg hnt, if_neg (not_not.mpr hB)]
    have : cfAns a x (k + 1) = cfAns a x k := by rw [cfAns, if_pos hB]
    rw [this]
  · rw [if_pos hB]
    have hans : cfAns a x (k + 1) = cfA a x (k + 2) / cfB a x (k + 2) := by rw [cfAns, if_neg hB]
    rw [hans]
    by_cases ht : cfTest a x eps k
    · rw [if_pos ht, if_pos ht.2]
    · have : ¬ |(cfAns a x k - cfA a x (k + 2) / cfB a x (k + 2)) / (cfA a x (k + 2) / cfB a x (k + 2))| ≤ eps :=
        fun h => ht ⟨hB, h⟩
      rw [if_neg ht, if_neg this]

/-- full(ℝ): from the invariant state `k` the continued-fraction loop ends at the first iteration `K ≥ k`
    with `cfTest K` (needs `K + 1 − k ≤ fuel`) and returns the convergent `A_{K+2}/B_{K+2}`; the scaled
    quadruple it carries is `s·(A_{K+1}, A_{K+2}, B_{K+1}, B_{K+2})`, `s = cfScale (K+1)` a power of `big_inv`. -/
theorem gamma_lr_loop3_run (big big_inv eps a x : ℝ) (hbi : big_inv ≠ 0) (K : ℕ) :
    ∀ (fuel k : ℕ), k ≤ K → K + 1 - k ≤ fuel →
      (∀ j, k ≤ j → j < K → ¬ cfTest a x eps j) → cfTest a x eps K →
      F.gamma.checked_gamma_lr.loop3 fuel big big_inv eps (cfY a k) (cfZ a x k) (k : Int)
        (cfScale big big_inv a x k * cfA a x k) (cfScale big big_inv a x k * cfA a x (k + 1))
        (cfScale big big_inv a x k * cfB a x k) (cfScale big big_inv a x k * cfB a x (k + 1)) (cfAns a x k)
      = LoopR.done (cfY a (K + 1), cfZ a x (K + 1), ((K + 1 : ℕ) : Int),
          cfScale big big_inv a x (K + 1) * cfA a x (K + 1), cfScale big big_inv a x (K + 1) * cfA a x (K + 2),
          cfScale big big_inv a x (K + 1) * cfB a x (K + 1), cfScale big big_inv a x (K + 1) * cfB a x (K + 2),
          cfA a x (K + 2) / cfB a x (K + 2)) := by
  intro fuel
  induction fuel with
  | zero => intro k hk hf; omega
  | succ f ih =>
    intro k hk hf hnot hK
    rw [gamma_lr_loop3_step_cf big big_inv eps a x hbi f k]
    by_cases hkK : k = K
    · subst hkK; rw [if_pos hK]
    · rw [if_neg (hnot k le_rfl (by omega))]
      exact ih (k + 1) (by omega) (by omega) (fun j h1 h2 => hnot j (by omega) h2) hK

/-- full(ℝ): whatever the fuel — IF the continued-fraction loop, started in an invariant state `k`, returns,
    then the returned `ans` is the convergent `A_{K+2}/B_{K+2}` of the iteration `K = c − 1 ≥ k` at which it
    stopped, `B_{K+2} ≠ 0`, the stopping test held there and at no earlier iteration. -/
theorem gamma_lr_loop3_done_convergent (big big_inv eps a x : ℝ) (hbi : big_inv ≠ 0) :
    ∀ (fuel k : ℕ) (y z : ℝ) (c : Int) (p3 p2 q3 q2 ans : ℝ),
      F.gamma.checked_gamma_lr.loop3 fuel big big_inv eps (cfY a k) (cfZ a x k) (k : Int)
        (cfScale big big_inv a x k * cfA a x k) (cfScale big big_inv a x k * cfA a x (k + 1))
        (cfScale big big_inv a x k * cfB a x k) (cfScale big big_inv a x k * cfB a x (k + 1)) (cfAns a x k)
        = LoopR.done (y, z, c, p3, p2, q3, q2, ans) →
      ∃ K : ℕ, k ≤ K ∧ K < k + fuel ∧ c = ((K + 1 : ℕ) : Int) ∧ cfTest a x eps K ∧
        (∀ j, k ≤ j → j < K → ¬ cfTest a x eps j) ∧
        ans = cfA a x (K + 2) / cfB a x (K + 2) ∧
        p3 = cfScale big big_inv a x (K + 1) * cfA a x (K + 1) ∧
        p2 = cfScale big big_inv a x (K + 1) * cfA a x (K + 2) ∧
        q3 = cfScale big big_inv a x (K + 1) * cfB a x (K + 1) ∧
        q2 = cfScale big big_inv a x (K + 1) * cfB a x (K + 2) := by
  intro fuel
  induction fuel with
  | zero => intro k y z c p3 p2 q3 q2 ans h; simp [BranchPins.gamma_lr_loop3_zero] at h
  | succ f ih =>
    intro k y z c p3 p2 q3 q2 ans h
    rw [gamma_lr_loop3_step_cf big big_inv eps a x hbi f k] at h
    by_cases ht : cfTest a x eps k
    · rw [if_pos ht] at h
      simp only [LoopR.done.injEq, Prod.mk.injEq] at h
      obtain ⟨-, -, hc, h3, h2, h5, h4, ha⟩ := h
      exact ⟨k, le_rfl, by omega, hc.symm, ht, fun j h1 h2 => by omega, ha.symm, h3.symm, h2.symm,
        h5.symm, h4.symm⟩
    · rw [if_neg ht] at h
      obtain ⟨K, hK1, hK2, hrest⟩ := ih (k + 1) y z c p3 p2 q3 q2 ans h
      obtain ⟨hc, hT, hno, hrest⟩ := hrest
      refine ⟨K, by omega, by omega, hc, hT, fun j h1 h2 => ?_, hrest⟩
      by_cases hjk : j = k
      · subst hjk; exact ht
      · exact hno j (by omega) h2

/-! ### the continued-fraction branch of `checked_gamma_lr` -/

/-- the iteration (0-based) at which the continued-fraction loop stops: the least `j` with `cfTest j`
    (`0` if there is none) -/
noncomputable def cfStopIdx (a x eps : ℝ) : ℕ := sInf {j : ℕ | cfTest a x eps j}

/-- full(ℝ): the start state of the continued-fraction loop is the invariant state `0`; the loop returns the
    convergent `A_{K+2}/B_{K+2}`, `K = cfStopIdx a x eps`, when a stopping iteration exists and `K < fuel`. -/
theorem gamma_lr_loop3_start (big big_inv eps a x : ℝ) (hbi : big_inv ≠ 0) (hex : ∃ j, cfTest a x eps j)
    (fuel : ℕ) (hfuel : cfStopIdx a x eps < fuel) :
    F.gamma.checked_gamma_lr.loop3 fuel big big_inv eps ((1.0 : ℝ) - a) ((x + ((1.0 : ℝ) - a)) + (1.0 : ℝ)) (0 : Int)
        (1.0 : ℝ) (x + (1.0 : ℝ)) x (((x + ((1.0 : ℝ) - a)) + (1.0 : ℝ)) * x)
        ((x + (1.0 : ℝ)) / (((x + ((1.0 : ℝ) - a)) + (1.0 : ℝ)) * x))
      = LoopR.done (cfY a (cfStopIdx a x eps + 1), cfZ a x (cfStopIdx a x eps + 1), ((cfStopIdx a x eps + 1 : ℕ) : Int),
          cfScale big big_inv a x (cfStopIdx a x eps + 1) * cfA a x (cfStopIdx a x eps + 1),
          cfScale big big_inv a x (cfStopIdx a x eps + 1) * cfA a x (cfStopIdx a x eps + 2),
          cfScale big big_inv a x (cfStopIdx a x eps + 1) * cfB a x (cfStopIdx a x eps + 1),
          cfScale big big_inv a x (cfStopIdx a x eps + 1) * cfB a x (cfStopIdx a x eps + 2),
          cfA a x (cfStopIdx a x eps + 2) / cfB a x (cfStopIdx a x eps + 2)) := by
  have hK : cfTest a x eps (cfStopIdx a x eps) := Nat.sInf_mem (s := {j : ℕ | cfTest a x eps j}) hex
  have h := gamma_lr_loop3_run big big_inv eps a x hbi (cfStopIdx a x eps) fuel 0 (Nat.zero_le _) (by omega)
    (fun j _ h2 => Nat.notMem_of_lt_sInf (s := {j : ℕ | cfTest a x eps j}) h2) hK
  have e1 : (1.0 : ℝ) = 1 := by norm_num
  have ey : cfY a 0 = (1.0 : ℝ) - a := by unfold cfY; rw [e1]; simp
  have ez : cfZ a x 0 = (x + ((1.0 : ℝ) - a)) + (1.0 : ℝ) := by unfold cfZ; rw [e1]; simp; ring
  have ep3 : cfScale big big_inv a x 0 * cfA a x 0 = (1.0 : ℝ) := by rw [e1]; simp [cfScale, cfA]
  have ep2 : cfScale big big_inv a x 0 * cfA a x (0 + 1) = x + (1.0 : ℝ) := by rw [e1]; simp [cfScale, cfA]
  have eq3 : cfScale big big_inv a x 0 * cfB a x 0 = x := by simp [cfScale, cfB]
  have eq2 : cfScale big big_inv a x 0 * cfB a x (0 + 1) = ((x + ((1.0 : ℝ) - a)) + (1.0 : ℝ)) * x := by
    rw [e1]; simp only [cfScale, cfB, one_mul]; ring
  have eans : cfAns a x 0 = (x + (1.0 : ℝ)) / (((x + ((1.0 : ℝ) - a)) + (1.0 : ℝ)) * x) := by
    rw [e1]; simp only [cfAns, cfA, cfB]; congr 1; ring
  rw [ey, ez, ep3, ep2, eq3, eq2, eans, Nat.cast_zero] at h
  exact h

/-- full(ℝ): the CONTINUED-FRACTION branch of `checked_gamma_lr` in exact arithmetic.  For `a` above the
    `almost_eq(a, 0)` shortcut, `1 < x`, `a < x` (the complement of the series region), outside the underflow
    shortcut, when a stopping iteration exists (`hex`; convergence of the fraction is not proved here) and the
    stopping iteration `K = cfStopIdx a x 1e-15` is within the model's fuel:
      `checked_gamma_lr a x = ok (1 − exp(a·ln x − x − LG a) · A_{K+2}/B_{K+2})`,
    `A_k/B_k` the convergents of the three-term recurrence (`cfA`, `cfB`): the rescaling by `2^-52` has no
    effect on the value. -/
theorem gamma_lr_cf_value (a x : ℝ) (ha : (0.0000000000000011102230246251565 : ℝ) < a)
    (hx1 : 1 < x) (hxa : a < x)
    (hu : -(709.78271289338399 : ℝ) ≤ a * Real.log x - x - F.gamma.ln_gamma a)
    (hex : ∃ j, cfTest a x 1e-15 j) (hfuel : cfStopIdx a x 1e-15 < loopFuel) :
    F.gamma.checked_gamma_lr a x =
      .ok (1 - Real.exp (a * Real.log x - x - F.gamma.ln_gamma a)
        * (cfA a x (cfStopIdx a x 1e-15 + 2) / cfB a x (cfStopIdx a x 1e-15 + 2))) := by
  have hx : (0 : ℝ) < x := lt_trans one_pos hx1
  obtain ⟨g1, g2, g3, g4⟩ := gamma_lr_guards_real ha hx
  have e15 : (0.000000000000001 : ℝ) = 1e-15 := by norm_num
  have hloop := gamma_lr_loop3_start (4503599627370496.0 : ℝ) (2.22044604925031308085e-16 : ℝ) 1e-15 a x
    (by norm_num) hex loopFuel hfuel
  have hs : ¬ (x ≤ (1.0 : ℝ) ∨ x ≤ a) := by
    rw [show (1.0 : ℝ) = 1 by norm_num]; push Not; exact ⟨hx1, hxa⟩
  have h := BranchPins.checked_gamma_lr_cf a x _ _ _ _ _ _ _ _ g1 g2 g3 g4
    (by simpa using not_lt.mpr hu) hs (by rw [e15]; exact hloop)
  rw [h]
  simp only [rfun_exp, rfun_ln]
  norm_num

/-- full(ℝ): the same value through Mathlib's `GenContFract`: the loop returns the `(K+2)`-th convergent of
    `gammaCF a x = 1/x + ((a−1)/x)/(x−a+2 − 1·(2−a)/(x−a+4 − 2·(3−a)/(x−a+6 − …)))`
    (`Lemmas/GammaSeriesCF.lean`: `cfA k / cfB k = (gammaCF a x).convs k`). -/
theorem gamma_lr_cf_value_convs (a x : ℝ) (ha : (0.0000000000000011102230246251565 : ℝ) < a)
    (hx1 : 1 < x) (hxa : a < x)
    (hu : -(709.78271289338399 : ℝ) ≤ a * Real.log x - x - F.gamma.ln_gamma a)
    (hex : ∃ j, cfTest a x 1e-15 j) (hfuel : cfStopIdx a x 1e-15 < loopFuel) :
    F.gamma.checked_gamma_lr a x =
      .ok (1 - Real.exp (a * Real.log x - x - F.gamma.ln_gamma a)
        * (gammaCF a x).convs (cfStopIdx a x 1e-15 + 2)) := by
  rw [gamma_lr_cf_value a x ha hx1 hxa hu hex hfuel, cfA_div_cfB_eq_convs a x (by linarith)]

end Statrs.Props.C11
