/-
  C11 — `checked_gamma_lr` for VERY SMALL `x` (`0 < x ≤ DEFAULT_F64_ACC = 1.11e-15`), src/function/gamma.rs:296–321.

  History: up to commit 9f2f5b7 the source had the shortcut `almost_eq(x, 0.0, 1.11e-15) ⇒ Ok(0.0)`, which was wrong
  for small `a` (`P(a,x) ≈ x^a/Γ(a+1)` tends to 0 with `x` only like `x^a`; at `a = 0.001`, `x = 2^−50` the true value
  is `0.966…`, the old code returned `0`, and `gamma_ur` returned `1`).  The shortcut was REMOVED: these arguments
  now go on to `ax = a·ln x − x − LG a`, the underflow test and the series branch (`x ≤ 1`), like every other `x`.
  This file pins the repaired behaviour:

  * `gamma_lr_small_x_stop_le`, `gamma_lr_small_x_stop_eq_one`   the series loop stops after at most TWO terms
                                        (after ONE for `x ≤ 1e-15`);
  * `gamma_lr_small_x_value`            `ok (exp(ax)·S_N/a)`, `N = stopIdx a x 1e-15 ≤ 2`, no fuel hypothesis;
  * `gamma_lr_small_x_value_one_term`   for `x ≤ 1e-15`: `ok (exp(ax)·(1 + x/(a+1))/a)`;
  * `gamma_lr_small_x_underflow`        when `ax < −709.78…` (large `a`): `ok 0` — the only way `0` is still returned;
  * `gamma_lr_small_x_accuracy`         the accuracy statement of the series branch holds here, with truncation factor
                                        `1 − 1e-15·x ≤ S_N/S_∞ ≤ 1`;
  * `gamma_ur_small_x_value`            `checked_gamma_ur = ok (1 − series value)`;
  * `gammaLrR_ge_first_term`            the true `P(a,x) ≥ x^a e^{−x}/Γ(a+1)`;
  * `ln_gamma_milli_le`                 a crude bound on the model's Lanczos `ln_gamma` at `0.001` (reflection piece);
  * `gamma_lr_small_x_witness`          the OLD counterexample point `a = 0.001`, `x = 2^−50 ≈ 8.9e-16`, now
                                        UNCONDITIONALLY inside the accuracy theorem: the model returns
                                        `P·exp(log Γ(a) − LG a)·q`, `1 − 1e-15·2^−50 ≤ q ≤ 1`, and `P > 0.95`; in particular
                                        the returned value is positive (not `0`).
-/
import Statrs.Props.C11.GammaSeriesUr
namespace Statrs.Props.C11
open Statrs Statrs.Gen Statrs.Lemmas.GammaSeries Statrs.Props.C03.Witness
open Statrs.Spec.FunctionBranches Statrs.Props.C11.BranchPins

/-! ### the loop stops at once -/

private theorem term_one (a x : ℝ) : term a x 1 = x / (a + 1) := by
  rw [term_succ, term_zero, one_mul]; norm_num

private theorem term_two (a x : ℝ) : term a x 2 = x / (a + 1) * (x / (a + 2)) := by
  rw [term_succ, term_one]; norm_num

private theorem psum_one (a x : ℝ) : psum a x 1 = 1 + x / (a + 1) := by
  rw [psum_succ, psum_zero, term_one]

/-- full(ℝ): for `a ≥ 0` and `0 < x ≤ 1.1102230246251565e-15` the stopping test `c_n/S_n ≤ 1e-15` of the series loop
    holds at `n = 2` at the latest (`c_2 ≤ x² ≈ 1.2e-30`): the loop runs one or two iterations. -/
theorem gamma_lr_small_x_stop_le {a x : ℝ} (ha : 0 ≤ a) (hx0 : 0 < x)
    (hx : x ≤ (0.0000000000000011102230246251565 : ℝ)) :
    1 ≤ stopIdx a x 1e-15 ∧ stopIdx a x 1e-15 ≤ 2 := by
  refine ⟨(stopIdx_spec ha hx0 (by norm_num)).1, stopIdx_le (by norm_num) ?_⟩
  rw [div_le_iff₀ (psum_pos ha hx0.le 2), term_two]
  have hp := one_le_psum ha hx0.le 2
  have h1 : x / (a + 1) ≤ x := div_le_self hx0.le (by linarith)
  have h2 : x / (a + 2) ≤ x := div_le_self hx0.le (by linarith)
  have h10 : 0 ≤ x / (a + 1) := by positivity
  have h20 : 0 ≤ x / (a + 2) := by positivity
  have h3 : x / (a + 1) * (x / (a + 2)) ≤ x * x := mul_le_mul h1 h2 h20 hx0.le
  have h4 : x * x ≤ 1e-15 := by nlinarith
  nlinarith

/-- full(ℝ): for `x ≤ 1e-15` (the tolerance) the loop stops after exactly ONE iteration (`c_1 = x/(a+1) ≤ x`). -/
theorem gamma_lr_small_x_stop_eq_one {a x : ℝ} (ha : 0 ≤ a) (hx0 : 0 < x) (hx : x ≤ (1e-15 : ℝ)) :
    stopIdx a x 1e-15 = 1 := by
  refine stopIdx_eq le_rfl ?_ (fun j h1 h2 => by omega)
  rw [div_le_iff₀ (psum_pos ha hx0.le 1), term_one]
  have hp := one_le_psum ha hx0.le 1
  have h1 : x / (a + 1) ≤ x := div_le_self hx0.le (by linarith)
  nlinarith

/-! ### the value -/

/-- full(ℝ): the repaired small-`x` behaviour.  For `a` above the `a ≈ 0` shortcut and `0 < x ≤ 1.1102230246251565e-15`
    (the arguments the removed `x ≈ 0` shortcut used to send to `Ok(0.0)`), outside the underflow shortcut, the
    generated `checked_gamma_lr` returns the SERIES value `exp(a·ln x − x − LG a)·S_N/a` with `N = stopIdx a x 1e-15 ≤ 2`
    (no fuel hypothesis). -/
theorem gamma_lr_small_x_value (a x : ℝ) (ha : (0.0000000000000011102230246251565 : ℝ) < a)
    (hx0 : 0 < x) (hx : x ≤ (0.0000000000000011102230246251565 : ℝ))
    (hu : -(709.78271289338399 : ℝ) ≤ a * Real.log x - x - F.gamma.ln_gamma a) :
    F.gamma.checked_gamma_lr a x =
      .ok (Real.exp (a * Real.log x - x - F.gamma.ln_gamma a) * psum a x (stopIdx a x 1e-15) / a) ∧
    stopIdx a x 1e-15 ≤ 2 := by
  have ha0 : (0 : ℝ) < a := lt_trans (by norm_num) ha
  have hN := (gamma_lr_small_x_stop_le ha0.le hx0 hx).2
  have hf : loopFuel = 20000 := rfl
  exact ⟨gamma_lr_series_value a x ha hx0 hu (Or.inl (hx.trans (by norm_num))) (by omega), hN⟩

/-- full(ℝ): for `0 < x ≤ 1e-15` the value in closed form: `exp(a·ln x − x − LG a)·(1 + x/(a+1))/a`. -/
theorem gamma_lr_small_x_value_one_term (a x : ℝ) (ha : (0.0000000000000011102230246251565 : ℝ) < a)
    (hx0 : 0 < x) (hx : x ≤ (1e-15 : ℝ))
    (hu : -(709.78271289338399 : ℝ) ≤ a * Real.log x - x - F.gamma.ln_gamma a) :
    F.gamma.checked_gamma_lr a x =
      .ok (Real.exp (a * Real.log x - x - F.gamma.ln_gamma a) * (1 + x / (a + 1)) / a) := by
  have ha0 : (0 : ℝ) < a := lt_trans (by norm_num) ha
  have h := (gamma_lr_small_x_value a x ha hx0 (hx.trans (by norm_num)) hu).1
  rw [gamma_lr_small_x_stop_eq_one ha0.le hx0 hx, psum_one] at h
  exact h

/-- full(ℝ): the only way `0` is still returned for a small positive `x`: the underflow shortcut
    `a·ln x − x − LG a < −709.78…` (large `a`; there `¬ a < x`, so the constant is `0`, and the true `P(a,x)` is
    below the smallest positive normal double). -/
theorem gamma_lr_small_x_underflow (a x : ℝ) (ha : (0.0000000000000011102230246251565 : ℝ) < a)
    (hx0 : 0 < x) (hx : x ≤ (0.0000000000000011102230246251565 : ℝ))
    (hu : a * Real.log x - x - F.gamma.ln_gamma a < -(709.78271289338399 : ℝ)) :
    F.gamma.checked_gamma_lr a x = .ok 0 := by
  obtain ⟨g1, g2, g3, g4⟩ := gamma_lr_guards_real ha hx0
  rw [BranchPins.checked_gamma_lr_underflow a x g1 g2 g3 g4 (by simpa using hu),
    if_neg (not_lt.mpr (hx.trans ha.le))]
  norm_num

/-- full(ℝ): `checked_gamma_ur` at the same arguments is `1 −` the series value (it was `1 − 0` before the fix). -/
theorem gamma_ur_small_x_value (a x : ℝ) (ha : (0.0000000000000011102230246251565 : ℝ) < a)
    (hx0 : 0 < x) (hx : x ≤ (0.0000000000000011102230246251565 : ℝ))
    (hu : -(709.78271289338399 : ℝ) ≤ a * Real.log x - x - F.gamma.ln_gamma a) :
    F.gamma.checked_gamma_ur a x =
      .ok (1 - Real.exp (a * Real.log x - x - F.gamma.ln_gamma a) * psum a x (stopIdx a x 1e-15) / a) := by
  have ha0 : (0 : ℝ) < a := lt_trans (by norm_num) ha
  have hN := (gamma_lr_small_x_stop_le ha0.le hx0 hx).2
  have hf : loopFuel = 20000 := rfl
  exact gamma_ur_series_value a x ha hx0 hu (Or.inl (lt_of_le_of_lt hx (by norm_num))) (by omega)

/-! ### accuracy -/

/-- full(ℝ): ACCURACY for `0 < x ≤ 1.11e-15`, the same statement as for the rest of the series branch
    (`gamma_lr_series_accuracy`), with the fuel hypothesis discharged and the truncation factor made explicit:
      `checked_gamma_lr a x = ok (P(a,x)·exp(log Γ(a) − LG a)·q)`,  `1 − 1e-15·x ≤ q ≤ 1`
    (`P` the true regularised lower incomplete gamma function): the only error left is that of the Lanczos `ln_gamma`. -/
theorem gamma_lr_small_x_accuracy (a x : ℝ) (ha : (0.0000000000000011102230246251565 : ℝ) < a)
    (hx0 : 0 < x) (hx : x ≤ (0.0000000000000011102230246251565 : ℝ))
    (hu : -(709.78271289338399 : ℝ) ≤ a * Real.log x - x - F.gamma.ln_gamma a) :
    ∃ q : ℝ, F.gamma.checked_gamma_lr a x =
        .ok (gammaLrR a x * Real.exp (Real.log (Real.Gamma a) - F.gamma.ln_gamma a) * q) ∧
      1 - 1e-15 * x ≤ q ∧ q ≤ 1 := by
  have ha0 : (0 : ℝ) < a := lt_trans (by norm_num) ha
  obtain ⟨hN1, hN⟩ := gamma_lr_small_x_stop_le ha0.le hx0 hx
  have hf : loopFuel = 20000 := rfl
  obtain ⟨hv, hlo, hhi⟩ := gamma_lr_series_accuracy a x ha hx0 hu (Or.inl (hx.trans (by norm_num))) (by omega)
  refine ⟨_, hv, le_trans ?_ hlo, hhi⟩
  have hN' : (1 : ℝ) ≤ (stopIdx a x 1e-15 : ℝ) := by exact_mod_cast hN1
  have hd : (1 : ℝ) ≤ a + ((stopIdx a x 1e-15 + 1 : ℕ) : ℝ) - x := by push_cast; linarith
  have hq : x / (a + ((stopIdx a x 1e-15 + 1 : ℕ) : ℝ) - x) ≤ x := div_le_self hx0.le hd
  nlinarith

/-- full(ℝ): the true `P(a,x)` is at least the first term of its series, `x^a e^{−x}/Γ(a+1)`. -/
theorem gammaLrR_ge_first_term {a x : ℝ} (ha : 0 < a) (hx : 0 < x) :
    x ^ a * Real.exp (-x) / Real.Gamma (a + 1) ≤ gammaLrR a x := by
  have h := gammaLrR_eq_psum_add ha hx 0
  have hn : 0 ≤ gammaLrR (a + ((0 + 1 : ℕ) : ℝ)) x :=
    Statrs.Spec.Witnesses.gammaLrR_nonneg (by positivity) hx.le
  rw [psum_zero, mul_one] at h
  rw [h]
  exact le_add_of_nonneg_right hn

/-- full(ℝ): `Γ ≤ 1` on `[1,2]` (log-convexity is not needed: plain convexity and `Γ(1) = Γ(2) = 1`) -/
theorem gamma_le_one_of_mem_Icc {s : ℝ} (h1 : 1 ≤ s) (h2 : s ≤ 2) : Real.Gamma s ≤ 1 := by
  have hc := Real.convexOn_Gamma
  have hG2 : Real.Gamma 2 = 1 := by
    calc Real.Gamma 2 = Real.Gamma (1 + 1) := by norm_num
      _ = 1 * Real.Gamma 1 := Real.Gamma_add_one one_ne_zero
      _ = 1 := by rw [Real.Gamma_one, mul_one]
  have h := hc.2 (Set.mem_Ioi.mpr (one_pos : (0 : ℝ) < 1)) (Set.mem_Ioi.mpr (two_pos : (0 : ℝ) < 2))
    (by linarith : 0 ≤ 2 - s) (by linarith : 0 ≤ s - 1) (by ring)
  simp only [smul_eq_mul, Real.Gamma_one, hG2, mul_one] at h
  have e : (2 - s) + (s - 1) * 2 = s := by ring
  rw [e] at h
  linarith

/-! ### the former counterexample point `a = 0.001`, `x = 2^−50` -/

/-- full(ℝ): a crude bound on the model's Lanczos `ln_gamma` at `0.001` (reflection piece `x < 0.5`; true value
    `ln Γ(0.001) ≈ 6.907`), from the exact Lanczos sum `S = 0.2630…` and `sin(π/1000) > 0.002`. -/
theorem ln_gamma_milli_le : F.gamma.ln_gamma (0.001 : ℝ) ≤ 700 := by
  rw [ln_gamma_reflection _ (by norm_num), lanczosSum_eq]
  have t2 : Int.toNat 2 = 2 := rfl
  have t3 : Int.toNat 3 = 3 := rfl
  have t4 : Int.toNat 4 = 4 := rfl
  have t5 : Int.toNat 5 = 5 := rfl
  have t6 : Int.toNat 6 = 6 := rfl
  have t7 : Int.toNat 7 = 7 := rfl
  have t8 : Int.toNat 8 = 8 := rfl
  have t9 : Int.toNat 9 = 9 := rfl
  have t10 : Int.toNat 10 = 10 := rfl
  simp only [List.foldl, F.gamma.GAMMA_DK, listGet, F.gamma.GAMMA_R]
  norm_num [t2, t3, t4, t5, t6, t7, t8, t9, t10]
  have hpi3 := Real.pi_gt_three
  have hpi4 := Real.pi_lt_d2
  have he1 : (1 : ℝ) ≤ Real.exp 1 := by
    have := Real.add_one_le_exp (1 : ℝ); linarith
  have he3 := Real.exp_one_lt_d9
  have he2 := Real.exp_one_gt_d9
  -- ln π ≤ π − 1
  have h1 : Real.log Real.pi ≤ 3 := by
    have := Real.log_le_sub_one_of_pos Real.pi_pos; linarith
  -- the power term has a non-negative logarithm
  have h2 : 0 ≤ Real.log (11399511 / 1000000 / Real.exp 1) := by
    apply Real.log_nonneg
    rw [le_div_iff₀ (Real.exp_pos 1)]; linarith
  -- 2√(e/π) ≥ 1
  have h3 : 0 ≤ Real.log (2 * √(Real.exp 1 / Real.pi)) := by
    apply Real.log_nonneg
    have : (1 / 2 : ℝ) ≤ √(Real.exp 1 / Real.pi) := by
      rw [Real.le_sqrt' (by norm_num), le_div_iff₀ Real.pi_pos]; nlinarith
    linarith
  -- ln S ≥ 1 − 1/S
  have h4 : -3 ≤ Real.log (39161547791714576591486868936467662546793631982493184570659 /
      148896465233329877699701845733331070000000000000000000000000) := by
    have := Real.one_sub_inv_le_log_of_pos (x := (39161547791714576591486868936467662546793631982493184570659 /
      148896465233329877699701845733331070000000000000000000000000 : ℝ)) (by norm_num)
    refine le_trans ?_ this
    norm_num
  -- sin(π/1000) > 0.002
  have h5 : -499 ≤ Real.log (Real.sin (Real.pi * (1 / 1000))) := by
    have hx0 : 0 < Real.pi * (1 / 1000) := by positivity
    have hs := Real.sin_gt_sub_cube hx0
    have hcube : (Real.pi * (1 / 1000)) ^ 3 / 6 ≤ 1 / 1000 := by
      have : (Real.pi * (1 / 1000)) ^ 3 ≤ (4 / 1000 : ℝ) ^ 3 :=
        pow_le_pow_left₀ hx0.le (by linarith) 3
      refine le_trans (div_le_div_of_nonneg_right this (by norm_num)) (by norm_num)
    have hsin : (1 / 500 : ℝ) ≤ Real.sin (Real.pi * (1 / 1000)) := by linarith
    have hpos : 0 < Real.sin (Real.pi * (1 / 1000)) := lt_of_lt_of_le (by norm_num) hsin
    have := Real.one_sub_inv_le_log_of_pos hpos
    have hinv : (Real.sin (Real.pi * (1 / 1000)))⁻¹ ≤ 500 := by
      rw [inv_le_comm₀ hpos (by norm_num)]; linarith
    linarith
  nlinarith

/-- full(ℝ), UNCONDITIONAL (was `gamma_lr_small_x_counterexample` before commit 9f2f5b7: model `0`, truth `> 0.95`):
    at `a = 0.001`, `x = 2^−50 ≈ 8.88e-16` — inside the range of the removed `x ≈ 0` shortcut — the generated
    `checked_gamma_lr` now satisfies the accuracy theorem of the series branch:
      it returns `P(a,x)·exp(log Γ(a) − LG a)·q` with `1 − 1e-15·2^−50 ≤ q ≤ 1`,
    where the true `P(a,x) ≥ 0.95`; the returned value is positive, and `checked_gamma_ur` returns `1 −` it. -/
theorem gamma_lr_small_x_witness :
    ∃ q : ℝ, F.gamma.checked_gamma_lr (0.001 : ℝ) (1 / 2 ^ 50) =
        .ok (gammaLrR 0.001 (1 / 2 ^ 50)
          * Real.exp (Real.log (Real.Gamma 0.001) - F.gamma.ln_gamma (0.001 : ℝ)) * q) ∧
      F.gamma.checked_gamma_ur (0.001 : ℝ) (1 / 2 ^ 50) =
        .ok (1 - gammaLrR 0.001 (1 / 2 ^ 50)
          * Real.exp (Real.log (Real.Gamma 0.001) - F.gamma.ln_gamma (0.001 : ℝ)) * q) ∧
      1 - 1e-15 * (1 / 2 ^ 50) ≤ q ∧ q ≤ 1 ∧ 0.95 ≤ gammaLrR 0.001 (1 / 2 ^ 50) ∧
      0 < gammaLrR 0.001 (1 / 2 ^ 50)
          * Real.exp (Real.log (Real.Gamma 0.001) - F.gamma.ln_gamma (0.001 : ℝ)) * q := by
  have ha : (0 : ℝ) < 0.001 := by norm_num
  have hx : (0 : ℝ) < 1 / 2 ^ 50 := by positivity
  have hlog : Real.log (1 / 2 ^ 50 : ℝ) = -(50 * Real.log 2) := by
    rw [one_div, Real.log_inv, Real.log_pow]; norm_num
  have h2 := Real.log_two_lt_d9
  -- the underflow guard, from the Lanczos bound
  have hu : -(709.78271289338399 : ℝ)
      ≤ 0.001 * Real.log (1 / 2 ^ 50) - 1 / 2 ^ 50 - F.gamma.ln_gamma (0.001 : ℝ) := by
    have hL := ln_gamma_milli_le
    have h3 : (1 / 2 ^ 50 : ℝ) ≤ 0.001 := by norm_num
    rw [hlog]; linarith
  have hxs : (1 / 2 ^ 50 : ℝ) ≤ 0.0000000000000011102230246251565 := by norm_num
  -- the true value is above 0.95
  have hP : (0.95 : ℝ) ≤ gammaLrR 0.001 (1 / 2 ^ 50) := by
    refine le_trans ?_ (gammaLrR_ge_first_term ha hx)
    have hG : Real.Gamma (0.001 + 1) ≤ 1 := gamma_le_one_of_mem_Icc (by norm_num) (by norm_num)
    have hGp : 0 < Real.Gamma (0.001 + 1) := Real.Gamma_pos_of_pos (by norm_num)
    have hpow : (0.96 : ℝ) ≤ (1 / 2 ^ 50 : ℝ) ^ (0.001 : ℝ) := by
      rw [Real.rpow_def_of_pos hx, hlog]
      have := Real.add_one_le_exp (-(50 * Real.log 2) * 0.001)
      linarith
    have hexp : (0.999 : ℝ) ≤ Real.exp (-(1 / 2 ^ 50)) := by
      have := Real.add_one_le_exp (-(1 / 2 ^ 50 : ℝ))
      have h3 : (1 / 2 ^ 50 : ℝ) ≤ 0.001 := by norm_num
      linarith
    rw [le_div_iff₀ hGp]
    have hprod : (0.96 : ℝ) * 0.999 ≤ (1 / 2 ^ 50 : ℝ) ^ (0.001 : ℝ) * Real.exp (-(1 / 2 ^ 50)) :=
      mul_le_mul hpow hexp (by norm_num) (le_trans (by norm_num) hpow)
    calc (0.95 : ℝ) * Real.Gamma (0.001 + 1) ≤ 0.95 * 1 := mul_le_mul_of_nonneg_left hG (by norm_num)
      _ ≤ 0.96 * 0.999 := by norm_num
      _ ≤ _ := hprod
  obtain ⟨q, hv, hlo, hhi⟩ := gamma_lr_small_x_accuracy 0.001 (1 / 2 ^ 50) (by norm_num) hx hxs hu
  have hq0 : 0 < q := lt_of_lt_of_le (by norm_num) hlo
  refine ⟨q, hv, ?_, hlo, hhi, hP, ?_⟩
  · have hur := gamma_ur_small_x_value 0.001 (1 / 2 ^ 50) (by norm_num) hx hxs hu
    have hlr := (gamma_lr_small_x_value 0.001 (1 / 2 ^ 50) (by norm_num) hx hxs hu).1
    rw [hlr] at hv
    injection hv with hv
    rw [hur, hv]
  · have := Real.exp_pos (Real.log (Real.Gamma 0.001) - F.gamma.ln_gamma (0.001 : ℝ))
    have hP0 : 0 < gammaLrR 0.001 (1 / 2 ^ 50) := lt_of_lt_of_le (by norm_num) hP
    positivity

end Statrs.Props.C11
