/-
  C11 — FINDING: the `x ≈ 0` shortcut of `checked_gamma_lr` (gamma.rs:299–301, `almost_eq(x, 0, 1.11e-15)` ⇒
  `Ok(0.0)`) is wrong for small `a`: `P(a,x) ≈ x^a/Γ(a+1)` tends to 0 with `x` only like `x^a`, which for small
  `a` is far from 0 at `x = 1e-15`.

  * `gamma_lr_small_x_value`            for `a > 1.11e-15` and `0 < x ≤ 1.11e-15` the model returns exactly `0`;
  * `gammaLrR_ge_first_term`            the true `P(a,x) ≥ x^a e^{−x}/Γ(a+1)`;
  * `gamma_lr_small_x_counterexample`   at `a = 0.001`, `x = 2^−50 ≈ 8.9e-16`: model `0`, true value `> 0.95`.
  Replayed on the crate (`/repo`, f64): `gamma_lr(1e-3, 2^-50) = 0`, `gamma_lr(1e-3, 2e-15) = 0.96727…`,
  `gamma_ur(1e-3, 2^-50) = 1` (true `≈ 0.034`).
-/
import Statrs.Props.C11.GammaSeriesAccuracy
namespace Statrs.Props.C11
open Statrs Statrs.Gen Statrs.Lemmas.GammaSeries Statrs.Props.C03.Witness

/-- full(ℝ): the `x ≈ 0` shortcut.  For `a` above the `a ≈ 0` shortcut and `0 < x ≤ 1.1102230246251565e-15`
    the generated `checked_gamma_lr` returns exactly `0`. -/
theorem gamma_lr_small_x_value (a x : ℝ) (ha : (0.0000000000000011102230246251565 : ℝ) < a)
    (hx0 : 0 < x) (hx : x ≤ (0.0000000000000011102230246251565 : ℝ)) :
    F.gamma.checked_gamma_lr a x = .ok 0 := by
  have ha0 : (0 : ℝ) < a := lt_trans (by norm_num) ha
  obtain ⟨g1, g2, -, g4, -⟩ := gamma_lr_guards_real ha ha
  have hinf : (RFun.inf : ℝ) = 0 := rfl
  have h0 : (0.0 : ℝ) = 0 := by norm_num
  have g3 : ¬ ((x ≤ (0.0 : ℝ)) ∨ ((x == (RFun.inf : ℝ)) = true)) := by
    rw [hinf, h0]; simp [not_le.mpr hx0, hx0.ne']
  have g5 : (R.prec.almost_eq x (0.0 : ℝ) (R.prec.DEFAULT_F64_ACC (α := ℝ))) = true := by
    rw [Statrs.Props.C20.almost_eq_real, h0, sub_zero, abs_of_pos hx0]
    simp only [R.prec.DEFAULT_F64_ACC]; exact decide_eq_true hx
  rw [BranchPins.checked_gamma_lr_x_zero a x g1 g2 g3 g4 g5, h0]

/-- full(ℝ): the true `P(a,x)` is at least the first term of its series, `x^a e^{−x}/Γ(a+1)`. -/
theorem gammaLrR_ge_first_term {a x : ℝ} (ha : 0 < a) (hx : 0 < x) :
    x ^ a * Real.exp (-x) / Real.Gamma (a + 1) ≤ gammaLrR a x := by
  have h := gammaLrR_eq_psum_add ha hx 0
  have hn : 0 ≤ gammaLrR (a + ((0 + 1 : ℕ) : ℝ)) x :=
    Statrs.Spec.Witnesses.gammaLrR_nonneg (by positivity) hx.le
  rw [psum_zero, mul_one] at h
  rw [h]
  exact le_add_of_nonneg_right hn

/-- full(ℝ): `Γ ≤ 1` on `[1,2]` (log-convexity is not needed: plain convexity and `Γ(1) = Γ(2) = 1`) -/
theorem gamma_le_one_of_mem_Icc {s : ℝ} (h1 : 1 ≤ s) (h2 : s ≤ 2) : Real.Gamma s ≤ 1 := by
  have hc := Real.convexOn_Gamma
  have hG2 : Real.Gamma 2 = 1 := by
    calc Real.Gamma 2 = Real.Gamma (1 + 1) := by norm_num
      _ = 1 * Real.Gamma 1 := Real.Gamma_add_one one_ne_zero
      _ = 1 := by rw [Real.Gamma_one, mul_one]
  have h := hc.2 (Set.mem_Ioi.mpr (one_pos : (0 : ℝ) < 1)) (Set.mem_Ioi.mpr (two_pos : (0 : ℝ) < 2))
    (by linarith : 0 ≤ 2 - s) (by linarith : 0 ≤ s - 1) (by ring)
  simp only [smul_eq_mul, Real.Gamma_one, hG2, mul_one] at h
  have e : (2 - s) + (s - 1) * 2 = s := by ring
  rw [e] at h
  linarith

/-- counterexample (DEFECT of statrs, replayed on the crate): at `a = 0.001`, `x = 2^−50 ≈ 8.88e-16` the
    generated `checked_gamma_lr` returns `0` (the `almost_eq(x, 0.0, 1.11e-15)` shortcut), while the true
    regularised lower incomplete gamma function is above `0.95` there (`P(a,x) ≈ x^a/Γ(a+1) = 0.966…`).
    Just outside the shortcut (`x = 2e-15`) the series branch returns `0.9673`: the function jumps. -/
theorem gamma_lr_small_x_counterexample :
    F.gamma.checked_gamma_lr (0.001 : ℝ) (1 / 2 ^ 50) = .ok 0 ∧ 0.95 ≤ gammaLrR 0.001 (1 / 2 ^ 50) := by
  refine ⟨gamma_lr_small_x_value _ _ (by norm_num) (by positivity) (by norm_num), ?_⟩
  have ha : (0 : ℝ) < 0.001 := by norm_num
  have hx : (0 : ℝ) < 1 / 2 ^ 50 := by positivity
  refine le_trans ?_ (gammaLrR_ge_first_term ha hx)
  have hG : Real.Gamma (0.001 + 1) ≤ 1 := gamma_le_one_of_mem_Icc (by norm_num) (by norm_num)
  have hGp : 0 < Real.Gamma (0.001 + 1) := Real.Gamma_pos_of_pos (by norm_num)
  have hlog : Real.log (1 / 2 ^ 50 : ℝ) = -(50 * Real.log 2) := by
    rw [one_div, Real.log_inv, Real.log_pow]; norm_num
  have hpow : (0.96 : ℝ) ≤ (1 / 2 ^ 50 : ℝ) ^ (0.001 : ℝ) := by
    rw [Real.rpow_def_of_pos hx, hlog]
    have h2 := Real.log_two_lt_d9
    have := Real.add_one_le_exp (-(50 * Real.log 2) * 0.001)
    linarith
  have hexp : (0.999 : ℝ) ≤ Real.exp (-(1 / 2 ^ 50)) := by
    have := Real.add_one_le_exp (-(1 / 2 ^ 50 : ℝ))
    have h3 : (1 / 2 ^ 50 : ℝ) ≤ 0.001 := by norm_num
    linarith
  rw [le_div_iff₀ hGp]
  have hprod : (0.96 : ℝ) * 0.999 ≤ (1 / 2 ^ 50 : ℝ) ^ (0.001 : ℝ) * Real.exp (-(1 / 2 ^ 50)) :=
    mul_le_mul hpow hexp (by norm_num) (le_trans (by norm_num) hpow)
  calc (0.95 : ℝ) * Real.Gamma (0.001 + 1) ≤ 0.95 * 1 := mul_le_mul_of_nonneg_left hG (by norm_num)
    _ ≤ 0.96 * 0.999 := by norm_num
    _ ≤ _ := hprod

end Statrs.Props.C11
