/-
  C11 — `checked_gamma_ur` against `checked_gamma_lr` as coded (src/function/gamma.rs:187–251), exact real
  arithmetic.

  * `gamma_ur_loop1_eq_lr_loop3`   the continued-fraction loop of `checked_gamma_ur` (float counter) and the one of
                                   `checked_gamma_lr` (integer counter) run in lockstep;
  * `gamma_ur_series_value` / `gamma_ur_series_accuracy`   series region `x < 1 ∨ x ≤ a`: `Q = 1 − (series value)`;
  * `gamma_ur_cf_value`            continued-fraction region: `ok (A_{K+2}/B_{K+2} · exp(ax))`;
  * `gamma_lr_ur_cf_complement`    `x > 1, x > a`: whenever the loop returns, `checked_gamma_lr = 1 − checked_gamma_ur`;
  * `gamma_lr_ur_series_complement` the same in the series region;
  * `gamma_lr_ur_branch_mismatch_counterexample`  at `x = 1 > a` the two functions use DIFFERENT algorithms (`lr` the
                                   series, `ur` the continued fraction): there `P + Q = 1` is not structural.
-/
import Statrs.Props.C11.GammaSeriesAccuracy
import Statrs.Props.C11.GammaSeriesCF
namespace Statrs.Props.C11
open Statrs Statrs.Gen Statrs.Lemmas.GammaSeries Statrs.Lemmas.GammaCF Statrs.Props.C03.Witness

/-- apply a function to the final state of a lifted loop -/
def loopMap {ρ σ τ : Type} (f : σ → τ) : LoopR ρ σ → LoopR ρ τ
  | .ret v => .ret v
  | .hang => .hang
  | .done s => .done (f s)

/-- the integer counter of `checked_gamma_lr`'s loop read as the float counter of `checked_gamma_ur`'s -/
def castCounter : (ℝ × ℝ × Int × ℝ × ℝ × ℝ × ℝ × ℝ) → (ℝ × ℝ × ℝ × ℝ × ℝ × ℝ × ℝ × ℝ)
  | (y, z, c, p3, p2, q3, q2, ans) => (y, z, (c : ℝ), p3, p2, q3, q2, ans)

/-- full(ℝ): LOCKSTEP.  Over ℝ the continued-fraction loop of `checked_gamma_ur` (counter `c: f64`) is the loop
    of `checked_gamma_lr` (counter `c: i32` converted with `f64::from`) state for state, for every fuel and
    every start state. -/
theorem gamma_ur_loop1_eq_lr_loop3 (big big_inv eps : ℝ) :
    ∀ (fuel : ℕ) (y z : ℝ) (c : Int) (p3 p2 q3 q2 ans : ℝ),
      F.gamma.checked_gamma_ur.loop1 fuel big big_inv eps y z (c : ℝ) p3 p2 q3 q2 ans
        = loopMap castCounter (F.gamma.checked_gamma_lr.loop3 fuel big big_inv eps y z c p3 p2 q3 q2 ans) := by
  intro fuel
  induction fuel with
  | zero => intro y z c p3 p2 q3 q2 ans; rfl
  | succ f ih =>
    intro y z c p3 p2 q3 q2 ans
    rw [BranchPins.gamma_ur_loop1_step, BranchPins.gamma_lr_loop3_step]
    dsimp only
    have hc : (c : ℝ) + (1.0 : ℝ) = ((c + 1 : Int) : ℝ) := by push_cast; norm_num
    have ho : (RFun.ofInt (c + 1) : ℝ) = ((c + 1 : Int) : ℝ) := rfl
    rw [hc, ho]
    split_ifs
    all_goals first | rfl | exact ih _ _ _ _ _ _ _ _

/-! ### series region -/

/-- full(ℝ): in its series region `x < 1 ∨ x ≤ a` `checked_gamma_ur` is `1 −` the series value of `gamma_lr`, for
    `a > 1.11e-15` and EVERY `x > 0` (for `0 < x ≤ 1.11e-15` this was `1 − 0` before commit 9f2f5b7). -/
theorem gamma_ur_series_value (a x : ℝ) (ha : (0.0000000000000011102230246251565 : ℝ) < a)
    (hx : 0 < x)
    (hu : -(709.78271289338399 : ℝ) ≤ a * Real.log x - x - F.gamma.ln_gamma a)
    (hs : x < 1 ∨ x ≤ a) (hfuel : stopIdx a x 1e-15 ≤ loopFuel) :
    F.gamma.checked_gamma_ur a x =
      .ok (1 - Real.exp (a * Real.log x - x - F.gamma.ln_gamma a) * psum a x (stopIdx a x 1e-15) / a) := by
  obtain ⟨g1, g2, g3, -⟩ := gamma_lr_guards_real ha hx
  have hs' : x ≤ 1 ∨ x ≤ a := hs.imp le_of_lt id
  rw [BranchPins.checked_gamma_ur_complement a x g1 g2 g3
    (by rw [show (1.0 : ℝ) = 1 by norm_num]; exact hs),
    gamma_lr_series_value_unwrapped a x ha hx hu hs' hfuel]
  norm_num

/-- full(ℝ): accuracy of `checked_gamma_ur` in its series region against the true `Q = 1 − P`:
    `ok (1 − P(a,x)·exp(log Γ(a) − LG a)·S_N/S_∞)` with `1 − 1e-15·x/(a+N+1−x) ≤ S_N/S_∞ ≤ 1`.
    (The ABSOLUTE error is that of `P`; nothing is claimed about the relative error of a small `Q`.) -/
theorem gamma_ur_series_accuracy (a x : ℝ) (ha : (0.0000000000000011102230246251565 : ℝ) < a)
    (hx : 0 < x)
    (hu : -(709.78271289338399 : ℝ) ≤ a * Real.log x - x - F.gamma.ln_gamma a)
    (hs : x < 1 ∨ x ≤ a) (hfuel : stopIdx a x 1e-15 ≤ loopFuel) :
    F.gamma.checked_gamma_ur a x =
      .ok (1 - gammaLrR a x * Real.exp (Real.log (Real.Gamma a) - F.gamma.ln_gamma a)
        * (psum a x (stopIdx a x 1e-15) / ∑' n, term a x n)) ∧
    1 - 1e-15 * (x / (a + ((stopIdx a x 1e-15 + 1 : ℕ) : ℝ) - x))
      ≤ psum a x (stopIdx a x 1e-15) / ∑' n, term a x n ∧
    psum a x (stopIdx a x 1e-15) / ∑' n, term a x n ≤ 1 := by
  have hs' : x ≤ 1 ∨ x ≤ a := hs.imp le_of_lt id
  obtain ⟨hv, hb⟩ := gamma_lr_series_accuracy a x ha hx hu hs' hfuel
  refine ⟨?_, hb⟩
  rw [gamma_ur_series_value a x ha hx hu hs hfuel]
  rw [gamma_lr_series_value a x ha hx hu hs' hfuel] at hv
  injection hv with hv
  rw [hv]

/-- full(ℝ): in the series region, whenever the series value is returned, `checked_gamma_lr` and
    `checked_gamma_ur` add up to 1 (by construction: `ur = 1 − gamma_lr`). -/
theorem gamma_lr_ur_series_complement (a x : ℝ) (ha : (0.0000000000000011102230246251565 : ℝ) < a)
    (hx : 0 < x)
    (hu : -(709.78271289338399 : ℝ) ≤ a * Real.log x - x - F.gamma.ln_gamma a)
    (hs : x < 1 ∨ x ≤ a) (hfuel : stopIdx a x 1e-15 ≤ loopFuel) :
    ∃ v : ℝ, F.gamma.checked_gamma_lr a x = .ok v ∧ F.gamma.checked_gamma_ur a x = .ok (1 - v) :=
  ⟨_, gamma_lr_series_value a x ha hx hu (hs.imp le_of_lt id) hfuel, gamma_ur_series_value a x ha hx hu hs hfuel⟩

/-! ### continued-fraction region -/

private theorem ur_guards {a x : ℝ} (hx1 : 1 ≤ x) (hxa : a < x) : ¬ (x < (1.0 : ℝ) ∨ x ≤ a) := by
  rw [show (1.0 : ℝ) = 1 by norm_num]; push Not; exact ⟨hx1, hxa⟩

/-- full(ℝ): `x > 1`, `x > a`.  Whenever the continued-fraction loop of `checked_gamma_lr` returns (state `s`,
    last component `ans`), both functions return and `checked_gamma_lr = 1 − checked_gamma_ur`:
    `ur = ok (ans·exp(ax))`, `lr = ok (1 − exp(ax)·ans)`; in the underflow shortcut `lr = ok 1`, `ur = ok 0`. -/
theorem gamma_lr_ur_cf_complement (a x : ℝ) (ha : (0.0000000000000011102230246251565 : ℝ) < a)
    (hx1 : 1 < x) (hxa : a < x) (y z : ℝ) (c : Int) (p3 p2 q3 q2 ans : ℝ)
    (hloop : F.gamma.checked_gamma_lr.loop3 loopFuel (4503599627370496.0 : ℝ) (2.22044604925031308085e-16 : ℝ)
        (0.000000000000001 : ℝ) ((1.0 : ℝ) - a) ((x + ((1.0 : ℝ) - a)) + (1.0 : ℝ)) (0 : Int) (1.0 : ℝ)
        (x + (1.0 : ℝ)) x (((x + ((1.0 : ℝ) - a)) + (1.0 : ℝ)) * x)
        ((x + (1.0 : ℝ)) / (((x + ((1.0 : ℝ) - a)) + (1.0 : ℝ)) * x))
      = LoopR.done (y, z, c, p3, p2, q3, q2, ans)) :
    ∃ v : ℝ, F.gamma.checked_gamma_ur a x = .ok v ∧ F.gamma.checked_gamma_lr a x = .ok (1 - v) := by
  have hx : (0 : ℝ) < x := lt_trans one_pos hx1
  obtain ⟨g1, g2, g3, g4⟩ := gamma_lr_guards_real ha hx
  have hsl : ¬ (x ≤ (1.0 : ℝ) ∨ x ≤ a) := by
    rw [show (1.0 : ℝ) = 1 by norm_num]; push Not; exact ⟨hx1, hxa⟩
  have hsu := ur_guards hx1.le hxa
  by_cases hu : (((a * (RFun.ln x)) - x) - (F.gamma.ln_gamma a)) < -(709.78271289338399 : ℝ)
  · refine ⟨0, ?_, ?_⟩
    · rw [BranchPins.checked_gamma_ur_underflow a x g1 g2 g3 hsu hu, if_pos hxa]; norm_num
    · rw [BranchPins.checked_gamma_lr_underflow a x g1 g2 g3 g4 hu, if_pos hxa]; norm_num
  · have hur : F.gamma.checked_gamma_ur.loop1 loopFuel (4503599627370496.0 : ℝ) (2.22044604925031308085e-16 : ℝ)
        (0.000000000000001 : ℝ) ((1.0 : ℝ) - a) ((x + ((1.0 : ℝ) - a)) + (1.0 : ℝ)) (0.0 : ℝ) (1.0 : ℝ)
        (x + (1.0 : ℝ)) x (((x + ((1.0 : ℝ) - a)) + (1.0 : ℝ)) * x)
        ((x + (1.0 : ℝ)) / (((x + ((1.0 : ℝ) - a)) + (1.0 : ℝ)) * x))
        = LoopR.done (y, z, (c : ℝ), p3, p2, q3, q2, ans) := by
      have h00 : (0.0 : ℝ) = ((0 : Int) : ℝ) := by norm_num
      rw [h00, gamma_ur_loop1_eq_lr_loop3, hloop]; rfl
    refine ⟨ans * Real.exp (a * Real.log x - x - F.gamma.ln_gamma a), ?_, ?_⟩
    · rw [BranchPins.checked_gamma_ur_cf a x _ _ _ _ _ _ _ _ g1 g2 g3 hsu hu hur]; rfl
    · rw [BranchPins.checked_gamma_lr_cf a x _ _ _ _ _ _ _ _ g1 g2 g3 g4 hu hsl hloop]
      simp only [rfun_exp, rfun_ln]
      congr 1
      norm_num
      ring

/-- full(ℝ): the CONTINUED-FRACTION branch of `checked_gamma_ur` (`1 ≤ x`, `a < x` — note `x = 1` is included,
    unlike for `checked_gamma_lr`): when a stopping iteration exists and `K = cfStopIdx a x 1e-15` is within the fuel,
    `checked_gamma_ur a x = ok (A_{K+2}/B_{K+2} · exp(a·ln x − x − LG a))`. -/
theorem gamma_ur_cf_value (a x : ℝ) (ha : (0.0000000000000011102230246251565 : ℝ) < a)
    (hx1 : 1 ≤ x) (hxa : a < x)
    (hu : -(709.78271289338399 : ℝ) ≤ a * Real.log x - x - F.gamma.ln_gamma a)
    (hex : ∃ j, cfTest a x 1e-15 j) (hfuel : cfStopIdx a x 1e-15 < loopFuel) :
    F.gamma.checked_gamma_ur a x =
      .ok (cfA a x (cfStopIdx a x 1e-15 + 2) / cfB a x (cfStopIdx a x 1e-15 + 2)
        * Real.exp (a * Real.log x - x - F.gamma.ln_gamma a)) := by
  have hx : (0 : ℝ) < x := lt_of_lt_of_le one_pos hx1
  obtain ⟨g1, g2, g3, -⟩ := gamma_lr_guards_real ha hx
  have e15 : (0.000000000000001 : ℝ) = 1e-15 := by norm_num
  have hloop := gamma_lr_loop3_start (4503599627370496.0 : ℝ) (2.22044604925031308085e-16 : ℝ) 1e-15 a x
    (by norm_num) hex loopFuel hfuel
  have hur := gamma_ur_loop1_eq_lr_loop3 (4503599627370496.0 : ℝ) (2.22044604925031308085e-16 : ℝ) 1e-15 loopFuel
    ((1.0 : ℝ) - a) ((x + ((1.0 : ℝ) - a)) + (1.0 : ℝ)) (0 : Int) (1.0 : ℝ)
        (x + (1.0 : ℝ)) x (((x + ((1.0 : ℝ) - a)) + (1.0 : ℝ)) * x)
        ((x + (1.0 : ℝ)) / (((x + ((1.0 : ℝ) - a)) + (1.0 : ℝ)) * x))
  rw [hloop] at hur
  have h00 : ((0 : Int) : ℝ) = (0.0 : ℝ) := by norm_num
  rw [h00] at hur
  have h := BranchPins.checked_gamma_ur_cf a x _ _ _ _ _ _ _ _ g1 g2 g3 (ur_guards hx1 hxa)
    (by simpa using not_lt.mpr hu) (by rw [e15]; exact hur)
  rw [h]
  rfl

/-- counterexample (to "`gamma_lr + gamma_ur = 1` is an identity of the code"): at `x = 1 > a` the two functions
    run DIFFERENT algorithms — `checked_gamma_lr` tests `x ≤ 1.0` and sums the series, `checked_gamma_ur` tests
    `x < 1.0` and so evaluates the continued fraction.  Their sum is `1` only up to the two truncation errors. -/
theorem gamma_lr_ur_branch_mismatch_counterexample (a : ℝ) (ha : (0.0000000000000011102230246251565 : ℝ) < a)
    (ha1 : a < 1)
    (hu : -(709.78271289338399 : ℝ) ≤ a * Real.log 1 - 1 - F.gamma.ln_gamma a)
    (hfuel : stopIdx a 1 1e-15 ≤ loopFuel)
    (hex : ∃ j, cfTest a 1 1e-15 j) (hfuel' : cfStopIdx a 1 1e-15 < loopFuel) :
    F.gamma.checked_gamma_lr a 1 =
      .ok (Real.exp (a * Real.log 1 - 1 - F.gamma.ln_gamma a) * psum a 1 (stopIdx a 1 1e-15) / a) ∧
    F.gamma.checked_gamma_ur a 1 =
      .ok (cfA a 1 (cfStopIdx a 1 1e-15 + 2) / cfB a 1 (cfStopIdx a 1 1e-15 + 2)
        * Real.exp (a * Real.log 1 - 1 - F.gamma.ln_gamma a)) :=
  ⟨gamma_lr_series_value a 1 ha (by norm_num) hu (Or.inl le_rfl) hfuel,
    gamma_ur_cf_value a 1 ha le_rfl ha1 hu hex hfuel'⟩

end Statrs.Props.C11
