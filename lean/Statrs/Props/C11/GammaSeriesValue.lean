/-
  C11 — `checked_gamma_lr`, SERIES branch (src/function/gamma.rs:307–321), in exact real arithmetic:
  what the generated loop computes.

  With `term a x n = x^n/((a+1)…(a+n))`, `psum a x n = Σ_{k≤n} term a x k` and
  `stopIdx a x eps` = the least `n ≥ 1` with `term n / psum n ≤ eps` (`Lemmas/GammaSeries.lean`):

  * `gamma_lr_loop1_run`      the lifted loop, started in the state after `k` iterations, returns the state
                              after `N` iterations, `N` the first index `> k` where the test fires
                              (needs `N − k ≤ fuel`);
  * `gamma_lr_series_value`   `checked_gamma_lr a x = ok (exp(a·ln x − x − LG a) · S_N / a)`, `N = stopIdx a x 1e-15`,
                              `LG = F.gamma.ln_gamma` (the model's Lanczos code, never unfolded), under the
                              guards of the branch and `N ≤ loopFuel` — for `a > 1.11e-15` and EVERY `x > 0`
                              (the `x ≈ 0 ⇒ Ok(0.0)` shortcut is gone, commit 9f2f5b7);
  * `gamma_lr_series_stop_le` termination: the test fires, and `N ≤ ⌈a⌉ + 50`;
  * `gamma_lr_series_fuel`, `gamma_lr_series_value_of_le`  no fuel hypothesis needed for `a ≤ 2 847 142`;
  * `gamma_lr_series_hang_counterexample`  the fuel hypothesis cannot be dropped: at `a = x = 1e10` the model's
                              loop needs more than `loopFuel = 20000` iterations (MODEL limit — the Rust loop
                              simply runs longer; not a defect of statrs).
-/
import Statrs.Props.C11.BranchPinsGamma
import Statrs.Props.C20.Prec
import Statrs.Lemmas.GammaSeries
namespace Statrs.Props.C11
open Statrs Statrs.Gen Statrs.Lemmas.GammaSeries

/-- full(ℝ): the lifted series loop of `checked_gamma_lr`, started from the state after `k` iterations
    `(r2, c2, ans2) = (a + k, c_k, S_k)`, stops at the first index `N > k` at which the test
    `c_N / S_N ≤ eps` holds and returns `(a + N, c_N, S_N)`, provided `N − k ≤ fuel`. -/
theorem gamma_lr_loop1_run (eps x a : ℝ) (N : ℕ) :
    ∀ (fuel k : ℕ), k < N → N - k ≤ fuel →
      (∀ j, k < j → j < N → ¬ term a x j / psum a x j ≤ eps) →
      term a x N / psum a x N ≤ eps →
      F.gamma.checked_gamma_lr.loop1 fuel eps x (a + (k : ℝ)) (term a x k) (psum a x k)
        = LoopR.done (a + (N : ℝ), term a x N, psum a x N) := by
  intro fuel
  induction fuel with
  | zero => intro k hk hf; omega
  | succ f ih =>
    intro k hk hf hnot hN
    rw [BranchPins.gamma_lr_loop1_step]
    have e1 : a + (k : ℝ) + (1.0 : ℝ) = a + ((k + 1 : ℕ) : ℝ) := by push_cast; norm_num; ring
    rw [e1, ← term_succ, ← psum_succ]
    by_cases hkN : k + 1 = N
    · subst hkN; rw [if_pos hN]
    · have hno : ¬ term a x (k + 1) / psum a x (k + 1) ≤ eps := hnot (k + 1) (by omega) (by omega)
      rw [if_neg hno]
      exact ih (k + 1) (by omega) (by omega) (fun j h1 h2 => hnot j (by omega) h2) hN

/-- full(ℝ): from the start state `(a, 1, 1)` the loop returns `(a + N, c_N, S_N)` with
    `N = stopIdx a x eps`, as soon as `N ≤ fuel`. -/
theorem gamma_lr_loop1_start (eps x a : ℝ) (ha : 0 ≤ a) (hx : 0 < x) (he : 0 < eps) (fuel : ℕ)
    (hfuel : stopIdx a x eps ≤ fuel) :
    F.gamma.checked_gamma_lr.loop1 fuel eps x a (1.0 : ℝ) (1.0 : ℝ)
      = LoopR.done (a + (stopIdx a x eps : ℝ), term a x (stopIdx a x eps), psum a x (stopIdx a x eps)) := by
  have hspec := stopIdx_spec ha hx he
  have h := gamma_lr_loop1_run eps x a (stopIdx a x eps) fuel 0 (by omega) (by omega)
    (fun j h1 h2 => not_stop_of_lt (by omega) h2) hspec.2
  have e1 : (1.0 : ℝ) = 1 := by norm_num
  simpa [e1] using h

/-- full(ℝ): if the fuel is smaller than the stopping index the lifted loop hangs. -/
theorem gamma_lr_loop1_hang (eps x a : ℝ) :
    ∀ (fuel k : ℕ), (∀ j, k < j → j ≤ k + fuel → ¬ term a x j / psum a x j ≤ eps) →
      F.gamma.checked_gamma_lr.loop1 fuel eps x (a + (k : ℝ)) (term a x k) (psum a x k) = LoopR.hang := by
  intro fuel
  induction fuel with
  | zero => intro k _; rfl
  | succ f ih =>
    intro k hnot
    rw [BranchPins.gamma_lr_loop1_step]
    have e1 : a + (k : ℝ) + (1.0 : ℝ) = a + ((k + 1 : ℕ) : ℝ) := by push_cast; norm_num; ring
    rw [e1, ← term_succ, ← psum_succ, if_neg (hnot (k + 1) (by omega) (by omega))]
    exact ih (k + 1) (fun j h1 h2 => hnot j (by omega) (by omega))

/-! ### the guards of the branch over ℝ -/

/-- full(ℝ): over ℝ the four prologue guards of `checked_gamma_lr` (NaN, `a` domain, `x` domain, `almost_eq(a, 0)`)
    are all false for `a > DEFAULT_F64_ACC = 1.11…e-15` and EVERY `x > 0` (there is no `almost_eq(x, 0)` guard any
    more: commit 9f2f5b7). -/
theorem gamma_lr_guards_real {a x : ℝ} (ha : (0.0000000000000011102230246251565 : ℝ) < a) (hx : 0 < x) :
    (¬ ((RFun.isNaN a = true) ∨ (RFun.isNaN x = true))) ∧
    (¬ ((a ≤ (0.0 : ℝ)) ∨ ((a == (RFun.inf : ℝ)) = true))) ∧
    (¬ ((x ≤ (0.0 : ℝ)) ∨ ((x == (RFun.inf : ℝ)) = true))) ∧
    (¬ (R.prec.almost_eq a (0.0 : ℝ) (R.prec.DEFAULT_F64_ACC (α := ℝ))) = true) := by
  have ha0 : (0 : ℝ) < a := lt_trans (by norm_num) ha
  have hinf : (RFun.inf : ℝ) = 0 := rfl
  have h0 : (0.0 : ℝ) = 0 := by norm_num
  refine ⟨by simp, ?_, ?_, ?_⟩
  · rw [hinf, h0]; simp [not_le.mpr ha0, ha0.ne']
  · rw [hinf, h0]; simp [not_le.mpr hx, hx.ne']
  · rw [Statrs.Props.C20.almost_eq_real, h0, sub_zero, abs_of_pos ha0]
    simp only [R.prec.DEFAULT_F64_ACC]; exact fun h => not_le.mpr ha (of_decide_eq_true h)

/-- full(ℝ): the test of the REMOVED `x ≈ 0` shortcut, `almost_eq(x, 0.0, DEFAULT_F64_ACC)`, over ℝ: it is true exactly
    for `0 < x ≤ 1.11…e-15` — the arguments that used to return `Ok(0.0)` and now reach the series. -/
theorem almost_eq_x_zero_real {x : ℝ} (hx : 0 < x) :
    (R.prec.almost_eq x (0.0 : ℝ) (R.prec.DEFAULT_F64_ACC (α := ℝ))) = true
      ↔ x ≤ (0.0000000000000011102230246251565 : ℝ) := by
  have h0 : (0.0 : ℝ) = 0 := by norm_num
  rw [Statrs.Props.C20.almost_eq_real, h0, sub_zero, abs_of_pos hx]
  simp only [R.prec.DEFAULT_F64_ACC]; exact decide_eq_true_iff

/-- full(ℝ): the SERIES branch of `checked_gamma_lr` in exact arithmetic.  For `a` above the
    `almost_eq(a, 0)` shortcut (`> 1.11e-15`), EVERY `x > 0` (also `0 < x ≤ 1.11e-15`, which before commit 9f2f5b7
    was cut off to `Ok(0.0)`), not in the underflow shortcut (`ax ≥ −709.78…`), in the series
    region `x ≤ 1 ∨ x ≤ a`, and when the stopping index `N = stopIdx a x 1e-15` (least `n ≥ 1` with
    `c_n / S_n ≤ 1e-15`) is within the model's loop fuel, the generated function returns
    `exp(a·ln x − x − LG a) · S_N / a` with `LG = F.gamma.ln_gamma` (the model's own Lanczos `ln_gamma`). -/
theorem gamma_lr_series_value (a x : ℝ) (ha : (0.0000000000000011102230246251565 : ℝ) < a)
    (hx : 0 < x)
    (hu : -(709.78271289338399 : ℝ) ≤ a * Real.log x - x - F.gamma.ln_gamma a)
    (hs : x ≤ 1 ∨ x ≤ a) (hfuel : stopIdx a x 1e-15 ≤ loopFuel) :
    F.gamma.checked_gamma_lr a x =
      .ok (Real.exp (a * Real.log x - x - F.gamma.ln_gamma a) * psum a x (stopIdx a x 1e-15) / a) := by
  obtain ⟨g1, g2, g3, g4⟩ := gamma_lr_guards_real ha hx
  have ha0 : (0 : ℝ) < a := lt_trans (by norm_num) ha
  have hx0 : (0 : ℝ) < x := hx
  have hloop := gamma_lr_loop1_start (1e-15) x a ha0.le hx0 (by norm_num) loopFuel hfuel
  have e15 : (0.000000000000001 : ℝ) = 1e-15 := by norm_num
  have h := BranchPins.checked_gamma_lr_series a x _ _ _ g1 g2 g3 g4
    (by simpa using not_lt.mpr hu) (by rw [show (1.0 : ℝ) = 1 by norm_num]; exact hs) (by rw [e15]; exact hloop)
  rw [h]
  rfl

/-- full(ℝ): termination of the series loop in the series region — the stopping test `c_n / S_n ≤ 1e-15`
    becomes true at an index `1 ≤ N ≤ ⌈a⌉ + 50` (from `⌈a⌉` on the terms at least halve). -/
theorem gamma_lr_series_stop_le (a x : ℝ) (ha : 0 < a) (hx : 0 < x) (hs : x ≤ 1 ∨ x ≤ a) :
    1 ≤ stopIdx a x 1e-15 ∧
    term a x (stopIdx a x 1e-15) / psum a x (stopIdx a x 1e-15) ≤ 1e-15 ∧
    stopIdx a x 1e-15 ≤ ⌈a⌉₊ + 50 :=
  ⟨(stopIdx_spec ha.le hx (by norm_num)).1, (stopIdx_spec ha.le hx (by norm_num)).2,
    stopIdx_le_ceil_add ha hx hs 50 half_pow_50⟩

/-- full(ℝ): in the series region the stopping index is within the model's fuel (`loopFuel = 20000`) for every
    `a ≤ 2 847 142`: for `x ≤ a` the terms after `2m` steps are below `exp(−m²/(a+m))`, and `m = 10000` gives
    `exp(−35) ≤ 1e-15`; for `a < x ≤ 1` the index is at most `51`. -/
theorem gamma_lr_series_fuel (a x : ℝ) (ha : 0 < a) (hx : 0 < x) (hs : x ≤ 1 ∨ x ≤ a) (ha2 : a ≤ 2847142) :
    stopIdx a x 1e-15 ≤ loopFuel := by
  have hf : loopFuel = 20000 := rfl
  by_cases hxa : x ≤ a
  · have h := stopIdx_le_two_mul ha hx hxa 10000 (by norm_num) (by push_cast; linarith)
    omega
  · have hx1 : x ≤ 1 := hs.resolve_right hxa
    have ha1 : a ≤ 1 := by linarith
    have h1 := (gamma_lr_series_stop_le a x ha hx hs).2.2
    have h2 : ⌈a⌉₊ ≤ 1 := Nat.ceil_le.mpr (by exact_mod_cast ha1)
    omega

/-- full(ℝ): for `a ≤ 2 847 142` the series branch needs no fuel hypothesis. -/
theorem gamma_lr_series_value_of_le (a x : ℝ) (ha : (0.0000000000000011102230246251565 : ℝ) < a)
    (hx : 0 < x)
    (hu : -(709.78271289338399 : ℝ) ≤ a * Real.log x - x - F.gamma.ln_gamma a)
    (hs : x ≤ 1 ∨ x ≤ a) (ha2 : a ≤ 2847142) :
    F.gamma.checked_gamma_lr a x =
      .ok (Real.exp (a * Real.log x - x - F.gamma.ln_gamma a) * psum a x (stopIdx a x 1e-15) / a) :=
  gamma_lr_series_value a x ha hx hu hs
    (gamma_lr_series_fuel a x (lt_trans (by norm_num) ha) hx hs ha2)

/-- full(ℝ): the unwrapped `gamma_lr` in the series branch. -/
theorem gamma_lr_series_value_unwrapped (a x : ℝ) (ha : (0.0000000000000011102230246251565 : ℝ) < a)
    (hx : 0 < x)
    (hu : -(709.78271289338399 : ℝ) ≤ a * Real.log x - x - F.gamma.ln_gamma a)
    (hs : x ≤ 1 ∨ x ≤ a) (hfuel : stopIdx a x 1e-15 ≤ loopFuel) :
    F.gamma.gamma_lr a x =
      Real.exp (a * Real.log x - x - F.gamma.ln_gamma a) * psum a x (stopIdx a x 1e-15) / a := by
  unfold F.gamma.gamma_lr
  rw [gamma_lr_series_value a x ha hx hu hs hfuel]
  rfl

/-- non-vacuity of the hypotheses of `gamma_lr_series_value` other than the underflow guard (which is a
    statement about the abstract Lanczos value): `a = 2`, `x = 1`. -/
example : (0.0000000000000011102230246251565 : ℝ) < 2 ∧ (0 : ℝ) < 1 ∧
    ((1 : ℝ) ≤ 1 ∨ (1 : ℝ) ≤ 2) ∧ stopIdx 2 1 1e-15 ≤ loopFuel := by
  refine ⟨by norm_num, by norm_num, Or.inl le_rfl, ?_⟩
  have h1 := (gamma_lr_series_stop_le 2 1 two_pos one_pos (Or.inl le_rfl)).2.2
  have h2 : ⌈(2 : ℝ)⌉₊ = 2 := by simp
  have : loopFuel = 20000 := rfl
  omega

/-! ### the fuel hypothesis cannot be dropped (model limit) -/

private theorem term_diag_ge {a : ℝ} (ha : 0 < a) (n : ℕ) : 1 - (n : ℝ) ^ 2 / a ≤ term a a n := by
  induction n with
  | zero => simp
  | succ n ih =>
    rw [term_succ]
    have h1 : term a a n ≤ 1 := term_le_one ha ha (Or.inr le_rfl) n
    have h0 : 0 ≤ term a a n := term_nonneg ha.le ha.le n
    have hn : (0 : ℝ) ≤ n := Nat.cast_nonneg n
    have hr : a / (a + ((n + 1 : ℕ) : ℝ)) = 1 - ((n : ℝ) + 1) / (a + ((n : ℝ) + 1)) := by
      push_cast; field_simp; ring
    have hle : ((n : ℝ) + 1) / (a + ((n : ℝ) + 1)) ≤ ((n : ℝ) + 1) / a :=
      div_le_div_of_nonneg_left (by positivity) ha (by linarith)
    have hq : ((n + 1 : ℕ) : ℝ) ^ 2 / a = (n : ℝ) ^ 2 / a + (2 * (n : ℝ) + 1) / a := by
      push_cast; field_simp; ring
    have hq2 : ((n : ℝ) + 1) / a ≤ (2 * (n : ℝ) + 1) / a :=
      div_le_div_of_nonneg_right (by linarith) ha.le
    have hnn : 0 ≤ ((n : ℝ) + 1) / (a + ((n : ℝ) + 1)) := by positivity
    rw [hr, hq]
    nlinarith

private theorem psum_le_succ {a x : ℝ} (ha : 0 < a) (hx : 0 < x) (hs : x ≤ 1 ∨ x ≤ a) (n : ℕ) :
    psum a x n ≤ (n : ℝ) + 1 := by
  induction n with
  | zero => simp
  | succ n ih => rw [psum_succ]; push_cast; linarith [term_le_one ha hx hs (n + 1)]

/-- counterexample (MODEL limit, not a defect of statrs): at `a = x = 1e10` the series loop has not met its
    stopping test after `loopFuel = 20000` iterations (`c_n ≥ 1 − n²/a ≥ 0.96`, `S_n ≤ n + 1`), so the lifted
    loop hangs: the hypothesis `stopIdx a x 1e-15 ≤ loopFuel` of `gamma_lr_series_value` cannot be dropped.
    (The Rust loop simply runs on — several 10⁵ iterations — and stops: `gamma_lr(1e10, 1e10)` returns in milliseconds.) -/
theorem gamma_lr_series_hang_counterexample :
    F.gamma.checked_gamma_lr.loop1 loopFuel (1e-15 : ℝ) 1e10 1e10 (1.0 : ℝ) (1.0 : ℝ) = LoopR.hang := by
  have ha : (0 : ℝ) < 1e10 := by norm_num
  have h := gamma_lr_loop1_hang (1e-15) 1e10 1e10 loopFuel 0 ?_
  · have e1 : (1.0 : ℝ) = 1 := by norm_num
    simpa [e1] using h
  · intro j _ hj
    have hj' : (j : ℝ) ≤ 20000 := by
      have : loopFuel = 20000 := rfl
      exact_mod_cast (by omega : j ≤ 20000)
    have hj0 : (0 : ℝ) ≤ j := Nat.cast_nonneg j
    have h1 := term_diag_ge ha j
    have h2 := psum_le_succ ha ha (Or.inr le_rfl) j
    have h3 := psum_pos ha.le ha.le j
    rw [not_le, lt_div_iff₀ h3]
    have h4 : (j : ℝ) ^ 2 / 1e10 ≤ 4 / 100 := by
      rw [div_le_iff₀ ha]; nlinarith
    nlinarith

/-- rel(underflow guard at `a = x = 1e10`, a statement about the abstract Lanczos value): there the model
    returns the panic sentinel. -/
theorem gamma_lr_series_hang_value_rel
    (hu : -(709.78271289338399 : ℝ) ≤ 1e10 * Real.log 1e10 - 1e10 - F.gamma.ln_gamma (1e10 : ℝ)) :
    F.gamma.checked_gamma_lr (1e10 : ℝ) 1e10 = panicV := by
  obtain ⟨g1, g2, g3, g4⟩ := gamma_lr_guards_real (a := 1e10) (x := 1e10) (by norm_num) (by norm_num)
  have e15 : (0.000000000000001 : ℝ) = 1e-15 := by norm_num
  exact BranchPins.checked_gamma_lr_series_hang 1e10 1e10 g1 g2 g3 g4
    (by simpa using not_lt.mpr hu) (Or.inr le_rfl) (by rw [e15]; exact gamma_lr_series_hang_counterexample)

end Statrs.Props.C11
