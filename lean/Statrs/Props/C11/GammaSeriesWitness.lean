/-
  C11 — non-vacuity of the hypotheses of the `GammaSeries*` theorems.  The only hypothesis that is not a plain
  inequality between the arguments is the underflow guard `−709.78… ≤ a·ln x − x − LG a`, a statement about the
  model's Lanczos `ln_gamma`; here it is discharged at `a = 1` by evaluating the Lanczos sum exactly
  (`S(1) = 0.2624…`, so `LG 1 ≤ 10`).  So at `(a,x) = (1,1)` (series) and `(1,2)` (continued fraction) the
  value/accuracy theorems hold UNCONDITIONALLY.  (A third unconditional point, `a = 0.001`, `x = 2^−50` — inside the
  range of the `x ≈ 0` shortcut removed by commit 9f2f5b7 — is in `GammaSeriesSmallX.lean`: `gamma_lr_small_x_witness`.)
-/
import Statrs.Props.C11.GammaSeriesUr
namespace Statrs.Props.C11
open Statrs Statrs.Gen Statrs.Spec.FunctionBranches Statrs.Props.C11.BranchPins
open Statrs.Lemmas.GammaSeries Statrs.Lemmas.GammaCF Statrs.Props.C03.Witness

/-- full(ℝ): a crude bound on the model's Lanczos `ln_gamma` at 1 (true value `≈ 0`), from the exact Lanczos sum -/
theorem ln_gamma_one_le : F.gamma.ln_gamma (1:ℝ) ≤ 10 := by
  rw [ln_gamma_lanczos _ (by norm_num), lanczosSum_eq]
  have t2 : Int.toNat 2 = 2 := rfl
  have t3 : Int.toNat 3 = 3 := rfl
  have t4 : Int.toNat 4 = 4 := rfl
  have t5 : Int.toNat 5 = 5 := rfl
  have t6 : Int.toNat 6 = 6 := rfl
  have t7 : Int.toNat 7 = 7 := rfl
  have t8 : Int.toNat 8 = 8 := rfl
  have t9 : Int.toNat 9 = 9 := rfl
  have t10 : Int.toNat 10 = 10 := rfl
  simp only [List.foldl, F.gamma.GAMMA_DK, listGet, F.gamma.GAMMA_R]
  norm_num [t2, t3, t4, t5, t6, t7, t8, t9, t10]
  have h1 : Real.log (1653572842981847179751192038867 / 6300000000000000000000000000000) ≤ 0 :=
    Real.log_nonpos (by norm_num) (by norm_num)
  have he1 : (1 : ℝ) ≤ Real.exp 1 := by
    have := Real.add_one_le_exp (1 : ℝ); linarith
  have hsq : √(Real.exp 1 / Real.pi) ≤ 1 := by
    rw [Real.sqrt_le_one]
    rw [div_le_one Real.pi_pos]
    linarith [Real.exp_one_lt_d9, Real.pi_gt_three]
  have hsq0 : 0 < √(Real.exp 1 / Real.pi) := Real.sqrt_pos.mpr (by positivity)
  have h2 : Real.log (2 * √(Real.exp 1 / Real.pi)) ≤ 1 := by
    have := Real.log_le_sub_one_of_pos (by positivity : 0 < 2 * √(Real.exp 1 / Real.pi))
    linarith
  have h3 : Real.log (11400511 / 1000000 / Real.exp 1) ≤ 11 := by
    have hp : (0 : ℝ) < 11400511 / 1000000 / Real.exp 1 := by positivity
    have := Real.log_le_sub_one_of_pos hp
    have h4 : (11400511 / 1000000 / Real.exp 1 : ℝ) ≤ 11400511 / 1000000 :=
      div_le_self (by norm_num) he1
    linarith
  linarith

/-- full(ℝ): `(a,x) = (1,1)` satisfies every hypothesis of `gamma_lr_series_value` / `gamma_lr_series_accuracy`,
    so there `checked_gamma_lr 1 1 = ok (P(1,1)·exp(log Γ(1) − LG 1)·S_N/S_∞)` unconditionally. -/
theorem gamma_lr_series_accuracy_one_one :
    F.gamma.checked_gamma_lr (1 : ℝ) 1 =
      .ok (gammaLrR 1 1 * Real.exp (Real.log (Real.Gamma 1) - F.gamma.ln_gamma (1 : ℝ))
        * (psum 1 1 (stopIdx 1 1 1e-15) / ∑' n, term 1 1 n)) := by
  have hfuel : stopIdx 1 1 1e-15 ≤ loopFuel := by
    have h1 := (gamma_lr_series_stop_le 1 1 one_pos one_pos (Or.inl le_rfl)).2.2
    have h2 : ⌈(1 : ℝ)⌉₊ = 1 := by simp
    have : loopFuel = 20000 := rfl
    omega
  refine (gamma_lr_series_accuracy 1 1 (by norm_num) (by norm_num) ?_ (Or.inl le_rfl) hfuel).1
  have := ln_gamma_one_le
  rw [Real.log_one]; linarith

/-- full(ℝ): at `a = 1` the convergents are all `1/x` (`B_k = x·A_k`): the first iteration already meets the
    stopping test — `(a,x) = (1,2)` satisfies the existence hypothesis `hex` of `gamma_lr_cf_value` with stopping
    iteration 0. -/
theorem cfTest_one_two : cfTest 1 2 1e-15 0 := by
  norm_num [cfTest, cfA, cfB, cfAns, cfY, cfZ]

/-- full(ℝ): `(a,x) = (1,2)` satisfies every hypothesis of `gamma_lr_cf_value`; the model returns
    `1 − exp(ln 2 − 2 − LG 1)·(14/28)` there (true value `1 − e^{−2}`). -/
theorem gamma_lr_cf_value_one_two :
    F.gamma.checked_gamma_lr (1 : ℝ) 2 =
      .ok (1 - Real.exp (1 * Real.log 2 - 2 - F.gamma.ln_gamma (1 : ℝ)) * (14 / 28)) := by
  have hK : cfStopIdx 1 2 1e-15 = 0 :=
    Nat.le_zero.mp (Nat.sInf_le (s := {j : ℕ | cfTest 1 2 1e-15 j}) cfTest_one_two)
  have h := gamma_lr_cf_value 1 2 (by norm_num) (by norm_num) (by norm_num) ?_ ⟨0, cfTest_one_two⟩
    (by rw [hK]; exact Nat.zero_lt_succ _)
  · rw [h, hK]
    norm_num [cfA, cfB, cfY, cfZ]
  · have := ln_gamma_one_le
    have h2 : 0 ≤ Real.log 2 := Real.log_nonneg (by norm_num)
    linarith

end Statrs.Props.C11
