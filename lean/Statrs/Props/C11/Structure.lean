/-
  C11 — structural identities of the function layer (src/function/*.rs): reflection / complement /
  symmetry / inverse identities that follow from how the code is written (not from the accuracy of
  its approximations).  Carrier ℝ unless a theorem is stated for every α.

  Model limit: over ℝ `RFun.inf = RFun.negInf = 0` are junk, so the guards `x == inf` of `erfc`
  fire at `x = 0`; the `erfc` identities are therefore stated for `x ≠ 0` at the level of
  `F.erf.erfc`, and for ALL `x` (including 0) at the level of the kernel `F.erf.erf_impl`, which has
  no such guard.
-/
import Statrs.Lemmas.FunctionLayer
import Statrs.Gen.F_erf
import Statrs.Gen.F_beta
import Statrs.Gen.F_gamma
import Statrs.Gen.F_logistic
import Statrs.Gen.F_harmonic
import Statrs.Gen.F_factorial
namespace Statrs.Props.C11
open Statrs Statrs.Gen Statrs.Lemmas.FunctionLayer

/-! ## erf / erfc -/

/-- over ℝ (`isNaN`/`isInf` false) `erf` is its `x == 0` shortcut plus the kernel -/
theorem erf_real (x : ℝ) : F.erf.erf x = if x = 0 then 0 else F.erf.erf_impl x false := by
  unfold F.erf.erf; simp; norm_num
/-- over ℝ `erfc`'s `x == inf` guard is the junk test `x = 0` (see header); elsewhere it is the kernel -/
theorem erfc_real (x : ℝ) : F.erf.erfc x = if x = 0 then 0 else F.erf.erf_impl x true := by
  unfold F.erf.erfc
  by_cases h : x = 0
  · simp [h]; norm_num
  · simp [h]

theorem erf_impl_eq_rec (z : ℝ) (inv : Bool) : F.erf.erf_impl z inv = F.erf.erf_impl.rec 16 z inv := rfl

/-- kernel, all `x`: `erf_impl(-x, false) = -erf_impl(x, false)` — the negative branch reuses the
    positive-branch rational approximation with the sign flipped -/
theorem erf_impl_neg_false (x : ℝ) : F.erf.erf_impl (-x) false = - F.erf.erf_impl x false := by
  simp only [erf_impl_eq_rec]
  rcases lt_trichotomy x 0 with h | h | h
  · rw [erfrec_neg_false 15 x h, neg_neg, erfrec_pos_fuel 15 14 (-x) (by linarith)]
  · subst h; simp [erfrec_zero 15]
  · rw [erfrec_neg_false 15 (-x) (by linarith), neg_neg, erfrec_pos_fuel 15 14 x h.le]

/-- kernel, all `x` (including 0): `erf_impl(x,false) + erf_impl(x,true) = 1` exactly — both are
    selected from one shared `result` by the final `inv`/`z ≥ 0.5` switch -/
theorem erf_impl_compl (x : ℝ) : F.erf.erf_impl x false + F.erf.erf_impl x true = 1 := by
  simp only [erf_impl_eq_rec]
  by_cases h : 0 ≤ x
  · exact erfrec_pos_compl 15 x h
  · have h := not_le.mp h
    rw [erfrec_neg_false 15 x h]
    by_cases h' : x < -(1/2)
    · rw [erfrec_neg_true_far 15 x h']
      have := erfrec_pos_compl 14 (-x) (by linarith)
      linarith
    · rw [erfrec_neg_true_near 15 x h (by linarith)]; ring

/-- kernel, all `x` (including 0): `erf_impl(-x,true) = 2 - erf_impl(x,true)` -/
theorem erf_impl_neg_true (x : ℝ) : F.erf.erf_impl (-x) true = 2 - F.erf.erf_impl x true := by
  have h1 := erf_impl_compl x
  have h2 := erf_impl_compl (-x)
  have h3 := erf_impl_neg_false x
  linarith

/-- C11: `erf(-x) = -erf(x)` for every real `x` -/
theorem erf_neg (x : ℝ) : F.erf.erf (-x) = - F.erf.erf x := by
  rw [erf_real, erf_real]
  by_cases h : x = 0
  · subst h; simp
  · rw [if_neg h, if_neg (by simpa using h)]; exact erf_impl_neg_false x

/-- C11: `erf(0) = 0` (ℝ) -/
theorem erf_zero : F.erf.erf (0 : ℝ) = 0 := by rw [erf_real]; simp

/-- `erf(0.0) = 0.0` on every carrier whose `0.0` is neither NaN nor infinite and equals itself
    (true for IEEE doubles): the `x == 0` shortcut is taken before the kernel -/
theorem erf_zero_any {α : Type} [Add α] [Sub α] [Mul α] [Div α] [Neg α] [LT α] [LE α] [BEq α]
    [DecidableLT α] [DecidableLE α] [OfScientific α] [Inhabited α] [RFun α]
    (hnan : RFun.isNaN (0.0 : α) = false) (hinf : RFun.isInf (0.0 : α) = false)
    (hrefl : ((0.0 : α) == (0.0 : α)) = true) : F.erf.erf (0.0 : α) = (0.0 : α) := by
  unfold F.erf.erf; simp [hnan, hinf, hrefl]

/-- the kernel at 0: `erf_impl(0,false) = 0`, `erf_impl(0,true) = 1` (so the `erfc` junk value at 0
    over ℝ is an artefact of `RFun.inf = 0`, not of the algorithm) -/
theorem erf_impl_zero (inv : Bool) : F.erf.erf_impl (0 : ℝ) inv = if inv then 1 else 0 :=
  erfrec_zero 15 inv

/-- C11: `erfc(-x) = 2 - erfc(x)` for every real `x ≠ 0` (0 excluded only because of the junk
    `inf` guard over ℝ; the kernel identity `erf_impl_neg_true` has no exclusion) -/
theorem erfc_neg (x : ℝ) (hx : x ≠ 0) : F.erf.erfc (-x) = 2 - F.erf.erfc x := by
  rw [erfc_real, erfc_real, if_neg hx, if_neg (by simpa using hx)]; exact erf_impl_neg_true x

/-- C11: `erf(x) + erfc(x) = 1` exactly, for every real `x ≠ 0` (same remark; kernel version
    `erf_impl_compl` holds for all `x`) -/
theorem erf_add_erfc (x : ℝ) (hx : x ≠ 0) : F.erf.erf x + F.erf.erfc x = 1 := by
  rw [erf_real, erfc_real, if_neg hx, if_neg hx]; exact erf_impl_compl x

/-! ## beta / ln_beta / gamma / ln_gamma -/

section generic
variable {α : Type} [Add α] [Sub α] [Mul α] [Div α] [Neg α] [LT α] [LE α] [BEq α]
  [DecidableLT α] [DecidableLE α] [OfScientific α] [Inhabited α] [RFun α]

/-- every carrier: inside the domain `ln_beta a b` is literally
    `(ln_gamma a + ln_gamma b) - ln_gamma (a + b)` -/
theorem ln_beta_shape (a b : α) (ha : ¬ a ≤ (0.0 : α)) (hb : ¬ b ≤ (0.0 : α)) :
    F.beta.ln_beta a b = (F.gamma.ln_gamma a + F.gamma.ln_gamma b) - F.gamma.ln_gamma (a + b) := by
  unfold F.beta.ln_beta F.beta.checked_ln_beta; rw [if_neg ha, if_neg hb]; rfl

/-- every carrier: inside the domain `beta a b = exp (ln_beta a b)` -/
theorem beta_shape (a b : α) (ha : ¬ a ≤ (0.0 : α)) (hb : ¬ b ≤ (0.0 : α)) :
    F.beta.beta a b = RFun.exp (F.beta.ln_beta a b) := by
  unfold F.beta.beta F.beta.checked_beta F.beta.ln_beta F.beta.checked_ln_beta
  rw [if_neg ha, if_neg hb]; rfl

/-- every carrier with a commutative `+` (ℝ, IEEE doubles up to NaN payload): `ln_beta` is symmetric
    for ALL arguments (outside the domain both sides are the panic default) -/
theorem ln_beta_symm_of_add_comm (hcomm : ∀ u v : α, u + v = v + u) (a b : α) :
    F.beta.ln_beta a b = F.beta.ln_beta b a := by
  unfold F.beta.ln_beta F.beta.checked_ln_beta
  by_cases ha : a ≤ (0.0 : α) <;> by_cases hb : b ≤ (0.0 : α)
  · simp only [if_pos ha, if_pos hb]
  · simp only [if_pos ha, if_neg hb]; rfl
  · simp only [if_neg ha, if_pos hb]; rfl
  · simp only [if_neg ha, if_neg hb]
    rw [hcomm (F.gamma.ln_gamma a), hcomm a b]

/-- every carrier with a commutative `+`: `beta a b = beta b a` for ALL arguments -/
theorem beta_symm_of_add_comm (hcomm : ∀ u v : α, u + v = v + u) (a b : α) :
    F.beta.beta a b = F.beta.beta b a := by
  unfold F.beta.beta F.beta.checked_beta F.beta.checked_ln_beta
  by_cases ha : a ≤ (0.0 : α) <;> by_cases hb : b ≤ (0.0 : α)
  · simp only [if_pos ha, if_pos hb]
  · simp only [if_pos ha, if_neg hb]; rfl
  · simp only [if_neg ha, if_pos hb]; rfl
  · simp only [if_neg ha, if_neg hb]
    rw [hcomm (F.gamma.ln_gamma a), hcomm a b]
end generic

/-- C11: `beta a b = beta b a` over ℝ, all arguments -/
theorem beta_symm (a b : ℝ) : F.beta.beta a b = F.beta.beta b a := beta_symm_of_add_comm add_comm a b
theorem ln_beta_symm (a b : ℝ) : F.beta.ln_beta a b = F.beta.ln_beta b a := ln_beta_symm_of_add_comm add_comm a b

example : ∃ a b : ℝ, ¬ a ≤ (0.0 : ℝ) ∧ ¬ b ≤ (0.0 : ℝ) := ⟨1, 1, by norm_num, by norm_num⟩

/-- C11, all real `x` (both the Lanczos branch `x ≥ 1/2` and the reflection branch `x < 1/2`):
    wherever `gamma x ≠ 0` — i.e. the Lanczos partial-fraction sum and, on the reflection side,
    `sin(πx)` do not vanish — `ln_gamma x = log |gamma x|` (`Real.log` is `log|·|`).  The two
    functions are the same formula, one in log space. -/
theorem ln_gamma_eq_log_gamma_of_ne_zero (x : ℝ) (h : F.gamma.gamma x ≠ 0) :
    F.gamma.ln_gamma x = Real.log (F.gamma.gamma x) := by
  unfold F.gamma.ln_gamma F.gamma.gamma at *
  have hc : (0:ℝ) < 2 * Real.sqrt (Real.exp 1 / Real.pi) := by positivity
  have hR : (F.gamma.GAMMA_R : ℝ) = 10.900511 := rfl
  by_cases hx : x < (0.5 : ℝ)
  · simp only [if_pos hx] at h ⊢
    generalize (List.foldl _ _ _ : ℝ) = s at h ⊢
    rfun_norm
    have hb : (0:ℝ) < (0.5 - x + F.gamma.GAMMA_R) / Real.exp 1 := by
      apply div_pos _ (Real.exp_pos 1)
      rw [hR]; norm_num at hx ⊢; linarith
    have hp : ((0.5 - x + F.gamma.GAMMA_R) / Real.exp 1) ^ (0.5 - x) ≠ 0 := (Real.rpow_pos_of_pos hb _).ne'
    have hden : Real.sin (Real.pi * x) * s * (2 * √(Real.exp 1 / Real.pi)) *
        ((0.5 - x + F.gamma.GAMMA_R) / Real.exp 1) ^ (0.5 - x) ≠ 0 := by
      intro h0; apply h; rw [h0]; simp
    have hsin : Real.sin (Real.pi * x) ≠ 0 := by intro h0; apply hden; rw [h0]; ring
    have hs : s ≠ 0 := by intro h0; apply hden; rw [h0]; ring
    rw [Real.log_div Real.pi_ne_zero hden, Real.log_mul (mul_ne_zero (mul_ne_zero hsin hs) hc.ne') hp,
      Real.log_mul (mul_ne_zero hsin hs) hc.ne', Real.log_mul hsin hs, Real.log_rpow hb]
    ring
  · simp only [if_neg hx] at h ⊢
    generalize (List.foldl _ _ _ : ℝ) = s at h ⊢
    rfun_norm
    have hb : (0:ℝ) < (x - 0.5 + F.gamma.GAMMA_R) / Real.exp 1 := by
      apply div_pos _ (Real.exp_pos 1)
      rw [hR]; norm_num at hx ⊢; linarith
    have hs : s ≠ 0 := by intro h0; apply h; rw [h0]; ring
    have hp : ((x - 0.5 + F.gamma.GAMMA_R) / Real.exp 1) ^ (x - 0.5) ≠ 0 := (Real.rpow_pos_of_pos hb _).ne'
    rw [Real.log_mul (mul_ne_zero hs hc.ne') hp, Real.log_mul hs hc.ne', Real.log_rpow hb]

/-- C11 as asked: for `x ≥ 1/2`, under positivity of the computed `gamma x` (equivalently of the
    Lanczos sum, the other factors being positive), `ln_gamma x = log (gamma x)` -/
theorem ln_gamma_eq_log_gamma (x : ℝ) (_hx : 1 / 2 ≤ x) (hpos : 0 < F.gamma.gamma x) :
    F.gamma.ln_gamma x = Real.log (F.gamma.gamma x) :=
  ln_gamma_eq_log_gamma_of_ne_zero x hpos.ne'

/-! ## logistic / logit -/
theorem logistic_real (x : ℝ) : F.logistic.logistic x = 1 / (Real.exp (-x) + 1) := by
  unfold F.logistic.logistic; rfun_norm; norm_num

theorem logit_real (p : ℝ) (h0 : 0 ≤ p) (h1 : p ≤ 1) : F.logistic.logit p = Real.log (p / (1 - p)) := by
  unfold F.logistic.logit F.logistic.checked_logit
  have h : (0.0 : ℝ) ≤ p ∧ p ≤ (1.0 : ℝ) := by norm_num; exact ⟨h0, h1⟩
  rw [if_pos h]; simp [unwrapO]; norm_num

/-- C11: `logit (logistic x) = x` for every real `x` -/
theorem logit_logistic (x : ℝ) : F.logistic.logit (F.logistic.logistic x) = x := by
  rw [logistic_real]
  have he := Real.exp_pos (-x)
  have hp : 0 < 1 / (Real.exp (-x) + 1) := by positivity
  have hp1 : 1 / (Real.exp (-x) + 1) < 1 := by
    rw [div_lt_one (by positivity)]; linarith
  rw [logit_real _ hp.le hp1.le]
  have : 1 / (Real.exp (-x) + 1) / (1 - 1 / (Real.exp (-x) + 1)) = Real.exp x := by
    rw [Real.exp_neg]; have := Real.exp_pos x; field_simp; ring
  rw [this, Real.log_exp]

/-- C11: `logistic (logit p) = p` for `0 < p < 1` -/
theorem logistic_logit (p : ℝ) (h0 : 0 < p) (h1 : p < 1) : F.logistic.logistic (F.logistic.logit p) = p := by
  rw [logit_real p h0.le h1.le, logistic_real, Real.exp_neg, Real.exp_log (by apply div_pos h0; linarith)]
  have : 1 - p ≠ 0 := by linarith
  field_simp; ring

/-! ## generalised harmonic numbers -/
/-- C11: for `n ≥ 1`, `gen_harmonic n m = Σ_{k=1..n} k^(-m)` (real power), every real `m` -/
theorem gen_harmonic_eq_sum (n : Int) (hn : 1 ≤ n) (m : ℝ) :
    F.harmonic.gen_harmonic n m = ∑ k ∈ Finset.Icc 1 n.toNat, (k : ℝ) ^ (-m) := by
  unfold F.harmonic.gen_harmonic
  split
  · omega
  · rw [foldl_add_eq_sum]
    simp only [rangeList, List.map_map]
    rw [← sum_map_range_eq_Icc (fun k => (k : ℝ) ^ (-m))]
    simp only [Int.sub_zero]
    norm_num
    congr 1

/-- documented special case: `gen_harmonic 0 m = 1`, NOT the empty sum 0 -/
theorem gen_harmonic_zero (m : ℝ) : F.harmonic.gen_harmonic 0 m = 1 := by
  unfold F.harmonic.gen_harmonic; norm_num

/-- the sum formula fails at `n = 0` (the code returns 1, the empty sum is 0) — documented in the
    Rust doc comment ("Returns 1 as a special case when n == 0") -/
theorem gen_harmonic_zero_counterexample (m : ℝ) :
    F.harmonic.gen_harmonic 0 m ≠ ∑ k ∈ Finset.Icc 1 (0 : Int).toNat, (k : ℝ) ^ (-m) := by
  rw [gen_harmonic_zero]; simp

example : F.harmonic.gen_harmonic 2 (1 : ℝ) = 3 / 2 := by
  rw [gen_harmonic_eq_sum 2 (by norm_num)]
  have : (2 : Int).toNat = 2 := rfl
  rw [this]; simp [Finset.sum_Icc_succ_top, Real.rpow_neg_one]; norm_num

/-! ## factorial / binomial -/

section generic
variable {α : Type} [Add α] [Sub α] [Mul α] [Div α] [Neg α] [LT α] [LE α] [BEq α]
  [DecidableLT α] [DecidableLE α] [OfScientific α] [Inhabited α] [RFun α]

/-- every carrier: `k > n ⇒ binomial n k = 0.0` -/
theorem binomial_of_lt (n k : Int) (h : n < k) : F.factorial.binomial (α := α) n k = (0.0 : α) := by
  unfold F.factorial.binomial; rw [if_pos h]

/-- every carrier: `k > n ⇒ ln_binomial n k = -inf` -/
theorem ln_binomial_of_lt (n k : Int) (h : n < k) : F.factorial.ln_binomial (α := α) n k = (RFun.negInf : α) := by
  unfold F.factorial.ln_binomial; rw [if_pos h]

/-- every carrier: `k ≤ n ⇒ ln_binomial n k = ln n! - ln k! - ln (n-k)!` (this exact expression) -/
theorem ln_binomial_of_le (n k : Int) (h : k ≤ n) :
    F.factorial.ln_binomial (α := α) n k =
      (F.factorial.ln_factorial (α := α) n - F.factorial.ln_factorial (α := α) k)
        - F.factorial.ln_factorial (α := α) (n - k) := by
  unfold F.factorial.ln_binomial
  have hlt : ¬ n < k := by omega
  rw [if_neg hlt]; unfold usub; rw [if_neg hlt]

/-- every carrier: `ln_binomial n k = -inf ↔ k > n`, given that the finite branch value is not
    `-inf` on this carrier (true for IEEE doubles whenever the three `ln_factorial`s are finite;
    NOT usable over ℝ, where `negInf` is the junk value 0) -/
theorem ln_binomial_eq_negInf_iff (n k : Int)
    (hfin : k ≤ n → (F.factorial.ln_factorial (α := α) n - F.factorial.ln_factorial (α := α) k)
        - F.factorial.ln_factorial (α := α) (n - k) ≠ (RFun.negInf : α)) :
    F.factorial.ln_binomial (α := α) n k = (RFun.negInf : α) ↔ n < k := by
  constructor
  · intro h
    by_contra hc
    have hk : k ≤ n := by omega
    rw [ln_binomial_of_le n k hk] at h
    exact hfin hk h
  · exact ln_binomial_of_lt n k

/-- every carrier: `binomial n k = 0.0 ↔ k > n`, given that the rounded value on the `k ≤ n` branch
    is not `0.0` on this carrier -/
theorem binomial_eq_zero_iff_of (n k : Int)
    (hnz : k ≤ n → F.factorial.binomial (α := α) n k ≠ (0.0 : α)) :
    F.factorial.binomial (α := α) n k = (0.0 : α) ↔ n < k := by
  constructor
  · intro h; by_contra hc; exact hnz (by omega) h
  · exact binomial_of_lt n k
end generic


/-- C11 over ℝ: `factorial n = n!` on the whole table range -/
theorem factorial_eq (n : Nat) (h : n ≤ 170) : F.factorial.factorial (α := ℝ) (n : Int) = (n.factorial : ℝ) := by
  unfold F.factorial.factorial; simp only [fcache_get n h]

/-- recurrence `(n+1)! = (n+1)·n!` inside the table -/
theorem factorial_succ (n : Nat) (h : n + 1 ≤ 170) :
    F.factorial.factorial (α := ℝ) ((n : Int) + 1) = ((n : ℝ) + 1) * F.factorial.factorial (α := ℝ) (n : Int) := by
  have := factorial_eq (n + 1) h
  push_cast at this
  rw [this, factorial_eq n (by omega), Nat.factorial_succ]; push_cast; ring

/-- `ln_factorial n = log n!` inside the table -/
theorem ln_factorial_eq (n : Nat) (h : n ≤ 170) :
    F.factorial.ln_factorial (α := ℝ) (n : Int) = Real.log (n.factorial : ℝ) := by
  unfold F.factorial.ln_factorial; simp only [fcache_get n h]; rfl

/-- beyond the table `ln_factorial x` is `ln_gamma (x+1)` (Lanczos) -/
theorem ln_factorial_large (x : Int) (h : 170 < x) :
    F.factorial.ln_factorial (α := ℝ) x = F.gamma.ln_gamma ((x : ℝ) + 1) := by
  unfold F.factorial.ln_factorial; simp only [fcache_get_none x h]; rfun_norm; norm_num

/-- C11 over ℝ: for `k ≤ n ≤ 170`, `binomial n k` is exactly the binomial coefficient
    (`exp` of the log-factorial difference is `n!/(k!(n-k)!)`, and `floor(0.5 + ·)` fixes integers) -/
theorem binomial_eq_choose (n k : Nat) (hk : k ≤ n) (hn : n ≤ 170) :
    F.factorial.binomial (α := ℝ) (n : Int) (k : Int) = (Nat.choose n k : ℝ) := by
  unfold F.factorial.binomial
  have hlt : ¬ ((n : Int) < (k : Int)) := by omega
  rw [if_neg hlt]
  have hu : usub (n : Int) (k : Int) = ((n - k : Nat) : Int) := by
    unfold usub; rw [if_neg hlt]; omega
  rw [hu, ln_factorial_eq n hn, ln_factorial_eq k (by omega), ln_factorial_eq (n - k) (by omega)]
  rfun_norm
  have hn0 : (0 : ℝ) < n.factorial := by exact_mod_cast Nat.factorial_pos n
  have hk0 : (0 : ℝ) < k.factorial := by exact_mod_cast Nat.factorial_pos k
  have hnk0 : (0 : ℝ) < (n - k).factorial := by exact_mod_cast Nat.factorial_pos (n - k)
  have hexp : Real.exp (Real.log n.factorial - Real.log k.factorial - Real.log (n - k).factorial)
      = (Nat.choose n k : ℝ) := by
    rw [Real.exp_sub, Real.exp_sub, Real.exp_log hn0, Real.exp_log hk0, Real.exp_log hnk0]
    have := Nat.choose_mul_factorial_mul_factorial hk
    have h' : (Nat.choose n k : ℝ) * k.factorial * (n - k).factorial = n.factorial := by exact_mod_cast this
    rw [← h']; field_simp
  rw [hexp]
  have : ⌊(0.5 : ℝ) + (Nat.choose n k : ℝ)⌋ = (Nat.choose n k : Int) := by
    rw [Int.floor_eq_iff]; push_cast; constructor <;> linarith
  rw [this]; simp

/-- C11 over ℝ, PARTIAL: `binomial n k = 0 ↔ k > n` for `n ≤ 170`.  Missing: `n > 170`, where
    `ln_factorial` switches to the Lanczos `ln_gamma` and `⇒` needs a numeric lower bound
    `exp(ln_gamma-difference) ≥ 1/2` (not a structural fact).  `⇐` holds for all `n`
    (`binomial_of_lt`). -/
theorem binomial_eq_zero_iff_partial (n k : Nat) (hn : n ≤ 170) :
    F.factorial.binomial (α := ℝ) (n : Int) (k : Int) = 0 ↔ n < k := by
  constructor
  · intro h
    by_contra hc
    have hk : k ≤ n := by omega
    rw [binomial_eq_choose n k hk hn] at h
    have := Nat.choose_pos hk
    have : (0 : ℝ) < (Nat.choose n k : ℝ) := by exact_mod_cast this
    linarith
  · intro h
    unfold F.factorial.binomial
    rw [if_pos (by omega)]; norm_num

example : F.factorial.binomial (α := ℝ) 5 2 = 10 := by
  have := binomial_eq_choose 5 2 (by norm_num) (by norm_num)
  simpa [Nat.choose] using this

end Statrs.Props.C11
