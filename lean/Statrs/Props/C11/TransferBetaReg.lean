/-
  C11 — error-transfer theorems for `checked_beta_reg` / `beta_reg` (src/function/beta.rs:125–234).

  REDUCTION (exactly provable): domain guards; the prefactor
  `bt = exp(lnΓ(a+b) − lnΓ(a) − lnΓ(b) + a·ln x + b·ln(1−x))` (exactly `0` at `x = 0`, `x = 1`); the symmetry
  switch `x ≥ (a+1)/(a+b+2)  ⇒  1 − [same computation on (b, a, 1−x)]`; the output `bt·h/a`.
  CORE (approximation): the modified-Lentz continued fraction, 140 iterations at most, which produces `h`.

  1. (every carrier) the value of the continued fraction does not depend on the output plumbing:
     `betaRegCf symm bt a b x = betaRegOut symm bt (lentzH a b x) a` with ONE function `lentzH`, whether the
     loop stops by convergence or by exhausting its 140 iterations.
  2. (ℝ) `beta_reg a b x = core a b x` below the switch and `1 − core b a (1−x)` at/above it, where
     `core a b x = bt(a,b,x)·lentzH a b x / a`; `bt` is symmetric under `(a,b,x) ↦ (b,a,1−x)`; hence
     `beta_reg a b x = 1 − beta_reg b a (1−x)` strictly above the switch point; `beta_reg a b 0 = 0`,
     `beta_reg a b 1 = 1`.
  3. (ℝ, against the TRUE `I_x(a,b)` = `C03.Witness.betaRegR`, the Mathlib-integral definition, with its
     proved reflection `I_{1−x}(b,a) = 1 − I_x(a,b)`): the error above the switch is the NEGATED error of the
     core at the reflected argument; the core is only ever evaluated at `x' ≤ (a'+1)/(a'+b'+2)`.
  4. rel(`ln_gamma` exact at `a`, `b`, `a+b`): the prefactor is the true `x^a (1−x)^b / B(a,b)`.
-/
import Statrs.Props.C11.BranchPinsBeta
import Statrs.Props.C02.SfWitness
namespace Statrs.Props.C11
open Statrs Statrs.Gen Statrs.Spec.FunctionBranches Statrs.Props.C11.BranchPins
open Statrs.Props.C03.Witness
set_option linter.unusedSectionVars false

/-! ## 1. the Lentz core, separated from the output plumbing (every carrier) -/

section generic
variable {α : Type} [Add α] [Sub α] [Mul α] [Div α] [Neg α] [LT α] [LE α] [BEq α]
  [DecidableLT α] [DecidableLE α] [OfScientific α] [Inhabited α] [RFun α]

/-- carrier-generic mirror of the loop of `checked_beta_reg` that keeps only the continued-fraction value `h`
    (no `bt`, no `symm_transform`, no `Result`) -/
def lentzLoop (l : List Int) (a b eps fpmin qab qam qap x : α) (s : α × α × α) : α :=
  match l with
  | [] => s.2.2
  | m :: l =>
    if RFun.abs ((betaRegStep fpmin a b qab qam qap x m s).2 - (1.0 : α)) ≤ eps then
      (betaRegStep fpmin a b qab qam qap x m s).1.2.2
    else lentzLoop l a b eps fpmin qab qam qap x (betaRegStep fpmin a b qab qam qap x m s).1

/-- the generated loop either returns `betaRegOut symm bt H a` early or finishes with `h = H`, for the SAME
    `H = lentzLoop …` -/
theorem beta_reg_loop1_eq_lentzLoop (l : List Int) (a b bt eps fpmin qab qam qap : α) (symm : Bool) (x d c h : α) :
    F.beta.checked_beta_reg.loop1 l a b bt eps fpmin qab qam qap symm x d c h
        = LoopR.ret (betaRegOut symm bt (lentzLoop l a b eps fpmin qab qam qap x (d, c, h)) a)
    ∨ ∃ d' c', F.beta.checked_beta_reg.loop1 l a b bt eps fpmin qab qam qap symm x d c h
        = LoopR.done (d', c', lentzLoop l a b eps fpmin qab qam qap x (d, c, h)) := by
  induction l generalizing d c h with
  | nil => right; exact ⟨d, c, rfl⟩
  | cons m l ih =>
    rw [beta_reg_loop1_cons]
    unfold lentzLoop
    split_ifs with hstop
    · left; rfl
    · exact ih _ _ _

/-- the continued-fraction value of `checked_beta_reg` on `(a, b, x)` (after the swap has been applied):
    start state `d = c⁻¹-floored 1 − (a+b)x/(a+1)`, `c = 1`, `h = d`; `eps = F64_PREC`; iterations `1..140` -/
def lentzH (a b x : α) : α :=
  lentzLoop betaRegIters a b (R.prec.F64_PREC : α) ((RFun.minPositive : α) / (R.prec.F64_PREC : α))
    (a + b) (a - (1.0 : α)) (a + (1.0 : α)) x
    ((1.0 : α) / lentzFloor ((RFun.minPositive : α) / (R.prec.F64_PREC : α)) ((1.0 : α) - (((a + b) * x) / (a + (1.0 : α)))),
     (1.0 : α),
     (1.0 : α) / lentzFloor ((RFun.minPositive : α) / (R.prec.F64_PREC : α)) ((1.0 : α) - (((a + b) * x) / (a + (1.0 : α)))))

/-- full(∀α): the continued fraction's result is `betaRegOut symm bt (lentzH a b x) a` in ALL cases
    (convergence inside 140 iterations or not), with `lentzH` independent of `symm` and `bt` -/
theorem betaRegCf_eq_out (symm : Bool) (bt a b x : α) :
    betaRegCf symm bt a b x = betaRegOut symm bt (lentzH a b x) a := by
  rcases beta_reg_loop1_eq_lentzLoop (rangeList (1 : Int) (141 : Int)) a b bt (R.prec.F64_PREC : α)
      ((RFun.minPositive : α) / (R.prec.F64_PREC : α)) (a + b) (a - (1.0 : α)) (a + (1.0 : α)) symm x
      ((1.0 : α) / lentzFloor ((RFun.minPositive : α) / (R.prec.F64_PREC : α)) ((1.0 : α) - (((a + b) * x) / (a + (1.0 : α)))))
      (1.0 : α)
      ((1.0 : α) / lentzFloor ((RFun.minPositive : α) / (R.prec.F64_PREC : α)) ((1.0 : α) - (((a + b) * x) / (a + (1.0 : α)))))
    with h | ⟨d', c', h⟩
  · exact betaRegCf_converged symm bt a b x _ h
  · exact betaRegCf_exhausted symm bt a b x d' c' _ h

/-- full(∀α): below the switch `checked_beta_reg a b x = Ok(bt·H(a,b,x)/a)` -/
theorem checked_beta_reg_noswap_value (a b x : α) (ha : ¬ a ≤ (0.0 : α)) (hb : ¬ b ≤ (0.0 : α))
    (hx : ¬ ¬ (((0.0 : α) ≤ x) ∧ (x ≤ (1.0 : α)))) (hs : ¬ (((a + (1.0 : α)) / ((a + b) + (2.0 : α))) ≤ x)) :
    F.beta.checked_beta_reg a b x = .ok ((betaRegFront a b x * lentzH a b x) / a) := by
  rw [checked_beta_reg_noswap a b x ha hb hx hs, betaRegCf_eq_out]; rfl

/-- full(∀α): at/above the switch `checked_beta_reg a b x = Ok(1 − bt(a,b,x)·H(b,a,1−x)/b)` — the prefactor of
    the ORIGINAL arguments, the continued fraction and the divisor of the SWAPPED ones -/
theorem checked_beta_reg_swap_value (a b x : α) (ha : ¬ a ≤ (0.0 : α)) (hb : ¬ b ≤ (0.0 : α))
    (hx : ¬ ¬ (((0.0 : α) ≤ x) ∧ (x ≤ (1.0 : α)))) (hs : (((a + (1.0 : α)) / ((a + b) + (2.0 : α))) ≤ x)) :
    F.beta.checked_beta_reg a b x
      = .ok ((1.0 : α) - ((betaRegFront a b x * lentzH b a ((1.0 : α) - x)) / b)) := by
  rw [checked_beta_reg_swap a b x ha hb hx hs, betaRegCf_eq_out]; rfl
end generic

/-! ## 2. over ℝ: reduction identities -/

/-- the un-switched evaluation: prefactor × Lentz continued fraction / a -/
noncomputable def betaRegCore (a b x : ℝ) : ℝ := betaRegFront a b x * lentzH a b x / a

/-- full(ℝ): the prefactor is symmetric under `(a, b, x) ↦ (b, a, 1 − x)` — which is why the code may reuse
    it after the swap (including the exact zeros at both ends) -/
theorem betaRegFront_symm (a b x : ℝ) : betaRegFront a b x = betaRegFront b a (1 - x) := by
  simp only [betaRegFront, firstMatch]
  by_cases h0 : x = 0
  · subst h0; simp; norm_num
  by_cases h1 : x = 1
  · subst h1; simp; norm_num
  have c1 : ¬ (((x == (0.0 : ℝ)) = true) ∨ ((RFun.ulpsEq x (1.0 : ℝ)) = true)) := by
    simp only [real_beq, rfun_ulpsEq, decide_eq_true_eq]; norm_num; exact ⟨h0, h1⟩
  have c2 : ¬ ((((1 - x) == (0.0 : ℝ)) = true) ∨ ((RFun.ulpsEq (1 - x) (1.0 : ℝ)) = true)) := by
    simp only [real_beq, rfun_ulpsEq, decide_eq_true_eq]; norm_num
    exact ⟨fun h => h1 (by linarith), h0⟩
  simp only [c1, c2, if_false]
  have e : (1.0 : ℝ) - (1 - x) = x := by norm_num
  rw [e, add_comm b a]
  congr 1
  have e2 : (1.0 : ℝ) - x = 1 - x := by norm_num
  rw [e2]
  ring

private theorem guards_real {a b x : ℝ} (ha : 0 < a) (hb : 0 < b) (hx0 : 0 ≤ x) (hx1 : x ≤ 1) :
    ¬ a ≤ (0.0 : ℝ) ∧ ¬ b ≤ (0.0 : ℝ) ∧ ¬ ¬ (((0.0 : ℝ) ≤ x) ∧ (x ≤ (1.0 : ℝ))) := by
  refine ⟨by norm_num; exact ha, by norm_num; exact hb, ?_⟩
  norm_num; exact ⟨hx0, hx1⟩

/-- full(ℝ): below the switch point `beta_reg a b x = core a b x` -/
theorem beta_reg_noswap_transfer (a b x : ℝ) (ha : 0 < a) (hb : 0 < b) (hx0 : 0 ≤ x) (hx1 : x ≤ 1)
    (hs : x < (a + 1) / (a + b + 2)) : F.beta.beta_reg a b x = betaRegCore a b x := by
  obtain ⟨g1, g2, g3⟩ := guards_real ha hb hx0 hx1
  have g4 : ¬ (((a + (1.0 : ℝ)) / ((a + b) + (2.0 : ℝ))) ≤ x) := by norm_num; exact hs
  unfold F.beta.beta_reg
  rw [checked_beta_reg_noswap_value a b x g1 g2 g3 g4]; rfl

/-- full(ℝ): at/above the switch point `beta_reg a b x = 1 − core b a (1 − x)` -/
theorem beta_reg_swap_transfer (a b x : ℝ) (ha : 0 < a) (hb : 0 < b) (hx0 : 0 ≤ x) (hx1 : x ≤ 1)
    (hs : (a + 1) / (a + b + 2) ≤ x) : F.beta.beta_reg a b x = 1 - betaRegCore b a (1 - x) := by
  obtain ⟨g1, g2, g3⟩ := guards_real ha hb hx0 hx1
  have g4 : (((a + (1.0 : ℝ)) / ((a + b) + (2.0 : ℝ))) ≤ x) := by norm_num; exact hs
  unfold F.beta.beta_reg
  rw [checked_beta_reg_swap_value a b x g1 g2 g3 g4]
  unfold betaRegCore
  rw [← betaRegFront_symm a b x]
  simp only [unwrapE]
  norm_num

/-- the switch point of `(b, a)` is the mirror image of the switch point of `(a, b)` -/
theorem switch_mirror (a b : ℝ) (ha : 0 < a) (hb : 0 < b) :
    (b + 1) / (b + a + 2) = 1 - (a + 1) / (a + b + 2) := by
  have : a + b + 2 ≠ 0 := by positivity
  have : b + a + 2 ≠ 0 := by positivity
  field_simp; ring

/-- full(ℝ): SYMMETRY TRANSFER.  Strictly above the switch point the code satisfies the reflection identity
    of `I_x` exactly: `beta_reg a b x = 1 − beta_reg b a (1 − x)`.  (AT the switch point both calls take the
    swapped branch and the identity is not a structural fact.) -/
theorem beta_reg_symm_transfer (a b x : ℝ) (ha : 0 < a) (hb : 0 < b) (hx1 : x ≤ 1)
    (hs : (a + 1) / (a + b + 2) < x) : F.beta.beta_reg a b x = 1 - F.beta.beta_reg b a (1 - x) := by
  have hx0 : 0 ≤ x := le_trans (by positivity) hs.le
  rw [beta_reg_swap_transfer a b x ha hb hx0 hx1 hs.le,
    beta_reg_noswap_transfer b a (1 - x) hb ha (by linarith) (by linarith)
      (by rw [switch_mirror a b ha hb]; linarith)]

/-- full(ℝ): and by the same token strictly below it -/
theorem beta_reg_symm_transfer' (a b x : ℝ) (ha : 0 < a) (hb : 0 < b) (hx0 : 0 ≤ x)
    (hs : x < (a + 1) / (a + b + 2)) : F.beta.beta_reg a b x = 1 - F.beta.beta_reg b a (1 - x) := by
  have hlt : (a + 1) / (a + b + 2) < 1 := by
    rw [div_lt_one (by positivity)]; linarith
  have h := beta_reg_symm_transfer b a (1 - x) hb ha (by linarith)
    (by rw [switch_mirror a b ha hb]; linarith)
  rw [sub_sub_cancel] at h
  linarith

/-- full(ℝ): boundary value `I_0(a,b) = 0` -/
theorem beta_reg_zero (a b : ℝ) (ha : 0 < a) (hb : 0 < b) : F.beta.beta_reg a b 0 = 0 := by
  rw [beta_reg_noswap_transfer a b 0 ha hb le_rfl zero_le_one (by positivity)]
  unfold betaRegCore
  have : betaRegFront a b (0 : ℝ) = 0 := by
    simp [betaRegFront, firstMatch]; norm_num
  rw [this]; simp

/-- full(ℝ): boundary value `I_1(a,b) = 1` -/
theorem beta_reg_one (a b : ℝ) (ha : 0 < a) (hb : 0 < b) : F.beta.beta_reg a b 1 = 1 := by
  have hs : (a + 1) / (a + b + 2) ≤ 1 := by
    rw [div_le_one (by positivity)]; linarith
  rw [beta_reg_swap_transfer a b 1 ha hb zero_le_one le_rfl hs]
  unfold betaRegCore
  have : betaRegFront b a ((1 : ℝ) - 1) = 0 := by
    simp [betaRegFront, firstMatch]; norm_num
  rw [this]; simp

/-! ## 3. against the true regularised incomplete beta function -/

/-- full(ℝ): ERROR TRANSFER for `beta_reg` against the true `I_x(a,b)` (`betaRegR`, Mathlib integral):
    below the switch the error is the error of `core` at `(a, b, x)`; at/above it, it is the NEGATED error of
    `core` at the reflected argument `(b, a, 1 − x)` (true reflection `I_{1−x}(b,a) = 1 − I_x(a,b)`) -/
theorem beta_reg_error_transfer (a b x : ℝ) (ha : 0 < a) (hb : 0 < b) (hx0 : 0 ≤ x) (hx1 : x ≤ 1) :
    F.beta.beta_reg a b x - betaRegR a b x =
      if (a + 1) / (a + b + 2) ≤ x then -(betaRegCore b a (1 - x) - betaRegR b a (1 - x))
      else betaRegCore a b x - betaRegR a b x := by
  split_ifs with hs
  · rw [beta_reg_swap_transfer a b x ha hb hx0 hx1 hs, Statrs.Props.C02.betaRegR_symm ha hb hx0 hx1]
    ring
  · rw [beta_reg_noswap_transfer a b x ha hb hx0 hx1 (not_le.mp hs)]

/-- full(ℝ): the reduced argument always lies at or below its own switch point (where the continued fraction
    converges fast): in the swapped case `1 − x ≤ (b+1)/(b+a+2)` -/
theorem beta_reg_reduced_arg (a b x : ℝ) (ha : 0 < a) (hb : 0 < b) (hs : (a + 1) / (a + b + 2) ≤ x) :
    1 - x ≤ (b + 1) / (b + a + 2) := by
  rw [switch_mirror a b ha hb]; linarith

/-- full(ℝ): bound transfer.  A bound on `|core − I|` over the region `x ≤ (a+1)/(a+b+2)` (all positive
    `a`, `b`) bounds the error of `beta_reg` on the whole domain -/
theorem beta_reg_abs_error_transfer (ε : ℝ)
    (hcore : ∀ a b x : ℝ, 0 < a → 0 < b → 0 ≤ x → x ≤ (a + 1) / (a + b + 2) →
      |betaRegCore a b x - betaRegR a b x| ≤ ε)
    (a b x : ℝ) (ha : 0 < a) (hb : 0 < b) (hx0 : 0 ≤ x) (hx1 : x ≤ 1) :
    |F.beta.beta_reg a b x - betaRegR a b x| ≤ ε := by
  rw [beta_reg_error_transfer a b x ha hb hx0 hx1]
  split_ifs with hs
  · rw [abs_neg]
    exact hcore b a (1 - x) hb ha (by linarith) (beta_reg_reduced_arg a b x ha hb hs)
  · exact hcore a b x ha hb hx0 (not_le.mp hs).le

/-- rel(core exact): if `core = I` on the region where it is evaluated, `beta_reg = I_x(a,b)` everywhere -/
theorem beta_reg_transfer_rel
    (hcore : ∀ a b x : ℝ, 0 < a → 0 < b → 0 ≤ x → x ≤ (a + 1) / (a + b + 2) →
      betaRegCore a b x = betaRegR a b x)
    (a b x : ℝ) (ha : 0 < a) (hb : 0 < b) (hx0 : 0 ≤ x) (hx1 : x ≤ 1) :
    F.beta.beta_reg a b x = betaRegR a b x := by
  have := beta_reg_abs_error_transfer 0
    (fun a b x ha hb h0 h1 => by rw [hcore a b x ha hb h0 h1, sub_self, abs_zero]) a b x ha hb hx0 hx1
  have h2 := abs_nonneg (F.beta.beta_reg a b x - betaRegR a b x)
  have h3 : |F.beta.beta_reg a b x - betaRegR a b x| = 0 := le_antisymm this h2
  linarith [abs_eq_zero.mp h3]

/-! ## 4. the prefactor against the truth -/

/-- rel(`ln_gamma` exact at `a`, `b`, `a+b`): for `0 < x < 1` the prefactor is the true
    `x^a (1−x)^b · Γ(a+b)/(Γ(a)Γ(b))`, so that `core a b x = x^a (1−x)^b / (a·B(a,b)) · lentzH a b x` -/
theorem betaRegFront_true_rel (a b x : ℝ) (ha : 0 < a) (hb : 0 < b) (hx0 : 0 < x) (hx1 : x < 1)
    (hga : F.gamma.ln_gamma a = Real.log (Real.Gamma a)) (hgb : F.gamma.ln_gamma b = Real.log (Real.Gamma b))
    (hgab : F.gamma.ln_gamma (a + b) = Real.log (Real.Gamma (a + b))) :
    betaRegFront a b x = x ^ a * (1 - x) ^ b * (Real.Gamma (a + b) / (Real.Gamma a * Real.Gamma b)) := by
  simp only [betaRegFront, firstMatch]
  have c1 : ¬ (((x == (0.0 : ℝ)) = true) ∨ ((RFun.ulpsEq x (1.0 : ℝ)) = true)) := by
    simp only [real_beq, rfun_ulpsEq, decide_eq_true_eq]; norm_num; exact ⟨hx0.ne', hx1.ne⟩
  simp only [c1, if_false]
  rw [hga, hgb, hgab]
  rfun_norm
  have hGa := Real.Gamma_pos_of_pos ha
  have hGb := Real.Gamma_pos_of_pos hb
  have hGab := Real.Gamma_pos_of_pos (add_pos ha hb)
  have h1x : 0 < 1 - x := by linarith
  have e2 : (1.0 : ℝ) - x = 1 - x := by norm_num
  rw [e2, Real.exp_add, Real.exp_add, Real.exp_sub, Real.exp_sub, Real.exp_log hGa, Real.exp_log hGb,
    Real.exp_log hGab, mul_comm a, mul_comm b, Real.exp_mul, Real.exp_mul, Real.exp_log hx0, Real.exp_log h1x]
  field_simp

/-! ## non-vacuity -/

example : ∃ a b x : ℝ, 0 < a ∧ 0 < b ∧ 0 ≤ x ∧ x ≤ 1 ∧ (a + 1) / (a + b + 2) < x := ⟨1, 1, 3 / 4, by norm_num⟩
example : ∃ a b x : ℝ, 0 < a ∧ 0 < b ∧ 0 ≤ x ∧ x ≤ 1 ∧ x < (a + 1) / (a + b + 2) := ⟨1, 1, 1 / 4, by norm_num⟩

end Statrs.Props.C11
