/-
  C11 — `beta_reg` with `b = 1` (and, by the symmetry switch, `a = 1`): the continued-fraction CORE is EXACT.

  For `b = 1` the first even Lentz coefficient `m(b − m)x/…` vanishes at `m = 1`, every later `del` is exactly
  `1` over ℝ, and the loop stops at its first iteration with `h = 1/(1 − x)`.  Hence below the switch point

      beta_reg a 1 x = x^a · [exp(ln_gamma(a+1) − ln_gamma a − ln_gamma 1) / a],

  the TRUE value `I_x(a,1) = x^a` times the relative accuracy of the Lanczos-based ratio `Γ(a+1)/(a·Γ(a)·Γ(1))`:
  the whole error is transferred to `ln_gamma`.  This also shows that the "core exact" premises of
  `TransferBetaReg.lean` are satisfiable at concrete parameters (non-vacuity witness).
-/
import Statrs.Props.C11.TransferBetaReg
namespace Statrs.Props.C11
open Statrs Statrs.Gen Statrs.Spec.FunctionBranches Statrs.Props.C11.BranchPins
open Statrs.Props.C03.Witness

/-- over ℝ `fpmin = MIN_POSITIVE/eps` is the junk value `0`, so Lentz's floor never fires -/
theorem lentzFloor_real (v : ℝ) :
    lentzFloor ((RFun.minPositive : ℝ) / (R.prec.F64_PREC : ℝ)) v = v := by
  have h0 : (RFun.minPositive : ℝ) = 0 := rfl
  unfold lentzFloor
  rw [h0, zero_div, if_neg]
  rfun_norm
  exact not_lt.mpr (abs_nonneg v)

set_option maxRecDepth 100000 in
theorem betaRegIters_cons : ∃ tl : List Int, betaRegIters = 1 :: tl :=
  ⟨(List.range 139).map (fun i => (2 : Int) + (i : Int)), by decide⟩

/-- full(ℝ): for `b = 1` the Lentz continued fraction terminates at its first iteration with the exact value
    `1/(1 − x)` (`a > 0`, `x ≤ 1`) -/
theorem lentzH_b_one (a x : ℝ) (ha : 0 < a) (hx1 : x ≤ 1) : lentzH a 1 x = 1 / (1 - x) := by
  obtain ⟨tl, htl⟩ := betaRegIters_cons
  unfold lentzH
  rw [htl, lentzLoop, betaRegStep_eq]
  simp only [lentzFloor_real]
  rfun_norm
  have ha1 : a + 1 ≠ 0 := by positivity
  have ha2 : a + 2 ≠ 0 := by positivity
  have ha3 : a + 3 ≠ 0 := by positivity
  have hpos : 0 < a + 3 - (a + 1) * x := by nlinarith
  have hd0 : (1.0 : ℝ) / ((1.0 : ℝ) - (a + 1) * x / (a + (1.0 : ℝ))) = 1 / (1 - x) := by
    norm_num
    exact mul_div_cancel_left₀ x ha1
  -- the first (even) coefficient vanishes
  have haa1 : (((1 : Int) : ℝ) * ((1 : ℝ) - ((1 : Int) : ℝ))) * x
      / ((a - (1.0 : ℝ) + ((1 : Int) : ℝ) * (2.0 : ℝ)) * (a + ((1 : Int) : ℝ) * (2.0 : ℝ))) = 0 := by
    norm_num
  simp only [haa1, hd0]
  -- second (odd) coefficient: 1 + aa2 ≠ 0
  have haa2 : (-(a + ((1 : Int) : ℝ))) * (a + 1 + ((1 : Int) : ℝ)) * x
      / ((a + ((1 : Int) : ℝ) * (2.0 : ℝ)) * (a + (1.0 : ℝ) + ((1 : Int) : ℝ) * (2.0 : ℝ)))
      = -((a + 1) * x / (a + 3)) := by
    norm_num
    field_simp
    ring
  simp only [haa2]
  have hne : (1 : ℝ) + -((a + 1) * x / (a + 3)) ≠ 0 := by
    have : (1 : ℝ) + -((a + 1) * x / (a + 3)) = (a + 3 - (a + 1) * x) / (a + 3) := by field_simp; ring
    rw [this]; exact div_ne_zero hpos.ne' ha3
  have hdel : (1.0 : ℝ) / ((1.0 : ℝ) + -((a + 1) * x / (a + 3)) * ((1.0 : ℝ) / ((1.0 : ℝ) + 0 * (1 / (1 - x)))))
      * ((1.0 : ℝ) + -((a + 1) * x / (a + 3)) / ((1.0 : ℝ) + 0 / (1.0 : ℝ))) = 1 := by
    norm_num
    norm_num at hne
    rw [inv_mul_cancel₀ hne]
  rw [hdel]
  have heps : |(1 : ℝ) - (1.0 : ℝ)| ≤ (R.prec.F64_PREC : ℝ) := by
    unfold R.prec.F64_PREC; norm_num
  rw [if_pos heps]
  norm_num

/-- the Lanczos-based ratio that the prefactor uses in place of `Γ(a+1)/(a·Γ(a)·Γ(1)) = 1` -/
noncomputable def gammaRatioB1 (a : ℝ) : ℝ :=
  Real.exp (F.gamma.ln_gamma (a + 1) - F.gamma.ln_gamma a - F.gamma.ln_gamma 1) / a

/-- full(ℝ): ERROR TRANSFER, `b = 1`, below the switch point `(a+1)/(a+3)`:
    `beta_reg a 1 x = x^a · gammaRatioB1 a` — the true `I_x(a,1) = x^a` times the accuracy of the `ln_gamma`
    ratio; the continued fraction contributes no error -/
theorem beta_reg_b_one_transfer (a x : ℝ) (ha : 0 < a) (hx0 : 0 < x) (hs : x < (a + 1) / (a + 1 + 2)) :
    F.beta.beta_reg a 1 x = betaRegR a 1 x * gammaRatioB1 a := by
  have hlt : (a + 1) / (a + 1 + 2) < 1 := by rw [div_lt_one (by positivity)]; linarith
  have hx1 : x < 1 := lt_trans hs hlt
  rw [beta_reg_noswap_transfer a 1 x ha one_pos hx0.le hx1.le hs, betaRegR_b_one ha]
  unfold betaRegCore
  rw [lentzH_b_one a x ha hx1.le]
  simp only [betaRegFront, firstMatch]
  have c1 : ¬ (((x == (0.0 : ℝ)) = true) ∨ ((RFun.ulpsEq x (1.0 : ℝ)) = true)) := by
    simp only [real_beq, rfun_ulpsEq, decide_eq_true_eq]; norm_num; exact ⟨hx0.ne', hx1.ne⟩
  simp only [c1, if_false]
  rfun_norm
  unfold gammaRatioB1
  have h1x : 0 < 1 - x := by linarith
  have e2 : (1.0 : ℝ) - x = 1 - x := by norm_num
  rw [e2, one_mul, Real.exp_add, Real.exp_add, mul_comm a, Real.exp_mul, Real.exp_log hx0, Real.exp_log h1x]
  field_simp

/-- rel(`ln_gamma` exact at `a`, `a+1`, `1`): then `beta_reg a 1 x` IS the true `I_x(a,1) = x^a` -/
theorem beta_reg_b_one_rel (a x : ℝ) (ha : 0 < a) (hx0 : 0 < x) (hs : x < (a + 1) / (a + 1 + 2))
    (hga : F.gamma.ln_gamma a = Real.log (Real.Gamma a))
    (hga1 : F.gamma.ln_gamma (a + 1) = Real.log (Real.Gamma (a + 1)))
    (hg1 : F.gamma.ln_gamma 1 = Real.log (Real.Gamma 1)) :
    F.beta.beta_reg a 1 x = x ^ a := by
  rw [beta_reg_b_one_transfer a x ha hx0 hs, betaRegR_b_one ha]
  unfold gammaRatioB1
  have hG := Real.Gamma_pos_of_pos ha
  rw [hga, hga1, hg1, Real.Gamma_one, Real.log_one, sub_zero, Real.exp_sub,
    Real.exp_log (Real.Gamma_pos_of_pos (by linarith)), Real.exp_log hG, Real.Gamma_add_one ha.ne']
  field_simp

/-- full(ℝ): the mirrored case `a = 1` at/above the switch point `2/(b+3)`:
    `beta_reg 1 b x = 1 − (1−x)^b · gammaRatioB1 b` (true value `I_x(1,b) = 1 − (1−x)^b`) -/
theorem beta_reg_a_one_transfer (b x : ℝ) (hb : 0 < b) (hx1 : x < 1) (hs : (1 + 1) / (1 + b + 2) < x) :
    F.beta.beta_reg 1 b x = 1 - (1 - betaRegR 1 b x) * gammaRatioB1 b := by
  have hx0 : 0 < x := lt_trans (by positivity) hs
  rw [beta_reg_symm_transfer 1 b x one_pos hb hx1.le hs,
    beta_reg_b_one_transfer b (1 - x) hb (by linarith)
      (by have := switch_mirror 1 b one_pos hb; rw [this]; linarith),
    betaRegR_b_one hb, betaRegR_a_one hb]
  ring

example : ∃ a x : ℝ, 0 < a ∧ 0 < x ∧ x < (a + 1) / (a + 1 + 2) := ⟨1, 1 / 4, by norm_num⟩

end Statrs.Props.C11
