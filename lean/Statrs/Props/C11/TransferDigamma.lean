/-
  C11 — error-transfer theorems for `digamma` (src/function/gamma.rs:374–412, algorithm AS 103) over ℝ.

  The algorithm is an exactly-provable REDUCTION (pole / reflection / small-argument / upward recurrence)
  around two approximation CORES:
    * `digammaAsym z = ln z − 1/(2z) − 1/(12z²) + 1/(120z⁴) − 1/(252z⁶) + 1/(240z⁸) − 1/(132z¹⁰)` used at `z ≥ 12`;
    * the first-order expansion `d1 + d2·x` of `ψ(1+x)` used for `0 < x ≤ 1e-6` (after one recurrence step
      `−1/x`).
  The theorems below state, for EVERY real input off the poles, that

      digamma x − ψ(x) = (core − ψ) at the reduced argument,

  where `ψ = psi` is the true digamma function (`Γ'/Γ` of Mathlib's `Real.Gamma`, = `re ∘ Complex.digamma`).
  The recurrence and reflection identities of the true `ψ` are PROVED (Draft/Lemmas/TransferDigamma.lean),
  so nothing here is relative to a premise.  A wrong sign in the reflection term, a wrong shift count, a wrong
  cut (`12`, `1e-6`) or a swapped branch makes these theorems false.

  Quantitative follow-up: `TransferDigammaBound.lean` / `TransferDigammaSmall.lean` BOUND both core errors
  (`≤ 1/(10·y¹²)` for the asymptotic core, `≤ 1.25e-12` for the small-argument core), which makes
  `digamma_abs_error_transfer` unconditional (`digamma_accuracy`).

  Model limits over ℝ: `RFun.negInf = RFun.nan = 0`, so `x == −inf` is `x = 0` and the pole value is the junk
  `0`; the special values at the poles are pinned for every carrier in `Props/C11/BranchPinsGamma.lean`
  (`digamma_nan`, `digamma_pole`) and are not restated here.
-/
import Statrs.Lemmas.TransferDigamma
import Statrs.Real.Simp
import Statrs.Gen.F_gamma
import Statrs.Gen.F_harmonic
namespace Statrs.Props.C11
open Statrs Statrs.Gen Statrs.Lemmas.Transfer

/-! ## the two approximation cores and the shift count -/

/-- asymptotic core of AS 103 (the value the code adds to the recurrence sum once `z ≥ 12`) -/
noncomputable def digammaAsym (z : ℝ) : ℝ :=
  Real.log z - 1 / (2 * z) - 1 / (12 * z ^ 2) + 1 / (120 * z ^ 4) - 1 / (252 * z ^ 6) + 1 / (240 * z ^ 8)
    - 1 / (132 * z ^ 10)

/-- small-argument core: the code's `d1 + d2·x`, an approximation of `ψ(1 + x)` -/
noncomputable def digammaSmallCore (x : ℝ) : ℝ := -(0.57721566490153286 : ℝ) + (1.6449340668482264365 : ℝ) * x

/-- number of upward recurrence steps `z ↦ z + 1` the loop `while z < 12` performs from `z = x`:
    the least `n` with `12 ≤ x + n` -/
noncomputable def digammaShift (x : ℝ) : ℕ := ⌈12 - x⌉.toNat

theorem digammaShift_lt (x : ℝ) (k : ℕ) (hk : k < digammaShift x) : x + k < 12 := by
  unfold digammaShift at hk
  have h1 : (k : ℤ) < ⌈12 - x⌉ := by omega
  have := Int.lt_ceil.mp h1
  push_cast at this
  linarith

theorem digammaShift_ge (x : ℝ) : 12 ≤ x + digammaShift x := by
  unfold digammaShift
  have h1 : ⌈12 - x⌉ ≤ ((⌈12 - x⌉.toNat : ℕ) : ℤ) := Int.self_le_toNat _
  have h2 : (12 - x) ≤ (⌈12 - x⌉ : ℝ) := Int.le_ceil _
  have h3 : ((⌈12 - x⌉ : ℤ) : ℝ) ≤ (((⌈12 - x⌉.toNat : ℕ) : ℤ) : ℝ) := by exact_mod_cast h1
  push_cast at h3
  linarith

/-- full(ℝ): the shift count is the LEAST `n` with `12 ≤ x + n` (so `digammaShift x = 0 ↔ 12 ≤ x`, and
    `12 ≤ x + n < 13` whenever `x < 12`) -/
theorem digammaShift_spec (x : ℝ) (n : ℕ) : digammaShift x ≤ n ↔ 12 ≤ x + n := by
  constructor
  · intro h
    have := digammaShift_ge x
    have h' : (digammaShift x : ℝ) ≤ n := by exact_mod_cast h
    linarith
  · intro h
    by_contra hc
    have := digammaShift_lt x n (by omega)
    linarith

theorem digammaShift_le_twelve (x : ℝ) (hx : 0 ≤ x) : digammaShift x ≤ 12 := by
  rw [digammaShift_spec]; push_cast; linarith

/-! ## the lifted recurrence loop over ℝ -/

/-- the loop `while z < 12 { result −= 1/z; z += 1 }` performs exactly `n` steps when `z + k < 12` for `k < n`
    and `12 ≤ z + n` -/
theorem digamma_loop1_real (n : ℕ) : ∀ (fuel : ℕ) (res z : ℝ), n < fuel → (∀ k : ℕ, k < n → z + k < 12) →
    12 ≤ z + n →
    F.gamma.digamma.loop1 fuel (12.0 : ℝ) res z
      = LoopR.done (res - ∑ k ∈ Finset.range n, 1 / (z + k), z + n) := by
  induction n with
  | zero =>
    intro fuel res z hf _ h2
    obtain ⟨f, rfl⟩ : ∃ f, fuel = f + 1 := ⟨fuel - 1, by omega⟩
    rw [F.gamma.digamma.loop1]
    have : ¬ z < (12.0 : ℝ) := by norm_num; simpa using h2
    rw [if_neg this]; simp
  | succ n ih =>
    intro fuel res z hf h1 h2
    obtain ⟨f, rfl⟩ : ∃ f, fuel = f + 1 := ⟨fuel - 1, by omega⟩
    rw [F.gamma.digamma.loop1]
    have h0 : z < (12.0 : ℝ) := by
      have := h1 0 (by omega); norm_num; simpa using this
    rw [if_pos h0]
    simp only
    have e1 : z + (1.0 : ℝ) = z + 1 := by norm_num
    rw [e1, ih f (res - (1.0 : ℝ) / z) (z + 1) (by omega)
      (by intro k hk; have := h1 (k + 1) (by omega); push_cast at this; linarith)
      (by push_cast at h2; linarith)]
    rw [Finset.sum_range_succ' (fun k : ℕ => 1 / (z + (k : ℝ)))]
    congr 1
    refine Prod.ext ?_ ?_
    · simp only
      have : ∀ k : ℕ, 1 / (z + 1 + (k : ℝ)) = 1 / (z + ((k + 1 : ℕ) : ℝ)) := by
        intro k; push_cast; ring_nf
      simp only [this]
      norm_num
      ring
    · simp only; push_cast; ring

/-! ## branch by branch: the code's value -/

/-- full(ℝ): for `x > 1e-6` (any recursion fuel ≥ 1) the code returns
    `asym(x + n) − Σ_{k<n} 1/(x+k)` with the exact shift count `n = digammaShift x` -/
theorem digamma_rec_tail_transfer (m : ℕ) (x : ℝ) (hx : (1e-6 : ℝ) < x) :
    F.gamma.digamma.rec (m + 1) x
      = digammaAsym (x + digammaShift x) - ∑ k ∈ Finset.range (digammaShift x), 1 / (x + k) := by
  have hx0 : 0 < x := by norm_num at hx; linarith
  rw [F.gamma.digamma.rec]
  have c1 : ¬ (((x == (RFun.negInf : ℝ)) = true) ∨ ((RFun.isNaN x) = true)) := by
    simp [show (RFun.negInf : ℝ) = 0 from rfl, hx0.ne']
  have c2 : ¬ ((x ≤ (0.0 : ℝ)) ∧ ((RFun.ulpsEq (RFun.floor x) x) = true)) := by
    intro h; have := h.1; norm_num at this; linarith
  have c3 : ¬ x < (0.0 : ℝ) := by norm_num; exact hx0.le
  have c4 : ¬ x ≤ (1e-6 : ℝ) := not_le.mpr hx
  simp only [if_neg c1, if_neg c2, if_neg c3, if_neg c4]
  have hn := digammaShift_le_twelve x hx0.le
  rw [digamma_loop1_real (digammaShift x) loopFuel 0.0 x (by unfold loopFuel; omega)
    (digammaShift_lt x) (digammaShift_ge x)]
  simp only
  have hz := digammaShift_ge x
  have c5 : (12.0 : ℝ) ≤ x + digammaShift x := by norm_num; exact hz
  rw [if_pos c5]
  have hz0 : x + (digammaShift x : ℝ) ≠ 0 := by linarith
  generalize x + (digammaShift x : ℝ) = z at *
  generalize ∑ k ∈ Finset.range (digammaShift x), 1 / (x + (k : ℝ)) = S
  unfold digammaAsym
  rfun_norm
  norm_num
  field_simp
  ring

/-- full(ℝ): `digamma x = asym(x + n) − Σ_{k<n} 1/(x+k)` for `x > 1e-6` -/
theorem digamma_tail_transfer (x : ℝ) (hx : (1e-6 : ℝ) < x) :
    F.gamma.digamma x
      = digammaAsym (x + digammaShift x) - ∑ k ∈ Finset.range (digammaShift x), 1 / (x + k) :=
  digamma_rec_tail_transfer 15 x hx

/-- full(ℝ): `digamma x = (d1 + d2·x) − 1/x` for `0 < x ≤ 1e-6` -/
theorem digamma_small_value (x : ℝ) (h0 : 0 < x) (hx : x ≤ (1e-6 : ℝ)) :
    F.gamma.digamma x = digammaSmallCore x - 1 / x := by
  unfold F.gamma.digamma
  have : recFuel = 15 + 1 := rfl
  rw [this, F.gamma.digamma.rec]
  have c1 : ¬ (((x == (RFun.negInf : ℝ)) = true) ∨ ((RFun.isNaN x) = true)) := by
    simp [show (RFun.negInf : ℝ) = 0 from rfl, h0.ne']
  have c2 : ¬ ((x ≤ (0.0 : ℝ)) ∧ ((RFun.ulpsEq (RFun.floor x) x) = true)) := by
    intro h; have := h.1; norm_num at this; linarith
  have c3 : ¬ x < (0.0 : ℝ) := by norm_num; exact h0.le
  simp only [if_neg c1, if_neg c2, if_neg c3, if_pos hx]
  unfold digammaSmallCore
  norm_num
  ring

/-- full(ℝ): for a negative non-integer `x` the code returns `digamma(1 − x) − π·cos(πx)/sin(πx)` — the
    reflection term `π / tan(−πx)` IS `−π·cot(πx)` -/
theorem digamma_reflection_value (x : ℝ) (h0 : x < 0) (hx : ∀ n : ℤ, x ≠ n) :
    F.gamma.digamma x
      = F.gamma.digamma (1 - x) - Real.pi * Real.cos (Real.pi * x) / Real.sin (Real.pi * x) := by
  have h1 : (1e-6 : ℝ) < 1 - x := by norm_num; linarith
  rw [digamma_tail_transfer (1 - x) h1, ← digamma_rec_tail_transfer 14 (1 - x) h1]
  unfold F.gamma.digamma
  have : recFuel = 15 + 1 := rfl
  rw [this, F.gamma.digamma.rec]
  have c1 : ¬ (((x == (RFun.negInf : ℝ)) = true) ∨ ((RFun.isNaN x) = true)) := by
    simp [show (RFun.negInf : ℝ) = 0 from rfl, h0.ne]
  have c2 : ¬ ((x ≤ (0.0 : ℝ)) ∧ ((RFun.ulpsEq (RFun.floor x) x) = true)) := by
    intro h
    have h2 := h.2
    simp only [rfun_ulpsEq, rfun_floor, decide_eq_true_eq] at h2
    exact hx ⌊x⌋ h2.symm
  have c3 : x < (0.0 : ℝ) := by norm_num; exact h0
  simp only [if_neg c1, if_neg c2, if_pos c3]
  have e1 : (1.0 : ℝ) - x = 1 - x := by norm_num
  rw [e1]
  rfun_norm
  have : Real.pi / Real.tan (-Real.pi * x) = - (Real.pi * Real.cos (Real.pi * x) / Real.sin (Real.pi * x)) := by
    rw [show -Real.pi * x = -(Real.pi * x) by ring, Real.tan_neg, Real.tan_eq_sin_div_cos]
    rw [div_neg, div_div_eq_mul_div]
  rw [this]; ring

/-! ## error transfer -/

/-- full(ℝ): ERROR TRANSFER, recurrence branch.  For `x > 1e-6`
    `digamma x − ψ(x) = asym(y) − ψ(y)` at the reduced argument `y = x + digammaShift x ≥ 12` -/
theorem digamma_tail_error_transfer (x : ℝ) (hx : (1e-6 : ℝ) < x) :
    F.gamma.digamma x - psi x
      = digammaAsym (x + digammaShift x) - psi (x + digammaShift x) := by
  have hx0 : 0 < x := by norm_num at hx; linarith
  rw [digamma_tail_transfer x hx, psi_add_nat (notPole_of_pos hx0)]
  ring

/-- full(ℝ): ERROR TRANSFER, small-argument branch.  For `0 < x ≤ 1e-6`
    `digamma x − ψ(x) = (d1 + d2·x) − ψ(1 + x)`: one exact recurrence step, then the linear core -/
theorem digamma_small_error_transfer (x : ℝ) (h0 : 0 < x) (hx : x ≤ (1e-6 : ℝ)) :
    F.gamma.digamma x - psi x = digammaSmallCore x - psi (x + 1) := by
  rw [digamma_small_value x h0 hx, psi_add_one (notPole_of_pos h0)]
  ring

/-- full(ℝ): ERROR TRANSFER, reflection branch.  For a negative non-integer `x`
    `digamma x − ψ(x) = digamma(1 − x) − ψ(1 − x)` (true reflection identity
    `ψ(1−x) − ψ(x) = π·cot(πx)`, proved in `psi_one_sub`) -/
theorem digamma_reflection_error_transfer (x : ℝ) (h0 : x < 0) (hx : ∀ n : ℤ, x ≠ n) :
    F.gamma.digamma x - psi x = F.gamma.digamma (1 - x) - psi (1 - x) := by
  rw [digamma_reflection_value x h0 hx]
  have := psi_one_sub hx
  linarith

/-- the error of the approximation core at the argument the reduction hands to it (for `x > 0`) -/
noncomputable def digammaCoreError (x : ℝ) : ℝ :=
  if x ≤ (1e-6 : ℝ) then digammaSmallCore x - psi (x + 1)
  else digammaAsym (x + digammaShift x) - psi (x + digammaShift x)

/-- full(ℝ): ERROR TRANSFER for `digamma` on all of ℝ minus the poles `0, −1, −2, …`:
    the absolute error of the code equals the error of its approximation core at the reduced argument
    (`x` itself for `x > 0`, `1 − x` on the reflection side) -/
theorem digamma_transfer (x : ℝ) (hx : NotPole x) :
    F.gamma.digamma x - psi x = if x < 0 then digammaCoreError (1 - x) else digammaCoreError x := by
  have hx0 : x ≠ 0 := hx.ne_zero
  by_cases hneg : x < 0
  · rw [if_pos hneg]
    have hint : ∀ n : ℤ, x ≠ n := by
      intro n hn
      have hn0 : n < 0 := by
        have : (n : ℝ) < 0 := by rw [← hn]; exact hneg
        exact_mod_cast this
      apply hx (-n).toNat
      rw [hn]
      have : ((-n).toNat : ℤ) = -n := Int.toNat_of_nonneg (by omega)
      have h2 : (((-n).toNat : ℤ) : ℝ) = ((-n : ℤ) : ℝ) := by rw [this]
      push_cast at h2
      rw [h2]; ring
    have h1 : (1e-6 : ℝ) < 1 - x := by norm_num; linarith
    rw [digamma_reflection_error_transfer x hneg hint, digamma_tail_error_transfer (1 - x) h1]
    unfold digammaCoreError
    rw [if_neg (not_le.mpr h1)]
  · rw [if_neg hneg]
    have hpos : 0 < x := lt_of_le_of_ne (not_lt.mp hneg) (Ne.symm hx0)
    unfold digammaCoreError
    by_cases hs : x ≤ (1e-6 : ℝ)
    · rw [if_pos hs]; exact digamma_small_error_transfer x hpos hs
    · rw [if_neg hs]; exact digamma_tail_error_transfer x (not_le.mp hs)

/-- rel(core exact): if both cores were exact (`asym = ψ` on `[12, ∞)` and `d1 + d2·x = ψ(1+x)` on
    `(0, 1e-6]`) the code would compute the true digamma on all of ℝ minus the poles.
    (The premises are idealisations — the cores are approximations; the quantitative statement is
    `digamma_transfer`.) -/
theorem digamma_transfer_rel
    (hasym : ∀ y : ℝ, 12 ≤ y → digammaAsym y = psi y)
    (hsmall : ∀ x : ℝ, 0 < x → x ≤ (1e-6 : ℝ) → digammaSmallCore x = psi (x + 1))
    (x : ℝ) (hx : NotPole x) : F.gamma.digamma x = psi x := by
  have key : ∀ t : ℝ, 0 < t → digammaCoreError t = 0 := by
    intro t ht
    unfold digammaCoreError
    split_ifs with h
    · rw [hsmall t ht h]; ring
    · rw [hasym _ (digammaShift_ge t)]; ring
  have := digamma_transfer x hx
  split_ifs at this with h
  · rw [key (1 - x) (by linarith)] at this; linarith
  · have hpos : 0 < x := lt_of_le_of_ne (not_lt.mp h) (Ne.symm hx.ne_zero)
    rw [key x hpos] at this; linarith

/-- full(ℝ): uniform bound transfer.  Any bound `ε` valid for both cores on their own ranges bounds the
    error of `digamma` on all of ℝ minus the poles -/
theorem digamma_abs_error_transfer (ε : ℝ)
    (hasym : ∀ y : ℝ, 12 ≤ y → |digammaAsym y - psi y| ≤ ε)
    (hsmall : ∀ x : ℝ, 0 < x → x ≤ (1e-6 : ℝ) → |digammaSmallCore x - psi (x + 1)| ≤ ε)
    (x : ℝ) (hx : NotPole x) : |F.gamma.digamma x - psi x| ≤ ε := by
  have key : ∀ t : ℝ, 0 < t → |digammaCoreError t| ≤ ε := by
    intro t ht
    unfold digammaCoreError
    split_ifs with h
    · exact hsmall t ht h
    · exact hasym _ (digammaShift_ge t)
  rw [digamma_transfer x hx]
  split_ifs with h
  · exact key (1 - x) (by linarith)
  · exact key x (lt_of_le_of_ne (not_lt.mp h) (Ne.symm hx.ne_zero))

/-! ## non-vacuity and worked instances -/

example : NotPole (-1 / 2) := by
  intro m h
  have h2 : (m : ℝ) = 1 / 2 := by linarith
  have h3 : ((2 * m : ℕ) : ℝ) = ((1 : ℕ) : ℝ) := by push_cast; linarith
  have := Nat.cast_injective h3
  omega

/-- shift counts: `x = 1` is shifted 11 times to `12`; `x = 12` and `x = 100` not at all; `x = 0.5`
    twelve times to `12.5` -/
example : digammaShift 1 = 11 := by
  unfold digammaShift; norm_num; rfl
example : digammaShift 12 = 0 := by
  unfold digammaShift; norm_num
example : digammaShift 100 = 0 := by
  unfold digammaShift
  have : ⌈(12 : ℝ) - 100⌉ = -88 := by rw [Int.ceil_eq_iff]; norm_num
  rw [this]; rfl
example : digammaShift (1 / 2) = 12 := by
  unfold digammaShift
  have : ⌈(12 : ℝ) - 1 / 2⌉ = 12 := by rw [Int.ceil_eq_iff]; norm_num
  rw [this]; rfl

/-- worked instance: `digamma 1 − (−γ) = asym(12) − ψ(12)` — the error at `x = 1` is the error of the
    asymptotic series at `12` -/
example : F.gamma.digamma (1 : ℝ) - (-Real.eulerMascheroniConstant)
    = digammaAsym 12 - psi 12 := by
  have h := digamma_tail_error_transfer 1 (by norm_num)
  have hs : digammaShift 1 = 11 := by unfold digammaShift; norm_num; rfl
  rw [hs, psi_one] at h
  norm_num at h ⊢
  linarith

/-! ## `harmonic` (src/function/harmonic.rs:13): `H_t = γ + digamma(t + 1)` -/

/-- full(ℝ): ERROR TRANSFER for `harmonic`.  For `t ≥ 1` the code's `harmonic t` differs from the true
    harmonic number `H_t = Σ_{k=1..t} 1/k` by exactly the error of the asymptotic digamma core at
    `y = t + 1 + digammaShift (t + 1) ≥ 12` (uses `ψ(t+1) = H_t − γ`) -/
theorem harmonic_transfer (t : ℕ) (ht : 1 ≤ t) :
    F.harmonic.harmonic (α := ℝ) (t : Int) - (harmonic t : ℝ)
      = digammaAsym ((t : ℝ) + 1 + digammaShift ((t : ℝ) + 1)) - psi ((t : ℝ) + 1 + digammaShift ((t : ℝ) + 1)) := by
  unfold F.harmonic.harmonic
  split
  · rename_i h; omega
  · have hx : (1e-6 : ℝ) < (t : ℝ) + 1 := by
      have : (0 : ℝ) ≤ t := Nat.cast_nonneg t
      norm_num; linarith
    have := digamma_tail_error_transfer ((t : ℝ) + 1) hx
    rw [psi_nat_add_one] at this
    rfun_norm
    have e : ((t : Int) : ℝ) + (1.0 : ℝ) = (t : ℝ) + 1 := by norm_num
    rw [e]
    linarith

/-- full(ℝ): beyond the shift range (`t ≥ 11`) no recurrence step is taken: `harmonic t = γ + asym(t + 1)` -/
theorem harmonic_large (t : ℕ) (ht : 11 ≤ t) :
    F.harmonic.harmonic (α := ℝ) (t : Int) = Real.eulerMascheroniConstant + digammaAsym ((t : ℝ) + 1) := by
  have h12 : (12 : ℝ) ≤ (t : ℝ) + 1 := by
    have : (11 : ℝ) ≤ t := by exact_mod_cast ht
    linarith
  have hs : digammaShift ((t : ℝ) + 1) = 0 := by
    have := (digammaShift_spec ((t : ℝ) + 1) 0).mpr (by simpa using h12)
    omega
  unfold F.harmonic.harmonic
  split
  · rename_i h; omega
  · have hx : (1e-6 : ℝ) < (t : ℝ) + 1 := by norm_num; linarith
    have := digamma_tail_transfer ((t : ℝ) + 1) hx
    rw [hs] at this
    rfun_norm
    have e : ((t : Int) : ℝ) + (1.0 : ℝ) = (t : ℝ) + 1 := by norm_num
    rw [e, this]; simp

/-- counterexample (documented special case): `harmonic 0 = 1`, not the empty sum `H_0 = 0` -/
theorem harmonic_zero_counterexample : F.harmonic.harmonic (α := ℝ) 0 ≠ ((harmonic 0 : ℚ) : ℝ) := by
  unfold F.harmonic.harmonic; norm_num

end Statrs.Props.C11
