/-
  C11 — an UNCONDITIONAL accuracy theorem for `digamma` (and `harmonic`) over ℝ.

  `TransferDigamma.lean` reduces the error of `digamma x` to the error `asym(y) − ψ(y)` of the asymptotic core at
  the reduced argument `y ≥ 12`.  Here that core error is BOUNDED:

      |digammaAsym y − ψ(y)| ≤ 1 / (10·y¹²)          for every real y ≥ 12          (≤ 1.13e-14),

  (the true error is `≈ 691/(32760·y¹²)`, so the bound is within a factor 5) and therefore, in exact real arithmetic,

      |digamma x − ψ(x)| ≤ 1/(10·12¹²) < 1.13e-14     for every x > 1e-6 and every negative non-integer x,
      |harmonic t − H_t|  ≤ 1/(10·12¹²)               for every t ≥ 1.

  Method (no integral representation of ψ needed): with `e(y) = asym(y) − ψ(y)` the recurrence of the true ψ gives
  `e(y) − e(y+1) = asym(y) − asym(y+1) + 1/y`, an ELEMENTARY function; its size is `≤ (9/20)·y⁻¹³` (degree-13
  Taylor polynomial of `ln(1+t)` with Mathlib's remainder bound, plus a rational identity whose residual polynomial
  has leading coefficient `691/2730 = 12·|B₁₂|/12`); `e(y+k) → 0` because `ln y − 1/y ≤ ψ(y) ≤ ln y` (log-convexity
  of Γ); a telescoping comparison with `g(y) = 1/(10·y¹²)` finishes.
  Not covered: the interval `0 < x ≤ 1e-6` (core `d1 + d2·x`; a bound there needs `γ` and `π²/6` to 1e-15, which
  Mathlib does not provide).
-/
import Statrs.Props.C11.TransferDigamma
import Statrs.Lemmas.TransferDigammaBound
namespace Statrs.Props.C11
open Statrs Statrs.Gen Statrs.Lemmas.Transfer Filter Topology

/-! ## the one-step defect of the asymptotic series -/

/-- the Bernoulli polynomial part of the series in `r = 1/z²` -/
noncomputable def asymP (r : ℝ) : ℝ := r / 12 - r ^ 2 / 120 + r ^ 3 / 252 - r ^ 4 / 240 + r ^ 5 / 132

/-- rational part of `asym(y) − asym(y+1) + 1/y` in `t = 1/y` (`1/(y+1) = t/(1+t)`) -/
noncomputable def asymStepRat (t : ℝ) : ℝ :=
  t / 2 + (t / (1 + t)) / 2 - asymP (t ^ 2) + asymP ((t / (1 + t)) ^ 2)

/-- residual polynomial: `asymStepRat t − T₁₃(t) = −t¹³·asymResidual t/(1+t)¹⁰`; all coefficients positive,
    leading one `691/2730` -/
noncomputable def asymResidual (t : ℝ) : ℝ :=
  691 / 2730 + 5227 / 5460 * t + 1717 / 819 * t ^ 2 + 52645 / 13104 * t ^ 3 + 15299 / 2184 * t ^ 4
    + 90011 / 9360 * t ^ 5 + 2207 / 234 * t ^ 6 + 1228 / 195 * t ^ 7 + 2333 / 858 * t ^ 8 + 107 / 156 * t ^ 9
    + 1 / 13 * t ^ 10

theorem digammaAsym_step (y : ℝ) (hy : 0 < y) :
    digammaAsym y - digammaAsym (y + 1) + 1 / y = -Real.log (1 + 1 / y) + asymStepRat (1 / y) := by
  have hy1 : 0 < y + 1 := by linarith
  have hlog : Real.log (y + 1) = Real.log y + Real.log (1 + 1 / y) := by
    rw [← Real.log_mul hy.ne' (by positivity)]
    congr 1; field_simp
  have hs : 1 / y / (1 + 1 / y) = 1 / (y + 1) := by field_simp
  unfold digammaAsym asymStepRat asymP
  rw [hlog, hs]
  simp only [one_div, inv_pow, mul_inv]
  ring


theorem asymStepRat_sub_taylor (t : ℝ) (ht : 0 ≤ t) :
    asymStepRat t - logTaylor13 t = -(t ^ 13 * asymResidual t / (1 + t) ^ 10) := by
  have h1 : (1 + t) ≠ 0 := by positivity
  unfold asymStepRat asymP logTaylor13 asymResidual
  field_simp
  ring

theorem asymResidual_bounds (t : ℝ) (h0 : 0 ≤ t) (h1 : t ≤ 1 / 12) :
    0 ≤ asymResidual t ∧ asymResidual t ≤ 351 / 1000 := by
  constructor
  · unfold asymResidual; positivity
  · have p2 := pow_le_pow_left₀ h0 h1 2
    have p3 := pow_le_pow_left₀ h0 h1 3
    have p4 := pow_le_pow_left₀ h0 h1 4
    have p5 := pow_le_pow_left₀ h0 h1 5
    have p6 := pow_le_pow_left₀ h0 h1 6
    have p7 := pow_le_pow_left₀ h0 h1 7
    have p8 := pow_le_pow_left₀ h0 h1 8
    have p9 := pow_le_pow_left₀ h0 h1 9
    have p10 := pow_le_pow_left₀ h0 h1 10
    unfold asymResidual
    norm_num at p2 p3 p4 p5 p6 p7 p8 p9 p10
    linarith

/-- the one-step defect is `O(y⁻¹³)` with the explicit constant `9/20` -/
theorem digammaAsym_step_bound (y : ℝ) (hy : 12 ≤ y) :
    |digammaAsym y - digammaAsym (y + 1) + 1 / y| ≤ 9 / 20 * (1 / y) ^ 13 := by
  have hy0 : 0 < y := by linarith
  set t := 1 / y with ht
  have ht0 : 0 < t := by positivity
  have ht1 : t ≤ 1 / 12 := by
    rw [ht]; exact one_div_le_one_div_of_le (by norm_num) hy
  rw [digammaAsym_step y hy0]
  have hsplit : -Real.log (1 + t) + asymStepRat t
      = (logTaylor13 t - Real.log (1 + t)) + (asymStepRat t - logTaylor13 t) := by ring
  rw [hsplit, asymStepRat_sub_taylor t ht0.le]
  have hT := log_one_add_taylor13 ht0.le (by linarith : t < 1)
  obtain ⟨hr0, hr1⟩ := asymResidual_bounds t ht0.le ht1
  have hpow : 0 ≤ t ^ 13 := by positivity
  have hden : (1 : ℝ) ≤ (1 + t) ^ 10 := one_le_pow₀ (by linarith)
  have hR : |-(t ^ 13 * asymResidual t / (1 + t) ^ 10)| ≤ t ^ 13 * (351 / 1000) := by
    rw [abs_neg, abs_of_nonneg (by positivity)]
    calc t ^ 13 * asymResidual t / (1 + t) ^ 10 ≤ t ^ 13 * asymResidual t / 1 :=
          div_le_div_of_nonneg_left (by positivity) one_pos hden
      _ = t ^ 13 * asymResidual t := div_one _
      _ ≤ t ^ 13 * (351 / 1000) := mul_le_mul_of_nonneg_left hr1 hpow
  have hT2 : t ^ 14 / (1 - t) ≤ t ^ 13 * (1 / 11) := by
    rw [div_le_iff₀ (by linarith)]
    have : t ^ 14 = t ^ 13 * t := by ring
    rw [this, mul_assoc]
    apply mul_le_mul_of_nonneg_left _ hpow
    linarith
  calc |logTaylor13 t - Real.log (1 + t) + -(t ^ 13 * asymResidual t / (1 + t) ^ 10)|
      ≤ |logTaylor13 t - Real.log (1 + t)| + |-(t ^ 13 * asymResidual t / (1 + t) ^ 10)| := abs_add_le _ _
    _ ≤ t ^ 13 * (1 / 11) + t ^ 13 * (351 / 1000) := add_le_add (hT.trans hT2) hR
    _ ≤ 9 / 20 * t ^ 13 := by nlinarith

/-- the comparison function `g(z) = 1/(10·z¹²)` decreases by at least the one-step defect -/
theorem asym_g_step (z : ℝ) (hz : 12 ≤ z) :
    9 / 20 * (1 / z) ^ 13 ≤ 1 / 10 * (1 / z) ^ 12 - 1 / 10 * (1 / (z + 1)) ^ 12 := by
  have hz0 : 0 < z := by linarith
  set w := 1 / z with hw
  have hw0 : 0 < w := by positivity
  have hw1 : w ≤ 1 / 12 := by rw [hw]; exact one_div_le_one_div_of_le (by norm_num) hz
  have hs : 1 / (z + 1) = w / (1 + w) := by rw [hw]; field_simp
  rw [hs, show (w / (1 + w)) ^ 12 = w ^ 12 / (1 + w) ^ 12 from div_pow _ _ _]
  have hB : 1 + (12 : ℕ) * w ≤ (1 + w) ^ 12 := one_add_mul_le_pow (by linarith) 12
  have hU : (1 + w) ^ 12 ≤ 262 / 100 := by
    calc (1 + w) ^ 12 ≤ (1 + 1 / 12 : ℝ) ^ 12 := pow_le_pow_left₀ (by linarith) (by linarith) 12
      _ ≤ 262 / 100 := by norm_num
  have hpos : 0 < (1 + w) ^ 12 := by positivity
  have h12 : 0 ≤ w ^ 12 := by positivity
  rw [show (1 : ℝ) / 10 * w ^ 12 - 1 / 10 * (w ^ 12 / (1 + w) ^ 12)
      = 1 / 10 * w ^ 12 * (((1 + w) ^ 12 - 1) / (1 + w) ^ 12) by field_simp]
  have hfrac : 12 * w / (262 / 100) ≤ ((1 + w) ^ 12 - 1) / (1 + w) ^ 12 := by
    rw [div_le_div_iff₀ (by norm_num) hpos]
    push_cast at hB
    nlinarith
  calc 9 / 20 * w ^ 13 = 1 / 10 * w ^ 12 * (9 / 2 * w) := by ring
    _ ≤ 1 / 10 * w ^ 12 * (12 * w / (262 / 100)) := by
        apply mul_le_mul_of_nonneg_left _ (by positivity)
        rw [le_div_iff₀ (by norm_num)]; nlinarith
    _ ≤ 1 / 10 * w ^ 12 * (((1 + w) ^ 12 - 1) / (1 + w) ^ 12) :=
        mul_le_mul_of_nonneg_left hfrac (by positivity)

/-! ## the core error tends to 0 -/

/-- crude bound `|asym(z) − ψ(z)| ≤ 2/z` for `z ≥ 1` (from `ln z − 1/z ≤ ψ(z) ≤ ln z`) -/
theorem digammaAsym_error_crude (z : ℝ) (hz : 1 ≤ z) : |digammaAsym z - psi z| ≤ 2 / z := by
  have hz0 : 0 < z := by linarith
  have h1 := psi_le_log hz0
  have h2 := log_sub_inv_le_psi hz0
  set w := 1 / z with hw
  have hw0 : 0 < w := by positivity
  have hw1 : w ≤ 1 := by rw [hw, div_le_one hz0]; exact hz
  have hp : ∀ k : ℕ, 1 ≤ k → w ^ k ≤ w := by
    intro k hk
    calc w ^ k ≤ w ^ 1 := pow_le_pow_of_le_one hw0.le hw1 hk
      _ = w := pow_one w
  have hq : ∀ k : ℕ, 0 ≤ w ^ k := fun k => by positivity
  have hform : digammaAsym z = Real.log z - w / 2 - w ^ 2 / 12 + w ^ 4 / 120 - w ^ 6 / 252 + w ^ 8 / 240
      - w ^ 10 / 132 := by
    unfold digammaAsym
    rw [hw]
    simp only [one_div, inv_pow, mul_inv]
    ring
  have e2 : (2 : ℝ) / z = 2 * w := by rw [hw]; ring
  rw [hform, e2, abs_le]
  have := hp 2 (by norm_num); have := hp 4 (by norm_num); have := hp 6 (by norm_num)
  have := hp 8 (by norm_num); have := hp 10 (by norm_num)
  have := hq 2; have := hq 4; have := hq 6; have := hq 8; have := hq 10
  constructor <;> linarith

theorem digammaAsym_error_tendsto (y : ℝ) (hy : 1 ≤ y) :
    Tendsto (fun k : ℕ => digammaAsym (y + k) - psi (y + k)) atTop (𝓝 0) := by
  have hlim : Tendsto (fun k : ℕ => 2 / (y + (k : ℝ))) atTop (𝓝 0) :=
    tendsto_const_nhds.div_atTop (tendsto_atTop_add_const_left _ y tendsto_natCast_atTop_atTop)
  refine squeeze_zero_norm (fun k => ?_) hlim
  rw [Real.norm_eq_abs]
  exact digammaAsym_error_crude (y + k) (by have : (0 : ℝ) ≤ k := Nat.cast_nonneg k; linarith)

/-! ## the bound -/

/-- full(ℝ): ACCURACY OF THE ASYMPTOTIC CORE.  For every real `y ≥ 12`
    `|digammaAsym y − ψ(y)| ≤ 1/(10·y¹²)` (true digamma `ψ = Γ'/Γ`) -/
theorem digammaAsym_error_bound (y : ℝ) (hy : 12 ≤ y) :
    |digammaAsym y - psi y| ≤ 1 / 10 * (1 / y) ^ 12 := by
  apply abs_le_of_telescope (e := fun z => digammaAsym z - psi z) (g := fun z => 1 / 10 * (1 / z) ^ 12)
  · intro k
    have hk : (0 : ℝ) ≤ k := Nat.cast_nonneg k
    have hz : 12 ≤ y + k := by linarith
    have hz0 : 0 < y + k := by linarith
    have hcast : y + ((k + 1 : ℕ) : ℝ) = (y + k) + 1 := by push_cast; ring
    simp only [hcast]
    rw [psi_add_one (notPole_of_pos hz0)]
    have : digammaAsym (y + k) - psi (y + k) - (digammaAsym (y + k + 1) - (psi (y + k) + 1 / (y + k)))
        = digammaAsym (y + k) - digammaAsym (y + k + 1) + 1 / (y + k) := by ring
    rw [this]
    exact (digammaAsym_step_bound (y + k) hz).trans (asym_g_step (y + k) hz)
  · intro k
    have hk : (0 : ℝ) ≤ k := Nat.cast_nonneg k
    have : 0 < y + k := by linarith
    positivity
  · exact digammaAsym_error_tendsto y (by linarith)

/-- the uniform constant: `1/(10·12¹²) < 1.13e-14` -/
theorem digamma_eps_lt : (1 : ℝ) / 10 * (1 / 12) ^ 12 < 1.13e-14 := by norm_num

/-- full(ℝ): the core error is at most `1/(10·12¹²)` on all of `[12, ∞)` -/
theorem digammaAsym_error_uniform (y : ℝ) (hy : 12 ≤ y) :
    |digammaAsym y - psi y| ≤ 1 / 10 * (1 / 12) ^ 12 := by
  refine (digammaAsym_error_bound y hy).trans ?_
  have hy0 : 0 < y := by linarith
  have : 1 / y ≤ 1 / 12 := one_div_le_one_div_of_le (by norm_num) hy
  have := pow_le_pow_left₀ (by positivity) this 12
  linarith

/-- full(ℝ): ACCURACY OF `digamma`, recurrence branch: for every real `x > 1e-6`
    `|digamma x − ψ(x)| ≤ 1/(10·(x+n)¹²) ≤ 1/(10·12¹²) < 1.13e-14`, `n = digammaShift x` -/
theorem digamma_accuracy_pos (x : ℝ) (hx : (1e-6 : ℝ) < x) :
    |F.gamma.digamma x - psi x| ≤ 1 / 10 * (1 / 12) ^ 12 := by
  rw [digamma_tail_error_transfer x hx]
  exact digammaAsym_error_uniform _ (digammaShift_ge x)

/-- full(ℝ): ACCURACY OF `digamma`, reflection branch: for every negative non-integer real `x`
    `|digamma x − ψ(x)| ≤ 1/(10·12¹²) < 1.13e-14` -/
theorem digamma_accuracy_neg (x : ℝ) (h0 : x < 0) (hx : ∀ n : ℤ, x ≠ n) :
    |F.gamma.digamma x - psi x| ≤ 1 / 10 * (1 / 12) ^ 12 := by
  rw [digamma_reflection_error_transfer x h0 hx]
  exact digamma_accuracy_pos (1 - x) (by norm_num; linarith)

/-- full(ℝ): the error of `digamma` decays like `x⁻¹²`: for `x ≥ 12`, `|digamma x − ψ(x)| ≤ 1/(10·x¹²)` -/
theorem digamma_accuracy_large (x : ℝ) (hx : 12 ≤ x) :
    |F.gamma.digamma x - psi x| ≤ 1 / 10 * (1 / x) ^ 12 := by
  have h1 : (1e-6 : ℝ) < x := by norm_num; linarith
  have hs : digammaShift x = 0 := by
    have := (digammaShift_spec x 0).mpr (by simpa using hx); omega
  have := digamma_tail_error_transfer x h1
  rw [hs] at this
  simp only [Nat.cast_zero, add_zero] at this
  rw [this]
  exact digammaAsym_error_bound x hx

/-- full(ℝ): ACCURACY OF `harmonic`: for every `t ≥ 1`, `|harmonic t − H_t| ≤ 1/(10·12¹²) < 1.13e-14`
    (true harmonic number `H_t = Σ_{k=1..t} 1/k`) -/
theorem harmonic_accuracy (t : ℕ) (ht : 1 ≤ t) :
    |F.harmonic.harmonic (α := ℝ) (t : Int) - (harmonic t : ℝ)| ≤ 1 / 10 * (1 / 12) ^ 12 := by
  rw [harmonic_transfer t ht]
  exact digammaAsym_error_uniform _ (digammaShift_ge _)

end Statrs.Props.C11
