/-
  C11 — accuracy of the SMALL-ARGUMENT branch of `digamma` (`0 < x ≤ 1e-6`, value `d1 − 1/x + d2·x`) over ℝ,
  completing `TransferDigammaBound.lean` to every real non-pole argument:

      |digamma x − ψ(x)| ≤ 1.25e-12      for 0 < x ≤ 1e-6        (true error ≈ |ψ''(1)|/2·x² ≤ 1.2e-12),
      |digamma x − ψ(x)| ≤ 1.25e-12      for EVERY real x that is not a pole 0, −1, −2, …

  No value of `γ` or `π²/6` is taken from anywhere: the core error `d1 + d2·x − ψ(1+x)` is rewritten with the exact
  recurrence as `d1 + d2·x + Σ_{k=1}^{11} 1/(x+k) − asym(12+x) + e` with `|e| ≤ 1/(10·12¹²)` (the proved bound of
  the asymptotic core), and the remaining ELEMENTARY function of `x` is enclosed to second order around `x = 0`
  (`ln 12` to `5e-16`, tangent/second-order enclosures of `(z+x)^{−m}`).  By-product: the literal
  `d1 = −0.57721566490153286` is within `1.6e-14` of `ψ(1) = −γ` (Mathlib's Euler–Mascheroni constant).
-/
import Statrs.Props.C11.TransferDigammaBound
import Statrs.Lemmas.TransferDigammaSmall
namespace Statrs.Props.C11
open Statrs Statrs.Gen Statrs.Lemmas.Transfer

/-- the elementary part of the small-core error after shifting the true `ψ` from `1 + x` to `12 + x` -/
noncomputable def smallCoreElem (x : ℝ) : ℝ :=
  digammaSmallCore x
    + (1 / (1 + x) + 1 / (2 + x) + 1 / (3 + x) + 1 / (4 + x) + 1 / (5 + x) + 1 / (6 + x) + 1 / (7 + x)
        + 1 / (8 + x) + 1 / (9 + x) + 1 / (10 + x) + 1 / (11 + x))
    - digammaAsym (12 + x)

/-- exact decomposition: `d1 + d2·x − ψ(1+x) = smallCoreElem x + (asym(12+x) − ψ(12+x))` -/
theorem small_core_decomp (x : ℝ) (h0 : 0 < x) :
    digammaSmallCore x - psi (x + 1) = smallCoreElem x + (digammaAsym (12 + x) - psi (12 + x)) := by
  have hnp : NotPole (x + 1) := notPole_of_pos (by linarith)
  have h := psi_add_nat hnp 11
  simp only [Finset.sum_range_succ, Finset.sum_range_zero] at h
  push_cast at h
  have e12 : x + 1 + 11 = 12 + x := by ring
  rw [e12] at h
  unfold smallCoreElem
  rw [h]
  ring

theorem digammaAsym_form (z : ℝ) :
    digammaAsym z = Real.log z - (1 / z) ^ 1 / 2 - (1 / z) ^ 2 / 12 + (1 / z) ^ 4 / 120 - (1 / z) ^ 6 / 252
      + (1 / z) ^ 8 / 240 - (1 / z) ^ 10 / 132 := by
  unfold digammaAsym
  simp only [one_div, inv_pow, mul_inv, pow_one]
  ring


/-- the elementary part is at most `1.2386e-12` in absolute value on `(0, 1e-6]` -/
theorem smallCoreElem_bound (x : ℝ) (h0 : 0 < x) (hx : x ≤ (1e-6 : ℝ)) :
    |smallCoreElem x| ≤ 1.2386e-12 := by
  have hx' : x ≤ 1 / 1000000 := by norm_num at hx; exact hx
  have hx2 : x ^ 2 ≤ 1 / 1000000 * x := by nlinarith
  have hx2' : 0 ≤ x ^ 2 := by positivity
  -- ln(12 + x) = ln 12 + ln(1 + x/12)
  have hlog : Real.log (12 + x) = Real.log 12 + Real.log (1 + x / 12) := by
    rw [← Real.log_mul (by norm_num) (by positivity)]
    congr 1; ring
  obtain ⟨l1, l2⟩ := log_twelve_bounds
  have u0 : 0 ≤ x / 12 := by positivity
  have u1 : x / 12 ≤ 1 / 2 := by linarith
  have lg1 := log_one_add_upper u0
  have lg2 := log_one_add_lower u0 u1
  -- powers of 1/(12+x)
  have z12 : (0 : ℝ) < 12 := by norm_num
  have a1 := inv_pow_add_lower 1 z12 h0.le
  have b1 := inv_pow_add_upper 1 z12 h0.le
  have a2 := inv_pow_add_lower 2 z12 h0.le
  have b2 := inv_pow_add_upper 2 z12 h0.le
  have a4 := inv_pow_add_lower 4 z12 h0.le
  have b4 := inv_pow_add_upper 4 z12 h0.le
  have a6 := inv_pow_add_lower 6 z12 h0.le
  have b6 := inv_pow_add_upper 6 z12 h0.le
  have a8 := inv_pow_add_lower 8 z12 h0.le
  have b8 := inv_pow_add_upper 8 z12 h0.le
  have a10 := inv_pow_add_lower 10 z12 h0.le
  have b10 := inv_pow_add_upper 10 z12 h0.le
  -- the eleven recurrence terms 1/(k + x)
  have c1 := inv_pow_add_lower 1 (by norm_num : (0 : ℝ) < 1) h0.le
  have d1 := inv_pow_add_upper 1 (by norm_num : (0 : ℝ) < 1) h0.le
  have c2 := inv_pow_add_lower 1 (by norm_num : (0 : ℝ) < 2) h0.le
  have d2 := inv_pow_add_upper 1 (by norm_num : (0 : ℝ) < 2) h0.le
  have c3 := inv_pow_add_lower 1 (by norm_num : (0 : ℝ) < 3) h0.le
  have d3 := inv_pow_add_upper 1 (by norm_num : (0 : ℝ) < 3) h0.le
  have c4 := inv_pow_add_lower 1 (by norm_num : (0 : ℝ) < 4) h0.le
  have d4 := inv_pow_add_upper 1 (by norm_num : (0 : ℝ) < 4) h0.le
  have c5 := inv_pow_add_lower 1 (by norm_num : (0 : ℝ) < 5) h0.le
  have d5 := inv_pow_add_upper 1 (by norm_num : (0 : ℝ) < 5) h0.le
  have c6 := inv_pow_add_lower 1 (by norm_num : (0 : ℝ) < 6) h0.le
  have d6 := inv_pow_add_upper 1 (by norm_num : (0 : ℝ) < 6) h0.le
  have c7 := inv_pow_add_lower 1 (by norm_num : (0 : ℝ) < 7) h0.le
  have d7 := inv_pow_add_upper 1 (by norm_num : (0 : ℝ) < 7) h0.le
  have c8 := inv_pow_add_lower 1 (by norm_num : (0 : ℝ) < 8) h0.le
  have d8 := inv_pow_add_upper 1 (by norm_num : (0 : ℝ) < 8) h0.le
  have c9 := inv_pow_add_lower 1 (by norm_num : (0 : ℝ) < 9) h0.le
  have d9 := inv_pow_add_upper 1 (by norm_num : (0 : ℝ) < 9) h0.le
  have c10 := inv_pow_add_lower 1 (by norm_num : (0 : ℝ) < 10) h0.le
  have d10 := inv_pow_add_upper 1 (by norm_num : (0 : ℝ) < 10) h0.le
  have c11 := inv_pow_add_lower 1 (by norm_num : (0 : ℝ) < 11) h0.le
  have d11 := inv_pow_add_upper 1 (by norm_num : (0 : ℝ) < 11) h0.le
  unfold smallCoreElem digammaSmallCore
  rw [digammaAsym_form, hlog]
  generalize Real.log 12 = L12 at *
  generalize Real.log (1 + x / 12) = Lu at *
  generalize hw1 : (1 / (12 + x)) ^ 1 = w1 at *
  generalize hw2 : (1 / (12 + x)) ^ 2 = w2 at *
  generalize hw4 : (1 / (12 + x)) ^ 4 = w4 at *
  generalize hw6 : (1 / (12 + x)) ^ 6 = w6 at *
  generalize hw8 : (1 / (12 + x)) ^ 8 = w8 at *
  generalize hw10 : (1 / (12 + x)) ^ 10 = w10 at *
  simp only [pow_one] at c1 d1 c2 d2 c3 d3 c4 d4 c5 d5 c6 d6 c7 d7 c8 d8 c9 d9 c10 d10 c11 d11
  generalize 1 / (1 + x) = r1 at *
  generalize 1 / (2 + x) = r2 at *
  generalize 1 / (3 + x) = r3 at *
  generalize 1 / (4 + x) = r4 at *
  generalize 1 / (5 + x) = r5 at *
  generalize 1 / (6 + x) = r6 at *
  generalize 1 / (7 + x) = r7 at *
  generalize 1 / (8 + x) = r8 at *
  generalize 1 / (9 + x) = r9 at *
  generalize 1 / (10 + x) = r10 at *
  generalize 1 / (11 + x) = r11 at *
  norm_num at a1 b1 a2 b2 a4 b4 a6 b6 a8 b8 a10 b10 c1 d1 c2 d2 c3 d3 c4 d4 c5 d5 c6 d6 c7 d7 c8 d8 c9 d9
  norm_num at c10 d10 c11 d11 l1 l2 lg1 lg2 ⊢
  rw [abs_le]
  constructor <;> linarith

/-- full(ℝ): ACCURACY of the small-argument core: for `0 < x ≤ 1e-6`
    `|d1 + d2·x − ψ(1 + x)| ≤ 1.25e-12` -/
theorem digamma_small_core_bound (x : ℝ) (h0 : 0 < x) (hx : x ≤ (1e-6 : ℝ)) :
    |digammaSmallCore x - psi (x + 1)| ≤ 1.25e-12 := by
  rw [small_core_decomp x h0]
  have h1 := smallCoreElem_bound x h0 hx
  have h2 := digammaAsym_error_uniform (12 + x) (by linarith)
  have h3 := digamma_eps_lt
  calc |smallCoreElem x + (digammaAsym (12 + x) - psi (12 + x))|
      ≤ |smallCoreElem x| + |digammaAsym (12 + x) - psi (12 + x)| := abs_add_le _ _
    _ ≤ 1.2386e-12 + 1 / 10 * (1 / 12) ^ 12 := add_le_add h1 h2
    _ ≤ 1.25e-12 := by norm_num

/-- full(ℝ): ACCURACY OF `digamma`, small-argument branch: `|digamma x − ψ(x)| ≤ 1.25e-12` for `0 < x ≤ 1e-6` -/
theorem digamma_accuracy_small (x : ℝ) (h0 : 0 < x) (hx : x ≤ (1e-6 : ℝ)) :
    |F.gamma.digamma x - psi x| ≤ 1.25e-12 := by
  rw [digamma_small_error_transfer x h0 hx]
  exact digamma_small_core_bound x h0 hx

/-- full(ℝ): ACCURACY OF `digamma` ON ALL OF ℝ MINUS THE POLES: for every real `x ∉ {0, −1, −2, …}`, in exact
    real arithmetic, `|digamma x − ψ(x)| ≤ 1.25e-12` (and `≤ 1/(10·12¹²) < 1.13e-14` outside `(0, 1e-6]`,
    see `digamma_accuracy_pos/neg`), where `ψ = Γ'/Γ` is the true digamma function -/
theorem digamma_accuracy (x : ℝ) (hx : NotPole x) : |F.gamma.digamma x - psi x| ≤ 1.25e-12 := by
  have heps : (1 : ℝ) / 10 * (1 / 12) ^ 12 ≤ 1.25e-12 := by norm_num
  apply digamma_abs_error_transfer 1.25e-12 _ _ x hx
  · intro y hy; exact (digammaAsym_error_uniform y hy).trans heps
  · intro t ht0 ht1; exact digamma_small_core_bound t ht0 ht1

/-- full(ℝ): by-product — the literal `d1 = −0.57721566490153286` of the code is within `1.6e-14` of the true
    `ψ(1) = −γ`: `|γ − 0.57721566490153286| ≤ 1.6e-14` for Mathlib's `Real.eulerMascheroniConstant` -/
theorem eulerMascheroni_literal_accuracy :
    |Real.eulerMascheroniConstant - (0.57721566490153286 : ℝ)| ≤ 1.6e-14 := by
  -- ψ(1) = ψ(12) − H₁₁, ψ(12) = asym(12) − e
  have hnp : NotPole (1 : ℝ) := notPole_of_pos one_pos
  have h := psi_add_nat hnp 11
  simp only [Finset.sum_range_succ, Finset.sum_range_zero] at h
  push_cast at h
  rw [psi_one] at h
  have e12 : (1 : ℝ) + 11 = 12 := by norm_num
  rw [e12] at h
  have he := digammaAsym_error_uniform 12 le_rfl
  rw [digammaAsym_form] at he
  obtain ⟨l1, l2⟩ := log_twelve_bounds
  generalize Real.log 12 = L12 at *
  obtain ⟨he1, he2⟩ := abs_le.mp he
  norm_num at h he1 he2 l1 l2 ⊢
  rw [abs_le]
  constructor <;> linarith

end Statrs.Props.C11
