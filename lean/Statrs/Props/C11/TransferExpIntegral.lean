/-
  C11 — error-transfer theorems for the generalised exponential integral `Eₙ(x)`
  (`exponential::integral`, src/function/exponential.rs:27–84) over ℝ.

  True function: `expIntR n x = ∫_{1}^{∞} e^{−x t} / tⁿ dt` (Mathlib Bochner integral).

  What is exactly provable around the approximation cores (Lentz continued fraction for `x > 1`, power series
  for `x ≤ 1`):
    * the closed-form branch `n = 0` IS the true `E₀(x) = e^{−x}/x` (`x > 0`);
    * the closed-form branch `x = 0` IS the true `Eₙ(0) = 1/(n−1)` (`n ≥ 2`);
    * the series branch returns, whenever it returns `Some`, a PARTIAL SUM `Σ_{m ≤ k} enTerm n x m`
      (`1 ≤ k ≤ 100`) of THE series of `Eₙ`,
          enTerm n x m = (−x)^m/m! · (−ln x + ψ(n))            for m = n − 1   (ψ the TRUE digamma: the code's
                         −(−x)^m / (m! · (m − n + 1))            otherwise        `−γ + Σ_{ii<n} 1/ii` is `ψ(n)`),
      so relative to the series identity `Eₙ(x) = Σ_m enTerm n x m` (named premise, DLMF 8.19.8 — not in
      Mathlib) the error is exactly minus the tail of the series.
  FINDING (doc vs code): the doc comment says "Returns `None` if `x < 0.0`", but the code has no such guard:
  `integral(x, 0) = Some(e^{−x}/x)` for every `x`, and `integral(−1e-18, 3) = Some(0.5 + 1e-18)`
  (`…_counterexample` below; replayed on the Rust crate: `integral(-0.001, 50) = Some(0.0204…)`,
  `integral(-1.0, 0) = Some(-2.718…)`).
-/
import Statrs.Props.C11.BranchPinsMisc
import Statrs.Lemmas.FunctionLayer
import Statrs.Lemmas.TransferDigamma
namespace Statrs.Props.C11
open Statrs Statrs.Gen Statrs.Spec.FunctionBranches Statrs.Props.C11.BranchPins
open Statrs.Lemmas.Transfer Statrs.Lemmas.FunctionLayer
open MeasureTheory Set

/-- the true generalised exponential integral `Eₙ(x) = ∫₁^∞ e^{−xt}/tⁿ dt` -/
noncomputable def expIntR (n : ℕ) (x : ℝ) : ℝ := ∫ t in Ioi (1 : ℝ), Real.exp (-x * t) / t ^ n

/-! ## closed-form branches -/

/-- full(ℝ): `n = 0`, `x > 0`: the code returns the true `E₀(x)` -/
theorem expint_order_zero_transfer (x : ℝ) (hx : 0 < x) :
    F.exponential.integral x 0 = some (expIntR 0 x) := by
  rw [expint_n_zero]
  congr 1
  unfold expIntR
  simp only [pow_zero, div_one]
  rw [integral_exp_mul_Ioi (by linarith : -x < 0) 1]
  rfun_norm
  norm_num

/-- full(ℝ): `x = 0`, `n ≥ 2`: the code returns the true `Eₙ(0) = 1/(n−1)` -/
theorem expint_at_zero_transfer (n : ℕ) (hn : 2 ≤ n) :
    F.exponential.integral (0 : ℝ) (n : Int) = some (expIntR n 0) := by
  have hn0 : ¬ (n : Int) = 0 := by omega
  rw [expint_x_zero (0 : ℝ) (n : Int) hn0 (by simp; norm_num)]
  congr 1
  unfold expIntR
  have hcongr : ∫ t in Ioi (1 : ℝ), Real.exp (-0 * t) / t ^ n = ∫ t in Ioi (1 : ℝ), t ^ (-(n : ℝ)) := by
    refine setIntegral_congr_fun measurableSet_Ioi (fun t ht => ?_)
    have ht0 : (0 : ℝ) < t := lt_trans one_pos ht
    simp only [neg_zero, zero_mul, Real.exp_zero]
    rw [Real.rpow_neg ht0.le, Real.rpow_natCast, one_div]
  have hn2 : (2 : ℝ) ≤ n := by exact_mod_cast hn
  rw [hcongr, integral_Ioi_rpow_of_lt (by linarith) one_pos]
  rfun_norm
  simp only [Real.one_rpow]
  have : (n : ℝ) - 1 ≠ 0 := by linarith
  have h2 : -(n : ℝ) + 1 ≠ 0 := by linarith
  norm_num
  field_simp
  ring

/-- full(ℝ): closed form of the true `Eₙ(0)` -/
theorem expIntR_zero (n : ℕ) (hn : 2 ≤ n) : expIntR n 0 = 1 / ((n : ℝ) - 1) := by
  have h := expint_at_zero_transfer n hn
  have hn0 : ¬ (n : Int) = 0 := by omega
  rw [expint_x_zero (0 : ℝ) (n : Int) hn0 (by simp; norm_num)] at h
  have := Option.some.inj h
  rw [← this]
  rfun_norm
  norm_num

/-! ## the power-series branch -/

/-- term `m` of the series of `Eₙ(x)` (DLMF 8.19.8), with the TRUE digamma `ψ(n)` in the logarithmic term -/
noncomputable def enTerm (n : ℕ) (x : ℝ) (m : ℕ) : ℝ :=
  if m + 1 = n then (-x) ^ m / (m.factorial : ℝ) * (-Real.log x + psi n)
  else -((-x) ^ m / (m.factorial : ℝ)) / ((m : ℝ) - n + 1)

/-- the code's `ψ` accumulation `−γ + Σ_{ii=1}^{n−1} 1/ii` is the true digamma at `n` -/
theorem expIntPsi_eq_psi (n : ℕ) (hn : 1 ≤ n) : expIntPsi (α := ℝ) (n : Int) = psi n := by
  obtain ⟨p, rfl⟩ : ∃ p, n = p + 1 := ⟨n - 1, by omega⟩
  unfold expIntPsi
  rw [foldl_add_eq_sum (fun ii : Int => (1.0 : ℝ) / (RFun.ofInt ii : ℝ))]
  have hp : psi (((p + 1 : ℕ) : ℝ)) = psi ((p : ℝ) + 1) := by push_cast; rfl
  rw [hp, psi_nat_add_one]
  simp only [rangeList, List.map_map]
  have hlen : (((p + 1 : ℕ) : Int) - 1).toNat = p := by omega
  rw [hlen]
  have hsum : (List.map ((fun ii : Int => (1.0 : ℝ) / (RFun.ofInt ii : ℝ)) ∘ fun i : ℕ => (1 : Int) + (i : Int))
      (List.range p)).sum = ∑ k ∈ Finset.Icc 1 p, (1 : ℝ) / (k : ℝ) := by
    rw [← sum_map_range_eq_Icc (fun k => (1 : ℝ) / (k : ℝ))]
    congr 1
    apply List.map_congr_left
    intro i _
    simp only [Function.comp, rfun_ofInt]
    push_cast
    norm_num
    ring
  rw [hsum]
  have hh : ∀ q : ℕ, (harmonic q : ℝ) = ∑ k ∈ Finset.Icc 1 q, (1 : ℝ) / (k : ℝ) := by
    intro q
    induction q with
    | zero => simp
    | succ q ih =>
      rw [harmonic_succ, Finset.sum_Icc_succ_top (by omega)]
      push_cast
      rw [ih]
      simp
  rw [hh p]
  rfun_norm
  norm_num
  ring

/-- the code's term `expIntSeriesDel` with `factorial = (−x)^i/i!` IS `enTerm n x i` -/
theorem expIntSeriesDel_eq (n : ℕ) (hn : 1 ≤ n) (x : ℝ) (i : ℕ) :
    expIntSeriesDel (n : Int) (RFun.ofInt (n : Int) : ℝ) x ((-x) ^ i / (i.factorial : ℝ)) (i : Int) = enTerm n x i := by
  simp only [expIntSeriesDel, firstMatch]
  have hu : usub (n : Int) 1 = (n : Int) - 1 := by unfold usub; rw [if_neg (by omega)]
  rw [hu]
  unfold enTerm
  by_cases h : i + 1 = n
  · have : ¬ ((i : Int) ≠ (n : Int) - 1) := by omega
    rw [if_neg this, if_pos h, expIntPsi_eq_psi n hn]
    rfun_norm
    norm_num
  · have : (i : Int) ≠ (n : Int) - 1 := by omega
    rw [if_pos this, if_neg h]
    rfun_norm
    norm_num

/-- invariant of the series loop on a run of consecutive indices `i0, i0+1, …`: it either returns a partial sum
    `Σ_{m ≤ k} enTerm n x m` with `k` in the run, or exhausts the list -/
theorem expint_loop3_partial_sum (n : ℕ) (hn : 1 ≤ n) (x eps : ℝ) (len : ℕ) :
    ∀ (i0 : ℕ) (fact res : ℝ), 1 ≤ i0 → fact = (-x) ^ (i0 - 1) / ((i0 - 1).factorial : ℝ) →
      res = ∑ m ∈ Finset.range i0, enTerm n x m →
      (∃ k, i0 ≤ k ∧ k < i0 + len ∧
        F.exponential.integral.loop3 ((List.range len).map (fun j : ℕ => (i0 : Int) + (j : Int))) eps (n : Int)
          (RFun.ofInt (n : Int) : ℝ) x fact res = LoopR.ret (some (∑ m ∈ Finset.range (k + 1), enTerm n x m)))
      ∨ (∃ s, F.exponential.integral.loop3 ((List.range len).map (fun j : ℕ => (i0 : Int) + (j : Int))) eps (n : Int)
          (RFun.ofInt (n : Int) : ℝ) x fact res = LoopR.done s) := by
  induction len with
  | zero => intro i0 fact res _ _ _; right; exact ⟨_, rfl⟩
  | succ len ih =>
    intro i0 fact res hi0 hfact hres
    rw [List.range_succ_eq_map, List.map_cons, List.map_map]
    have hlist : List.map ((fun j : ℕ => (i0 : Int) + (j : Int)) ∘ Nat.succ) (List.range len)
        = List.map (fun j : ℕ => ((i0 + 1 : ℕ) : Int) + (j : Int)) (List.range len) := by
      apply List.map_congr_left; intro j _; simp only [Function.comp]; push_cast; ring
    rw [hlist]
    simp only [Nat.cast_zero, add_zero]
    rw [expint_loop3_cons]
    have hfact' : fact * (((-(1.0 : ℝ)) * x) / (RFun.ofInt (i0 : Int) : ℝ)) = (-x) ^ i0 / (i0.factorial : ℝ) := by
      obtain ⟨p, rfl⟩ : ∃ p, i0 = p + 1 := ⟨i0 - 1, by omega⟩
      rw [hfact]
      simp only [Nat.add_sub_cancel, rfun_ofInt, Nat.factorial_succ]
      have hp : ((p + 1 : ℕ) : ℝ) ≠ 0 := by positivity
      have hf : (p.factorial : ℝ) ≠ 0 := by positivity
      push_cast
      norm_num
      field_simp
      ring
    rw [hfact', expIntSeriesDel_eq n hn x i0]
    split_ifs with hstop
    · left
      refine ⟨i0, le_rfl, by omega, ?_⟩
      rw [Finset.sum_range_succ, ← hres]
    · rcases ih (i0 + 1) ((-x) ^ i0 / (i0.factorial : ℝ)) (res + enTerm n x i0) (by omega) (by simp)
          (by rw [Finset.sum_range_succ, ← hres]) with
        ⟨k, hk1, hk2, hk⟩ | ⟨s, hs⟩
      · left; exact ⟨k, by omega, by omega, hk⟩
      · right; exact ⟨s, hs⟩

/-- full(ℝ): SERIES TRANSFER.  For `n ≥ 1`, `x ≠ 0`, `x ≤ 1`: whenever the code returns `Some r`, `r` is the
    partial sum `Σ_{m=0}^{k} enTerm n x m` of the series of `Eₙ(x)` for some `1 ≤ k ≤ 100` (first term `1/(n−1)`
    or `−ln x − γ`, logarithmic term at `m = n − 1` with the true `ψ(n)`, signs and factorials as in DLMF 8.19.8) -/
theorem expint_series_transfer (n : ℕ) (hn : 1 ≤ n) (x : ℝ) (hx0 : x ≠ 0) (hx1 : x ≤ 1) (r : ℝ)
    (h : F.exponential.integral x (n : Int) = some r) :
    ∃ k, 1 ≤ k ∧ k ≤ 100 ∧ r = ∑ m ∈ Finset.range (k + 1), enTerm n x m := by
  have hn0 : ¬ (n : Int) = 0 := by omega
  have hxz : ¬ (x == (0.0 : ℝ)) = true := by simp; norm_num; exact hx0
  have h1 : ¬ (1.0 : ℝ) < x := by norm_num; exact hx1
  have hlist : rangeList (1 : Int) ((100 : Int) + (1 : Int))
      = (List.range 100).map (fun j : ℕ => ((1 : ℕ) : Int) + (j : Int)) := by
    simp only [rangeList]; rfl
  have hres0 : (if (usub (n : Int) (1 : Int)) ≠ (0 : Int) then ((1.0 : ℝ) / ((RFun.ofInt (n : Int) : ℝ) - (1.0 : ℝ)))
        else (((-(1.0 : ℝ)) * (RFun.ln x)) - (RFun.c_EULER_MASCHERONI : ℝ)))
      = ∑ m ∈ Finset.range 1, enTerm n x m := by
    have hu : usub (n : Int) 1 = (n : Int) - 1 := by unfold usub; rw [if_neg (by omega)]
    rw [hu, Finset.sum_range_one]
    unfold enTerm
    by_cases h1n : 0 + 1 = n
    · have : ¬ ((n : Int) - 1 ≠ 0) := by omega
      rw [if_neg this, if_pos h1n, ← h1n]
      rfun_norm
      have : psi ((0 + 1 : ℕ) : ℝ) = -Real.eulerMascheroniConstant := by
        have := psi_one; simpa using this
      rw [this]
      norm_num
      ring
    · have : (n : Int) - 1 ≠ 0 := by omega
      rw [if_pos this, if_neg h1n]
      rfun_norm
      have hn2 : (2 : ℝ) ≤ n := by exact_mod_cast (by omega : 2 ≤ n)
      have hn1 : (n : ℝ) - 1 ≠ 0 := by linarith
      have hn3 : -(n : ℝ) + 1 ≠ 0 := by linarith
      norm_num
      field_simp
      ring
  rcases expint_loop3_partial_sum n hn x (0.00000000000000001 : ℝ) 100 1 (1.0 : ℝ) _ le_rfl (by norm_num) hres0
    with ⟨k, hk1, hk2, hk⟩ | ⟨s, hs⟩
  · rw [← hlist] at hk
    rw [expint_series_converged x (n : Int) _ hn0 hxz h1 hk] at h
    exact ⟨k, hk1, by omega, (Option.some.inj h).symm⟩
  · rw [← hlist] at hs
    rw [expint_series_exhausted x (n : Int) s hn0 hxz h1 hs] at h
    cases h

/-- rel(series identity `Eₙ(x) = Σ_m enTerm n x m`): ERROR TRANSFER for the series branch — the error of a
    returned value is exactly minus the tail of the series after the stopping index -/
theorem expint_series_error_rel (n : ℕ) (hn : 1 ≤ n) (x : ℝ) (hx0 : 0 < x) (hx1 : x ≤ 1) (r : ℝ)
    (hseries : HasSum (enTerm n x) (expIntR n x))
    (h : F.exponential.integral x (n : Int) = some r) :
    ∃ k, 1 ≤ k ∧ k ≤ 100 ∧ r - expIntR n x = -∑' m, enTerm n x (m + (k + 1)) := by
  obtain ⟨k, hk1, hk2, hr⟩ := expint_series_transfer n hn x hx0.ne' hx1 r h
  refine ⟨k, hk1, hk2, ?_⟩
  have := hseries.summable.sum_add_tsum_nat_add (k + 1)
  rw [hseries.tsum_eq] at this
  rw [hr]
  linarith

/-! ## doc-vs-code: negative arguments -/

/-- counterexample (doc: "Returns `None` if `x < 0.0`"): for `n = 0` the code returns `Some(e^{−x}/x)` for
    EVERY `x`, e.g. `integral(−1, 0) = Some(−e)` -/
theorem expint_negative_order_zero_counterexample :
    F.exponential.integral (-1 : ℝ) 0 = some (-Real.exp 1) := by
  rw [expint_n_zero]
  congr 1
  rfun_norm
  norm_num
  rw [div_neg, div_one]

/-- counterexample (doc: "Returns `None` if `x < 0.0`"): `integral(−1e-18, 3) = Some(1/2 + 1e-18)` — the series
    converges at its first step, before the logarithmic term (`ln x` of a negative number) is ever reached -/
theorem expint_negative_series_counterexample :
    F.exponential.integral (-(1e-18) : ℝ) 3 = some (1 / 2 + 1e-18) := by
  have hn0 : ¬ (3 : Int) = 0 := by omega
  have hxz : ¬ ((-(1e-18) : ℝ) == (0.0 : ℝ)) = true := by simp; norm_num
  have h1 : ¬ (1.0 : ℝ) < (-(1e-18) : ℝ) := by norm_num
  have hlist : rangeList (1 : Int) ((100 : Int) + (1 : Int))
      = (1 : Int) :: (List.range 99).map (fun j : ℕ => (2 : Int) + (j : Int)) := by
    simp only [rangeList]; decide
  apply expint_series_converged (-(1e-18) : ℝ) 3 _ hn0 hxz h1
  rw [hlist, expint_loop3_cons]
  have hu : usub (3 : Int) 1 = 2 := by decide
  simp only [expIntSeriesDel, firstMatch, hu]
  rfun_norm
  norm_num

end Statrs.Props.C11
