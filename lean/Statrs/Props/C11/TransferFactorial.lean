/-
  C11 — error-transfer theorems for `ln_factorial`, `ln_binomial`, `binomial` beyond the factorial table
  (src/function/factorial.rs:29–60) over ℝ.

  Inside the table (`m ≤ 170`) the values are exact (`Props/C11/Structure.lean`: `ln_factorial_eq`,
  `binomial_eq_choose`).  Beyond it `ln_factorial m = ln_gamma(m + 1)` (Lanczos core).  Here: the log-space error
  of every function is an explicit signed sum of the Lanczos core's log-space errors `lnFactErr` at the
  arguments that fall outside the table — so the true value is recovered whenever those errors vanish, and
  `binomial` (which rounds `floor(0.5 + exp(·))`) is EXACT as soon as the accumulated error moves
  `C(n,k)·exp(E)` by less than `1/2`.
-/
import Statrs.Props.C11.Structure
import Mathlib.Analysis.SpecialFunctions.Gamma.Basic
namespace Statrs.Props.C11
open Statrs Statrs.Gen

/-- log-space error of `ln_factorial` at `m`: `0` inside the table, the Lanczos core's error
    `ln_gamma(m+1) − ln Γ(m+1)` beyond it -/
noncomputable def lnFactErr (m : ℕ) : ℝ :=
  if m ≤ 170 then 0 else F.gamma.ln_gamma ((m : ℝ) + 1) - Real.log (Real.Gamma ((m : ℝ) + 1))

/-- full(ℝ): ERROR TRANSFER for `ln_factorial`, every `m`: `ln_factorial m = ln(m!) + lnFactErr m` -/
theorem ln_factorial_transfer (m : ℕ) :
    F.factorial.ln_factorial (α := ℝ) (m : Int) = Real.log (m.factorial : ℝ) + lnFactErr m := by
  unfold lnFactErr
  split_ifs with h
  · rw [ln_factorial_eq m h, add_zero]
  · rw [ln_factorial_large (m : Int) (by omega), Real.Gamma_nat_eq_factorial]
    push_cast
    ring

/-- accumulated log-space error of `ln_binomial n k` -/
noncomputable def lnBinomErr (n k : ℕ) : ℝ := lnFactErr n - lnFactErr k - lnFactErr (n - k)

/-- full(ℝ): ERROR TRANSFER for `ln_binomial`, every `k ≤ n`:
    `ln_binomial n k = ln C(n,k) + (e(n) − e(k) − e(n−k))` -/
theorem ln_binomial_transfer (n k : ℕ) (hk : k ≤ n) :
    F.factorial.ln_binomial (α := ℝ) (n : Int) (k : Int) = Real.log (Nat.choose n k : ℝ) + lnBinomErr n k := by
  rw [ln_binomial_of_le (n : Int) (k : Int) (by omega)]
  have hsub : (n : Int) - (k : Int) = ((n - k : ℕ) : Int) := by omega
  rw [hsub, ln_factorial_transfer n, ln_factorial_transfer k, ln_factorial_transfer (n - k)]
  have hn0 : (0 : ℝ) < n.factorial := by exact_mod_cast Nat.factorial_pos n
  have hk0 : (0 : ℝ) < k.factorial := by exact_mod_cast Nat.factorial_pos k
  have hnk0 : (0 : ℝ) < (n - k).factorial := by exact_mod_cast Nat.factorial_pos (n - k)
  have hc0 : (0 : ℝ) < (Nat.choose n k : ℝ) := by exact_mod_cast Nat.choose_pos hk
  have h' : (Nat.choose n k : ℝ) * k.factorial * (n - k).factorial = n.factorial := by
    exact_mod_cast Nat.choose_mul_factorial_mul_factorial hk
  have hlog : Real.log (n.factorial : ℝ)
      = Real.log (Nat.choose n k : ℝ) + Real.log (k.factorial : ℝ) + Real.log ((n - k).factorial : ℝ) := by
    rw [← h', Real.log_mul (mul_pos hc0 hk0).ne' hnk0.ne', Real.log_mul hc0.ne' hk0.ne']
  unfold lnBinomErr
  rw [hlog]; ring

/-- full(ℝ): inside the table the accumulated error vanishes -/
theorem lnBinomErr_table (n k : ℕ) (hk : k ≤ n) (hn : n ≤ 170) : lnBinomErr n k = 0 := by
  unfold lnBinomErr lnFactErr
  rw [if_pos hn, if_pos (by omega), if_pos (by omega)]; ring

/-- full(ℝ): ERROR TRANSFER for `binomial`, every `k ≤ n`:
    `binomial n k = ⌊1/2 + C(n,k)·exp(E)⌋` with `E = lnBinomErr n k` -/
theorem binomial_transfer (n k : ℕ) (hk : k ≤ n) :
    F.factorial.binomial (α := ℝ) (n : Int) (k : Int)
      = (⌊(1 / 2 : ℝ) + (Nat.choose n k : ℝ) * Real.exp (lnBinomErr n k)⌋ : ℝ) := by
  have h := ln_binomial_transfer n k hk
  rw [ln_binomial_of_le (n : Int) (k : Int) (by omega)] at h
  unfold F.factorial.binomial
  have hlt : ¬ ((n : Int) < (k : Int)) := by omega
  rw [if_neg hlt]
  have hu : usub (n : Int) (k : Int) = (n : Int) - (k : Int) := by unfold usub; rw [if_neg hlt]
  rw [hu, h]
  rfun_norm
  have hc0 : (0 : ℝ) < (Nat.choose n k : ℝ) := by exact_mod_cast Nat.choose_pos hk
  rw [Real.exp_add, Real.exp_log hc0]
  norm_num

/-- full(ℝ): `binomial n k` is EXACTLY the binomial coefficient as soon as the accumulated Lanczos error moves
    `C(n,k)·exp(E)` by less than one half: `−1/2 ≤ C(n,k)(exp E − 1) < 1/2` -/
theorem binomial_exact_of_small_error (n k : ℕ) (hk : k ≤ n)
    (hlo : -(1 / 2 : ℝ) ≤ (Nat.choose n k : ℝ) * (Real.exp (lnBinomErr n k) - 1))
    (hhi : (Nat.choose n k : ℝ) * (Real.exp (lnBinomErr n k) - 1) < 1 / 2) :
    F.factorial.binomial (α := ℝ) (n : Int) (k : Int) = (Nat.choose n k : ℝ) := by
  rw [binomial_transfer n k hk]
  have : ⌊(1 / 2 : ℝ) + (Nat.choose n k : ℝ) * Real.exp (lnBinomErr n k)⌋ = (Nat.choose n k : Int) := by
    rw [Int.floor_eq_iff]; push_cast; constructor <;> nlinarith
  rw [this]; simp

/-- rel(core exact): if `ln_gamma(m+1) = ln Γ(m+1)` at the (at most three) arguments beyond the table, then
    `binomial n k = C(n,k)` and `ln_binomial n k = ln C(n,k)` -/
theorem binomial_transfer_rel (n k : ℕ) (hk : k ≤ n)
    (hcore : ∀ m : ℕ, 170 < m → m ≤ n → F.gamma.ln_gamma ((m : ℝ) + 1) = Real.log (Real.Gamma ((m : ℝ) + 1))) :
    F.factorial.binomial (α := ℝ) (n : Int) (k : Int) = (Nat.choose n k : ℝ)
      ∧ F.factorial.ln_binomial (α := ℝ) (n : Int) (k : Int) = Real.log (Nat.choose n k : ℝ) := by
  have he : ∀ m : ℕ, m ≤ n → lnFactErr m = 0 := by
    intro m hm
    unfold lnFactErr
    split_ifs with h
    · rfl
    · rw [hcore m (by omega) hm, sub_self]
  have hE : lnBinomErr n k = 0 := by
    unfold lnBinomErr; rw [he n le_rfl, he k hk, he (n - k) (by omega)]; ring
  constructor
  · apply binomial_exact_of_small_error n k hk <;> rw [hE] <;> norm_num
  · rw [ln_binomial_transfer n k hk, hE, add_zero]

example : lnBinomErr 170 85 = 0 := lnBinomErr_table 170 85 (by norm_num) le_rfl

end Statrs.Props.C11
