/-
  C11 — error-transfer theorems for `gamma` / `ln_gamma` (src/function/gamma.rs:55–107) over ℝ.

  Both functions are a Lanczos approximation (the CORE, used for `x ≥ 0.5`) wrapped in the reflection formula
  (the REDUCTION, used for `x < 0.5`).  Proved here, for every real `x < 1/2`:

      gamma x     = π / (sin(πx) · gamma(1 − x))                       (the code's own Lanczos value at 1 − x)
      ln_gamma x  = ln π − ln|sin(πx)| − ln_gamma(1 − x)

  and, against the TRUE Γ of Mathlib (`Real.Gamma`, reflection `Real.Gamma_mul_Gamma_one_sub`):

      gamma x = Γ(x) · Γ(1−x) / gamma(1−x)        i.e.  (gamma x / Γ x) · (gamma(1−x) / Γ(1−x)) = 1,
      ln_gamma x − ln|Γ(x)| = −(ln_gamma(1−x) − ln Γ(1−x)).

  So the relative error at `x` is the reciprocal-relative error of the core at `1 − x ≥ 1/2`, and the log-space
  error is the negated log-space error of the core.  A wrong reflection (e.g. `cos`, `x` for `1−x`, a dropped
  factor of the Lanczos prefactor on one side) makes these false.

  Model remark (ℝ vs IEEE): over ℝ `RFun.ln = Real.log = log|·|`, so the `ln_gamma` theorems are about
  `ln|Γ|`.  In IEEE arithmetic `ln(sin(πx))` is NaN where `sin(πx) < 0`, i.e. on `(−1,0), (−3,−2), …` (where
  `Γ(x) < 0`): there the Rust `ln_gamma` returns NaN (replayed: `ln_gamma(-0.5) = NaN`), although `gamma(-0.5)`
  is finite.  This is invisible over ℝ.
-/
import Mathlib
import Statrs.Real.Simp
import Statrs.Gen.F_gamma
import Statrs.Gen.F_beta
namespace Statrs.Props.C11
open Statrs Statrs.Gen

/-! ## the reduction, in terms of the code's own Lanczos branch -/

/-- the Lanczos partial-fraction sum of the reflection branch at `x` IS the sum of the Lanczos branch at
    `1 − x` (`k − x = (1 − x) + k − 1`) -/
theorem lanczos_sum_reflect (x : ℝ) :
    List.foldl (fun s (t : Int × ℝ) => s + t.2 / ((RFun.ofInt t.1 : ℝ) - x))
        (listGet (F.gamma.GAMMA_DK (α := ℝ)) (0 : Int))
        (List.drop (Int.toNat (1 : Int)) (listEnum (F.gamma.GAMMA_DK (α := ℝ))))
      = List.foldl (fun s (t : Int × ℝ) => s + t.2 / (((1 - x) + (RFun.ofInt t.1 : ℝ)) - (1.0 : ℝ)))
        (listGet (F.gamma.GAMMA_DK (α := ℝ)) (0 : Int))
        (List.drop (Int.toNat (1 : Int)) (listEnum (F.gamma.GAMMA_DK (α := ℝ)))) := by
  congr 1
  funext s t
  have : (RFun.ofInt t.1 : ℝ) - x = ((1 - x) + (RFun.ofInt t.1 : ℝ)) - (1.0 : ℝ) := by
    norm_num; ring
  rw [this]

/-- full(ℝ): REFLECTION TRANSFER for `gamma`: for every real `x < 1/2`
    `gamma x = π / (sin(πx) · gamma(1 − x))`, with `gamma(1 − x)` the Lanczos branch -/
theorem gamma_reflection_transfer (x : ℝ) (hx : x < 1 / 2) :
    F.gamma.gamma x = Real.pi / (Real.sin (Real.pi * x) * F.gamma.gamma (1 - x)) := by
  have h1 : x < (0.5 : ℝ) := by norm_num; exact hx
  have h2 : ¬ (1 - x) < (0.5 : ℝ) := by norm_num; linarith
  unfold F.gamma.gamma
  rw [if_pos h1, if_neg h2]
  simp only
  rw [lanczos_sum_reflect x]
  generalize (List.foldl _ _ _ : ℝ) = s
  have e : (1 - x - (0.5 : ℝ)) = (0.5 : ℝ) - x := by norm_num; ring
  rw [e]
  rfun_norm
  generalize ((0.5 : ℝ) - x + F.gamma.GAMMA_R) / Real.exp 1 = B
  generalize (0.5 : ℝ) - x = p
  generalize B ^ p = P
  generalize (2 * √(Real.exp 1 / Real.pi)) = C
  congr 1
  ring

/-- full(ℝ): REFLECTION TRANSFER for `ln_gamma`: for every real `x < 1/2`
    `ln_gamma x = ln π − ln|sin(πx)| − ln_gamma(1 − x)` (`Real.log` is `log|·|`) -/
theorem ln_gamma_reflection_transfer (x : ℝ) (hx : x < 1 / 2) :
    F.gamma.ln_gamma x
      = Real.log Real.pi - Real.log (Real.sin (Real.pi * x)) - F.gamma.ln_gamma (1 - x) := by
  have h1 : x < (0.5 : ℝ) := by norm_num; exact hx
  have h2 : ¬ (1 - x) < (0.5 : ℝ) := by norm_num; linarith
  unfold F.gamma.ln_gamma
  rw [if_pos h1, if_neg h2]
  simp only
  rw [lanczos_sum_reflect x]
  generalize (List.foldl _ _ _ : ℝ) = s
  have e : (1 - x - (0.5 : ℝ)) = (0.5 : ℝ) - x := by norm_num; ring
  rw [e]
  rfun_norm
  generalize Real.log (((0.5 : ℝ) - x + F.gamma.GAMMA_R) / Real.exp 1) = L
  generalize (0.5 : ℝ) - x = p
  ring

/-! ## against the true Γ -/

/-- full(ℝ): ERROR TRANSFER for `gamma`, all real `x < 1/2` (poles included: both sides are the junk `0`
    there): `gamma x = Γ(x) · (Γ(1−x) / gamma(1−x))` — the code's value is the true value times the
    RECIPROCAL relative accuracy of the Lanczos core at `1 − x` -/
theorem gamma_error_transfer (x : ℝ) (hx : x < 1 / 2) :
    F.gamma.gamma x = Real.Gamma x * (Real.Gamma (1 - x) / F.gamma.gamma (1 - x)) := by
  rw [gamma_reflection_transfer x hx, ← mul_div_assoc, Real.Gamma_mul_Gamma_one_sub, div_div]

/-- full(ℝ): relative form: for a non-integer `x < 1/2` where the core does not vanish,
    `(gamma x / Γ x) · (gamma(1−x) / Γ(1−x)) = 1` -/
theorem gamma_rel_error_transfer (x : ℝ) (hx : x < 1 / 2) (hint : ∀ n : ℤ, x ≠ n)
    (hcore : F.gamma.gamma (1 - x) ≠ 0) :
    (F.gamma.gamma x / Real.Gamma x) * (F.gamma.gamma (1 - x) / Real.Gamma (1 - x)) = 1 := by
  have hG : Real.Gamma x ≠ 0 := by
    apply Real.Gamma_ne_zero; intro m hm; exact hint (-(m : ℤ)) (by push_cast; exact hm)
  have hG1 : Real.Gamma (1 - x) ≠ 0 := (Real.Gamma_pos_of_pos (by linarith)).ne'
  rw [gamma_error_transfer x hx]
  field_simp

/-- rel(core exact): if the Lanczos core equals Γ on `[1/2, ∞)` then `gamma = Γ` on ALL of ℝ (at the poles
    `0, −1, …` both are the junk value `0`: `sin(πx) = 0` makes the code divide by zero, and Mathlib's
    `Γ` is `0` there) -/
theorem gamma_transfer_rel (hcore : ∀ y : ℝ, 1 / 2 ≤ y → F.gamma.gamma y = Real.Gamma y) (x : ℝ) :
    F.gamma.gamma x = Real.Gamma x := by
  by_cases hx : x < 1 / 2
  · rw [gamma_error_transfer x hx, hcore (1 - x) (by linarith),
      div_self (Real.Gamma_pos_of_pos (by linarith)).ne', mul_one]
  · exact hcore x (not_lt.mp hx)

/-- full(ℝ): quantitative transfer: a relative accuracy `ε < 1` of the Lanczos core on `[1/2, ∞)` gives relative
    accuracy `ε / (1 − ε)` on the reflection side (every non-integer `x < 1/2`) -/
theorem gamma_rel_bound_transfer (ε : ℝ) (hε : ε < 1)
    (hcore : ∀ y : ℝ, 1 / 2 ≤ y → |F.gamma.gamma y / Real.Gamma y - 1| ≤ ε)
    (x : ℝ) (hx : x < 1 / 2) (hint : ∀ n : ℤ, x ≠ n) :
    |F.gamma.gamma x / Real.Gamma x - 1| ≤ ε / (1 - ε) := by
  have hc := hcore (1 - x) (by linarith)
  set r := F.gamma.gamma (1 - x) / Real.Gamma (1 - x) with hr
  have hrpos : 0 < r := by
    have := (abs_le.mp hc).1; linarith
  have hG1 : Real.Gamma (1 - x) ≠ 0 := (Real.Gamma_pos_of_pos (by linarith)).ne'
  have hcore0 : F.gamma.gamma (1 - x) ≠ 0 := by
    intro h0; rw [hr, h0, zero_div] at hrpos; exact lt_irrefl _ hrpos
  have hprod := gamma_rel_error_transfer x hx hint hcore0
  rw [← hr] at hprod
  have hq : F.gamma.gamma x / Real.Gamma x = 1 / r := by
    rw [eq_div_iff hrpos.ne']; exact hprod
  rw [hq]
  have h1 : 1 / r - 1 = (1 - r) / r := by field_simp
  rw [h1, abs_div, abs_of_pos hrpos, div_le_div_iff₀ hrpos (by linarith)]
  have habs : |1 - r| ≤ ε := by rw [abs_sub_comm]; exact hc
  have hrl : 1 - ε ≤ r := by have := (abs_le.mp hc).1; linarith
  have hε0 : 0 ≤ ε := le_trans (abs_nonneg _) hc
  nlinarith [abs_nonneg (1 - r)]

/-- full(ℝ): ERROR TRANSFER for `ln_gamma`: for every non-integer real `x < 1/2`
    `ln_gamma x − ln|Γ(x)| = −(ln_gamma(1−x) − ln Γ(1−x))` -/
theorem ln_gamma_error_transfer (x : ℝ) (hx : x < 1 / 2) (hint : ∀ n : ℤ, x ≠ n) :
    F.gamma.ln_gamma x - Real.log |Real.Gamma x|
      = -(F.gamma.ln_gamma (1 - x) - Real.log (Real.Gamma (1 - x))) := by
  have hG : Real.Gamma x ≠ 0 := by
    apply Real.Gamma_ne_zero; intro m hm; exact hint (-(m : ℤ)) (by push_cast; exact hm)
  have hG1 : Real.Gamma (1 - x) ≠ 0 := (Real.Gamma_pos_of_pos (by linarith)).ne'
  have hsin : Real.sin (Real.pi * x) ≠ 0 := by
    intro h0
    obtain ⟨n, hn⟩ := Real.sin_eq_zero_iff.mp h0
    apply hint n
    have : Real.pi * (n : ℝ) = Real.pi * x := by rw [← hn]; ring
    exact (mul_left_cancel₀ Real.pi_ne_zero this).symm
  have hprod := Real.Gamma_mul_Gamma_one_sub x
  have hlog : Real.log (Real.Gamma x) + Real.log (Real.Gamma (1 - x))
      = Real.log Real.pi - Real.log (Real.sin (Real.pi * x)) := by
    rw [← Real.log_mul hG hG1, hprod, Real.log_div Real.pi_ne_zero hsin]
  rw [ln_gamma_reflection_transfer x hx, Real.log_abs]
  linarith

/-- rel(core exact): if the Lanczos core of `ln_gamma` equals `ln Γ` on `[1/2, ∞)` then
    `ln_gamma = ln|Γ|` at every real that is not a pole -/
theorem ln_gamma_transfer_rel (hcore : ∀ y : ℝ, 1 / 2 ≤ y → F.gamma.ln_gamma y = Real.log (Real.Gamma y))
    (x : ℝ) (hpole : ∀ m : ℕ, x ≠ -(m : ℝ)) :
    F.gamma.ln_gamma x = Real.log |Real.Gamma x| := by
  by_cases hx : x < 1 / 2
  · have hint : ∀ n : ℤ, x ≠ n := by
      intro n hn
      by_cases hn0 : n ≤ 0
      · apply hpole (-n).toNat
        have : ((-n).toNat : ℤ) = -n := Int.toNat_of_nonneg (by omega)
        have h2 : (((-n).toNat : ℤ) : ℝ) = ((-n : ℤ) : ℝ) := by rw [this]
        push_cast at h2
        rw [hn, h2]; ring
      · have : (1 : ℝ) ≤ n := by exact_mod_cast (by omega : (1 : ℤ) ≤ n)
        rw [hn] at hx; linarith
    have := ln_gamma_error_transfer x hx hint
    rw [hcore (1 - x) (by linarith)] at this
    linarith
  · rw [hcore x (not_lt.mp hx), Real.log_abs]

/-- full(ℝ): an absolute log-space accuracy `ε` of the Lanczos core on `[1/2, ∞)` holds on all of ℝ minus
    the poles -/
theorem ln_gamma_abs_bound_transfer (ε : ℝ)
    (hcore : ∀ y : ℝ, 1 / 2 ≤ y → |F.gamma.ln_gamma y - Real.log (Real.Gamma y)| ≤ ε)
    (x : ℝ) (hint : ∀ n : ℤ, x ≠ n) :
    |F.gamma.ln_gamma x - Real.log (|Real.Gamma x|)| ≤ ε := by
  by_cases hx : x < 1 / 2
  · rw [ln_gamma_error_transfer x hx hint, abs_neg]; exact hcore (1 - x) (by linarith)
  · rw [Real.log_abs]; exact hcore x (not_lt.mp hx)

/-! ## consistency of the two functions on the reflection side -/

/-- full(ℝ): worked instance of the reduction: `gamma(−1/2) · gamma(3/2) = −π` — the code reproduces the sign
    of Γ on `(−1, 0)` exactly, whatever the Lanczos core returns at `3/2` (when that is non-zero) -/
theorem gamma_neg_half (h : F.gamma.gamma (3 / 2 : ℝ) ≠ 0) :
    F.gamma.gamma (-1 / 2 : ℝ) * F.gamma.gamma (3 / 2 : ℝ) = -Real.pi := by
  have := gamma_reflection_transfer (-1 / 2) (by norm_num)
  have e : (1 : ℝ) - -1 / 2 = 3 / 2 := by norm_num
  rw [e] at this
  have hs : Real.sin (Real.pi * (-1 / 2)) = -1 := by
    rw [show Real.pi * (-1 / 2) = -(Real.pi / 2) by ring, Real.sin_neg, Real.sin_pi_div_two]
  rw [this, hs]
  field_simp

/-! ## `ln_beta` / `beta` (src/function/beta.rs:45–98): three `ln_gamma` calls -/

/-- log-space error of `ln_gamma` at a positive argument -/
noncomputable def lnGammaErr (x : ℝ) : ℝ := F.gamma.ln_gamma x - Real.log (Real.Gamma x)

/-- full(ℝ): ERROR TRANSFER for `ln_beta`: for `a, b > 0`
    `ln_beta a b = ln B(a,b) + (e(a) + e(b) − e(a+b))`, `B(a,b) = Γ(a)Γ(b)/Γ(a+b)`, `e = lnGammaErr` -/
theorem ln_beta_transfer (a b : ℝ) (ha : 0 < a) (hb : 0 < b) :
    F.beta.ln_beta a b = Real.log (Real.Gamma a * Real.Gamma b / Real.Gamma (a + b))
      + (lnGammaErr a + lnGammaErr b - lnGammaErr (a + b)) := by
  have h1 : ¬ a ≤ (0.0 : ℝ) := by norm_num; exact ha
  have h2 : ¬ b ≤ (0.0 : ℝ) := by norm_num; exact hb
  unfold F.beta.ln_beta F.beta.checked_ln_beta
  rw [if_neg h1, if_neg h2]
  simp only [unwrapE]
  have hGa := (Real.Gamma_pos_of_pos ha).ne'
  have hGb := (Real.Gamma_pos_of_pos hb).ne'
  have hGab := (Real.Gamma_pos_of_pos (add_pos ha hb)).ne'
  rw [Real.log_div (mul_ne_zero hGa hGb) hGab, Real.log_mul hGa hGb]
  unfold lnGammaErr
  ring

/-- full(ℝ): ERROR TRANSFER for `beta`: `beta a b = B(a,b) · exp(e(a) + e(b) − e(a+b))` -/
theorem beta_transfer (a b : ℝ) (ha : 0 < a) (hb : 0 < b) :
    F.beta.beta a b = Real.Gamma a * Real.Gamma b / Real.Gamma (a + b)
      * Real.exp (lnGammaErr a + lnGammaErr b - lnGammaErr (a + b)) := by
  have h1 : ¬ a ≤ (0.0 : ℝ) := by norm_num; exact ha
  have h2 : ¬ b ≤ (0.0 : ℝ) := by norm_num; exact hb
  have h := ln_beta_transfer a b ha hb
  unfold F.beta.ln_beta F.beta.checked_ln_beta at h
  rw [if_neg h1, if_neg h2] at h
  simp only [unwrapE] at h
  unfold F.beta.beta F.beta.checked_beta F.beta.checked_ln_beta
  rw [if_neg h1, if_neg h2]
  simp only [exceptMap, unwrapE]
  rfun_norm
  rw [h, Real.exp_add, Real.exp_log]
  have hGa := Real.Gamma_pos_of_pos ha
  have hGb := Real.Gamma_pos_of_pos hb
  have hGab := Real.Gamma_pos_of_pos (add_pos ha hb)
  positivity

example : ∃ x : ℝ, x < 1 / 2 ∧ ∀ n : ℤ, x ≠ n := by
  refine ⟨-1 / 2, by norm_num, ?_⟩
  intro n hn
  have h2 : ((2 * n : ℤ) : ℝ) = ((-1 : ℤ) : ℝ) := by push_cast; linarith
  have := Int.cast_injective h2
  omega

end Statrs.Props.C11
