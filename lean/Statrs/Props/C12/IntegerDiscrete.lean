/-
  C12 — integer paths of `DiscreteUniform` (i64), `Binomial` (u64), `Geometric` (u64 argument),
  `Chi` (NonZeroU64).  Same conventions and style as `IntegerHypergeometric.lean`:
  `*_no_underflow` rewrites every `usub a b` of the function to `a - b` (∀α, also IEEE `Float`);
  overflow of `+`/`-`/`*` on machine integers is NOT modelled, so it is stated as explicit range
  theorems about the operands (`InU64`/`InI64`/`InI32`) with concrete `*_overflow_witness`es.

  Binomial     cdf/sf/pmf/ln_pmf_no_underflow — unconditional (each `n - x` sits behind `x < n`/`x ≤ n`)
               entropy: range end `n + 1` overflows exactly at `n = u64::MAX` (witness).
  Geometric    ln_pmf_no_underflow, pmf_no_underflow — for every `u64` argument (`x - 1` sits behind `x ≠ 0`).
               pmf is `(1 - p).powf((x - 1) as f64) * p`: no `i32` cast any more, so no wrap and no `i32`
               subtraction.  `geometric_pmf_no_wrap` (every `x ≥ 1`): exponent is exactly `x - 1`;
               over ℝ `geometric_pmf_real`: `pmf(x) = (1-p)^(x-1)·p` and `geometric_pmf_le_one`:
               `0 ≤ pmf(x) ≤ 1` for every `u64` argument (`geometric_pmf_large_arg_values`: the arguments
               `2³²+1`, `2³¹+2` that used to wrap now have the exponents `2³²`, `2³¹+1`).
  Chi          mode_no_underflow (`freedom - 1`, `freedom ≥ 1` by `NonZeroU64`).
  DiscreteUniform (signed, no `usub`):
               `min + max` (mean/median/mode), `max - min` (variance/entropy), `max - min + 1` (pmf/ln_pmf):
               exact overflow sets `*_overflow_iff` + witnesses (`min = 1, max = i64::MAX`; `min = -1,
               max = i64::MAX`; `min = 0, max = i64::MAX`).
-/
import Statrs.Lemmas.IntegerPaths
import Statrs.Real.Simp
import Statrs.Gen.D_discrete_uniform
import Statrs.Gen.D_binomial
import Statrs.Gen.D_geometric
import Statrs.Gen.D_chi
namespace Statrs.Props.C12
open Statrs Statrs.Gen Statrs.Lemmas.IntegerPaths

section generic
variable {α : Type} [Add α] [Sub α] [Mul α] [Div α] [Neg α] [LT α] [LE α] [BEq α]
  [DecidableLT α] [DecidableLE α] [OfScientific α] [Inhabited α] [RFun α]

/-! ### Binomial -/
section binomial
variable [SF α]

theorem binomial_cdf_no_underflow (d : Binomial α) (x : Int) :
    Binomial.cdf d x = if d.f_n ≤ x then (1.0 : α)
      else SF.beta_reg (RFun.ofInt (d.f_n - x) : α) ((RFun.ofInt x : α) + (1.0 : α)) ((1.0 : α) - d.f_p) := by
  unfold Binomial.cdf
  split_ifs with h
  · rfl
  · have e : usub d.f_n x = d.f_n - x := usub_of_le (by omega)
    simp only [e]

theorem binomial_sf_no_underflow (d : Binomial α) (x : Int) :
    Binomial.sf d x = if d.f_n ≤ x then (0.0 : α)
      else SF.beta_reg ((RFun.ofInt x : α) + (1.0 : α)) (RFun.ofInt (d.f_n - x) : α) d.f_p := by
  unfold Binomial.sf
  split_ifs with h
  · rfl
  · have e : usub d.f_n x = d.f_n - x := usub_of_le (by omega)
    simp only [e]

theorem binomial_pmf_no_underflow (d : Binomial α) (x : Int) :
    Binomial.pmf d x =
      if d.f_n < x then (0.0 : α)
      else if (d.f_p == (0.0 : α)) = true then (if x = 0 then (1.0 : α) else (0.0 : α))
      else if RFun.ulpsEq d.f_p (1.0 : α) = true then (if x = d.f_n then (1.0 : α) else (0.0 : α))
      else RFun.exp ((SF.ln_binomial d.f_n x + (RFun.ofInt x : α) * RFun.ln d.f_p)
            + (RFun.ofInt (d.f_n - x) : α) * RFun.ln ((1.0 : α) - d.f_p)) := by
  unfold Binomial.pmf
  by_cases h : d.f_n < x
  · simp only [if_pos h]
  · simp only [if_neg h, usub_of_le (not_lt.mp h)]

theorem binomial_ln_pmf_no_underflow (d : Binomial α) (x : Int) :
    Binomial.ln_pmf d x =
      if d.f_n < x then (RFun.negInf : α)
      else if (d.f_p == (0.0 : α)) = true then (if x = 0 then (0.0 : α) else (RFun.negInf : α))
      else if RFun.ulpsEq d.f_p (1.0 : α) = true then (if x = d.f_n then (0.0 : α) else (RFun.negInf : α))
      else (SF.ln_binomial d.f_n x + (RFun.ofInt x : α) * RFun.ln d.f_p)
            + (RFun.ofInt (d.f_n - x) : α) * RFun.ln ((1.0 : α) - d.f_p) := by
  unfold Binomial.ln_pmf
  by_cases h : d.f_n < x
  · simp only [if_pos h]
  · simp only [if_neg h, usub_of_le (not_lt.mp h)]

end binomial

/-- `Binomial::entropy` iterates `0..self.n + 1`: the range end is a legal `u64` iff `n < u64::MAX` -/
theorem binomial_entropy_range_end_in_range_iff (n : Int) (hn : InU64 n) : InU64 (n + 1) ↔ n < u64Max := by
  simp only [InU64, u64Max] at *
  omega

/-- witness: `Binomial::new(0.5, u64::MAX)` is accepted (no constraint on `n`) and `entropy()`
    evaluates `u64::MAX + 1` (Rust: "attempt to add with overflow") -/
theorem binomial_entropy_add_overflow_witness : InU64 u64Max ∧ ¬ InU64 (u64Max + 1) := by
  refine ⟨by decide, by decide⟩

/-! ### Geometric -/

/-- `ln_pmf`: `x - 1` never underflows for a `u64` argument -/
theorem geometric_ln_pmf_no_underflow (d : Geometric α) (x : Int) (hx : 0 ≤ x) :
    Geometric.ln_pmf d x =
      if x = 0 then (RFun.negInf : α)
      else if RFun.ulpsEq d.f_p (1.0 : α) = true ∧ x = 1 then (0.0 : α)
      else if RFun.ulpsEq d.f_p (1.0 : α) = true then (RFun.negInf : α)
      else (RFun.ofInt (x - 1) : α) * RFun.ln ((1.0 : α) - d.f_p) + RFun.ln d.f_p := by
  unfold Geometric.ln_pmf
  by_cases h : x = 0
  · simp only [if_pos h]
  · simp only [if_neg h, usub_of_le (show (1 : Int) ≤ x by omega)]

/-- `pmf`: `x - 1` never underflows for a `u64` argument (it sits behind `x ≠ 0`) -/
theorem geometric_pmf_no_underflow (d : Geometric α) (x : Int) (hx : 0 ≤ x) :
    Geometric.pmf d x =
      if x = 0 then (0.0 : α)
      else RFun.pow ((1.0 : α) - d.f_p) (RFun.ofInt (x - 1) : α) * d.f_p := by
  unfold Geometric.pmf
  by_cases h : x = 0
  · simp only [if_pos h]
  · simp only [if_neg h, usub_of_le (show (1 : Int) ≤ x by omega)]

/-- `pmf` on EVERY `x ≥ 1` (no upper bound: the exponent is `(x - 1) as f64`, there is no `i32` cast
    that could wrap and no `i32` subtraction that could overflow): the value is `(1 - p)^(x - 1) · p`
    with the exact exponent `x - 1`. -/
theorem geometric_pmf_no_wrap (d : Geometric α) (x : Int) (h1 : 1 ≤ x) :
    Geometric.pmf d x = RFun.pow ((1.0 : α) - d.f_p) (RFun.ofInt (x - 1) : α) * d.f_p := by
  rw [geometric_pmf_no_underflow d x (by omega), if_neg (by omega)]

/-- the arguments on which the old `x as i32 - 1` exponent wrapped (`2³² + 1 ↦ 0`,
    `2³¹ + 2 ↦ −(2³¹ − 1)`) now get the true exponents `2³²` and `2³¹ + 1` -/
theorem geometric_pmf_large_arg_values (d : Geometric α) :
    Geometric.pmf d 4294967297 = RFun.pow ((1.0 : α) - d.f_p) (RFun.ofInt 4294967296 : α) * d.f_p ∧
    Geometric.pmf d 2147483650 = RFun.pow ((1.0 : α) - d.f_p) (RFun.ofInt 2147483649 : α) * d.f_p :=
  ⟨geometric_pmf_no_wrap d 4294967297 (by decide), geometric_pmf_no_wrap d 2147483650 (by decide)⟩

/-- non-vacuity (Geometric argument ranges) -/
example : (0 : Int) ≤ 7 ∧ (1 : Int) ≤ 7 := by decide

/-! ### Chi -/

theorem chi_new_ok_iff (freedom : Int) (d : Chi) :
    Chi.new (α := α) freedom = .ok d ↔ freedom ≠ 0 ∧ d = { f_freedom := freedom } := by
  unfold Chi.new
  by_cases h : freedom = 0
  · simp [h]
  · simp only [if_neg h]
    constructor
    · intro e; injection e with e; exact ⟨h, e.symm⟩
    · rintro ⟨_, rfl⟩; rfl

/-- `mode`: `freedom - 1` does not underflow (`freedom : NonZeroU64`) -/
theorem chi_mode_no_underflow (d : Chi) (h0 : 0 ≤ d.f_freedom) (h : d.f_freedom ≠ 0) :
    Chi.mode (α := α) d = some (RFun.sqrt (RFun.ofInt (d.f_freedom - 1) : α)) := by
  unfold Chi.mode Chi.freedom
  rw [usub_of_le (by omega)]

/-- non-vacuity -/
example : ∃ d : Chi, 0 ≤ d.f_freedom ∧ d.f_freedom ≠ 0 := ⟨⟨3⟩, by decide⟩

/-! ### DiscreteUniform (`i64`) -/

theorem discrete_uniform_new_ok_iff (min_ max_ : Int) (d : DiscreteUniform) :
    DiscreteUniform.new (α := α) min_ max_ = .ok d ↔ min_ ≤ max_ ∧ d = { f_min := min_, f_max := max_ } := by
  unfold DiscreteUniform.new
  split_ifs with h
  · constructor
    · intro e; cases e
    · rintro ⟨h', _⟩; omega
  · constructor
    · intro e; injection e with e; exact ⟨by omega, e.symm⟩
    · rintro ⟨_, rfl⟩; rfl

/-- witness for `mean`/`median`/`mode` (`(self.min + self.max) as f64 / 2.0`): `new(1, i64::MAX)` is
    accepted, both fields are legal `i64`, but `min + max = 2⁶³` is not (Rust: "attempt to add with
    overflow").  The model, computing in unbounded `Int`, returns the mathematically right `2⁶³/2`. -/
theorem discrete_uniform_mean_overflow_witness :
    DiscreteUniform.new (α := α) 1 i64Max = .ok ⟨1, i64Max⟩ ∧ InI64 1 ∧ InI64 i64Max ∧
    ¬ InI64 ((⟨1, i64Max⟩ : DiscreteUniform).f_min + (⟨1, i64Max⟩ : DiscreteUniform).f_max) ∧
    DiscreteUniform.mean (α := α) ⟨1, i64Max⟩
      = some ((RFun.ofInt 9223372036854775808 : α) / (2.0 : α)) := by
  refine ⟨rfl, by decide, by decide, by decide, rfl⟩

/-- negative side: `new(i64::MIN, -1)`: `min + max < i64::MIN` -/
theorem discrete_uniform_mean_underflow_witness :
    DiscreteUniform.new (α := α) i64Min (-1) = .ok ⟨i64Min, -1⟩ ∧ InI64 i64Min ∧ InI64 (-1) ∧
    ¬ InI64 ((⟨i64Min, -1⟩ : DiscreteUniform).f_min + (⟨i64Min, -1⟩ : DiscreteUniform).f_max) := by
  refine ⟨rfl, by decide, by decide, by decide⟩

/-- witness for `variance`/`entropy` (`(self.max - self.min) as f64`): `new(-1, i64::MAX)` -/
theorem discrete_uniform_variance_overflow_witness :
    DiscreteUniform.new (α := α) (-1) i64Max = .ok ⟨-1, i64Max⟩ ∧ InI64 (-1) ∧ InI64 i64Max ∧
    ¬ InI64 ((⟨-1, i64Max⟩ : DiscreteUniform).f_max - (⟨-1, i64Max⟩ : DiscreteUniform).f_min) := by
  refine ⟨rfl, by decide, by decide, by decide⟩

/-- witness for `pmf`/`ln_pmf` (`(self.max - self.min + 1) as f64`): `new(0, i64::MAX)`: `max - min` is
    fine, `+ 1` overflows; the argument `x = 0` is in the support.  Model value: `1 / 2⁶³`. -/
theorem discrete_uniform_pmf_overflow_witness :
    DiscreteUniform.new (α := α) 0 i64Max = .ok ⟨0, i64Max⟩ ∧
    InI64 ((⟨0, i64Max⟩ : DiscreteUniform).f_max - (⟨0, i64Max⟩ : DiscreteUniform).f_min) ∧
    ¬ InI64 ((⟨0, i64Max⟩ : DiscreteUniform).f_max - (⟨0, i64Max⟩ : DiscreteUniform).f_min + 1) ∧
    DiscreteUniform.pmf (α := α) ⟨0, i64Max⟩ 0 = (1.0 : α) / (RFun.ofInt 9223372036854775808 : α) := by
  refine ⟨rfl, by decide, by decide, ?_⟩
  unfold DiscreteUniform.pmf
  rw [if_pos (by decide)]
  rfl

end generic

/-! ### DiscreteUniform: exact overflow sets (pure integer statements) -/

/-- `min + max` (mean, median, mode) leaves `i64` iff both bounds have the same sign and are large -/
theorem discrete_uniform_sum_overflow_iff (d : DiscreteUniform) (hmin : InI64 d.f_min) (hmax : InI64 d.f_max)
    (hle : d.f_min ≤ d.f_max) :
    ¬ InI64 (d.f_min + d.f_max) ↔
      (0 < d.f_min ∧ i64Max - d.f_min < d.f_max) ∨ (d.f_max < 0 ∧ d.f_min < i64Min - d.f_max) := by
  simp only [InI64, i64Min, i64Max] at *
  omega

/-- in particular no overflow when the interval contains `0` -/
theorem discrete_uniform_sum_in_range (d : DiscreteUniform) (hmin : InI64 d.f_min) (hmax : InI64 d.f_max)
    (h0 : d.f_min ≤ 0) (h1 : 0 ≤ d.f_max) : InI64 (d.f_min + d.f_max) := by
  simp only [InI64, i64Min, i64Max] at *
  omega

/-- `max - min` (variance, entropy) leaves `i64` iff the interval is longer than `i64::MAX` -/
theorem discrete_uniform_diff_overflow_iff (d : DiscreteUniform) (hle : d.f_min ≤ d.f_max) :
    ¬ InI64 (d.f_max - d.f_min) ↔ i64Max < d.f_max - d.f_min := by
  simp only [InI64, i64Min, i64Max] at *
  omega

/-- no overflow of `max - min` when both bounds have the same sign -/
theorem discrete_uniform_diff_in_range (d : DiscreteUniform) (hmin : InI64 d.f_min) (hmax : InI64 d.f_max)
    (hle : d.f_min ≤ d.f_max) (hs : 0 ≤ d.f_min ∨ d.f_max < 0) : InI64 (d.f_max - d.f_min) := by
  simp only [InI64, i64Min, i64Max] at *
  omega

/-- `max - min + 1` (pmf, ln_pmf): some intermediate leaves `i64` iff the interval has at least
    `2⁶³` points -/
theorem discrete_uniform_count_overflow_iff (d : DiscreteUniform) (hle : d.f_min ≤ d.f_max) :
    ¬ (InI64 (d.f_max - d.f_min) ∧ InI64 (d.f_max - d.f_min + 1)) ↔ i64Max ≤ d.f_max - d.f_min := by
  simp only [InI64, i64Min, i64Max] at *
  omega

/-- non-vacuity -/
example : ∃ d : DiscreteUniform, InI64 d.f_min ∧ InI64 d.f_max ∧ d.f_min ≤ d.f_max ∧ d.f_min ≤ 0 ∧ 0 ≤ d.f_max :=
  ⟨⟨-5, 5⟩, by decide⟩

/-! ### Geometric over ℝ: the textbook mass for every `u64` argument -/

/-- over ℝ, for every `x ≥ 1` (in particular beyond `i32::MAX`): `pmf(x) = (1 - p)^(x - 1) · p` -/
theorem geometric_pmf_real (d : Geometric ℝ) (x : Int) (h1 : 1 ≤ x) :
    Geometric.pmf d x = (1 - d.f_p) ^ (x - 1).toNat * d.f_p := by
  rw [geometric_pmf_no_wrap d x h1, rfun_pow, rfun_ofInt]
  have e : ((1.0 : ℝ) - d.f_p) = 1 - d.f_p := by norm_num
  have hc : ((x - 1 : Int) : ℝ) = (((x - 1).toNat : ℕ) : ℝ) := by
    have : ((x - 1).toNat : Int) = x - 1 := Int.toNat_of_nonneg (by omega)
    exact_mod_cast this.symm
  rw [e, hc, Real.rpow_natCast]

/-- over ℝ, under the constructor's constraint `0 < p ≤ 1`, `pmf` is a probability for EVERY `u64`
    argument (the old wrapped exponent gave `pmf(2³¹ + 2) > 1` for `p = 1/2`). -/
theorem geometric_pmf_le_one (d : Geometric ℝ) (hp0 : 0 < d.f_p) (hp1 : d.f_p ≤ 1) (x : Int) (hx : 0 ≤ x) :
    0 ≤ Geometric.pmf d x ∧ Geometric.pmf d x ≤ 1 := by
  by_cases h : x = 0
  · subst h
    have : Geometric.pmf d 0 = (0.0 : ℝ) := by unfold Geometric.pmf; rw [if_pos rfl]
    rw [this]; norm_num
  · rw [geometric_pmf_real d x (by omega)]
    have hq0 : 0 ≤ 1 - d.f_p := by linarith
    have hq1 : 1 - d.f_p ≤ 1 := by linarith
    have hpow0 : 0 ≤ (1 - d.f_p) ^ (x - 1).toNat := pow_nonneg hq0 _
    have hpow1 : (1 - d.f_p) ^ (x - 1).toNat ≤ 1 := pow_le_one₀ hq0 hq1
    constructor
    · exact mul_nonneg hpow0 hp0.le
    · calc (1 - d.f_p) ^ (x - 1).toNat * d.f_p ≤ 1 * 1 :=
            mul_le_mul hpow1 hp1 hp0.le (by norm_num)
        _ = 1 := by norm_num

/-- the former counterexample argument: `Geometric::new(0.5)`, `pmf(2³¹ + 2) = (1/2)^(2³¹+1)·(1/2) ≤ 1` -/
example : Geometric.pmf (⟨1 / 2⟩ : Geometric ℝ) 2147483650 ≤ 1 :=
  (geometric_pmf_le_one ⟨1 / 2⟩ (by norm_num) (by norm_num) 2147483650 (by norm_num)).2

end Statrs.Props.C12
