/-
  C12 — integer paths of `Hypergeometric` (src/distribution/hypergeometric.rs; all fields `u64`).

  Model reminder: `u64` is `Int`, `a - b` is `usub a b` (sentinel `panicInt` when `a < b`, Rust:
  "attempt to subtract with overflow"), `/` is `udiv` (sentinel on a zero divisor); overflow of
  `+`/`*` is NOT modelled (the model computes in unbounded `Int`).

  Uniform style: for each function one `*_no_underflow` lemma rewrites the function to the same
  expression with plain `-` / `/`, under the constructor's acceptance predicate
  (`successes ≤ population`, `draws ≤ population`; `hypergeometric_new_ok_iff`).  All ∀α (also IEEE `Float`).

    hypergeometric_new_ok_iff, hypergeometric_min_eq (saturating, never panics), max (no arithmetic),
    hypergeometric_pmf_no_underflow      — every `x` (the `x > draws` guard protects `draws - x`)
    hypergeometric_cdf_no_underflow, hypergeometric_sf_no_underflow — every `x` (the `min/max` guards bound the fold index)
    hypergeometric_ln_pmf_no_underflow   — every `x` (the new `x > draws` guard protects `draws - x`)
    hypergeometric_ln_pmf_beyond_draws   — `ln_pmf(x) = -∞` (`RFun.negInf`) for every `x > draws`, no subtraction
                            evaluated; instance `new(10,5,3)`, `x = 4` (the former panic witness):
                            `ln_pmf = -∞`, `pmf = 0.0`.
    hypergeometric_mode_no_div_zero      — `population + 2 ≠ 0`
    mean/variance/skewness — no integer arithmetic at all (casts only): `*_none_iff`.

  Overflow of `+`/`*` (outside the model; stated as explicit range theorems about the operands):
    hypergeometric_min_add_in_range / hypergeometric_min_add_overflow_witness         — `draws + successes`
    hypergeometric_mode_in_range / hypergeometric_mode_mul_overflow_witness           — `(draws+1)·(successes+1)`, `population + 2`
    hypergeometric_cdf_range_end_in_range                              — `k + 1` in `0..k+1` never overflows
-/
import Statrs.Lemmas.IntegerPaths
import Statrs.Gen.D_hypergeometric
namespace Statrs.Props.C12
open Statrs Statrs.Gen Statrs.Lemmas.IntegerPaths

section generic
variable {α : Type} [Add α] [Sub α] [Mul α] [Div α] [Neg α] [LT α] [LE α] [BEq α]
  [DecidableLT α] [DecidableLE α] [OfScientific α] [Inhabited α] [RFun α]

/-- acceptance predicate of the constructor -/
theorem hypergeometric_new_ok_iff (population successes draws : Int) (d : Hypergeometric) :
    Hypergeometric.new (α := α) population successes draws = .ok d ↔
      successes ≤ population ∧ draws ≤ population ∧
      d = { f_population := population, f_successes := successes, f_draws := draws } := by
  unfold Hypergeometric.new
  split_ifs with h1 h2
  · constructor
    · intro h; cases h
    · rintro ⟨h, _, _⟩; omega
  · constructor
    · intro h; cases h
    · rintro ⟨_, h, _⟩; omega
  · constructor
    · intro h
      injection h with h
      exact ⟨by omega, by omega, h.symm⟩
    · rintro ⟨_, _, rfl⟩; rfl

/-- `min` uses `saturating_sub`: never panics, equals `max 0 (draws + successes − population)` -/
theorem hypergeometric_min_eq (d : Hypergeometric) :
    Hypergeometric.min (α := α) d = max 0 (d.f_draws + d.f_successes - d.f_population) := by
  unfold Hypergeometric.min usatSub
  split_ifs <;> omega

theorem hypergeometric_max_eq (d : Hypergeometric) :
    Hypergeometric.max (α := α) d = min d.f_successes d.f_draws := rfl

/-- `mode`: the divisor `population + 2` is non-zero for every `u64` population -/
theorem hypergeometric_mode_no_div_zero (d : Hypergeometric) (hp : 0 ≤ d.f_population) :
    Hypergeometric.mode (α := α) d
      = some ((d.f_draws + 1) * (d.f_successes + 1) / (d.f_population + 2)) := by
  unfold Hypergeometric.mode
  rw [udiv_of_ne (by omega)]

/-- `mean`/`variance`/`skewness` contain no integer arithmetic; they return `None` exactly on the
    documented degenerate populations -/
theorem hypergeometric_mean_none_iff (d : Hypergeometric) :
    Hypergeometric.mean (α := α) d = none ↔ d.f_population = 0 := by
  unfold Hypergeometric.mean; split_ifs with h <;> simp [h]

theorem hypergeometric_variance_none_iff (d : Hypergeometric) :
    Hypergeometric.variance (α := α) d = none ↔ d.f_population ≤ 1 := by
  unfold Hypergeometric.variance; split_ifs with h <;> simp [h]

theorem hypergeometric_skewness_none_iff (d : Hypergeometric) :
    Hypergeometric.skewness (α := α) d = none ↔ d.f_population ≤ 2 := by
  unfold Hypergeometric.skewness; split_ifs with h <;> simp [h]

variable [SF α]

/-- `pmf`: no subtraction underflows, for EVERY `x` -/
theorem hypergeometric_pmf_no_underflow (d : Hypergeometric) (h1 : d.f_successes ≤ d.f_population) (x : Int) :
    Hypergeometric.pmf (α := α) d x
      = if d.f_draws < x then (0.0 : α)
        else (SF.binomial d.f_successes x
              * SF.binomial (d.f_population - d.f_successes) (d.f_draws - x))
            / SF.binomial d.f_population d.f_draws := by
  unfold Hypergeometric.pmf
  split_ifs with hx
  · rfl
  · rw [usub_of_le h1, usub_of_le (by omega)]

/-- `ln_pmf`: no subtraction underflows, for EVERY `x` (the guard `x > draws` returns `-∞` before
    `draws - x` is evaluated) -/
theorem hypergeometric_ln_pmf_no_underflow (d : Hypergeometric) (h1 : d.f_successes ≤ d.f_population)
    (x : Int) :
    Hypergeometric.ln_pmf (α := α) d x
      = if d.f_draws < x then (RFun.negInf : α)
        else (SF.ln_binomial d.f_successes x
              + SF.ln_binomial (d.f_population - d.f_successes) (d.f_draws - x))
            - SF.ln_binomial d.f_population d.f_draws := by
  unfold Hypergeometric.ln_pmf
  split_ifs with hx
  · rfl
  · rw [usub_of_le h1, usub_of_le (by omega)]

/-- `ln_pmf` inside `x ≤ draws` (the statement that used to need this restriction) -/
theorem hypergeometric_ln_pmf_of_le (d : Hypergeometric) (h1 : d.f_successes ≤ d.f_population)
    (x : Int) (hx : x ≤ d.f_draws) :
    Hypergeometric.ln_pmf (α := α) d x
      = (SF.ln_binomial d.f_successes x
          + SF.ln_binomial (d.f_population - d.f_successes) (d.f_draws - x))
        - SF.ln_binomial d.f_population d.f_draws := by
  rw [hypergeometric_ln_pmf_no_underflow d h1 x, if_neg (by omega)]

/-- `ln_pmf` beyond `draws`: `-∞` for every distribution (no hypothesis on the fields) and every
    `x > draws`; neither `draws - x` nor `population - successes` is evaluated. -/
theorem hypergeometric_ln_pmf_beyond_draws (d : Hypergeometric) (x : Int) (hx : d.f_draws < x) :
    Hypergeometric.ln_pmf (α := α) d x = (RFun.negInf : α) := by
  unfold Hypergeometric.ln_pmf
  rw [if_pos hx]

/-- the former panic witness: `Hypergeometric::new(10, 5, 3)` is accepted, `x = 4 > draws`:
    `ln_pmf(4) = -∞` and `pmf(4) = 0.0` (both guarded, consistent: `ln 0 = -∞`). -/
theorem hypergeometric_ln_pmf_beyond_draws_instance :
    Hypergeometric.new (α := α) 10 5 3 = .ok ⟨10, 5, 3⟩ ∧
    Hypergeometric.ln_pmf (α := α) ⟨10, 5, 3⟩ 4 = (RFun.negInf : α) ∧
    Hypergeometric.pmf (α := α) ⟨10, 5, 3⟩ 4 = (0.0 : α) := by
  refine ⟨rfl, hypergeometric_ln_pmf_beyond_draws _ 4 (by decide), ?_⟩
  unfold Hypergeometric.pmf
  rw [if_pos (by decide)]

/-- `cdf`: no underflow for every `x` — past the guards the fold index satisfies `i ≤ x < draws` -/
theorem hypergeometric_cdf_no_underflow (d : Hypergeometric) (h1 : d.f_successes ≤ d.f_population) (x : Int) :
    Hypergeometric.cdf (α := α) d x
      = if x < Hypergeometric.min (α := α) d then (0.0 : α)
        else if Hypergeometric.max (α := α) d ≤ x then (1.0 : α)
        else List.foldl (fun acc i => acc + RFun.exp
              ((SF.ln_binomial d.f_successes i
                  + SF.ln_binomial (d.f_population - d.f_successes) (d.f_draws - i))
                - SF.ln_binomial d.f_population d.f_draws))
            (0.0 : α) (rangeList 0 (x + 1)) := by
  unfold Hypergeometric.cdf
  by_cases c1 : x < Hypergeometric.min (α := α) d
  · simp only [if_pos c1]
  by_cases c2 : Hypergeometric.max (α := α) d ≤ x
  · simp only [if_neg c1, if_pos c2]
  simp only [if_neg c1, if_neg c2]
  apply List.foldl_ext
  intro a i hi
  obtain ⟨_, hi2⟩ := mem_rangeList hi
  have hle : i ≤ d.f_draws := by
    rw [hypergeometric_max_eq] at c2
    omega
  rw [usub_of_le h1, usub_of_le hle]

/-- `sf`: no underflow for every `x` — the fold index satisfies `i ≤ max ≤ draws` -/
theorem hypergeometric_sf_no_underflow (d : Hypergeometric) (h1 : d.f_successes ≤ d.f_population) (x : Int) :
    Hypergeometric.sf (α := α) d x
      = if x < Hypergeometric.min (α := α) d then (1.0 : α)
        else if Hypergeometric.max (α := α) d ≤ x then (0.0 : α)
        else List.foldl (fun acc i => acc + RFun.exp
              ((SF.ln_binomial d.f_successes i
                  + SF.ln_binomial (d.f_population - d.f_successes) (d.f_draws - i))
                - SF.ln_binomial d.f_population d.f_draws))
            (0.0 : α) (rangeList (x + 1) (Hypergeometric.max (α := α) d + 1)) := by
  unfold Hypergeometric.sf
  by_cases c1 : x < Hypergeometric.min (α := α) d
  · simp only [if_pos c1]
  by_cases c2 : Hypergeometric.max (α := α) d ≤ x
  · simp only [if_neg c1, if_pos c2]
  simp only [if_neg c1, if_neg c2]
  apply List.foldl_ext
  intro a i hi
  obtain ⟨_, hi2⟩ := mem_rangeList hi
  have hle : i ≤ d.f_draws := by
    rw [hypergeometric_max_eq] at hi2
    omega
  rw [usub_of_le h1, usub_of_le hle]

/-! ### overflow of additions / multiplications (not modelled: explicit range statements) -/

/-- `min`: `draws + successes` stays in `u64` when `population ≤ i64::MAX` (2⁶³−1) -/
theorem hypergeometric_min_add_in_range (d : Hypergeometric) (h1 : d.f_successes ≤ d.f_population)
    (h2 : d.f_draws ≤ d.f_population) (hs : 0 ≤ d.f_successes) (hd : 0 ≤ d.f_draws)
    (hp : d.f_population ≤ i64Max) : InU64 (d.f_draws + d.f_successes) := by
  simp only [InU64, u64Max, i64Max] at *
  omega

omit [SF α] in
/-- witness: an ACCEPTED distribution in the `u64` range whose `min()` overflows `draws + successes`
    (Rust: "attempt to add with overflow"); the model's unbounded value is `u64::MAX`. -/
theorem hypergeometric_min_add_overflow_witness :
    Hypergeometric.new (α := α) u64Max u64Max u64Max = .ok ⟨u64Max, u64Max, u64Max⟩ ∧
    InU64 u64Max ∧ ¬ InU64 ((⟨u64Max, u64Max, u64Max⟩ : Hypergeometric).f_draws
      + (⟨u64Max, u64Max, u64Max⟩ : Hypergeometric).f_successes) ∧
    max 0 (u64Max + u64Max - u64Max) = u64Max := by
  refine ⟨rfl, by decide, by decide, by decide⟩

/-- `mode`: all three intermediates `draws+1`, `successes+1`, their product and `population+2` stay in
    `u64` when `population ≤ 2³² − 2` -/
theorem hypergeometric_mode_in_range (d : Hypergeometric) (h1 : d.f_successes ≤ d.f_population)
    (h2 : d.f_draws ≤ d.f_population) (hs : 0 ≤ d.f_successes) (hd : 0 ≤ d.f_draws)
    (hp : d.f_population ≤ 4294967294) :
    InU64 (d.f_draws + 1) ∧ InU64 (d.f_successes + 1) ∧
    InU64 ((d.f_draws + 1) * (d.f_successes + 1)) ∧ InU64 (d.f_population + 2) := by
  simp only [InU64, u64Max]
  have ha : 0 ≤ d.f_draws + 1 := by omega
  have hb : 0 ≤ d.f_successes + 1 := by omega
  have ha' : d.f_draws + 1 ≤ 4294967295 := by omega
  have hb' : d.f_successes + 1 ≤ 4294967295 := by omega
  refine ⟨⟨ha, by omega⟩, ⟨hb, by omega⟩, ⟨mul_nonneg ha hb, ?_⟩, ⟨by omega, by omega⟩⟩
  calc (d.f_draws + 1) * (d.f_successes + 1) ≤ 4294967295 * 4294967295 :=
        mul_le_mul ha' hb' hb (by norm_num)
    _ ≤ 18446744073709551615 := by norm_num

omit [SF α] in
/-- the threshold of `hypergeometric_mode_in_range` is sharp: `new(2³²−1, 2³²−1, 2³²−1)` is accepted, every field
    and the final result `2⁶⁴ / (2³²+1) = 4294967295` are legal `u64`, but the product
    `(draws+1)·(successes+1) = 2⁶⁴` overflows (Rust: "attempt to multiply with overflow"). -/
theorem hypergeometric_mode_mul_overflow_witness :
    Hypergeometric.new (α := α) 4294967295 4294967295 4294967295 = .ok ⟨4294967295, 4294967295, 4294967295⟩ ∧
    ¬ InU64 (((⟨4294967295, 4294967295, 4294967295⟩ : Hypergeometric).f_draws + 1)
      * ((⟨4294967295, 4294967295, 4294967295⟩ : Hypergeometric).f_successes + 1)) ∧
    InU64 ((4294967295 + 1) * (4294967295 + 1) / (4294967295 + 2)) := by
  refine ⟨rfl, by decide, by decide⟩

/-- `cdf`: the range end `k + 1` of `0..k+1` is reached only with `k < max ≤ u64::MAX`: no overflow -/
theorem hypergeometric_cdf_range_end_in_range (d : Hypergeometric) (hs : d.f_successes ≤ u64Max) (x : Int) (hx : 0 ≤ x)
    (h : ¬ (min d.f_successes d.f_draws ≤ x)) : InU64 (x + 1) := by
  simp only [InU64, u64Max] at *
  omega

end generic

/-- non-vacuity -/
example : ∃ d : Hypergeometric, d.f_successes ≤ d.f_population ∧ d.f_draws ≤ d.f_population ∧
    0 ≤ d.f_successes ∧ 0 ≤ d.f_draws ∧ d.f_population ≤ 4294967294 :=
  ⟨⟨10, 5, 3⟩, by decide⟩

end Statrs.Props.C12
