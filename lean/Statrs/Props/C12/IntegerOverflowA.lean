/-
  C12 — integer `+` / `*` overflow, part A: src/distribution and src/function.

  Model reminder.  Rust `u64/i64/usize/i32` are unbounded `Int` in the generated model; `-` on
  unsigned is `usub`, `/`,`%` are `udiv/umod/sdiv/smod`, narrowing casts are `wrapI32`, … — but `+`
  and `*` are the exact integer operations.  Where the machine operation would overflow (panic with
  overflow checks, wrap without) the model silently continues with the exact value.  This file and
  `IntegerOverflowB.lean` go through every integer `+`/`*` site (there is no integer `<<`; the only
  integer `pow` is `x.pow(3)` in mannwhitneyu.rs, part B) and prove for each one either
    (a) `…_no_overflow` : under the function's preconditions the exact value is in the machine range
        (so model arithmetic = machine arithmetic), or
    (b) `…_overflow_iff` + `…_overflow_witness` : the exact set of in-range arguments on which the value
        leaves the machine range, with a concrete accepted input (a C12 finding candidate).
  `usize` is taken to be 64 bit (`InU64`).  Everything is stated for every carrier `α` unless the
  witness needs the value of a cdf (then `ℝ`).

  SITES OF PART A  (Rust file:line — expression — machine type — verdict)

  src/distribution/mod.rs (trait default `DiscreteCDF::inverse_cdf`, instantiated in the generated
  `X.inverse_cdf`/`X.inverse_cdf.loop1` for X = Bernoulli, Binomial, DiscreteUniform, Geometric,
  Hypergeometric, NegativeBinomial, Poisson)
   A1  mod.rs:219  `K::one() + K::one()`            u64 / i64   no_overflow (`default_two_no_overflow`)
   A2  mod.rs:223  `ub *= two` (doubling loop)      u64 / i64   OVERFLOW SET: the loop forms a product
         outside `u64` iff `cdf(2^j) < p` for all `j = 1..63` (`i64`: `j = 1..62`), i.e. iff the
         `p`-quantile exceeds `2^63` (`2^62`):  `doubling_overflow_iff_u64/_i64`, per family
         `X_inverse_cdf_doubling_overflow_iff`; witnesses `geometric_inverse_cdf_doubling_overflow_witness`
         (`Geometric::new(5e-20).inverse_cdf(0.5)`), `discrete_uniform_inverse_cdf_doubling_overflow_witness`
         (`DiscreteUniform::new(0, i64::MAX).inverse_cdf(0.75)`).  For Poisson/NegativeBinomial/Binomial the cdf is an
         abstract special function, so only the `iff` is proved (e.g. `Poisson::new(1e19).inverse_cdf(0.5)`:
         median `≈ 10¹⁹ > 2^63`).  Wrapped: `2^63·2 ↦ 0` (`i64`: `2^62·2 ↦
         i64::MIN ↦ 0`), `cdf(0) < p`, `0·2 = 0`: the release build never leaves the loop.
  src/distribution/internal.rs (`integral_bisection_search`, generated `D.internal.…loop1`)
   A3  internal.rs:21  `K::one() + K::one()`        u64 / i64   no_overflow (same as A1)
   A4  internal.rs:25  `(lb + ub) / two`            u64 / i64   no_overflow for every bracket the default
         `inverse_cdf` can pass when A2 did not overflow (`0 ≤ lb < ub ≤ 2^63`, resp. `i64::MIN ≤ lb`,
         `2 ≤ ub ≤ 2^62`): `bisection_midpoint_no_overflow_u64/_i64`; the bracket only shrinks
         (`bisection_step_keeps_bracket`).  Exact set for `lb ≤ ub`: `bisection_midpoint_overflow_iff_u64`.
   A5  internal.rs:30  `lb + K::one()`              u64 / i64   no_overflow (`lb < ub`) — in the same theorems
  src/distribution/hypergeometric.rs
   A6  :284 `draws + successes` (min)               u64  OVERFLOW (existing: `hypergeometric_min_add_in_range`,
         `hypergeometric_min_add_overflow_witness` in Props/C12/IntegerHypergeometric.lean); exact set here:
         `hypergeometric_min_add_overflow_iff`
   A7  :385 `(draws+1)*(successes+1)`, `population+2` u64 OVERFLOW (existing: `hypergeometric_mode_in_range`,
         `hypergeometric_mode_mul_overflow_witness`); exact set here: `hypergeometric_mode_overflow_iff`, plus the
         balanced witness `new(6·10⁹, 5·10⁹, 5·10⁹).mode()` (`hypergeometric_mode_mul_overflow_witness_plausible`)
   A8  :222 `0..k + 1` (cdf)                         u64  no_overflow (existing `hypergeometric_cdf_range_end_in_range`)
   A9  :255 `k + 1..=self.max()` (sf; the model's exclusive end is `max + 1`)  u64  no_overflow
         (`hypergeometric_sf_range_no_overflow`: the branch needs `min ≤ x < max`, impossible for `max = u64::MAX`)
  src/distribution/binomial.rs
   A10 :240 `0..self.n + 1` (entropy)                u64  OVERFLOW iff `n = u64::MAX` (existing
         `binomial_entropy_range_end_in_range_iff`, `binomial_entropy_add_overflow_witness` in IntegerDiscrete.lean)
  src/distribution/discrete_uniform.rs
   A11 :209,:257,:276 `min + max`; :293,:313 `max - min + 1`   i64  OVERFLOW (existing
         `discrete_uniform_sum_overflow_iff`, `discrete_uniform_count_overflow_iff` + witnesses, IntegerDiscrete.lean)
  src/distribution/categorical.rs (`binary_index`, generated `D.categorical.binary_index.loop1`)
   A12 :380 `low + ((high - low) / 2)`               isize no_overflow (`categorical_binary_index_step_no_overflow`)
   A13 :385 `mid.saturating_add(1)`                  isize no_overflow by construction (model: `min (mid+1) i64::MAX`)
   A14 :378 `search.len() as isize - 1`, :383 `mid - 1`   isize no_overflow (same theorem; `len ≤ isize::MAX`)
  Geometric, NegativeBinomial, Poisson, Bernoulli: no integer `+`/`*` besides A1/A2 (`x - 1` in Geometric is
  `usub`, covered by `geometric_pmf_no_underflow`); Multinomial is not in the generated model (its
  `x.iter().sum::<u64>()`, multinomial.rs:309/:344, is the list sum of `list_sum_overflow_iff` in Lemmas/IntegerOverflow.lean).
  src/function/factorial.rs
   A15 :77  `acc.0 + x` (checked_multinomial)        u64  OVERFLOW iff `Σ ni > u64::MAX`
         (`checked_multinomial_sum_eq`, `list_sum_overflow_iff`, `checked_multinomial_overflow_witness`:
         `checked_multinomial(5, &[u64::MAX, 6])` — model `None`; checked build panics; wrapping build has
         `Σ = 5 = n` and returns `Some(_)`)
   A16 :90–:96 `MAX_FACTORIAL + 1`, `i += 1`          usize no_overflow (`fcache_index_no_overflow`, constants ≤ 171)
  src/function/exponential.rs
   A17 :56,:76 `1..max_iter + 1`                      u64  no_overflow (`exp_integral_range_end_no_overflow`, `= 101`)
  src/function/gamma.rs
   A18 :339 `c += 1` (continued fraction counter, `i32` by inference from `f64::from(c)`)   i32
         no_overflow in the model: `c ≤ iterations ≤ loopFuel = 20000` (`gamma_lr_counter_bounded`); on the
         machine the counter overflows only after `2^31` iterations of the convergence loop (a termination
         question, not an arithmetic one).
  src/function/harmonic.rs, evaluate.rs, beta.rs, erf.rs, logistic.rs: no integer `+`/`*` (`x as f64 + 1.0`
  is float; `n - 1` is `usub`).
  src/euclid.rs:64,:79 `r + divisor` (i64, i32): no_overflow — already `i64_modulus_no_intermediate_overflow`,
  `i32_…` in Props/C20/Modulus.lean.
-/
import Statrs.Props.C12.IntegerHypergeometric
import Statrs.Lemmas.IntegerOverflow
import Statrs.Real.Simp
import Statrs.Gen.D_internal
import Statrs.Gen.D_bernoulli
import Statrs.Gen.D_binomial
import Statrs.Gen.D_discrete_uniform
import Statrs.Gen.D_geometric
import Statrs.Gen.D_negative_binomial
import Statrs.Gen.D_poisson
import Statrs.Gen.D_categorical
import Statrs.Gen.F_factorial
import Statrs.Gen.F_gamma
import Statrs.Gen.F_exponential
set_option linter.unusedVariables false
set_option linter.unusedSectionVars false
namespace Statrs.Props.C12
open Statrs Statrs.Gen Statrs.Lemmas.IntegerPaths Statrs.Lemmas.IntegerOverflow

/-! ## A1/A3 — the constant `two` -/

/-- `K::one() + K::one()` is `2` in every integer type -/
theorem default_two_no_overflow : InU64 ((1 : Int) + 1) ∧ InI64 ((1 : Int) + 1) ∧ InI32 ((1 : Int) + 1) := by
  refine ⟨by decide, by decide, by decide⟩

/-! ## A2 — the doubling loop `while self.cdf(ub) < p { ub *= two }` -/

/-- carrier-free mirror of the seven generated loops `X.inverse_cdf.loop1` (`c ub` is the test
    `self.cdf(ub) < p`) -/
def dblLoop (c : Int → Bool) (two : Int) : Nat → Int → LoopR Int Int
  | 0, _ => LoopR.hang
  | fuel + 1, ub => if c ub = true then dblLoop c two fuel (ub * two) else LoopR.done ub

/-- while the test holds the loop keeps multiplying: after `k` successful tests the state is `ub·2^k` -/
theorem dblLoop_reach (c : Int → Bool) : ∀ (k f : Nat) (ub : Int), (∀ i, i < k → c (ub * 2 ^ i) = true) →
    dblLoop c 2 (k + f) ub = dblLoop c 2 f (ub * 2 ^ k) := by
  intro k
  induction k with
  | zero => intro f ub _; simp
  | succ k ih =>
    intro f ub h
    have e : k + 1 + f = (k + f) + 1 := by omega
    have h0 : c ub = true := by simpa using h 0 (by omega)
    rw [e, dblLoop, if_pos h0, ih f (ub * 2)]
    · congr 1; rw [pow_succ]; ring
    · intro i hi
      have := h (i + 1) (by omega)
      rw [pow_succ] at this
      rw [← this]; congr 1; ring

/-- a normal exit returns `ub·2^k` where `k` is the number of successful tests -/
theorem dblLoop_done_spec (c : Int → Bool) : ∀ (fuel : Nat) (ub r : Int), dblLoop c 2 fuel ub = LoopR.done r →
    ∃ k, k < fuel ∧ r = ub * 2 ^ k ∧ c r = false ∧ ∀ i, i < k → c (ub * 2 ^ i) = true := by
  intro fuel
  induction fuel with
  | zero => intro ub r h; simp [dblLoop] at h
  | succ fuel ih =>
    intro ub r h
    rw [dblLoop] at h
    by_cases h0 : c ub = true
    · rw [if_pos h0] at h
      obtain ⟨k, hk, hr, hc, hall⟩ := ih (ub * 2) r h
      refine ⟨k + 1, by omega, by rw [hr, pow_succ]; ring, hc, ?_⟩
      intro i hi
      rcases i with _ | j
      · simpa using h0
      · have := hall j (by omega)
        rw [← this, pow_succ]; congr 1; ring
    · rw [if_neg h0] at h
      injection h with h
      subst h
      exact ⟨0, by omega, by simp, by simpa using h0, fun i hi => by omega⟩

private theorem two_pow_le (k n : Nat) (h : k ≤ n) : (2 : Int) ^ k ≤ 2 ^ n :=
  pow_le_pow_right₀ (by norm_num) h

/-- OVERFLOW SET (`u64`): started at `ub = 2`, the loop returns a value outside `u64` — i.e. it
    evaluated the product `2^63 * 2` — exactly when the test `cdf(2^j) < p` succeeds for every
    `j = 1, …, 63`.  (All earlier products `2^j * 2`, `j ≤ 62`, are in range: the values only grow.) -/
theorem doubling_overflow_iff_u64 (c : Int → Bool) (fuel : Nat) (r : Int)
    (h : dblLoop c 2 fuel 2 = LoopR.done r) :
    ¬ InU64 r ↔ ∀ i : Nat, i ≤ 62 → c (2 ^ (i + 1)) = true := by
  obtain ⟨k, _, hr, hc, hall⟩ := dblLoop_done_spec c fuel 2 r h
  have e : ∀ i : Nat, (2 : Int) * 2 ^ i = 2 ^ (i + 1) := fun i => by rw [pow_succ]; ring
  constructor
  · intro hn i hi
    have hk : 63 ≤ k := by
      by_contra hlt
      apply hn
      have := two_pow_le k 62 (by omega)
      have h0 : (0 : Int) < 2 ^ k := by positivity
      simp only [InU64, u64Max]
      constructor
      · rw [hr]; positivity
      · rw [hr]; norm_num at this ⊢; omega
    rw [← e]; exact hall i (by omega)
  · intro hall' hin
    have hk : k ≤ 62 := by
      by_contra hlt
      have := two_pow_le 63 k (by omega)
      simp only [InU64, u64Max] at hin
      rw [hr] at hin; norm_num at this; omega
    have := hall' k hk
    rw [← e, ← hr, hc] at this
    exact Bool.false_ne_true this

/-- OVERFLOW SET (`i64`, DiscreteUniform): the product `2^62 * 2 = 2^63` is formed exactly when
    `cdf(2^j) < p` for every `j = 1, …, 62` -/
theorem doubling_overflow_iff_i64 (c : Int → Bool) (fuel : Nat) (r : Int)
    (h : dblLoop c 2 fuel 2 = LoopR.done r) :
    ¬ InI64 r ↔ ∀ i : Nat, i ≤ 61 → c (2 ^ (i + 1)) = true := by
  obtain ⟨k, _, hr, hc, hall⟩ := dblLoop_done_spec c fuel 2 r h
  have e : ∀ i : Nat, (2 : Int) * 2 ^ i = 2 ^ (i + 1) := fun i => by rw [pow_succ]; ring
  constructor
  · intro hn i hi
    have hk : 62 ≤ k := by
      by_contra hlt
      apply hn
      have := two_pow_le k 61 (by omega)
      have h0 : (0 : Int) < 2 ^ k := by positivity
      simp only [InI64, i64Max, i64Min]
      constructor <;> · rw [hr]; norm_num at this ⊢; omega
    rw [← e]; exact hall i (by omega)
  · intro hall' hin
    have hk : k ≤ 61 := by
      by_contra hlt
      have := two_pow_le 62 k (by omega)
      simp only [InI64, i64Max, i64Min] at hin
      rw [hr] at hin; norm_num at this; omega
    have := hall' k hk
    rw [← e, ← hr, hc] at this
    exact Bool.false_ne_true this

/-- no overflow when the test already fails at some `2^(j+1)` with `j ≤ 62` (the quantile is `≤ 2^63`) -/
theorem doubling_no_overflow_u64 (c : Int → Bool) (fuel : Nat) (r : Int)
    (h : dblLoop c 2 fuel 2 = LoopR.done r) (j : Nat) (hj : j ≤ 62) (hc : c (2 ^ (j + 1)) = false) :
    InU64 r := by
  by_contra hn
  have := (doubling_overflow_iff_u64 c fuel r h).mp hn j hj
  rw [hc] at this
  exact Bool.false_ne_true this

/-- the wrapped continuation (no overflow checks): `2^63·2` wraps to `0` in `u64`, `2^62·2` wraps to
    `i64::MIN` and then `i64::MIN·2` to `0`; `0·2 = 0`, so once `cdf(0) < p` (resp. also `cdf(i64::MIN) < p`)
    the machine loop is stuck at `ub = 0` forever -/
theorem doubling_wrapped_fixed_point :
    wrapU64 (2 ^ 63 * 2) = 0 ∧ wrapI64 (2 ^ 62 * 2) = i64Min ∧ wrapI64 (i64Min * 2) = 0 ∧ (0 : Int) * 2 = 0 := by
  refine ⟨by decide, by decide, by decide, by norm_num⟩

section generic
variable {α : Type} [Add α] [Sub α] [Mul α] [Div α] [Neg α] [LT α] [LE α] [BEq α]
  [DecidableLT α] [DecidableLE α] [OfScientific α] [Inhabited α] [RFun α]

/-! ### the seven generated loops are the mirror (every carrier) -/

theorem bernoulli_inverse_cdf_loop1_eq_dbl [SF α] (d : Bernoulli α) (p : α) (two : Int) : ∀ (fuel : Nat) (ub : Int),
    Bernoulli.inverse_cdf.loop1 fuel p d two ub
      = dblLoop (fun u => decide (Bernoulli.cdf d u < p)) two fuel ub := by
  intro fuel
  induction fuel with
  | zero => intro ub; rfl
  | succ f ih =>
    intro ub
    rw [Bernoulli.inverse_cdf.loop1, dblLoop]
    by_cases h : Bernoulli.cdf d ub < p <;> simp [h, ih]

theorem binomial_inverse_cdf_loop1_eq_dbl [SF α] (d : Binomial α) (p : α) (two : Int) : ∀ (fuel : Nat) (ub : Int),
    Binomial.inverse_cdf.loop1 fuel p d two ub
      = dblLoop (fun u => decide (Binomial.cdf d u < p)) two fuel ub := by
  intro fuel
  induction fuel with
  | zero => intro ub; rfl
  | succ f ih =>
    intro ub
    rw [Binomial.inverse_cdf.loop1, dblLoop]
    by_cases h : Binomial.cdf d ub < p <;> simp [h, ih]

theorem discrete_uniform_inverse_cdf_loop1_eq_dbl (d : DiscreteUniform) (p : α) (two : Int) : ∀ (fuel : Nat) (ub : Int),
    DiscreteUniform.inverse_cdf.loop1 fuel p d two ub
      = dblLoop (fun u => decide (DiscreteUniform.cdf d u < p)) two fuel ub := by
  intro fuel
  induction fuel with
  | zero => intro ub; rfl
  | succ f ih =>
    intro ub
    rw [DiscreteUniform.inverse_cdf.loop1, dblLoop]
    by_cases h : DiscreteUniform.cdf d ub < p <;> simp [h, ih]

theorem geometric_inverse_cdf_loop1_eq_dbl (d : Geometric α) (p : α) (two : Int) : ∀ (fuel : Nat) (ub : Int),
    Geometric.inverse_cdf.loop1 fuel p d two ub
      = dblLoop (fun u => decide (Geometric.cdf d u < p)) two fuel ub := by
  intro fuel
  induction fuel with
  | zero => intro ub; rfl
  | succ f ih =>
    intro ub
    rw [Geometric.inverse_cdf.loop1, dblLoop]
    by_cases h : Geometric.cdf d ub < p <;> simp [h, ih]

theorem hypergeometric_inverse_cdf_loop1_eq_dbl [SF α] (d : Hypergeometric) (p : α) (two : Int) : ∀ (fuel : Nat) (ub : Int),
    Hypergeometric.inverse_cdf.loop1 fuel p d two ub
      = dblLoop (fun u => decide (Hypergeometric.cdf d u < p)) two fuel ub := by
  intro fuel
  induction fuel with
  | zero => intro ub; rfl
  | succ f ih =>
    intro ub
    rw [Hypergeometric.inverse_cdf.loop1, dblLoop]
    by_cases h : Hypergeometric.cdf d ub < p <;> simp [h, ih]

theorem negative_binomial_inverse_cdf_loop1_eq_dbl [SF α] (d : NegativeBinomial α) (p : α) (two : Int) :
    ∀ (fuel : Nat) (ub : Int),
    NegativeBinomial.inverse_cdf.loop1 fuel p d two ub
      = dblLoop (fun u => decide (NegativeBinomial.cdf d u < p)) two fuel ub := by
  intro fuel
  induction fuel with
  | zero => intro ub; rfl
  | succ f ih =>
    intro ub
    rw [NegativeBinomial.inverse_cdf.loop1, dblLoop]
    by_cases h : NegativeBinomial.cdf d ub < p <;> simp [h, ih]

theorem poisson_inverse_cdf_loop1_eq_dbl [SF α] (d : Poisson α) (p : α) (two : Int) : ∀ (fuel : Nat) (ub : Int),
    Poisson.inverse_cdf.loop1 fuel p d two ub
      = dblLoop (fun u => decide (Poisson.cdf d u < p)) two fuel ub := by
  intro fuel
  induction fuel with
  | zero => intro ub; rfl
  | succ f ih =>
    intro ub
    rw [Poisson.inverse_cdf.loop1, dblLoop]
    by_cases h : Poisson.cdf d ub < p <;> simp [h, ih]

/-! ### per family: the exact overflow set of `ub *= two` (every carrier, also IEEE `Float`) -/

theorem bernoulli_inverse_cdf_doubling_overflow_iff [SF α] (d : Bernoulli α) (p : α) (fuel : Nat) (r : Int)
    (h : Bernoulli.inverse_cdf.loop1 fuel p d 2 2 = LoopR.done r) :
    ¬ InU64 r ↔ ∀ i : Nat, i ≤ 62 → Bernoulli.cdf d (2 ^ (i + 1)) < p := by
  rw [bernoulli_inverse_cdf_loop1_eq_dbl] at h
  simpa using doubling_overflow_iff_u64 _ fuel r h

theorem binomial_inverse_cdf_doubling_overflow_iff [SF α] (d : Binomial α) (p : α) (fuel : Nat) (r : Int)
    (h : Binomial.inverse_cdf.loop1 fuel p d 2 2 = LoopR.done r) :
    ¬ InU64 r ↔ ∀ i : Nat, i ≤ 62 → Binomial.cdf d (2 ^ (i + 1)) < p := by
  rw [binomial_inverse_cdf_loop1_eq_dbl] at h
  simpa using doubling_overflow_iff_u64 _ fuel r h

theorem discrete_uniform_inverse_cdf_doubling_overflow_iff (d : DiscreteUniform) (p : α) (fuel : Nat) (r : Int)
    (h : DiscreteUniform.inverse_cdf.loop1 fuel p d 2 2 = LoopR.done r) :
    ¬ InI64 r ↔ ∀ i : Nat, i ≤ 61 → DiscreteUniform.cdf d (2 ^ (i + 1)) < p := by
  rw [discrete_uniform_inverse_cdf_loop1_eq_dbl] at h
  simpa using doubling_overflow_iff_i64 _ fuel r h

theorem geometric_inverse_cdf_doubling_overflow_iff (d : Geometric α) (p : α) (fuel : Nat) (r : Int)
    (h : Geometric.inverse_cdf.loop1 fuel p d 2 2 = LoopR.done r) :
    ¬ InU64 r ↔ ∀ i : Nat, i ≤ 62 → Geometric.cdf d (2 ^ (i + 1)) < p := by
  rw [geometric_inverse_cdf_loop1_eq_dbl] at h
  simpa using doubling_overflow_iff_u64 _ fuel r h

theorem hypergeometric_inverse_cdf_doubling_overflow_iff [SF α] (d : Hypergeometric) (p : α) (fuel : Nat) (r : Int)
    (h : Hypergeometric.inverse_cdf.loop1 fuel p d 2 2 = LoopR.done r) :
    ¬ InU64 r ↔ ∀ i : Nat, i ≤ 62 → Hypergeometric.cdf d (2 ^ (i + 1)) < p := by
  rw [hypergeometric_inverse_cdf_loop1_eq_dbl] at h
  simpa using doubling_overflow_iff_u64 _ fuel r h

theorem negative_binomial_inverse_cdf_doubling_overflow_iff [SF α] (d : NegativeBinomial α) (p : α) (fuel : Nat)
    (r : Int) (h : NegativeBinomial.inverse_cdf.loop1 fuel p d 2 2 = LoopR.done r) :
    ¬ InU64 r ↔ ∀ i : Nat, i ≤ 62 → NegativeBinomial.cdf d (2 ^ (i + 1)) < p := by
  rw [negative_binomial_inverse_cdf_loop1_eq_dbl] at h
  simpa using doubling_overflow_iff_u64 _ fuel r h

theorem poisson_inverse_cdf_doubling_overflow_iff [SF α] (d : Poisson α) (p : α) (fuel : Nat) (r : Int)
    (h : Poisson.inverse_cdf.loop1 fuel p d 2 2 = LoopR.done r) :
    ¬ InU64 r ↔ ∀ i : Nat, i ≤ 62 → Poisson.cdf d (2 ^ (i + 1)) < p := by
  rw [poisson_inverse_cdf_loop1_eq_dbl] at h
  simpa using doubling_overflow_iff_u64 _ fuel r h

/-- Hypergeometric and Bernoulli/Binomial with a support inside `[0, 2^63]` never overflow: the cdf is `1.0`
    from `max()` on, and `1.0 < p` fails for `p ≤ 1`.  Stated for Hypergeometric (no special function in the
    branch): if `min(successes, draws) ≤ 2^63` and `¬ (1.0 < p)`, the doubling result is a legal `u64`. -/
theorem hypergeometric_inverse_cdf_doubling_no_overflow [SF α] (d : Hypergeometric) (p : α) (fuel : Nat) (r : Int)
    (h : Hypergeometric.inverse_cdf.loop1 fuel p d 2 2 = LoopR.done r)
    (hmax : min d.f_successes d.f_draws ≤ 2 ^ 63) (hmin : d.f_draws + d.f_successes - d.f_population ≤ 2 ^ 63)
    (hp : ¬ ((1.0 : α) < p)) :
    InU64 r := by
  rw [hypergeometric_inverse_cdf_loop1_eq_dbl] at h
  refine doubling_no_overflow_u64 _ fuel r h 62 (by omega) ?_
  have hc : Hypergeometric.cdf (α := α) d (2 ^ (62 + 1)) = (1.0 : α) := by
    unfold Hypergeometric.cdf
    rw [hypergeometric_min_eq, hypergeometric_max_eq]
    have h1 : ¬ ((2 : Int) ^ (62 + 1) < max 0 (d.f_draws + d.f_successes - d.f_population)) := by
      norm_num at hmin ⊢; omega
    rw [if_neg h1, if_pos (by norm_num at hmax ⊢; omega)]
  show decide (Hypergeometric.cdf (α := α) d (2 ^ (62 + 1)) < p) = false
  rw [hc]
  exact decide_eq_false hp

end generic

/-! ### A2 witnesses over ℝ -/

/-- `Geometric(p = 5e-20)`: `cdf(2^j) = 1 − (1−p)^(2^j) < 1/2` for every `j = 1..63` (`(1−p)^x ≥ 1 − 1.0001·px ≥ 0.538`) -/
theorem geometric_cdf_small (i : Nat) (hi : i ≤ 62) :
    Geometric.cdf (⟨5e-20⟩ : Geometric ℝ) (2 ^ (i + 1)) < 1 / 2 := by
  unfold Geometric.cdf
  have hne : ((2 : Int) ^ (i + 1)) ≠ 0 := by positivity
  rw [if_neg hne]
  simp only [rfun_expm1, rfun_ln1p, rfun_ofInt]
  push_cast
  have hx0 : (0 : ℝ) ≤ 2 ^ (i + 1) := by positivity
  have hx1 : (2 : ℝ) ^ (i + 1) ≤ 2 ^ 63 := pow_le_pow_right₀ (by norm_num) (by omega)
  have hL : -(50005 / 10 ^ 24) ≤ Real.log (1 + -(5e-20 : ℝ)) := by
    have := Real.one_sub_inv_le_log_of_pos (x := 1 + -(5e-20 : ℝ)) (by norm_num)
    refine le_trans ?_ this
    norm_num
  have h1 : -(50005 / 10 ^ 24) * (2 : ℝ) ^ (i + 1) ≤ Real.log (1 + -(5e-20 : ℝ)) * 2 ^ (i + 1) :=
    mul_le_mul_of_nonneg_right hL hx0
  have h2 := Real.add_one_le_exp (Real.log (1 + -(5e-20 : ℝ)) * 2 ^ (i + 1))
  norm_num at hx1 h1 h2 ⊢
  nlinarith

/-- `DiscreteUniform(0, i64::MAX)`: `cdf(2^j) = (2^j + 1)/2^63 < 3/4` for every `j = 1..62` -/
theorem discrete_uniform_cdf_small (i : Nat) (hi : i ≤ 61) :
    DiscreteUniform.cdf (α := ℝ) ⟨0, i64Max⟩ (2 ^ (i + 1)) < 3 / 4 := by
  unfold DiscreteUniform.cdf
  have hx0 : (0 : Int) < 2 ^ (i + 1) := by positivity
  have hx1 : (2 : Int) ^ (i + 1) ≤ 2 ^ 62 := pow_le_pow_right₀ (by norm_num) (by omega)
  have hx1' : (2 : ℝ) ^ (i + 1) ≤ 2 ^ 62 := pow_le_pow_right₀ (by norm_num) (by omega)
  have c1 : ¬ ((2 : Int) ^ (i + 1) < (⟨0, i64Max⟩ : DiscreteUniform).f_min) := by simp only []; omega
  have c2 : ¬ ((⟨0, i64Max⟩ : DiscreteUniform).f_max ≤ (2 : Int) ^ (i + 1)) := by
    simp only [i64Max]; norm_num at hx1 ⊢; omega
  rw [if_neg c1, if_neg c2]
  simp only [rfun_ofInt, i64Max]
  push_cast
  have hq : (((2 : ℝ) ^ (i + 1) - 0) + 1.0) / ((9223372036854775807 - 0) + 1.0) < 3 / 4 := by
    rw [div_lt_iff₀ (by norm_num)]
    norm_num at hx1' ⊢
    linarith
  split_ifs with h
  · exfalso; linarith
  · exact hq

/-- WITNESS (A2, `u64`): `Geometric::new(5e-20)` is accepted; `inverse_cdf(0.5)` passes all three guards of the
    default method (`p > cdf(min)`, `p ≠ 1`, `p ∈ [0,1]`), the 63 tests `cdf(2), …, cdf(2^63) < 0.5` all succeed, so
    the loop (any fuel `63 + f`) reaches the state `ub = 2^63 · 2 = 2^64 ∉ u64` (Rust, overflow checks on:
    "attempt to multiply with overflow").  Without checks the product wraps to `0`, `cdf(0) = 0 < 0.5`
    and `0 · 2 = 0`: the loop never terminates.  The model, computing exactly, goes on to `ub = 2^64` and
    bisects; the true median `ln 2 / p ≈ 1.386·10¹⁹` IS a legal `u64` (`< 1.845·10¹⁹`), so a correct answer exists. -/
theorem geometric_inverse_cdf_doubling_overflow_witness :
    Geometric.new (α := ℝ) 5e-20 = .ok ⟨5e-20⟩ ∧
    ¬ ((1 / 2 : ℝ) ≤ Geometric.cdf ⟨5e-20⟩ (Geometric.min (α := ℝ) ⟨5e-20⟩)) ∧
    ¬ (((1 / 2 : ℝ) == (1.0 : ℝ)) = true) ∧ ((0.0 : ℝ) ≤ 1 / 2 ∧ (1 / 2 : ℝ) ≤ 1.0) ∧
    (∀ f : Nat, Geometric.inverse_cdf.loop1 (63 + f) (1 / 2 : ℝ) ⟨5e-20⟩ 2 2
        = Geometric.inverse_cdf.loop1 f (1 / 2 : ℝ) ⟨5e-20⟩ 2 (2 ^ 64)) ∧
    InU64 (2 ^ 63) ∧ ¬ InU64 (2 ^ 63 * 2) ∧
    Geometric.cdf (⟨5e-20⟩ : Geometric ℝ) (wrapU64 (2 ^ 63 * 2)) < 1 / 2 := by
  refine ⟨?_, ?_, ?_, ?_, ?_, by decide, by decide, ?_⟩
  · unfold Geometric.new
    rw [if_neg]
    simp only [rfun_isNaN]
    norm_num
  · unfold Geometric.min Geometric.cdf
    rw [if_neg (by norm_num)]
    simp only [rfun_expm1, rfun_ln1p, rfun_ofInt]
    rw [Int.cast_one, mul_one, Real.exp_log (by norm_num)]
    norm_num
  · simp only [real_beq]; norm_num
  · norm_num
  · intro f
    rw [geometric_inverse_cdf_loop1_eq_dbl, geometric_inverse_cdf_loop1_eq_dbl, dblLoop_reach _ 63 f 2]
    · norm_num
    · intro i hi
      have e : (2 : Int) * 2 ^ i = 2 ^ (i + 1) := by rw [pow_succ]; ring
      rw [e]
      exact decide_eq_true (geometric_cdf_small i (by omega))
  · have : wrapU64 (2 ^ 63 * 2) = 0 := by decide
    rw [this]
    unfold Geometric.cdf
    rw [if_pos rfl]
    norm_num

/-- WITNESS (A2, `i64`): `DiscreteUniform::new(0, i64::MAX).inverse_cdf(0.75)`: guards passed, the 62 tests
    `cdf(2), …, cdf(2^62) < 0.75` succeed, the loop reaches `ub = 2^62 · 2 = 2^63 ∉ i64`.  Without checks:
    `2^63` wraps to `i64::MIN` (`cdf = 0 < p`), `i64::MIN · 2` wraps to `0` (`cdf(0) = 2^-63 < p`), `0 · 2 = 0`: hang.
    (True quantile: `⌈0.75·2^63⌉ − 1 ≈ 6.9·10¹⁸`, a legal `i64`.) -/
theorem discrete_uniform_inverse_cdf_doubling_overflow_witness :
    DiscreteUniform.new (α := ℝ) 0 i64Max = .ok ⟨0, i64Max⟩ ∧
    ¬ ((3 / 4 : ℝ) ≤ DiscreteUniform.cdf ⟨0, i64Max⟩ (DiscreteUniform.min (α := ℝ) ⟨0, i64Max⟩)) ∧
    ¬ (((3 / 4 : ℝ) == (1.0 : ℝ)) = true) ∧ ((0.0 : ℝ) ≤ 3 / 4 ∧ (3 / 4 : ℝ) ≤ 1.0) ∧
    (∀ f : Nat, DiscreteUniform.inverse_cdf.loop1 (62 + f) (3 / 4 : ℝ) ⟨0, i64Max⟩ 2 2
        = DiscreteUniform.inverse_cdf.loop1 f (3 / 4 : ℝ) ⟨0, i64Max⟩ 2 (2 ^ 63)) ∧
    InI64 (2 ^ 62) ∧ ¬ InI64 (2 ^ 62 * 2) ∧
    DiscreteUniform.cdf (α := ℝ) ⟨0, i64Max⟩ (wrapI64 (2 ^ 62 * 2)) < 3 / 4 ∧
    DiscreteUniform.cdf (α := ℝ) ⟨0, i64Max⟩ (wrapI64 (wrapI64 (2 ^ 62 * 2) * 2)) < 3 / 4 := by
  refine ⟨rfl, ?_, ?_, ?_, ?_, by decide, by decide, ?_, ?_⟩
  · unfold DiscreteUniform.min DiscreteUniform.cdf
    rw [if_neg (by simp), if_neg (by decide)]
    simp only [rfun_ofInt, i64Max]
    norm_num
  · simp only [real_beq]; norm_num
  · norm_num
  · intro f
    rw [discrete_uniform_inverse_cdf_loop1_eq_dbl, discrete_uniform_inverse_cdf_loop1_eq_dbl,
      dblLoop_reach _ 62 f 2]
    · norm_num
    · intro i hi
      have e : (2 : Int) * 2 ^ i = 2 ^ (i + 1) := by rw [pow_succ]; ring
      rw [e]
      exact decide_eq_true (discrete_uniform_cdf_small i (by omega))
  · have : wrapI64 (2 ^ 62 * 2) = i64Min := by decide
    rw [this]
    unfold DiscreteUniform.cdf
    rw [if_pos (by decide)]
    norm_num
  · have : wrapI64 (wrapI64 (2 ^ 62 * 2) * 2) = 0 := by decide
    rw [this]
    unfold DiscreteUniform.cdf
    rw [if_neg (by simp), if_neg (by decide)]
    simp only [rfun_ofInt, i64Max]
    norm_num

/-! ## A4/A5 — `integral_bisection_search`: `(lb + ub) / two`, `lb + 1` -/

/-- NO OVERFLOW (A4/A5, `u64`): for every bracket `0 ≤ lb < ub ≤ 2^63` (what the default `inverse_cdf` passes when
    the doubling loop did not overflow: `lb = min() ≥ 0`, `ub` a power of two `≤ 2^63`) `lb + ub` and `lb + 1`
    are legal `u64`, and the model's truncating `sdiv` is the machine's `/` -/
theorem bisection_midpoint_no_overflow_u64 (lb ub : Int) (h0 : 0 ≤ lb) (hlt : lb < ub) (hub : ub ≤ 2 ^ 63) :
    InU64 (lb + ub) ∧ InU64 (lb + 1) ∧ sdiv (lb + ub) 2 = (lb + ub) / 2 := by
  simp only [InU64, u64Max, sdiv]
  norm_num at hub ⊢
  refine ⟨⟨by omega, by omega⟩, ⟨by omega, by omega⟩, ?_⟩
  exact Int.tdiv_eq_ediv_of_nonneg (by omega)

/-- exact overflow set of `lb + ub` for `0 ≤ lb ≤ ub ≤ 2^63`: only the degenerate bracket `lb = ub = 2^63` -/
theorem bisection_midpoint_overflow_iff_u64 (lb ub : Int) (h0 : 0 ≤ lb) (hle : lb ≤ ub) (hub : ub ≤ 2 ^ 63) :
    ¬ InU64 (lb + ub) ↔ lb = 2 ^ 63 ∧ ub = 2 ^ 63 := by
  simp only [InU64, u64Max]
  norm_num at hub ⊢
  omega

/-- NO OVERFLOW (A4/A5, `i64`, DiscreteUniform): `lb = min ≥ i64::MIN`, `ub` a power of two in `[2, 2^62]`, `lb < ub` -/
theorem bisection_midpoint_no_overflow_i64 (lb ub : Int) (h0 : i64Min ≤ lb) (hlt : lb < ub) (h2 : 2 ≤ ub)
    (hub : ub ≤ 2 ^ 62) : InI64 (lb + ub) ∧ InI64 (lb + 1) := by
  simp only [InI64, i64Max, i64Min] at *
  norm_num at hub ⊢
  omega

/-- the midpoint stays inside the bracket, so both successor states `(lb, mid)`, `(mid, ub)` satisfy the same bounds and A4/A5 hold for the whole search -/
theorem bisection_step_keeps_bracket (lb ub : Int) (hle : lb ≤ ub) :
    lb ≤ sdiv (lb + ub) 2 ∧ sdiv (lb + ub) 2 ≤ ub := by
  have hs : sdiv (lb + ub) 2 = Int.tdiv (lb + ub) 2 := by unfold sdiv; rw [if_neg (by norm_num)]
  rw [hs]
  rcases le_or_gt 0 (lb + ub) with h | h
  · rw [Int.tdiv_eq_ediv_of_nonneg h]; omega
  · have : Int.tdiv (lb + ub) 2 = -((-(lb + ub)) / 2) := by
      rw [← Int.tdiv_eq_ediv_of_nonneg (by omega), Int.neg_tdiv, neg_neg]
    rw [this]; omega

/-- non-vacuity (bracket `lb = 1`, `ub = 2^63`) -/
example : (0 : Int) ≤ 1 ∧ (1 : Int) < 2 ^ 63 ∧ (2 : Int) ^ 63 ≤ 2 ^ 63 := by norm_num

section generic
variable {α : Type} [Add α] [Sub α] [Mul α] [Div α] [Neg α] [LT α] [LE α] [BEq α]
  [DecidableLT α] [DecidableLE α] [OfScientific α] [Inhabited α] [RFun α]

/-! ## A6–A9 Hypergeometric -/

/-- exact overflow set of `draws + successes` in `Hypergeometric::min` (hypergeometric.rs:284); with `population ≤ i64::MAX` it is empty (`hypergeometric_min_add_in_range`) -/
theorem hypergeometric_min_add_overflow_iff (d : Hypergeometric) (hs : 0 ≤ d.f_successes) (hd : 0 ≤ d.f_draws) :
    ¬ InU64 (d.f_draws + d.f_successes) ↔ u64Max < d.f_draws + d.f_successes := by
  simp only [InU64, u64Max]; omega

/-- exact overflow set of `Hypergeometric::mode` (hypergeometric.rs:385) for an accepted distribution with
    `population ≤ u64::MAX − 2`: the additions are fine, so some intermediate overflows iff the product
    `(draws+1)·(successes+1)` exceeds `u64::MAX` -/
theorem hypergeometric_mode_overflow_iff (d : Hypergeometric) (hs : 0 ≤ d.f_successes) (hd : 0 ≤ d.f_draws)
    (hs' : d.f_successes ≤ d.f_population) (hd' : d.f_draws ≤ d.f_population) (hp : d.f_population ≤ u64Max - 2) :
    ¬ (InU64 (d.f_draws + 1) ∧ InU64 (d.f_successes + 1) ∧ InU64 ((d.f_draws + 1) * (d.f_successes + 1))
        ∧ InU64 (d.f_population + 2))
      ↔ u64Max < (d.f_draws + 1) * (d.f_successes + 1) := by
  have hm : 0 ≤ (d.f_draws + 1) * (d.f_successes + 1) := mul_nonneg (by omega) (by omega)
  simp only [InU64, u64Max] at *
  omega

/-- WITNESS with balanced parameters: `Hypergeometric::new(6·10⁹, 5·10⁹, 5·10⁹).mode()`: product
    `≈ 2.5·10¹⁹ > u64::MAX`; model (exact) `Some(4166666666)`; the wrapped machine value would be `Some(1092209322)` -/
theorem hypergeometric_mode_mul_overflow_witness_plausible :
    Hypergeometric.new (α := α) 6000000000 5000000000 5000000000 = .ok ⟨6000000000, 5000000000, 5000000000⟩ ∧
    ¬ InU64 (((⟨6000000000, 5000000000, 5000000000⟩ : Hypergeometric).f_draws + 1)
      * ((⟨6000000000, 5000000000, 5000000000⟩ : Hypergeometric).f_successes + 1)) ∧
    Hypergeometric.mode (α := α) ⟨6000000000, 5000000000, 5000000000⟩ = some 4166666666 ∧
    wrapU64 ((5000000000 + 1) * (5000000000 + 1)) / (6000000000 + 2) = 1092209322 := by
  refine ⟨rfl, by decide, ?_, by decide⟩
  rw [hypergeometric_mode_no_div_zero _ (by decide)]
  decide

/-- NO OVERFLOW (A9): in the summing branch of `sf` (`min ≤ x < max`) both `k + 1` and the model's exclusive range
    end `max + 1` (Rust: `k + 1..=self.max()`) are legal `u64` — `max = u64::MAX` would force
    `successes = draws = population = u64::MAX`, hence `min = u64::MAX` and an empty branch -/
theorem hypergeometric_sf_range_no_overflow (d : Hypergeometric) (hs : d.f_successes ≤ d.f_population)
    (hd : d.f_draws ≤ d.f_population) (hp : d.f_population ≤ u64Max) (x : Int)
    (c1 : ¬ (x < Hypergeometric.min (α := α) d)) (c2 : ¬ (Hypergeometric.max (α := α) d ≤ x)) :
    InU64 (x + 1) ∧ InU64 (Hypergeometric.max (α := α) d + 1) := by
  rw [hypergeometric_min_eq] at c1
  rw [hypergeometric_max_eq] at c2 ⊢
  simp only [InU64, u64Max] at *
  omega

/-! ## A12–A14 Categorical `binary_index` -/

/-- loop invariant of `binary_index` (categorical.rs:377): `0 ≤ low ≤ high + 1`, `−1 ≤ high ≤ isize::MAX − 1` -/
def BinIdxInv (low high : Int) : Prop := 0 ≤ low ∧ -1 ≤ high ∧ high ≤ i64Max - 1 ∧ low ≤ high + 1

/-- the invariant holds initially: `search.len() as isize − 1` neither wraps nor overflows for `len ≤ isize::MAX` (guaranteed for slices) -/
theorem categorical_binary_index_init (len : Int) (h0 : 0 ≤ len) (h1 : len ≤ i64Max) :
    wrapI64 len = len ∧ InI64 (wrapI64 len - 1) ∧ BinIdxInv 0 (wrapI64 len - 1) := by
  have : wrapI64 len = len := by unfold wrapI64; simp only [i64Max] at h1; omega
  refine ⟨this, ?_⟩
  rw [this]
  simp only [InI64, BinIdxInv, i64Max, i64Min] at *
  omega

/-- NO OVERFLOW (A12–A14): under the invariant and the loop test `low ≤ high`, every integer operation of one
    iteration — `high − low`, `/ 2`, `low + …`, `mid as usize`, `mid − 1`, `mid.saturating_add(1)` (which does not even
    saturate) — is exact, and both successor states satisfy the invariant again -/
theorem categorical_binary_index_step_no_overflow (low high : Int) (hinv : BinIdxInv low high) (hle : low ≤ high) :
    let mid := low + sdiv (high - low) 2
    InI64 (high - low) ∧ InI64 (sdiv (high - low) 2) ∧ InI64 mid ∧ low ≤ mid ∧ mid ≤ high ∧
    wrapU64 mid = mid ∧ InI64 (mid - 1) ∧ InI64 (mid + 1) ∧ Min.min (mid + 1) i64Max = mid + 1 ∧
    BinIdxInv low (mid - 1) ∧ BinIdxInv (Min.min (mid + 1) i64Max) high := by
  intro mid
  have hs : sdiv (high - low) 2 = (high - low) / 2 := by
    unfold sdiv; rw [if_neg (by norm_num)]; exact Int.tdiv_eq_ediv_of_nonneg (by omega)
  have hm : mid = low + (high - low) / 2 := by simp only [mid, hs]
  simp only [BinIdxInv, InI64, i64Max, i64Min, wrapU64] at *
  rw [hs]
  omega
end generic

/-! ## A15–A18 src/function -/

section generic
variable {α : Type} [Add α] [Sub α] [Mul α] [Div α] [Neg α] [LT α] [LE α] [BEq α]
  [DecidableLT α] [DecidableLE α] [OfScientific α] [Inhabited α] [RFun α]

/-- the integer component of the fold in `checked_multinomial` (factorial.rs:76) is `a + Σ ni` -/
theorem checked_multinomial_sum_eq (ni : List Int) : ∀ (a : Int) (b : α),
    (List.foldl (fun (acc : Int × α) x => ((acc.1 + x), (acc.2 - (F.factorial.ln_factorial (α := α) x)))) (a, b) ni).1
      = a + ni.sum := by
  induction ni with
  | nil => intro a b; simp
  | cons x t ih => intro a b; rw [List.foldl_cons, ih, List.sum_cons]; ring

/-- the model returns `None` exactly when the EXACT sum differs from `n` -/
theorem checked_multinomial_none_iff (n : Int) (ni : List Int) :
    F.factorial.checked_multinomial (α := α) n ni = none ↔ ni.sum ≠ n := by
  unfold F.factorial.checked_multinomial
  have h := checked_multinomial_sum_eq (α := α) ni 0 (F.factorial.ln_factorial (α := α) n)
  split
  rename_i s r heq
  rw [heq] at h
  simp only [zero_add] at h
  subst h
  split_ifs with hc <;> simp [hc]

/-- WITNESS (A15): `checked_multinomial(5, &[u64::MAX, 6])`: both entries are legal `u64`, the exact sum
    `2^64 + 5` is not (checked build: "attempt to add with overflow" — a `checked_*` function panicking); the
    wrapped sum is `5 = n`, so the wrapping build returns `Some(_)` where the model (and the documentation) say `None`.
    Overflow set in general: `list_sum_overflow_iff` (`Σ ni > u64::MAX`). -/
theorem checked_multinomial_overflow_witness :
    F.factorial.checked_multinomial (α := α) 5 [u64Max, 6] = none ∧
    InU64 u64Max ∧ InU64 6 ∧ ¬ InU64 ([u64Max, 6] : List Int).sum ∧ wrapU64 ([u64Max, 6] : List Int).sum = 5 := by
  refine ⟨(checked_multinomial_none_iff 5 _).mpr (by decide), by decide, by decide, by decide, by decide⟩

/-- NO OVERFLOW (A16): `MAX_FACTORIAL + 1 = 171` and the loop counter `i + 1 ≤ 171` -/
theorem fcache_index_no_overflow :
    InU64 (F.factorial.MAX_FACTORIAL (α := α) + 1) ∧
    ∀ i : Int, 0 ≤ i → i < F.factorial.MAX_FACTORIAL (α := α) + 1 → InU64 (i + 1) := by
  unfold F.factorial.MAX_FACTORIAL
  refine ⟨by decide, fun i h0 h1 => ?_⟩
  simp only [InU64, u64Max]; omega

/-- NO OVERFLOW (A17): the range end `max_iter + 1` of exponential.rs:56/:76 is the constant `101` -/
theorem exp_integral_range_end_no_overflow : InU64 ((100 : Int) + 1) := by decide

/-- NO OVERFLOW in the model (A18): the `i32` counter `c` of the continued fraction in `checked_gamma_lr`
    (gamma.rs:339) is incremented once per iteration: on exit `c < c' ≤ c + fuel` -/
theorem gamma_lr_counter_bounded : ∀ (fuel : Nat) (big big_inv eps y z : α) (c : Int) (p3 p2 q3 q2 ans : α)
    (y' z' : α) (c' : Int) (p3' p2' q3' q2' ans' : α),
    F.gamma.checked_gamma_lr.loop3 fuel big big_inv eps y z c p3 p2 q3 q2 ans
      = LoopR.done (y', z', c', p3', p2', q3', q2', ans') → c < c' ∧ c' ≤ c + fuel := by
  intro fuel
  induction fuel with
  | zero => intro _ _ _ _ _ _ _ _ _ _ _ _ _ _ _ _ _ _ _ h; simp [F.gamma.checked_gamma_lr.loop3] at h
  | succ fuel ih =>
    intro big big_inv eps y z c p3 p2 q3 q2 ans y' z' c' p3' p2' q3' q2' ans' h
    rw [F.gamma.checked_gamma_lr.loop3] at h
    simp only [] at h
    split_ifs at h
    all_goals first
      | (have := ih _ _ _ _ _ _ _ _ _ _ _ _ _ _ _ _ _ _ _ h; omega)
      | (simp only [LoopR.done.injEq, Prod.mk.injEq] at h; omega)

/-- with the generated fuel (`loopFuel = 20000`) and the initial `c = 0` the counter stays a legal `i32` -/
theorem gamma_lr_counter_in_i32 (big big_inv eps y z : α) (p3 p2 q3 q2 ans : α)
    (y' z' : α) (c' : Int) (p3' p2' q3' q2' ans' : α)
    (h : F.gamma.checked_gamma_lr.loop3 loopFuel big big_inv eps y z 0 p3 p2 q3 q2 ans
      = LoopR.done (y', z', c', p3', p2', q3', q2', ans')) : InI32 c' ∧ ∀ c : Int, 0 ≤ c → c < c' → InI32 (c + 1) := by
  have := gamma_lr_counter_bounded _ _ _ _ _ _ _ _ _ _ _ _ _ _ _ _ _ _ _ _ h
  simp only [loopFuel, InI32, i32Max, i32Min] at *
  exact ⟨by omega, fun c h0 h1 => by omega⟩

end generic

/-- non-vacuity: bracket hypotheses, accepted Hypergeometric, Categorical invariant, multinomial argument -/
example : (∃ d : Hypergeometric, 0 ≤ d.f_successes ∧ 0 ≤ d.f_draws ∧ d.f_successes ≤ d.f_population ∧
      d.f_draws ≤ d.f_population ∧ d.f_population ≤ u64Max - 2) ∧ BinIdxInv 0 4 ∧ (0 : Int) ≤ 4 ∧
    (∀ x ∈ ([2, 3] : List Int), 0 ≤ x) :=
  ⟨⟨⟨10, 5, 3⟩, by decide⟩, by unfold BinIdxInv; decide, by decide, by decide⟩

end Statrs.Props.C12
