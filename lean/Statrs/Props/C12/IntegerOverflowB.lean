/-
  C12 — integer `+` / `*` overflow, part B: src/stats_tests, src/statistics, src/generate.rs.
  Conventions as in `IntegerOverflowA.lean` (model integers are exact; each site gets `…_no_overflow` or
  `…_overflow_iff` + `…_overflow_witness`; `usize = u64`).

  SITES OF PART B  (Rust file:line — expression — machine type — verdict)

  src/stats_tests/fisher.rs  (generated `T.fisher.fishers_exact`, `…_with_odds_ratio`, `T.fisher.binary_search`)
   B1  :187 `table[0]+table[1]`, :188 `table[2]+table[3]`, :189 `table[0]+table[2]`, :192/:24 `n1+n2`,
       :202 `table[1]+table[3]`                       u64  OVERFLOW iff the table total exceeds `u64::MAX`
         (`fisher_sums_no_overflow`, `fisher_sums_overflow_iff`, `fisher_sums_overflow_witness`:
         `[u64::MAX,1,1,1]`; wrapped: `n1 = 0`, `n = 0`, `population = 2` ⇒ `Hypergeometric(2,0,0)`, p-value `1.0`).
         Only reachable with cell counts near `2^64`.
   B2  :211 `(n + 1) * (n1 + 1)`, `n1 + n2 + 2`        u64  OVERFLOW iff `(a+c+1)(a+b+1) > u64::MAX`
         (`fisher_mode_no_overflow` for totals `≤ 2^32 − 2`, `fisher_mode_overflow_iff`,
         `fisher_mode_mul_overflow_witness`: `[3·10⁹; 4]`, `TwoSided`: exact mode `3000000000`, wrapped
         `1462771327`; minimal-size witness `fisher_mode_mul_overflow_witness_sharp`: `[2^32 − 1, 0, 0, 1]`).
         REACHABLE with cell counts `≥ ~2.15·10⁹` (32-bit-overflowing but otherwise ordinary counts).
         Same expression as `Hypergeometric::mode` of the test's distribution (`fisher_mode_eq_hypergeometric_mode`).
   B3  :154 `table[0]*table[3]`, `table[1]*table[2]`  u64  OVERFLOW iff a diagonal product exceeds `u64::MAX`
         (`fisher_odds_ratio_no_overflow`, `fisher_odds_ratio_overflow_iff`, `fisher_odds_ratio_overflow_witness`:
         `[2^32, 1, 1, 2^32]`: exact ratio `2^64`, wrapped `0/1 = 0.0`; shape of the generated function:
         `fishers_exact_with_odds_ratio_eq`).  REACHABLE with two diagonal cells `≥ 2^32`.
   B4  :35 `min_val + 1`, :38 `(max_val + min_val) / 2`, :46 `guess + 1`   u64  no_overflow whenever
         `n = table[0]+table[2] ≤ i64::MAX` (`fisher_binary_search_step_no_overflow`); exact set of the midpoint:
         `fisher_binary_search_midpoint_overflow_iff` (needs `n > 2^63`: absurd sizes)
   B5  :75 `guess += 1` (upper), :83 `guess += 1` (lower)   u64  no_overflow: the increments stop at the first
         argument where the float test fails (`fisher_loop5_stops`, `fisher_loop7_stops`, every carrier); for the
         upper loop that is at the latest `draws + 1` because `pmf = 0.0` beyond `draws`
         (`fisher_loop5_increment_no_overflow`).  For the lower loop the stop point (the mode in actual use) is a
         hypothesis: `partial`.
  src/stats_tests/mannwhitneyu.rs  (generated `calc_mwu_asymptotic_pvalue`, `calc_mwu_exact_pvalue`; `mannwhitneyu`
  and `rankdata_mwu` are hand-modelled in Model/RankTests.lean — the statements below are about the expressions)
   B6  :132,:268 `n1 * n2`; :267 `n1 * (n1 + 1) / 2`   usize  OVERFLOW iff the product exceeds `u64::MAX`; no overflow
         for sample sizes `≤ 2^32 − 1` (`mwu_products_no_overflow`, `mwu_products_overflow_iff`, witness
         `n1 = n2 = 2^32`).  Only reachable with ≥ 32 GiB samples and an `O(n²)` pre-check: absurd.
   B7  :134 `x.pow(3) - x`, `.sum::<usize>()`          usize  OVERFLOW iff a tie group has `≥ 2642246` members
         (cube) — `mwu_cube_overflow_iff`, `mwu_cube_overflow_witness` (wrapped cube `1054987151320`); the whole
         tie term is in range when `n1 + n2 ≤ 2642245` (`mwu_tie_term_no_overflow`).  Reachable only through
         `mannwhitneyu` on ≥ 2.6·10⁶ values, whose comparability pre-check is `O(n²)` (hours): not replayable in 10 s.
   B8  :156 `n1 + n2`; :168 `…sum::<usize>() + k`; :169 `k * (k + 1)`; :181 `i + n - k`; :191 `a[i] += 1`;
       :194 `a[j-1] + 1`                               usize  no_overflow for `n ≤ 2^32 − 1` (`mwu_exact_index_no_overflow`)
   B9  :171 `numerator += 1`, :173 `total += 1`        i32 (inferred: only `as f64` uses)  no_overflow in the model
         (`≤ loopFuel`: `mwu_exact_counters_bounded`); on the machine `total = C(n1+n2, k)` exceeds `i32::MAX` from
         `C(65537,2)` (`k = 2`) resp. `C(59,8)` (`k = 8`) on — about 2.1·10⁹ iterations (≈ 11 s optimised), reached by
         `MannWhitneyUMethod::Automatic` for `n1 ≤ 8` or `n2 ≤ 8`: OVERFLOW candidate just outside the 10 s budget
         (`mwu_exact_total_i32_overflow_witness`; arithmetic of the witness only — that the loop ends with
         `total = C(n,k)` is not proved here).
  src/stats_tests/chisquare.rs, f_oneway.rs
   B10 chisquare.rs:72 `f_obs.iter().sum()`            usize  OVERFLOW iff `Σ f_obs > u64::MAX`
         (`chisquare_total_eq_sum`, `list_sum_overflow_iff`, `chisquare_total_overflow_witness`: `[u64::MAX, 1]`,
         wrapped total `0`).  Counts near `2^64`: absurd, but the call is cheap.
   B11 f_oneway.rs:117 `n_i.iter().sum::<usize>()`     usize  no_overflow (owned `Vec<Vec<f64>>`: `8·Σ len ≤ 2^64`):
         `f_oneway_total_no_overflow`
  src/stats_tests/ks_test.rs
   B12 :94 `j as i32 - 1`, :95 `n as i32 - j as i32`   i32  (signed `-`, not modelled either) no_overflow for
         `j < 2^31` (`ks_bt_exponents_no_overflow`); exact set of the first: `j ≡ 2^31 (mod 2^32)`
         (`ks_bt_exponent_overflow_iff`) — needs a sample of ≥ 2^31 values: absurd
   B13 :92 `0..=⌊n(1−d)⌋ as u64` — the model's exclusive end `… + 1` is an artefact of the translation (Rust's
         `RangeInclusive` never forms it): no machine operation
   B14 :134 `2 * k as usize - 1`, :142 `i as i32 + 1`, `i as u64 + 1`, :151 `i as isize - j as isize + 1`
         (Marsaglia matrix, `n < 170`) and :333 `m + n`, :335 `n + 1`, `m + 1` (two-sample lattice; hand model)
                                                       usize/i32/isize  no_overflow (`ks_small_indices_no_overflow`)
  src/statistics/slice_statistics.rs  (generated `Data.select_inplace.loop1`, `handle_rank_ties`)
   B15 :80,:81,:88,:93–:100,:122 `low + 1`; :87 `(low + high) / 2`; :105 `begin += 1`; :209 `i + 1`; :225 `prev + 1`;
       :407 `a + 1`                                    usize  no_overflow: all operands are indices `< len ≤ isize::MAX`
         (`slice_index_no_overflow`)
       :184 `percentile(p)` is `quantile(p as f64 / 100.0)`: NO integer arithmetic (`percentile_eq_quantile`);
       iter_statistics.rs, order_statistics.rs: counters are `f64`, no integer `+`/`*`.
  src/generate.rs
   B16 :221 `high_duration + low_duration`, :291 `raise_duration + fall_duration`   i64  OVERFLOW iff the exact sum
         leaves `i64` (`generate_duration_overflow_iff`, `infinite_square_duration_overflow_witness`:
         `InfiniteSquare::new(i64::MAX, 1, …)`, `infinite_triangle_duration_overflow_witness`); wrapped duration
         `i64::MIN as f64 = −2^63`.  Cheap public constructors; arguments absurd as durations.
   B17 :182 `self.i += 1` (reset at 1000)              usize  no_overflow (`sinusoidal_next_counter_no_overflow`, every
         carrier; iterated over ℝ in Props/C20/Generators.lean `sinusoidal_counter_bounded`)
       `delay as f64 * step`, `x as f64 * step`: float.
-/
import Statrs.Lemmas.IntegerOverflow
import Statrs.Props.C12.IntegerHypergeometric
import Statrs.Gen.T_fisher
import Statrs.Gen.T_mannwhitneyu
import Statrs.Gen.T_chisquare
import Statrs.Gen.S_slice_statistics
import Statrs.Gen.R_generate
set_option linter.unusedVariables false
set_option linter.unusedSectionVars false
namespace Statrs.Props.C12
open Statrs Statrs.Gen Statrs.Lemmas.IntegerPaths Statrs.Lemmas.IntegerOverflow

/-! ## B1–B3 Fisher's exact test: sums and products of the table -/

/-- NO OVERFLOW (B1): all five sums are legal `u64` when the table total is -/
theorem fisher_sums_no_overflow (a b c d : Int) (ha : 0 ≤ a) (hb : 0 ≤ b) (hc : 0 ≤ c) (hd : 0 ≤ d)
    (htot : a + b + c + d ≤ u64Max) :
    InU64 (a + b) ∧ InU64 (c + d) ∧ InU64 (a + c) ∧ InU64 ((a + b) + (c + d)) ∧ InU64 (b + d) := by
  simp only [InU64, u64Max] at *; omega

/-- OVERFLOW SET (B1): some sum leaves `u64` iff the table total exceeds `u64::MAX` -/
theorem fisher_sums_overflow_iff (a b c d : Int) (ha : 0 ≤ a) (hb : 0 ≤ b) (hc : 0 ≤ c) (hd : 0 ≤ d) :
    ¬ (InU64 (a + b) ∧ InU64 (c + d) ∧ InU64 (a + c) ∧ InU64 ((a + b) + (c + d)) ∧ InU64 (b + d))
      ↔ u64Max < a + b + c + d := by
  simp only [InU64, u64Max] at *; omega

/-- WITNESS (B1): `fishers_exact(&[u64::MAX, 1, 1, 1], _)` — none of the early-return patterns matches, every
    cell is a legal `u64`, `table[0] + table[1] = 2^64` is not.  Wrapped values: `n1 = 0`, `n2 = 2`, `n = 0`. -/
theorem fisher_sums_overflow_witness :
    InU64 u64Max ∧ InU64 1 ∧ ¬ InU64 (u64Max + 1) ∧
    wrapU64 (u64Max + 1) = 0 ∧ wrapU64 (wrapU64 (u64Max + 1) + (1 + 1)) = 2 := by
  refine ⟨by decide, by decide, by decide, by decide, by decide⟩

/-- NO OVERFLOW (B2): every intermediate of `mode = (n + 1) * (n1 + 1) / (n1 + n2 + 2)` is a legal `u64` when
    the table total is at most `2^32 − 2` -/
theorem fisher_mode_no_overflow (a b c d : Int) (ha : 0 ≤ a) (hb : 0 ≤ b) (hc : 0 ≤ c) (hd : 0 ≤ d)
    (htot : a + b + c + d ≤ 4294967294) :
    InU64 ((a + c) + 1) ∧ InU64 ((a + b) + 1) ∧ InU64 (((a + c) + 1) * ((a + b) + 1)) ∧
    InU64 (((a + b) + (c + d)) + 2) := by
  refine ⟨?_, ?_, mul_in_u64_of_le (A := 4294967295) (B := 4294967295) (by omega) (by omega) (by omega) (by omega)
    (by decide), ?_⟩ <;> (simp only [InU64, u64Max]; omega)

/-- OVERFLOW SET (B2): for a table whose total fits (`≤ u64::MAX − 2`) the additions are fine and some
    intermediate overflows iff the product `(a+c+1)(a+b+1)` exceeds `u64::MAX` -/
theorem fisher_mode_overflow_iff (a b c d : Int) (ha : 0 ≤ a) (hb : 0 ≤ b) (hc : 0 ≤ c) (hd : 0 ≤ d)
    (htot : a + b + c + d ≤ u64Max - 2) :
    ¬ (InU64 ((a + c) + 1) ∧ InU64 ((a + b) + 1) ∧ InU64 (((a + c) + 1) * ((a + b) + 1)) ∧
        InU64 (((a + b) + (c + d)) + 2))
      ↔ u64Max < ((a + c) + 1) * ((a + b) + 1) := by
  have hm : 0 ≤ ((a + c) + 1) * ((a + b) + 1) := mul_nonneg (by omega) (by omega)
  simp only [InU64, u64Max] at *
  omega

/-- WITNESS (B2): the balanced table `[3·10⁹, 3·10⁹, 3·10⁹, 3·10⁹]` (`Alternative::TwoSided`): all sums are
    legal, `(n+1)(n1+1) = (6·10⁹+1)² ≈ 3.6·10¹⁹` is not (Rust: "attempt to multiply with overflow").
    Exact mode `3000000000`; the wrapped product gives mode `1462771327`. -/
theorem fisher_mode_mul_overflow_witness :
    (3000000000 : Int) + 3000000000 + 3000000000 + 3000000000 ≤ u64Max - 2 ∧
    ¬ InU64 (((3000000000 + 3000000000) + 1) * ((3000000000 + 3000000000) + 1)) ∧
    udiv (((3000000000 + 3000000000) + 1) * ((3000000000 + 3000000000) + 1))
      (((3000000000 + 3000000000) + (3000000000 + 3000000000)) + 2) = 3000000000 ∧
    udiv (wrapU64 (((3000000000 + 3000000000) + 1) * ((3000000000 + 3000000000) + 1)))
      (((3000000000 + 3000000000) + (3000000000 + 3000000000)) + 2) = 1462771327 := by
  refine ⟨by decide, by decide, by decide, by decide⟩

/-- sharpness of `fisher_mode_no_overflow`: the table `[2^32 − 1, 0, 0, 1]` (total `2^32`, no early return:
    `table[3] ≠ 0`) has `(n+1)(n1+1) = 2^64` -/
theorem fisher_mode_mul_overflow_witness_sharp :
    ¬ InU64 (((4294967295 + 0) + 1) * ((4294967295 + 0) + 1)) ∧
    InU64 (((4294967294 + 0) + 1) * ((4294967294 + 0) + 1)) := by
  refine ⟨by decide, by decide⟩

section generic
variable {α : Type} [Add α] [Sub α] [Mul α] [Div α] [Neg α] [LT α] [LE α] [BEq α]
  [DecidableLT α] [DecidableLE α] [OfScientific α] [Inhabited α] [RFun α]

/-- the mode expression of fisher.rs:211 is `Hypergeometric::mode` of the test's distribution
    (`population = n1 + n2`, `successes = n1`, `draws = n`): same site, same overflow set as A7 -/
theorem fisher_mode_eq_hypergeometric_mode (a b c d : Int) :
    Hypergeometric.mode (α := α) ⟨(a + b) + (c + d), a + b, a + c⟩
      = some (udiv (((a + c) + 1) * ((a + b) + 1)) (((a + b) + (c + d)) + 2)) := rfl

/-- NO OVERFLOW (B3): both diagonal products are legal `u64` when all cells are `< 2^32` -/
theorem fisher_odds_ratio_no_overflow (a b c d : Int) (ha : 0 ≤ a) (hb : 0 ≤ b) (hc : 0 ≤ c) (hd : 0 ≤ d)
    (ha' : a ≤ 4294967295) (hb' : b ≤ 4294967295) (hc' : c ≤ 4294967295) (hd' : d ≤ 4294967295) :
    InU64 (a * d) ∧ InU64 (b * c) :=
  ⟨mul_in_u64_of_le ha ha' hd hd' (by decide), mul_in_u64_of_le hb hb' hc hc' (by decide)⟩

/-- OVERFLOW SET (B3) -/
theorem fisher_odds_ratio_overflow_iff (a b c d : Int) (ha : 0 ≤ a) (hb : 0 ≤ b) (hc : 0 ≤ c) (hd : 0 ≤ d) :
    ¬ (InU64 (a * d) ∧ InU64 (b * c)) ↔ u64Max < a * d ∨ u64Max < b * c := by
  rw [not_and_or, mul_overflow_iff_u64 ha hd, mul_overflow_iff_u64 hb hc]

/-- shape of the generated `fishers_exact_with_odds_ratio` on a table with `table[1], table[2] > 0` (no early
    return): the odds ratio is formed from the two exact integer products -/
theorem fishers_exact_with_odds_ratio_eq [SF α] (a b c d : Int) (hb : 0 < b) (hc : 0 < c) (alt : Alternative) :
    T.fisher.fishers_exact_with_odds_ratio (α := α) [a, b, c, d] alt
      = (match T.fisher.fishers_exact (α := α) [a, b, c, d] alt with
          | .error e => .error e
          | .ok p => .ok ((RFun.ofInt (a * d) : α) / (RFun.ofInt (b * c) : α), p)) := by
  unfold T.fisher.fishers_exact_with_odds_ratio
  split
  · rename_i h; simp at h; omega
  · rename_i h; simp at h; omega
  · rename_i h; simp at h; omega
  · rename_i h; simp at h; omega
  · have hbc : 0 < b ∧ 0 < c := ⟨hb, hc⟩
    cases T.fisher.fishers_exact (α := α) [a, b, c, d] alt <;> simp [listGet, hbc]

/-- WITNESS (B3): `fishers_exact_with_odds_ratio(&[2^32, 1, 1, 2^32], _)`: cells legal, `table[0]*table[3] = 2^64`
    is not (checked build: "attempt to multiply with overflow" before anything else is computed); the model's odds
    ratio is `2^64 / 1`, the wrapping build's is `0 / 1 = 0.0`. -/
theorem fisher_odds_ratio_overflow_witness [SF α] (alt : Alternative) :
    InU64 4294967296 ∧ ¬ InU64 (4294967296 * 4294967296) ∧ wrapU64 (4294967296 * 4294967296) = 0 ∧
    T.fisher.fishers_exact_with_odds_ratio (α := α) [4294967296, 1, 1, 4294967296] alt
      = (match T.fisher.fishers_exact (α := α) [4294967296, 1, 1, 4294967296] alt with
          | .error e => .error e
          | .ok p => .ok ((RFun.ofInt 18446744073709551616 : α) / (RFun.ofInt 1 : α), p)) := by
  refine ⟨by decide, by decide, by decide, ?_⟩
  rw [fishers_exact_with_odds_ratio_eq _ _ _ _ (by decide) (by decide)]
  rfl

end generic


/-! ## B4 `binary_search`: the bisection step -/

/-- NO OVERFLOW (B4): in an iteration that does not `break` (`max_val − min_val > 1`) with `0 ≤ min_val`,
    `max_val ≤ n ≤ i64::MAX`, the operations `min_val + 1`, `max_val + min_val`, `guess + 1` (and `guess − 1`)
    are exact, the special case `max_val == min_val + 1 && …` is not taken, and the new `guess` lies strictly
    between the bounds — so both successor states satisfy the same hypotheses. -/
theorem fisher_binary_search_step_no_overflow (min_val max_val n guess0 : Int) (h0 : 0 ≤ min_val)
    (hle : max_val ≤ n) (hn : n ≤ i64Max) (hcont : ¬ (usub max_val min_val ≤ 1)) :
    let guess := (if ((max_val = (min_val + 1)) ∧ (guess0 = min_val)) then max_val
                  else (udiv (max_val + min_val) 2))
    InU64 (min_val + 1) ∧ InU64 (max_val + min_val) ∧ guess = (max_val + min_val) / 2 ∧
    min_val < guess ∧ guess < max_val ∧ InU64 (guess + 1) ∧ InU64 (guess - 1) := by
  intro guess
  have h2 : min_val + 2 ≤ max_val := by
    unfold usub panicInt at hcont
    split_ifs at hcont with hlt
    · norm_num at hcont
    · omega
  have hg : guess = (max_val + min_val) / 2 := by
    simp only [guess]
    rw [if_neg (by omega), udiv_of_ne (by norm_num)]
  simp only [InU64, u64Max, i64Max] at *
  rw [hg]
  omega

/-- exact overflow set of the midpoint sum (`0 ≤ min_val ≤ max_val ≤ u64::MAX`) — non-empty only when
    `max_val > 2^63`, i.e. `table[0] + table[2] > 9.2·10¹⁸` -/
theorem fisher_binary_search_midpoint_overflow_iff (min_val max_val : Int) (h0 : 0 ≤ min_val)
    (hle : min_val ≤ max_val) (hm : max_val ≤ u64Max) :
    ¬ InU64 (max_val + min_val) ↔ u64Max < max_val + min_val := by
  simp only [InU64, u64Max] at *; omega

/-- the set is non-empty inside `u64` (absurd size): `max_val = u64::MAX`, `min_val = 1` -/
theorem fisher_binary_search_midpoint_overflow_witness : InU64 u64Max ∧ InU64 1 ∧ ¬ InU64 (u64Max + 1) := by
  refine ⟨by decide, by decide, by decide⟩

section generic
variable {α : Type} [Add α] [Sub α] [Mul α] [Div α] [Neg α] [LT α] [LE α] [BEq α]
  [DecidableLT α] [DecidableLE α] [OfScientific α] [Inhabited α] [RFun α]

/-! ## B5 the `guess += 1` loops -/

/-- upper loop (fisher.rs:73): the increments stop at the latest at any `m ≥ guess` where the test
    `dist.pmf(m) > p_exact / epsilon` fails: the result and every incremented value are `≤ m` -/
theorem fisher_loop5_stops [SF α] (d : Hypergeometric) (eps pe : α) (m : Int)
    (hm : ¬ ((pe / eps) < Hypergeometric.pmf (α := α) d m)) : ∀ (fuel : Nat) (guess g : Int), guess ≤ m →
    T.fisher.binary_search.loop5 (α := α) fuel d eps pe guess = LoopR.done g → guess ≤ g ∧ g ≤ m := by
  intro fuel
  induction fuel with
  | zero => intro guess g _ h; simp [T.fisher.binary_search.loop5] at h
  | succ fuel ih =>
    intro guess g hle h
    rw [T.fisher.binary_search.loop5] at h
    by_cases ht : (pe / eps) < Hypergeometric.pmf (α := α) d guess
    · rw [if_pos ht] at h
      have hne : guess ≠ m := fun e => hm (e ▸ ht)
      have := ih (guess + 1) g (by omega) h
      omega
    · rw [if_neg ht] at h
      injection h with h
      omega

/-- lower loop (fisher.rs:81): same with the test `dist.pmf(m) < p_exact * epsilon` -/
theorem fisher_loop7_stops [SF α] (d : Hypergeometric) (eps pe : α) (m : Int)
    (hm : ¬ (Hypergeometric.pmf (α := α) d m < (pe * eps))) : ∀ (fuel : Nat) (guess g : Int), guess ≤ m →
    T.fisher.binary_search.loop7 (α := α) fuel d eps pe guess = LoopR.done g → guess ≤ g ∧ g ≤ m := by
  intro fuel
  induction fuel with
  | zero => intro guess g _ h; simp [T.fisher.binary_search.loop7] at h
  | succ fuel ih =>
    intro guess g hle h
    rw [T.fisher.binary_search.loop7] at h
    by_cases ht : Hypergeometric.pmf (α := α) d guess < (pe * eps)
    · rw [if_pos ht] at h
      have hne : guess ≠ m := fun e => hm (e ▸ ht)
      have := ih (guess + 1) g (by omega) h
      omega
    · rw [if_neg ht] at h
      injection h with h
      omega

/-- NO OVERFLOW (B5, upper loop, every carrier in which `p_exact / epsilon < 0.0` is false — over ℝ and IEEE
    for `p_exact ≥ 0`, `epsilon > 0`): `pmf` is the literal `0.0` beyond `draws`, so the loop stops at `draws + 1`
    at the latest and every value it forms is a legal `u64` (for `draws < u64::MAX`) -/
theorem fisher_loop5_increment_no_overflow [SF α] (d : Hypergeometric) (eps pe : α)
    (hstop : ¬ ((pe / eps) < (0.0 : α))) (hd : d.f_draws < u64Max) (fuel : Nat) (guess g : Int)
    (h0 : 0 ≤ guess) (hle : guess ≤ d.f_draws + 1)
    (h : T.fisher.binary_search.loop5 (α := α) fuel d eps pe guess = LoopR.done g) :
    guess ≤ g ∧ g ≤ d.f_draws + 1 ∧ InU64 g := by
  have hp : Hypergeometric.pmf (α := α) d (d.f_draws + 1) = (0.0 : α) := by
    unfold Hypergeometric.pmf; rw [if_pos (by omega)]
  obtain ⟨a, b⟩ := fisher_loop5_stops d eps pe (d.f_draws + 1) (by rw [hp]; exact hstop) fuel guess g hle h
  refine ⟨a, b, ?_⟩
  simp only [InU64, u64Max] at *; omega

end generic

/-! ## B6–B9 Mann–Whitney U -/

/-- NO OVERFLOW (B6): `n1 * n2` and `n1 * (n1 + 1)` for sample sizes `≤ 2^32 − 1` -/
theorem mwu_products_no_overflow (n1 n2 : Int) (h1 : 0 ≤ n1) (h2 : 0 ≤ n2) (h1' : n1 ≤ 4294967295)
    (h2' : n2 ≤ 4294967295) : InU64 (n1 * n2) ∧ InU64 (n1 + 1) ∧ InU64 (n1 * (n1 + 1)) :=
  ⟨mul_in_u64_of_le h1 h1' h2 h2' (by decide), by simp only [InU64, u64Max]; omega,
   mul_in_u64_of_le (A := 4294967295) (B := 4294967296) h1 h1' (by omega) (by omega) (by decide)⟩

/-- OVERFLOW SET (B6) -/
theorem mwu_products_overflow_iff (n1 n2 : Int) (h1 : 0 ≤ n1) (h2 : 0 ≤ n2) :
    (¬ InU64 (n1 * n2) ↔ u64Max < n1 * n2) ∧ (¬ InU64 (n1 * (n1 + 1)) ↔ u64Max < n1 * (n1 + 1)) :=
  ⟨mul_overflow_iff_u64 h1 h2, mul_overflow_iff_u64 h1 (by omega)⟩

/-- witness (absurd sizes): `n1 = n2 = 2^32` -/
theorem mwu_products_overflow_witness :
    InU64 4294967296 ∧ ¬ InU64 (4294967296 * 4294967296) ∧ ¬ InU64 (4294967296 * (4294967296 + 1)) := by
  refine ⟨by decide, by decide, by decide⟩

/-- OVERFLOW SET (B7): `x.pow(3)` on `usize` overflows exactly from `x = 2642246` on -/
theorem mwu_cube_overflow_iff (x : Int) (hx : 0 ≤ x) : ¬ InU64 (x ^ 3) ↔ 2642246 ≤ x := by
  have h0 : 0 ≤ x ^ 3 := by positivity
  simp only [InU64, u64Max]
  constructor
  · intro h
    by_contra hlt
    have hx' : x ≤ 2642245 := by omega
    have : x ^ 3 ≤ 2642245 ^ 3 := pow_le_pow_left₀ hx hx' 3
    norm_num at this
    omega
  · intro h hin
    have : (2642246 : Int) ^ 3 ≤ x ^ 3 := pow_le_pow_left₀ (by norm_num) h 3
    norm_num at this
    omega

/-- WITNESS (B7): a tie group of `2642246` equal observations: `t = [2642246, 0, …]`; the wrapped cube is
    `1054987151320` (so the wrapping build's tie term is `1054984509074` instead of `≈ 1.8·10¹⁹`) -/
theorem mwu_cube_overflow_witness :
    InU64 2642246 ∧ ¬ InU64 ((2642246 : Int) ^ 3) ∧ InU64 ((2642245 : Int) ^ 3) ∧
    wrapU64 ((2642246 : Int) ^ 3) = 1054987151320 := by
  refine ⟨by decide, by decide, by decide, by decide⟩

/-- the summand `x³ − x` never underflows and is bounded by the cube -/
theorem mwu_tie_summand (x : Int) (hx : 0 ≤ x) : usub (x ^ 3) x = x ^ 3 - x ∧ 0 ≤ x ^ 3 - x ∧ x ^ 3 - x ≤ x ^ 3 := by
  have h : x ≤ x ^ 3 := by
    rcases eq_or_lt_of_le hx with h | h
    · subst h; norm_num
    · nlinarith [mul_pos h h, sq_nonneg (x - 1)]
  exact ⟨usub_of_le h, by omega, by omega⟩

/-- `Σ (x³ − x) ≤ (Σ x)³` for non-negative tie counts -/
theorem mwu_tie_sum_le (t : List Int) (h0 : ∀ x ∈ t, 0 ≤ x) :
    0 ≤ t.sum ∧ 0 ≤ (t.map (fun x => usub (x ^ (Int.toNat 3)) x)).sum ∧
    (t.map (fun x => usub (x ^ (Int.toNat 3)) x)).sum ≤ t.sum ^ 3 := by
  induction t with
  | nil => simp
  | cons x l ih =>
    have hx : 0 ≤ x := h0 x (by simp)
    obtain ⟨a, b, c⟩ := ih (fun y hy => h0 y (by simp [hy]))
    obtain ⟨e, p, q⟩ := mwu_tie_summand x hx
    have e' : usub (x ^ (Int.toNat 3)) x = x ^ 3 - x := e
    simp only [List.sum_cons, List.map_cons, e']
    refine ⟨by omega, by omega, ?_⟩
    have : x ^ 3 + l.sum ^ 3 ≤ (x + l.sum) ^ 3 := by
      nlinarith [mul_nonneg hx a, mul_nonneg (mul_nonneg hx a) hx, mul_nonneg (mul_nonneg hx a) a]
    omega

section generic
variable {α : Type} [Add α] [Sub α] [Mul α] [Div α] [Neg α] [LT α] [LE α] [BEq α]
  [DecidableLT α] [DecidableLE α] [OfScientific α] [Inhabited α] [RFun α]

/-- NO OVERFLOW (B7): when the tie counts are non-negative and sum to `n ≤ 2642245` (they sum to `n1 + n2`),
    every cube, every summand and every partial sum of the tie term of `calc_mwu_asymptotic_pvalue` is a legal
    `usize` -/
theorem mwu_tie_term_no_overflow (t : List Int) (h0 : ∀ x ∈ t, 0 ≤ x) (hn : t.sum ≤ 2642245) :
    (∀ x ∈ t, InU64 (x ^ 3) ∧ usub (x ^ 3) x = x ^ 3 - x) ∧
    ∀ k, InU64 (((t.map (fun x => usub (x ^ (Int.toNat 3)) x)).take k).sum) := by
  constructor
  · intro x hx
    have hx0 := h0 x hx
    have hle : x ≤ t.sum := List.single_le_sum h0 x hx
    have : ¬ ¬ InU64 (x ^ 3) := by rw [mwu_cube_overflow_iff x hx0]; omega
    exact ⟨not_not.mp this, (mwu_tie_summand x hx0).1⟩
  · intro k
    obtain ⟨a, b, c⟩ := mwu_tie_sum_le t h0
    have hc : t.sum ^ 3 ≤ 2642245 ^ 3 := pow_le_pow_left₀ a hn 3
    refine list_sum_no_overflow _ ?_ ?_ k
    · intro y hy
      simp only [List.mem_map] at hy
      obtain ⟨x, hx, rfl⟩ := hy
      have := mwu_tie_summand x (h0 x hx)
      have e' : usub (x ^ (Int.toNat 3)) x = x ^ 3 - x := this.1
      rw [e']; exact this.2.1
    · simp only [u64Max]; norm_num at hc; omega

/-- the generated tie term is that list sum -/
theorem mwu_tie_term_eq_sum (t : List Int) :
    List.foldl (· + ·) (0 : Int) (List.map (fun x => (usub (x ^ (Int.toNat (3 : Int))) x)) t)
      = (t.map (fun x => usub (x ^ (Int.toNat 3)) x)).sum := by
  rw [foldl_add_eq_sum]; simp

/-- NO OVERFLOW (B8): index arithmetic of `calc_mwu_exact_pvalue` for `n = n1 + n2 ≤ 2^32 − 1`, `k = min n1 n2`,
    entries `0 ≤ a[i] ≤ n − 1`, `i < k`: `n1 + n2`, `r1 = Σ a[0..k] + k`, `k * (k + 1)`, `i + n`, `a[i] + 1` -/
theorem mwu_exact_index_no_overflow (n1 n2 : Int) (a : List Int) (h1 : 0 ≤ n1) (h2 : 0 ≤ n2)
    (hn : n1 + n2 ≤ 4294967295) (ha : ∀ x ∈ a, 0 ≤ x ∧ x ≤ n1 + n2 - 1) (hlen : (a.length : Int) = n1 + n2)
    (i : Int) (hi0 : 0 ≤ i) (hik : i < min n1 n2) :
    InU64 (n1 + n2) ∧
    (∀ j, InU64 ((a.take (Int.toNat (min n1 n2))).take j).sum) ∧
    InU64 ((a.take (Int.toNat (min n1 n2))).sum + min n1 n2) ∧
    InU64 (min n1 n2 + 1) ∧ InU64 (min n1 n2 * (min n1 n2 + 1)) ∧
    InU64 (i + (n1 + n2)) ∧ (∀ x ∈ a, InU64 (x + 1)) := by
  set k := min n1 n2 with hk
  have hk0 : 0 ≤ k := by omega
  have hkn : k ≤ n1 + n2 := by omega
  have hsum : (a.take (Int.toNat k)).sum ≤ k * (n1 + n2 - 1) := by
    have h := List.sum_le_card_nsmul (a.take (Int.toNat k)) (n1 + n2 - 1)
      (fun x hx => (ha x (List.mem_of_mem_take hx)).2)
    have hl : ((a.take (Int.toNat k)).length : Int) ≤ k := by
      rw [List.length_take]; omega
    rw [nsmul_eq_mul] at h
    have hnn : 0 ≤ n1 + n2 - 1 ∨ n1 + n2 - 1 < 0 := by omega
    rcases hnn with hnn | hnn
    · exact le_trans h (mul_le_mul_of_nonneg_right hl hnn)
    · have : k = 0 := by omega
      rw [this]; simp
  have hsum0 : ∀ x ∈ a.take (Int.toNat k), 0 ≤ x := fun x hx => (ha x (List.mem_of_mem_take hx)).1
  have hkk : k * (n1 + n2 - 1) + k ≤ 4294967295 * 4294967295 := by nlinarith
  have hS0 : 0 ≤ (a.take (Int.toNat k)).sum := List.sum_nonneg hsum0
  refine ⟨by simp only [InU64, u64Max]; omega, ?_, ?_, by simp only [InU64, u64Max]; omega, ?_,
    by simp only [InU64, u64Max]; omega, ?_⟩
  · intro j
    exact list_sum_no_overflow _ hsum0 (by simp only [u64Max]; omega) j
  · simp only [InU64, u64Max]; omega
  · exact mul_in_u64_of_le (A := 4294967295) (B := 4294967296) hk0 (by omega) (by omega) (by omega) (by decide)
  · intro x hx
    have := ha x hx
    simp only [InU64, u64Max]; omega

end generic

section generic
variable {α : Type} [Add α] [Sub α] [Mul α] [Div α] [Neg α] [LT α] [LE α] [BEq α]
  [DecidableLT α] [DecidableLE α] [OfScientific α] [Inhabited α] [RFun α]

/-- NO OVERFLOW in the model (B9): `total` is incremented once per enumerated combination and `numerator` at
    most once: on exit `total < total' ≤ total + fuel`, `numerator ≤ numerator' ≤ numerator + fuel` -/
theorem mwu_exact_counters_bounded (k n : Int) (u : α) : ∀ (fuel : Nat) (num tot : Int) (a : List Int)
    (num' tot' : Int) (a' : List Int),
    T.mannwhitneyu.calc_mwu_exact_pvalue.loop1 (α := α) fuel k n u num tot a = LoopR.done (num', tot', a') →
    tot < tot' ∧ tot' ≤ tot + fuel ∧ num ≤ num' ∧ num' ≤ num + fuel := by
  intro fuel
  induction fuel with
  | zero => intro _ _ _ _ _ _ h; simp [T.mannwhitneyu.calc_mwu_exact_pvalue.loop1] at h
  | succ fuel ih =>
    intro num tot a num' tot' a' h
    rw [T.mannwhitneyu.calc_mwu_exact_pvalue.loop1] at h
    simp only [] at h
    split at h
    · simp at h
    · simp at h
    · split_ifs at h with c1 c2
      all_goals first
        | (simp only [LoopR.done.injEq, Prod.mk.injEq] at h; omega)
        | (split at h
           · simp at h
           · simp at h
           · have := ih _ _ _ _ _ _ h; omega)

end generic

/-- WITNESS (B9, machine only): `numerator` and `total` are `i32` (integer-literal fallback: they are only
    incremented and cast `as f64`), and `total` ends as the number of `k`-subsets `C(n1+n2, min n1 n2)`.  With
    `MannWhitneyUMethod::Automatic` the exact path is taken whenever `n1 ≤ 8` or `n2 ≤ 8` and there are no ties:
    `n1 = 2, n2 = 65535` gives `C(65537, 2) = 2147516416 > i32::MAX` (the smallest case for `k = 2`), and
    `n1 = 8, n2 = 51` gives `C(59, 8) = 2217471399 > i32::MAX` (smallest for `k = 8`).  The wrapped total is negative
    (`−2147450880`), making `numerator / total` negative.  Needs `≈ 2.1·10⁹` loop iterations (tens of seconds). -/
theorem mwu_exact_total_i32_overflow_witness :
    Nat.choose 65537 2 = 2147516416 ∧ ¬ InI32 2147516416 ∧ InI32 (Nat.choose 65536 2) ∧
    wrapI32 2147516416 = -2147450880 ∧
    Nat.choose 59 8 = 2217471399 ∧ ¬ InI32 2217471399 ∧ InI32 (Nat.choose 58 8) := by
  have e1 : Nat.choose 65537 2 = 2147516416 := by rw [Nat.choose_two_right]
  have e2 : Nat.choose 65536 2 = 2147450880 := by rw [Nat.choose_two_right]
  have e3 : Nat.choose 59 8 = 2217471399 := by
    rw [Nat.choose_eq_descFactorial_div_factorial]; norm_num [Nat.descFactorial, Nat.factorial]
  have e4 : Nat.choose 58 8 = 1916797311 := by
    rw [Nat.choose_eq_descFactorial_div_factorial]; norm_num [Nat.descFactorial, Nat.factorial]
  rw [e2, e4]
  exact ⟨e1, by decide, by decide, by decide, e3, by decide, by decide⟩

/-! ## B10/B11 chisquare, f_oneway -/

section generic
variable {α : Type} [Add α] [Sub α] [Mul α] [Div α] [Neg α] [LT α] [LE α] [BEq α]
  [DecidableLT α] [DecidableLE α] [OfScientific α] [Inhabited α] [RFun α]

/-- the generated `total_samples` (chisquare.rs:72) is the exact list sum; its overflow set is
    `list_sum_overflow_iff`: `Σ f_obs > usize::MAX` -/
theorem chisquare_total_eq_sum (f_obs : List Int) : List.foldl (· + ·) (0 : Int) f_obs = f_obs.sum := by
  rw [foldl_add_eq_sum]; simp

end generic

/-- WITNESS (B10): `chisquare(&[usize::MAX, 1], None, None)`: both counts legal, the sum is `2^64`
    (checked build: "attempt to add with overflow"); wrapped total `0` ⇒ expected frequencies `0/2 = 0` -/
theorem chisquare_total_overflow_witness :
    (∀ x ∈ ([u64Max, 1] : List Int), InU64 x) ∧ u64Max < ([u64Max, 1] : List Int).sum ∧
    (∃ k, ¬ InU64 (([u64Max, 1] : List Int).take k).sum) ∧ wrapU64 ([u64Max, 1] : List Int).sum = 0 := by
  refine ⟨by decide, by decide, ⟨2, by decide⟩, by decide⟩

/-- NO OVERFLOW (B11): `f_oneway` owns its samples (`Vec<Vec<f64>>`), so `8·Σ len` bytes are simultaneously
    allocated and `Σ len ≤ 2^61`: no partial sum of the lengths overflows -/
theorem f_oneway_total_no_overflow (n_i : List Int) (h0 : ∀ x ∈ n_i, 0 ≤ x) (hmem : 8 * n_i.sum ≤ 2 ^ 64) (k : Nat) :
    InU64 (n_i.take k).sum :=
  list_sum_no_overflow n_i h0 (by simp only [u64Max]; norm_num at hmem; omega) k

/-! ## B12–B14 ks_test -/

/-- NO OVERFLOW (B12): for `j < 2^31` (loop index of the Birnbaum–Tingey sum; `j ≤ n`) the cast `j as i32` is
    exact and both `i32` subtractions `j as i32 − 1`, `n as i32 − j as i32` (`n as i32 ∈ [0, i32::MAX]`,
    saturating cast of a sample size) stay in range -/
theorem ks_bt_exponents_no_overflow (j ni : Int) (hj0 : 0 ≤ j) (hj : j < 2147483648) (hn0 : 0 ≤ ni) (hn : ni ≤ i32Max) :
    wrapI32 j = j ∧ InI32 (wrapI32 j - 1) ∧ InI32 (ni - wrapI32 j) := by
  have : wrapI32 j = j := by unfold wrapI32; omega
  refine ⟨this, ?_⟩
  rw [this]
  simp only [InI32, i32Max, i32Min] at *
  omega

/-- exact overflow set of `j as i32 − 1` over all `u64` indices: `j ≡ 2^31 (mod 2^32)` -/
theorem ks_bt_exponent_overflow_iff (j : Int) (hj0 : 0 ≤ j) :
    ¬ InI32 (wrapI32 j - 1) ↔ j % 4294967296 = 2147483648 := by
  unfold wrapI32
  simp only [InI32, i32Max, i32Min]
  omega

/-- witness (absurd: needs `n ≥ 2^31` observations): `j = 2^31` -/
theorem ks_bt_exponent_overflow_witness : wrapI32 2147483648 = i32Min ∧ ¬ InI32 (wrapI32 2147483648 - 1) := by
  refine ⟨by decide, by decide⟩

/-- NO OVERFLOW (B14): the Marsaglia–Tsang–Wang matrix indices (`n < 170`, `1 ≤ k ≤ 170`, `m = 2k − 1`,
    `i, j < m`) and the two-sample lattice sizes (`m, n ≤ 2^60`: lengths of `f64` slices) -/
theorem ks_small_indices_no_overflow (k i j : Int) (hk1 : 1 ≤ k) (hk : k ≤ 170) (hi0 : 0 ≤ i) (hi : i < 2 * k - 1)
    (hj0 : 0 ≤ j) (hj : j < 2 * k - 1) (m n : Int) (hm0 : 0 ≤ m) (hm : m ≤ 2 ^ 60) (hn0 : 0 ≤ n) (hn : n ≤ 2 ^ 60) :
    InU64 (2 * k) ∧ usub (2 * k) 1 = 2 * k - 1 ∧ InI32 (i + 1) ∧ InU64 (i + 1) ∧ InI64 (i - j) ∧ InI64 (i - j + 1) ∧
    InU64 (m + n) ∧ InU64 (n + 1) ∧ InU64 (m + 1) := by
  have hu : usub (2 * k) 1 = 2 * k - 1 := usub_of_le (by omega)
  refine ⟨?_, hu, ?_, ?_, ?_, ?_, ?_, ?_, ?_⟩ <;>
    (simp only [InU64, InI32, InI64, u64Max, i32Max, i32Min, i64Max, i64Min]; norm_num at hm hn ⊢; omega)

/-! ## B15 slice statistics -/

/-- NO OVERFLOW (B15): every `+ 1` on an index `< len` and the midpoint `(low + high) / 2` of
    `select_inplace` (`low ≤ high < len ≤ isize::MAX`) are exact; the midpoint stays inside `[low, high]` -/
theorem slice_index_no_overflow (low high len : Int) (h0 : 0 ≤ low) (hle : low ≤ high) (hh : high < len)
    (hlen : len ≤ i64Max) :
    InU64 (low + 1) ∧ InU64 (high + 1) ∧ InU64 (low + high) ∧ udiv (low + high) 2 = (low + high) / 2 ∧
    low ≤ (low + high) / 2 ∧ (low + high) / 2 ≤ high := by
  refine ⟨?_, ?_, ?_, udiv_of_ne (by norm_num), ?_, ?_⟩ <;>
    (simp only [InU64, u64Max, i64Max] at *; omega)

section generic
variable {α : Type} [Add α] [Sub α] [Mul α] [Div α] [Neg α] [LT α] [LE α] [BEq α]
  [DecidableLT α] [DecidableLE α] [OfScientific α] [Inhabited α] [RFun α]

/-- `percentile(p)` is `quantile(p as f64 / 100.0)`: there is NO integer arithmetic on `p`
    (no `(p * n) / 100`), hence nothing to overflow -/
theorem percentile_eq_quantile (self : Data α) (p : Int) :
    Data.percentile self p = Data.quantile self ((RFun.ofInt p : α) / (100.0 : α)) := by
  unfold Data.percentile
  rfl

/-! ## B16/B17 generate.rs -/

/-- OVERFLOW SET (B16): `high_duration + low_duration` / `raise_duration + fall_duration` on `i64` -/
theorem generate_duration_overflow_iff (x y : Int) (hx : InI64 x) (hy : InI64 y) :
    ¬ InI64 (x + y) ↔ (i64Max < x + y ∨ x + y < i64Min) := by
  simp only [InI64, i64Max, i64Min] at *; omega

/-- NO OVERFLOW (B16) for durations both in `[−2^62, 2^62)` -/
theorem generate_duration_no_overflow (x y : Int) (hx : -(2 ^ 62) ≤ x ∧ x < 2 ^ 62) (hy : -(2 ^ 62) ≤ y ∧ y < 2 ^ 62) :
    InI64 (x + y) := by
  simp only [InI64, i64Max, i64Min]; norm_num at hx hy; omega

/-- shape of the generated constructors: the sum is formed in (exact) integers and then cast -/
theorem infinite_square_new_duration (h l : Int) (hv lv : α) (dl : Int) :
    InfiniteSquare.new (α := α) h l hv lv dl
      = ⟨InfinitePeriodic.new (α := α) (1.0 : α) ((1.0 : α) / (RFun.ofInt (h + l) : α)) (RFun.ofInt (h + l) : α)
          (0.0 : α) dl, (RFun.ofInt h : α), hv, lv⟩ := rfl

/-- WITNESS (B16): `InfiniteSquare::new(i64::MAX, 1, hv, lv, delay)`: both durations are legal `i64`, the sum
    `2^63` is not (checked build: "attempt to add with overflow"); the model's period is `2^63`, the wrapping
    build's is `i64::MIN as f64 = −2^63` -/
theorem infinite_square_duration_overflow_witness (hv lv : α) (dl : Int) :
    InI64 i64Max ∧ InI64 1 ∧ ¬ InI64 (i64Max + 1) ∧ wrapI64 (i64Max + 1) = i64Min ∧
    (InfiniteSquare.new (α := α) i64Max 1 hv lv dl).f_periodic
      = InfinitePeriodic.new (α := α) (1.0 : α) ((1.0 : α) / (RFun.ofInt 9223372036854775808 : α))
          (RFun.ofInt 9223372036854775808 : α) (0.0 : α) dl := by
  refine ⟨by decide, by decide, by decide, by decide, rfl⟩

/-- WITNESS (B16): `InfiniteTriangle::new(i64::MAX, 1, …)` likewise -/
theorem infinite_triangle_duration_overflow_witness (hv lv : α) (dl : Int) :
    ¬ InI64 (i64Max + 1) ∧
    (InfiniteTriangle.new (α := α) i64Max 1 hv lv dl).f_periodic
      = InfinitePeriodic.new (α := α) (1.0 : α) ((1.0 : α) / (RFun.ofInt 9223372036854775808 : α))
          (RFun.ofInt 9223372036854775808 : α) (0.0 : α) dl := by
  refine ⟨by decide, rfl⟩

/-- NO OVERFLOW (B17, every carrier): the sinusoidal sample counter satisfies `0 ≤ i < 1000` after `new` and
    after every `next`, so `self.i += 1` is at most `1000` -/
theorem sinusoidal_next_counter_no_overflow (s : InfiniteSinusoidal α) (h0 : 0 ≤ s.f_i) (h1 : s.f_i < 1000) :
    InU64 (s.f_i + 1) ∧ 0 ≤ (InfiniteSinusoidal.next s).2.f_i ∧ (InfiniteSinusoidal.next s).2.f_i < 1000 := by
  refine ⟨by simp only [InU64, u64Max]; omega, ?_⟩
  by_cases hc : s.f_i + 1 = 1000
  · simp only [InfiniteSinusoidal.next, if_pos hc]; omega
  · simp only [InfiniteSinusoidal.next, if_neg hc]; omega

theorem sinusoidal_new_counter (sr fr am me ph : α) (dl : Int) :
    (InfiniteSinusoidal.new (α := α) sr fr am me ph dl).f_i = 0 := rfl

end generic

/-- non-vacuity of the hypotheses used above -/
example : (∀ x ∈ ([3, 0, 2] : List Int), 0 ≤ x) ∧ ([3, 0, 2] : List Int).sum ≤ 2642245 ∧
    (0 : Int) ≤ 2 ∧ (2 : Int) ≤ 7 ∧ (7 : Int) < 8 ∧ (8 : Int) ≤ i64Max ∧ InI64 5 ∧ InI64 (-5) := by decide

end Statrs.Props.C12
