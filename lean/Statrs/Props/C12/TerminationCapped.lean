/-
  C12 — loops with an iteration cap in the source never hang (items 2, 3, 5 of the PM brief).

  * `checked_beta_reg` (beta.rs:138–234, modified Lentz, `for m in 1..141`): the lifted loop is driven by the
    list `1..=140`, so it returns `ret`/`done` for EVERY carrier (`beta_reg_loop1_ret_or_done`, with the iteration
    count `≤ l.length`), and the function returns `Ok _` on its whole documented domain
    (`checked_beta_reg_ok` ∀α under the model's own guard outcomes, `checked_beta_reg_ok_real` for
    `a, b > 0`, `0 ≤ x ≤ 1`).  Non-convergence within 140 iterations is silent (the last `h` is returned).
  * `F.exponential.integral` (exponential.rs:27–84; continued fraction `1..=100`, series `1..=100`, inner `ψ` loop):
    all three lifted loops return `ret (some _)`/`done` for every carrier; the function returns `Some`/`None`,
    `None` only by exhausting the 100 iterations (`expint_cf_total`, `expint_series_total`).
  * `F.evaluate.polynomial` (Horner, used by `erf`, `erf_inv`, …): list-driven, never hangs; `erf_inv`/`erfc_inv`
    contain no other loop (`erf_inv_impl` is straight-line code around `polynomial`): `polynomial_loop1_done`.
  * `F.gamma.inv_digamma` (gamma.rs:412–432, `while i > 1e-15 { …; i /= 2 }`): in EXACT REAL ARITHMETIC the loop
    performs exactly 50 iterations for every `x` (`2⁻⁴⁹ > 1e-15 ≥ 2⁻⁵⁰`), whatever `digamma` returns
    (`inv_digamma_loop1_run`, `inv_digamma_no_hang`).  (Halving is exact in IEEE arithmetic too, but rounding
    is not modelled here.)
  * `F.gamma.digamma`: the shift loop `while z < 12` performs `⌈12 − x⌉ ≤ 12` iterations for `x > 0`
    (`Props/C11/TransferDigamma.lean: digamma_loop1_real`, `digammaShift_le_twelve`); restated as
    `digamma_loop1_no_hang` for every start `z` with `12 − z ≤ fuel − 1`.
  * NOT covered: `inv_beta_reg` (three nested uncapped `loop`s; the hand model `Model/FHand.lean` is over `Float`
    only, so nothing can be said over ℝ).
-/
import Mathlib.Tactic
import Statrs.Real.Simp
import Statrs.Props.C11.BranchPinsBeta
import Statrs.Props.C11.BranchPinsMisc
import Statrs.Props.C11.TransferDigamma
namespace Statrs.Props.C12
open Statrs Statrs.Gen Statrs.Spec.FunctionBranches Statrs.Props.C11 Statrs.Props.C11.BranchPins
set_option linter.unusedSectionVars false

section generic
variable {α : Type} [Add α] [Sub α] [Mul α] [Div α] [Neg α] [LT α] [LE α] [BEq α]
  [DecidableLT α] [DecidableLE α] [OfScientific α] [Inhabited α] [RFun α]

/-! ## checked_beta_reg -/

/-- full(∀α): the Lentz loop of `checked_beta_reg` over an iteration list `l` either returns early with `Ok _`
    or runs through the list; it never reports `hang` (at most `l.length` iterations: structural recursion
    on the list). -/
theorem beta_reg_loop1_ret_or_done (l : List Int) (a b bt eps fpmin qab qam qap : α) (symm : Bool) (x d c h : α) :
    (∃ v, F.beta.checked_beta_reg.loop1 l a b bt eps fpmin qab qam qap symm x d c h = LoopR.ret (.ok v)) ∨
    (∃ s, F.beta.checked_beta_reg.loop1 l a b bt eps fpmin qab qam qap symm x d c h = LoopR.done s) := by
  induction l generalizing d c h with
  | nil => right; exact ⟨_, beta_reg_loop1_nil ..⟩
  | cons m l ih =>
    rw [beta_reg_loop1_cons]
    split_ifs
    · left; cases symm <;> exact ⟨_, rfl⟩
    · exact ih _ _ _

/-- full(∀α): the continued fraction of `checked_beta_reg` (start state, tolerance and the list `1..=140` as in
    the source) always produces `Ok _`. -/
theorem betaRegCf_ok (symm : Bool) (bt a b x : α) : ∃ v, betaRegCf symm bt a b x = .ok v := by
  unfold betaRegCf
  dsimp only
  rcases beta_reg_loop1_ret_or_done betaRegIters a b bt betaRegEps betaRegFpmin (a + b) (a - (1.0 : α))
      (a + (1.0 : α)) symm x
      ((1.0 : α) / lentzFloor betaRegFpmin ((1.0 : α) - (((a + b) * x) / (a + (1.0 : α))))) (1.0 : α)
      ((1.0 : α) / lentzFloor betaRegFpmin ((1.0 : α) - (((a + b) * x) / (a + (1.0 : α)))))
    with ⟨v, hv⟩ | ⟨⟨d', c', h'⟩, hs⟩
  · rw [hv]; exact ⟨v, rfl⟩
  · rw [hs]; cases symm <;> exact ⟨_, rfl⟩

/-- full(∀α): C12 for `checked_beta_reg`.  Whenever the three domain guards of the model are passed (their
    outcomes are the hypotheses), the function returns `Ok _`, never an error.  (`Ok _` alone would not exclude
    the panic sentinel, which is `Ok(default)` in the model: that the loop cannot hang is
    `beta_reg_loop1_ret_or_done` / `Props/C11/BranchPinsBeta.lean: beta_reg_loop1_ne_hang`.) -/
theorem checked_beta_reg_ok (a b x : α) (ha : ¬ a ≤ (0.0 : α)) (hb : ¬ b ≤ (0.0 : α))
    (hx : ¬ ¬ (((0.0 : α) ≤ x) ∧ (x ≤ (1.0 : α)))) : ∃ v, F.beta.checked_beta_reg a b x = .ok v := by
  by_cases hs : (((a + (1.0 : α)) / ((a + b) + (2.0 : α))) ≤ x)
  · rw [checked_beta_reg_swap a b x ha hb hx hs]; exact betaRegCf_ok ..
  · rw [checked_beta_reg_noswap a b x ha hb hx hs]; exact betaRegCf_ok ..

/-! ## exponential integral -/

/-- full(∀α): the continued-fraction loop of `F.exponential.integral` returns `Some _` early or runs through its
    list; never `hang`. -/
theorem expint_loop1_ret_or_done (l : List Int) (eps nf64 x b d c h : α) :
    (∃ v, F.exponential.integral.loop1 l eps nf64 x b d c h = LoopR.ret (some v)) ∨
    (∃ s, F.exponential.integral.loop1 l eps nf64 x b d c h = LoopR.done s) := by
  induction l generalizing b d c h with
  | nil => right; exact ⟨_, rfl⟩
  | cons i l ih =>
    rw [expint_loop1_cons]
    split_ifs
    · left; exact ⟨_, rfl⟩
    · exact ih _ _ _ _

/-- full(∀α): the series loop of `F.exponential.integral` (including its inner `ψ` loop) returns `Some _` early or
    runs through its list; never `hang`. -/
theorem expint_loop3_ret_or_done (l : List Int) (eps : α) (n : Int) (nf64 x factorial result : α) :
    (∃ v, F.exponential.integral.loop3 l eps n nf64 x factorial result = LoopR.ret (some v)) ∨
    (∃ s, F.exponential.integral.loop3 l eps n nf64 x factorial result = LoopR.done s) := by
  induction l generalizing factorial result with
  | nil => right; exact ⟨_, rfl⟩
  | cons i l ih =>
    rw [expint_loop3_cons]
    split_ifs
    · left; exact ⟨_, rfl⟩
    · exact ih _ _

/-- full(∀α): the inner `ψ` loop `for ii in 1..n` never hangs (it is a fold). -/
theorem expint_loop104_ne_hang (l : List Int) (psi : α) :
    F.exponential.integral.loop104 l psi ≠ LoopR.hang := by
  rw [expint_loop104_eq]; intro h; cases h

/-- what a `Some`-returning lifted loop contributes when it cannot hang: the early return, else `None` -/
def loopOpt {σ : Type} : LoopR (Option α) σ → Option α
  | LoopR.ret v => v
  | _ => none

/-- full(∀α): C12 for `F.exponential.integral`, continued-fraction branch `1 < x`, `n ≠ 0`: the lifted loop does not
    hang, and the result is the `Some _` it returns early or `None` after its 100 iterations — the `hang ⇒ panic`
    arm of the generated `match` is dead. -/
theorem expint_cf_total (x : α) (n : Int) (hn : ¬ n = 0) (hx : ¬ (x == (0.0 : α)) = true) (h1 : (1.0 : α) < x) :
    F.exponential.integral.loop1 (rangeList (1 : Int) ((100 : Int) + (1 : Int))) (0.00000000000000001 : α)
        (RFun.ofInt n : α) x (x + (RFun.ofInt n : α)) ((1.0 : α) / (x + (RFun.ofInt n : α)))
        ((1.0 : α) / (1e-100 : α)) ((1.0 : α) / (x + (RFun.ofInt n : α))) ≠ LoopR.hang ∧
    F.exponential.integral x n =
      loopOpt (F.exponential.integral.loop1 (rangeList (1 : Int) ((100 : Int) + (1 : Int))) (0.00000000000000001 : α)
        (RFun.ofInt n : α) x (x + (RFun.ofInt n : α)) ((1.0 : α) / (x + (RFun.ofInt n : α)))
        ((1.0 : α) / (1e-100 : α)) ((1.0 : α) / (x + (RFun.ofInt n : α)))) := by
  rcases expint_loop1_ret_or_done (rangeList (1 : Int) ((100 : Int) + (1 : Int))) (0.00000000000000001 : α)
      (RFun.ofInt n : α) x (x + (RFun.ofInt n : α)) ((1.0 : α) / (x + (RFun.ofInt n : α)))
      ((1.0 : α) / (1e-100 : α)) ((1.0 : α) / (x + (RFun.ofInt n : α))) with ⟨v, hv⟩ | ⟨s, hs⟩
  · rw [expint_cf_converged x n _ hn hx h1 hv, hv]; exact ⟨fun h => (by cases h), rfl⟩
  · rw [expint_cf_exhausted x n s hn hx h1 hs, hs]; exact ⟨fun h => (by cases h), rfl⟩

/-- full(∀α): C12 for `F.exponential.integral`, series branch `¬ 1 < x`, `n ≠ 0`, `x ≠ 0`: no hang; the result is the
    loop's early `Some _` or `None` after 100 terms. -/
theorem expint_series_total (x : α) (n : Int) (hn : ¬ n = 0) (hx : ¬ (x == (0.0 : α)) = true)
    (h1 : ¬ (1.0 : α) < x) :
    F.exponential.integral.loop3 (rangeList (1 : Int) ((100 : Int) + (1 : Int))) (0.00000000000000001 : α)
        n (RFun.ofInt n : α) x (1.0 : α)
        (if (usub n (1 : Int)) ≠ (0 : Int) then ((1.0 : α) / ((RFun.ofInt n : α) - (1.0 : α)))
          else (((-(1.0 : α)) * (RFun.ln x)) - (RFun.c_EULER_MASCHERONI : α))) ≠ LoopR.hang ∧
    F.exponential.integral x n =
      loopOpt (F.exponential.integral.loop3 (rangeList (1 : Int) ((100 : Int) + (1 : Int))) (0.00000000000000001 : α)
        n (RFun.ofInt n : α) x (1.0 : α)
        (if (usub n (1 : Int)) ≠ (0 : Int) then ((1.0 : α) / ((RFun.ofInt n : α) - (1.0 : α)))
          else (((-(1.0 : α)) * (RFun.ln x)) - (RFun.c_EULER_MASCHERONI : α)))) := by
  rcases expint_loop3_ret_or_done (rangeList (1 : Int) ((100 : Int) + (1 : Int))) (0.00000000000000001 : α)
      n (RFun.ofInt n : α) x (1.0 : α)
      (if (usub n (1 : Int)) ≠ (0 : Int) then ((1.0 : α) / ((RFun.ofInt n : α) - (1.0 : α)))
        else (((-(1.0 : α)) * (RFun.ln x)) - (RFun.c_EULER_MASCHERONI : α))) with ⟨v, hv⟩ | ⟨s, hs⟩
  · rw [expint_series_converged x n _ hn hx h1 hv, hv]; exact ⟨fun h => (by cases h), rfl⟩
  · rw [expint_series_exhausted x n s hn hx h1 hs, hs]; exact ⟨fun h => (by cases h), rfl⟩

/-! ## Horner evaluation (erf, erf_inv, erfc_inv, …) -/

/-- full(∀α): the Horner loop of `F.evaluate.polynomial` runs through its coefficient list and returns `done`;
    never `hang`, never an early return. -/
theorem polynomial_loop1_done (l : List α) (z sum : α) :
    ∃ s, F.evaluate.polynomial.loop1 l z sum = LoopR.done s := by
  induction l generalizing sum with
  | nil => exact ⟨sum, rfl⟩
  | cons c l ih => rw [F.evaluate.polynomial.loop1]; exact ih _

end generic

/-! ## over ℝ -/

/-- full(ℝ): C12 for `checked_beta_reg` on its documented domain `a > 0`, `b > 0`, `0 ≤ x ≤ 1`: `Ok _`. -/
theorem checked_beta_reg_ok_real (a b x : ℝ) (ha : 0 < a) (hb : 0 < b) (hx0 : 0 ≤ x) (hx1 : x ≤ 1) :
    ∃ v, F.beta.checked_beta_reg a b x = .ok v := by
  apply checked_beta_reg_ok
  · norm_num; exact ha
  · norm_num; exact hb
  · norm_num; exact ⟨hx0, hx1⟩

/-- full(ℝ): hence `beta_reg` (the panicking twin) returns that same value. -/
theorem beta_reg_eq_checked_real (a b x : ℝ) (ha : 0 < a) (hb : 0 < b) (hx0 : 0 ≤ x) (hx1 : x ≤ 1) :
    F.beta.checked_beta_reg a b x = .ok (F.beta.beta_reg a b x) := by
  obtain ⟨v, hv⟩ := checked_beta_reg_ok_real a b x ha hb hx0 hx1
  unfold F.beta.beta_reg; rw [hv]; rfl

/-- full(ℝ): exact arithmetic.  The halving loop of `inv_digamma`, entered with `i = 2⁻ᵏ`, `k ≤ 50`, performs exactly
    `50 − k` iterations and stops with `i = 2⁻⁵⁰` (needs `50 − k < fuel`), whatever `digamma` returns. -/
theorem inv_digamma_loop1_run (x : ℝ) : ∀ (n fuel k : ℕ) (y : ℝ), k + n = 50 → n < fuel →
    ∃ y', F.gamma.inv_digamma.loop1 fuel x y (1 / 2 ^ k) = LoopR.done (y', 1 / 2 ^ 50) := by
  intro n
  induction n with
  | zero =>
    intro fuel k y hk hf
    obtain ⟨f, rfl⟩ : ∃ f, fuel = f + 1 := ⟨fuel - 1, by omega⟩
    have hk' : k = 50 := by omega
    subst hk'
    rw [F.gamma.inv_digamma.loop1, if_neg (by norm_num)]
    exact ⟨y, rfl⟩
  | succ n ih =>
    intro fuel k y hk hf
    obtain ⟨f, rfl⟩ : ∃ f, fuel = f + 1 := ⟨fuel - 1, by omega⟩
    have hk' : k ≤ 49 := by omega
    have hpos : (1e-15 : ℝ) < 1 / 2 ^ k := by
      have h1 : (2 : ℝ) ^ k ≤ 2 ^ 49 := pow_le_pow_right₀ (by norm_num) hk'
      have h2 : (0 : ℝ) < 2 ^ k := by positivity
      rw [lt_div_iff₀ h2]
      have : (1e-15 : ℝ) * 2 ^ 49 < 1 := by norm_num
      nlinarith
    rw [F.gamma.inv_digamma.loop1, if_pos hpos]
    have e : (1 : ℝ) / 2 ^ k / (2.0 : ℝ) = 1 / 2 ^ (k + 1) := by
      rw [pow_succ]; norm_num; ring
    simp only [e]
    exact ih f (k + 1) _ (by omega) (by omega)

/-- full(ℝ): exact arithmetic.  C12 for `inv_digamma`: from the start state `(exp x, 1)` the loop returns `done` after
    exactly 50 iterations for EVERY real `x`; the `hang ⇒ panic` arm is never taken. -/
theorem inv_digamma_no_hang (x : ℝ) :
    ∃ y', F.gamma.inv_digamma.loop1 loopFuel x (RFun.exp x) (1.0 : ℝ) = LoopR.done (y', 1 / 2 ^ 50) := by
  have h := inv_digamma_loop1_run x 50 loopFuel 0 (RFun.exp x) (by omega) (by unfold loopFuel; omega)
  have e : (1 : ℝ) / 2 ^ 0 = (1.0 : ℝ) := by norm_num
  rwa [e] at h

/-- full(ℝ): exact arithmetic.  The shift loop of `digamma`, `while z < 12 { result −= 1/z; z += 1 }`, returns `done` for
    every start `z` with `⌈12 − z⌉ < fuel` (from `digamma` it is entered with `z = x > 1e-6`: at most 12
    iterations). -/
theorem digamma_loop1_no_hang (fuel : ℕ) (res z : ℝ) (hf : digammaShift z < fuel) :
    ∃ s, F.gamma.digamma.loop1 fuel (12.0 : ℝ) res z = LoopR.done s :=
  ⟨_, digamma_loop1_real (digammaShift z) fuel res z hf (digammaShift_lt z) (digammaShift_ge z)⟩

/-- non-vacuity: `digamma`'s loop from `z = 1/2` stops within the model's fuel. -/
example : ∃ s, F.gamma.digamma.loop1 loopFuel (12.0 : ℝ) 0 (1 / 2) = LoopR.done s :=
  digamma_loop1_no_hang _ _ _ (lt_of_le_of_lt (digammaShift_le_twelve _ (by norm_num)) (by unfold loopFuel; omega))

end Statrs.Props.C12
