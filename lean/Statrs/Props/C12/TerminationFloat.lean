/-
  C12 — iteration counts that hold for EVERY carrier, instantiated at IEEE `Float` (Lean's `Float.Model`, bit-compatible
  with `f64`): the loops whose control flow does not depend on the data.

  * `inv_digamma` (gamma.rs:412–432): the loop `while i > 1e-15 { …; i /= 2 }` is controlled by `i` alone.
    `inv_digamma_loop1_generic` (∀α): if the test holds at `i, i/2, …, i/2ⁿ⁻¹` and fails at `i/2ⁿ`, the loop performs
    exactly `n` iterations.  `inv_digamma_no_hang_float`: over `Float` (and over ℝ) `n = 50` from `i = 1.0`, for every
    argument `x` (NaN, ±∞ included — those return before the loop): `inv_digamma` never hangs in f64 arithmetic.
  * Kolmogorov loop (ks_test.rs:115–122), the mechanism of the f64 non-termination replayed before commit 5af6953
    (which removed the rounding noise from the `ks_twosample` statistic; the loop itself is unchanged):
    `ks_loop_stuck` (∀α): once the counter satisfies `k + 1.0 = k` and the test `|exp(−2k²x²)| < 1e-10` fails at that
    `k`, the loop never stops (every fuel is exhausted).  `float_counter_stuck`: over `Float`, `2⁵³ + 1.0 = 2⁵³`.
    `ks_loop_stuck_float_rel`: hence for a `Float` argument `x` the loop, once its counter has reached `2⁵³`, hangs
    for every fuel — relative to ONE libm fact, `¬ |exp(−2·2¹⁰⁶·x²)| < 1e-10` (true for `|x| < 3.76e-16`, e.g. the
    rounding-noise statistic `x ≈ 1.03e-16` of the pre-5af6953 `ks_twosample([0.0], [0.0; 6])`, where the value is `≈ 0.18`; `Float.exp`
    is an opaque libm call, so the fact itself cannot be evaluated in the kernel).
-/
import Mathlib.Tactic
import Statrs.Real.Simp
import Statrs.Inst.Float
import Statrs.Gen.F_gamma
import Statrs.Props.C12.TerminationKS
namespace Statrs.Props.C12
open Statrs Statrs.Gen
set_option linter.unusedSectionVars false

section generic
variable {α : Type} [Add α] [Sub α] [Mul α] [Div α] [Neg α] [LT α] [LE α] [BEq α]
  [DecidableLT α] [DecidableLE α] [OfScientific α] [Inhabited α] [RFun α]

/-- `i / 2.0 / 2.0 / … / 2.0` (`k` divisions), with the carrier's own division and literal -/
def halfIter (i : α) : ℕ → α
  | 0 => i
  | k + 1 => halfIter (i / (2.0 : α)) k

/-- full(∀α): the loop of `inv_digamma` is controlled by `i` alone: if `1e-15 < i/2ᵏ` for `k < n` and not for
    `k = n`, it performs exactly `n` iterations and ends with `i/2ⁿ` (any `x`, any `y`, whatever `digamma`
    returns), provided `n < fuel`. -/
theorem inv_digamma_loop1_generic (x : α) : ∀ (n fuel : ℕ) (y i : α),
    (∀ k, k < n → (1e-15 : α) < halfIter i k) → ¬ (1e-15 : α) < halfIter i n → n < fuel →
    ∃ y', F.gamma.inv_digamma.loop1 fuel x y i = LoopR.done (y', halfIter i n) := by
  intro n
  induction n with
  | zero =>
    intro fuel y i _ hstop hf
    obtain ⟨f, rfl⟩ : ∃ f, fuel = f + 1 := ⟨fuel - 1, by omega⟩
    have hstop' : ¬ (1e-15 : α) < i := hstop
    rw [F.gamma.inv_digamma.loop1, if_neg hstop']
    exact ⟨y, rfl⟩
  | succ n ih =>
    intro fuel y i hgo hstop hf
    obtain ⟨f, rfl⟩ : ∃ f, fuel = f + 1 := ⟨fuel - 1, by omega⟩
    have hgo0 : (1e-15 : α) < i := hgo 0 (by omega)
    rw [F.gamma.inv_digamma.loop1, if_pos hgo0]
    exact ih f _ (i / (2.0 : α)) (fun k hk => hgo (k + 1) (by omega)) hstop (by omega)

end generic

/-- full(Float): the 51 values `1.0, 0.5, …, 2⁻⁵⁰` of `i` over `Float`: the test `1e-15 < i` holds for the first 50 and fails
    at `2⁻⁵⁰ = 8.88e-16` -/
theorem float_halving_test :
    (∀ k, k < 50 → (1e-15 : Float) < halfIter (1.0 : Float) k) ∧ ¬ (1e-15 : Float) < halfIter (1.0 : Float) 50 := by
  decide

/-- full(Float): in IEEE double arithmetic the loop of `inv_digamma` performs exactly 50 iterations for EVERY
    argument `x` and start value `y`; the lifted loop never reports `hang`. -/
theorem inv_digamma_no_hang_float (x y : Float) :
    ∃ y', F.gamma.inv_digamma.loop1 loopFuel x y (1.0 : Float) = LoopR.done (y', halfIter (1.0 : Float) 50) :=
  inv_digamma_loop1_generic x 50 loopFuel y 1.0 float_halving_test.1 float_halving_test.2
    (by unfold loopFuel; omega)


section generic
variable {α : Type} [Add α] [Sub α] [Mul α] [Div α] [Neg α] [LT α] [LE α] [BEq α]
  [DecidableLT α] [DecidableLE α] [OfScientific α] [Inhabited α] [RFun α]

/-- full(∀α): if the counter of the Kolmogorov loop no longer moves (`k + 1.0 = k`) and the stopping test fails at
    that `k`, the lifted loop exhausts every fuel: the Rust `loop` never terminates. -/
theorem ks_loop_stuck (x k : α) (hk : k + (1.0 : α) = k)
    (hterm : ¬ RFun.abs (RFun.exp (((((-(2.0 : α)) * k) * k) * x) * x)) < (1e-10 : α)) :
    ∀ (fuel : ℕ) (sum : α),
      T.ks_test.onesample_kolmogorov_twosided_pvalue.loop1 fuel x sum k = LoopR.hang := by
  intro fuel
  induction fuel with
  | zero => intro _; rfl
  | succ f ih =>
    intro sum
    rw [ks_loop1_step, if_neg hterm, hk]
    exact ih _

end generic

/-- full(Float): in IEEE double arithmetic the loop counter is stuck at `2⁵³`: `9007199254740992.0 + 1.0` rounds back to
    `9007199254740992.0`. -/
theorem float_counter_stuck : (9007199254740992.0 : Float) + (1.0 : Float) = (9007199254740992.0 : Float) := by
  decide

/-- rel(one libm value: `¬ |exp(−2·2¹⁰⁶·x²)| < 1e-10`): over `Float`, from the counter value `k = 2⁵³` on the Kolmogorov
    loop never stops — for every fuel the lifted loop reports `hang`. -/
theorem ks_loop_stuck_float_rel (x : Float)
    (hterm : ¬ RFun.abs (RFun.exp (((((-(2.0 : Float)) * 9007199254740992.0) * 9007199254740992.0) * x) * x))
      < (1e-10 : Float)) (fuel : ℕ) (sum : Float) :
    T.ks_test.onesample_kolmogorov_twosided_pvalue.loop1 fuel x sum (9007199254740992.0 : Float) = LoopR.hang :=
  ks_loop_stuck x _ float_counter_stuck hterm fuel sum

end Statrs.Props.C12
