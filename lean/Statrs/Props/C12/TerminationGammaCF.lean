/-
  C12 — termination of the continued-fraction loop of `checked_gamma_lr` (src/function/gamma.rs:323–364) and
  `checked_gamma_ur` (gamma.rs:211–250), EXACT REAL ARITHMETIC (rounding can only be covered by the search).

  `Props/C11/GammaSeriesCF.lean` evaluates the branch under the hypothesis `hex : ∃ j, cfTest a x 1e-15 j`
  ("some iteration meets the stopping test").  Here that hypothesis is PROVED on the whole region in which the
  code takes the branch (`Draft/Lemmas/GammaCFStop.lean`): for `0 < x`, `a ≤ x`
    * all denominators `B_k` of the loop's recurrence are positive (`q == 0` is never true),
    * all convergents lie in `[cfLo, cfHi] = [min(1/x, 1/(x−a+1)), max(…)]`, and from iteration `⌈a⌉` on they are
      monotone,
  so consecutive convergents come arbitrarily close in relative terms:
    * `gamma_cf_stop_exists`        `∃ j ≤ ⌈a⌉ + ⌈(cfHi − cfLo)/(1e-15·cfLo)⌉, cfTest a x 1e-15 j`;
    * `gamma_cf_stopIdx_le`         the loop's stopping iteration `cfStopIdx` obeys that (crude, explicit) bound;
    * `gamma_lr_cf_value_total`, `gamma_ur_cf_value_total`   the value theorems without `hex`;
    * `gamma_lr_loop3_never_hangs`  with fuel above the bound the lifted loop returns `done`, never `hang`.
  Within the model's fuel (`loopFuel = 20000`; the Rust loop has no cap):
    * `gamma_cf_stopIdx_lt_fuel`    for `0 ≤ a ≤ 15000`, `1 ≤ x`, `a ≤ x` the loop stops after `≤ ⌈a⌉ + 4512` iterations
                                    (for `a ≤ 1`: `≤ 676`, `gamma_cf_stopIdx_small_a`) — geometric decay of the steps
                                    between convergents by `(1+1/M)²` per iteration while `k + 2 ≤ M²`;
    * `gamma_lr_cf_value_unconditional`, `gamma_ur_cf_value_unconditional`   value theorems with no loop hypothesis;
    * `checked_gamma_lr_ok_real`, `checked_gamma_ur_ok_real`   C12: `Ok _` for EVERY `0 < a ≤ 15000`, `x > 0`;
    * `checked_gamma_lr_no_hang_real`   … and the loops themselves return `done` there (`Ok _` alone does not
                                    exclude the model's panic sentinel `Ok(default)`).
  For `a > 15000` the fuel hypothesis `cfStopIdx a x 1e-15 < loopFuel` stays (MODEL limit).  The bounds are not
  sharp (the true rate is `exp(−4√(kx))`: about `100/x` iterations for small `a`).
-/
import Statrs.Props.C11.GammaSeriesCF
import Statrs.Props.C11.GammaSeriesUr
import Statrs.Lemmas.GammaCFStop
namespace Statrs.Props.C12
open Statrs Statrs.Gen Statrs.Lemmas.GammaCF Statrs.Props.C11

/-- the explicit (crude) bound on the stopping iteration of the continued-fraction loop -/
noncomputable def cfIterBound (a x eps : ℝ) : ℕ := ⌈a⌉₊ + ⌈(cfHi a x - cfLo a x) / (eps * cfLo a x)⌉₊

/-- full(ℝ): exact arithmetic.  On the whole region of the continued-fraction branch (`0 < x`, `a ≤ x`; the code enters it
    for `x > 1`, `x > a`, `checked_gamma_ur` also at `x = 1`) some iteration `j ≤ cfIterBound a x 1e-15` meets the
    stopping test `q ≠ 0 ∧ |(ans − p/q)/(p/q)| ≤ 1e-15`: the hypothesis `hex` of `gamma_lr_cf_value` /
    `gamma_ur_cf_value` always holds. -/
theorem gamma_cf_stop_exists (a x : ℝ) (hx0 : 0 < x) (hxa : a ≤ x) :
    ∃ j, j ≤ cfIterBound a x 1e-15 ∧ cfTest a x 1e-15 j :=
  exists_cfTest hx0 hxa (by norm_num)

/-- full(ℝ): the same for every tolerance `eps > 0`. -/
theorem gamma_cf_stop_exists_eps (a x eps : ℝ) (hx0 : 0 < x) (hxa : a ≤ x) (heps : 0 < eps) :
    ∃ j, j ≤ cfIterBound a x eps ∧ cfTest a x eps j :=
  exists_cfTest hx0 hxa heps

/-- full(ℝ): exact arithmetic.  The zero-divisor skip `if q != 0` of the loop is never taken: every denominator
    `B_k` is positive (`B_k ≥ k!·x`). -/
theorem gamma_cf_denominators_pos (a x : ℝ) (hx0 : 0 < x) (hxa : a ≤ x) (k : ℕ) : 0 < cfB a x k :=
  (cfB_pos hx0 hxa k).1

/-- full(ℝ): exact arithmetic.  Every quotient `p/q` the loop forms lies in `[min(1/x, 1/(x−a+1)), max(1/x, 1/(x−a+1))]`;
    in particular it is positive. -/
theorem gamma_cf_convergent_bounds (a x : ℝ) (hx0 : 0 < x) (hxa : a ≤ x) (k : ℕ) :
    min (1 / x) (1 / (x - a + 1)) ≤ cfA a x k / cfB a x k ∧
    cfA a x k / cfB a x k ≤ max (1 / x) (1 / (x - a + 1)) :=
  conv_bounds hx0 hxa k

/-- full(ℝ): the stopping iteration of the loop (`cfStopIdx`, the least `j` with `cfTest`) satisfies the test and
    the explicit bound. -/
theorem gamma_cf_stopIdx_le (a x : ℝ) (hx0 : 0 < x) (hxa : a ≤ x) :
    cfTest a x 1e-15 (cfStopIdx a x 1e-15) ∧ cfStopIdx a x 1e-15 ≤ cfIterBound a x 1e-15 := by
  obtain ⟨j, hj, ht⟩ := gamma_cf_stop_exists a x hx0 hxa
  exact ⟨Nat.sInf_mem (s := {j : ℕ | cfTest a x 1e-15 j}) ⟨j, ht⟩,
    le_trans (Nat.sInf_le (s := {j : ℕ | cfTest a x 1e-15 j}) ht) hj⟩

/-- full(ℝ): exact arithmetic.  With `fuel > cfIterBound a x 1e-15` the lifted continued-fraction loop of
    `checked_gamma_lr`, started as in the source, returns `done` with `ans` a convergent — never `hang`. -/
theorem gamma_lr_loop3_never_hangs (a x : ℝ) (hx0 : 0 < x) (hxa : a ≤ x) (fuel : ℕ)
    (hf : cfIterBound a x 1e-15 < fuel) :
    ∃ s : ℝ × ℝ × Int × ℝ × ℝ × ℝ × ℝ × ℝ,
      F.gamma.checked_gamma_lr.loop3 fuel (4503599627370496.0 : ℝ) (2.22044604925031308085e-16 : ℝ) 1e-15
        ((1.0 : ℝ) - a) ((x + ((1.0 : ℝ) - a)) + (1.0 : ℝ)) (0 : Int)
        (1.0 : ℝ) (x + (1.0 : ℝ)) x (((x + ((1.0 : ℝ) - a)) + (1.0 : ℝ)) * x)
        ((x + (1.0 : ℝ)) / (((x + ((1.0 : ℝ) - a)) + (1.0 : ℝ)) * x)) = LoopR.done s ∧
      s.2.2.2.2.2.2.2 = cfA a x (cfStopIdx a x 1e-15 + 2) / cfB a x (cfStopIdx a x 1e-15 + 2) := by
  obtain ⟨j, hj, ht⟩ := gamma_cf_stop_exists a x hx0 hxa
  have hle := (gamma_cf_stopIdx_le a x hx0 hxa).2
  exact ⟨_, gamma_lr_loop3_start _ _ 1e-15 a x (by norm_num) ⟨j, ht⟩ fuel (by omega), rfl⟩

/-- full(ℝ): `gamma_lr_cf_value` WITHOUT the existence hypothesis: for `a > 1.11e-15`, `1 < x`, `a < x`, outside the
    underflow shortcut and with the stopping iteration within the model's fuel,
    `checked_gamma_lr a x = ok (1 − exp(a·ln x − x − LG a)·A_{K+2}/B_{K+2})`. -/
theorem gamma_lr_cf_value_total (a x : ℝ) (ha : (0.0000000000000011102230246251565 : ℝ) < a)
    (hx1 : 1 < x) (hxa : a < x)
    (hu : -(709.78271289338399 : ℝ) ≤ a * Real.log x - x - F.gamma.ln_gamma a)
    (hfuel : cfStopIdx a x 1e-15 < loopFuel) :
    F.gamma.checked_gamma_lr a x =
      .ok (1 - Real.exp (a * Real.log x - x - F.gamma.ln_gamma a)
        * (cfA a x (cfStopIdx a x 1e-15 + 2) / cfB a x (cfStopIdx a x 1e-15 + 2))) := by
  obtain ⟨j, -, ht⟩ := gamma_cf_stop_exists a x (lt_trans one_pos hx1) hxa.le
  exact gamma_lr_cf_value a x ha hx1 hxa hu ⟨j, ht⟩ hfuel

/-- full(ℝ): `gamma_ur_cf_value` WITHOUT the existence hypothesis (`1 ≤ x`, `a < x`). -/
theorem gamma_ur_cf_value_total (a x : ℝ) (ha : (0.0000000000000011102230246251565 : ℝ) < a)
    (hx1 : 1 ≤ x) (hxa : a < x)
    (hu : -(709.78271289338399 : ℝ) ≤ a * Real.log x - x - F.gamma.ln_gamma a)
    (hfuel : cfStopIdx a x 1e-15 < loopFuel) :
    F.gamma.checked_gamma_ur a x =
      .ok (cfA a x (cfStopIdx a x 1e-15 + 2) / cfB a x (cfStopIdx a x 1e-15 + 2)
        * Real.exp (a * Real.log x - x - F.gamma.ln_gamma a)) := by
  obtain ⟨j, -, ht⟩ := gamma_cf_stop_exists a x (lt_of_lt_of_le one_pos hx1) hxa.le
  exact gamma_ur_cf_value a x ha hx1 hxa hu ⟨j, ht⟩ hfuel

/-- full(ℝ): in exact arithmetic the value the continued-fraction branch returns for `Q(a,x)·Γ(a)·e^x·x^{−a}`, a
    convergent, is positive and at most `max(1/x, 1/(x−a+1))`; hence `checked_gamma_ur a x ≥ 0` there. -/
theorem gamma_ur_cf_value_nonneg (a x : ℝ) (ha : (0.0000000000000011102230246251565 : ℝ) < a)
    (hx1 : 1 ≤ x) (hxa : a < x)
    (hu : -(709.78271289338399 : ℝ) ≤ a * Real.log x - x - F.gamma.ln_gamma a)
    (hfuel : cfStopIdx a x 1e-15 < loopFuel) :
    ∃ v : ℝ, F.gamma.checked_gamma_ur a x = .ok v ∧ 0 < v := by
  refine ⟨_, gamma_ur_cf_value_total a x ha hx1 hxa hu hfuel, ?_⟩
  have hx0 : 0 < x := lt_of_lt_of_le one_pos hx1
  have h := (conv_bounds hx0 hxa.le (cfStopIdx a x 1e-15 + 2)).1
  exact mul_pos (lt_of_lt_of_le (cfLo_pos hx0 hxa.le) h) (Real.exp_pos _)

/-! ### within the model's fuel: `a ≤ 15000` -/

/-- full(ℝ): exact arithmetic.  For `0 ≤ a ≤ 15000`, `1 ≤ x`, `a ≤ x` the continued-fraction loop stops after at most
    `⌈a⌉ + 4512` iterations — inside the model's fuel `loopFuel = 20000` (after `⌈a⌉` iterations the steps between
    consecutive convergents shrink by `(1 + 1/141)²` per iteration while `k + 2 ≤ 141²`; `4512 = 141·32` such
    steps gain the factor `4³² > 15000·10¹⁵`). -/
theorem gamma_cf_stopIdx_lt_fuel (a x : ℝ) (ha : 0 ≤ a) (ha2 : a ≤ 15000) (hx1 : 1 ≤ x) (hxa : a ≤ x) :
    cfStopIdx a x 1e-15 ≤ ⌈a⌉₊ + 4511 ∧ cfStopIdx a x 1e-15 < loopFuel := by
  have hx0 : 0 < x := lt_of_lt_of_le one_pos hx1
  have hceil : ⌈a⌉₊ ≤ 15000 := Nat.ceil_le.mpr (by exact_mod_cast ha2)
  have hlo := cfLo_pos hx0 hxa
  have hbig : cfHi a x - cfLo a x ≤ 4 ^ 32 * ((1e-15 : ℝ) * cfLo a x) := by
    have h1 := cfHi_sub_cfLo_le hx1 hxa
    have h2 : |1 - a| ≤ 15000 := by rw [abs_le]; constructor <;> linarith
    have h3 : |1 - a| * cfLo a x ≤ 15000 * cfLo a x := mul_le_mul_of_nonneg_right h2 hlo.le
    have h4 : (15000 : ℝ) * cfLo a x ≤ 4 ^ 32 * ((1e-15 : ℝ) * cfLo a x) := by
      have : (15000 : ℝ) ≤ 4 ^ 32 * 1e-15 := by norm_num
      nlinarith
    linarith
  have ht := cfTest_at (a := a) (x := x) (eps := 1e-15) 141 32 (by norm_num) (by norm_num) ha hx1 hxa
    (by norm_num) (by norm_num; omega) hbig
  have hle := Nat.sInf_le (s := {j : ℕ | cfTest a x 1e-15 j}) ht
  have hf : loopFuel = 20000 := rfl
  constructor
  · unfold cfStopIdx; omega
  · unfold cfStopIdx; omega

/-- full(ℝ): exact arithmetic.  For `0 ≤ a ≤ 1` the loop stops after at most `676` iterations (`M = 27`, `t = 25`). -/
theorem gamma_cf_stopIdx_small_a (a x : ℝ) (ha : 0 ≤ a) (ha1 : a ≤ 1) (hx1 : 1 ≤ x) :
    cfStopIdx a x 1e-15 ≤ 675 := by
  have hxa : a ≤ x := le_trans ha1 hx1
  have hx0 : 0 < x := lt_of_lt_of_le one_pos hx1
  have hceil : ⌈a⌉₊ ≤ 1 := Nat.ceil_le.mpr (by exact_mod_cast ha1)
  have hlo := cfLo_pos hx0 hxa
  have hbig : cfHi a x - cfLo a x ≤ 4 ^ 25 * ((1e-15 : ℝ) * cfLo a x) := by
    have h1 := cfHi_sub_cfLo_le hx1 hxa
    have h2 : |1 - a| ≤ 1 := by rw [abs_le]; constructor <;> linarith
    have h3 : |1 - a| * cfLo a x ≤ 1 * cfLo a x := mul_le_mul_of_nonneg_right h2 hlo.le
    have h4 : (1 : ℝ) * cfLo a x ≤ 4 ^ 25 * ((1e-15 : ℝ) * cfLo a x) := by
      have : (1 : ℝ) ≤ 4 ^ 25 * 1e-15 := by norm_num
      nlinarith
    linarith
  have ht := cfTest_at (a := a) (x := x) (eps := 1e-15) 27 25 (by norm_num) (by norm_num) ha hx1 hxa
    (by norm_num) (by norm_num; omega) hbig
  have hle := Nat.sInf_le (s := {j : ℕ | cfTest a x 1e-15 j}) ht
  unfold cfStopIdx; omega

/-- full(ℝ): exact arithmetic.  The continued-fraction branch of `checked_gamma_lr` with NO hypothesis about the loop:
    for `1.11e-15 < a ≤ 15000`, `1 < x`, `a < x`, outside the underflow shortcut,
    `checked_gamma_lr a x = ok (1 − exp(a·ln x − x − LG a)·A_{K+2}/B_{K+2})`, `K = cfStopIdx a x 1e-15 ≤ ⌈a⌉ + 4511`. -/
theorem gamma_lr_cf_value_unconditional (a x : ℝ) (ha : (0.0000000000000011102230246251565 : ℝ) < a)
    (ha2 : a ≤ 15000) (hx1 : 1 < x) (hxa : a < x)
    (hu : -(709.78271289338399 : ℝ) ≤ a * Real.log x - x - F.gamma.ln_gamma a) :
    F.gamma.checked_gamma_lr a x =
      .ok (1 - Real.exp (a * Real.log x - x - F.gamma.ln_gamma a)
        * (cfA a x (cfStopIdx a x 1e-15 + 2) / cfB a x (cfStopIdx a x 1e-15 + 2))) :=
  gamma_lr_cf_value_total a x ha hx1 hxa hu
    (gamma_cf_stopIdx_lt_fuel a x (le_trans (by norm_num) ha.le) ha2 hx1.le hxa.le).2

/-- full(ℝ): exact arithmetic.  The continued-fraction branch of `checked_gamma_ur` with NO hypothesis about the loop
    (`1.11e-15 < a ≤ 15000`, `1 ≤ x`, `a < x`, outside the underflow shortcut). -/
theorem gamma_ur_cf_value_unconditional (a x : ℝ) (ha : (0.0000000000000011102230246251565 : ℝ) < a)
    (ha2 : a ≤ 15000) (hx1 : 1 ≤ x) (hxa : a < x)
    (hu : -(709.78271289338399 : ℝ) ≤ a * Real.log x - x - F.gamma.ln_gamma a) :
    F.gamma.checked_gamma_ur a x =
      .ok (cfA a x (cfStopIdx a x 1e-15 + 2) / cfB a x (cfStopIdx a x 1e-15 + 2)
        * Real.exp (a * Real.log x - x - F.gamma.ln_gamma a)) :=
  gamma_ur_cf_value_total a x ha hx1 hxa hu
    (gamma_cf_stopIdx_lt_fuel a x (le_trans (by norm_num) ha.le) ha2 hx1 hxa.le).2

/-- the first three prologue guards of `checked_gamma_lr` / `checked_gamma_ur` over ℝ for `a > 0`, `x > 0` -/
private theorem guards3 {a x : ℝ} (ha0 : 0 < a) (hx : 0 < x) :
    (¬ ((RFun.isNaN a = true) ∨ (RFun.isNaN x = true))) ∧
    (¬ ((a ≤ (0.0 : ℝ)) ∨ ((a == (RFun.inf : ℝ)) = true))) ∧
    (¬ ((x ≤ (0.0 : ℝ)) ∨ ((x == (RFun.inf : ℝ)) = true))) := by
  have hinf : (RFun.inf : ℝ) = 0 := rfl
  have h0 : (0.0 : ℝ) = 0 := by norm_num
  refine ⟨by simp, ?_, ?_⟩
  · rw [hinf, h0]; simp [not_le.mpr ha0, ha0.ne']
  · rw [hinf, h0]; simp [not_le.mpr hx, hx.ne']

/-- full(ℝ): exact arithmetic.  C12 for `checked_gamma_lr` on its documented domain, restricted to `a ≤ 15000`: for every
    `0 < a ≤ 15000` and every `x > 0` the function returns `Ok _` — no error, and neither of its two convergence
    loops exhausts the model's fuel (series: `≤ ⌈a⌉ + 50` iterations; continued fraction: `≤ ⌈a⌉ + 4512`). -/
theorem checked_gamma_lr_ok_real (a x : ℝ) (ha0 : 0 < a) (ha2 : a ≤ 15000) (hx : 0 < x) :
    ∃ v, F.gamma.checked_gamma_lr a x = .ok v := by
  obtain ⟨g1, g2, g3⟩ := guards3 ha0 hx
  by_cases haz : (R.prec.almost_eq a (0.0 : ℝ) (R.prec.DEFAULT_F64_ACC (α := ℝ))) = true
  · exact ⟨_, BranchPins.checked_gamma_lr_a_zero a x g1 g2 g3 haz⟩
  · have ha : (0.0000000000000011102230246251565 : ℝ) < a := by
      by_contra hcon
      apply haz
      have h0 : (0.0 : ℝ) = 0 := by norm_num
      rw [Statrs.Props.C20.almost_eq_real, h0, sub_zero, abs_of_pos ha0]
      simp only [R.prec.DEFAULT_F64_ACC]
      exact decide_eq_true (not_lt.mp hcon)
    by_cases hu : (((a * (RFun.ln x)) - x) - (F.gamma.ln_gamma a)) < -(709.78271289338399 : ℝ)
    · rw [BranchPins.checked_gamma_lr_underflow a x g1 g2 g3 haz hu]
      split_ifs <;> exact ⟨_, rfl⟩
    · have hu' : -(709.78271289338399 : ℝ) ≤ a * Real.log x - x - F.gamma.ln_gamma a := by
        simpa using not_lt.mp hu
      by_cases hs : x ≤ 1 ∨ x ≤ a
      · exact ⟨_, gamma_lr_series_value_of_le a x ha hx hu' hs (by linarith)⟩
      · push Not at hs
        exact ⟨_, gamma_lr_cf_value_unconditional a x ha ha2 hs.1 hs.2 hu'⟩

/-- full(ℝ): exact arithmetic.  C12 for `checked_gamma_ur`: for every `0 < a ≤ 15000`, `x > 0` it returns `Ok _`, and in
    the complement branch (`x < 1 ∨ x ≤ a`) the inner `gamma_lr a x` is the value of a successful
    `checked_gamma_lr`. -/
theorem checked_gamma_ur_ok_real (a x : ℝ) (ha0 : 0 < a) (ha2 : a ≤ 15000) (hx : 0 < x) :
    (∃ v, F.gamma.checked_gamma_ur a x = .ok v) ∧
    F.gamma.checked_gamma_lr a x = .ok (F.gamma.gamma_lr a x) := by
  obtain ⟨g1, g2, g3⟩ := guards3 ha0 hx
  constructor
  · by_cases hs : (x < (1.0 : ℝ)) ∨ (x ≤ a)
    · exact ⟨_, BranchPins.checked_gamma_ur_complement a x g1 g2 g3 hs⟩
    · by_cases hu : (((a * (RFun.ln x)) - x) - (F.gamma.ln_gamma a)) < -(709.78271289338399 : ℝ)
      · rw [BranchPins.checked_gamma_ur_underflow a x g1 g2 g3 hs hu]
        split_ifs <;> exact ⟨_, rfl⟩
      · have hu' : -(709.78271289338399 : ℝ) ≤ a * Real.log x - x - F.gamma.ln_gamma a := by
          simpa using not_lt.mp hu
        have hs' : 1 ≤ x ∧ a < x := by
          rw [show (1.0 : ℝ) = 1 by norm_num] at hs; push Not at hs; exact hs
        by_cases haz : (0.0000000000000011102230246251565 : ℝ) < a
        · exact ⟨_, gamma_ur_cf_value_unconditional a x haz ha2 hs'.1 hs'.2 hu'⟩
        · -- `a ≤ 1.11e-15`: `checked_gamma_ur` has no `a ≈ 0` shortcut; the loop still stops (`a ≤ 1`)
          obtain ⟨j, -, ht⟩ := gamma_cf_stop_exists a x hx hs'.2.le
          have hfuel : cfStopIdx a x 1e-15 < loopFuel :=
            (gamma_cf_stopIdx_lt_fuel a x ha0.le ha2 hs'.1 hs'.2.le).2
          have e15 : (0.000000000000001 : ℝ) = 1e-15 := by norm_num
          have hloop := gamma_lr_loop3_start (4503599627370496.0 : ℝ) (2.22044604925031308085e-16 : ℝ) 1e-15 a x
            (by norm_num) ⟨j, ht⟩ loopFuel hfuel
          have hur := gamma_ur_loop1_eq_lr_loop3 (4503599627370496.0 : ℝ) (2.22044604925031308085e-16 : ℝ) 1e-15
            loopFuel ((1.0 : ℝ) - a) ((x + ((1.0 : ℝ) - a)) + (1.0 : ℝ)) (0 : Int) (1.0 : ℝ)
            (x + (1.0 : ℝ)) x (((x + ((1.0 : ℝ) - a)) + (1.0 : ℝ)) * x)
            ((x + (1.0 : ℝ)) / (((x + ((1.0 : ℝ) - a)) + (1.0 : ℝ)) * x))
          rw [hloop] at hur
          have h00 : ((0 : Int) : ℝ) = (0.0 : ℝ) := by norm_num
          rw [h00] at hur
          exact ⟨_, BranchPins.checked_gamma_ur_cf a x _ _ _ _ _ _ _ _ g1 g2 g3 hs hu (by rw [e15]; exact hur)⟩
  · obtain ⟨v, hv⟩ := checked_gamma_lr_ok_real a x ha0 ha2 hx
    unfold F.gamma.gamma_lr; rw [hv]; rfl

/-- full(ℝ): exact arithmetic.  C12 for `checked_gamma_li` / `checked_gamma_ui` (`= checked_gamma_lr/ur · Γ(a)`): `Ok _` for
    every `0 < a ≤ 15000`, `x > 0`. -/
theorem checked_gamma_li_ui_ok_real (a x : ℝ) (ha0 : 0 < a) (ha2 : a ≤ 15000) (hx : 0 < x) :
    (∃ v, F.gamma.checked_gamma_li a x = .ok v) ∧ (∃ v, F.gamma.checked_gamma_ui a x = .ok v) := by
  obtain ⟨v, hv⟩ := checked_gamma_lr_ok_real a x ha0 ha2 hx
  obtain ⟨w, hw⟩ := (checked_gamma_ur_ok_real a x ha0 ha2 hx).1
  constructor
  · unfold F.gamma.checked_gamma_li; rw [hv]; exact ⟨_, rfl⟩
  · unfold F.gamma.checked_gamma_ui; rw [hw]; exact ⟨_, rfl⟩

/-- full(ℝ): exact arithmetic.  NEITHER convergence loop of `checked_gamma_lr` (and hence of `checked_gamma_ur`, which runs
    the same continued fraction, `gamma_ur_loop1_eq_lr_loop3`) exhausts the model's fuel for `0 < a ≤ 15000`, `x > 0`:
    in the series region the series loop returns `done` (after `stopIdx ≤ ⌈a⌉ + 50` iterations), in the
    continued-fraction region the continued-fraction loop returns `done` (after `cfStopIdx + 1 ≤ ⌈a⌉ + 4512`).
    This is the part of C12 that `Ok _` alone does not express (the model's panic sentinel is `Ok(default)`). -/
theorem checked_gamma_lr_no_hang_real (a x : ℝ) (ha0 : 0 < a) (ha2 : a ≤ 15000) (hx : 0 < x) :
    ((x ≤ 1 ∨ x ≤ a) → ∃ s, F.gamma.checked_gamma_lr.loop1 loopFuel (0.000000000000001 : ℝ) x a (1.0 : ℝ) (1.0 : ℝ)
        = LoopR.done s) ∧
    ((1 ≤ x ∧ a < x) → ∃ s, F.gamma.checked_gamma_lr.loop3 loopFuel (4503599627370496.0 : ℝ)
        (2.22044604925031308085e-16 : ℝ) (0.000000000000001 : ℝ) ((1.0 : ℝ) - a)
        ((x + ((1.0 : ℝ) - a)) + (1.0 : ℝ)) (0 : Int) (1.0 : ℝ) (x + (1.0 : ℝ)) x
        (((x + ((1.0 : ℝ) - a)) + (1.0 : ℝ)) * x)
        ((x + (1.0 : ℝ)) / (((x + ((1.0 : ℝ) - a)) + (1.0 : ℝ)) * x)) = LoopR.done s) := by
  have e15 : (0.000000000000001 : ℝ) = 1e-15 := by norm_num
  constructor
  · intro hs
    rw [e15]
    exact ⟨_, gamma_lr_loop1_start 1e-15 x a ha0.le hx (by norm_num) loopFuel
      (gamma_lr_series_fuel a x ha0 hx hs (by linarith))⟩
  · intro hs
    rw [e15]
    obtain ⟨j, -, ht⟩ := gamma_cf_stop_exists a x hx hs.2.le
    exact ⟨_, gamma_lr_loop3_start _ _ 1e-15 a x (by norm_num) ⟨j, ht⟩ loopFuel
      (gamma_cf_stopIdx_lt_fuel a x ha0.le ha2 hs.1 hs.2.le).2⟩

/-- non-vacuity: `a = 1/2`, `x = 2` is in the continued-fraction region. -/
example : ∃ j, cfTest (1 / 2) 2 1e-15 j := by
  obtain ⟨j, -, h⟩ := gamma_cf_stop_exists (1 / 2) 2 (by norm_num) (by norm_num)
  exact ⟨j, h⟩

end Statrs.Props.C12
