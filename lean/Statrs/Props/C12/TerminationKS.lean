/-
  C12 / C18 — termination of the Kolmogorov series loop of
  `T.ks_test.onesample_kolmogorov_twosided_pvalue` (src/stats_tests/ks_test.rs:104–124), EXACT REAL ARITHMETIC
  (rounding is not modelled here; it can only be covered by the search).

      x = d·√n;  if x == 0 { return 1 }
      k = 1; loop { term = exp(−2k²x²); sum += (−1)^(k−1)·term; if |term| < 1e-10 { break }; k += 1 }
      2·sum

  With `ksC = √(ln(10¹⁰)/2) ∈ [3.39, 3.4)` (≈ 3.3931) and `ksStop x = ⌊ksC/|x|⌋ + 1`:

  * `ksTerm_lt_iff`            the test `exp(−2k²x²) < 1e-10` holds iff `ksC < k·|x|`;
  * `ks_loop1_start`           for `x ≠ 0` the lifted loop stops after EXACTLY `ksStop x ≤ ⌈ksC/|x|⌉ + 1` iterations
                               (the returned counter `k` is that number) with the alternating partial sum;
  * `ks_pvalue_value`          hence the function returns `2·Σ_{k ≤ ksStop x} (−1)^(k−1) e^{−2k²x²}` whenever
                               `ksStop x ≤ loopFuel`, which holds for `|x| ≥ 1.7e-4` (`ksStop_le_fuel`);
  * `ks_pvalue_zero`           the `x == 0` guard: value `1`, no loop;
  * `ks_pvalue_hang`, `ks_pvalue_hang_small`   MODEL limit: for `0 < |x| ≤ 1.69e-4` the stop index exceeds
                               `loopFuel = 20000` and the model returns the panic sentinel;
  * `ks_iterations_unbounded`  FINDING: the number of iterations is `≈ 3.39/|x|`, unbounded as `x → 0+`; the function
                               itself has no guard that keeps a tiny non-zero `x` out.  HISTORY: until commit
                               5af6953 `ks_twosample` computed `D` as a difference of accumulated `1/n1`, `1/n2`
                               sums, so `x = D·√(mn/(m+n))` could be rounding noise.  Replayed on the crate then:
                               `ks_twosample([0.0], [0.0; 6], TwoSidedAsymptotic)` had `D = 1.1e-16 ≠ 0` and never
                               returned (the f64 counter `k` stops growing at 2^53 before the test can fire); so did
                               `[1,2,3]` vs `[1,1,2,2,3,3]`, `[1,2]` vs `[1,1,1,2,2,2]`, `[0.5; 10]` vs `[0.5; 3]` —
                               samples with IDENTICAL empirical cdfs but different sizes (in exact arithmetic
                               `D = 0`: `TerminationKSData.lean`).  Since 5af6953 the empirical cdfs are the
                               quotients `i/n1`, `j/n2` of the counts, equal fractions round to the same double and
                               all four pairs have `D = 0.0` in f64 (`Props/C17/RankTests.lean` §5, evaluated on
                               `Float.Model`): the guard returns `p = 1`, no loop;
  * `ks_pvalue_range_partial`  `0 ≤ p ≤ 2·e^{−2x²} < 2`; `ks_pvalue_le_one_partial`: `p ∈ [0,1]` for `|x| ≥ 0.59`.
                               (`p ≤ 1` is FALSE in general: see `Draft/C18/PValueRange.lean`.)
-/
import Mathlib.Tactic
import Mathlib.Analysis.SpecialFunctions.Pow.Real
import Mathlib.Analysis.Complex.ExponentialBounds
import Mathlib.Analysis.SpecialFunctions.Log.Deriv
import Statrs.Real.Simp
import Statrs.Gen.T_ks_test
namespace Statrs.Props.C12
open Statrs Statrs.Gen

/-- the `k`-th term of the Kolmogorov series, `exp(−2k²x²)` -/
noncomputable def ksTerm (x : ℝ) (k : ℕ) : ℝ := Real.exp (-(2 * (k : ℝ) ^ 2 * x ^ 2))

/-- the alternating partial sum `Σ_{k=1}^{n} (−1)^(k−1) exp(−2k²x²)` -/
noncomputable def ksSum (x : ℝ) (n : ℕ) : ℝ := ∑ i ∈ Finset.range n, (-1 : ℝ) ^ i * ksTerm x (i + 1)

section generic
variable {α : Type} [Add α] [Sub α] [Mul α] [Div α] [Neg α] [LT α] [LE α] [BEq α]
  [DecidableLT α] [DecidableLE α] [OfScientific α] [Inhabited α] [RFun α]

/-- full(∀α): one-step unfolding of the lifted `loop` of `onesample_kolmogorov_twosided_pvalue`. -/
theorem ks_loop1_step (fuel : ℕ) (x sum k : α) :
    T.ks_test.onesample_kolmogorov_twosided_pvalue.loop1 (fuel + 1) x sum k =
      if RFun.abs (RFun.exp (((((-(2.0 : α)) * k) * k) * x) * x)) < (1e-10 : α) then
        LoopR.done (sum + ((RFun.pow (-(1.0 : α)) (k - (1.0 : α))) * RFun.exp (((((-(2.0 : α)) * k) * k) * x) * x)), k)
      else T.ks_test.onesample_kolmogorov_twosided_pvalue.loop1 fuel x
        (sum + ((RFun.pow (-(1.0 : α)) (k - (1.0 : α))) * RFun.exp (((((-(2.0 : α)) * k) * k) * x) * x))) (k + (1.0 : α)) := by
  rw [T.ks_test.onesample_kolmogorov_twosided_pvalue.loop1]

end generic

/-- full(ℝ): one step over ℝ from the state after `j` iterations `(sum, k) = (S_j, j+1)` (exact arithmetic). -/
theorem ks_step_real (fuel : ℕ) (x : ℝ) (j : ℕ) :
    T.ks_test.onesample_kolmogorov_twosided_pvalue.loop1 (fuel + 1) x (ksSum x j) ((j + 1 : ℕ) : ℝ) =
      if ksTerm x (j + 1) < 1e-10 then LoopR.done (ksSum x (j + 1), ((j + 1 : ℕ) : ℝ))
      else T.ks_test.onesample_kolmogorov_twosided_pvalue.loop1 fuel x (ksSum x (j + 1)) ((j + 2 : ℕ) : ℝ) := by
  rw [ks_loop1_step]
  have e1 : RFun.exp (((((-(2.0 : ℝ)) * ((j + 1 : ℕ) : ℝ)) * ((j + 1 : ℕ) : ℝ)) * x) * x) = ksTerm x (j + 1) := by
    unfold ksTerm; rw [rfun_exp]; congr 1; norm_num; ring
  have e2 : RFun.pow (-(1.0 : ℝ)) (((j + 1 : ℕ) : ℝ) - (1.0 : ℝ)) = (-1 : ℝ) ^ j := by
    rw [rfun_pow]
    have : ((j + 1 : ℕ) : ℝ) - (1.0 : ℝ) = (j : ℝ) := by push_cast; norm_num
    rw [this, Real.rpow_natCast]; norm_num
  have e3 : ((j + 1 : ℕ) : ℝ) + (1.0 : ℝ) = ((j + 2 : ℕ) : ℝ) := by push_cast; norm_num; ring
  have e4 : ksSum x j + (-1 : ℝ) ^ j * ksTerm x (j + 1) = ksSum x (j + 1) := by
    unfold ksSum; rw [Finset.sum_range_succ]
  have e5 : RFun.abs (ksTerm x (j + 1)) = ksTerm x (j + 1) := by
    rw [rfun_abs]; exact abs_of_pos (Real.exp_pos _)
  rw [e1, e2, e3, e4, e5]


/-- full(ℝ): exact arithmetic.  Started in the state after `j` iterations, the lifted loop stops at the first index
    `N > j` with `exp(−2N²x²) < 1e-10` and returns `(S_N, N)`, provided `N − j ≤ fuel`. -/
theorem ks_loop1_run (x : ℝ) (N : ℕ) :
    ∀ (fuel j : ℕ), j < N → N - j ≤ fuel →
      (∀ i, j < i → i < N → ¬ ksTerm x i < 1e-10) → ksTerm x N < 1e-10 →
      T.ks_test.onesample_kolmogorov_twosided_pvalue.loop1 fuel x (ksSum x j) ((j + 1 : ℕ) : ℝ)
        = LoopR.done (ksSum x N, (N : ℝ)) := by
  intro fuel
  induction fuel with
  | zero => intro j hj hf; omega
  | succ f ih =>
    intro j hj hf hnot hN
    rw [ks_step_real]
    by_cases hjN : j + 1 = N
    · subst hjN; rw [if_pos hN]
    · rw [if_neg (hnot (j + 1) (by omega) (by omega))]
      exact ih (j + 1) (by omega) (by omega) (fun i h1 h2 => hnot i (by omega) h2) hN

/-- full(ℝ): exact arithmetic.  If the test fails at all of the next `fuel` indices the lifted loop returns `hang`. -/
theorem ks_loop1_hang (x : ℝ) :
    ∀ (fuel j : ℕ), (∀ i, j < i → i ≤ j + fuel → ¬ ksTerm x i < 1e-10) →
      T.ks_test.onesample_kolmogorov_twosided_pvalue.loop1 fuel x (ksSum x j) ((j + 1 : ℕ) : ℝ)
        = LoopR.hang := by
  intro fuel
  induction fuel with
  | zero => intro j _; rfl
  | succ f ih =>
    intro j hnot
    rw [ks_step_real, if_neg (hnot (j + 1) (by omega) (by omega))]
    exact ih (j + 1) (fun i h1 h2 => hnot i (by omega) (by omega))

/-- `√(ln(10¹⁰)/2) ≈ 3.3931` -/
noncomputable def ksC : ℝ := Real.sqrt (Real.log 1e10 / 2)

/-- full(ℝ): the stopping test `exp(−2k²x²) < 1e-10` holds iff `√(ln(10¹⁰)/2) < k·|x|`. -/
theorem ksTerm_lt_iff (x : ℝ) (k : ℕ) : ksTerm x k < 1e-10 ↔ ksC < (k : ℝ) * |x| := by
  unfold ksTerm ksC
  have h10 : (0 : ℝ) < 1e-10 := by norm_num
  rw [← Real.lt_log_iff_exp_lt h10]
  have hl : Real.log (1e-10 : ℝ) = - Real.log 1e10 := by
    rw [← Real.log_inv]; congr 1; norm_num
  rw [hl, neg_lt_neg_iff]
  have hnn : (0 : ℝ) ≤ (k : ℝ) * |x| := by positivity
  have hsq : ((k : ℝ) * |x|) ^ 2 = (k : ℝ) ^ 2 * x ^ 2 := by rw [mul_pow, sq_abs]
  have hlog : 0 < Real.log (1e10 : ℝ) := Real.log_pos (by norm_num)
  rcases hnn.eq_or_lt with h0 | hpos
  · have h2 : (k : ℝ) ^ 2 * x ^ 2 = 0 := by rw [← hsq, ← h0]; ring
    rw [← h0]
    constructor
    · intro h; nlinarith
    · intro h; exact absurd h (not_lt.mpr (Real.sqrt_nonneg _))
  · rw [Real.sqrt_lt' hpos, hsq]; constructor <;> intro h <;> linarith

/-- the iteration at which the exact-arithmetic loop stops: `⌊√(ln(10¹⁰)/2)/|x|⌋ + 1` -/
noncomputable def ksStop (x : ℝ) : ℕ := ⌊ksC / |x|⌋₊ + 1

/-- full(ℝ): `ksC > 0`. -/
theorem ksC_pos : 0 < ksC := by
  unfold ksC
  exact Real.sqrt_pos.mpr (by have := Real.log_pos (show (1 : ℝ) < 1e10 by norm_num); linarith)

/-- full(ℝ): for `x ≠ 0` the test fires at iteration `ksStop x`. -/
theorem ksTerm_stop {x : ℝ} (hx : x ≠ 0) : ksTerm x (ksStop x) < 1e-10 := by
  rw [ksTerm_lt_iff]
  have hax : 0 < |x| := abs_pos.mpr hx
  have h := Nat.lt_floor_add_one (ksC / |x|)
  rw [div_lt_iff₀ hax] at h
  unfold ksStop; push_cast; exact h

/-- full(ℝ): for `x ≠ 0` the test does not fire before iteration `ksStop x`. -/
theorem ksTerm_not_stop {x : ℝ} (hx : x ≠ 0) {i : ℕ} (hi : i < ksStop x) : ¬ ksTerm x i < 1e-10 := by
  rw [ksTerm_lt_iff, not_lt]
  have hax : 0 < |x| := abs_pos.mpr hx
  have hle : i ≤ ⌊ksC / |x|⌋₊ := by unfold ksStop at hi; omega
  have h := (Nat.le_floor_iff (div_pos ksC_pos hax).le).mp hle
  rwa [le_div_iff₀ hax] at h

/-- full(ℝ): the explicit iteration bound `ksStop x ≤ ⌈√(ln(10¹⁰)/2)/|x|⌉ + 1`. -/
theorem ksStop_le_ceil (x : ℝ) : ksStop x ≤ ⌈ksC / |x|⌉₊ + 1 := by
  unfold ksStop; have := Nat.floor_le_ceil (ksC / |x|); omega


/-- full(ℝ): exact arithmetic.  For `x ≠ 0` the loop, started as in the source (`sum = 0`, `k = 1`), performs exactly
    `ksStop x = ⌊ksC/|x|⌋ + 1` iterations and returns `(S_N, N)` — never `hang` — as soon as `ksStop x ≤ fuel`. -/
theorem ks_loop1_start (x : ℝ) (hx : x ≠ 0) (fuel : ℕ) (hf : ksStop x ≤ fuel) :
    T.ks_test.onesample_kolmogorov_twosided_pvalue.loop1 fuel x (0.0 : ℝ) (1.0 : ℝ)
      = LoopR.done (ksSum x (ksStop x), (ksStop x : ℝ)) := by
  have h := ks_loop1_run x (ksStop x) fuel 0 (by unfold ksStop; omega) (by omega)
    (fun i _ h2 => ksTerm_not_stop hx h2) (ksTerm_stop hx)
  have e0 : ksSum x 0 = (0.0 : ℝ) := by unfold ksSum; norm_num
  have e1 : ((0 + 1 : ℕ) : ℝ) = (1.0 : ℝ) := by norm_num
  rwa [e0, e1] at h

/-- full(ℝ): exact arithmetic.  With less fuel than `ksStop x` the lifted loop hangs. -/
theorem ks_loop1_start_hang (x : ℝ) (hx : x ≠ 0) (fuel : ℕ) (hf : fuel < ksStop x) :
    T.ks_test.onesample_kolmogorov_twosided_pvalue.loop1 fuel x (0.0 : ℝ) (1.0 : ℝ) = LoopR.hang := by
  have h := ks_loop1_hang x fuel 0 (fun i _ h2 => ksTerm_not_stop hx (by omega))
  have e0 : ksSum x 0 = (0.0 : ℝ) := by unfold ksSum; norm_num
  have e1 : ((0 + 1 : ℕ) : ℝ) = (1.0 : ℝ) := by norm_num
  rwa [e0, e1] at h

/-- full(ℝ): the `x == 0.0` guard (commit 978badb): the function returns `1` without entering the loop. -/
theorem ks_pvalue_zero (d n : ℝ) (hx : d * Real.sqrt n = 0) :
    T.ks_test.onesample_kolmogorov_twosided_pvalue d n = 1 := by
  unfold T.ks_test.onesample_kolmogorov_twosided_pvalue
  simp only [rfun_sqrt, real_beq]
  rw [if_pos (by rw [hx]; norm_num)]; norm_num

/-- full(ℝ): exact arithmetic.  For `x = d·√n ≠ 0` with stop index within the model's fuel the function returns
    `2·Σ_{k=1}^{N} (−1)^(k−1) e^{−2k²x²}`, `N = ksStop x`. -/
theorem ks_pvalue_value (d n : ℝ) (hx : d * Real.sqrt n ≠ 0) (hf : ksStop (d * Real.sqrt n) ≤ loopFuel) :
    T.ks_test.onesample_kolmogorov_twosided_pvalue d n
      = 2 * ksSum (d * Real.sqrt n) (ksStop (d * Real.sqrt n)) := by
  unfold T.ks_test.onesample_kolmogorov_twosided_pvalue
  simp only [rfun_sqrt, real_beq]
  rw [if_neg (by rw [show (0.0 : ℝ) = 0 by norm_num]; exact hx), ks_loop1_start _ hx _ hf]
  norm_num

/-- full(ℝ): exact arithmetic, MODEL limit.  If `ksStop x > loopFuel` the model returns the panic sentinel. -/
theorem ks_pvalue_hang (d n : ℝ) (hx : d * Real.sqrt n ≠ 0) (hf : loopFuel < ksStop (d * Real.sqrt n)) :
    T.ks_test.onesample_kolmogorov_twosided_pvalue d n = panicV := by
  unfold T.ks_test.onesample_kolmogorov_twosided_pvalue
  simp only [rfun_sqrt, real_beq]
  rw [if_neg (by rw [show (0.0 : ℝ) = 0 by norm_num]; exact hx), ks_loop1_start_hang _ hx _ hf]


/-- full(ℝ): `ln 10¹⁰ < 23.105` (from `10³⁰ < 2¹⁰⁰`). -/
theorem log_1e10_lt : Real.log (1e10 : ℝ) < 23.105 := by
  have h3 : 3 * Real.log (1e10 : ℝ) = Real.log ((1e10 : ℝ) ^ 3) := by rw [Real.log_pow]; norm_num
  have h100 : Real.log ((2 : ℝ) ^ 100) = 100 * Real.log 2 := by rw [Real.log_pow]; norm_num
  have hlt : Real.log ((1e10 : ℝ) ^ 3) < Real.log ((2 : ℝ) ^ 100) :=
    Real.log_lt_log (by norm_num) (by norm_num)
  have h2 := Real.log_two_lt_d9
  rw [← h3, h100] at hlt
  generalize Real.log (1e10 : ℝ) = L at *
  generalize Real.log (2 : ℝ) = M at *
  norm_num at h2 ⊢
  linarith

/-- full(ℝ): `23 ≤ ln 10¹⁰` (from `e²³ ≤ 2.7182818286²³ ≤ 10¹⁰`). -/
theorem log_1e10_ge : (23 : ℝ) ≤ Real.log (1e10 : ℝ) := by
  rw [Real.le_log_iff_exp_le (by norm_num)]
  have h : Real.exp 23 = Real.exp 1 ^ 23 := by rw [← Real.exp_nat_mul]; norm_num
  rw [h]
  calc Real.exp 1 ^ 23 ≤ (2.7182818286 : ℝ) ^ 23 :=
        pow_le_pow_left₀ (Real.exp_pos 1).le Real.exp_one_lt_d9.le 23
    _ ≤ 1e10 := by norm_num

/-- full(ℝ): `ksC < 3.4`. -/
theorem ksC_lt : ksC < 3.4 := by
  unfold ksC
  rw [Real.sqrt_lt' (by norm_num)]
  have := log_1e10_lt; norm_num; linarith

/-- full(ℝ): `3.39 ≤ ksC`. -/
theorem ksC_ge : 3.39 ≤ ksC := by
  unfold ksC
  apply Real.le_sqrt_of_sq_le
  have := log_1e10_ge; norm_num; linarith

/-- full(ℝ): for `|x| ≥ 1.7e-4` the stop index is within `loopFuel = 20000`. -/
theorem ksStop_le_fuel {x : ℝ} (hx : 1.7e-4 ≤ |x|) : ksStop x ≤ loopFuel := by
  have hf : loopFuel = 20000 := rfl
  have hax : (0 : ℝ) < |x| := lt_of_lt_of_le (by norm_num) hx
  have h1 : ksC / |x| < 20000 := by
    rw [div_lt_iff₀ hax]; have := ksC_lt; nlinarith
  have h2 : ⌊ksC / |x|⌋₊ < 20000 := (Nat.floor_lt (div_pos ksC_pos hax).le).mpr (by exact_mod_cast h1)
  unfold ksStop; omega

/-- full(ℝ): for `0 < |x| ≤ 1.69e-4` the stop index exceeds `loopFuel = 20000`. -/
theorem fuel_lt_ksStop {x : ℝ} (hx0 : x ≠ 0) (hx : |x| ≤ 1.69e-4) : loopFuel < ksStop x := by
  have hf : loopFuel = 20000 := rfl
  have hax : (0 : ℝ) < |x| := abs_pos.mpr hx0
  have h1 : (20000 : ℝ) ≤ ksC / |x| := by
    rw [le_div_iff₀ hax]; have := ksC_ge; nlinarith
  have h2 : 20000 ≤ ⌊ksC / |x|⌋₊ := Nat.le_floor (by exact_mod_cast h1)
  unfold ksStop; omega


/-- full(ℝ): partial sums of an alternating series with antitone non-negative terms lie in `[0, a 0]` -/
theorem alternating_partial_bounds (a : ℕ → ℝ) (ha : Antitone a) (h0 : ∀ n, 0 ≤ a n) (n : ℕ) :
    0 ≤ ∑ i ∈ Finset.range n, (-1 : ℝ) ^ i * a i ∧ ∑ i ∈ Finset.range n, (-1 : ℝ) ^ i * a i ≤ a 0 := by
  have key : ∀ m : ℕ, 0 ≤ ∑ i ∈ Finset.range (2 * m), (-1 : ℝ) ^ i * a i ∧
      ∑ i ∈ Finset.range (2 * m + 1), (-1 : ℝ) ^ i * a i ≤ a 0 := by
    intro m
    induction m with
    | zero => simp
    | succ m ih =>
      have e1 : 2 * (m + 1) = 2 * m + 1 + 1 := by ring
      have p1 : (-1 : ℝ) ^ (2 * m) = 1 := by rw [pow_mul]; norm_num
      have p2 : (-1 : ℝ) ^ (2 * m + 1) = -1 := by rw [pow_succ, p1]; norm_num
      have p3 : (-1 : ℝ) ^ (2 * m + 1 + 1) = 1 := by rw [pow_succ, p2]; norm_num
      have d1 : a (2 * m + 1) ≤ a (2 * m) := ha (by omega)
      have d2 : a (2 * m + 1 + 1) ≤ a (2 * m + 1) := ha (by omega)
      rw [e1]
      constructor
      · rw [Finset.sum_range_succ, Finset.sum_range_succ, p1, p2]; linarith [ih.1]
      · rw [Finset.sum_range_succ, Finset.sum_range_succ, p2, p3]; linarith [ih.2]
  rcases Nat.even_or_odd' n with ⟨m, rfl | rfl⟩
  · refine ⟨(key m).1, ?_⟩
    have h := (key m).2
    rw [Finset.sum_range_succ] at h
    have p1 : (-1 : ℝ) ^ (2 * m) = 1 := by rw [pow_mul]; norm_num
    rw [p1] at h; linarith [h0 (2 * m)]
  · refine ⟨?_, (key m).2⟩
    rw [Finset.sum_range_succ]
    have p1 : (-1 : ℝ) ^ (2 * m) = 1 := by rw [pow_mul]; norm_num
    rw [p1]; linarith [(key m).1, h0 (2 * m)]

/-- full(ℝ): the terms `exp(−2k²x²)` decrease in `k`. -/
theorem ksTerm_antitone (x : ℝ) : Antitone (fun i : ℕ => ksTerm x (i + 1)) := by
  intro i j hij
  unfold ksTerm
  apply Real.exp_le_exp.mpr
  have h1 : ((i + 1 : ℕ) : ℝ) ≤ ((j + 1 : ℕ) : ℝ) := by exact_mod_cast (by omega : i + 1 ≤ j + 1)
  have h2 : ((i + 1 : ℕ) : ℝ) ^ 2 ≤ ((j + 1 : ℕ) : ℝ) ^ 2 := pow_le_pow_left₀ (by positivity) h1 2
  nlinarith [sq_nonneg x]

/-- full(ℝ): every partial sum lies in `[0, e^{−2x²}]`. -/
theorem ksSum_bounds (x : ℝ) (n : ℕ) : 0 ≤ ksSum x n ∧ ksSum x n ≤ Real.exp (-(2 * x ^ 2)) := by
  have h := alternating_partial_bounds (fun i : ℕ => ksTerm x (i + 1)) (ksTerm_antitone x)
    (fun n => (Real.exp_pos _).le) n
  have e : ksTerm x (0 + 1) = Real.exp (-(2 * x ^ 2)) := by unfold ksTerm; norm_num
  rw [← e]; exact h

/-- partial(`p ≤ 1` is missing — it is false in general, see `ks_pvalue_gt_one_counterexample` in Draft/C18/PValueRange):
    exact arithmetic; `0 ≤ p ≤ 2·e^{−2x²} < 2` for `x = d·√n ≠ 0` with stop index within the fuel. -/
theorem ks_pvalue_range_partial (d n : ℝ) (hx : d * Real.sqrt n ≠ 0)
    (hf : ksStop (d * Real.sqrt n) ≤ loopFuel) :
    0 ≤ T.ks_test.onesample_kolmogorov_twosided_pvalue d n ∧
    T.ks_test.onesample_kolmogorov_twosided_pvalue d n ≤ 2 * Real.exp (-(2 * (d * Real.sqrt n) ^ 2)) ∧
    T.ks_test.onesample_kolmogorov_twosided_pvalue d n < 2 := by
  rw [ks_pvalue_value d n hx hf]
  have h := ksSum_bounds (d * Real.sqrt n) (ksStop (d * Real.sqrt n))
  have h1 : Real.exp (-(2 * (d * Real.sqrt n) ^ 2)) < 1 := by
    rw [Real.exp_lt_one_iff]; have := pow_pos (abs_pos.mpr hx) 2; rw [sq_abs] at this; linarith
  refine ⟨by linarith [h.1], by linarith [h.2], by linarith [h.2]⟩


/-- partial(only `|x| ≥ 0.59`, where already the first term gives `2e^{−2x²} ≤ 1`): exact arithmetic; the value is in
    `[0, 1]` and the loop terminates (no fuel hypothesis needed). -/
theorem ks_pvalue_le_one_partial (d n : ℝ) (hx : 0.59 ≤ |d * Real.sqrt n|) :
    0 ≤ T.ks_test.onesample_kolmogorov_twosided_pvalue d n ∧
    T.ks_test.onesample_kolmogorov_twosided_pvalue d n ≤ 1 := by
  have hx0 : d * Real.sqrt n ≠ 0 := by
    intro h; rw [h, abs_zero] at hx; norm_num at hx
  have hf : ksStop (d * Real.sqrt n) ≤ loopFuel := ksStop_le_fuel (le_trans (by norm_num) hx)
  obtain ⟨h0, h1, _⟩ := ks_pvalue_range_partial d n hx0 hf
  refine ⟨h0, le_trans h1 ?_⟩
  have hsq : (0.59 : ℝ) ^ 2 ≤ (d * Real.sqrt n) ^ 2 := by
    rw [← sq_abs (d * Real.sqrt n)]; exact pow_le_pow_left₀ (by norm_num) hx 2
  have hl : Real.log 2 ≤ 2 * (d * Real.sqrt n) ^ 2 := by
    have := Real.log_two_lt_d9; norm_num at this hsq ⊢; linarith
  have : Real.exp (-(2 * (d * Real.sqrt n) ^ 2)) ≤ Real.exp (-Real.log 2) :=
    Real.exp_le_exp.mpr (by linarith)
  have e2 : Real.exp (-Real.log 2) = 1 / 2 := by
    rw [Real.exp_neg, Real.exp_log (by norm_num)]; norm_num
  rw [e2] at this
  linarith

/-- counterexample (to "bounded time"): exact arithmetic; the iteration count `ksStop x` exceeds every bound as
    `x → 0+` (`x = 1/(M+1)` needs more than `M` iterations).  The guard `x == 0.0` excludes only `x = 0`. -/
theorem ks_iterations_unbounded (M : ℕ) : ∃ x : ℝ, 0 < x ∧ M < ksStop x := by
  refine ⟨1 / ((M : ℝ) + 1), by positivity, ?_⟩
  have hpos : (0 : ℝ) < 1 / ((M : ℝ) + 1) := by positivity
  have h1 : ((M : ℝ) + 1) ≤ ksC / |1 / ((M : ℝ) + 1)| := by
    rw [abs_of_pos hpos, le_div_iff₀ hpos]
    have := ksC_ge
    have e : ((M : ℝ) + 1) * (1 / ((M : ℝ) + 1)) = 1 := by field_simp
    linarith
  have h2 : M + 1 ≤ ⌊ksC / |1 / ((M : ℝ) + 1)|⌋₊ := Nat.le_floor (by exact_mod_cast h1)
  unfold ksStop; omega


/-- full(ℝ): exact arithmetic, MODEL limit (the Rust loop just runs `ksStop x ≈ 3.39/|x|` iterations):
    for `0 < |d·√n| ≤ 1.69e-4` the model returns the panic sentinel. -/
theorem ks_pvalue_hang_small (d n : ℝ) (hx0 : d * Real.sqrt n ≠ 0) (hx : |d * Real.sqrt n| ≤ 1.69e-4) :
    T.ks_test.onesample_kolmogorov_twosided_pvalue d n = panicV :=
  ks_pvalue_hang d n hx0 (fuel_lt_ksStop hx0 hx)

/-- full(ℝ): exact arithmetic.  C12 summary for the Kolmogorov p-value: for `|x| = |d·√n| ≥ 1.7e-4` the lifted loop
    does not hang; it performs `N = ⌊ksC/|x|⌋ + 1 ≤ ⌈ksC/|x|⌉ + 1 ≤ 20000` iterations and the value is `2·S_N ∈ [0, 2)`. -/
theorem ks_pvalue_terminates (d n : ℝ) (hx : 1.7e-4 ≤ |d * Real.sqrt n|) :
    T.ks_test.onesample_kolmogorov_twosided_pvalue.loop1 loopFuel (d * Real.sqrt n) (0.0 : ℝ) (1.0 : ℝ)
      = LoopR.done (ksSum (d * Real.sqrt n) (ksStop (d * Real.sqrt n)), (ksStop (d * Real.sqrt n) : ℝ)) ∧
    ksStop (d * Real.sqrt n) ≤ ⌈ksC / |d * Real.sqrt n|⌉₊ + 1 ∧ ksStop (d * Real.sqrt n) ≤ loopFuel ∧
    T.ks_test.onesample_kolmogorov_twosided_pvalue d n
      = 2 * ksSum (d * Real.sqrt n) (ksStop (d * Real.sqrt n)) := by
  have hx0 : d * Real.sqrt n ≠ 0 := by
    intro h; rw [h, abs_zero] at hx; norm_num at hx
  have hf := ksStop_le_fuel hx
  exact ⟨ks_loop1_start _ hx0 _ hf, ksStop_le_ceil _, hf, ks_pvalue_value d n hx0 hf⟩

/-- non-vacuity: `d = 1/2`, `n = 4` gives `x = 1` (three iterations: `3 < 3.39… < 4`). -/
example : (1.7e-4 : ℝ) ≤ |(1 / 2 : ℝ) * Real.sqrt 4| := by
  have : Real.sqrt 4 = 2 := by
    rw [show (4 : ℝ) = 2 ^ 2 by norm_num]; exact Real.sqrt_sq (by norm_num)
  rw [this]; norm_num

/-- non-vacuity of the hang region: `d = 1e-4`, `n = 1`. -/
example : (1e-4 : ℝ) * Real.sqrt 1 ≠ 0 ∧ |(1e-4 : ℝ) * Real.sqrt 1| ≤ 1.69e-4 := by
  rw [Real.sqrt_one]; constructor <;> norm_num

end Statrs.Props.C12
