/-
  C12 / C18 — the Kolmogorov loop at the level of the DATA (hand models `Model/RankTests.lean: ks_onesample`,
  `ks_twosample`), EXACT REAL ARITHMETIC.

  In exact arithmetic the argument `x = D·√n` of the series is never "small but non-zero":
    * one sample (`TwoSidedAsymptotic`), ANY function as cdf: the statistic satisfies `D ≥ 1/(2n)`
      (`ks1_statistic_ge`: the first order statistic contributes `cdf(x₍₁₎) − 0` to `d_plus` and
      `1/n − cdf(x₍₁₎)` to `d_minus`), so `x ≥ 1/(2√n)` and the loop stops after at most `⌊2·ksC·√n⌋ + 1`
      iterations (`ks1_asymptotic_iterations`); within the model's fuel for `n ≤ 8·10⁶`;
    * two samples: the statistic is `0` or a non-zero difference of two empirical cdfs, a multiple of
      `1/(n₁n₂)` (`ks2_statistic_lattice`), so `D = 0` (guard: `p = 1`, no loop) or
      `x ≥ 1/√(n₁n₂(n₁+n₂))` and the loop stops after at most `⌊ksC·√(n₁n₂(n₁+n₂))⌋ + 1` iterations
      (`ks2_asymptotic_iterations`); within the model's fuel for `n₁n₂(n₁+n₂) ≤ 3.4·10⁷`.
  More precisely the two-sample statistic is a lattice value `k/(n₁n₂)`, `k ∈ {0, …, n₁n₂}` (`ks2_statistic_lattice_exact`),
  and it is `0` exactly for identical empirical cdfs; then the call returns `Ok((0, 1))` (`ks2_identical_ecdf_asymptotic`).
  HISTORY.  Until commit 5af6953 the f64 code accumulated the empirical cdfs as running sums (`f2 += 1.0/6.0` six times
  gives `0.9999999999999999`), so `ks_twosample([0.0], [0.0; 6], TwoSidedAsymptotic)` had `D = 1.1e-16` where exact
  arithmetic has `D = 0`, and did not return (see `TerminationKS.lean`) — a pure ROUNDING effect, outside the reach of
  theorems over ℝ.  Since 5af6953 the code computes `f1 = i as f64 / n1`, `f2 = j as f64 / n2` from the counts: equal
  fractions round to the same double, and over IEEE `Float` the witness (and the other replayed pairs) has `D = 0.0`
  and returns `Ok((0.0, 1.0))` (`Props/C17/RankTests.lean` §5: `ks2_identical_ecdf_float`,
  `ks2_identical_ecdf_asymptotic_float`).  Over ℝ both formulations denote the same number, so every statement
  below is unchanged by the fix.
-/
import Statrs.Props.C17.RankTests
import Statrs.Props.C12.TerminationKS
namespace Statrs.Props.C12
open Statrs Statrs.Gen Statrs.Model Statrs.Lemmas.RankSort Statrs.Lemmas.RankKS Statrs.Props.C17

/-- full(ℝ): if `|x| ≥ L > 0` the Kolmogorov loop performs at most `⌊ksC/L⌋ + 1` iterations. -/
theorem ksStop_le_of_le {x L : ℝ} (hL : 0 < L) (h : L ≤ |x|) : ksStop x ≤ ⌊ksC / L⌋₊ + 1 := by
  unfold ksStop
  have : ksC / |x| ≤ ksC / L := div_le_div_of_nonneg_left ksC_pos.le hL h
  have := Nat.floor_le_floor this
  omega

/-! ## one sample -/

section
variable [SF ℝ]

/-- full(ℝ): for non-empty data and ANY function `cdf`, the two-sided one-sample statistic is at least `1/(2n)`. -/
theorem ks1_statistic_ge (data : List ℝ) (cdf : ℝ → ℝ) (hn : data ≠ []) :
    1 / (2 * (data.length : ℝ)) ≤
      RFun.fmax (ks_onesample.stats data cdf).1 (ks_onesample.stats data cdf).2 := by
  have hlen : ((sortBy leR data).map cdf).length = data.length := by
    rw [List.length_map, sortBy_length]
  have hpos : 0 < ((sortBy leR data).map cdf).length := by
    rw [hlen]; exact List.length_pos_iff.2 hn
  have hnpos : (0 : ℝ) < (data.length : ℝ) := by exact_mod_cast (List.length_pos_iff.2 hn)
  set t := ((sortBy leR data).map cdf)[0] with ht
  have h1 : t ≤ (ks_onesample.stats data cdf).1 := by
    unfold ks_onesample.stats
    simp only [rfun_ofInt, rfun_fmax]
    have hm := zip_range_mem ((sortBy leR data).map cdf) 0 (listLen data) 0 hpos
      (by rw [hlen]; simp [listLen])
    have hmem : t ∈ (List.zip ((sortBy leR data).map cdf) (rangeList 0 (listLen data))).map
        (fun p => p.1 - ((p.2 : ℝ) / ((listLen data : Int) : ℝ))) :=
      List.mem_map.2 ⟨_, hm, by simp [ht]⟩
    exact (foldl_max_spec id _ _).2.1 t hmem
  have h2 : 1 / (data.length : ℝ) - t ≤ (ks_onesample.stats data cdf).2 := by
    unfold ks_onesample.stats
    simp only [rfun_ofInt, rfun_fmax]
    have hm := zip_range_mem ((sortBy leR data).map cdf) 1 (listLen data + 1) 0 hpos
      (by rw [hlen]; simp [listLen, add_comm])
    have hmem : 1 / (data.length : ℝ) - t ∈ (List.zip ((sortBy leR data).map cdf)
        (rangeList 1 (listLen data + 1))).map
        (fun p => ((p.2 : ℝ) / ((listLen data : Int) : ℝ)) - p.1) :=
      List.mem_map.2 ⟨_, hm, by simp [ht, listLen]⟩
    exact (foldl_max_spec id _ _).2.1 _ hmem
  rw [rfun_fmax]
  have h3 : 1 / (2 * (data.length : ℝ)) = (1 / (data.length : ℝ)) / 2 := by field_simp
  rw [h3]
  rcases le_total t ((1 / (data.length : ℝ)) / 2) with h | h
  · exact le_trans (by linarith) (le_trans h2 (le_max_right _ _))
  · exact le_trans h (le_trans h1 (le_max_left _ _))

/-- full(ℝ): exact arithmetic.  For `ks_onesample(…, TwoSidedAsymptotic)` on `n ≥ 1` data points and ANY cdf the
    argument `x = D·√n` of the Kolmogorov series is at least `1/(2√n)`, so the loop performs at most
    `⌊2·ksC·√n⌋ + 1 ≤ ⌊6.8·√n⌋ + 1` iterations. -/
theorem ks1_asymptotic_iterations (data : List ℝ) (cdf : ℝ → ℝ) (hn : data ≠ []) :
    1 / (2 * Real.sqrt (data.length : ℝ)) ≤
      |RFun.fmax (ks_onesample.stats data cdf).1 (ks_onesample.stats data cdf).2
        * Real.sqrt (RFun.ofInt (listLen data) : ℝ)| ∧
    ksStop (RFun.fmax (ks_onesample.stats data cdf).1 (ks_onesample.stats data cdf).2
        * Real.sqrt (RFun.ofInt (listLen data) : ℝ)) ≤ ⌊2 * ksC * Real.sqrt (data.length : ℝ)⌋₊ + 1 := by
  have hnpos : (0 : ℝ) < (data.length : ℝ) := by exact_mod_cast (List.length_pos_iff.2 hn)
  have hs : 0 < Real.sqrt (data.length : ℝ) := Real.sqrt_pos.2 hnpos
  have hD := ks1_statistic_ge data cdf hn
  have hcast : (RFun.ofInt (listLen data) : ℝ) = (data.length : ℝ) := by simp [listLen]
  rw [hcast]
  set D := RFun.fmax (ks_onesample.stats data cdf).1 (ks_onesample.stats data cdf).2
  have hD0 : 0 ≤ D := le_trans (by positivity) hD
  have hx : 1 / (2 * Real.sqrt (data.length : ℝ)) ≤ |D * Real.sqrt (data.length : ℝ)| := by
    rw [abs_of_nonneg (mul_nonneg hD0 hs.le)]
    calc 1 / (2 * Real.sqrt (data.length : ℝ))
        = 1 / (2 * (data.length : ℝ)) * Real.sqrt (data.length : ℝ) := by
          have := Real.mul_self_sqrt hnpos.le
          field_simp; nlinarith
      _ ≤ D * Real.sqrt (data.length : ℝ) := mul_le_mul_of_nonneg_right hD hs.le
  refine ⟨hx, ?_⟩
  have h := ksStop_le_of_le (by positivity) hx
  have e : ksC / (1 / (2 * Real.sqrt (data.length : ℝ))) = 2 * ksC * Real.sqrt (data.length : ℝ) := by
    field_simp
  rwa [e] at h

/-- full(ℝ): exact arithmetic.  C12/C18 for `ks_onesample(data, cdf, TwoSidedAsymptotic, policy)` over ℝ: for
    `1 ≤ n ≤ 8 000 000` data points and ANY cdf the call returns `Ok((D, p))`, the Kolmogorov loop inside stops
    (no `hang`) and `p ∈ [0,1]`. -/
theorem ks1_asymptotic_terminates (madd : ℝ → ℝ → ℝ → ℝ) (data : List ℝ) (cdf : ℝ → ℝ) (pol : NaNPolicy)
    (hn : data ≠ []) (hsize : data.length ≤ 8000000) :
    ∃ s pv, ks_onesample madd data cdf KSOneSampleAlternativeMethod.TwoSidedAsymptotic pol = .ok (s, pv) ∧
      0 ≤ pv ∧ pv ≤ 1 ∧
      T.ks_test.onesample_kolmogorov_twosided_pvalue.loop1 loopFuel
          (s * Real.sqrt (RFun.ofInt (listLen data) : ℝ)) (0.0 : ℝ) (1.0 : ℝ)
        = LoopR.done (ksSum (s * Real.sqrt (RFun.ofInt (listLen data) : ℝ))
            (ksStop (s * Real.sqrt (RFun.ofInt (listLen data) : ℝ))),
          (ksStop (s * Real.sqrt (RFun.ofInt (listLen data) : ℝ)) : ℝ)) := by
  have hr := ks1_asymptotic madd data cdf pol (real_clean data) hn
  refine ⟨_, _, hr, (ntClamp_unit _).1, (ntClamp_unit _).2, ?_⟩
  have hx := (ks1_asymptotic_iterations data cdf hn).1
  have hnpos : (0 : ℝ) < (data.length : ℝ) := by exact_mod_cast (List.length_pos_iff.2 hn)
  have hle : (data.length : ℝ) ≤ 8000000 := by exact_mod_cast hsize
  have hsq : Real.sqrt (data.length : ℝ) ≤ 2900 := by
    rw [Real.sqrt_le_iff]; constructor <;> norm_num; linarith
  have hs : 0 < Real.sqrt (data.length : ℝ) := Real.sqrt_pos.2 hnpos
  have h17 : (1.7e-4 : ℝ) ≤ 1 / (2 * Real.sqrt (data.length : ℝ)) := by
    rw [le_div_iff₀ (by positivity)]; norm_num; nlinarith
  exact (ks_pvalue_terminates _ _ (le_trans h17 hx)).1

/-! ## two samples -/

omit [SF ℝ] in
/-- full(ℝ): a difference of two empirical cdfs (samples of sizes `n₁, n₂ ≥ 1`) is `≤ 0` or `≥ 1/(n₁n₂)`. -/
theorem ecdf_diff_lattice (d1 d2 : List ℝ) (hn1 : d1 ≠ []) (hn2 : d2 ≠ []) (x : ℝ) :
    ecdf d1 x - ecdf d2 x ≤ 0 ∨ 1 / ((d1.length : ℝ) * (d2.length : ℝ)) ≤ ecdf d1 x - ecdf d2 x := by
  have h1 : (0 : ℝ) < (d1.length : ℝ) := by exact_mod_cast (List.length_pos_iff.2 hn1)
  have h2 : (0 : ℝ) < (d2.length : ℝ) := by exact_mod_cast (List.length_pos_iff.2 hn2)
  unfold ecdf
  set c1 := d1.countP (fun a => decide (a ≤ x))
  set c2 := d2.countP (fun a => decide (a ≤ x))
  have e : (c1 : ℝ) / (d1.length : ℝ) - (c2 : ℝ) / (d2.length : ℝ)
      = (((c1 : ℤ) * (d2.length : ℤ) - (c2 : ℤ) * (d1.length : ℤ) : ℤ) : ℝ)
        / ((d1.length : ℝ) * (d2.length : ℝ)) := by
    push_cast; field_simp
  rw [e]
  rcases le_or_gt ((c1 : ℤ) * (d2.length : ℤ) - (c2 : ℤ) * (d1.length : ℤ)) 0 with h | h
  · left
    apply div_nonpos_of_nonpos_of_nonneg _ (by positivity)
    exact_mod_cast h
  · right
    apply div_le_div_of_nonneg_right _ (by positivity)
    have : (1 : ℤ) ≤ (c1 : ℤ) * (d2.length : ℤ) - (c2 : ℤ) * (d1.length : ℤ) := h
    exact_mod_cast this

/-- full(ℝ): exact arithmetic.  The two-sided two-sample statistic `max(d_plus, d_minus)` is `0` or at least
    `1/(n₁n₂)`. -/
theorem ks2_statistic_lattice (d1 d2 : List ℝ) (hn1 : d1 ≠ []) (hn2 : d2 ≠ []) :
    RFun.fmax (ks_twosample.stats d1 d2).1 (ks_twosample.stats d1 d2).2 = 0 ∨
    1 / ((d1.length : ℝ) * (d2.length : ℝ)) ≤
      RFun.fmax (ks_twosample.stats d1 d2).1 (ks_twosample.stats d1 d2).2 := by
  have key : ∀ (a b : List ℝ) (hna : a ≠ []) (hnb : b ≠ []) (S : Set ℝ) (v : ℝ),
      IsGreatest (insert 0 ((fun x => ecdf a x - ecdf b x) '' S)) v →
      v = 0 ∨ 1 / ((a.length : ℝ) * (b.length : ℝ)) ≤ v := by
    intro a b hna hnb S v hv
    have hv0 : 0 ≤ v := hv.2 (Set.mem_insert _ _)
    rcases hv.1 with h | ⟨x, -, rfl⟩
    · left; exact h
    · rcases ecdf_diff_lattice a b hna hnb x with h | h
      · left; exact le_antisymm h hv0
      · right; exact h
  have hp := key d1 d2 hn1 hn2 _ _ (ks2_dplus_isGreatest d1 d2)
  have hm := key d2 d1 hn2 hn1 _ _ (ks2_dminus_isGreatest d1 d2)
  rw [mul_comm] at hm
  rw [rfun_fmax]
  rcases hp with hp | hp
  · rcases hm with hm | hm
    · left; rw [hp, hm, max_self]
    · right; exact le_trans hm (le_max_right _ _)
  · right; exact le_trans hp (le_max_left _ _)

omit [SF ℝ] in
/-- full(ℝ): a difference of two empirical cdfs (samples of sizes `n₁, n₂ ≥ 1`) is an integer multiple of `1/(n₁n₂)`. -/
theorem ecdf_diff_lattice_exact (d1 d2 : List ℝ) (hn1 : d1 ≠ []) (hn2 : d2 ≠ []) (x : ℝ) :
    ∃ z : ℤ, ecdf d1 x - ecdf d2 x = (z : ℝ) / ((d1.length : ℝ) * (d2.length : ℝ)) := by
  have h1 : (0 : ℝ) < (d1.length : ℝ) := by exact_mod_cast (List.length_pos_iff.2 hn1)
  have h2 : (0 : ℝ) < (d2.length : ℝ) := by exact_mod_cast (List.length_pos_iff.2 hn2)
  refine ⟨((d1.countP (fun a => decide (a ≤ x)) : ℕ) : ℤ) * (d2.length : ℤ)
      - ((d2.countP (fun a => decide (a ≤ x)) : ℕ) : ℤ) * (d1.length : ℤ), ?_⟩
  unfold ecdf
  push_cast
  field_simp

/-- full(ℝ): exact arithmetic.  The two-sided two-sample statistic `max(d_plus, d_minus)` is EXACTLY a lattice value
    `k/(n₁n₂)` with `k ∈ {0, …, n₁n₂}` (in f64, since 5af6953, it is the rounded difference of two correctly rounded
    quotients `i/n₁`, `j/n₂`; before, of two running sums). -/
theorem ks2_statistic_lattice_exact (d1 d2 : List ℝ) (hn1 : d1 ≠ []) (hn2 : d2 ≠ []) :
    ∃ k : ℕ, k ≤ d1.length * d2.length ∧
      RFun.fmax (ks_twosample.stats d1 d2).1 (ks_twosample.stats d1 d2).2
        = (k : ℝ) / ((d1.length : ℝ) * (d2.length : ℝ)) := by
  have h1 : (0 : ℝ) < (d1.length : ℝ) := by exact_mod_cast (List.length_pos_iff.2 hn1)
  have h2 : (0 : ℝ) < (d2.length : ℝ) := by exact_mod_cast (List.length_pos_iff.2 hn2)
  have key : ∀ (a b : List ℝ) (hna : a ≠ []) (hnb : b ≠ []) (S : Set ℝ) (v : ℝ),
      IsGreatest (insert 0 ((fun x => ecdf a x - ecdf b x) '' S)) v →
      ∃ k : ℕ, v = (k : ℝ) / ((a.length : ℝ) * (b.length : ℝ)) := by
    intro a b hna hnb S v hv
    have ha : (0 : ℝ) < (a.length : ℝ) := by exact_mod_cast (List.length_pos_iff.2 hna)
    have hb : (0 : ℝ) < (b.length : ℝ) := by exact_mod_cast (List.length_pos_iff.2 hnb)
    have hv0 : 0 ≤ v := hv.2 (Set.mem_insert _ _)
    rcases hv.1 with h | ⟨x, -, rfl⟩
    · exact ⟨0, by rw [h]; simp⟩
    · obtain ⟨z, hz⟩ := ecdf_diff_lattice_exact a b hna hnb x
      simp only at hv0 ⊢
      rw [hz] at hv0 ⊢
      have hz0 : 0 ≤ z := by
        by_contra hneg
        have hzneg : (z : ℝ) < 0 := by exact_mod_cast (not_le.1 hneg)
        have : (z : ℝ) / ((a.length : ℝ) * (b.length : ℝ)) < 0 := div_neg_of_neg_of_pos hzneg (mul_pos ha hb)
        linarith
      refine ⟨z.toNat, ?_⟩
      have : ((z.toNat : ℕ) : ℝ) = (z : ℝ) := by
        have := Int.toNat_of_nonneg hz0
        exact_mod_cast this
      rw [this]
  obtain ⟨kp, hp⟩ := key d1 d2 hn1 hn2 _ _ (ks2_dplus_isGreatest d1 d2)
  obtain ⟨km, hm⟩ := key d2 d1 hn2 hn1 _ _ (ks2_dminus_isGreatest d1 d2)
  rw [mul_comm] at hm
  obtain ⟨⟨_, hp1⟩, ⟨_, hm1⟩⟩ := ks2_stats_range d1 d2
  have bound : ∀ k : ℕ, (k : ℝ) / ((d1.length : ℝ) * (d2.length : ℝ)) ≤ 1 → k ≤ d1.length * d2.length := by
    intro k hk
    rw [div_le_one (mul_pos h1 h2)] at hk
    exact_mod_cast hk
  rw [rfun_fmax]
  rcases le_total (ks_twosample.stats d1 d2).2 (ks_twosample.stats d1 d2).1 with h | h
  · rw [max_eq_left h]
    exact ⟨kp, bound kp (hp ▸ hp1), hp⟩
  · rw [max_eq_right h]
    exact ⟨km, bound km (hm ▸ hm1), hm⟩

/-- full(ℝ): exact arithmetic.  IDENTICAL EMPIRICAL CDFS (the case of commit 5af6953): for non-empty samples whose empirical
    cdfs agree at every pooled sample point — e.g. `[0]` and `[0; 6]`, any two sizes — `ks_twosample(…, TwoSidedAsymptotic)`
    returns `Ok((0, 1))`: the statistic is exactly `0`, the `x == 0` guard of the Kolmogorov function fires, no loop. -/
theorem ks2_identical_ecdf_asymptotic (d1 d2 : List ℝ) (pol : NaNPolicy) (hn1 : d1 ≠ []) (hn2 : d2 ≠ [])
    (h : ∀ x, (x ∈ d1 ∨ x ∈ d2) → ecdf d1 x = ecdf d2 x) :
    ks_twosample d1 d2 KSTwoSampleAlternativeMethod.TwoSidedAsymptotic pol = .ok (0, 1) := by
  rw [ks2_asymptotic d1 d2 pol (real_clean d1) (real_clean d2) hn1 hn2, ks2_stats_zero_of_ecdf_eq d1 d2 h]
  simp only [rfun_fmax, max_self]
  rw [ks_pvalue_zero _ _ (zero_mul _)]

/-- non-vacuity / the witness over ℝ: `[0]` against `[0; 6]` returns `Ok((0, 1))` -/
example (pol : NaNPolicy) :
    ks_twosample [(0 : ℝ)] [0, 0, 0, 0, 0, 0] KSTwoSampleAlternativeMethod.TwoSidedAsymptotic pol = .ok (0, 1) :=
  ks2_identical_ecdf_asymptotic _ _ pol (by simp) (by simp) (fun x _ => by
    simp only [ecdf, List.countP_cons, List.countP_nil, List.length_cons, List.length_nil]
    split_ifs <;> norm_num)

omit [SF ℝ] in
/-- full(ℝ): the effective sample size the code passes to the Kolmogorov function, `m·n/(m+n)` with `m = max`, `n = min` -/
theorem ks2_en_eq (d1 d2 : List ℝ) :
    ((RFun.ofInt (Max.max (listLen d1) (listLen d2)) : ℝ) * (RFun.ofInt (Min.min (listLen d1) (listLen d2)) : ℝ))
        / ((RFun.ofInt (Max.max (listLen d1) (listLen d2)) : ℝ) + (RFun.ofInt (Min.min (listLen d1) (listLen d2)) : ℝ))
      = ((d1.length : ℝ) * (d2.length : ℝ)) / ((d1.length : ℝ) + (d2.length : ℝ)) := by
  simp only [rfun_ofInt, listLen]
  rcases le_total (d1.length : ℤ) (d2.length : ℤ) with h | h
  · rw [max_eq_right h, min_eq_left h]; push_cast; ring
  · rw [max_eq_left h, min_eq_right h]; push_cast; ring

/-- full(ℝ): exact arithmetic.  For `ks_twosample(…, TwoSidedAsymptotic)` on samples of sizes `n₁, n₂ ≥ 1`: either `D = 0`
    (the `x == 0` guard returns `p = 1` without a loop) or `x = D·√(n₁n₂/(n₁+n₂)) ≥ 1/√(n₁n₂(n₁+n₂))` and the
    Kolmogorov loop performs at most `⌊ksC·√(n₁n₂(n₁+n₂))⌋ + 1` iterations. -/
theorem ks2_asymptotic_iterations (d1 d2 : List ℝ) (hn1 : d1 ≠ []) (hn2 : d2 ≠ []) :
    RFun.fmax (ks_twosample.stats d1 d2).1 (ks_twosample.stats d1 d2).2 = 0 ∨
    (1 / Real.sqrt ((d1.length : ℝ) * (d2.length : ℝ) * ((d1.length : ℝ) + (d2.length : ℝ))) ≤
      |RFun.fmax (ks_twosample.stats d1 d2).1 (ks_twosample.stats d1 d2).2
        * Real.sqrt (((d1.length : ℝ) * (d2.length : ℝ)) / ((d1.length : ℝ) + (d2.length : ℝ)))| ∧
     ksStop (RFun.fmax (ks_twosample.stats d1 d2).1 (ks_twosample.stats d1 d2).2
        * Real.sqrt (((d1.length : ℝ) * (d2.length : ℝ)) / ((d1.length : ℝ) + (d2.length : ℝ))))
      ≤ ⌊ksC * Real.sqrt ((d1.length : ℝ) * (d2.length : ℝ) * ((d1.length : ℝ) + (d2.length : ℝ)))⌋₊ + 1) := by
  have h1 : (0 : ℝ) < (d1.length : ℝ) := by exact_mod_cast (List.length_pos_iff.2 hn1)
  have h2 : (0 : ℝ) < (d2.length : ℝ) := by exact_mod_cast (List.length_pos_iff.2 hn2)
  rcases ks2_statistic_lattice d1 d2 hn1 hn2 with h | h
  · left; exact h
  · right
    set D := RFun.fmax (ks_twosample.stats d1 d2).1 (ks_twosample.stats d1 d2).2
    set P := (d1.length : ℝ) * (d2.length : ℝ) with hP
    set S := (d1.length : ℝ) + (d2.length : ℝ) with hS
    have hPpos : 0 < P := mul_pos h1 h2
    have hSpos : 0 < S := add_pos h1 h2
    have hD0 : 0 ≤ D := le_trans (by positivity) h
    have hsq : Real.sqrt (P / S) = Real.sqrt P / Real.sqrt S := Real.sqrt_div hPpos.le S
    have hsqPS : Real.sqrt (P * S) = Real.sqrt P * Real.sqrt S := Real.sqrt_mul hPpos.le S
    have hsP : 0 < Real.sqrt P := Real.sqrt_pos.2 hPpos
    have hsS : 0 < Real.sqrt S := Real.sqrt_pos.2 hSpos
    have hx : 1 / Real.sqrt (P * S) ≤ |D * Real.sqrt (P / S)| := by
      rw [abs_of_nonneg (mul_nonneg hD0 (Real.sqrt_nonneg _)), hsq, hsqPS]
      calc 1 / (Real.sqrt P * Real.sqrt S) = 1 / P * (Real.sqrt P / Real.sqrt S) := by
            have := Real.mul_self_sqrt hPpos.le
            field_simp; nlinarith
        _ ≤ D * (Real.sqrt P / Real.sqrt S) := mul_le_mul_of_nonneg_right h (by positivity)
    refine ⟨hx, ?_⟩
    have hle := ksStop_le_of_le (by positivity) hx
    have e : ksC / (1 / Real.sqrt (P * S)) = ksC * Real.sqrt (P * S) := by field_simp
    rwa [e] at hle

/-- full(ℝ): exact arithmetic.  C12/C18 for `ks_twosample(d1, d2, TwoSidedAsymptotic, policy)` over ℝ: for non-empty
    samples with `n₁n₂(n₁+n₂) ≤ 34 000 000` (e.g. `n₁ = n₂ ≤ 257`) the call returns `Ok((D, p))` with `0 ≤ p < 2`,
    and either `x = D·√(n₁n₂/(n₁+n₂)) = 0` (guard, no loop) or the Kolmogorov loop returns `done` after `ksStop x`
    iterations — it does not hang.  (`p ≤ 1` fails: `ks_pvalue_gt_one_counterexample`.) -/
theorem ks2_asymptotic_terminates (d1 d2 : List ℝ) (pol : NaNPolicy) (hn1 : d1 ≠ []) (hn2 : d2 ≠ [])
    (hsize : d1.length * d2.length * (d1.length + d2.length) ≤ 34000000) :
    ∃ s pv, ks_twosample d1 d2 KSTwoSampleAlternativeMethod.TwoSidedAsymptotic pol = .ok (s, pv) ∧
      0 ≤ pv ∧ pv < 2 ∧
      (s * Real.sqrt (((d1.length : ℝ) * (d2.length : ℝ)) / ((d1.length : ℝ) + (d2.length : ℝ))) = 0 ∨
       T.ks_test.onesample_kolmogorov_twosided_pvalue.loop1 loopFuel
          (s * Real.sqrt (((d1.length : ℝ) * (d2.length : ℝ)) / ((d1.length : ℝ) + (d2.length : ℝ))))
          (0.0 : ℝ) (1.0 : ℝ)
        = LoopR.done (ksSum (s * Real.sqrt (((d1.length : ℝ) * (d2.length : ℝ)) / ((d1.length : ℝ) + (d2.length : ℝ))))
            (ksStop (s * Real.sqrt (((d1.length : ℝ) * (d2.length : ℝ)) / ((d1.length : ℝ) + (d2.length : ℝ))))),
          (ksStop (s * Real.sqrt (((d1.length : ℝ) * (d2.length : ℝ)) / ((d1.length : ℝ) + (d2.length : ℝ)))) : ℝ))) := by
  have hr := ks2_asymptotic d1 d2 pol (real_clean d1) (real_clean d2) hn1 hn2
  rw [ks2_en_eq] at hr
  refine ⟨_, _, hr, ?_⟩
  have h1 : (0 : ℝ) < (d1.length : ℝ) := by exact_mod_cast (List.length_pos_iff.2 hn1)
  have h2 : (0 : ℝ) < (d2.length : ℝ) := by exact_mod_cast (List.length_pos_iff.2 hn2)
  rcases ks2_asymptotic_iterations d1 d2 hn1 hn2 with h | ⟨hx, -⟩
  · have h0 : RFun.fmax (ks_twosample.stats d1 d2).1 (ks_twosample.stats d1 d2).2
        * Real.sqrt (((d1.length : ℝ) * (d2.length : ℝ)) / ((d1.length : ℝ) + (d2.length : ℝ))) = 0 := by
      rw [h, zero_mul]
    rw [ks_pvalue_zero _ _ h0]
    exact ⟨by norm_num, by norm_num, Or.inl h0⟩
  · have hle : (d1.length : ℝ) * (d2.length : ℝ) * ((d1.length : ℝ) + (d2.length : ℝ)) ≤ 34000000 := by
      exact_mod_cast hsize
    have hpos : 0 < (d1.length : ℝ) * (d2.length : ℝ) * ((d1.length : ℝ) + (d2.length : ℝ)) := by positivity
    have hsq : Real.sqrt ((d1.length : ℝ) * (d2.length : ℝ) * ((d1.length : ℝ) + (d2.length : ℝ))) ≤ 5850 := by
      rw [Real.sqrt_le_iff]; constructor <;> norm_num; linarith
    have hs := Real.sqrt_pos.2 hpos
    have h17 : (1.7e-4 : ℝ) ≤
        1 / Real.sqrt ((d1.length : ℝ) * (d2.length : ℝ) * ((d1.length : ℝ) + (d2.length : ℝ))) := by
      rw [le_div_iff₀ hs]; norm_num; nlinarith
    have hx' := le_trans h17 hx
    have key : ∀ D en : ℝ, 1.7e-4 ≤ |D * Real.sqrt en| →
        0 ≤ T.ks_test.onesample_kolmogorov_twosided_pvalue D en ∧
        T.ks_test.onesample_kolmogorov_twosided_pvalue D en < 2 := by
      intro D en h17'
      have hx0 : D * Real.sqrt en ≠ 0 := fun h0 => by rw [h0, abs_zero] at h17'; norm_num at h17'
      obtain ⟨a, -, c⟩ := ks_pvalue_range_partial _ _ hx0 (ksStop_le_fuel h17')
      exact ⟨a, c⟩
    exact ⟨(key _ _ hx').1, (key _ _ hx').2, Or.inr (ks_pvalue_terminates _ _ hx').1⟩

/-- non-vacuity: two samples of sizes 1 and 6 (the sizes of the f64 hang replayed before 5af6953) satisfy the size bound. -/
example : ([0] : List ℝ) ≠ [] ∧ ([0, 0, 0, 0, 0, 0] : List ℝ) ≠ [] ∧
    ([0] : List ℝ).length * ([0, 0, 0, 0, 0, 0] : List ℝ).length
      * (([0] : List ℝ).length + ([0, 0, 0, 0, 0, 0] : List ℝ).length) ≤ 34000000 := by
  simp

end

end Statrs.Props.C12
