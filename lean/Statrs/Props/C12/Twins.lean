/-
  C12 — `checked_*` functions of the function layer and their panicking twins
  (src/function/{gamma,beta,factorial,logistic}.rs).  Everything here is branch logic and is
  proved for EVERY carrier α (so also for IEEE `Float`); guards are written with the model's own
  comparison primitives (`a ≤ (0.0:α)`, `(a == RFun.inf) = true`, `RFun.isNaN a = true`).

  1. `*_twin`      : the panicking function IS `unwrap` of the checked one (definitional), hence
                     `*_twin_ok`: whenever the checked one returns `Ok v`/`Some v` the twin returns
                     the identical `v`; it "panics" (model: `unwrapE`/`unwrapO` default) exactly
                     when the checked one returns `Err`/`None`.
  2. `*_iff`       : the exact error domain of each checked function.

  Model convention: the fuel-exhaustion sentinel `panicV` of a lifted `loop {}` inside a
  `Result`-returning function is `Except.ok default` (`panicV_except_ok`; high-priority
  `Inhabited (Except ε β)` instance of Basic.lean), never an `Err` variant.  So a returned
  `Err(AInvalid)` can no longer be confused with "the continued-fraction / series loop ran out of
  fuel": the `AInvalid` and `XInvalid` domains of `checked_gamma_lr/ur/li/ui` are both EXACT
  (`*_AInvalid_iff`, `*_XInvalid_iff`), and past the prologue the result is always `Ok`
  (`*_ok_past_prologue`; `*_ok_or_hang` still separates a computed value from the sentinel —
  in Rust the sentinel case is non-termination, not a value).  `checked_beta_reg` iterates over a
  finite range, so its domain theorems never involve the sentinel.
-/
import Mathlib.Tactic
import Statrs.Real.Simp
import Statrs.Gen.F_gamma
import Statrs.Gen.F_beta
import Statrs.Gen.F_factorial
import Statrs.Gen.F_logistic
namespace Statrs.Props.C12
open Statrs Statrs.Gen

/-- the fuel / panic sentinel in a `Result` position is `Ok(default)`, never an `Err` variant -/
theorem panicV_except_ok {ε β : Type} [Inhabited β] : (panicV : Except ε β) = .ok default := rfl
theorem panicV_ne_error {ε β : Type} [Inhabited β] (e : ε) : (panicV : Except ε β) ≠ .error e := by
  rw [panicV_except_ok]; intro h; cases h

section generic
variable {α : Type} [Add α] [Sub α] [Mul α] [Div α] [Neg α] [LT α] [LE α] [BEq α]
  [DecidableLT α] [DecidableLE α] [OfScientific α] [Inhabited α] [RFun α]

/-! ### 1. the panicking twin delegates -/

theorem gamma_ui_twin (a x : α) : F.gamma.gamma_ui a x = unwrapE (F.gamma.checked_gamma_ui a x) := rfl
theorem gamma_li_twin (a x : α) : F.gamma.gamma_li a x = unwrapE (F.gamma.checked_gamma_li a x) := rfl
theorem gamma_ur_twin (a x : α) : F.gamma.gamma_ur a x = unwrapE (F.gamma.checked_gamma_ur a x) := rfl
theorem gamma_lr_twin (a x : α) : F.gamma.gamma_lr a x = unwrapE (F.gamma.checked_gamma_lr a x) := rfl
theorem beta_twin (a b : α) : F.beta.beta a b = unwrapE (F.beta.checked_beta a b) := rfl
theorem ln_beta_twin (a b : α) : F.beta.ln_beta a b = unwrapE (F.beta.checked_ln_beta a b) := rfl
theorem beta_reg_twin (a b x : α) : F.beta.beta_reg a b x = unwrapE (F.beta.checked_beta_reg a b x) := rfl
theorem beta_inc_twin (a b x : α) : F.beta.beta_inc a b x = unwrapE (F.beta.checked_beta_inc a b x) := rfl
theorem multinomial_twin (n : Int) (ni : List Int) :
    F.factorial.multinomial (α := α) n ni = unwrapO (F.factorial.checked_multinomial (α := α) n ni) := rfl
theorem logit_twin (p : α) : F.logistic.logit p = unwrapO (F.logistic.checked_logit p) := rfl

/-- identical value on the `Ok` side (one lemma per twin) -/
theorem gamma_ui_twin_ok (a x v : α) (h : F.gamma.checked_gamma_ui a x = .ok v) : F.gamma.gamma_ui a x = v := by
  rw [gamma_ui_twin, h]; rfl
theorem gamma_li_twin_ok (a x v : α) (h : F.gamma.checked_gamma_li a x = .ok v) : F.gamma.gamma_li a x = v := by
  rw [gamma_li_twin, h]; rfl
theorem gamma_ur_twin_ok (a x v : α) (h : F.gamma.checked_gamma_ur a x = .ok v) : F.gamma.gamma_ur a x = v := by
  rw [gamma_ur_twin, h]; rfl
theorem gamma_lr_twin_ok (a x v : α) (h : F.gamma.checked_gamma_lr a x = .ok v) : F.gamma.gamma_lr a x = v := by
  rw [gamma_lr_twin, h]; rfl
theorem beta_twin_ok (a b v : α) (h : F.beta.checked_beta a b = .ok v) : F.beta.beta a b = v := by
  rw [beta_twin, h]; rfl
theorem ln_beta_twin_ok (a b v : α) (h : F.beta.checked_ln_beta a b = .ok v) : F.beta.ln_beta a b = v := by
  rw [ln_beta_twin, h]; rfl
theorem beta_reg_twin_ok (a b x v : α) (h : F.beta.checked_beta_reg a b x = .ok v) : F.beta.beta_reg a b x = v := by
  rw [beta_reg_twin, h]; rfl
theorem beta_inc_twin_ok (a b x v : α) (h : F.beta.checked_beta_inc a b x = .ok v) : F.beta.beta_inc a b x = v := by
  rw [beta_inc_twin, h]; rfl
theorem multinomial_twin_ok (n : Int) (ni : List Int) (v : α)
    (h : F.factorial.checked_multinomial (α := α) n ni = some v) : F.factorial.multinomial (α := α) n ni = v := by
  rw [multinomial_twin, h]; rfl
theorem logit_twin_ok (p v : α) (h : F.logistic.checked_logit p = some v) : F.logistic.logit p = v := by
  rw [logit_twin, h]; rfl

/-! ### helpers -/

theorem exceptMap_eq_error_iff {ε β γ : Type} (f : β → γ) (r : Except ε β) (e : ε) :
    exceptMap f r = .error e ↔ r = .error e := by
  cases r <;> simp [exceptMap]

theorem exceptMap_eq_ok_iff {ε β γ : Type} (f : β → γ) (r : Except ε β) (w : γ) :
    exceptMap f r = .ok w ↔ ∃ v, r = .ok v ∧ f v = w := by
  cases r <;> simp [exceptMap]

theorem gamma_lr_loop1_shape (fuel : Nat) (eps x r2 c2 ans2 : α) :
    F.gamma.checked_gamma_lr.loop1 fuel eps x r2 c2 ans2 = LoopR.hang ∨
    ∃ s, F.gamma.checked_gamma_lr.loop1 fuel eps x r2 c2 ans2 = LoopR.done s := by
  induction fuel generalizing r2 c2 ans2 with
  | zero => left; rfl
  | succ n ih =>
    unfold F.gamma.checked_gamma_lr.loop1
    simp only
    split_ifs
    · right; exact ⟨_, rfl⟩
    · exact ih _ _ _

theorem gamma_lr_loop3_shape (fuel : Nat) (big big_inv eps y z : α) (c : Int) (p3 p2 q3 q2 ans : α) :
    F.gamma.checked_gamma_lr.loop3 fuel big big_inv eps y z c p3 p2 q3 q2 ans = LoopR.hang ∨
    ∃ s, F.gamma.checked_gamma_lr.loop3 fuel big big_inv eps y z c p3 p2 q3 q2 ans = LoopR.done s := by
  induction fuel generalizing y z c p3 p2 q3 q2 ans with
  | zero => left; rfl
  | succ n ih =>
    unfold F.gamma.checked_gamma_lr.loop3
    simp only
    split_ifs
    all_goals first | (right; exact ⟨_, rfl⟩) | exact ih _ _ _ _ _ _ _ _

theorem gamma_ur_loop1_shape (fuel : Nat) (big big_inv eps y z c pkm2 pkm1 qkm2 qkm1 ans : α) :
    F.gamma.checked_gamma_ur.loop1 fuel big big_inv eps y z c pkm2 pkm1 qkm2 qkm1 ans = LoopR.hang ∨
    ∃ s, F.gamma.checked_gamma_ur.loop1 fuel big big_inv eps y z c pkm2 pkm1 qkm2 qkm1 ans = LoopR.done s := by
  induction fuel generalizing y z c pkm2 pkm1 qkm2 qkm1 ans with
  | zero => left; rfl
  | succ n ih =>
    unfold F.gamma.checked_gamma_ur.loop1
    simp only
    split_ifs
    all_goals first | (right; exact ⟨_, rfl⟩) | exact ih _ _ _ _ _ _ _ _

theorem beta_reg_loop1_shape (l : List Int) (a b bt eps fpmin qab qam qap : α) (st : Bool) (x d c h : α) :
    (∃ v, F.beta.checked_beta_reg.loop1 l a b bt eps fpmin qab qam qap st x d c h = LoopR.ret (.ok v)) ∨
    ∃ s, F.beta.checked_beta_reg.loop1 l a b bt eps fpmin qab qam qap st x d c h = LoopR.done s := by
  induction l generalizing d c h with
  | nil => right; exact ⟨_, rfl⟩
  | cons m l ih =>
    unfold F.beta.checked_beta_reg.loop1
    simp only
    split_ifs
    all_goals first | (left; exact ⟨_, rfl⟩) | exact ih _ _ _

theorem beta_reg_loop1_ret_ok {l : List Int} {a b bt eps fpmin qab qam qap : α} {st : Bool} {x d c h : α}
    {v : Except BetaFuncError α}
    (hl : F.beta.checked_beta_reg.loop1 l a b bt eps fpmin qab qam qap st x d c h = LoopR.ret v) :
    ∃ w, v = .ok w := by
  rcases beta_reg_loop1_shape l a b bt eps fpmin qab qam qap st x d c h with ⟨w, hw⟩ | ⟨s, hs⟩
  · rw [hw] at hl; cases hl; exact ⟨w, rfl⟩
  · rw [hs] at hl; cases hl

theorem beta_reg_loop1_ne_hang {l : List Int} {a b bt eps fpmin qab qam qap : α} {st : Bool} {x d c h : α}
    (hl : F.beta.checked_beta_reg.loop1 l a b bt eps fpmin qab qam qap st x d c h = LoopR.hang) : False := by
  rcases beta_reg_loop1_shape l a b bt eps fpmin qab qam qap st x d c h with ⟨w, hw⟩ | ⟨s, hs⟩
  · rw [hw] at hl; cases hl
  · rw [hs] at hl; cases hl

/-! ### 2a. incomplete gamma: `checked_gamma_lr` -/

/-- `Remarks`: NaN in, `Ok(NaN)` out (checked before the domain test) -/
theorem checked_gamma_lr_nan (a x : α) (h : RFun.isNaN a = true ∨ RFun.isNaN x = true) :
    F.gamma.checked_gamma_lr a x = .ok (RFun.nan : α) := by
  unfold F.gamma.checked_gamma_lr; rw [if_pos h]

/-- `a ∉ (0, +inf)` (and no NaN) ⇒ `Err(AInvalid)` -/
theorem checked_gamma_lr_AInvalid_of (a x : α) (hn : ¬ (RFun.isNaN a = true ∨ RFun.isNaN x = true))
    (ha : a ≤ (0.0 : α) ∨ (a == (RFun.inf : α)) = true) :
    F.gamma.checked_gamma_lr a x = .error .AInvalid := by
  unfold F.gamma.checked_gamma_lr; rw [if_neg hn, if_pos ha]

/-- past the prologue the only outcomes are a computed `Ok v` or the fuel sentinel
    (`panicV = Ok(default)` in the model; Rust: non-termination) -/
theorem checked_gamma_lr_ok_or_hang (a x : α) (hn : ¬ (RFun.isNaN a = true ∨ RFun.isNaN x = true))
    (ha : ¬ (a ≤ (0.0 : α) ∨ (a == (RFun.inf : α)) = true))
    (hx : ¬ (x ≤ (0.0 : α) ∨ (x == (RFun.inf : α)) = true)) :
    (∃ v, F.gamma.checked_gamma_lr a x = .ok v) ∨ F.gamma.checked_gamma_lr a x = panicV := by
  unfold F.gamma.checked_gamma_lr
  rw [if_neg hn, if_neg ha, if_neg hx]
  simp only
  split_ifs
  all_goals try (left; exact ⟨_, rfl⟩)
  · rcases gamma_lr_loop1_shape loopFuel (1e-15 : α) x a (1.0 : α) (1.0 : α) with h | ⟨⟨r2, c2, ans2⟩, h⟩
    · right; rw [h]
    · left; rw [h]; exact ⟨_, rfl⟩
  · rcases gamma_lr_loop3_shape loopFuel (4503599627370496.0 : α) (2.22044604925031308085e-16 : α)
      (1e-15 : α) ((1.0 : α) - a) ((x + ((1.0 : α) - a)) + (1.0 : α)) 0 (1.0 : α) (x + (1.0 : α)) x
      (((x + ((1.0 : α) - a)) + (1.0 : α)) * x)
      ((x + (1.0 : α)) / (((x + ((1.0 : α) - a)) + (1.0 : α)) * x)) with h | ⟨⟨y, z, c, p3, p2, q3, q2, ans⟩, h⟩
    · right; rw [h]
    · left; rw [h]; exact ⟨_, rfl⟩

/-- EXACT domain of `Err(XInvalid)`: no NaN, `a ∈ (0,+inf)`, `x ∉ (0,+inf)` -/
theorem checked_gamma_lr_XInvalid_iff (a x : α) :
    F.gamma.checked_gamma_lr a x = .error .XInvalid ↔
      (¬ (RFun.isNaN a = true ∨ RFun.isNaN x = true) ∧
       ¬ (a ≤ (0.0 : α) ∨ (a == (RFun.inf : α)) = true) ∧
       (x ≤ (0.0 : α) ∨ (x == (RFun.inf : α)) = true)) := by
  constructor
  · intro h
    by_cases hn : RFun.isNaN a = true ∨ RFun.isNaN x = true
    · rw [checked_gamma_lr_nan a x hn] at h; cases h
    by_cases ha : a ≤ (0.0 : α) ∨ (a == (RFun.inf : α)) = true
    · rw [checked_gamma_lr_AInvalid_of a x hn ha] at h; cases h
    by_cases hx : x ≤ (0.0 : α) ∨ (x == (RFun.inf : α)) = true
    · exact ⟨hn, ha, hx⟩
    · rcases checked_gamma_lr_ok_or_hang a x hn ha hx with ⟨v, hv⟩ | hp
      · rw [hv] at h; cases h
      · rw [hp] at h; cases h
  · rintro ⟨hn, ha, hx⟩
    unfold F.gamma.checked_gamma_lr; rw [if_neg hn, if_neg ha, if_pos hx]

/-- past the prologue the result is always `Ok` (a computed value, or the `Ok(default)` sentinel
    when the lifted loop runs out of fuel) -/
theorem checked_gamma_lr_ok_past_prologue (a x : α) (hn : ¬ (RFun.isNaN a = true ∨ RFun.isNaN x = true))
    (ha : ¬ (a ≤ (0.0 : α) ∨ (a == (RFun.inf : α)) = true))
    (hx : ¬ (x ≤ (0.0 : α) ∨ (x == (RFun.inf : α)) = true)) :
    ∃ v, F.gamma.checked_gamma_lr a x = .ok v := by
  rcases checked_gamma_lr_ok_or_hang a x hn ha hx with h | h
  · exact h
  · exact ⟨default, by rw [h, panicV_except_ok]⟩

/-- EXACT domain of `Err(AInvalid)`: no NaN and `a ∉ (0,+inf)` — the documented guard, nothing else
    (fuel exhaustion is `Ok(sentinel)`, not an error, in the model). -/
theorem checked_gamma_lr_AInvalid_iff (a x : α) :
    F.gamma.checked_gamma_lr a x = .error .AInvalid ↔
      (¬ (RFun.isNaN a = true ∨ RFun.isNaN x = true) ∧ (a ≤ (0.0 : α) ∨ (a == (RFun.inf : α)) = true)) := by
  constructor
  · intro h
    by_cases hn : RFun.isNaN a = true ∨ RFun.isNaN x = true
    · rw [checked_gamma_lr_nan a x hn] at h; cases h
    by_cases ha : a ≤ (0.0 : α) ∨ (a == (RFun.inf : α)) = true
    · exact ⟨hn, ha⟩
    by_cases hx : x ≤ (0.0 : α) ∨ (x == (RFun.inf : α)) = true
    · rw [(checked_gamma_lr_XInvalid_iff a x).mpr ⟨hn, ha, hx⟩] at h; cases h
    · obtain ⟨v, hv⟩ := checked_gamma_lr_ok_past_prologue a x hn ha hx
      rw [hv] at h; cases h
  · rintro ⟨hn, ha⟩
    exact checked_gamma_lr_AInvalid_of a x hn ha

/-- `Ok` is returned only on NaN input or inside the documented domain `(0,+inf)²` -/
theorem checked_gamma_lr_ok_only (a x v : α) (h : F.gamma.checked_gamma_lr a x = .ok v) :
    (RFun.isNaN a = true ∨ RFun.isNaN x = true) ∨
    (¬ (a ≤ (0.0 : α) ∨ (a == (RFun.inf : α)) = true) ∧ ¬ (x ≤ (0.0 : α) ∨ (x == (RFun.inf : α)) = true)) := by
  by_cases hn : RFun.isNaN a = true ∨ RFun.isNaN x = true
  · exact Or.inl hn
  by_cases ha : a ≤ (0.0 : α) ∨ (a == (RFun.inf : α)) = true
  · rw [checked_gamma_lr_AInvalid_of a x hn ha] at h; cases h
  by_cases hx : x ≤ (0.0 : α) ∨ (x == (RFun.inf : α)) = true
  · rw [(checked_gamma_lr_XInvalid_iff a x).mpr ⟨hn, ha, hx⟩] at h; cases h
  · exact Or.inr ⟨ha, hx⟩

/-- `Ok` EXACTLY on NaN input or inside the documented domain `(0,+inf)²` -/
theorem checked_gamma_lr_ok_iff (a x : α) :
    (∃ v, F.gamma.checked_gamma_lr a x = .ok v) ↔
      ((RFun.isNaN a = true ∨ RFun.isNaN x = true) ∨
       (¬ (a ≤ (0.0 : α) ∨ (a == (RFun.inf : α)) = true) ∧ ¬ (x ≤ (0.0 : α) ∨ (x == (RFun.inf : α)) = true))) := by
  constructor
  · rintro ⟨v, h⟩; exact checked_gamma_lr_ok_only a x v h
  · rintro (hn | ⟨ha, hx⟩)
    · exact ⟨_, checked_gamma_lr_nan a x hn⟩
    · by_cases hn : RFun.isNaN a = true ∨ RFun.isNaN x = true
      · exact ⟨_, checked_gamma_lr_nan a x hn⟩
      · exact checked_gamma_lr_ok_past_prologue a x hn ha hx

/-! ### 2b. `checked_gamma_ur` (same prologue) -/

theorem checked_gamma_ur_nan (a x : α) (h : RFun.isNaN a = true ∨ RFun.isNaN x = true) :
    F.gamma.checked_gamma_ur a x = .ok (RFun.nan : α) := by
  unfold F.gamma.checked_gamma_ur; rw [if_pos h]

theorem checked_gamma_ur_AInvalid_of (a x : α) (hn : ¬ (RFun.isNaN a = true ∨ RFun.isNaN x = true))
    (ha : a ≤ (0.0 : α) ∨ (a == (RFun.inf : α)) = true) :
    F.gamma.checked_gamma_ur a x = .error .AInvalid := by
  unfold F.gamma.checked_gamma_ur; rw [if_neg hn, if_pos ha]

theorem checked_gamma_ur_ok_or_hang (a x : α) (hn : ¬ (RFun.isNaN a = true ∨ RFun.isNaN x = true))
    (ha : ¬ (a ≤ (0.0 : α) ∨ (a == (RFun.inf : α)) = true))
    (hx : ¬ (x ≤ (0.0 : α) ∨ (x == (RFun.inf : α)) = true)) :
    (∃ v, F.gamma.checked_gamma_ur a x = .ok v) ∨ F.gamma.checked_gamma_ur a x = panicV := by
  unfold F.gamma.checked_gamma_ur
  rw [if_neg hn, if_neg ha, if_neg hx]
  simp only
  split_ifs
  all_goals try (left; exact ⟨_, rfl⟩)
  rcases gamma_ur_loop1_shape loopFuel (4503599627370496.0 : α) (2.22044604925031308085e-16 : α)
      (1e-15 : α) ((1.0 : α) - a) ((x + ((1.0 : α) - a)) + (1.0 : α)) (0.0 : α) (1.0 : α) (x + (1.0 : α)) x
      (((x + ((1.0 : α) - a)) + (1.0 : α)) * x)
      ((x + (1.0 : α)) / (((x + ((1.0 : α) - a)) + (1.0 : α)) * x)) with h | ⟨⟨y, z, c, p3, p2, q3, q2, ans⟩, h⟩
  · right; rw [h]
  · left; rw [h]; exact ⟨_, rfl⟩

theorem checked_gamma_ur_XInvalid_iff (a x : α) :
    F.gamma.checked_gamma_ur a x = .error .XInvalid ↔
      (¬ (RFun.isNaN a = true ∨ RFun.isNaN x = true) ∧
       ¬ (a ≤ (0.0 : α) ∨ (a == (RFun.inf : α)) = true) ∧
       (x ≤ (0.0 : α) ∨ (x == (RFun.inf : α)) = true)) := by
  constructor
  · intro h
    by_cases hn : RFun.isNaN a = true ∨ RFun.isNaN x = true
    · rw [checked_gamma_ur_nan a x hn] at h; cases h
    by_cases ha : a ≤ (0.0 : α) ∨ (a == (RFun.inf : α)) = true
    · rw [checked_gamma_ur_AInvalid_of a x hn ha] at h; cases h
    by_cases hx : x ≤ (0.0 : α) ∨ (x == (RFun.inf : α)) = true
    · exact ⟨hn, ha, hx⟩
    · rcases checked_gamma_ur_ok_or_hang a x hn ha hx with ⟨v, hv⟩ | hp
      · rw [hv] at h; cases h
      · rw [hp] at h; cases h
  · rintro ⟨hn, ha, hx⟩
    unfold F.gamma.checked_gamma_ur; rw [if_neg hn, if_neg ha, if_pos hx]

theorem checked_gamma_ur_ok_past_prologue (a x : α) (hn : ¬ (RFun.isNaN a = true ∨ RFun.isNaN x = true))
    (ha : ¬ (a ≤ (0.0 : α) ∨ (a == (RFun.inf : α)) = true))
    (hx : ¬ (x ≤ (0.0 : α) ∨ (x == (RFun.inf : α)) = true)) :
    ∃ v, F.gamma.checked_gamma_ur a x = .ok v := by
  rcases checked_gamma_ur_ok_or_hang a x hn ha hx with h | h
  · exact h
  · exact ⟨default, by rw [h, panicV_except_ok]⟩

/-- EXACT domain of `Err(AInvalid)` (as `checked_gamma_lr_AInvalid_iff`) -/
theorem checked_gamma_ur_AInvalid_iff (a x : α) :
    F.gamma.checked_gamma_ur a x = .error .AInvalid ↔
      (¬ (RFun.isNaN a = true ∨ RFun.isNaN x = true) ∧ (a ≤ (0.0 : α) ∨ (a == (RFun.inf : α)) = true)) := by
  constructor
  · intro h
    by_cases hn : RFun.isNaN a = true ∨ RFun.isNaN x = true
    · rw [checked_gamma_ur_nan a x hn] at h; cases h
    by_cases ha : a ≤ (0.0 : α) ∨ (a == (RFun.inf : α)) = true
    · exact ⟨hn, ha⟩
    by_cases hx : x ≤ (0.0 : α) ∨ (x == (RFun.inf : α)) = true
    · rw [(checked_gamma_ur_XInvalid_iff a x).mpr ⟨hn, ha, hx⟩] at h; cases h
    · obtain ⟨v, hv⟩ := checked_gamma_ur_ok_past_prologue a x hn ha hx
      rw [hv] at h; cases h
  · rintro ⟨hn, ha⟩
    exact checked_gamma_ur_AInvalid_of a x hn ha

/-- `Ok` EXACTLY on NaN input or inside the documented domain `(0,+inf)²` -/
theorem checked_gamma_ur_ok_iff (a x : α) :
    (∃ v, F.gamma.checked_gamma_ur a x = .ok v) ↔
      ((RFun.isNaN a = true ∨ RFun.isNaN x = true) ∨
       (¬ (a ≤ (0.0 : α) ∨ (a == (RFun.inf : α)) = true) ∧ ¬ (x ≤ (0.0 : α) ∨ (x == (RFun.inf : α)) = true))) := by
  constructor
  · rintro ⟨v, h⟩
    by_cases hn : RFun.isNaN a = true ∨ RFun.isNaN x = true
    · exact Or.inl hn
    by_cases ha : a ≤ (0.0 : α) ∨ (a == (RFun.inf : α)) = true
    · rw [checked_gamma_ur_AInvalid_of a x hn ha] at h; cases h
    by_cases hx : x ≤ (0.0 : α) ∨ (x == (RFun.inf : α)) = true
    · rw [(checked_gamma_ur_XInvalid_iff a x).mpr ⟨hn, ha, hx⟩] at h; cases h
    · exact Or.inr ⟨ha, hx⟩
  · rintro (hn | ⟨ha, hx⟩)
    · exact ⟨_, checked_gamma_ur_nan a x hn⟩
    · by_cases hn : RFun.isNaN a = true ∨ RFun.isNaN x = true
      · exact ⟨_, checked_gamma_ur_nan a x hn⟩
      · exact checked_gamma_ur_ok_past_prologue a x hn ha hx

/-! ### 2c. `checked_gamma_li` / `checked_gamma_ui`: `.map(|x| x * gamma(a))` keeps the error -/

theorem checked_gamma_li_error_iff (a x : α) (e : GammaFuncError) :
    F.gamma.checked_gamma_li a x = .error e ↔ F.gamma.checked_gamma_lr a x = .error e := by
  unfold F.gamma.checked_gamma_li; exact exceptMap_eq_error_iff _ _ _

theorem checked_gamma_ui_error_iff (a x : α) (e : GammaFuncError) :
    F.gamma.checked_gamma_ui a x = .error e ↔ F.gamma.checked_gamma_ur a x = .error e := by
  unfold F.gamma.checked_gamma_ui; exact exceptMap_eq_error_iff _ _ _

theorem checked_gamma_li_XInvalid_iff (a x : α) :
    F.gamma.checked_gamma_li a x = .error .XInvalid ↔
      (¬ (RFun.isNaN a = true ∨ RFun.isNaN x = true) ∧
       ¬ (a ≤ (0.0 : α) ∨ (a == (RFun.inf : α)) = true) ∧
       (x ≤ (0.0 : α) ∨ (x == (RFun.inf : α)) = true)) := by
  rw [checked_gamma_li_error_iff, checked_gamma_lr_XInvalid_iff]

theorem checked_gamma_ui_XInvalid_iff (a x : α) :
    F.gamma.checked_gamma_ui a x = .error .XInvalid ↔
      (¬ (RFun.isNaN a = true ∨ RFun.isNaN x = true) ∧
       ¬ (a ≤ (0.0 : α) ∨ (a == (RFun.inf : α)) = true) ∧
       (x ≤ (0.0 : α) ∨ (x == (RFun.inf : α)) = true)) := by
  rw [checked_gamma_ui_error_iff, checked_gamma_ur_XInvalid_iff]

theorem checked_gamma_li_AInvalid_of (a x : α) (hn : ¬ (RFun.isNaN a = true ∨ RFun.isNaN x = true))
    (ha : a ≤ (0.0 : α) ∨ (a == (RFun.inf : α)) = true) :
    F.gamma.checked_gamma_li a x = .error .AInvalid :=
  (checked_gamma_li_error_iff a x _).mpr (checked_gamma_lr_AInvalid_of a x hn ha)

theorem checked_gamma_ui_AInvalid_of (a x : α) (hn : ¬ (RFun.isNaN a = true ∨ RFun.isNaN x = true))
    (ha : a ≤ (0.0 : α) ∨ (a == (RFun.inf : α)) = true) :
    F.gamma.checked_gamma_ui a x = .error .AInvalid :=
  (checked_gamma_ui_error_iff a x _).mpr (checked_gamma_ur_AInvalid_of a x hn ha)

theorem checked_gamma_li_AInvalid_iff (a x : α) :
    F.gamma.checked_gamma_li a x = .error .AInvalid ↔
      (¬ (RFun.isNaN a = true ∨ RFun.isNaN x = true) ∧ (a ≤ (0.0 : α) ∨ (a == (RFun.inf : α)) = true)) := by
  rw [checked_gamma_li_error_iff, checked_gamma_lr_AInvalid_iff]

theorem checked_gamma_ui_AInvalid_iff (a x : α) :
    F.gamma.checked_gamma_ui a x = .error .AInvalid ↔
      (¬ (RFun.isNaN a = true ∨ RFun.isNaN x = true) ∧ (a ≤ (0.0 : α) ∨ (a == (RFun.inf : α)) = true)) := by
  rw [checked_gamma_ui_error_iff, checked_gamma_ur_AInvalid_iff]

/-- li/ui on NaN: `Ok(NaN * gamma(a))` (the docs of `*_li/_ui` do not mention NaN) -/
theorem checked_gamma_li_nan (a x : α) (h : RFun.isNaN a = true ∨ RFun.isNaN x = true) :
    F.gamma.checked_gamma_li a x = .ok ((RFun.nan : α) * F.gamma.gamma a) := by
  unfold F.gamma.checked_gamma_li; rw [checked_gamma_lr_nan a x h]; rfl

theorem checked_gamma_ui_nan (a x : α) (h : RFun.isNaN a = true ∨ RFun.isNaN x = true) :
    F.gamma.checked_gamma_ui a x = .ok ((RFun.nan : α) * F.gamma.gamma a) := by
  unfold F.gamma.checked_gamma_ui; rw [checked_gamma_ur_nan a x h]; rfl

/-! ### 2d. beta family (no unbounded loop ⇒ unconditional) -/

theorem checked_ln_beta_A_iff (a b : α) :
    F.beta.checked_ln_beta a b = .error .ANotGreaterThanZero ↔ a ≤ (0.0 : α) := by
  unfold F.beta.checked_ln_beta; split_ifs <;> simp_all

theorem checked_ln_beta_B_iff (a b : α) :
    F.beta.checked_ln_beta a b = .error .BNotGreaterThanZero ↔ (¬ a ≤ (0.0 : α) ∧ b ≤ (0.0 : α)) := by
  unfold F.beta.checked_ln_beta; split_ifs <;> simp_all

theorem checked_ln_beta_never_X (a b : α) : F.beta.checked_ln_beta a b ≠ .error .XOutOfRange := by
  unfold F.beta.checked_ln_beta; split_ifs <;> simp

/-- `Ok` exactly when `¬ a ≤ 0 ∧ ¬ b ≤ 0` (documented: errors iff `a <= 0.0` or `b <= 0.0`) -/
theorem checked_ln_beta_ok_iff (a b : α) :
    (∃ v, F.beta.checked_ln_beta a b = .ok v) ↔ (¬ a ≤ (0.0 : α) ∧ ¬ b ≤ (0.0 : α)) := by
  unfold F.beta.checked_ln_beta; split_ifs <;> simp_all

theorem checked_beta_error_iff (a b : α) (e : BetaFuncError) :
    F.beta.checked_beta a b = .error e ↔ F.beta.checked_ln_beta a b = .error e := by
  unfold F.beta.checked_beta; exact exceptMap_eq_error_iff _ _ _

theorem checked_beta_A_iff (a b : α) :
    F.beta.checked_beta a b = .error .ANotGreaterThanZero ↔ a ≤ (0.0 : α) := by
  rw [checked_beta_error_iff, checked_ln_beta_A_iff]

theorem checked_beta_B_iff (a b : α) :
    F.beta.checked_beta a b = .error .BNotGreaterThanZero ↔ (¬ a ≤ (0.0 : α) ∧ b ≤ (0.0 : α)) := by
  rw [checked_beta_error_iff, checked_ln_beta_B_iff]

theorem checked_beta_ok_iff (a b : α) :
    (∃ v, F.beta.checked_beta a b = .ok v) ↔ (¬ a ≤ (0.0 : α) ∧ ¬ b ≤ (0.0 : α)) := by
  rw [← checked_ln_beta_ok_iff]
  unfold F.beta.checked_beta
  cases F.beta.checked_ln_beta a b <;> simp [exceptMap]

/-- past its three guards `checked_beta_reg` always returns `Ok` -/
theorem checked_beta_reg_ok_of (a b x : α) (ha : ¬ a ≤ (0.0 : α)) (hb : ¬ b ≤ (0.0 : α))
    (hx : (0.0 : α) ≤ x ∧ x ≤ (1.0 : α)) : ∃ v, F.beta.checked_beta_reg a b x = .ok v := by
  unfold F.beta.checked_beta_reg
  rw [if_neg ha, if_neg hb, if_neg (not_not.mpr hx)]
  simp only
  generalize hbt : (if (x == (0.0 : α)) = true ∨ RFun.ulpsEq x (1.0 : α) = true then (0.0 : α) else _) = bt
  split
  · rename_i v hl
    obtain ⟨w, rfl⟩ := beta_reg_loop1_ret_ok hl
    exact ⟨w, rfl⟩
  · rename_i hl
    exact (beta_reg_loop1_ne_hang hl).elim
  · split_ifs <;> exact ⟨_, rfl⟩

theorem checked_beta_reg_A_iff (a b x : α) :
    F.beta.checked_beta_reg a b x = .error .ANotGreaterThanZero ↔ a ≤ (0.0 : α) := by
  constructor
  · intro h
    by_contra ha
    by_cases hb : b ≤ (0.0 : α)
    · unfold F.beta.checked_beta_reg at h; rw [if_neg ha, if_pos hb] at h; cases h
    by_cases hx : (0.0 : α) ≤ x ∧ x ≤ (1.0 : α)
    · obtain ⟨v, hv⟩ := checked_beta_reg_ok_of a b x ha hb hx
      rw [hv] at h; cases h
    · unfold F.beta.checked_beta_reg at h; rw [if_neg ha, if_neg hb, if_pos hx] at h; cases h
  · intro ha; unfold F.beta.checked_beta_reg; rw [if_pos ha]

theorem checked_beta_reg_B_iff (a b x : α) :
    F.beta.checked_beta_reg a b x = .error .BNotGreaterThanZero ↔ (¬ a ≤ (0.0 : α) ∧ b ≤ (0.0 : α)) := by
  constructor
  · intro h
    by_cases ha : a ≤ (0.0 : α)
    · unfold F.beta.checked_beta_reg at h; rw [if_pos ha] at h; cases h
    by_cases hb : b ≤ (0.0 : α)
    · exact ⟨ha, hb⟩
    by_cases hx : (0.0 : α) ≤ x ∧ x ≤ (1.0 : α)
    · obtain ⟨v, hv⟩ := checked_beta_reg_ok_of a b x ha hb hx
      rw [hv] at h; cases h
    · unfold F.beta.checked_beta_reg at h; rw [if_neg ha, if_neg hb, if_pos hx] at h; cases h
  · rintro ⟨ha, hb⟩; unfold F.beta.checked_beta_reg; rw [if_neg ha, if_pos hb]

/-- `Err(XOutOfRange)` exactly when `a, b` pass and `x ∉ [0,1]` in the sense of the code's
    `!(0.0..=1.0).contains(&x)` (this includes NaN `x` on IEEE carriers, where the doc's
    "`x < 0.0` or `x > 1.0`" would not) -/
theorem checked_beta_reg_X_iff (a b x : α) :
    F.beta.checked_beta_reg a b x = .error .XOutOfRange ↔
      (¬ a ≤ (0.0 : α) ∧ ¬ b ≤ (0.0 : α) ∧ ¬ ((0.0 : α) ≤ x ∧ x ≤ (1.0 : α))) := by
  constructor
  · intro h
    by_cases ha : a ≤ (0.0 : α)
    · unfold F.beta.checked_beta_reg at h; rw [if_pos ha] at h; cases h
    by_cases hb : b ≤ (0.0 : α)
    · unfold F.beta.checked_beta_reg at h; rw [if_neg ha, if_pos hb] at h; cases h
    by_cases hx : (0.0 : α) ≤ x ∧ x ≤ (1.0 : α)
    · obtain ⟨v, hv⟩ := checked_beta_reg_ok_of a b x ha hb hx
      rw [hv] at h; cases h
    · exact ⟨ha, hb, hx⟩
  · rintro ⟨ha, hb, hx⟩; unfold F.beta.checked_beta_reg; rw [if_neg ha, if_neg hb, if_pos hx]

theorem checked_beta_reg_ok_iff (a b x : α) :
    (∃ v, F.beta.checked_beta_reg a b x = .ok v) ↔
      (¬ a ≤ (0.0 : α) ∧ ¬ b ≤ (0.0 : α) ∧ ((0.0 : α) ≤ x ∧ x ≤ (1.0 : α))) := by
  constructor
  · rintro ⟨v, h⟩
    by_cases ha : a ≤ (0.0 : α)
    · rw [(checked_beta_reg_A_iff a b x).mpr ha] at h; cases h
    by_cases hb : b ≤ (0.0 : α)
    · rw [(checked_beta_reg_B_iff a b x).mpr ⟨ha, hb⟩] at h; cases h
    by_cases hx : (0.0 : α) ≤ x ∧ x ≤ (1.0 : α)
    · exact ⟨ha, hb, hx⟩
    · rw [(checked_beta_reg_X_iff a b x).mpr ⟨ha, hb, hx⟩] at h; cases h
  · rintro ⟨ha, hb, hx⟩; exact checked_beta_reg_ok_of a b x ha hb hx

/-- `checked_beta_inc` has exactly the error domain of `checked_beta_reg` -/
theorem checked_beta_inc_error_iff (a b x : α) (e : BetaFuncError) :
    F.beta.checked_beta_inc a b x = .error e ↔ F.beta.checked_beta_reg a b x = .error e := by
  unfold F.beta.checked_beta_inc
  constructor
  · intro h
    cases hr : F.beta.checked_beta_reg a b x with
    | error e' => rw [hr] at h; simpa using h
    | ok v =>
      exfalso
      rw [hr] at h
      have hok := (checked_beta_reg_ok_iff a b x).mp ⟨v, hr⟩
      obtain ⟨w, hw⟩ := (checked_beta_ok_iff a b).mpr ⟨hok.1, hok.2.1⟩
      simp [hw, exceptMap] at h
  · intro h; rw [h]

theorem checked_beta_inc_A_iff (a b x : α) :
    F.beta.checked_beta_inc a b x = .error .ANotGreaterThanZero ↔ a ≤ (0.0 : α) := by
  rw [checked_beta_inc_error_iff, checked_beta_reg_A_iff]

theorem checked_beta_inc_B_iff (a b x : α) :
    F.beta.checked_beta_inc a b x = .error .BNotGreaterThanZero ↔ (¬ a ≤ (0.0 : α) ∧ b ≤ (0.0 : α)) := by
  rw [checked_beta_inc_error_iff, checked_beta_reg_B_iff]

theorem checked_beta_inc_X_iff (a b x : α) :
    F.beta.checked_beta_inc a b x = .error .XOutOfRange ↔
      (¬ a ≤ (0.0 : α) ∧ ¬ b ≤ (0.0 : α) ∧ ¬ ((0.0 : α) ≤ x ∧ x ≤ (1.0 : α))) := by
  rw [checked_beta_inc_error_iff, checked_beta_reg_X_iff]

/-! ### 2e. multinomial / logit -/

theorem multinomial_fold_fst (ni : List Int) (s0 : Int) (r0 : α) :
    (List.foldl (fun (acc : Int × α) x => ((acc.1 + x), (acc.2 - (F.factorial.ln_factorial (α := α) x)))) (s0, r0) ni).1
      = s0 + ni.sum := by
  induction ni generalizing s0 r0 with
  | nil => simp
  | cons x xs ih => simp only [List.foldl_cons, List.sum_cons]; rw [ih]; omega

/-- `None` exactly when the `ni` do not sum to `n` (as documented) -/
theorem checked_multinomial_none_iff (n : Int) (ni : List Int) :
    F.factorial.checked_multinomial (α := α) n ni = none ↔ ni.sum ≠ n := by
  unfold F.factorial.checked_multinomial
  have h := multinomial_fold_fst (α := α) ni 0 (F.factorial.ln_factorial (α := α) n)
  simp only [Int.zero_add] at h
  split
  rename_i s r heq
  have hs : s = ni.sum := by rw [← h, heq]
  subst hs
  split_ifs with hc <;> simp [hc]

/-- `None` exactly when `p ∉ [0,1]` in the sense of `(0.0..=1.0).contains(&p)` -/
theorem checked_logit_none_iff (p : α) :
    F.logistic.checked_logit p = none ↔ ¬ ((0.0 : α) ≤ p ∧ p ≤ (1.0 : α)) := by
  unfold F.logistic.checked_logit; split_ifs with h <;> simp [h]

theorem checked_logit_some (p : α) (h : (0.0 : α) ≤ p ∧ p ≤ (1.0 : α)) :
    F.logistic.checked_logit p = some (RFun.ln (p / ((1.0 : α) - p))) := by
  unfold F.logistic.checked_logit; rw [if_pos h]

end generic

/-! non-vacuity: error and success regions are inhabited (carrier ℝ for the float guards) -/
example : ([1, 2] : List Int).sum ≠ 4 := by decide
example : ([1, 3] : List Int).sum = 4 := by decide
example : F.beta.checked_ln_beta (-1 : ℝ) 1 = .error .ANotGreaterThanZero :=
  (checked_ln_beta_A_iff _ _).mpr (by norm_num)
example : ∃ v, F.beta.checked_beta_reg (1 : ℝ) 1 (1 / 2) = .ok v :=
  (checked_beta_reg_ok_iff _ _ _).mpr (by norm_num)
example : F.beta.checked_beta_reg (1 : ℝ) 1 2 = .error .XOutOfRange :=
  (checked_beta_reg_X_iff _ _ _).mpr (by norm_num)
example : F.logistic.checked_logit (2 : ℝ) = none := (checked_logit_none_iff _).mpr (by norm_num)
example : F.gamma.checked_gamma_lr (1 : ℝ) (-1) = .error .XInvalid :=
  (checked_gamma_lr_XInvalid_iff _ _).mpr (by simp [show (RFun.inf : ℝ) = 0 from rfl]; norm_num)

end Statrs.Props.C12
