/-
  C13 — conventions of the streaming statistics (`impl Statistics<f64> for T: IntoIterator`),
  pure branch logic: stated for EVERY carrier `α` (hence also for IEEE `Float`).
  The only facts about the carrier that are used are irreflexivity-style facts about `<`
  on the literals the code compares with (`¬ 0.0 < 0.0`, `¬ 1.0 < 1.0`, …); they are
  explicit hypotheses and are discharged for `Float` and `ℝ` in the examples at the end.
-/
import Statrs.Gen.S_iter_statistics
import Statrs.Inst.Float
namespace Statrs.Props.C13
open Statrs Statrs.Gen

section
variable {α : Type} [Add α] [Sub α] [Mul α] [Div α] [Neg α] [LT α] [LE α] [BEq α]
  [DecidableLT α] [DecidableLE α] [OfScientific α] [Inhabited α] [RFun α]

/-! ### empty input ⇒ NaN -/

/-- `min` of no data is NaN -/
theorem min_nil : IterStatistics.min ([] : List α) = RFun.nan := rfl
/-- `max` of no data is NaN -/
theorem max_nil : IterStatistics.max ([] : List α) = RFun.nan := rfl
/-- `abs_min` of no data is NaN -/
theorem abs_min_nil : IterStatistics.abs_min ([] : List α) = RFun.nan := rfl
/-- `abs_max` of no data is NaN -/
theorem abs_max_nil : IterStatistics.abs_max ([] : List α) = RFun.nan := rfl

/-- `mean` of no data is NaN -/
theorem mean_nil (h0 : ¬ ((0.0 : α) < (0.0 : α))) :
    IterStatistics.mean ([] : List α) = RFun.nan := by
  simp [IterStatistics.mean, IterStatistics.mean.loop1, h0]

/-- `geometric_mean` of no data is NaN -/
theorem geometric_mean_nil (h0 : ¬ ((0.0 : α) < (0.0 : α))) :
    IterStatistics.geometric_mean ([] : List α) = RFun.nan := by
  simp [IterStatistics.geometric_mean, IterStatistics.geometric_mean.loop1, h0]

/-- `harmonic_mean` of no data is NaN -/
theorem harmonic_mean_nil (h0 : ¬ ((0.0 : α) < (0.0 : α))) :
    IterStatistics.harmonic_mean ([] : List α) = RFun.nan := by
  simp [IterStatistics.harmonic_mean, IterStatistics.harmonic_mean.loop1, h0]

/-- `quadratic_mean` of no data is NaN -/
theorem quadratic_mean_nil (h0 : ¬ ((0.0 : α) < (0.0 : α))) :
    IterStatistics.quadratic_mean ([] : List α) = RFun.nan := by
  simp [IterStatistics.quadratic_mean, IterStatistics.quadratic_mean.loop1, h0]

/-- `variance` of no data is NaN -/
theorem variance_nil (h1 : ¬ ((1.0 : α) < (1.0 : α))) :
    IterStatistics.variance ([] : List α) = RFun.nan := by
  simp [IterStatistics.variance, IterStatistics.variance.loop2, listNext, h1]

/-- `std_dev` of no data is `sqrt NaN` (NaN in IEEE arithmetic) -/
theorem std_dev_nil (h1 : ¬ ((1.0 : α) < (1.0 : α))) :
    IterStatistics.std_dev ([] : List α) = RFun.sqrt (RFun.nan : α) := by
  simp [IterStatistics.std_dev, variance_nil h1]

/-- `population_variance` of no data is NaN -/
theorem population_variance_nil :
    IterStatistics.population_variance ([] : List α) = RFun.nan := rfl

/-- `population_std_dev` of no data is `sqrt NaN` -/
theorem population_std_dev_nil :
    IterStatistics.population_std_dev ([] : List α) = RFun.sqrt (RFun.nan : α) := rfl

/-- a NaN FIRST entry ⇒ `population_variance` is NaN, whatever follows (the
    `if sum.is_nan() { return f64::NAN }` guard; on one-entry data the update loop never runs, so
    without the guard the entry would not reach the result) -/
theorem population_variance_head_nan (x : α) (t : List α) (h : RFun.isNaN x = true) :
    IterStatistics.population_variance (x :: t) = RFun.nan := by
  simp [IterStatistics.population_variance, listNext, h]

/-- `population_variance` of a single NaN entry is NaN -/
theorem population_variance_singleton_nan (x : α) (h : RFun.isNaN x = true) :
    IterStatistics.population_variance [x] = RFun.nan :=
  population_variance_head_nan x [] h

/-- a NaN first entry ⇒ `population_std_dev` is `sqrt NaN` (NaN in IEEE arithmetic) -/
theorem population_std_dev_head_nan (x : α) (t : List α) (h : RFun.isNaN x = true) :
    IterStatistics.population_std_dev (x :: t) = RFun.sqrt (RFun.nan : α) := by
  simp [IterStatistics.population_std_dev, population_variance_head_nan x t h]

/-- `covariance` of no data is NaN -/
theorem covariance_nil (h10 : ¬ ((1.0 : α) < (0.0 : α))) :
    IterStatistics.covariance ([] : List α) [] = RFun.nan := by
  simp [IterStatistics.covariance, IterStatistics.covariance.loop1, listNext, h10]

/-- `population_covariance` of no data is NaN -/
theorem population_covariance_nil (h0 : ¬ ((0.0 : α) < (0.0 : α))) :
    IterStatistics.population_covariance ([] : List α) [] = RFun.nan := by
  simp [IterStatistics.population_covariance, IterStatistics.population_covariance.loop1,
    listNext, h0]

/-! ### fewer than two entries ⇒ NaN (sample variance / covariance) -/

/-- `variance` of a single entry is NaN -/
theorem variance_singleton (h1 : ¬ ((1.0 : α) < (1.0 : α))) (x : α) :
    IterStatistics.variance [x] = RFun.nan := by
  simp [IterStatistics.variance, IterStatistics.variance.loop2, listNext, h1]

/-- `variance` of fewer than two entries is NaN -/
theorem variance_lt_two (h1 : ¬ ((1.0 : α) < (1.0 : α))) (xs : List α) (h : xs.length < 2) :
    IterStatistics.variance xs = RFun.nan := by
  match xs, h with
  | [], _ => exact variance_nil h1
  | [x], _ => exact variance_singleton h1 x

/-- `std_dev` of fewer than two entries is `sqrt NaN` -/
theorem std_dev_lt_two (h1 : ¬ ((1.0 : α) < (1.0 : α))) (xs : List α) (h : xs.length < 2) :
    IterStatistics.std_dev xs = RFun.sqrt (RFun.nan : α) := by
  simp [IterStatistics.std_dev, variance_lt_two h1 xs h]

/-- `covariance` of single entries is NaN (the counter is `0.0 + 1.0` at that point) -/
theorem covariance_singleton (h1 : ¬ ((1.0 : α) < (0.0 : α) + (1.0 : α))) (x y : α) :
    IterStatistics.covariance [x] [y] = RFun.nan := by
  simp [IterStatistics.covariance, IterStatistics.covariance.loop1, listNext, h1]

/-- `covariance` of two samples with fewer than two entries each is NaN -/
theorem covariance_lt_two (h10 : ¬ ((1.0 : α) < (0.0 : α)))
    (h1 : ¬ ((1.0 : α) < (0.0 : α) + (1.0 : α))) (xs ys : List α)
    (hlen : xs.length = ys.length) (h : xs.length < 2) :
    IterStatistics.covariance xs ys = RFun.nan := by
  match xs, ys, hlen, h with
  | [], [], _, _ => exact covariance_nil h10
  | [x], [y], _, _ => exact covariance_singleton h1 x y

/-! ### a negative entry ⇒ `harmonic_mean` is NaN (early `return f64::NAN`) -/

theorem harmonic_loop_neg (l : List α) (i s : α) (h : ∃ x ∈ l, x < (0.0 : α)) :
    IterStatistics.harmonic_mean.loop1 l i s = LoopR.ret (RFun.nan : α) := by
  induction l generalizing i s with
  | nil => simp at h
  | cons a t ih =>
    unfold IterStatistics.harmonic_mean.loop1
    by_cases ha : a < (0.0 : α)
    · simp [ha]
    · simp only [ha, if_false]
      apply ih
      obtain ⟨x, hx, hx0⟩ := h
      rcases List.mem_cons.1 hx with rfl | hx
      · exact absurd hx0 ha
      · exact ⟨x, hx, hx0⟩

/-- `harmonic_mean` is NaN as soon as some entry is negative, wherever it sits in the data -/
theorem harmonic_mean_neg (xs : List α) (h : ∃ x ∈ xs, x < (0.0 : α)) :
    IterStatistics.harmonic_mean xs = RFun.nan := by
  simp [IterStatistics.harmonic_mean, harmonic_loop_neg xs _ _ h]

/-! ### no negative entry ⇒ `harmonic_mean` is `n / Σ 1/|x|` in the carrier's own arithmetic
    (the reciprocal is taken of `|x|`, so `-0.0` counts as the zero entry it is: on IEEE `Float`
    `1/|-0.0| = +∞` cannot cancel `1/0.0 = +∞`; see `harmonic_mean_zeros_float` in FloatInst.lean) -/

theorem harmonic_loop_nonneg (l : List α) (i s : α) (h : ∀ x ∈ l, ¬ x < (0.0 : α)) :
    IterStatistics.harmonic_mean.loop1 l i s
      = LoopR.done (l.foldl (fun i _ => i + (1.0 : α)) i,
          l.foldl (fun s x => s + (1.0 : α) / RFun.abs x) s) := by
  induction l generalizing i s with
  | nil => simp [IterStatistics.harmonic_mean.loop1]
  | cons a t ih =>
    unfold IterStatistics.harmonic_mean.loop1
    have ha : ¬ a < (0.0 : α) := h a (by simp)
    simp only [ha, if_false, List.foldl_cons]
    exact ih _ _ (fun x hx => h x (by simp [hx]))

/-- `harmonic_mean` of data without negative entries is (count) / (Σ 1/|x|), both accumulated
    left to right from `0.0` in the carrier's arithmetic — NaN when the count is not positive -/
theorem harmonic_mean_of_nonneg (xs : List α) (h : ∀ x ∈ xs, ¬ x < (0.0 : α)) :
    IterStatistics.harmonic_mean xs
      = (if (0.0 : α) < xs.foldl (fun i _ => i + (1.0 : α)) (0.0 : α)
          then xs.foldl (fun i _ => i + (1.0 : α)) (0.0 : α)
            / xs.foldl (fun s x => s + (1.0 : α) / RFun.abs x) (0.0 : α)
          else RFun.nan) := by
  simp only [IterStatistics.harmonic_mean, harmonic_loop_nonneg xs _ _ h]

/-! ### length mismatch ⇒ panic (`covariance`, `population_covariance`) -/

theorem cov_loop_short (l ys : List α) (n m1 m2 c : α) (h : ys.length < l.length) :
    IterStatistics.covariance.loop1 l ys n m1 m2 c = LoopR.ret panicV := by
  induction l generalizing ys n m1 m2 c with
  | nil => simp at h
  | cons a t ih =>
    unfold IterStatistics.covariance.loop1
    cases ys with
    | nil => simp [listNext]
    | cons b ys' =>
      simp only [listNext]
      apply ih
      simpa using h

theorem cov_loop_long (l ys : List α) (n m1 m2 c : α) (h : l.length ≤ ys.length) :
    ∃ n' m1' m2' c', IterStatistics.covariance.loop1 l ys n m1 m2 c
      = LoopR.done (ys.drop l.length, n', m1', m2', c') := by
  induction l generalizing ys n m1 m2 c with
  | nil => exact ⟨n, m1, m2, c, by simp [IterStatistics.covariance.loop1]⟩
  | cons a t ih =>
    unfold IterStatistics.covariance.loop1
    cases ys with
    | nil => simp at h
    | cons b ys' =>
      simp only [listNext, List.length_cons, List.drop_succ_cons]
      apply ih
      simpa using h

theorem pcov_loop_eq (l ys : List α) (n m1 m2 c : α) :
    IterStatistics.population_covariance.loop1 l ys n m1 m2 c
      = IterStatistics.covariance.loop1 l ys n m1 m2 c := by
  induction l generalizing ys n m1 m2 c with
  | nil => simp [IterStatistics.covariance.loop1, IterStatistics.population_covariance.loop1]
  | cons a t ih =>
    unfold IterStatistics.covariance.loop1 IterStatistics.population_covariance.loop1
    cases ys with
    | nil => simp [listNext]
    | cons b ys' => simp only [listNext]; apply ih

/-- `covariance` on samples of different length panics (`panicV` is the model's panic value) -/
theorem covariance_length_mismatch (xs ys : List α) (h : xs.length ≠ ys.length) :
    IterStatistics.covariance xs ys = panicV := by
  rcases Nat.lt_or_gt_of_ne h with h | h
  · obtain ⟨n', m1', m2', c', e⟩ := cov_loop_long xs ys (0.0 : α) (0.0 : α) (0.0 : α) (0.0 : α)
      (Nat.le_of_lt h)
    have hd : ys.drop xs.length ≠ [] := by
      intro hh; have := congrArg List.length hh; simp at this; omega
    simp only [IterStatistics.covariance, e]
    cases hdr : ys.drop xs.length with
    | nil => exact absurd hdr hd
    | cons b r => simp [listNext]
  · simp [IterStatistics.covariance, cov_loop_short xs ys _ _ _ _ h]

/-- `population_covariance` on samples of different length panics -/
theorem population_covariance_length_mismatch (xs ys : List α) (h : xs.length ≠ ys.length) :
    IterStatistics.population_covariance xs ys = panicV := by
  rcases Nat.lt_or_gt_of_ne h with h | h
  · obtain ⟨n', m1', m2', c', e⟩ := cov_loop_long xs ys (0.0 : α) (0.0 : α) (0.0 : α) (0.0 : α)
      (Nat.le_of_lt h)
    have hd : ys.drop xs.length ≠ [] := by
      intro hh; have := congrArg List.length hh; simp at this; omega
    simp only [IterStatistics.population_covariance, pcov_loop_eq, e]
    cases hdr : ys.drop xs.length with
    | nil => exact absurd hdr hd
    | cons b r => simp [listNext]
  · simp [IterStatistics.population_covariance, pcov_loop_eq, cov_loop_short xs ys _ _ _ _ h]

end

/-! ### non-vacuity: the hypotheses hold for IEEE `Float` (kernel-evaluated), and the
    premises of the data-dependent conventions are satisfiable -/

example : ¬ ((0.0 : Float) < (0.0 : Float)) := by decide
example : ¬ ((1.0 : Float) < (1.0 : Float)) := by decide
example : ¬ ((1.0 : Float) < (0.0 : Float)) := by decide
example : ¬ ((1.0 : Float) < (0.0 : Float) + (1.0 : Float)) := by decide
example : IterStatistics.mean ([] : List Float) = RFun.nan := mean_nil (by decide)
example : IterStatistics.variance [(3.0 : Float)] = RFun.nan := variance_singleton (by decide) _
example : IterStatistics.covariance [(3.0 : Float)] [(4.0 : Float)] = RFun.nan :=
  covariance_singleton (by decide) _ _
example : IterStatistics.population_variance [(RFun.nan : Float)] = RFun.nan :=
  population_variance_singleton_nan _ (by decide)
example : IterStatistics.population_variance [(RFun.nan : Float), 1.0, 2.0] = RFun.nan :=
  population_variance_head_nan _ _ (by decide)
example : IterStatistics.harmonic_mean [(1.0 : Float), -2.0, 3.0] = RFun.nan :=
  harmonic_mean_neg _ ⟨-2.0, by simp, by decide⟩
example : IterStatistics.covariance [(1.0 : Float), 2.0] [(1.0 : Float)] = panicV :=
  covariance_length_mismatch _ _ (by simp)

end Statrs.Props.C13
