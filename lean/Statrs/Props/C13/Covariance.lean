/-
  C13 — the streaming `covariance` / `population_covariance` of
  `impl Statistics<f64> for T: IntoIterator` equal the textbook definitions
  (Statrs/Spec/Stats.lean) for paired samples of EVERY (equal) length, in exact arithmetic
  (carrier ℝ), and do not depend on the order of the pairs.
  (Different lengths: see `covariance_length_mismatch` in Conventions.lean.)
-/
import Statrs.Lemmas.Stats
import Statrs.Props.C13.Conventions
namespace Statrs.Props.C13
open Statrs Statrs.Gen Statrs.Lemmas.Stats

/-- state of the covariance loop after two samples of equal length have been consumed -/
private theorem cov_run (xs ys : List ℝ) (hlen : xs.length = ys.length) (hne : xs ≠ []) :
    ∃ m1' m2' c', IterStatistics.covariance.loop1 xs ys (0 : ℝ) 0 0 0
        = LoopR.done ([], (xs.length : ℝ), m1', m2', c')
      ∧ c' = Spec.Stats.coSum xs ys := by
  obtain ⟨m1', m2', c', e, h1, h2, h3⟩ := covariance_loop xs ys hlen 0 0 0 0
  refine ⟨m1', m2', c', by simpa using e, ?_⟩
  rw [coSum_eq xs ys hlen]
  have hn : (xs.length : ℝ) ≠ 0 := by
    have : 0 < xs.length := List.length_pos_of_ne_nil hne
    positivity
  simp only [Nat.cast_zero, zero_mul, zero_add] at h1 h2 h3
  rw [← h3, ← h1, ← h2]
  field_simp
  ring

/-! ### sample covariance -/

/-- `covariance xs ys = Σ (xᵢ - x̄)(yᵢ - ȳ) / (n - 1)` for samples of equal length `n ≥ 2` -/
theorem covariance_eq (xs ys : List ℝ) (hlen : xs.length = ys.length) (h : 2 ≤ xs.length) :
    IterStatistics.covariance xs ys = Spec.Stats.covariance xs ys := by
  have hne : xs ≠ [] := by intro h0; subst h0; simp at h
  obtain ⟨m1', m2', c', e, hc⟩ := cov_run xs ys hlen hne
  have hlt : (1 : ℝ) < (xs.length : ℝ) := by exact_mod_cast h
  simp only [IterStatistics.covariance, lit_zero, lit_one, e, listNext, Option.isSome_none,
    Bool.false_eq_true, if_false, hlt, if_true]
  rw [hc]; rfl

/-- `population_covariance xs ys = Σ (xᵢ - x̄)(yᵢ - ȳ) / n` for samples of equal length `n ≥ 1` -/
theorem population_covariance_eq (xs ys : List ℝ) (hlen : xs.length = ys.length) (hne : xs ≠ []) :
    IterStatistics.population_covariance xs ys = Spec.Stats.populationCovariance xs ys := by
  obtain ⟨m1', m2', c', e, hc⟩ := cov_run xs ys hlen hne
  have hlt : (0 : ℝ) < (xs.length : ℝ) := by
    have : 0 < xs.length := List.length_pos_of_ne_nil hne
    exact_mod_cast this
  simp only [IterStatistics.population_covariance, pcov_loop_eq, lit_zero, e, listNext,
    Option.isSome_none, Bool.false_eq_true, if_false, hlt, if_true]
  rw [hc]; rfl

/-! ### order-independence: permuting the PAIRS does not change the result -/

private theorem coSum_perm {xs ys xs' ys' : List ℝ} (hlen : xs.length = ys.length)
    (hlen' : xs'.length = ys'.length) (hp : (xs.zip ys).Perm (xs'.zip ys')) :
    xs.Perm xs' ∧ ys.Perm ys' ∧ Spec.Stats.coSum xs ys = Spec.Stats.coSum xs' ys' := by
  have hx : xs.Perm xs' := by
    have := hp.map Prod.fst
    rwa [List.map_fst_zip (le_of_eq hlen), List.map_fst_zip (le_of_eq hlen')] at this
  have hy : ys.Perm ys' := by
    have := hp.map Prod.snd
    rwa [List.map_snd_zip (le_of_eq hlen.symm), List.map_snd_zip (le_of_eq hlen'.symm)] at this
  refine ⟨hx, hy, ?_⟩
  unfold Spec.Stats.coSum Spec.Stats.mean
  rw [hx.sum_eq, hx.length_eq, hy.sum_eq, hy.length_eq, (hp.map _).sum_eq]

private theorem h10 : ¬ ((1.0 : ℝ) < (0.0 : ℝ)) := by norm_num
private theorem h101 : ¬ ((1.0 : ℝ) < (0.0 : ℝ) + (1.0 : ℝ)) := by norm_num
private theorem h00 : ¬ ((0.0 : ℝ) < (0.0 : ℝ)) := by norm_num

/-- `covariance` depends only on the multiset of pairs `(xᵢ, yᵢ)` (any common length) -/
theorem covariance_perm (xs ys xs' ys' : List ℝ) (hlen : xs.length = ys.length)
    (hlen' : xs'.length = ys'.length) (hp : (xs.zip ys).Perm (xs'.zip ys')) :
    IterStatistics.covariance xs ys = IterStatistics.covariance xs' ys' := by
  obtain ⟨hx, hy, hc⟩ := coSum_perm hlen hlen' hp
  by_cases h2 : 2 ≤ xs.length
  · rw [covariance_eq xs ys hlen h2, covariance_eq xs' ys' hlen' (hx.length_eq ▸ h2)]
    unfold Spec.Stats.covariance
    rw [hc, hx.length_eq]
  · rw [covariance_lt_two h10 h101 xs ys hlen (by omega),
      covariance_lt_two h10 h101 xs' ys' hlen' (by rw [← hx.length_eq]; omega)]

/-- `population_covariance` depends only on the multiset of pairs `(xᵢ, yᵢ)` -/
theorem population_covariance_perm (xs ys xs' ys' : List ℝ) (hlen : xs.length = ys.length)
    (hlen' : xs'.length = ys'.length) (hp : (xs.zip ys).Perm (xs'.zip ys')) :
    IterStatistics.population_covariance xs ys = IterStatistics.population_covariance xs' ys' := by
  obtain ⟨hx, hy, hc⟩ := coSum_perm hlen hlen' hp
  by_cases hne : xs = []
  · subst hne
    have hx' : xs' = [] := List.nil_perm.1 hx
    subst hx'
    have hy0 : ys = [] := List.length_eq_zero_iff.1 (by simpa using hlen.symm)
    have hy0' : ys' = [] := List.length_eq_zero_iff.1 (by simpa using hlen'.symm)
    rw [hy0, hy0']
  · have hne' : xs' ≠ [] := fun h0 => hne (by subst h0; exact List.perm_nil.1 hx)
    rw [population_covariance_eq xs ys hlen hne, population_covariance_eq xs' ys' hlen' hne']
    unfold Spec.Stats.populationCovariance
    rw [hc, hx.length_eq]

/-- `covariance` is symmetric in its two arguments (equal lengths) -/
theorem covariance_comm (xs ys : List ℝ) (hlen : xs.length = ys.length) :
    IterStatistics.covariance xs ys = IterStatistics.covariance ys xs := by
  by_cases h2 : 2 ≤ xs.length
  · rw [covariance_eq xs ys hlen h2, covariance_eq ys xs hlen.symm (hlen ▸ h2)]
    unfold Spec.Stats.covariance
    rw [coSum_eq xs ys hlen, coSum_eq ys xs hlen.symm, hlen]
    have hz : ∀ (l r : List ℝ), ((l.zip r).map (fun p => p.1 * p.2)).sum
        = ((r.zip l).map (fun p => p.1 * p.2)).sum := by
      intro l
      induction l with
      | nil => intro r; simp
      | cons a t ih =>
        intro r
        cases r with
        | nil => simp
        | cons b r => simp only [List.zip_cons_cons, List.map_cons, List.sum_cons, ih r]; ring
    rw [hz xs ys, mul_comm xs.sum ys.sum]
  · rw [covariance_lt_two h10 h101 xs ys hlen (by omega),
      covariance_lt_two h10 h101 ys xs hlen.symm (by omega)]

/-- `covariance xs xs = variance`-style sanity: the covariance of a sample with itself is its
    textbook variance -/
theorem covariance_self (xs : List ℝ) (h : 2 ≤ xs.length) :
    IterStatistics.covariance xs xs = Spec.Stats.variance xs := by
  rw [covariance_eq xs xs rfl h]
  unfold Spec.Stats.covariance Spec.Stats.variance Spec.Stats.coSum Spec.Stats.ssd
  congr 1
  have : ∀ (l : List ℝ) (m : ℝ), ((l.zip l).map (fun p => (p.1 - m) * (p.2 - m))).sum
      = (l.map (fun x => (x - m) ^ 2)).sum := by
    intro l m
    induction l with
    | nil => simp
    | cons a t ih => simp only [List.zip_cons_cons, List.map_cons, List.sum_cons, ih]; ring
  exact this xs _

/-! ### non-vacuity -/
example : ∃ xs ys : List ℝ, xs.length = ys.length ∧ 2 ≤ xs.length := ⟨[1, 2], [3, 5], by simp⟩
example : IterStatistics.covariance [(1 : ℝ), 2, 6] [(2 : ℝ), 4, 12] = 14 := by
  rw [covariance_eq _ _ (by simp) (by simp)]
  norm_num [Spec.Stats.covariance, Spec.Stats.coSum, Spec.Stats.mean]

end Statrs.Props.C13
