/-
  C13 — the carrier hypotheses used by the ∀α statements of MinMax.lean and NaNPropagation.lean
  are TRUE of the executable carrier, IEEE `Float` (Lean's kernel-visible `Float.Model`):
  `LtLaws Float`, `NaNUnordered Float`, `NaNArith Float`, `SqrtNaN Float`, `AbsNaN Float`; and the
  resulting `Float` instances of the min/max exactness and NaN-propagation theorems
  (`population_variance`/`population_std_dev` for data of every length, one entry included), and
  kernel-evaluated `Float` witnesses that `harmonic_mean` treats `-0.0` as a zero entry.
  (`exp`/`ln` are opaque libm calls in Lean's `Float`, so `geometric_mean` stays relative to
  `NaNFun Float`.)
-/
import Statrs.Props.C13.MinMax
import Statrs.Props.C13.NaNPropagation
import Statrs.Inst.Float
namespace Statrs.Props.C13
open Statrs Statrs.Gen
open Float.Model

/-! ### order laws from `UnpackedFloat.compare` -/

private def ULt (x y : UnpackedFloat) : Prop := x.compare y = some .lt

private theorem then_lt (a b : Ordering) : a.then b = .lt ↔ a = .lt ∨ (a = .eq ∧ b = .lt) := by
  cases a <;> cases b <;> simp [Ordering.then]
private theorem then_gt (a b : Ordering) : a.then b = .gt ↔ a = .gt ∨ (a = .eq ∧ b = .gt) := by
  cases a <;> cases b <;> simp [Ordering.then]

private theorem ULt_asymm (x y : UnpackedFloat) : ULt x y → ¬ ULt y x := by
  unfold ULt
  rcases x with s | _ | s | ⟨s, m, e, h⟩ <;> rcases y with s' | _ | s' | ⟨s', m', e', h'⟩ <;>
    (try cases s) <;> (try cases s') <;>
    simp [UnpackedFloat.compare, then_lt, then_gt, compare_lt_iff_lt, compare_gt_iff_gt] <;>
    omega

private theorem ULt_negTrans (x y z : UnpackedFloat) (hx : x.isNaN = false) (hy : y.isNaN = false)
    (hz : z.isNaN = false) : ¬ ULt x y → ¬ ULt y z → ¬ ULt x z := by
  unfold ULt
  rcases x with s | _ | s | ⟨s, m, e, h⟩ <;> rcases y with s' | _ | s' | ⟨s', m', e', h'⟩ <;>
    rcases z with s'' | _ | s'' | ⟨s'', m'', e'', h''⟩ <;>
    (try cases s) <;> (try cases s') <;> (try cases s'') <;>
    simp [UnpackedFloat.isNaN] at hx hy hz <;>
    simp [UnpackedFloat.compare, then_lt, then_gt, compare_lt_iff_lt, compare_gt_iff_gt] <;>
    first | omega | decide

private theorem compare_nan_left (b : UnpackedFloat) :
    UnpackedFloat.compare .notANumber b = none := by
  cases b <;> rfl
private theorem compare_nan_right (a : UnpackedFloat) :
    UnpackedFloat.compare a .notANumber = none := by
  cases a with
  | infinity s => cases s <;> rfl
  | notANumber => rfl
  | zero s => rfl
  | finite s m e h => cases s <;> rfl

private theorem float_lt_def (a b : Float) : a < b ↔ ULt a.toModel.unpack b.toModel.unpack := by
  show a.lt b = true ↔ _
  simp only [Float.lt]
  rw [decide_eq_true_iff]
  show a.toModel.lt b.toModel = true ↔ _
  simp only [Float.Model.lt, UnpackedFloat.lt, beq_iff_eq, ULt]

private theorem unpack_nan (a : Float) (h : a.isNaN = true) : a.toModel.unpack = .notANumber := by
  have : a.toModel.unpack.isNaN = true := h
  cases hu : a.toModel.unpack <;> simp_all [UnpackedFloat.isNaN]

/-- IEEE `<` is asymmetric, and negatively transitive on non-NaN values -/
theorem ltLaws_float : LtLaws Float where
  asymm := fun a b h => by
    rw [float_lt_def] at h ⊢; exact ULt_asymm _ _ h
  negTrans := fun a b c ha hb hc h1 h2 => by
    rw [float_lt_def] at h1 h2 ⊢
    exact ULt_negTrans _ _ _ ha hb hc h1 h2

/-- IEEE: every `<` comparison with a NaN operand is false -/
theorem nanUnordered_float : NaNUnordered Float where
  not_lt_nan := fun a x h => by
    have h' : a.isNaN = true := h
    rw [float_lt_def, ULt, unpack_nan a h', compare_nan_right]; simp
  not_nan_lt := fun a x h => by
    have h' : a.isNaN = true := h
    rw [float_lt_def, ULt, unpack_nan a h', compare_nan_left]; simp

/-! ### NaN is absorbing for IEEE `+ - * /`, `sqrt`, `abs` -/

private theorem pack_nan : (Float.Model.pack .notANumber).isNaN = true := by decide

private theorem uadd_l (x : UnpackedFloat) : UnpackedFloat.add .binary64 .notANumber x = .notANumber := by
  cases x <;> rfl
private theorem uadd_r (x : UnpackedFloat) : UnpackedFloat.add .binary64 x .notANumber = .notANumber := by
  cases x <;> rfl
private theorem usub_l (x : UnpackedFloat) : UnpackedFloat.sub .binary64 .notANumber x = .notANumber := by
  cases x <;> rfl
private theorem usub_r (x : UnpackedFloat) : UnpackedFloat.sub .binary64 x .notANumber = .notANumber := by
  cases x <;> rfl
private theorem umul_l (x : UnpackedFloat) : UnpackedFloat.mul .binary64 .notANumber x = .notANumber := by
  cases x <;> rfl
private theorem umul_r (x : UnpackedFloat) : UnpackedFloat.mul .binary64 x .notANumber = .notANumber := by
  cases x <;> rfl
private theorem udiv_l (x : UnpackedFloat) : UnpackedFloat.div .binary64 .notANumber x = .notANumber := by
  cases x <;> rfl
private theorem udiv_r (x : UnpackedFloat) : UnpackedFloat.div .binary64 x .notANumber = .notANumber := by
  cases x <;> rfl

/-- IEEE `Float`: NaN is absorbing for `+ - * /`, and the model's `nan` (`0.0/0.0`) is a NaN -/
theorem nanArith_float : NaNArith Float where
  add_l := fun a b h => by
    show (Float.Model.add a.toModel b.toModel).isNaN = true
    simp only [Float.Model.add, unpack_nan a h, uadd_l, pack_nan]
  add_r := fun a b h => by
    show (Float.Model.add a.toModel b.toModel).isNaN = true
    simp only [Float.Model.add, unpack_nan b h, uadd_r, pack_nan]
  sub_l := fun a b h => by
    show (Float.Model.sub a.toModel b.toModel).isNaN = true
    simp only [Float.Model.sub, unpack_nan a h, usub_l, pack_nan]
  sub_r := fun a b h => by
    show (Float.Model.sub a.toModel b.toModel).isNaN = true
    simp only [Float.Model.sub, unpack_nan b h, usub_r, pack_nan]
  mul_l := fun a b h => by
    show (Float.Model.mul a.toModel b.toModel).isNaN = true
    simp only [Float.Model.mul, unpack_nan a h, umul_l, pack_nan]
  mul_r := fun a b h => by
    show (Float.Model.mul a.toModel b.toModel).isNaN = true
    simp only [Float.Model.mul, unpack_nan b h, umul_r, pack_nan]
  div_l := fun a b h => by
    show (Float.Model.div a.toModel b.toModel).isNaN = true
    simp only [Float.Model.div, unpack_nan a h, udiv_l, pack_nan]
  div_r := fun a b h => by
    show (Float.Model.div a.toModel b.toModel).isNaN = true
    simp only [Float.Model.div, unpack_nan b h, udiv_r, pack_nan]
  nan := by decide

/-- IEEE `Float`: `sqrt NaN` is NaN -/
theorem sqrtNaN_float : SqrtNaN Float := fun a h => by
  show (Float.Model.sqrt a.toModel).isNaN = true
  have : UnpackedFloat.sqrt .binary64 .notANumber = .notANumber := rfl
  simp only [Float.Model.sqrt, unpack_nan a h, this, pack_nan]

/-- IEEE `Float`: `|NaN|` is NaN -/
theorem abs_nan_float (a : Float) (h : a.isNaN = true) : (Float.abs a).isNaN = true := by
  show (Float.Model.abs a.toModel).isNaN = true
  have : UnpackedFloat.abs .notANumber = .notANumber := rfl
  simp only [Float.Model.abs, unpack_nan a h, this, pack_nan]

/-- IEEE `Float`: `abs` maps NaN to NaN -/
theorem absNaN_float : AbsNaN Float := abs_nan_float

private theorem f11 : ¬ ((1.0 : Float) < (1.0 : Float)) := by decide

/-! ### the C13 ∀α theorems at `Float` -/

/-- IEEE `Float`: `min` of nonempty NaN-free data is an entry no entry is smaller than -/
theorem min_exact_float (xs : List Float) (hne : xs ≠ []) (hnan : ∀ x ∈ xs, x.isNaN = false) :
    IterStatistics.min xs ∈ xs ∧ ∀ x ∈ xs, ¬ x < IterStatistics.min xs :=
  min_exact ltLaws_float xs hne hnan

/-- IEEE `Float`: `max` of nonempty NaN-free data is an entry no entry is larger than -/
theorem max_exact_float (xs : List Float) (hne : xs ≠ []) (hnan : ∀ x ∈ xs, x.isNaN = false) :
    IterStatistics.max xs ∈ xs ∧ ∀ x ∈ xs, ¬ IterStatistics.max xs < x :=
  max_exact ltLaws_float xs hne hnan

/-- IEEE `Float`: any NaN entry ⇒ `min` is NaN -/
theorem min_nan_float (xs : List Float) (h : ∃ x ∈ xs, x.isNaN = true) :
    (IterStatistics.min xs).isNaN = true := min_nan nanUnordered_float xs h

/-- IEEE `Float`: any NaN entry ⇒ `max` is NaN -/
theorem max_nan_float (xs : List Float) (h : ∃ x ∈ xs, x.isNaN = true) :
    (IterStatistics.max xs).isNaN = true := max_nan nanUnordered_float xs h

/-- IEEE `Float`: any NaN entry ⇒ `abs_min` is NaN -/
theorem abs_min_nan_float (xs : List Float) (h : ∃ x ∈ xs, x.isNaN = true) :
    (IterStatistics.abs_min xs).isNaN = true :=
  abs_min_nan nanUnordered_float xs (by obtain ⟨x, hx, hn⟩ := h; exact ⟨x, hx, abs_nan_float x hn⟩)

/-- IEEE `Float`: any NaN entry ⇒ `abs_max` is NaN -/
theorem abs_max_nan_float (xs : List Float) (h : ∃ x ∈ xs, x.isNaN = true) :
    (IterStatistics.abs_max xs).isNaN = true :=
  abs_max_nan nanUnordered_float xs (by obtain ⟨x, hx, hn⟩ := h; exact ⟨x, hx, abs_nan_float x hn⟩)

/-- IEEE `Float`: any NaN entry ⇒ `mean` is NaN -/
theorem mean_nan_float (xs : List Float) (h : ∃ x ∈ xs, x.isNaN = true) :
    (IterStatistics.mean xs).isNaN = true := mean_nan nanArith_float xs h

/-- IEEE `Float`: any NaN entry ⇒ `quadratic_mean` is NaN -/
theorem quadratic_mean_nan_float (xs : List Float) (h : ∃ x ∈ xs, x.isNaN = true) :
    (IterStatistics.quadratic_mean xs).isNaN = true :=
  quadratic_mean_nan nanArith_float sqrtNaN_float xs h

/-- IEEE `Float`: any NaN entry ⇒ `harmonic_mean` is NaN -/
theorem harmonic_mean_nan_float (xs : List Float) (h : ∃ x ∈ xs, x.isNaN = true) :
    (IterStatistics.harmonic_mean xs).isNaN = true :=
  harmonic_mean_nan nanArith_float absNaN_float xs h

/-- IEEE `Float`: any NaN entry ⇒ `variance` is NaN -/
theorem variance_nan_float (xs : List Float) (h : ∃ x ∈ xs, x.isNaN = true) :
    (IterStatistics.variance xs).isNaN = true := variance_nan nanArith_float f11 xs h

/-- IEEE `Float`: any NaN entry ⇒ `std_dev` is NaN -/
theorem std_dev_nan_float (xs : List Float) (h : ∃ x ∈ xs, x.isNaN = true) :
    (IterStatistics.std_dev xs).isNaN = true :=
  std_dev_nan nanArith_float sqrtNaN_float f11 xs h

/-- IEEE `Float`: any NaN entry ⇒ `population_variance` is NaN (data of every length; a single
    NaN entry included) -/
theorem population_variance_nan_float (xs : List Float) (h : ∃ x ∈ xs, x.isNaN = true) :
    (IterStatistics.population_variance xs).isNaN = true :=
  population_variance_nan nanArith_float xs h

/-- IEEE `Float`: any NaN entry ⇒ `population_std_dev` is NaN (data of every length) -/
theorem population_std_dev_nan_float (xs : List Float) (h : ∃ x ∈ xs, x.isNaN = true) :
    (IterStatistics.population_std_dev xs).isNaN = true :=
  population_std_dev_nan nanArith_float sqrtNaN_float xs h

/-- IEEE `Float`: `population_variance [x]` is NaN exactly when `x` is NaN -/
theorem population_variance_singleton_isNaN_iff_float (x : Float) :
    (IterStatistics.population_variance [x]).isNaN = true ↔ x.isNaN = true :=
  population_variance_singleton_isNaN_iff nanArith_float (by decide) x

/-- IEEE `Float`: any NaN entry in either sample ⇒ `covariance` is NaN -/
theorem covariance_nan_float (xs ys : List Float) (hlen : xs.length = ys.length)
    (h : (∃ x ∈ xs, x.isNaN = true) ∨ ∃ y ∈ ys, y.isNaN = true) :
    (IterStatistics.covariance xs ys).isNaN = true := covariance_nan nanArith_float xs ys hlen h

/-- IEEE `Float`: any NaN entry in either sample ⇒ `population_covariance` is NaN -/
theorem population_covariance_nan_float (xs ys : List Float) (hlen : xs.length = ys.length)
    (h : (∃ x ∈ xs, x.isNaN = true) ∨ ∃ y ∈ ys, y.isNaN = true) :
    (IterStatistics.population_covariance xs ys).isNaN = true :=
  population_covariance_nan nanArith_float xs ys hlen h

/-- IEEE `Float`, relative to libm's `exp`/`log` mapping NaN to NaN: any NaN entry ⇒
    `geometric_mean` is NaN -/
theorem geometric_mean_nan_float_rel (F : NaNFun Float) (xs : List Float)
    (h : ∃ x ∈ xs, x.isNaN = true) :
    (IterStatistics.geometric_mean xs).isNaN = true :=
  geometric_mean_nan nanArith_float F xs h

/-! ### `harmonic_mean` treats `-0.0` as a zero entry (IEEE `Float`, kernel-evaluated) -/

/-- IEEE `Float`: the harmonic mean of data with a zero entry and no negative entry is `0`, also
    when zeros of both signs occur: the code adds `1.0 / |x|`, so `-0.0` contributes `+∞` like
    `0.0` does and the result is `n / +∞ = 0` (with `1.0 / x` the two infinities cancelled to
    NaN).  Concrete data vectors, evaluated by the kernel on `Float.Model`; the results are `+0.0`
    bit for bit. -/
theorem harmonic_mean_zeros_float :
    IterStatistics.harmonic_mean [(0.0 : Float), -0.0] = (0.0 : Float) ∧
    IterStatistics.harmonic_mean [(-0.0 : Float), 0.0] = (0.0 : Float) ∧
    IterStatistics.harmonic_mean [(-0.0 : Float)] = (0.0 : Float) ∧
    IterStatistics.harmonic_mean [(-0.0 : Float), -0.0] = (0.0 : Float) ∧
    IterStatistics.harmonic_mean [(1.0 : Float), 0.0, 4.0, -0.0] = (0.0 : Float) ∧
    (IterStatistics.harmonic_mean [(0.0 : Float), -0.0]).isNaN = false := by
  refine ⟨by decide, by decide, by decide, by decide, by decide, by decide⟩

/-- IEEE `Float`: on data without negative entries `harmonic_mean` is `n / Σ 1/|x|` in `Float`
    arithmetic (`harmonic_mean_of_nonneg` at `Float`) -/
theorem harmonic_mean_of_nonneg_float (xs : List Float) (h : ∀ x ∈ xs, ¬ x < (0.0 : Float)) :
    IterStatistics.harmonic_mean xs
      = (if (0.0 : Float) < xs.foldl (fun i _ => i + (1.0 : Float)) (0.0 : Float)
          then xs.foldl (fun i _ => i + (1.0 : Float)) (0.0 : Float)
            / xs.foldl (fun s x => s + (1.0 : Float) / Float.abs x) (0.0 : Float)
          else RFun.nan) :=
  harmonic_mean_of_nonneg xs h

/-! ### non-vacuity -/
example : ∃ xs : List Float, xs ≠ [] ∧ ∀ x ∈ xs, x.isNaN = false :=
  ⟨[1.0, 2.0], by simp, by decide⟩
example : ∃ xs : List Float, ∃ x ∈ xs, x.isNaN = true :=
  ⟨[1.0, RFun.nan], RFun.nan, by simp, by decide⟩
example : (IterStatistics.population_variance [(RFun.nan : Float)]).isNaN = true :=
  population_variance_nan_float _ ⟨RFun.nan, by simp, by decide⟩
example : ¬ ((-0.0 : Float) < (0.0 : Float)) := by decide
/-- `NaNFun` is satisfiable: `Float` with `exp`/`ln` replaced by the identity -/
@[instance_reducible] private def toyRFun : RFun Float := { (inferInstance : RFun Float) with exp := id, ln := id }
example : @NaNFun Float toyRFun := @NaNFun.mk Float toyRFun (fun _ h => h) (fun _ h => h)

end Statrs.Props.C13
