/-
  C13 — "the mean equals the exactly computed definition to within a small multiple of machine epsilon":
  rounding-error bound for the streaming update `m ← m ⊕ (x ⊖ m) ⊘ i` of `IterStatistics::mean`
  (src/statistics/iter_statistics.rs), for every carrier satisfying the standard model of floating-point
  arithmetic (`StdModel α`), hence for IEEE `Float`.

  With `n = data.len() ≥ 1`, `xᵢ = toReal data[i]`, `|xᵢ| ≤ X ≤ 2^1000`, `n·u ≤ 1/8` (`n ≤ 2^50`):
    * `iter_mean_bound`        : the result is finite and
          |toReal (mean data) − (Σ xᵢ)/n| ≤ (n + 13)·u·X + (n + 1)·(1+u)·η
    * `iter_mean_bound_float`  : the same over `Float`.
  The float counter `i` is exact (`i = k` after `k` steps, `k ≤ 2^53`): `mean_counter_exact`.
  `u = 2^-53`, `η = 2^-1075` (the `η` term is the underflow of the divisions).
-/
import Statrs.Gen.S_iter_statistics
import Statrs.Lemmas.FloatStdModelLemmas
import Statrs.Lemmas.FloatStdModelInst
namespace Statrs.Props.C13
open Statrs Statrs.Gen Statrs.Spec Statrs.Spec.FloatStd

/-- full(ℝ): Bernoulli-type bound `(1+t)^n (1 − n t) ≤ 1` for `t ≥ 0` -/
theorem one_add_pow_mul_le {t : ℝ} (ht : 0 ≤ t) (n : ℕ) : (1 + t) ^ n * (1 - n * t) ≤ 1 := by
  induction n with
  | zero => simp
  | succ k ih =>
    have hp : (0 : ℝ) ≤ (1 + t) ^ k := by positivity
    have e : (1 + t) ^ (k + 1) * (1 - ((k + 1 : ℕ) : ℝ) * t)
        = (1 + t) ^ k * (1 - k * t) - (1 + t) ^ k * ((k + 1) * t ^ 2) := by
      push_cast; ring
    rw [e]
    have : 0 ≤ (1 + t) ^ k * (((k : ℝ) + 1) * t ^ 2) := by positivity
    linarith

/-- full(ℝ): `(1+4u)^n ≤ 2` when `n u ≤ 1/8` -/
theorem b_pow_le_two {n : ℕ} (hn : (n : ℝ) * u ≤ 1 / 8) : (1 + 4 * u) ^ n ≤ 2 := by
  have hu := u_pos
  have h := one_add_pow_mul_le (t := 4 * u) (by positivity) n
  have h1 : (1 : ℝ) / 2 ≤ 1 - n * (4 * u) := by linarith
  have hp : (0 : ℝ) ≤ (1 + 4 * u) ^ n := by positivity
  nlinarith

/-- full(ℝ): one step of the streaming mean, scaled by the new count `κ₀+1`: the new error in terms of the old
    error `E = |m − μ|` -/
theorem mean_step_scaled {κ0 X S x μ m δ1 δ2 δ3 ε : ℝ} (hκ0 : 0 ≤ κ0) (hX : 0 ≤ X)
    (hμS : κ0 * μ = S) (hμ : |μ| ≤ X) (hx : |x| ≤ X)
    (hδ1 : |δ1| ≤ u) (hδ2 : |δ2| ≤ u) (hδ3 : |δ3| ≤ u) (hε : |ε| ≤ η) :
    |(m + ((x - m) * (1 + δ1) / (κ0 + 1) * (1 + δ2) + ε)) * (1 + δ3) - (S + x) / (κ0 + 1)| * (κ0 + 1)
      ≤ |m - μ| * (κ0 * (1 + u) + 3 * u) + (κ0 + 7) * (u * X) + (κ0 + 1) * ((1 + u) * η) := by
  have hu := u_pos
  have hu1 := u_lt
  have hη := η_pos
  have hκpos : 0 < κ0 + 1 := by linarith
  generalize hE : |m - μ| = E
  have hE0 : 0 ≤ E := by rw [← hE]; exact abs_nonneg _
  -- θ = (1+δ1)(1+δ2) − 1
  have hθb : |(1 + δ1) * (1 + δ2) - 1| ≤ 2 * u + u ^ 2 := by
    have e1 : (1 + δ1) * (1 + δ2) - 1 = δ1 + δ2 + δ1 * δ2 := by ring
    rw [e1]
    have h1 : |δ1 * δ2| ≤ u * u := abs_mul_le_mul hδ1 hδ2
    calc |δ1 + δ2 + δ1 * δ2| ≤ |δ1 + δ2| + |δ1 * δ2| := abs_add_le _ _
      _ ≤ |δ1| + |δ2| + |δ1 * δ2| := by linarith [abs_add_le δ1 δ2]
      _ ≤ 2 * u + u ^ 2 := by nlinarith
  generalize hθ : (1 + δ1) * (1 + δ2) - 1 = θ at hθb
  have h3 := abs_one_add_le hδ3
  -- the scaled error identity
  have hid : ((m + ((x - m) * (1 + δ1) / (κ0 + 1) * (1 + δ2) + ε)) * (1 + δ3) - (S + x) / (κ0 + 1)) * (κ0 + 1)
      = κ0 * (m - μ) * (1 + δ3) + (κ0 * μ + x) * δ3 + ((x - m) * θ + (κ0 + 1) * ε) * (1 + δ3) := by
    rw [← hθ, ← hμS]; field_simp; ring
  have hxm : |x - m| ≤ 2 * X + E := by
    have : x - m = x - μ - (m - μ) := by ring
    rw [this]
    calc |x - μ - (m - μ)| ≤ |x - μ| + |m - μ| := abs_sub _ _
      _ ≤ |x| + |μ| + |m - μ| := by linarith [abs_sub x μ]
      _ ≤ 2 * X + E := by rw [hE]; linarith
  have hθ3 : (2 * u + u ^ 2) * (1 + u) ≤ 3 * u := by nlinarith
  have hT1 : |κ0 * (m - μ) * (1 + δ3)| ≤ κ0 * E * (1 + u) := by
    refine abs_mul_le_mul ?_ h3
    rw [abs_mul, abs_of_nonneg hκ0, hE]
  have hT2 : |(κ0 * μ + x) * δ3| ≤ (κ0 * X + X) * u := by
    refine abs_mul_le_mul ?_ hδ3
    calc |κ0 * μ + x| ≤ |κ0 * μ| + |x| := abs_add_le _ _
      _ ≤ κ0 * X + X := by
          rw [abs_mul, abs_of_nonneg hκ0]
          exact add_le_add (mul_le_mul_of_nonneg_left hμ hκ0) hx
  have hT3 : |((x - m) * θ + (κ0 + 1) * ε) * (1 + δ3)| ≤ ((2 * X + E) * (2 * u + u ^ 2) + (κ0 + 1) * η) * (1 + u) := by
    refine abs_mul_le_mul ?_ h3
    calc |(x - m) * θ + (κ0 + 1) * ε| ≤ |(x - m) * θ| + |(κ0 + 1) * ε| := abs_add_le _ _
      _ ≤ (2 * X + E) * (2 * u + u ^ 2) + (κ0 + 1) * η := by
          apply add_le_add (abs_mul_le_mul hxm hθb)
          rw [abs_mul, abs_of_pos hκpos]
          exact mul_le_mul_of_nonneg_left hε hκpos.le
  rw [← abs_of_pos hκpos, ← abs_mul, abs_of_pos hκpos, hid]
  have t := abs_add_le (κ0 * (m - μ) * (1 + δ3) + (κ0 * μ + x) * δ3) (((x - m) * θ + (κ0 + 1) * ε) * (1 + δ3))
  have t' := abs_add_le (κ0 * (m - μ) * (1 + δ3)) ((κ0 * μ + x) * δ3)
  have hXE : 0 ≤ 2 * X + E := by positivity
  have h4 : (2 * X + E) * (2 * u + u ^ 2) * (1 + u) ≤ (2 * X + E) * (3 * u) := by
    rw [mul_assoc]; exact mul_le_mul_of_nonneg_left hθ3 hXE
  have e1 : ((2 * X + E) * (2 * u + u ^ 2) + (κ0 + 1) * η) * (1 + u)
      = (2 * X + E) * (2 * u + u ^ 2) * (1 + u) + (κ0 + 1) * ((1 + u) * η) := by ring
  have e2 : (2 * X + E) * (3 * u) = 6 * (u * X) + E * (3 * u) := by ring
  have e3 : (κ0 * X + X) * u = (κ0 + 1) * (u * X) := by ring
  have e4 : E * (κ0 * (1 + u) + 3 * u) = κ0 * E * (1 + u) + E * (3 * u) := by ring
  have e5 : (κ0 + 7) * (u * X) = (κ0 + 1) * (u * X) + 6 * (u * X) := by ring
  rw [e1] at hT3; rw [e3] at hT2
  rw [e4, e5]
  linarith

/-- full(ℝ): the invariant bound is preserved: algebra of the step (`P = u·X`, `Q = (1+u)·η`) -/
theorem mean_step_alg {κ0 E P Q β : ℝ} (hκ : κ0 = 0 ∨ 1 ≤ κ0) (hE0 : 0 ≤ E) (hP0 : 0 ≤ P) (hQ0 : 0 ≤ Q)
    (hβ : 1 ≤ β) (he : E ≤ β * ((6 + (κ0 + 1) / 2) * P + (κ0 + 1) / 2 * Q)) :
    E * (κ0 * (1 + u) + 3 * u) + (κ0 + 7) * P + (κ0 + 1) * Q
      ≤ β * (1 + 4 * u) * ((6 + (κ0 + 2) / 2) * P + (κ0 + 2) / 2 * Q) * (κ0 + 1) := by
  have hu := u_pos
  have hb : 1 ≤ β * (1 + 4 * u) := by nlinarith
  rcases hκ with h0 | h1
  · subst h0
    have he' : E ≤ β * (7 * P + Q) := by
      have : β * ((6 + (0 + 1) / 2) * P + (0 + 1) / 2 * Q) ≤ β * (7 * P + Q) := by
        apply mul_le_mul_of_nonneg_left _ (by linarith); linarith
      linarith
    have h7 : 0 ≤ 7 * P + Q := by positivity
    have hEu : E * (3 * u) ≤ β * (7 * P + Q) * (3 * u) := mul_le_mul_of_nonneg_right he' (by positivity)
    have hβ7 : 7 * P + Q ≤ β * (7 * P + Q) := by nlinarith
    have hu7 : 0 ≤ β * (7 * P + Q) * u := by positivity
    have e1 : β * (1 + 4 * u) * ((6 + (0 + 2) / 2) * P + (0 + 2) / 2 * Q) * (0 + 1)
        = β * (7 * P + Q) + β * (7 * P + Q) * (4 * u) := by ring
    have e2 : E * (0 * (1 + u) + 3 * u) + (0 + 7) * P + (0 + 1) * Q = E * (3 * u) + (7 * P + Q) := by ring
    rw [e1, e2]; linarith
  · have hκ0 : 0 ≤ κ0 := by linarith
    have hk : κ0 * (1 + u) + 3 * u ≤ κ0 * (1 + 4 * u) := by nlinarith
    have hEk : E * (κ0 * (1 + u) + 3 * u) ≤ β * (1 + 4 * u) * ((6 * κ0 + κ0 * (κ0 + 1) / 2) * P + κ0 * (κ0 + 1) / 2 * Q) := by
      calc E * (κ0 * (1 + u) + 3 * u) ≤ E * (κ0 * (1 + 4 * u)) := mul_le_mul_of_nonneg_left hk hE0
        _ ≤ (β * ((6 + (κ0 + 1) / 2) * P + (κ0 + 1) / 2 * Q)) * (κ0 * (1 + 4 * u)) :=
            mul_le_mul_of_nonneg_right he (by positivity)
        _ = _ := by ring
    have hrest : (κ0 + 7) * P + (κ0 + 1) * Q ≤ β * (1 + 4 * u) * ((κ0 + 7) * P + (κ0 + 1) * Q) := by
      have : 0 ≤ (κ0 + 7) * P + (κ0 + 1) * Q := by positivity
      nlinarith
    have hfin : β * (1 + 4 * u) * ((6 + (κ0 + 2) / 2) * P + (κ0 + 2) / 2 * Q) * (κ0 + 1)
        = β * (1 + 4 * u) * ((6 * κ0 + κ0 * (κ0 + 1) / 2) * P + κ0 * (κ0 + 1) / 2 * Q)
          + β * (1 + 4 * u) * ((κ0 + 7) * P + (κ0 + 1) * Q) := by ring
    rw [hfin]; linarith

/-- full(ℝ): one step of the streaming mean: error propagation.  `κ₀` is the number of points already
    absorbed (`0` or `≥ 1`), `μ` their exact mean, `m` the computed mean with `|m − μ| ≤ β·[…]`, and the new
    computed mean is `(m + ((x − m)(1+δ₁)/(κ₀+1)·(1+δ₂) + ε))(1+δ₃)`. -/
theorem mean_step_real {κ0 X S x μ m β δ1 δ2 δ3 ε : ℝ} (hκ : κ0 = 0 ∨ 1 ≤ κ0) (hX : 0 ≤ X)
    (hμS : κ0 * μ = S) (hμ : |μ| ≤ X) (hx : |x| ≤ X) (hβ : 1 ≤ β)
    (hδ1 : |δ1| ≤ u) (hδ2 : |δ2| ≤ u) (hδ3 : |δ3| ≤ u) (hε : |ε| ≤ η)
    (he : |m - μ| ≤ β * ((6 + (κ0 + 1) / 2) * (u * X) + (κ0 + 1) / 2 * ((1 + u) * η))) :
    |(m + ((x - m) * (1 + δ1) / (κ0 + 1) * (1 + δ2) + ε)) * (1 + δ3) - (S + x) / (κ0 + 1)|
      ≤ β * (1 + 4 * u) * ((6 + (κ0 + 2) / 2) * (u * X) + (κ0 + 2) / 2 * ((1 + u) * η)) := by
  have hu := u_pos
  have hη := η_pos
  have hκ0 : 0 ≤ κ0 := by rcases hκ with h | h <;> linarith
  have hκpos : 0 < κ0 + 1 := by linarith
  rw [← mul_le_mul_iff_of_pos_right hκpos]
  exact (mean_step_scaled hκ0 hX hμS hμ hx hδ1 hδ2 hδ3 hε).trans
    (mean_step_alg hκ (abs_nonneg _) (by positivity) (by positivity) hβ he)

/-- the running error bound after `k` points of magnitude at most `X` -/
noncomputable def meanErr (X : ℝ) (k : ℕ) : ℝ :=
  (1 + 4 * u) ^ k * ((6 + ((k : ℝ) + 1) / 2) * (u * X) + ((k : ℝ) + 1) / 2 * ((1 + u) * η))

/-- full(ℝ): closed form of the running bound when `k·u ≤ 1/8` -/
theorem meanErr_le {X : ℝ} (hX : 0 ≤ X) {k : ℕ} (hk : (k : ℝ) * u ≤ 1 / 8) :
    meanErr X k ≤ ((k : ℝ) + 13) * u * X + ((k : ℝ) + 1) * ((1 + u) * η) := by
  unfold meanErr
  have hu := u_pos
  have hη := η_pos
  have hb := b_pow_le_two hk
  have h0 : 0 ≤ (6 + ((k : ℝ) + 1) / 2) * (u * X) + ((k : ℝ) + 1) / 2 * ((1 + u) * η) := by positivity
  calc _ ≤ 2 * ((6 + ((k : ℝ) + 1) / 2) * (u * X) + ((k : ℝ) + 1) / 2 * ((1 + u) * η)) :=
        mul_le_mul_of_nonneg_right hb h0
    _ = _ := by ring

/-- full(ℝ): crude form of the running bound: at most `X/4 + 1` -/
theorem meanErr_le_crude {X : ℝ} (hX : 0 ≤ X) {k : ℕ} (hk : (k : ℝ) * u ≤ 1 / 8) :
    meanErr X k ≤ X / 4 + 1 := by
  refine (meanErr_le hX hk).trans ?_
  have hu := u_pos
  have hu1 := u_lt
  have hη := η_le_u
  have hη0 := η_pos
  have h1 : ((k : ℝ) + 13) * u ≤ 1 / 4 := by nlinarith
  have h2 : ((k : ℝ) + 1) * ((1 + u) * η) ≤ 1 := by
    have : ((k : ℝ) + 1) * ((1 + u) * η) ≤ ((k : ℝ) + 1) * ((1 + u) * u) :=
      mul_le_mul_of_nonneg_left (mul_le_mul_of_nonneg_left hη (by positivity)) (by positivity)
    nlinarith
  have := mul_le_mul_of_nonneg_right h1 hX
  linarith

/-- full(ℝ): `14·2^1000 + 6 ≤ 2^1023` -/
theorem mag_le_big {X : ℝ} (hXb : X ≤ (2 : ℝ) ^ (1000 : ℤ)) : 14 * X + 6 ≤ big := by
  unfold big
  have h1 : (1 : ℝ) ≤ (2 : ℝ) ^ (1000 : ℤ) := by
    calc (1 : ℝ) = (2 : ℝ) ^ (0 : ℤ) := by simp
      _ ≤ _ := zpow_le_zpow_right₀ (by norm_num) (by norm_num)
  have h2 : (2 : ℝ) ^ (1023 : ℤ) = (2 : ℝ) ^ (5 : ℤ) * (2 : ℝ) ^ (1018 : ℤ) := by
    rw [← zpow_add₀ (by norm_num : (2 : ℝ) ≠ 0)]; norm_num
  have h3 : (2 : ℝ) ^ (1000 : ℤ) ≤ (2 : ℝ) ^ (1018 : ℤ) := zpow_le_zpow_right₀ (by norm_num) (by norm_num)
  have h5 : (2 : ℝ) ^ (5 : ℤ) = 32 := by norm_num
  rw [h2, h5]
  generalize (2 : ℝ) ^ (1000 : ℤ) = A at hXb h1 h3
  generalize (2 : ℝ) ^ (1018 : ℤ) = B at h3 ⊢
  linarith

section generic
variable {α : Type} [Add α] [Sub α] [Mul α] [Div α] [Neg α] [LT α] [LE α] [BEq α]
  [DecidableLT α] [DecidableLE α] [OfScientific α] [Inhabited α] [RFun α]

/-- full(∀α, StdModel): the streaming-mean loop from a state that has absorbed `k` points with sum `S`: it finishes
    normally, the float counter is exact, everything stays finite and the running error bound is maintained -/
theorem mean_loop_bound (M : StdModel α) {X : ℝ} (hX0 : 0 ≤ X) (hXb : X ≤ (2 : ℝ) ^ (1000 : ℤ)) (N : ℕ)
    (hN : (N : ℝ) * u ≤ 1 / 8) (l : List α) (hl : ∀ x ∈ l, Spec.Fin x ∧ |M.toReal x| ≤ X)
    (k : ℕ) (S : ℝ) (i m : α) (hk : k + l.length ≤ N)
    (hi : Spec.Fin i) (hri : M.toReal i = k) (hm : Spec.Fin m) (hS : |S| ≤ k * X)
    (he : |M.toReal m - S / k| ≤ meanErr X k) :
    ∃ i' m', IterStatistics.mean.loop1 l i m = LoopR.done (i', m') ∧ Spec.Fin i' ∧
      M.toReal i' = ((k + l.length : ℕ) : ℝ) ∧ Spec.Fin m' ∧
      |M.toReal m' - (S + (l.map M.toReal).sum) / ((k + l.length : ℕ) : ℝ)| ≤ meanErr X (k + l.length) := by
  induction l generalizing k S i m with
  | nil => exact ⟨i, m, rfl, hi, by simpa using hri, hm, by simpa using he⟩
  | cons x l ih =>
    have hu := u_pos
    have hu1 := u_lt
    have hη := η_pos
    obtain ⟨hxf, hxX⟩ := hl x List.mem_cons_self
    have hkN : (k : ℝ) ≤ N := by exact_mod_cast (by simp at hk; omega : k ≤ N)
    have hku : (k : ℝ) * u ≤ 1 / 8 := (mul_le_mul_of_nonneg_right hkN hu.le).trans hN
    -- the counter
    have hk53 : ((k : ℤ) + 1 : ℤ) ≤ 2 ^ 53 := by
      have h1 : (N : ℝ) ≤ 2 ^ 50 := by
        have : (N : ℝ) * u ≤ 1 / 8 := hN
        rw [u_eq] at this
        have h2 : (N : ℝ) ≤ 1 / 8 * 2 ^ (53 : ℕ) := by
          rw [mul_one_div, div_le_iff₀ (by positivity)] at this; linarith
        norm_num at h2 ⊢; linarith
      have h2 : N ≤ 2 ^ 50 := by exact_mod_cast h1
      simp at hk; omega
    obtain ⟨hof, hor⟩ := M.ofInt_exact ((k : ℤ) + 1) (by rw [abs_of_nonneg (by omega)]; exact hk53)
    obtain ⟨hi', hri'⟩ := M.add_exact i (1.0 : α) (RFun.ofInt ((k : ℤ) + 1)) hi M.one_fin hof
      (by rw [hri, M.toReal_one, hor]; push_cast; ring)
    rw [hor] at hri'
    have hri'' : M.toReal (i + (1.0 : α)) = (k : ℝ) + 1 := by rw [hri']; push_cast; ring
    -- magnitudes
    have hμ : |S / (k : ℝ)| ≤ X := by
      rcases Nat.eq_zero_or_pos k with h0 | hpos
      · subst h0; simpa using hX0
      · have : (0 : ℝ) < k := by exact_mod_cast hpos
        rw [abs_div, abs_of_pos this, div_le_iff₀ this]; linarith
    have hE := meanErr_le_crude hX0 hku
    have hrm : |M.toReal m| ≤ 2 * X + 1 := by
      have : M.toReal m = S / k + (M.toReal m - S / k) := by ring
      rw [this]
      calc _ ≤ |S / (k : ℝ)| + |M.toReal m - S / k| := abs_add_le _ _
        _ ≤ 2 * X + 1 := by linarith
    have hbig := mag_le_big hXb
    have hd : |M.toReal x - M.toReal m| ≤ 3 * X + 1 := by
      calc _ ≤ |M.toReal x| + |M.toReal m| := abs_sub _ _
        _ ≤ 3 * X + 1 := by linarith
    have hdf : Spec.Fin (x - m) := M.sub_fin _ _ hxf hm (by linarith)
    obtain ⟨δ1, hδ1, e1⟩ := M.sub_std _ _ hxf hm hdf
    have hrd : |M.toReal (x - m)| ≤ 2 * (3 * X + 1) := by
      rw [e1]
      have := abs_mul_le_mul hd (abs_one_add_le hδ1)
      nlinarith
    have hk1 : (1 : ℝ) ≤ (k : ℝ) + 1 := by have : (0 : ℝ) ≤ k := Nat.cast_nonneg k; linarith
    have hi0 : M.toReal (i + (1.0 : α)) ≠ 0 := by rw [hri'']; linarith
    have hq : |M.toReal (x - m) / M.toReal (i + (1.0 : α))| ≤ 2 * (3 * X + 1) := by
      rw [hri'', abs_div, abs_of_pos (by linarith : (0 : ℝ) < (k : ℝ) + 1)]
      exact (div_le_self (abs_nonneg _) hk1).trans hrd
    have hqf : Spec.Fin ((x - m) / (i + (1.0 : α))) := M.div_fin _ _ hdf hi' hi0 (by linarith)
    obtain ⟨δ2, ε, hδ2, hε, _, e2⟩ := M.div_std _ _ hdf hi' hi0 hqf
    have hrq : |M.toReal ((x - m) / (i + (1.0 : α)))| ≤ 4 * (3 * X + 1) + 1 := by
      rw [e2]
      have h1 := abs_mul_le_mul hq (abs_one_add_le hδ2)
      have hη1 : η ≤ 1 := η_le_u.trans u_le_one
      calc _ ≤ |M.toReal (x - m) / M.toReal (i + (1.0 : α)) * (1 + δ2)| + |ε| := abs_add_le _ _
        _ ≤ 4 * (3 * X + 1) + 1 := by nlinarith
    have hmf : Spec.Fin (m + (x - m) / (i + (1.0 : α))) := by
      apply M.add_fin _ _ hm hqf
      calc _ ≤ |M.toReal m| + |M.toReal ((x - m) / (i + (1.0 : α)))| := abs_add_le _ _
        _ ≤ 14 * X + 6 := by linarith
        _ ≤ big := hbig
    obtain ⟨δ3, hδ3, e3⟩ := M.add_std _ _ hm hqf hmf
    -- the error step
    have hstep : |M.toReal (m + (x - m) / (i + (1.0 : α))) - (S + M.toReal x) / (((k + 1 : ℕ) : ℝ))|
        ≤ meanErr X (k + 1) := by
      rw [e3, e2, e1, hri'']
      have hκ : (k : ℝ) = 0 ∨ 1 ≤ (k : ℝ) := by
        rcases Nat.eq_zero_or_pos k with h0 | hpos
        · left; exact_mod_cast h0
        · right; exact_mod_cast hpos
      have hμS : (k : ℝ) * (S / k) = S := by
        rcases Nat.eq_zero_or_pos k with h0 | hpos
        · subst h0
          have hS0 : S = 0 := by
            have : |S| ≤ 0 := by simpa using hS
            exact abs_eq_zero.1 (le_antisymm this (abs_nonneg _))
          rw [hS0]; simp
        · have : (k : ℝ) ≠ 0 := by exact_mod_cast hpos.ne'
          field_simp
      have := mean_step_real hκ hX0 hμS hμ hxX (one_le_pow₀ (by linarith : (1 : ℝ) ≤ 1 + 4 * u) (n := k))
        hδ1 hδ2 hδ3 hε (m := M.toReal m) (by simpa [meanErr] using he)
      unfold meanErr
      push_cast
      rw [pow_succ]
      convert this using 2; ring
    -- the rest of the loop
    have hS' : |S + M.toReal x| ≤ ((k + 1 : ℕ) : ℝ) * X := by
      push_cast
      calc _ ≤ |S| + |M.toReal x| := abs_add_le _ _
        _ ≤ _ := by linarith
    obtain ⟨i', m', h1, h2, h3, h4, h5⟩ := ih (fun y hy => hl y (List.mem_cons_of_mem _ hy)) (k + 1)
      (S + M.toReal x) (i + (1.0 : α)) (m + (x - m) / (i + (1.0 : α)))
      (by simp at hk ⊢; omega) hi' (by rw [hri'']; push_cast; ring) hmf hS' hstep
    refine ⟨i', m', ?_, h2, ?_, h4, ?_⟩
    · simp only [IterStatistics.mean.loop1]; exact h1
    · rw [h3]; simp only [List.length_cons]; congr 1; omega
    · simp only [List.map_cons, List.sum_cons, List.length_cons]
      rw [show k + (l.length + 1) = k + 1 + l.length by omega, ← add_assoc]
      exact h5

/-- full(ℝ): the running bound is non-negative -/
theorem meanErr_nonneg {X : ℝ} (hX : 0 ≤ X) (k : ℕ) : 0 ≤ meanErr X k := by
  unfold meanErr
  have hu := u_pos
  have hη := η_pos
  positivity

/-- full(∀α, StdModel): C13 — `IterStatistics::mean` on `n ≥ 1` finite values of magnitude at most `X ≤ 2^1000`
    (`n·u ≤ 1/8`): the result is finite and within `(n+13)·u·X + (n+1)(1+u)·η` of the exact mean `Σxᵢ/n` -/
theorem iter_mean_bound (M : StdModel α) {X : ℝ} (hXb : X ≤ (2 : ℝ) ^ (1000 : ℤ)) (l : List α) (hne : l ≠ [])
    (hl : ∀ x ∈ l, Spec.Fin x ∧ |M.toReal x| ≤ X) (hn : (l.length : ℝ) * u ≤ 1 / 8) :
    Spec.Fin (IterStatistics.mean l) ∧
    |M.toReal (IterStatistics.mean l) - (l.map M.toReal).sum / (l.length : ℝ)|
      ≤ ((l.length : ℝ) + 13) * u * X + ((l.length : ℝ) + 1) * ((1 + u) * η) := by
  have hX0 : 0 ≤ X := by
    obtain ⟨x, hx⟩ := List.exists_mem_of_ne_nil l hne
    exact (abs_nonneg _).trans (hl x hx).2
  obtain ⟨i', m', h1, h2, h3, h4, h5⟩ := mean_loop_bound M hX0 hXb l.length hn l hl 0 0 (0.0 : α) (0.0 : α)
    (by simp) M.zero_fin (by simpa using M.toReal_zero) M.zero_fin (by simp)
    (by simpa [M.toReal_zero] using meanErr_nonneg hX0 0)
  have hpos : 0 < l.length := List.length_pos_iff.2 hne
  have hlt : (0.0 : α) < i' := by
    rw [M.lt_iff _ _ M.zero_fin h2, M.toReal_zero, h3]
    exact_mod_cast (by omega : 0 < 0 + l.length)
  have hmean : IterStatistics.mean l = m' := by
    unfold IterStatistics.mean
    simp only [h1, if_pos hlt]
  rw [hmean]
  refine ⟨h4, ?_⟩
  simp only [zero_add] at h5
  exact h5.trans (meanErr_le hX0 hn)

end generic

/-! ### IEEE `Float` -/
open Statrs.Lemmas.FloatModel (toReal stdModel_float)

/-- full(Float): C13 — the streaming mean over IEEE binary64: for `1 ≤ n ≤ 2^50` finite values with
    `|xᵢ| ≤ X ≤ 2^1000` the result is finite and `|mean − Σxᵢ/n| ≤ (n+13)·2^-53·X + (n+1)(1+2^-53)·2^-1075` -/
theorem iter_mean_bound_float {X : ℝ} (hXb : X ≤ (2 : ℝ) ^ (1000 : ℤ)) (l : List Float) (hne : l ≠ [])
    (hl : ∀ x ∈ l, Spec.Fin x ∧ |toReal x| ≤ X) (hn : l.length ≤ 2 ^ 50) :
    Spec.Fin (IterStatistics.mean l) ∧
    |toReal (IterStatistics.mean l) - (l.map toReal).sum / (l.length : ℝ)|
      ≤ ((l.length : ℝ) + 13) * u * X + ((l.length : ℝ) + 1) * ((1 + u) * η) := by
  refine iter_mean_bound stdModel_float hXb l hne hl ?_
  rw [u_eq]
  have : (l.length : ℝ) ≤ (2 : ℝ) ^ (50 : ℕ) := by exact_mod_cast hn
  rw [mul_one_div, div_le_iff₀ (by positivity)]
  norm_num at this ⊢; linarith

/-- non-vacuity: the hypotheses hold for a concrete data set -/
example : ∀ x ∈ ([1.0, 2.0, 0.5] : List Float), Spec.Fin x ∧ |toReal x| ≤ 2 := by
  intro x hx
  simp only [List.mem_cons, List.mem_nil_iff, or_false] at hx
  rcases hx with rfl | rfl | rfl
  · exact ⟨by decide, by rw [Statrs.Lemmas.FloatModel.toReal_one]; norm_num⟩
  · exact ⟨by decide, by rw [Statrs.Lemmas.FloatModel.toReal_two]; norm_num⟩
  · exact ⟨by decide, by rw [Statrs.Lemmas.FloatModel.toReal_half]; norm_num⟩

end Statrs.Props.C13
