/-
  C13 — rounding-error bound for `IterStatistics::quadratic_mean` (streaming mean of the squares, then `sqrt`),
  for every carrier satisfying the standard model `StdModel α`, hence for IEEE `Float`.

  With `n ≥ 1`, `xᵢ = toReal data[i]`, `|xᵢ| ≤ X ≤ 2^499`, `n·u ≤ 1/8`, `μ₂ = Σxᵢ²/n`, `B = (n+15)·u·X² + (n+3)·η`:
    * `quadratic_loop_eq_mean_loop`            : the loop is the `mean` loop on the squared data (every carrier);
    * `iter_quadratic_mean_sq_bound` : `quadratic_mean data = sqrt q` with `q` finite and `|toReal q − μ₂| ≤ B`;
    * `iter_quadratic_mean_bound`    : if `B ≤ μ₂` then the result is finite and
          |toReal (quadratic_mean data) − √μ₂| ≤ B/√μ₂ + u·(√μ₂ + B/√μ₂)
    * `…_float` : the instances at `Float`.
-/
import Statrs.Props.C13.FloatMeanBound
namespace Statrs.Props.C13
open Statrs Statrs.Gen Statrs.Spec Statrs.Spec.FloatStd

section generic
variable {α : Type} [Add α] [Sub α] [Mul α] [Div α] [Neg α] [LT α] [LE α] [BEq α]
  [DecidableLT α] [DecidableLE α] [OfScientific α] [Inhabited α] [RFun α]

/-- full(∀α): the `quadratic_mean` loop is the `mean` loop on the squared data -/
theorem quadratic_loop_eq_mean_loop (l : List α) (i m : α) :
    IterStatistics.quadratic_mean.loop1 l i m = IterStatistics.mean.loop1 (l.map (fun x => x * x)) i m := by
  induction l generalizing i m with
  | nil => rfl
  | cons x l ih =>
    simp only [IterStatistics.quadratic_mean.loop1, IterStatistics.mean.loop1, List.map_cons]
    exact ih _ _

omit [Add α] [Sub α] [Mul α] [Div α] [Neg α] [LT α] [LE α] [BEq α] [DecidableLT α] [DecidableLE α]
  [OfScientific α] [Inhabited α] [RFun α] in
/-- full(ℝ): termwise-close lists have close sums -/
theorem list_sum_sub_le (l : List α) (f g : α → ℝ) (c : ℝ) (h : ∀ x ∈ l, |f x - g x| ≤ c) :
    |(l.map f).sum - (l.map g).sum| ≤ (l.length : ℝ) * c := by
  induction l with
  | nil => simp
  | cons x l ih =>
    simp only [List.map_cons, List.sum_cons, List.length_cons]
    have h1 := h x List.mem_cons_self
    have h2 := ih (fun y hy => h y (List.mem_cons_of_mem _ hy))
    have e : f x + (l.map f).sum - (g x + (l.map g).sum) = (f x - g x) + ((l.map f).sum - (l.map g).sum) := by ring
    rw [e]
    push_cast
    calc _ ≤ |f x - g x| + |(l.map f).sum - (l.map g).sum| := abs_add_le _ _
      _ ≤ _ := by linarith

/-- full(ℝ): `2^998·(1+u) + η ≤ 2^1000` -/
theorem sq_mag_le {X : ℝ} (hX0 : 0 ≤ X) (hXb : X ≤ (2 : ℝ) ^ (499 : ℤ)) :
    X ^ 2 ≤ (2 : ℝ) ^ (998 : ℤ) ∧ X ^ 2 * (1 + u) + η ≤ (2 : ℝ) ^ (1000 : ℤ) ∧ X ^ 2 ≤ big := by
  have hu := u_lt
  have hu0 := u_pos
  have hη : η ≤ 1 := η_le_u.trans u_le_one
  have h1 : X ^ 2 ≤ (2 : ℝ) ^ (499 : ℤ) * (2 : ℝ) ^ (499 : ℤ) := by
    rw [sq]; exact mul_le_mul hXb hXb hX0 (by positivity)
  rw [← zpow_add₀ (by norm_num : (2 : ℝ) ≠ 0), show (499 : ℤ) + 499 = 998 by norm_num] at h1
  have h2 : (2 : ℝ) ^ (1000 : ℤ) = 4 * (2 : ℝ) ^ (998 : ℤ) := by
    rw [show (1000 : ℤ) = 2 + 998 by norm_num, zpow_add₀ (by norm_num : (2 : ℝ) ≠ 0)]; norm_num
  have h3 : (1 : ℝ) ≤ (2 : ℝ) ^ (998 : ℤ) := by
    calc (1 : ℝ) = (2 : ℝ) ^ (0 : ℤ) := by simp
      _ ≤ _ := zpow_le_zpow_right₀ (by norm_num) (by norm_num)
  have h4 : (2 : ℝ) ^ (998 : ℤ) ≤ big := by
    unfold big; exact zpow_le_zpow_right₀ (by norm_num) (by norm_num)
  refine ⟨h1, ?_, h1.trans h4⟩
  rw [h2]
  generalize (2 : ℝ) ^ (998 : ℤ) = A at h1 h3
  have : 0 ≤ X ^ 2 := by positivity
  nlinarith

/-- full(∀α, StdModel): C13 — `quadratic_mean data = sqrt q` where `q` (the streaming mean of the squares) is finite and
    within `(n+15)·u·X² + (n+3)·η` of the exact mean square `Σxᵢ²/n` -/
theorem iter_quadratic_mean_sq_bound (M : StdModel α) {X : ℝ} (hXb : X ≤ (2 : ℝ) ^ (499 : ℤ)) (l : List α)
    (hne : l ≠ []) (hl : ∀ x ∈ l, Spec.Fin x ∧ |M.toReal x| ≤ X) (hn : (l.length : ℝ) * u ≤ 1 / 8) :
    ∃ q : α, IterStatistics.quadratic_mean l = RFun.sqrt q ∧ Spec.Fin q ∧
      |M.toReal q - (l.map (fun x => M.toReal x ^ 2)).sum / (l.length : ℝ)|
        ≤ ((l.length : ℝ) + 15) * u * X ^ 2 + ((l.length : ℝ) + 3) * η := by
  have hu := u_pos
  have hu1 := u_lt
  have hη := η_pos
  have hX0 : 0 ≤ X := by
    obtain ⟨x, hx⟩ := List.exists_mem_of_ne_nil l hne
    exact (abs_nonneg _).trans (hl x hx).2
  obtain ⟨hs1, hs2, hs3⟩ := sq_mag_le hX0 hXb
  -- the squared data
  have hsq : ∀ x ∈ l, Spec.Fin (x * x) ∧ |M.toReal (x * x)| ≤ X ^ 2 * (1 + u) + η ∧
      |M.toReal (x * x) - M.toReal x ^ 2| ≤ u * X ^ 2 + η := by
    intro x hx
    obtain ⟨hf, hb⟩ := hl x hx
    have hxx : |M.toReal x * M.toReal x| ≤ X ^ 2 := by
      rw [sq]; exact abs_mul_le_mul hb hb
    have hfin : Spec.Fin (x * x) := M.mul_fin _ _ hf hf (hxx.trans hs3)
    have hab := M.mul_abs _ _ hf hf hfin
    have h3 : |M.toReal (x * x) - M.toReal x ^ 2| ≤ u * X ^ 2 + η := by
      rw [sq]
      refine hab.trans ?_
      have := mul_le_mul_of_nonneg_left hxx hu.le
      linarith
    refine ⟨hfin, ?_, h3⟩
    have e : M.toReal (x * x) = M.toReal x ^ 2 + (M.toReal (x * x) - M.toReal x ^ 2) := by ring
    rw [e]
    have h4 : |M.toReal x ^ 2| ≤ X ^ 2 := by rw [sq]; exact hxx
    calc _ ≤ |M.toReal x ^ 2| + |M.toReal (x * x) - M.toReal x ^ 2| := abs_add_le _ _
      _ ≤ _ := by linarith
  have hl' : ∀ y ∈ l.map (fun x => x * x), Spec.Fin y ∧ |M.toReal y| ≤ X ^ 2 * (1 + u) + η := by
    intro y hy
    obtain ⟨x, hx, rfl⟩ := List.mem_map.1 hy
    exact ⟨(hsq x hx).1, (hsq x hx).2.1⟩
  have hY0 : 0 ≤ X ^ 2 * (1 + u) + η := by positivity
  have hn' : (((l.map (fun x => x * x)).length : ℕ) : ℝ) * u ≤ 1 / 8 := by simpa using hn
  obtain ⟨i', m', h1, h2, h3, h4, h5⟩ := mean_loop_bound M hY0 hs2 (l.map (fun x => x * x)).length hn'
    (l.map (fun x => x * x)) hl' 0 0 (0.0 : α) (0.0 : α)
    (by simp) M.zero_fin (by simpa using M.toReal_zero) M.zero_fin (by simp)
    (by simpa [M.toReal_zero] using meanErr_nonneg hY0 0)
  simp only [zero_add, List.length_map, List.map_map] at h3 h5
  have hpos : 0 < l.length := List.length_pos_iff.2 hne
  have hnpos : (0 : ℝ) < (l.length : ℝ) := by exact_mod_cast hpos
  have hlt : (0.0 : α) < i' := by
    rw [M.lt_iff _ _ M.zero_fin h2, M.toReal_zero, h3]; exact hnpos
  refine ⟨m', ?_, h4, ?_⟩
  · unfold IterStatistics.quadratic_mean
    simp only [quadratic_loop_eq_mean_loop, h1, if_pos hlt]
  · have hE := h5.trans (meanErr_le hY0 hn)
    have hsum := list_sum_sub_le l (fun x => M.toReal (x * x)) (fun x => M.toReal x ^ 2) (u * X ^ 2 + η)
      (fun x hx => (hsq x hx).2.2)
    have hdiv : |(l.map (fun x => M.toReal (x * x))).sum / (l.length : ℝ)
        - (l.map (fun x => M.toReal x ^ 2)).sum / (l.length : ℝ)| ≤ u * X ^ 2 + η := by
      rw [← sub_div, abs_div, abs_of_pos hnpos, div_le_iff₀ hnpos]
      linarith
    have htri : |M.toReal m' - (l.map (fun x => M.toReal x ^ 2)).sum / (l.length : ℝ)|
        ≤ |M.toReal m' - (l.map (fun x => M.toReal (x * x))).sum / (l.length : ℝ)|
          + |(l.map (fun x => M.toReal (x * x))).sum / (l.length : ℝ)
            - (l.map (fun x => M.toReal x ^ 2)).sum / (l.length : ℝ)| := by
      have := abs_add_le (M.toReal m' - (l.map (fun x => M.toReal (x * x))).sum / (l.length : ℝ))
        ((l.map (fun x => M.toReal (x * x))).sum / (l.length : ℝ)
            - (l.map (fun x => M.toReal x ^ 2)).sum / (l.length : ℝ))
      simpa using this
    have hcomp : (fun x => M.toReal (x * x)) = (M.toReal ∘ fun x => x * x) := rfl
    rw [← hcomp] at hE
    -- arithmetic of the constants
    generalize (l.length : ℝ) = n at hn hE hnpos htri hdiv ⊢
    have hX2 : 0 ≤ X ^ 2 := by positivity
    generalize X ^ 2 = Z at hX2 hE hdiv ⊢
    have hnu : (n + 13) * u ≤ 1 / 4 := by nlinarith
    have e1 : (n + 13) * u * (Z * (1 + u)) + u * Z ≤ (n + 15) * u * Z := by
      have h1 : (n + 13) * u * (Z * u) ≤ 1 / 4 * (Z * u) := mul_le_mul_of_nonneg_right hnu (by positivity)
      have h2 : 0 ≤ Z * u := by positivity
      have e : (n + 13) * u * (Z * (1 + u)) = (n + 13) * u * Z + (n + 13) * u * (Z * u) := by ring
      have e' : (n + 15) * u * Z = (n + 13) * u * Z + 2 * (Z * u) := by ring
      rw [e, e']; linarith
    have e2 : (n + 13) * u * η + (n + 1) * ((1 + u) * η) + η ≤ (n + 3) * η := by
      have h1 : (n + 13) * u * η ≤ 1 / 4 * η := mul_le_mul_of_nonneg_right hnu hη.le
      have h2 : (n + 1) * u ≤ 1 / 4 := by nlinarith
      have h3 : (n + 1) * u * η ≤ 1 / 4 * η := mul_le_mul_of_nonneg_right h2 hη.le
      have e : (n + 1) * ((1 + u) * η) = (n + 1) * η + (n + 1) * u * η := by ring
      have e' : (n + 3) * η = (n + 1) * η + 2 * η := by ring
      rw [e, e']; linarith
    have e3 : (n + 13) * u * (Z * (1 + u) + η) = (n + 13) * u * (Z * (1 + u)) + (n + 13) * u * η := by ring
    rw [e3] at hE
    linarith

omit [Add α] [Sub α] [Mul α] [Div α] [Neg α] [LT α] [LE α] [BEq α] [DecidableLT α] [DecidableLE α]
  [OfScientific α] [Inhabited α] [RFun α] in
/-- full(ℝ): `|√a − √b| ≤ |a − b| / √b` for `a ≥ 0`, `b > 0` -/
theorem abs_sqrt_sub_le {a b : ℝ} (ha : 0 ≤ a) (hb : 0 < b) :
    |Real.sqrt a - Real.sqrt b| ≤ |a - b| / Real.sqrt b := by
  have hsb : 0 < Real.sqrt b := Real.sqrt_pos.2 hb
  have hsa : 0 ≤ Real.sqrt a := Real.sqrt_nonneg a
  have e : a - b = (Real.sqrt a - Real.sqrt b) * (Real.sqrt a + Real.sqrt b) := by
    have h1 := Real.mul_self_sqrt ha
    have h2 := Real.mul_self_sqrt hb.le
    nlinarith
  rw [le_div_iff₀ hsb, e, abs_mul]
  have : Real.sqrt b ≤ |Real.sqrt a + Real.sqrt b| := by
    rw [abs_of_nonneg (by linarith)]; linarith
  exact mul_le_mul_of_nonneg_left this (abs_nonneg _)

/-- full(∀α, StdModel): C13 — `quadratic_mean` against the textbook value `√(Σxᵢ²/n)`: when the mean square `μ₂` is at
    least the error bound `B = (n+15)·u·X² + (n+3)·η` of the accumulated mean of squares, the result is finite and
    `|result − √μ₂| ≤ B/√μ₂ + u·(√μ₂ + B/√μ₂)` -/
theorem iter_quadratic_mean_bound (M : StdModel α) {X : ℝ} (hXb : X ≤ (2 : ℝ) ^ (499 : ℤ)) (l : List α)
    (hne : l ≠ []) (hl : ∀ x ∈ l, Spec.Fin x ∧ |M.toReal x| ≤ X) (hn : (l.length : ℝ) * u ≤ 1 / 8)
    (hμ : ((l.length : ℝ) + 15) * u * X ^ 2 + ((l.length : ℝ) + 3) * η
        ≤ (l.map (fun x => M.toReal x ^ 2)).sum / (l.length : ℝ)) :
    Spec.Fin (IterStatistics.quadratic_mean l) ∧
    |M.toReal (IterStatistics.quadratic_mean l)
        - Real.sqrt ((l.map (fun x => M.toReal x ^ 2)).sum / (l.length : ℝ))|
      ≤ (((l.length : ℝ) + 15) * u * X ^ 2 + ((l.length : ℝ) + 3) * η)
          / Real.sqrt ((l.map (fun x => M.toReal x ^ 2)).sum / (l.length : ℝ))
        + u * (Real.sqrt ((l.map (fun x => M.toReal x ^ 2)).sum / (l.length : ℝ))
          + (((l.length : ℝ) + 15) * u * X ^ 2 + ((l.length : ℝ) + 3) * η)
            / Real.sqrt ((l.map (fun x => M.toReal x ^ 2)).sum / (l.length : ℝ))) := by
  obtain ⟨q, hq, hqf, hqb⟩ := iter_quadratic_mean_sq_bound M hXb l hne hl hn
  have hu := u_pos
  have hη := η_pos
  have hn0 : (0 : ℝ) ≤ (l.length : ℝ) := Nat.cast_nonneg _
  generalize hB : ((l.length : ℝ) + 15) * u * X ^ 2 + ((l.length : ℝ) + 3) * η = B at hμ hqb ⊢
  generalize (l.map (fun x => M.toReal x ^ 2)).sum / (l.length : ℝ) = μ at hμ hqb ⊢
  have hB0 : 0 < B := by rw [← hB]; positivity
  have hμ0 : 0 < μ := lt_of_lt_of_le hB0 hμ
  have hq0 : 0 ≤ M.toReal q := by have := (abs_le.1 hqb).1; linarith
  rw [hq]
  refine ⟨M.sqrt_fin q hqf hq0, ?_⟩
  obtain ⟨δ, hδ, e⟩ := M.sqrt_std q hqf hq0
  rw [e]
  have hs := abs_sqrt_sub_le hq0 hμ0
  have hsμ : 0 < Real.sqrt μ := Real.sqrt_pos.2 hμ0
  have hs' : |Real.sqrt (M.toReal q) - Real.sqrt μ| ≤ B / Real.sqrt μ :=
    hs.trans (div_le_div_of_nonneg_right hqb hsμ.le)
  have hsq : Real.sqrt (M.toReal q) ≤ Real.sqrt μ + B / Real.sqrt μ := by
    have := (abs_le.1 hs').2; linarith
  have e2 : Real.sqrt (M.toReal q) * (1 + δ) - Real.sqrt μ
      = Real.sqrt (M.toReal q) * δ + (Real.sqrt (M.toReal q) - Real.sqrt μ) := by ring
  rw [e2]
  have h1 : |Real.sqrt (M.toReal q) * δ| ≤ (Real.sqrt μ + B / Real.sqrt μ) * u :=
    abs_mul_le_mul (by rw [abs_of_nonneg (Real.sqrt_nonneg _)]; exact hsq) hδ
  calc _ ≤ |Real.sqrt (M.toReal q) * δ| + |Real.sqrt (M.toReal q) - Real.sqrt μ| := abs_add_le _ _
    _ ≤ _ := by linarith

end generic

/-! ### IEEE `Float` -/
open Statrs.Lemmas.FloatModel (toReal stdModel_float)

private theorem len_u {n : ℕ} (hn : n ≤ 2 ^ 50) : (n : ℝ) * u ≤ 1 / 8 := by
  rw [u_eq]
  have : (n : ℝ) ≤ (2 : ℝ) ^ (50 : ℕ) := by exact_mod_cast hn
  rw [mul_one_div, div_le_iff₀ (by positivity)]
  norm_num at this ⊢; linarith

/-- full(Float): C13 — over IEEE binary64, `quadratic_mean data = sqrt q` with `q` finite and
    `|q − Σxᵢ²/n| ≤ (n+15)·u·X² + (n+3)·η` (`1 ≤ n ≤ 2^50`, finite data with `|xᵢ| ≤ X ≤ 2^499`) -/
theorem iter_quadratic_mean_sq_bound_float {X : ℝ} (hXb : X ≤ (2 : ℝ) ^ (499 : ℤ)) (l : List Float) (hne : l ≠ [])
    (hl : ∀ x ∈ l, Spec.Fin x ∧ |toReal x| ≤ X) (hn : l.length ≤ 2 ^ 50) :
    ∃ q : Float, IterStatistics.quadratic_mean l = RFun.sqrt q ∧ Spec.Fin q ∧
      |toReal q - (l.map (fun x => toReal x ^ 2)).sum / (l.length : ℝ)|
        ≤ ((l.length : ℝ) + 15) * u * X ^ 2 + ((l.length : ℝ) + 3) * η :=
  iter_quadratic_mean_sq_bound stdModel_float hXb l hne hl (len_u hn)

/-- full(Float): C13 — `quadratic_mean` against `√(Σxᵢ²/n)` over IEEE binary64 (when the mean square dominates the
    accumulated error bound `B`) -/
theorem iter_quadratic_mean_bound_float {X : ℝ} (hXb : X ≤ (2 : ℝ) ^ (499 : ℤ)) (l : List Float) (hne : l ≠ [])
    (hl : ∀ x ∈ l, Spec.Fin x ∧ |toReal x| ≤ X) (hn : l.length ≤ 2 ^ 50)
    (hμ : ((l.length : ℝ) + 15) * u * X ^ 2 + ((l.length : ℝ) + 3) * η
        ≤ (l.map (fun x => toReal x ^ 2)).sum / (l.length : ℝ)) :
    Spec.Fin (IterStatistics.quadratic_mean l) ∧
    |toReal (IterStatistics.quadratic_mean l) - Real.sqrt ((l.map (fun x => toReal x ^ 2)).sum / (l.length : ℝ))|
      ≤ (((l.length : ℝ) + 15) * u * X ^ 2 + ((l.length : ℝ) + 3) * η)
          / Real.sqrt ((l.map (fun x => toReal x ^ 2)).sum / (l.length : ℝ))
        + u * (Real.sqrt ((l.map (fun x => toReal x ^ 2)).sum / (l.length : ℝ))
          + (((l.length : ℝ) + 15) * u * X ^ 2 + ((l.length : ℝ) + 3) * η)
            / Real.sqrt ((l.map (fun x => toReal x ^ 2)).sum / (l.length : ℝ))) :=
  iter_quadratic_mean_bound stdModel_float hXb l hne hl (len_u hn) hμ

/-- non-vacuity: for the data set `[1.0]` (`X = 1`, `μ₂ = 1`) all hypotheses of `iter_quadratic_mean_bound_float` hold -/
example : (∀ x ∈ ([1.0] : List Float), Spec.Fin x ∧ |toReal x| ≤ 1) ∧
    (((([1.0] : List Float).length : ℝ) + 15) * u * (1 : ℝ) ^ 2 + ((([1.0] : List Float).length : ℝ) + 3) * η
      ≤ (([1.0] : List Float).map (fun x => toReal x ^ 2)).sum / (([1.0] : List Float).length : ℝ)) := by
  constructor
  · intro x hx
    rw [List.mem_singleton.1 hx]
    exact ⟨by decide, by rw [Statrs.Lemmas.FloatModel.toReal_one]; norm_num⟩
  · have h1 := u_lt
    have h2 := η_le_u
    have h3 := η_pos
    simp [Statrs.Lemmas.FloatModel.toReal_one]
    nlinarith

end Statrs.Props.C13
