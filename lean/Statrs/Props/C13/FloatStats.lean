/-
  C13 (float level) — `mean`, `variance`, `population_variance`, `std_dev`, `quadratic_mean`, `abs_min`, `abs_max` of
  `impl Statistics<f64> for T: IntoIterator` on EVERY carrier satisfying `FloatLaws` + `ExtraLaws`, hence on IEEE
  `Float` (`FloatStatsInst.lean`).

  * `mean` is the streaming update `mean += (x − mean) / i`.  From the monotone laws each step stays on the side of
    `mean` where `x` lies; that it does not OVERSHOOT `x` (for `i ≥ 2`) is a rounding fact, not an order fact — it
    is the premise `StepLaws.step_le/step_ge` (true for binary64: `fl(fl(x − m)/i) ≤ x − m` when `i ≥ 2`; false
    for `i = 1`, see `C14.lerp_one_overshoot_counterexample`; the generated loop only divides by `1` at the first
    entry, where `mean = 0.0` and the step is exact).  Relative to it: `mean_between_fl_rel` — for data in a finite
    interval `[lo, hi]` whose width does not overflow, the mean is not NaN and in `[lo, hi]`; `mean_range_fl_rel` —
    `min ≤ mean ≤ max`.  Without the no-overflow premise both fail on `f64`
    (`FloatStatsInst.mean_overflow_counterexample`: `mean [-1e308, 1e308] = +∞`; `mean_nan_counterexample`:
    `mean [-1e308, 1e308, 0.0]` is NaN).
  * `variance`, `population_variance` accumulate `diff² / (i (i − 1))`: a sum of quotients of squares — NaN or `≥ 0`
    by the laws alone (`variance_nonneg_fl`, `population_variance_nonneg_fl`, `std_dev_nonneg_fl`); only the
    literal facts `1 + 1 == 2`, `0 < 2·(2 − 1)` are used (`StreamLits`).
  * `covariance(xs, xs)` accumulates `(x − mean_new)·(x − mean_old)`: both factors have the same sign because the new
    mean lies between the old mean and `x` (`StepLaws`) — NaN or `≥ 0` (`covariance_self_nonneg_fl_rel`).
  * `quadratic_mean` is `sqrt` of the streaming mean of the squares: `≥ 0` relative to the same premise.
  * `abs_min`, `abs_max` are exact: `|x|` of an entry, bounding all `|x|` (`abs_min_exact_fl`, `abs_max_exact_fl`).
-/
import Statrs.Lemmas.FloatMinMax
import Statrs.Lemmas.FloatLawsMore
import Statrs.Gen.S_iter_statistics
set_option linter.unusedSectionVars false
set_option linter.unusedVariables false
namespace Statrs.Props.C13
open Statrs Statrs.Gen Statrs.Spec Statrs.Lemmas.FloatMinMax

/-- Three exact literal evaluations used by the streaming loops (counter `0.0 + 1.0`, `1.0 + 1.0`, and the first
    denominator `2·(2 − 1)`); not consequences of `FloatLaws`, true for binary64 by kernel evaluation. -/
structure StreamLits (α : Type) [Add α] [Sub α] [Mul α] [LT α] [BEq α] [OfScientific α] : Prop where
  /-- the counter after the first entry: `0.0 + 1.0` is (bit for bit) `1.0` -/
  zero_add_one : ((0.0 : α) + (1.0 : α)) = (1.0 : α)
  one_add_one : (((1.0 : α) + (1.0 : α)) == (2.0 : α)) = true
  den_pos : (0.0 : α) < (2.0 : α) * ((2.0 : α) - (1.0 : α))

/-- "A streaming-mean step with divisor `≥ 2` does not overshoot the new entry": a ROUNDING fact about binary64,
    not an order-theoretic consequence of `FloatLaws` (proved for `Float` from `Float.Model` in
    `FloatStepLaws.lean`).  It is false for divisor `1` (`C14.lerp_one_overshoot_counterexample`). -/
structure StepLaws (α : Type) [Add α] [Sub α] [Div α] [LE α] [OfScientific α] [RFun α] : Prop where
  /-- `m ≤ x`, divisor `≥ 2` ⇒ `fl(m + fl(fl(x − m) / i)) ≤ x`.  In binary64, with `2^k ≤ x − m < 2^(k+1)`:
      `fl(x − m) ≤ 2^(k+1)`, so `fl(fl(x − m)/i) ≤ 2^k ≤ x − m` -/
  step_le : ∀ m x i : α, Spec.Fin m → Spec.Fin x → m ≤ x → Spec.Fin (x - m) → (2.0 : α) ≤ i →
    m + (x - m) / i ≤ x
  step_ge : ∀ m x i : α, Spec.Fin m → Spec.Fin x → x ≤ m → Spec.Fin (x - m) → (2.0 : α) ≤ i →
    x ≤ m + (x - m) / i

variable {α : Type} [Add α] [Sub α] [Mul α] [Div α] [Neg α] [LT α] [LE α] [BEq α]
  [DecidableLT α] [DecidableLE α] [OfScientific α] [Inhabited α] [RFun α]

section laws
variable (L : FloatLaws α) (E : ExtraLaws α) (M : StreamLits α) (S : StepLaws α)
include L E M

/-! ### the counter -/

/-- full(∀α): the counter after an increment is `≥ 2` (hence `≥ 1`, `> 0`, not NaN) once it was `≥ 1` -/
theorem counter_step {i : α} (hi : (1.0 : α) ≤ i) :
    (2.0 : α) ≤ i + (1.0 : α) ∧ (1.0 : α) ≤ i + (1.0 : α) ∧ (0.0 : α) < i + (1.0 : α) := by
  have h0 : (0.0 : α) ≤ i := L.le_tr L.zero_le_one hi
  have hn : NN (i + (1.0 : α)) := E.add_nn_of_nonneg i 1.0 h0 L.zero_le_one
  have h2 : (2.0 : α) ≤ i + (1.0 : α) :=
    L.le_of_beq_of_le (L.beq_symm M.one_add_one)
      (L.mono.add_le_add_right 1.0 i 1.0 hi (L.beq_nnl M.one_add_one) hn)
  exact ⟨h2, L.le_tr L.one_le_two h2, L.lt_of_lt_of_le' L.zero_lt_two h2⟩

/-! ### `mean` -/

include S in
/-- one step of the streaming mean stays between the old mean and the new entry -/
theorem mean_step_between {lo hi m x i : α} (hlo : Spec.Fin lo) (hhi : Spec.Fin hi)
    (hw1 : Spec.Fin (hi - lo)) (hw2 : Spec.Fin (lo - hi)) (hm : lo ≤ m ∧ m ≤ hi) (hx : lo ≤ x ∧ x ≤ hi)
    (h2 : (2.0 : α) ≤ i) : lo ≤ m + (x - m) / i ∧ m + (x - m) / i ≤ hi := by
  have fm : Spec.Fin m := E.fin_of_between L hlo hhi hm.1 hm.2
  have fx : Spec.Fin x := E.fin_of_between L hlo hhi hx.1 hx.2
  have nn := fun {a b : α} (ha : Spec.Fin a) (hb : Spec.Fin b) =>
    L.sub_nn (L.fin_nn' ha) (L.fin_nn' hb) (Or.inl ha)
  have fd : Spec.Fin (x - m) := by
    have u1 : x - m ≤ hi - m := L.mono.sub_le_sub_right _ _ _ hx.2 (nn fx fm) (nn hhi fm)
    have u2 : hi - m ≤ hi - lo := L.mono.sub_le_sub_left _ _ _ hm.1 (nn hhi hlo) (nn hhi fm)
    have l1 : lo - hi ≤ lo - m := L.mono.sub_le_sub_left _ _ _ hm.2 (nn hlo fm) (nn hlo hhi)
    have l2 : lo - m ≤ x - m := L.mono.sub_le_sub_right _ _ _ hx.1 (nn hlo fm) (nn fx fm)
    exact E.fin_of_between L hw2 hw1 (L.le_tr l1 l2) (L.le_tr u1 u2)
  have hipos : (0.0 : α) < i := L.lt_of_lt_of_le' L.zero_lt_two h2
  rcases L.ord.le_total _ _ (L.fin_nn' fm) (L.fin_nn' fx) with hmx | hxm
  · have hd : (0.0 : α) ≤ x - m := L.sub_nonneg_of_le fm hmx
    have hq : (0.0 : α) ≤ (x - m) / i := L.div_nonneg hd hipos (Or.inl fd)
    exact ⟨L.le_tr hm.1 (L.le_add_of_nonneg fm hq), L.le_tr (S.step_le m x i fm fx hmx fd h2) hx.2⟩
  · have hd : x - m ≤ (0.0 : α) := L.sub_nonpos_of_le fm hxm
    have hq : (x - m) / i ≤ (0.0 : α) := L.div_nonpos hd hipos (Or.inl fd)
    exact ⟨L.le_tr hx.1 (S.step_ge m x i fm fx hxm fd h2), L.le_tr (L.add_le_of_nonpos fm hq) hm.2⟩

include S in
/-- the loop of `mean`, started with a counter `≥ 1` and a running mean in `[lo, hi]`, ends that way -/
theorem mean_loop_between {lo hi : α} (hlo : Spec.Fin lo) (hhi : Spec.Fin hi)
    (hw1 : Spec.Fin (hi - lo)) (hw2 : Spec.Fin (lo - hi)) (l : List α)
    (hl : ∀ x ∈ l, lo ≤ x ∧ x ≤ hi) (i m : α) (hi1 : (1.0 : α) ≤ i) (hm : lo ≤ m ∧ m ≤ hi) :
    ∃ i' m', IterStatistics.mean.loop1 l i m = LoopR.done (i', m') ∧ (1.0 : α) ≤ i' ∧ lo ≤ m' ∧ m' ≤ hi := by
  induction l generalizing i m with
  | nil => exact ⟨i, m, by simp [IterStatistics.mean.loop1], hi1, hm.1, hm.2⟩
  | cons a t ih =>
    unfold IterStatistics.mean.loop1
    obtain ⟨c2, c1, _⟩ := counter_step L E M hi1
    exact ih (fun x hx => hl x (List.mem_cons_of_mem _ hx)) _ _ c1
      (mean_step_between L E M S hlo hhi hw1 hw2 hm (hl a (by simp)) c2)

omit E M in
/-- the first step of `mean` is exact: `0.0 + (x − 0.0) / 1.0 == x` -/
theorem mean_first_step {x : α} (hx : NN x) :
    (((0.0 : α) + (x - (0.0 : α)) / (1.0 : α)) == x) = true := by
  have s1 : ((x - (0.0 : α)) == x) = true := L.exact.sub_zero x hx
  have n1 : NN ((x - (0.0 : α)) / (1.0 : α)) :=
    L.div_nn (L.beq_nnl s1) L.one_nn L.one_not_beq_zero (Or.inr L.one_fin)
  have n2 : NN (x / (1.0 : α)) := L.div_nn hx L.one_nn L.one_not_beq_zero (Or.inr L.one_fin)
  have s2 : (((x - (0.0 : α)) / (1.0 : α)) == x) = true :=
    L.beq_tr (L.div_congr_left s1 L.zero_lt_one n1 n2) (L.exact.div_one x hx)
  exact L.beq_tr (L.exact.zero_add _ n1) s2

include S in
/-- the whole loop of `mean` on non-empty data inside `[lo, hi]`: it ends normally with a positive counter and a
    running mean in `[lo, hi]` -/
theorem mean_loop_run {lo hi : α} (hlo : Spec.Fin lo) (hhi : Spec.Fin hi)
    (hw1 : Spec.Fin (hi - lo)) (hw2 : Spec.Fin (lo - hi)) (xs : List α) (hne : xs ≠ [])
    (hl : ∀ x ∈ xs, lo ≤ x ∧ x ≤ hi) :
    ∃ i' m', IterStatistics.mean.loop1 xs (0.0 : α) (0.0 : α) = LoopR.done (i', m') ∧ (0.0 : α) < i' ∧
      lo ≤ m' ∧ m' ≤ hi := by
  match xs, hne with
  | a :: t, _ =>
    have ha := hl a (by simp)
    have hfirst := mean_first_step L (L.le_nnr ha.1)
    have hm0 : lo ≤ (0.0 : α) + (a - (0.0 : α)) / (1.0 : α) ∧
        (0.0 : α) + (a - (0.0 : α)) / (1.0 : α) ≤ hi :=
      ⟨L.le_tr ha.1 (L.beq_ge hfirst), L.le_tr (L.beq_le hfirst) ha.2⟩
    obtain ⟨i', m', e, hi', h1, h2⟩ := mean_loop_between L E M S hlo hhi hw1 hw2 t
      (fun x hx => hl x (List.mem_cons_of_mem _ hx)) (1.0 : α) _ L.one_le_one hm0
    have e0 : IterStatistics.mean.loop1 (a :: t) (0.0 : α) (0.0 : α) =
        IterStatistics.mean.loop1 t ((0.0 : α) + (1.0 : α))
          ((0.0 : α) + (a - (0.0 : α)) / ((0.0 : α) + (1.0 : α))) := rfl
    rw [M.zero_add_one] at e0
    exact ⟨i', m', e0.trans e, L.lt_of_lt_of_le' L.zero_lt_one hi', h1, h2⟩

include S in
/-- rel(StepLaws): for non-empty data inside a finite interval `[lo, hi]` whose width does not overflow, the
    mean is not NaN and lies in `[lo, hi]` -/
theorem mean_between_fl_rel {lo hi : α} (hlo : Spec.Fin lo) (hhi : Spec.Fin hi)
    (hw1 : Spec.Fin (hi - lo)) (hw2 : Spec.Fin (lo - hi)) (xs : List α) (hne : xs ≠ [])
    (hl : ∀ x ∈ xs, lo ≤ x ∧ x ≤ hi) :
    NN (IterStatistics.mean xs) ∧ lo ≤ IterStatistics.mean xs ∧ IterStatistics.mean xs ≤ hi := by
  obtain ⟨i', m', e', hpos, h1, h2⟩ := mean_loop_run L E M S hlo hhi hw1 hw2 xs hne hl
  simp only [IterStatistics.mean, e', hpos, if_true]
  exact ⟨L.le_nnr h1, h1, h2⟩

include S in
/-- rel(StepLaws): for non-empty FINITE data whose range does not overflow (`max − min`, `min − max` finite),
    `mean` is not NaN and `min ≤ mean ≤ max` -/
theorem mean_range_fl_rel (xs : List α) (hne : xs ≠ []) (hfin : ∀ x ∈ xs, Spec.Fin x)
    (hw1 : Spec.Fin (IterStatistics.max xs - IterStatistics.min xs))
    (hw2 : Spec.Fin (IterStatistics.min xs - IterStatistics.max xs)) :
    NN (IterStatistics.mean xs) ∧ IterStatistics.min xs ≤ IterStatistics.mean xs ∧
      IterStatistics.mean xs ≤ IterStatistics.max xs := by
  obtain ⟨m1, M1, hb⟩ := min_max_bracket_fl L xs hne (fun x hx => L.fin_nn' (hfin x hx))
  exact mean_between_fl_rel L E M S (hfin _ m1) (hfin _ M1) hw1 hw2 xs hne hb

/-! ### `variance`, `population_variance`, `std_dev` -/

/-- a value that is NaN or non-negative -/
def NaNOrNonneg (v : α) : Prop := RFun.isNaN v = true ∨ (0.0 : α) ≤ v

omit E M in
theorem nanOrNonneg_of {v : α} (h : NN v → (0.0 : α) ≤ v) : NaNOrNonneg v := by
  rcases L.nn_or_nan v with h1 | h1
  · exact Or.inr (h h1)
  · exact Or.inl h1

omit E M in
/-- full(∀α): a non-NaN quotient of a non-negative numerator by a positive divisor is `≥ 0` (no finiteness
    needed) -/
theorem div_nonneg_of_nn {a c : α} (ha : (0.0 : α) ≤ a) (hc : (0.0 : α) < c) (hn : NN (a / c)) :
    (0.0 : α) ≤ a / c := by
  have hz := L.exact.zero_div c (L.lt_nnr hc) (L.pos_not_beq_zero hc)
  exact L.le_of_beq_of_le (L.beq_symm hz) (L.mono.div_le_div_right _ _ c ha hc (L.beq_nnl hz) hn)

/-- full(∀α): one accumulation step `v + d·d / (i (i − 1))` with `i ≥ 2` keeps "NaN or `≥ 0`" -/
theorem var_step {v d i : α} (hv : NaNOrNonneg v) (h2 : (2.0 : α) ≤ i) :
    NaNOrNonneg (v + (d * d) / (i * (i - (1.0 : α)))) := by
  apply nanOrNonneg_of L
  intro hn
  -- every operand of a non-NaN result is non-NaN
  have nv : NN v := by
    rw [L.nn_iff]; intro h; have := L.add_nan_left ((d * d) / (i * (i - (1.0 : α)))) h
    simp [NN, this] at hn
  have nt : NN ((d * d) / (i * (i - (1.0 : α)))) := by
    rw [L.nn_iff]; intro h; have := L.add_nan_right v h; simp [NN, this] at hn
  have ndd : NN (d * d) := by
    rw [L.nn_iff]; intro h; have := L.div_nan_left (i * (i - (1.0 : α))) h; simp [NN, this] at nt
  have nden : NN (i * (i - (1.0 : α))) := by
    rw [L.nn_iff]; intro h; have := L.div_nan_right (d * d) h; simp [NN, this] at nt
  have ni1 : NN (i - (1.0 : α)) := by
    rw [L.nn_iff]; intro h; have := L.mul_nan_right i h; simp [NN, this] at nden
  have nd : NN d := by
    rw [L.nn_iff]; intro h; have := L.mul_nan_left d h; simp [NN, this] at ndd
  have hv0 : (0.0 : α) ≤ v := by
    rcases hv with h | h
    · simp [NN, h] at nv
    · exact h
  -- the denominator is positive: `0 < 2·(2 − 1) ≤ 2·(i − 1) ≤ i·(i − 1)`
  have nc0 : NN ((2.0 : α) - (1.0 : α)) := by
    rw [L.nn_iff]; intro h
    have := L.mul_nan_right (2.0 : α) h
    have h' := L.lt_nnr M.den_pos
    simp [NN, this] at h'
  have c0 : (0.0 : α) ≤ (2.0 : α) - (1.0 : α) := L.sub_nonneg_of_le L.one_fin L.one_le_two
  have c1 : (2.0 : α) - (1.0 : α) ≤ i - (1.0 : α) := L.mono.sub_le_sub_right _ _ _ h2 nc0 ni1
  have n2 : NN ((2.0 : α) * (i - (1.0 : α))) :=
    L.mul_nn_of_fin_ne_zero L.two_fin (L.pos_not_beq_zero L.zero_lt_two) ni1
  have d1 : (2.0 : α) * ((2.0 : α) - (1.0 : α)) ≤ (2.0 : α) * (i - (1.0 : α)) :=
    L.mono.mul_le_mul_left _ _ _ c1 (L.lt_le L.zero_lt_two) (L.lt_nnr M.den_pos) n2
  have d2 : (2.0 : α) * (i - (1.0 : α)) ≤ i * (i - (1.0 : α)) :=
    L.mono.mul_le_mul_right _ _ _ h2 (L.le_tr c0 c1) n2 nden
  have hden : (0.0 : α) < i * (i - (1.0 : α)) := L.lt_of_lt_of_le' M.den_pos (L.le_tr d1 d2)
  have ht : (0.0 : α) ≤ (d * d) / (i * (i - (1.0 : α))) :=
    div_nonneg_of_nn L (L.sq_nonneg E nd) hden nt
  -- `0 ≤ t == 0 + t ≤ v + t`
  have hz := L.exact.zero_add _ nt
  exact L.le_tr ht (L.le_of_beq_of_le (L.beq_symm hz)
    (L.mono.add_le_add_right _ _ _ hv0 (L.beq_nnl hz) hn))

/-- the loop of `variance` keeps "NaN or `≥ 0`" (counter `≥ 1` at entry) -/
theorem variance_loop_nonneg (l : List α) (i s v : α) (hi : (1.0 : α) ≤ i) (hv : NaNOrNonneg v) :
    ∃ i' s' v', IterStatistics.variance.loop2 l i s v = LoopR.done (i', s', v') ∧ (1.0 : α) ≤ i' ∧
      NaNOrNonneg v' := by
  induction l generalizing i s v with
  | nil => exact ⟨i, s, v, by simp [IterStatistics.variance.loop2], hi, hv⟩
  | cons a t ih =>
    unfold IterStatistics.variance.loop2
    obtain ⟨c2, c1, _⟩ := counter_step L E M hi
    exact ih _ _ _ c1 (var_step L E M hv c2)

/-- the loop of `population_variance` is the same recurrence -/
theorem popvar_loop_nonneg (l : List α) (x i s v : α) (hi : (1.0 : α) ≤ i) (hv : NaNOrNonneg v) :
    ∃ i' s' v', IterStatistics.population_variance.loop2 l x i s v = LoopR.done (i', s', v') ∧
      (1.0 : α) ≤ i' ∧ NaNOrNonneg v' := by
  induction l generalizing x i s v with
  | nil => exact ⟨i, s, v, by simp [IterStatistics.population_variance.loop2], hi, hv⟩
  | cons a t ih =>
    unfold IterStatistics.population_variance.loop2
    obtain ⟨c2, c1, _⟩ := counter_step L E M hi
    exact ih _ _ _ _ c1 (var_step L E M hv c2)

/-- full(∀α; with the literal facts `StreamLits`): `variance` of ANY data is NaN or `≥ 0` -/
theorem variance_nonneg_fl (xs : List α) : NaNOrNonneg (IterStatistics.variance xs) := by
  have key : ∀ (l : List α) (s : α),
      NaNOrNonneg (match IterStatistics.variance.loop2 l (1.0 : α) s (0.0 : α) with
        | LoopR.ret v_ => v_
        | LoopR.hang => panicV
        | LoopR.done (i, sum, variance) =>
          (if ((1.0 : α) < i) then (variance / (i - (1.0 : α))) else (RFun.nan : α))) := by
    intro l s
    obtain ⟨i', s', v', e, hi', hv'⟩ := variance_loop_nonneg L E M l (1.0 : α) s (0.0 : α) L.one_le_one
      (Or.inr L.zero_le_zero)
    rw [e]
    simp only []
    split_ifs with hlt
    · apply nanOrNonneg_of L
      intro hn
      have nv : NN v' := by
        rw [L.nn_iff]; intro h; have := L.div_nan_left (i' - (1.0 : α)) h; simp [NN, this] at hn
      have nd : NN (i' - (1.0 : α)) := by
        rw [L.nn_iff]; intro h; have := L.div_nan_right v' h; simp [NN, this] at hn
      have hv0 : (0.0 : α) ≤ v' := by
        rcases hv' with h | h
        · simp [NN, h] at nv
        · exact h
      exact div_nonneg_of_nn L hv0 (E.sub_pos _ _ hlt nd) hn
    · exact Or.inl L.inf.nan_nan
  match xs with
  | [] => exact key [] (RFun.nan : α)
  | a :: t => exact key t a

/-- full(∀α): `population_variance` of ANY data is NaN or `≥ 0` -/
theorem population_variance_nonneg_fl (xs : List α) :
    NaNOrNonneg (IterStatistics.population_variance xs) := by
  match xs with
  | [] => exact Or.inl (by simp [IterStatistics.population_variance, listNext, L.inf.nan_nan])
  | a :: t =>
    simp only [IterStatistics.population_variance, listNext]
    split_ifs with hnan
    · exact Or.inl L.inf.nan_nan
    · obtain ⟨i', s', v', e, hi', hv'⟩ := popvar_loop_nonneg L E M t a (1.0 : α) a (0.0 : α) L.one_le_one
        (Or.inr L.zero_le_zero)
      rw [e]
      apply nanOrNonneg_of L
      intro hn
      have nv : NN v' := by
        rw [L.nn_iff]; intro h; have := L.div_nan_left i' h; simp [NN, this] at hn
      have hv0 : (0.0 : α) ≤ v' := by
        rcases hv' with h | h
        · simp [NN, h] at nv
        · exact h
      exact div_nonneg_of_nn L hv0 (L.lt_of_lt_of_le' L.zero_lt_one hi') hn

omit E M in
/-- full(∀α): `sqrt` of a non-negative value is non-negative -/
theorem sqrt_nonneg_fl {a : α} (h : (0.0 : α) ≤ a) : (0.0 : α) ≤ RFun.sqrt a :=
  L.le_of_beq_of_le (L.beq_symm L.exact.sqrt_zero) (L.mono.sqrt_le_sqrt _ _ L.zero_le_zero h)

/-- full(∀α): when `variance` is not NaN, `std_dev` is `≥ 0` (and not NaN) -/
theorem std_dev_nonneg_fl (xs : List α) (h : NN (IterStatistics.variance xs)) :
    (0.0 : α) ≤ IterStatistics.std_dev xs := by
  rcases variance_nonneg_fl L E M xs with h1 | h1
  · simp [NN, h1] at h
  · exact sqrt_nonneg_fl L h1

/-! ### `covariance(x, x)`: the streaming comoment `Σ (x − mean_new)·(x − mean_old)` -/

include S in
/-- one step of the comoment of a sample with itself: with the running mean `m ∈ [lo, hi]`, the new entry
    `x ∈ [lo, hi]` and a divisor `i ≥ 2`, the increment `(x − m')·(x − m)` (`m' = m + (x − m)/i`) is `≥ 0` when it
    is not NaN: `m'` lies between `m` and `x` (`StepLaws`), so both factors have the same sign -/
theorem comoment_incr_nonneg {lo hi m x i : α} (hlo : Spec.Fin lo) (hhi : Spec.Fin hi)
    (hw1 : Spec.Fin (hi - lo)) (hw2 : Spec.Fin (lo - hi)) (hm : lo ≤ m ∧ m ≤ hi) (hx : lo ≤ x ∧ x ≤ hi)
    (h2 : (2.0 : α) ≤ i) (hn : NN ((x - (m + (x - m) / i)) * (x - m))) :
    (0.0 : α) ≤ (x - (m + (x - m) / i)) * (x - m) := by
  have fm : Spec.Fin m := E.fin_of_between L hlo hhi hm.1 hm.2
  have fx : Spec.Fin x := E.fin_of_between L hlo hhi hx.1 hx.2
  obtain ⟨b1, b2⟩ := mean_step_between L E M S hlo hhi hw1 hw2 hm hx h2
  have fm' : Spec.Fin (m + (x - m) / i) := E.fin_of_between L hlo hhi b1 b2
  have nn := fun {a b : α} (ha : Spec.Fin a) (hb : Spec.Fin b) =>
    L.sub_nn (L.fin_nn' ha) (L.fin_nn' hb) (Or.inl ha)
  have fd : Spec.Fin (x - m) := by
    have u1 : x - m ≤ hi - m := L.mono.sub_le_sub_right _ _ _ hx.2 (nn fx fm) (nn hhi fm)
    have u2 : hi - m ≤ hi - lo := L.mono.sub_le_sub_left _ _ _ hm.1 (nn hhi hlo) (nn hhi fm)
    have l1 : lo - hi ≤ lo - m := L.mono.sub_le_sub_left _ _ _ hm.2 (nn hlo fm) (nn hlo hhi)
    have l2 : lo - m ≤ x - m := L.mono.sub_le_sub_right _ _ _ hx.1 (nn hlo fm) (nn fx fm)
    exact E.fin_of_between L hw2 hw1 (L.le_tr l1 l2) (L.le_tr u1 u2)
  rcases L.ord.le_total _ _ (L.fin_nn' fm) (L.fin_nn' fx) with hmx | hxm
  · have h1 : (0.0 : α) ≤ x - (m + (x - m) / i) := L.sub_nonneg_of_le fm' (S.step_le m x i fm fx hmx fd h2)
    exact L.mul_nonneg_gen E h1 (L.sub_nonneg_of_le fm hmx) hn
  · have h1 : x - (m + (x - m) / i) ≤ (0.0 : α) := L.sub_nonpos_of_le fm' (S.step_ge m x i fm fx hxm fd h2)
    exact L.mul_nonpos_nonpos E h1 (L.sub_nonpos_of_le fm hxm) hn

include S in
/-- the loop of `covariance(xs, xs)` run in lockstep on the same list: both running means stay equal and inside
    `[lo, hi]`, the comoment stays NaN-or-nonnegative, the second iterator is consumed -/
theorem cov_self_loop {lo hi : α} (hlo : Spec.Fin lo) (hhi : Spec.Fin hi)
    (hw1 : Spec.Fin (hi - lo)) (hw2 : Spec.Fin (lo - hi)) (l : List α)
    (hl : ∀ x ∈ l, lo ≤ x ∧ x ≤ hi) (n m c : α) (hn1 : (1.0 : α) ≤ n) (hm : lo ≤ m ∧ m ≤ hi)
    (hc : NaNOrNonneg c) :
    ∃ n' m' c', IterStatistics.covariance.loop1 l l n m m c = LoopR.done ([], n', m', m', c') ∧
      (1.0 : α) ≤ n' ∧ NaNOrNonneg c' := by
  induction l generalizing n m c with
  | nil => exact ⟨n, m, c, by simp [IterStatistics.covariance.loop1], hn1, hc⟩
  | cons a t ih =>
    unfold IterStatistics.covariance.loop1
    simp only [listNext]
    obtain ⟨c2, c1, _⟩ := counter_step L E M hn1
    have ha := hl a (by simp)
    refine ih (fun x hx => hl x (List.mem_cons_of_mem _ hx)) _ _ _ c1
      (mean_step_between L E M S hlo hhi hw1 hw2 hm ha c2) ?_
    apply nanOrNonneg_of L
    intro hnn
    have nc : NN c := by
      rw [L.nn_iff]; intro h; have := L.add_nan_left
        ((a - (m + (a - m) / (n + (1.0 : α)))) * (a - m)) h
      simp [NN, this] at hnn
    have nt : NN ((a - (m + (a - m) / (n + (1.0 : α)))) * (a - m)) := by
      rw [L.nn_iff]; intro h; have := L.add_nan_right c h; simp [NN, this] at hnn
    have hc0 : (0.0 : α) ≤ c := by
      rcases hc with h | h
      · simp [NN, h] at nc
      · exact h
    have ht := comoment_incr_nonneg L E M S hlo hhi hw1 hw2 hm ha c2 nt
    have hz := L.exact.zero_add _ nt
    exact L.le_tr ht (L.le_of_beq_of_le (L.beq_symm hz)
      (L.mono.add_le_add_right _ _ _ hc0 (L.beq_nnl hz) hnn))

include S in
/-- rel(StepLaws): the sample covariance of a sample with ITSELF, `covariance(xs, xs)` — the streaming comoment
    `Σ (x − mean_new)·(x − mean_old)` — is NaN or `≥ 0` for data inside a finite interval whose width does not
    overflow (each term is a product of two differences of the same sign) -/
theorem covariance_self_nonneg_fl_rel {lo hi : α} (hlo : Spec.Fin lo) (hhi : Spec.Fin hi)
    (hw1 : Spec.Fin (hi - lo)) (hw2 : Spec.Fin (lo - hi)) (xs : List α)
    (hl : ∀ x ∈ xs, lo ≤ x ∧ x ≤ hi) : NaNOrNonneg (IterStatistics.covariance xs xs) := by
  match xs with
  | [] =>
    refine Or.inl ?_
    have h10 : ¬ ((1.0 : α) < (0.0 : α)) := L.le_not_lt L.zero_le_one
    simp [IterStatistics.covariance, IterStatistics.covariance.loop1, listNext, h10, L.inf.nan_nan]
  | a :: t =>
    have ha := hl a (by simp)
    have hfa : Spec.Fin a := E.fin_of_between L hlo hhi ha.1 ha.2
    have hfirst := mean_first_step L (L.fin_nn' hfa)
    have hm0 : lo ≤ (0.0 : α) + (a - (0.0 : α)) / (1.0 : α) ∧
        (0.0 : α) + (a - (0.0 : α)) / (1.0 : α) ≤ hi :=
      ⟨L.le_tr ha.1 (L.beq_ge hfirst), L.le_tr (L.beq_le hfirst) ha.2⟩
    -- the first comoment term `(a − mean₁)·(a − 0.0)` with `mean₁ == a` is an IEEE zero
    have hc0 : NaNOrNonneg ((0.0 : α) +
        (a - ((0.0 : α) + (a - (0.0 : α)) / (1.0 : α))) * (a - (0.0 : α))) := by
      have fm1 : Spec.Fin ((0.0 : α) + (a - (0.0 : α)) / (1.0 : α)) := L.fin_congr E hfirst hfa
      have n1 : NN (a - ((0.0 : α) + (a - (0.0 : α)) / (1.0 : α))) :=
        L.sub_nn (L.fin_nn' hfa) (L.fin_nn' fm1) (Or.inl hfa)
      have z1 : ((a - ((0.0 : α) + (a - (0.0 : α)) / (1.0 : α))) == (0.0 : α)) = true :=
        L.beq_tr (L.exact.sub_congr a a _ a (L.beq_rfl' (L.fin_nn' hfa)) hfirst n1) (L.exact.sub_self a hfa)
      have fa0 : Spec.Fin (a - (0.0 : α)) := L.fin_congr E (L.exact.sub_zero a (L.fin_nn' hfa)) hfa
      have n2 : NN ((a - ((0.0 : α) + (a - (0.0 : α)) / (1.0 : α))) * (a - (0.0 : α))) :=
        L.mul_nn (L.fin_congr E z1 L.zero_fin) fa0
      have z2 : (((a - ((0.0 : α) + (a - (0.0 : α)) / (1.0 : α))) * (a - (0.0 : α))) == (0.0 : α)) = true :=
        L.beq_tr (L.exact.mul_congr _ _ _ _ z1 (L.beq_rfl' (L.fin_nn' fa0)) n2) (L.exact.zero_mul _ fa0)
      exact Or.inr (L.beq_ge (L.beq_tr (L.exact.zero_add _ n2) z2))
    obtain ⟨n', m', c', e, hn', hc'⟩ := cov_self_loop L E M S hlo hhi hw1 hw2 t
      (fun x hx => hl x (List.mem_cons_of_mem _ hx)) (1.0 : α) _ _ L.one_le_one hm0 hc0
    have e0 : IterStatistics.covariance.loop1 (a :: t) (a :: t) (0.0 : α) (0.0 : α) (0.0 : α) (0.0 : α) =
        IterStatistics.covariance.loop1 t t ((0.0 : α) + (1.0 : α))
          ((0.0 : α) + (a - (0.0 : α)) / ((0.0 : α) + (1.0 : α)))
          ((0.0 : α) + (a - (0.0 : α)) / ((0.0 : α) + (1.0 : α)))
          ((0.0 : α) + (a - ((0.0 : α) + (a - (0.0 : α)) / ((0.0 : α) + (1.0 : α)))) * (a - (0.0 : α))) := rfl
    rw [M.zero_add_one] at e0
    have e' := e0.trans e
    simp only [IterStatistics.covariance, e', listNext, Option.isSome_none, Bool.false_eq_true, if_false]
    split_ifs with hlt
    · apply nanOrNonneg_of L
      intro hnn
      have nv : NN c' := by
        rw [L.nn_iff]; intro h; have := L.div_nan_left (n' - (1.0 : α)) h; simp [NN, this] at hnn
      have nd : NN (n' - (1.0 : α)) := by
        rw [L.nn_iff]; intro h; have := L.div_nan_right c' h; simp [NN, this] at hnn
      have hv0 : (0.0 : α) ≤ c' := by
        rcases hc' with h | h
        · simp [NN, h] at nv
        · exact h
      exact div_nonneg_of_nn L hv0 (E.sub_pos _ _ hlt nd) hnn
    · exact Or.inl L.inf.nan_nan

/-! ### `quadratic_mean` -/

omit L E M in
/-- the loop of `quadratic_mean` is the loop of `mean` on the squares -/
theorem quadratic_loop_eq (l : List α) (i m : α) :
    IterStatistics.quadratic_mean.loop1 l i m = IterStatistics.mean.loop1 (l.map (fun x => x * x)) i m := by
  induction l generalizing i m with
  | nil => simp [IterStatistics.quadratic_mean.loop1, IterStatistics.mean.loop1]
  | cons a t ih =>
    unfold IterStatistics.quadratic_mean.loop1
    rw [List.map_cons]
    conv_rhs => unfold IterStatistics.mean.loop1
    exact ih _ _

include S in
/-- rel(StepLaws): for non-empty data whose squares are finite and whose range of squares does not overflow,
    `quadratic_mean` is `≥ 0` (hence not NaN), and it is `sqrt` of the streaming mean of the squares, a value in
    `[min x², max x²]` -/
theorem quadratic_mean_nonneg_fl_rel (xs : List α) (hne : xs ≠ [])
    (hfin : ∀ x ∈ xs, Spec.Fin (x * x))
    (hw1 : Spec.Fin (IterStatistics.max (xs.map (fun x => x * x)) - IterStatistics.min (xs.map (fun x => x * x))))
    (hw2 : Spec.Fin (IterStatistics.min (xs.map (fun x => x * x)) - IterStatistics.max (xs.map (fun x => x * x)))) :
    (0.0 : α) ≤ IterStatistics.quadratic_mean xs ∧
    IterStatistics.quadratic_mean xs = RFun.sqrt (IterStatistics.mean (xs.map (fun x => x * x))) ∧
    IterStatistics.min (xs.map (fun x => x * x)) ≤ IterStatistics.mean (xs.map (fun x => x * x)) ∧
    IterStatistics.mean (xs.map (fun x => x * x)) ≤ IterStatistics.max (xs.map (fun x => x * x)) := by
  have hne' : xs.map (fun x => x * x) ≠ [] := by simpa using hne
  have hfin' : ∀ y ∈ xs.map (fun x => x * x), Spec.Fin y := by
    intro y hy; obtain ⟨x, hx, rfl⟩ := List.mem_map.1 hy; exact hfin x hx
  obtain ⟨m1, M1, hb⟩ := min_max_bracket_fl L _ hne' (fun x hx => L.fin_nn' (hfin' x hx))
  obtain ⟨i', m', e', hpos, h1, h2⟩ :=
    mean_loop_run L E M S (hfin' _ m1) (hfin' _ M1) hw1 hw2 _ hne' hb
  -- the minimum of the squares is a square, hence `≥ 0`
  have hmin0 : (0.0 : α) ≤ IterStatistics.min (xs.map (fun x => x * x)) := by
    obtain ⟨x, hx, e⟩ := List.mem_map.1 m1
    rw [← e]
    have nx : NN x := by
      rw [L.nn_iff]; intro h
      have := L.mul_nan_left x h
      have h' := L.fin_nn' (hfin x hx)
      simp [NN, this] at h'
    exact L.sq_nonneg E nx
  have hq : IterStatistics.quadratic_mean xs = RFun.sqrt m' := by
    simp only [IterStatistics.quadratic_mean, quadratic_loop_eq, e', hpos, if_true]
  have hm : IterStatistics.mean (xs.map (fun x => x * x)) = m' := by
    simp only [IterStatistics.mean, e', hpos, if_true]
  rw [hq, hm]
  exact ⟨sqrt_nonneg_fl L (L.le_tr hmin0 h1), rfl, h1, h2⟩

end laws

/-! ### `abs_min`, `abs_max` -/

section absminmax
variable (L : FloatLaws α) (E : ExtraLaws α)
include L E

/-- full(∀α): `abs_min` of non-empty NaN-free data is `|x|` for an entry `x` and is `≤ |y|` for every entry -/
theorem abs_min_exact_fl (xs : List α) (hne : xs ≠ []) (hnn : ∀ x ∈ xs, NN x) :
    (∃ x ∈ xs, IterStatistics.abs_min xs = RFun.abs x) ∧
    ∀ y ∈ xs, IterStatistics.abs_min xs ≤ RFun.abs y := by
  have habs : ∀ x ∈ xs, RFun.isNaN (RFun.abs x) = false := fun x hx => by
    rw [E.abs_nan]; exact hnn x hx
  obtain ⟨h1, h2⟩ := abs_min_exact (ltLaws_of_floatLaws L) xs hne habs
  obtain ⟨x, hx, e⟩ := List.mem_map.1 h1
  refine ⟨⟨x, hx, e.symm⟩, fun y hy => ?_⟩
  have hr : NN (IterStatistics.abs_min xs) := by rw [← e]; exact habs x hx
  exact L.le_of_not_lt (habs y hy) hr (h2 y hy)

/-- full(∀α): `abs_max` of non-empty NaN-free data is `|x|` for an entry `x` and is `≥ |y|` for every entry -/
theorem abs_max_exact_fl (xs : List α) (hne : xs ≠ []) (hnn : ∀ x ∈ xs, NN x) :
    (∃ x ∈ xs, IterStatistics.abs_max xs = RFun.abs x) ∧
    ∀ y ∈ xs, RFun.abs y ≤ IterStatistics.abs_max xs := by
  have habs : ∀ x ∈ xs, RFun.isNaN (RFun.abs x) = false := fun x hx => by
    rw [E.abs_nan]; exact hnn x hx
  obtain ⟨h1, h2⟩ := abs_max_exact (ltLaws_of_floatLaws L) xs hne habs
  obtain ⟨x, hx, e⟩ := List.mem_map.1 h1
  refine ⟨⟨x, hx, e.symm⟩, fun y hy => ?_⟩
  have hr : NN (IterStatistics.abs_max xs) := by rw [← e]; exact habs x hx
  exact L.le_of_not_lt hr (habs y hy) (h2 y hy)

/-- full(∀α): `abs_min`, `abs_max` of non-empty NaN-free data are `≥ 0` -/
theorem abs_min_nonneg_fl (xs : List α) (hne : xs ≠ []) (hnn : ∀ x ∈ xs, NN x) :
    (0.0 : α) ≤ IterStatistics.abs_min xs ∧ (0.0 : α) ≤ IterStatistics.abs_max xs := by
  have key : ∀ x : α, NN x → (0.0 : α) ≤ RFun.abs x := by
    intro x hx
    rcases L.ord.le_total _ _ L.zero_nn hx with h | h
    · exact L.le_tr h (L.beq_ge (E.abs_of_nonneg x h))
    · exact L.le_tr (L.neg_nonneg h) (L.beq_ge (E.abs_of_nonpos x h))
  obtain ⟨⟨x, hx, e⟩, _⟩ := abs_min_exact_fl L E xs hne hnn
  obtain ⟨⟨y, hy, e'⟩, _⟩ := abs_max_exact_fl L E xs hne hnn
  exact ⟨e ▸ key x (hnn x hx), e' ▸ key y (hnn y hy)⟩

end absminmax
end Statrs.Props.C13
