/-
  C13 (float level) — `FloatStats.lean` INSTANTIATED at the executable carrier IEEE `Float` with
  `floatLaws_float`, `extraLaws_float`, `streamLits_float`, `stepLaws_float` (all proved): unconditional
  statements about `f64` data, plus the kernel-evaluated witnesses showing that the no-overflow premises are
  needed:
    * `mean_overflow_counterexample` — `mean [-1e308, 1e308] = +∞ > max` (finite NaN-free data);
    * `mean_nan_counterexample`      — `mean [-1e308, 1e308, 0.0]` is NaN (finite NaN-free data).
-/
import Statrs.Props.C13.FloatStepLaws
namespace Statrs.Props.C13
open Statrs Statrs.Gen Statrs.Spec Statrs.Props.Common

private abbrev L := floatLaws_float
private abbrev E := extraLaws_float
private abbrev M := streamLits_float
private abbrev S := stepLaws_float

/-- full(Float): for non-empty `f64` data inside a finite interval `[lo, hi]` whose width does not overflow, the
    streaming `mean` is not NaN and lies in `[lo, hi]` -/
theorem mean_between_float {lo hi : Float} (hlo : Spec.Fin lo) (hhi : Spec.Fin hi)
    (hw1 : Spec.Fin (hi - lo)) (hw2 : Spec.Fin (lo - hi)) (xs : List Float) (hne : xs ≠ [])
    (hl : ∀ x ∈ xs, lo ≤ x ∧ x ≤ hi) :
    NN (IterStatistics.mean xs) ∧ lo ≤ IterStatistics.mean xs ∧ IterStatistics.mean xs ≤ hi :=
  mean_between_fl_rel L E M S hlo hhi hw1 hw2 xs hne hl

/-- full(Float): for non-empty finite `f64` data whose range does not overflow, `mean` is not NaN and
    `min ≤ mean ≤ max` — EXACTLY, no ulp slack -/
theorem mean_range_float (xs : List Float) (hne : xs ≠ []) (hfin : ∀ x ∈ xs, Spec.Fin x)
    (hw1 : Spec.Fin (IterStatistics.max xs - IterStatistics.min xs))
    (hw2 : Spec.Fin (IterStatistics.min xs - IterStatistics.max xs)) :
    NN (IterStatistics.mean xs) ∧ IterStatistics.min xs ≤ IterStatistics.mean xs ∧
      IterStatistics.mean xs ≤ IterStatistics.max xs :=
  mean_range_fl_rel L E M S xs hne hfin hw1 hw2

/-- full(Float): `variance` of ANY `f64` data is NaN or `≥ 0` (never negative) -/
theorem variance_nonneg_float (xs : List Float) : NaNOrNonneg (IterStatistics.variance xs) :=
  variance_nonneg_fl L E M xs

/-- full(Float): `population_variance` of ANY `f64` data is NaN or `≥ 0` -/
theorem population_variance_nonneg_float (xs : List Float) :
    NaNOrNonneg (IterStatistics.population_variance xs) := population_variance_nonneg_fl L E M xs

/-- full(Float): when `variance` is not NaN, `std_dev` is `≥ 0` -/
theorem std_dev_nonneg_float (xs : List Float) (h : NN (IterStatistics.variance xs)) :
    (0.0 : Float) ≤ IterStatistics.std_dev xs := std_dev_nonneg_fl L E M xs h

/-- full(Float): the sample covariance of a sample with itself, `covariance(xs, xs)` (the streaming comoment
    `Σ (x − mean_new)·(x − mean_old)`), is NaN or `≥ 0` for `f64` data inside a finite interval whose width does
    not overflow -/
theorem covariance_self_nonneg_float {lo hi : Float} (hlo : Spec.Fin lo) (hhi : Spec.Fin hi)
    (hw1 : Spec.Fin (hi - lo)) (hw2 : Spec.Fin (lo - hi)) (xs : List Float)
    (hl : ∀ x ∈ xs, lo ≤ x ∧ x ≤ hi) : NaNOrNonneg (IterStatistics.covariance xs xs) :=
  covariance_self_nonneg_fl_rel L E M S hlo hhi hw1 hw2 xs hl

/-- full(Float): `quadratic_mean ≥ 0` (not NaN) for non-empty data whose squares are finite and whose range of
    squares does not overflow; it is `sqrt` of the streaming mean of the squares, which lies in
    `[min x², max x²]` -/
theorem quadratic_mean_nonneg_float (xs : List Float) (hne : xs ≠ [])
    (hfin : ∀ x ∈ xs, Spec.Fin (x * x))
    (hw1 : Spec.Fin (IterStatistics.max (xs.map (fun x => x * x)) - IterStatistics.min (xs.map (fun x => x * x))))
    (hw2 : Spec.Fin (IterStatistics.min (xs.map (fun x => x * x)) - IterStatistics.max (xs.map (fun x => x * x)))) :
    (0.0 : Float) ≤ IterStatistics.quadratic_mean xs ∧
    IterStatistics.quadratic_mean xs = RFun.sqrt (IterStatistics.mean (xs.map (fun x => x * x))) ∧
    IterStatistics.min (xs.map (fun x => x * x)) ≤ IterStatistics.mean (xs.map (fun x => x * x)) ∧
    IterStatistics.mean (xs.map (fun x => x * x)) ≤ IterStatistics.max (xs.map (fun x => x * x)) :=
  quadratic_mean_nonneg_fl_rel L E M S xs hne hfin hw1 hw2

/-- full(Float): `abs_min` / `abs_max` of non-empty NaN-free `f64` data are `|x|` of an entry and bound every
    `|y|`; both are `≥ 0` -/
theorem abs_min_max_exact_float (xs : List Float) (hne : xs ≠ []) (hnn : ∀ x ∈ xs, NN x) :
    ((∃ x ∈ xs, IterStatistics.abs_min xs = RFun.abs x) ∧ ∀ y ∈ xs, IterStatistics.abs_min xs ≤ RFun.abs y) ∧
    ((∃ x ∈ xs, IterStatistics.abs_max xs = RFun.abs x) ∧ ∀ y ∈ xs, RFun.abs y ≤ IterStatistics.abs_max xs) ∧
    (0.0 : Float) ≤ IterStatistics.abs_min xs ∧ (0.0 : Float) ≤ IterStatistics.abs_max xs :=
  ⟨abs_min_exact_fl L E xs hne hnn, abs_max_exact_fl L E xs hne hnn, abs_min_nonneg_fl L E xs hne hnn⟩

/-! ### witnesses -/

set_option maxRecDepth 100000 in
set_option exponentiation.threshold 400 in
/-- counterexample: the finite NaN-free data `[-1e308, 1e308]` has `mean = +∞ > max`: the second step computes
    `1e308 − (−1e308) = +∞` -/
theorem mean_overflow_counterexample :
    RFun.isInf (IterStatistics.mean ([-1e308, 1e308] : List Float)) = true ∧
    IterStatistics.max ([-1e308, 1e308] : List Float) < IterStatistics.mean ([-1e308, 1e308] : List Float) := by
  decide

set_option maxRecDepth 100000 in
set_option exponentiation.threshold 400 in
/-- counterexample: the finite NaN-free data `[-1e308, 1e308, 0.0]` has a NaN `mean`: after the overflow the
    third step computes `+∞ + (0.0 − ∞)/3 = ∞ − ∞` -/
theorem mean_nan_counterexample :
    RFun.isNaN (IterStatistics.mean ([-1e308, 1e308, 0.0] : List Float)) = true := by
  decide

set_option maxRecDepth 100000 in
set_option exponentiation.threshold 400 in
/-- non-vacuity: the premises of `mean_range_float` hold for ordinary data, and the conclusion is what the kernel
    evaluates -/
example : IterStatistics.min ([1.0, 2.0, 4.0] : List Float) ≤ IterStatistics.mean ([1.0, 2.0, 4.0] : List Float) ∧
    IterStatistics.mean ([1.0, 2.0, 4.0] : List Float) ≤ IterStatistics.max ([1.0, 2.0, 4.0] : List Float) :=
  (mean_range_float _ (by decide) (by decide) (by decide) (by decide)).2

end Statrs.Props.C13
