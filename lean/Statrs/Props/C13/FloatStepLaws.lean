/-
  C13 (float level) — `StepLaws Float` and `StreamLits Float`: the two premise structures of `FloatStats.lean`
  hold for Lean's IEEE `Float` (`Float.Model`).  `StreamLits` is three kernel evaluations; `StepLaws` is the
  rounding fact `RN(RN(x − m)/i) ≤ x − m` for `i ≥ 2` (`Draft/Lemmas/FloatModelStep.lean`) lifted through
  `Rounds`: a streaming-mean step with a divisor `≥ 2` (finite or `+∞`) never overshoots the new entry.
-/
import Statrs.Props.C13.FloatStats
import Statrs.Lemmas.FloatModelStep
import Statrs.Props.Common.FloatLawsFloat_Extra
import Statrs.Inst.Float
namespace Statrs.Props.C13
open Statrs Statrs.Gen Statrs.Spec Statrs.Props.Common Statrs.Lemmas.FloatModel
open Float.Model
open Float.Model.UnpackedFloat (Sign)

private abbrev L := floatLaws_float
private abbrev E := extraLaws_float

/-- full(Float): the literal facts -/
theorem streamLits_float : StreamLits Float where
  zero_add_one := by decide
  one_add_one := by decide
  den_pos := by decide

private theorem fin64_eq_of_fz {r : UF} (h : FZ (fin64 r)) : fin64 r = r := by
  rcases r with s | _ | s | ⟨s, m, e, hm⟩
  · rfl
  · rfl
  · rfl
  · simp only [fin64] at h ⊢
    split_ifs at h ⊢ with hbig
    · exact absurd h (by simp [FZ])
    · rfl

private theorem fz_of_fin {x : Float} (h : Spec.Fin x) : FZ (U x) := (fz_iff _).2 h

private theorem U_two : U (2.0 : Float) = .finite .positive (2 ^ 52) (-51) (by decide) := by decide

private theorem val_U_two : val (U (2.0 : Float)) = 2 := by
  rw [U_two]; simp only [val, sgn, one_mul]
  rw [show ((2 ^ 52 : ℕ) : ℝ) = (2 : ℝ) ^ (52 : ℤ) by norm_num, ← zpow_add₀ (by norm_num : (2 : ℝ) ≠ 0)]
  norm_num

/-- the difference of two finite floats, when finite, has as value the rounding of the real difference -/
private theorem val_sub {x m : Float} (hx : Spec.Fin x) (hm : Spec.Fin m) (hd : Spec.Fin (x - m)) :
    RNv (val (U x) - val (U m)) (val (U (x - m))) := by
  have hr := usub_rounds (fz_of_fin hx) (fz_of_fin hm) (canon_U x) (canon_U m)
  have hfz : FZ (U (x - m)) := fz_of_fin hd
  rw [U_sub'] at hfz ⊢
  rw [fin64_eq_of_fz hfz]
  exact hr.2.2

/-- the quotient of a finite float by a finite float `≥ 2`, when finite, has as value the rounding of the real
    quotient, and the divisor's value is `≥ 2` -/
private theorem val_div {d i : Float} (hd : Spec.Fin d) (hi : Spec.Fin i) (h2 : (2.0 : Float) ≤ i)
    (hq : Spec.Fin (d / i)) :
    2 ≤ val (U i) ∧ RNv (val (U d) / val (U i)) (val (U (d / i))) := by
  have hfi := fz_of_fin hi
  have hv : 2 ≤ val (U i) := by
    have := (le_iff_val (by rw [U_two]; trivial) hfi (canon_U _) (canon_U i)).1 ((le_def _ _).1 h2)
    rwa [val_U_two] at this
  refine ⟨hv, ?_⟩
  have hfz : FZ (U (d / i)) := fz_of_fin hq
  rw [U_div'] at hfz ⊢
  rw [fin64_eq_of_fz hfz]
  rcases hI : U i with s | _ | s | ⟨s, m, e, hm⟩
  · rw [hI] at hfi; exact absurd hfi (by simp [FZ])
  · rw [hI] at hfi; exact absurd hfi (by simp [FZ])
  · rw [hI] at hv; simp [val] at hv; linarith
  · exact (udiv_rounds (fz_of_fin hd) s m e hm).2.2

/-- the sum of two finite floats compared with a finite float through the real values -/
private theorem add_le_of_val {m q x : Float} (hm : Spec.Fin m) (hq : Spec.Fin q) (hx : Spec.Fin x)
    (h : val (U m) + val (U q) ≤ val (U x)) : m + q ≤ x := by
  rw [le_def, U_add']
  have hr := uadd_rounds (fz_of_fin hm) (fz_of_fin hq) (canon_U m) (canon_U q)
  have := fin64_mono (rounds_le hr (Rounds.self (fz_of_fin hx) (canon_U x)) h)
  rwa [fin64_of_rep (rep_U x)] at this

private theorem le_add_of_val {m q x : Float} (hm : Spec.Fin m) (hq : Spec.Fin q) (hx : Spec.Fin x)
    (h : val (U x) ≤ val (U m) + val (U q)) : x ≤ m + q := by
  rw [le_def, U_add']
  have hr := uadd_rounds (fz_of_fin hm) (fz_of_fin hq) (canon_U m) (canon_U q)
  have := fin64_mono (rounds_le (Rounds.self (fz_of_fin hx) (canon_U x)) hr h)
  rwa [fin64_of_rep (rep_U x)] at this

private theorem val_le_of_le {a b : Float} (ha : Spec.Fin a) (hb : Spec.Fin b) (h : a ≤ b) :
    val (U a) ≤ val (U b) :=
  (le_iff_val (fz_of_fin ha) (fz_of_fin hb) (canon_U a) (canon_U b)).1 ((le_def _ _).1 h)

/-- full(Float): `m ≤ x` finite, `x − m` finite, `i ≥ 2` ⇒ `m + (x − m) / i ≤ x` -/
theorem step_le_float (m x i : Float) (hm : Spec.Fin m) (hx : Spec.Fin x) (hmx : m ≤ x)
    (hd : Spec.Fin (x - m)) (h2 : (2.0 : Float) ≤ i) : m + (x - m) / i ≤ x := by
  have hipos : (0.0 : Float) < i := L.lt_of_lt_of_le' L.zero_lt_two h2
  have hd0 : (0.0 : Float) ≤ x - m := L.sub_nonneg_of_le hm hmx
  cases hinf : RFun.isInf i with
  | true =>
    -- an infinite divisor: the increment is a zero
    have hq : (((x - m) / i) == (0.0 : Float)) = true := L.nan.div_inf _ _ hd hinf
    have hs : NN (m + (x - m) / i) := L.add_nn (L.fin_nn' hm) (L.beq_nnl hq) (Or.inl hm)
    have := L.exact.add_congr m m _ _ (L.beq_rfl' (L.fin_nn' hm)) hq hs
    exact L.le_tr (L.beq_le (L.beq_tr this (L.exact.add_zero m (L.fin_nn' hm)))) hmx
  | false =>
    have hi : Spec.Fin i := L.fin_of (L.le_nnr h2) hinf
    -- `0 ≤ (x − m)/i ≤ (x − m)/1 == x − m`: the quotient is finite
    have hq0 : (0.0 : Float) ≤ (x - m) / i := L.div_nonneg hd0 hipos (Or.inl hd)
    have hq1 : (x - m) / i ≤ x - m := by
      have n1 : NN ((x - m) / (1.0 : Float)) :=
        L.div_nn (L.fin_nn' hd) L.one_nn L.one_not_beq_zero (Or.inl hd)
      exact L.le_of_le_of_beq (L.mono.div_le_div_left _ _ _ L.zero_lt_one
        (L.le_tr L.one_le_two h2) hd0 n1 (L.le_nnr hq0)) (L.exact.div_one _ (L.fin_nn' hd))
    have hq : Spec.Fin ((x - m) / i) := E.fin_of_between L L.zero_fin hd hq0 hq1
    obtain ⟨hv, hQ⟩ := val_div hd hi h2 hq
    have hD := val_sub hx hm hd
    have hy : 0 ≤ val (U x) - val (U m) := by have := val_le_of_le hm hx hmx; linarith
    have := rnv_div_le hy hD hv hQ
    exact add_le_of_val hm hq hx (by linarith)

/-- full(Float): `x ≤ m` finite, `x − m` finite, `i ≥ 2` ⇒ `x ≤ m + (x − m) / i` -/
theorem step_ge_float (m x i : Float) (hm : Spec.Fin m) (hx : Spec.Fin x) (hxm : x ≤ m)
    (hd : Spec.Fin (x - m)) (h2 : (2.0 : Float) ≤ i) : x ≤ m + (x - m) / i := by
  have hipos : (0.0 : Float) < i := L.lt_of_lt_of_le' L.zero_lt_two h2
  have hd0 : x - m ≤ (0.0 : Float) := L.sub_nonpos_of_le hm hxm
  cases hinf : RFun.isInf i with
  | true =>
    have hq : (((x - m) / i) == (0.0 : Float)) = true := L.nan.div_inf _ _ hd hinf
    have hs : NN (m + (x - m) / i) := L.add_nn (L.fin_nn' hm) (L.beq_nnl hq) (Or.inl hm)
    have := L.exact.add_congr m m _ _ (L.beq_rfl' (L.fin_nn' hm)) hq hs
    exact L.le_tr hxm (L.beq_ge (L.beq_tr this (L.exact.add_zero m (L.fin_nn' hm))))
  | false =>
    have hi : Spec.Fin i := L.fin_of (L.le_nnr h2) hinf
    have hq0 : (x - m) / i ≤ (0.0 : Float) := L.div_nonpos hd0 hipos (Or.inl hd)
    -- `x − m == (x − m)/1 ≤ (x − m)/i`: through the negated numerator
    have hq : Spec.Fin ((x - m) / i) := by
      -- the quotient of finite operands by a finite non-zero divisor `≥ 2` is between `x − m` and `0`:
      -- obtained from the real values instead of the order laws
      have hqn : NN ((x - m) / i) := L.le_nnl hq0
      apply L.fin_of hqn
      cases hqi : RFun.isInf ((x - m) / i) with
      | false => rfl
      | true =>
        exfalso
        -- an infinite quotient would be `−∞`; but the real quotient is at least `val (x − m)`
        have hU : (U ((x - m) / i)).isInf = true := hqi
        rw [U_div'] at hU
        have hfi := fz_of_fin hi
        rcases hI : U i with s | _ | s | ⟨s, mi, ei, hmi⟩
        · rw [hI] at hfi; exact absurd hfi (by simp [FZ])
        · rw [hI] at hfi; exact absurd hfi (by simp [FZ])
        · have := (le_iff_val (by rw [U_two]; trivial) hfi (canon_U _) (canon_U i)).1 ((le_def _ _).1 h2)
          rw [val_U_two, hI] at this; simp [val] at this; linarith
        · rw [hI] at hU
          have hr := udiv_rounds (fz_of_fin hd) s mi ei hmi
          have hself := Rounds.self (fz_of_fin hd) (canon_U (x - m))
          have hvi : 2 ≤ val (.finite s mi ei hmi) := by
            have := (le_iff_val (by rw [U_two]; trivial) hfi (canon_U _) (canon_U i)).1 ((le_def _ _).1 h2)
            rwa [val_U_two, hI] at this
          have hvd : val (U (x - m)) ≤ 0 := by
            have := val_le_of_le hd L.zero_fin hd0
            rwa [U_zero, val_zero] at this
          have hle : val (U (x - m)) ≤ val (U (x - m)) / val (.finite s mi ei hmi) := by
            rw [le_div_iff₀ (by linarith)]
            nlinarith
          have h1 := fin64_mono (rounds_le hself hr hle)
          rw [fin64_of_rep (rep_U _)] at h1
          -- `U (x − m) ≤ fin64 (quotient)`, the latter infinite and `≤ 0`: impossible for a finite lower bound
          have h0 : (fin64 (UnpackedFloat.div .binary64 (U (x - m)) (.finite s mi ei hmi))).le (U (0.0 : Float))
              = true := by
            have := (le_def _ _).1 hq0
            rwa [U_div', hI] at this
          generalize fin64 (UnpackedFloat.div .binary64 (U (x - m)) (.finite s mi ei hmi)) = w at hU h1 h0
          have hfd := fz_of_fin hd
          rcases w with sw | _ | sw | ⟨sw, mw, ew, hmw⟩
          · cases sw
            · -- `−∞`: `U (x − m) ≤ −∞` forces `x − m = −∞`
              have := le_inf_neg h1
              rw [this] at hfd; exact absurd hfd (by simp [FZ])
            · -- `+∞ ≤ 0` is false
              rw [U_zero] at h0
              exact absurd h0 (by decide)
          · exact absurd hU (by decide)
          · exact absurd hU (by simp [UnpackedFloat.isInf])
          · exact absurd hU (by simp [UnpackedFloat.isInf])
    obtain ⟨hv, hQ⟩ := val_div hd hi h2 hq
    have hD := val_sub hx hm hd
    have hy : val (U x) - val (U m) ≤ 0 := by have := val_le_of_le hx hm hxm; linarith
    have := rnv_div_ge hy hD hv hQ
    exact le_add_of_val hm hq hx (by linarith)

/-- full(Float): `StepLaws Float` — a streaming-mean step with divisor `≥ 2` never overshoots the new entry -/
theorem stepLaws_float : StepLaws Float := ⟨step_le_float, step_ge_float⟩

end Statrs.Props.C13
