/-
  C13 — the streaming means (`mean`, `quadratic_mean`, `harmonic_mean`, `geometric_mean`) of
  `impl Statistics<f64> for T: IntoIterator` equal their textbook definitions (Statrs/Spec/Stats.lean)
  for data of EVERY length, in exact arithmetic (carrier ℝ), and do not depend on the order of
  the data.
-/
import Statrs.Lemmas.Stats
import Statrs.Props.C13.Conventions
namespace Statrs.Props.C13
open Statrs Statrs.Gen Statrs.Lemmas.Stats

private theorem len_pos {l : List ℝ} (h : l ≠ []) : (0 : ℝ) < (l.length : ℝ) := by
  have : 0 < l.length := List.length_pos_of_ne_nil h
  exact_mod_cast this

/-! ### arithmetic mean -/

/-- `mean xs = (Σ xs) / n` for every nonempty data vector -/
theorem mean_eq (xs : List ℝ) (h : xs ≠ []) :
    IterStatistics.mean xs = Spec.Stats.mean xs := by
  obtain ⟨m', e, hm⟩ := mean_loop xs 0 0
  have hp := len_pos h
  have e' : IterStatistics.mean.loop1 xs (0 : ℝ) (0 : ℝ)
      = LoopR.done ((xs.length : ℝ), m') := by
    simpa using e
  simp only [IterStatistics.mean, lit_zero, e', hp, if_true]
  unfold Spec.Stats.mean
  simp only [Nat.cast_zero, zero_mul, zero_add] at hm
  field_simp
  linarith

/-- `mean` does not depend on the order of the data -/
theorem mean_perm (xs ys : List ℝ) (h : xs.Perm ys) :
    IterStatistics.mean xs = IterStatistics.mean ys := by
  by_cases hx : xs = []
  · subst hx; rw [List.nil_perm.1 h]
  · have hy : ys ≠ [] := fun hy => hx (by subst hy; exact List.perm_nil.1 h)
    rw [mean_eq xs hx, mean_eq ys hy]
    unfold Spec.Stats.mean
    rw [h.sum_eq, h.length_eq]

/-! ### quadratic mean (RMS) -/

/-- `quadratic_mean xs = √(Σ x² / n)` for every nonempty data vector -/
theorem quadratic_mean_eq (xs : List ℝ) (h : xs ≠ []) :
    IterStatistics.quadratic_mean xs = Spec.Stats.quadraticMean xs := by
  obtain ⟨m', e, hm⟩ := mean_loop (xs.map (fun x => x * x)) 0 0
  have hp := len_pos h
  have e' : IterStatistics.quadratic_mean.loop1 xs (0 : ℝ) (0 : ℝ)
      = LoopR.done ((xs.length : ℝ), m') := by
    rw [quadratic_loop_eq]; simpa using e
  simp only [IterStatistics.quadratic_mean, lit_zero, e', hp, if_true, rfun_sqrt]
  unfold Spec.Stats.quadraticMean
  simp only [Nat.cast_zero, zero_mul, zero_add, List.length_map] at hm
  congr 1
  have hsq : (xs.map (fun x => x ^ 2)) = (xs.map (fun x => x * x)) := by
    apply List.map_congr_left; intro x _; ring
  rw [← hsq] at hm
  field_simp
  linarith

/-- `quadratic_mean` does not depend on the order of the data -/
theorem quadratic_mean_perm (xs ys : List ℝ) (h : xs.Perm ys) :
    IterStatistics.quadratic_mean xs = IterStatistics.quadratic_mean ys := by
  by_cases hx : xs = []
  · subst hx; rw [List.nil_perm.1 h]
  · have hy : ys ≠ [] := fun hy => hx (by subst hy; exact List.perm_nil.1 h)
    rw [quadratic_mean_eq xs hx, quadratic_mean_eq ys hy]
    unfold Spec.Stats.quadraticMean
    rw [(h.map _).sum_eq, h.length_eq]

/-! ### harmonic mean -/

/-- `harmonic_mean` on data without negative entries, in closed form (used below).  The code adds
    `1 / |x|`; the entries that get past the `x < 0` early return satisfy `|x| = x`, so the
    textbook `n / Σ (1/x)` is what is computed (a zero entry contributes `1/0 = 0` over ℝ on both
    sides) -/
theorem harmonic_mean_eq_of_nonneg (xs : List ℝ) (h : xs ≠ []) (hnn : ∀ x ∈ xs, ¬ x < 0) :
    IterStatistics.harmonic_mean xs = Spec.Stats.harmonicMean xs := by
  have e := harmonic_loop xs 0 0 hnn
  have hp := len_pos h
  have e' : IterStatistics.harmonic_mean.loop1 xs (0 : ℝ) (0 : ℝ)
      = LoopR.done ((xs.length : ℝ), (xs.map (fun x => 1 / x)).sum) := by
    simpa using e
  simp only [IterStatistics.harmonic_mean, lit_zero, e', hp, if_true]
  unfold Spec.Stats.harmonicMean
  rfl

/-- `harmonic_mean xs = n / Σ (1/x)` for every nonempty vector of positive data -/
theorem harmonic_mean_eq (xs : List ℝ) (h : xs ≠ []) (hpos : ∀ x ∈ xs, 0 < x) :
    IterStatistics.harmonic_mean xs = Spec.Stats.harmonicMean xs :=
  harmonic_mean_eq_of_nonneg xs h (fun x hx => not_lt.2 (le_of_lt (hpos x hx)))

/-- `harmonic_mean` does not depend on the order of the data (no sign restriction: a negative
    entry gives the NaN value on both sides) -/
theorem harmonic_mean_perm (xs ys : List ℝ) (h : xs.Perm ys) :
    IterStatistics.harmonic_mean xs = IterStatistics.harmonic_mean ys := by
  by_cases hx : xs = []
  · subst hx; rw [List.nil_perm.1 h]
  · have hy : ys ≠ [] := fun hy => hx (by subst hy; exact List.perm_nil.1 h)
    by_cases hneg : ∃ x ∈ xs, x < (0.0 : ℝ)
    · have hneg' : ∃ x ∈ ys, x < (0.0 : ℝ) := by
        obtain ⟨x, hx, h0⟩ := hneg; exact ⟨x, h.mem_iff.1 hx, h0⟩
      rw [harmonic_mean_neg xs hneg, harmonic_mean_neg ys hneg']
    · rw [lit_zero] at hneg
      have hnx : ∀ x ∈ xs, ¬ x < 0 := fun x hx h0 => hneg ⟨x, hx, h0⟩
      have hny : ∀ x ∈ ys, ¬ x < 0 := fun x hx => hnx x (h.mem_iff.2 hx)
      rw [harmonic_mean_eq_of_nonneg xs hx hnx, harmonic_mean_eq_of_nonneg ys hy hny]
      unfold Spec.Stats.harmonicMean
      rw [(h.map _).sum_eq, h.length_eq]

/-! ### geometric mean -/

/-- log form, no sign restriction (over ℝ, `Real.log` is total) -/
theorem geometric_mean_eq_exp_log (xs : List ℝ) (h : xs ≠ []) :
    IterStatistics.geometric_mean xs = Spec.Stats.geometricMean xs := by
  have e := geometric_loop xs 0 0
  have hp := len_pos h
  have e' : IterStatistics.geometric_mean.loop1 xs (0 : ℝ) (0 : ℝ)
      = LoopR.done ((xs.length : ℝ), (xs.map Real.log).sum) := by
    simpa using e
  simp only [IterStatistics.geometric_mean, lit_zero, e', hp, if_true, rfun_exp]
  unfold Spec.Stats.geometricMean
  rfl

/-- `geometric_mean xs = exp (Σ log x / n)` for every nonempty vector of positive data -/
theorem geometric_mean_eq (xs : List ℝ) (h : xs ≠ []) (_hpos : ∀ x ∈ xs, 0 < x) :
    IterStatistics.geometric_mean xs = Spec.Stats.geometricMean xs :=
  geometric_mean_eq_exp_log xs h

/-- … which is the `n`-th root of the product: `geometric_mean xs = (∏ x) ^ (1/n)` -/
theorem geometric_mean_eq_prod_rpow (xs : List ℝ) (h : xs ≠ []) (hpos : ∀ x ∈ xs, 0 < x) :
    IterStatistics.geometric_mean xs = xs.prod ^ ((1 : ℝ) / xs.length) := by
  rw [geometric_mean_eq xs h hpos]
  unfold Spec.Stats.geometricMean
  have hprod : ∀ l : List ℝ, (∀ x ∈ l, 0 < x) → 0 < l.prod ∧ Real.log l.prod = (l.map Real.log).sum := by
    intro l
    induction l with
    | nil => intro _; simp
    | cons a t ih =>
      intro hl
      have ha : 0 < a := hl a (by simp)
      obtain ⟨hp, hlog⟩ := ih (fun x hx => hl x (by simp [hx]))
      refine ⟨by simp only [List.prod_cons]; positivity, ?_⟩
      simp only [List.prod_cons, List.map_cons, List.sum_cons]
      rw [Real.log_mul (ne_of_gt ha) (ne_of_gt hp), hlog]
  obtain ⟨hp, hlog⟩ := hprod xs hpos
  rw [Real.rpow_def_of_pos hp, hlog]
  congr 1; ring

/-- `geometric_mean` does not depend on the order of the data -/
theorem geometric_mean_perm (xs ys : List ℝ) (h : xs.Perm ys) :
    IterStatistics.geometric_mean xs = IterStatistics.geometric_mean ys := by
  by_cases hx : xs = []
  · subst hx; rw [List.nil_perm.1 h]
  · have hy : ys ≠ [] := fun hy => hx (by subst hy; exact List.perm_nil.1 h)
    rw [geometric_mean_eq_exp_log xs hx, geometric_mean_eq_exp_log ys hy]
    unfold Spec.Stats.geometricMean
    rw [(h.map _).sum_eq, h.length_eq]

/-! ### non-vacuity -/
example : ∃ xs : List ℝ, xs ≠ [] ∧ ∀ x ∈ xs, 0 < x := ⟨[1, 2], by simp, by simp⟩
example : IterStatistics.mean [(1 : ℝ), 2, 6] = 3 := by
  rw [mean_eq _ (by simp)]; norm_num [Spec.Stats.mean]

end Statrs.Props.C13
