/-
  C13 — `min`, `max`, `abs_min`, `abs_max` of `impl Statistics<f64> for T: IntoIterator` are exact:
  on NaN-free data they return an entry of the data that bounds all others; any NaN entry makes
  the result NaN (wherever it sits).  The core statements are for EVERY carrier `α`, with the
  order laws that are used spelled out as hypotheses (they hold for IEEE `<` on non-NaN values);
  the ℝ corollaries (`≤`, order-independence) follow.
-/
import Statrs.Real.Simp
import Statrs.Gen.S_iter_statistics
import Mathlib.Tactic
namespace Statrs.Props.C13
open Statrs Statrs.Gen

section folds
variable {α : Type} [LT α] [DecidableLT α] [RFun α]

/-- order laws of `<` used below: asymmetry, and negative transitivity on non-NaN values
    (both hold for IEEE comparison; over a linear order the second is transitivity of `≤`) -/
structure LtLaws (α : Type) [LT α] [RFun α] : Prop where
  asymm : ∀ a b : α, a < b → ¬ b < a
  negTrans : ∀ a b c : α, RFun.isNaN a = false → RFun.isNaN b = false → RFun.isNaN c = false →
    ¬ a < b → ¬ b < c → ¬ a < c

/-- comparisons against NaN are false -/
structure NaNUnordered (α : Type) [LT α] [RFun α] : Prop where
  not_lt_nan : ∀ a x : α, RFun.isNaN a = true → ¬ x < a
  not_nan_lt : ∀ a x : α, RFun.isNaN a = true → ¬ a < x

/-! #### the two folds -/

theorem foldl_min_spec (L : LtLaws α) (l : List α) (a : α) (ha : RFun.isNaN a = false)
    (hl : ∀ x ∈ l, RFun.isNaN x = false) :
    let r := List.foldl (fun acc x => (if ((x < acc) ∨ ((RFun.isNaN x) = true)) then x else acc)) a l
    r ∈ a :: l ∧ ∀ x ∈ a :: l, ¬ x < r := by
  induction l generalizing a with
  | nil =>
    simp only [List.foldl_nil, List.mem_singleton, forall_eq, true_and]
    exact fun h => L.asymm _ _ h h
  | cons b t ih =>
    have hb : RFun.isNaN b = false := hl b (by simp)
    have ht : ∀ x ∈ t, RFun.isNaN x = false := fun x hx => hl x (by simp [hx])
    simp only [List.foldl_cons, hb, Bool.false_eq_true, or_false]
    by_cases hba : b < a
    · simp only [hba, if_true]
      obtain ⟨hm, hbd⟩ := ih b hb ht
      have hr : RFun.isNaN (List.foldl (fun acc x => (if ((x < acc) ∨ ((RFun.isNaN x) = true)) then x else acc)) b t) = false := by
        rcases List.mem_cons.1 hm with h | h
        · rw [h]; exact hb
        · exact ht _ h
      refine ⟨List.mem_cons_of_mem _ hm, ?_⟩
      intro x hx
      rcases List.mem_cons.1 hx with rfl | hx
      · exact L.negTrans _ _ _ ha hb hr (L.asymm _ _ hba) (hbd b (by simp))
      · exact hbd x hx
    · simp only [hba, if_false]
      obtain ⟨hm, hbd⟩ := ih a ha ht
      have hr : RFun.isNaN (List.foldl (fun acc x => (if ((x < acc) ∨ ((RFun.isNaN x) = true)) then x else acc)) a t) = false := by
        rcases List.mem_cons.1 hm with h | h
        · rw [h]; exact ha
        · exact ht _ h
      refine ⟨?_, ?_⟩
      · rcases List.mem_cons.1 hm with h | h
        · rw [h]; simp
        · simp [h]
      · intro x hx
        rcases List.mem_cons.1 hx with rfl | hx
        · exact hbd _ (by simp)
        · rcases List.mem_cons.1 hx with rfl | hx
          · exact L.negTrans _ _ _ hb ha hr hba (hbd a (by simp))
          · exact hbd x (by simp [hx])

theorem foldl_max_spec (L : LtLaws α) (l : List α) (a : α) (ha : RFun.isNaN a = false)
    (hl : ∀ x ∈ l, RFun.isNaN x = false) :
    let r := List.foldl (fun acc x => (if ((acc < x) ∨ ((RFun.isNaN x) = true)) then x else acc)) a l
    r ∈ a :: l ∧ ∀ x ∈ a :: l, ¬ r < x := by
  induction l generalizing a with
  | nil =>
    simp only [List.foldl_nil, List.mem_singleton, forall_eq, true_and]
    exact fun h => L.asymm _ _ h h
  | cons b t ih =>
    have hb : RFun.isNaN b = false := hl b (by simp)
    have ht : ∀ x ∈ t, RFun.isNaN x = false := fun x hx => hl x (by simp [hx])
    simp only [List.foldl_cons, hb, Bool.false_eq_true, or_false]
    by_cases hba : a < b
    · simp only [hba, if_true]
      obtain ⟨hm, hbd⟩ := ih b hb ht
      have hr : RFun.isNaN (List.foldl (fun acc x => (if ((acc < x) ∨ ((RFun.isNaN x) = true)) then x else acc)) b t) = false := by
        rcases List.mem_cons.1 hm with h | h
        · rw [h]; exact hb
        · exact ht _ h
      refine ⟨List.mem_cons_of_mem _ hm, ?_⟩
      intro x hx
      rcases List.mem_cons.1 hx with rfl | hx
      · exact L.negTrans _ _ _ hr hb ha (hbd b (by simp)) (L.asymm _ _ hba)
      · exact hbd x hx
    · simp only [hba, if_false]
      obtain ⟨hm, hbd⟩ := ih a ha ht
      have hr : RFun.isNaN (List.foldl (fun acc x => (if ((acc < x) ∨ ((RFun.isNaN x) = true)) then x else acc)) a t) = false := by
        rcases List.mem_cons.1 hm with h | h
        · rw [h]; exact ha
        · exact ht _ h
      refine ⟨?_, ?_⟩
      · rcases List.mem_cons.1 hm with h | h
        · rw [h]; simp
        · simp [h]
      · intro x hx
        rcases List.mem_cons.1 hx with rfl | hx
        · exact hbd _ (by simp)
        · rcases List.mem_cons.1 hx with rfl | hx
          · exact L.negTrans _ _ _ hr ha hb (hbd a (by simp)) hba
          · exact hbd x (by simp [hx])

theorem foldl_min_nan (U : NaNUnordered α) (l : List α) (a : α)
    (h : RFun.isNaN a = true ∨ ∃ x ∈ l, RFun.isNaN x = true) :
    RFun.isNaN (List.foldl (fun acc x => (if ((x < acc) ∨ ((RFun.isNaN x) = true)) then x else acc)) a l)
      = true := by
  induction l generalizing a with
  | nil => simpa using h
  | cons b t ih =>
    simp only [List.foldl_cons]
    apply ih
    by_cases hb : RFun.isNaN b = true
    · left; simp [hb]
    · rcases h with ha | ⟨x, hx, hxn⟩
      · left; simp only [hb, U.not_lt_nan a b ha]; exact ha
      · rcases List.mem_cons.1 hx with rfl | hx
        · exact absurd hxn hb
        · right; exact ⟨x, hx, hxn⟩

theorem foldl_max_nan (U : NaNUnordered α) (l : List α) (a : α)
    (h : RFun.isNaN a = true ∨ ∃ x ∈ l, RFun.isNaN x = true) :
    RFun.isNaN (List.foldl (fun acc x => (if ((acc < x) ∨ ((RFun.isNaN x) = true)) then x else acc)) a l)
      = true := by
  induction l generalizing a with
  | nil => simpa using h
  | cons b t ih =>
    simp only [List.foldl_cons]
    apply ih
    by_cases hb : RFun.isNaN b = true
    · left; simp [hb]
    · rcases h with ha | ⟨x, hx, hxn⟩
      · left; simp only [hb, U.not_nan_lt a b ha]; exact ha
      · rcases List.mem_cons.1 hx with rfl | hx
        · exact absurd hxn hb
        · right; exact ⟨x, hx, hxn⟩

end folds

section generic
variable {α : Type} [Add α] [Sub α] [Mul α] [Div α] [Neg α] [LT α] [LE α] [BEq α]
  [DecidableLT α] [DecidableLE α] [OfScientific α] [Inhabited α] [RFun α]

/-! #### exactness on NaN-free data (every carrier) -/

/-- `min` of nonempty NaN-free data is an entry that no entry is smaller than -/
theorem min_exact (L : LtLaws α) (xs : List α) (hne : xs ≠ [])
    (hnan : ∀ x ∈ xs, RFun.isNaN x = false) :
    IterStatistics.min xs ∈ xs ∧ ∀ x ∈ xs, ¬ x < IterStatistics.min xs := by
  match xs, hne with
  | a :: t, _ =>
    simp only [IterStatistics.min, listNext, List.map_id']
    exact foldl_min_spec L t a (hnan a (by simp)) (fun x hx => hnan x (by simp [hx]))

/-- `max` of nonempty NaN-free data is an entry that no entry is larger than -/
theorem max_exact (L : LtLaws α) (xs : List α) (hne : xs ≠ [])
    (hnan : ∀ x ∈ xs, RFun.isNaN x = false) :
    IterStatistics.max xs ∈ xs ∧ ∀ x ∈ xs, ¬ IterStatistics.max xs < x := by
  match xs, hne with
  | a :: t, _ =>
    simp only [IterStatistics.max, listNext, List.map_id']
    exact foldl_max_spec L t a (hnan a (by simp)) (fun x hx => hnan x (by simp [hx]))

/-- `abs_min` of nonempty NaN-free data is the absolute value of an entry that no other
    absolute value is smaller than -/
theorem abs_min_exact (L : LtLaws α) (xs : List α) (hne : xs ≠ [])
    (hnan : ∀ x ∈ xs, RFun.isNaN (RFun.abs x) = false) :
    IterStatistics.abs_min xs ∈ xs.map RFun.abs
      ∧ ∀ x ∈ xs, ¬ RFun.abs x < IterStatistics.abs_min xs := by
  match xs, hne with
  | a :: t, _ =>
    simp only [IterStatistics.abs_min, listNext]
    have := foldl_min_spec L (t.map RFun.abs) (RFun.abs a) (hnan a (by simp))
      (by intro y hy; obtain ⟨x, hx, rfl⟩ := List.mem_map.1 hy; exact hnan x (by simp [hx]))
    refine ⟨by simpa using this.1, ?_⟩
    intro x hx
    apply this.2
    rw [← List.map_cons]; exact List.mem_map_of_mem hx

/-- `abs_max` of nonempty NaN-free data is the absolute value of an entry that no other
    absolute value is larger than -/
theorem abs_max_exact (L : LtLaws α) (xs : List α) (hne : xs ≠ [])
    (hnan : ∀ x ∈ xs, RFun.isNaN (RFun.abs x) = false) :
    IterStatistics.abs_max xs ∈ xs.map RFun.abs
      ∧ ∀ x ∈ xs, ¬ IterStatistics.abs_max xs < RFun.abs x := by
  match xs, hne with
  | a :: t, _ =>
    simp only [IterStatistics.abs_max, listNext]
    have := foldl_max_spec L (t.map RFun.abs) (RFun.abs a) (hnan a (by simp))
      (by intro y hy; obtain ⟨x, hx, rfl⟩ := List.mem_map.1 hy; exact hnan x (by simp [hx]))
    refine ⟨by simpa using this.1, ?_⟩
    intro x hx
    apply this.2
    rw [← List.map_cons]; exact List.mem_map_of_mem hx

/-! #### NaN propagation, independent of where the NaN sits (every carrier) -/

/-- any NaN entry ⇒ `min` is NaN -/
theorem min_nan (U : NaNUnordered α) (xs : List α) (h : ∃ x ∈ xs, RFun.isNaN x = true) :
    RFun.isNaN (IterStatistics.min xs) = true := by
  match xs, h with
  | a :: t, h =>
    simp only [IterStatistics.min, listNext, List.map_id']
    apply foldl_min_nan U
    obtain ⟨x, hx, hn⟩ := h
    rcases List.mem_cons.1 hx with rfl | hx
    · exact Or.inl hn
    · exact Or.inr ⟨x, hx, hn⟩

/-- any NaN entry ⇒ `max` is NaN -/
theorem max_nan (U : NaNUnordered α) (xs : List α) (h : ∃ x ∈ xs, RFun.isNaN x = true) :
    RFun.isNaN (IterStatistics.max xs) = true := by
  match xs, h with
  | a :: t, h =>
    simp only [IterStatistics.max, listNext, List.map_id']
    apply foldl_max_nan U
    obtain ⟨x, hx, hn⟩ := h
    rcases List.mem_cons.1 hx with rfl | hx
    · exact Or.inl hn
    · exact Or.inr ⟨x, hx, hn⟩

/-- any entry whose absolute value is NaN ⇒ `abs_min` is NaN -/
theorem abs_min_nan (U : NaNUnordered α) (xs : List α)
    (h : ∃ x ∈ xs, RFun.isNaN (RFun.abs x) = true) :
    RFun.isNaN (IterStatistics.abs_min xs) = true := by
  match xs, h with
  | a :: t, h =>
    simp only [IterStatistics.abs_min, listNext]
    apply foldl_min_nan U
    obtain ⟨x, hx, hn⟩ := h
    rcases List.mem_cons.1 hx with rfl | hx
    · exact Or.inl hn
    · exact Or.inr ⟨RFun.abs x, List.mem_map_of_mem hx, hn⟩

/-- any entry whose absolute value is NaN ⇒ `abs_max` is NaN -/
theorem abs_max_nan (U : NaNUnordered α) (xs : List α)
    (h : ∃ x ∈ xs, RFun.isNaN (RFun.abs x) = true) :
    RFun.isNaN (IterStatistics.abs_max xs) = true := by
  match xs, h with
  | a :: t, h =>
    simp only [IterStatistics.abs_max, listNext]
    apply foldl_max_nan U
    obtain ⟨x, hx, hn⟩ := h
    rcases List.mem_cons.1 hx with rfl | hx
    · exact Or.inl hn
    · exact Or.inr ⟨RFun.abs x, List.mem_map_of_mem hx, hn⟩

end generic

/-! ### carrier ℝ -/

/-- the order laws hold over ℝ (non-vacuity of `LtLaws`) -/
theorem ltLaws_real : LtLaws ℝ where
  asymm := fun _ _ h => not_lt.2 (le_of_lt h)
  negTrans := fun _ _ _ _ _ _ h1 h2 => not_lt.2 (le_trans (not_lt.1 h2) (not_lt.1 h1))

/-- `min xs` is an entry of `xs` and a lower bound of `xs` -/
theorem min_real (xs : List ℝ) (hne : xs ≠ []) :
    IterStatistics.min xs ∈ xs ∧ ∀ x ∈ xs, IterStatistics.min xs ≤ x := by
  obtain ⟨h1, h2⟩ := min_exact ltLaws_real xs hne (fun _ _ => rfl)
  exact ⟨h1, fun x hx => not_lt.1 (h2 x hx)⟩

/-- `max xs` is an entry of `xs` and an upper bound of `xs` -/
theorem max_real (xs : List ℝ) (hne : xs ≠ []) :
    IterStatistics.max xs ∈ xs ∧ ∀ x ∈ xs, x ≤ IterStatistics.max xs := by
  obtain ⟨h1, h2⟩ := max_exact ltLaws_real xs hne (fun _ _ => rfl)
  exact ⟨h1, fun x hx => not_lt.1 (h2 x hx)⟩

/-- `abs_min xs` is `|x|` for an entry `x` and a lower bound of all `|x|` -/
theorem abs_min_real (xs : List ℝ) (hne : xs ≠ []) :
    (∃ x ∈ xs, IterStatistics.abs_min xs = |x|) ∧ ∀ x ∈ xs, IterStatistics.abs_min xs ≤ |x| := by
  obtain ⟨h1, h2⟩ := abs_min_exact ltLaws_real xs hne (fun _ _ => rfl)
  refine ⟨?_, fun x hx => not_lt.1 (h2 x hx)⟩
  obtain ⟨x, hx, e⟩ := List.mem_map.1 h1
  exact ⟨x, hx, e.symm⟩

/-- `abs_max xs` is `|x|` for an entry `x` and an upper bound of all `|x|` -/
theorem abs_max_real (xs : List ℝ) (hne : xs ≠ []) :
    (∃ x ∈ xs, IterStatistics.abs_max xs = |x|) ∧ ∀ x ∈ xs, |x| ≤ IterStatistics.abs_max xs := by
  obtain ⟨h1, h2⟩ := abs_max_exact ltLaws_real xs hne (fun _ _ => rfl)
  refine ⟨?_, fun x hx => not_lt.1 (h2 x hx)⟩
  obtain ⟨x, hx, e⟩ := List.mem_map.1 h1
  exact ⟨x, hx, e.symm⟩

/-- `min` does not depend on the order of the data -/
theorem min_perm (xs ys : List ℝ) (h : xs.Perm ys) :
    IterStatistics.min xs = IterStatistics.min ys := by
  by_cases hx : xs = []
  · subst hx; rw [List.nil_perm.1 h]
  · have hy : ys ≠ [] := fun hy => hx (by subst hy; exact List.perm_nil.1 h)
    obtain ⟨a1, a2⟩ := min_real xs hx
    obtain ⟨b1, b2⟩ := min_real ys hy
    exact le_antisymm (a2 _ (h.mem_iff.2 b1)) (b2 _ (h.mem_iff.1 a1))

/-- `max` does not depend on the order of the data -/
theorem max_perm (xs ys : List ℝ) (h : xs.Perm ys) :
    IterStatistics.max xs = IterStatistics.max ys := by
  by_cases hx : xs = []
  · subst hx; rw [List.nil_perm.1 h]
  · have hy : ys ≠ [] := fun hy => hx (by subst hy; exact List.perm_nil.1 h)
    obtain ⟨a1, a2⟩ := max_real xs hx
    obtain ⟨b1, b2⟩ := max_real ys hy
    exact le_antisymm (b2 _ (h.mem_iff.1 a1)) (a2 _ (h.mem_iff.2 b1))

/-- `abs_min` does not depend on the order of the data -/
theorem abs_min_perm (xs ys : List ℝ) (h : xs.Perm ys) :
    IterStatistics.abs_min xs = IterStatistics.abs_min ys := by
  by_cases hx : xs = []
  · subst hx; rw [List.nil_perm.1 h]
  · have hy : ys ≠ [] := fun hy => hx (by subst hy; exact List.perm_nil.1 h)
    obtain ⟨⟨a, ha, ea⟩, a2⟩ := abs_min_real xs hx
    obtain ⟨⟨b, hb, eb⟩, b2⟩ := abs_min_real ys hy
    exact le_antisymm (eb ▸ a2 b (h.mem_iff.2 hb)) (ea ▸ b2 a (h.mem_iff.1 ha))

/-- `abs_max` does not depend on the order of the data -/
theorem abs_max_perm (xs ys : List ℝ) (h : xs.Perm ys) :
    IterStatistics.abs_max xs = IterStatistics.abs_max ys := by
  by_cases hx : xs = []
  · subst hx; rw [List.nil_perm.1 h]
  · have hy : ys ≠ [] := fun hy => hx (by subst hy; exact List.perm_nil.1 h)
    obtain ⟨⟨a, ha, ea⟩, a2⟩ := abs_max_real xs hx
    obtain ⟨⟨b, hb, eb⟩, b2⟩ := abs_max_real ys hy
    exact le_antisymm (ea ▸ b2 a (h.mem_iff.1 ha)) (eb ▸ a2 b (h.mem_iff.2 hb))

/-! ### non-vacuity -/
example : IterStatistics.min [(3 : ℝ), 1, 2] = 1 := by
  simp [IterStatistics.min, listNext]
example : IterStatistics.abs_max [(3 : ℝ), -5, 2] = 5 := by
  simp [IterStatistics.abs_max, listNext]; norm_num

end Statrs.Props.C13
