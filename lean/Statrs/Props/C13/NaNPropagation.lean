/-
  C13 — NaN propagation of the arithmetic statistics ("Returns `f64::NAN` if … an entry is
  `f64::NAN`" on the `Statistics` trait), wherever the NaN sits in the data.
  Stated for EVERY carrier `α` under the explicit hypothesis that NaN is absorbing for the
  arithmetic the code performs (`NaNArith`; `NaNFun` for `exp`/`ln`; `SqrtNaN` for `sqrt`;
  `AbsNaN` for the `abs` inside `harmonic_mean`) — true of IEEE arithmetic; `NaNArith Float`,
  `SqrtNaN Float` and `AbsNaN Float` are proved in FloatInst.lean.
  `population_variance`/`population_std_dev` satisfy the documented convention for data of every
  length, one-entry data included (the `if sum.is_nan() { return NAN }` guard on the first
  element): `population_variance_nan`, `population_variance_singleton_isNaN_iff`.
-/
import Statrs.Props.C13.Conventions
namespace Statrs.Props.C13
open Statrs Statrs.Gen

/-- NaN is absorbing for `+ - * /`, and the carrier's `nan` is a NaN -/
structure NaNArith (α : Type) [Add α] [Sub α] [Mul α] [Div α] [RFun α] : Prop where
  add_l : ∀ a b : α, RFun.isNaN a = true → RFun.isNaN (a + b) = true
  add_r : ∀ a b : α, RFun.isNaN b = true → RFun.isNaN (a + b) = true
  sub_l : ∀ a b : α, RFun.isNaN a = true → RFun.isNaN (a - b) = true
  sub_r : ∀ a b : α, RFun.isNaN b = true → RFun.isNaN (a - b) = true
  mul_l : ∀ a b : α, RFun.isNaN a = true → RFun.isNaN (a * b) = true
  mul_r : ∀ a b : α, RFun.isNaN b = true → RFun.isNaN (a * b) = true
  div_l : ∀ a b : α, RFun.isNaN a = true → RFun.isNaN (a / b) = true
  div_r : ∀ a b : α, RFun.isNaN b = true → RFun.isNaN (a / b) = true
  nan : RFun.isNaN (RFun.nan : α) = true

/-- `exp`, `ln` map NaN to NaN (libm; opaque for Lean's `Float`) -/
structure NaNFun (α : Type) [RFun α] : Prop where
  exp : ∀ a : α, RFun.isNaN a = true → RFun.isNaN (RFun.exp a) = true
  ln : ∀ a : α, RFun.isNaN a = true → RFun.isNaN (RFun.ln a) = true

/-- `sqrt` maps NaN to NaN -/
def SqrtNaN (α : Type) [RFun α] : Prop :=
  ∀ a : α, RFun.isNaN a = true → RFun.isNaN (RFun.sqrt a) = true

/-- `abs` maps NaN to NaN -/
def AbsNaN (α : Type) [RFun α] : Prop :=
  ∀ a : α, RFun.isNaN a = true → RFun.isNaN (RFun.abs a) = true

section
variable {α : Type} [Add α] [Sub α] [Mul α] [Div α] [Neg α] [LT α] [LE α] [BEq α]
  [DecidableLT α] [DecidableLE α] [OfScientific α] [Inhabited α] [RFun α]

/-! ### mean, quadratic mean -/

theorem mean_loop_nan (A : NaNArith α) (l : List α) (i m : α)
    (h : RFun.isNaN m = true ∨ ∃ x ∈ l, RFun.isNaN x = true) :
    ∃ i' m', IterStatistics.mean.loop1 l i m = LoopR.done (i', m') ∧ RFun.isNaN m' = true := by
  induction l generalizing i m with
  | nil =>
    rcases h with h | ⟨x, hx, _⟩
    · exact ⟨i, m, by simp [IterStatistics.mean.loop1], h⟩
    · simp at hx
  | cons a t ih =>
    unfold IterStatistics.mean.loop1
    apply ih
    rcases h with h | ⟨x, hx, hn⟩
    · exact Or.inl (A.add_l _ _ h)
    · rcases List.mem_cons.1 hx with rfl | hx
      · exact Or.inl (A.add_r _ _ (A.div_l _ _ (A.sub_l _ _ hn)))
      · exact Or.inr ⟨x, hx, hn⟩

/-- any NaN entry ⇒ `mean` is NaN -/
theorem mean_nan (A : NaNArith α) (xs : List α) (h : ∃ x ∈ xs, RFun.isNaN x = true) :
    RFun.isNaN (IterStatistics.mean xs) = true := by
  obtain ⟨i', m', e, hm⟩ := mean_loop_nan A xs (0.0 : α) (0.0 : α) (Or.inr h)
  simp only [IterStatistics.mean, e]
  split
  · exact hm
  · exact A.nan

theorem quadratic_loop_nan (A : NaNArith α) (l : List α) (i m : α)
    (h : RFun.isNaN m = true ∨ ∃ x ∈ l, RFun.isNaN x = true) :
    ∃ i' m', IterStatistics.quadratic_mean.loop1 l i m = LoopR.done (i', m')
      ∧ RFun.isNaN m' = true := by
  induction l generalizing i m with
  | nil =>
    rcases h with h | ⟨x, hx, _⟩
    · exact ⟨i, m, by simp [IterStatistics.quadratic_mean.loop1], h⟩
    · simp at hx
  | cons a t ih =>
    unfold IterStatistics.quadratic_mean.loop1
    apply ih
    rcases h with h | ⟨x, hx, hn⟩
    · exact Or.inl (A.add_l _ _ h)
    · rcases List.mem_cons.1 hx with rfl | hx
      · exact Or.inl (A.add_r _ _ (A.div_l _ _ (A.sub_l _ _ (A.mul_l _ _ hn))))
      · exact Or.inr ⟨x, hx, hn⟩

/-- any NaN entry ⇒ `quadratic_mean` is NaN -/
theorem quadratic_mean_nan (A : NaNArith α) (S : SqrtNaN α) (xs : List α)
    (h : ∃ x ∈ xs, RFun.isNaN x = true) :
    RFun.isNaN (IterStatistics.quadratic_mean xs) = true := by
  obtain ⟨i', m', e, hm⟩ := quadratic_loop_nan A xs (0.0 : α) (0.0 : α) (Or.inr h)
  simp only [IterStatistics.quadratic_mean, e]
  split
  · exact S _ hm
  · exact A.nan

/-! ### geometric mean -/

theorem geometric_loop_nan (A : NaNArith α) (F : NaNFun α) (l : List α) (i s : α)
    (h : RFun.isNaN s = true ∨ ∃ x ∈ l, RFun.isNaN x = true) :
    ∃ i' s', IterStatistics.geometric_mean.loop1 l i s = LoopR.done (i', s')
      ∧ RFun.isNaN s' = true := by
  induction l generalizing i s with
  | nil =>
    rcases h with h | ⟨x, hx, _⟩
    · exact ⟨i, s, by simp [IterStatistics.geometric_mean.loop1], h⟩
    · simp at hx
  | cons a t ih =>
    unfold IterStatistics.geometric_mean.loop1
    apply ih
    rcases h with h | ⟨x, hx, hn⟩
    · exact Or.inl (A.add_l _ _ h)
    · rcases List.mem_cons.1 hx with rfl | hx
      · exact Or.inl (A.add_r _ _ (F.ln _ hn))
      · exact Or.inr ⟨x, hx, hn⟩

/-- any NaN entry ⇒ `geometric_mean` is NaN -/
theorem geometric_mean_nan (A : NaNArith α) (F : NaNFun α) (xs : List α)
    (h : ∃ x ∈ xs, RFun.isNaN x = true) :
    RFun.isNaN (IterStatistics.geometric_mean xs) = true := by
  obtain ⟨i', s', e, hs⟩ := geometric_loop_nan A F xs (0.0 : α) (0.0 : α) (Or.inr h)
  simp only [IterStatistics.geometric_mean, e]
  split
  · exact F.exp _ (A.div_l _ _ hs)
  · exact A.nan

/-! ### harmonic mean -/

/-- the loop adds `1.0 / |x|`: a NaN entry poisons the running sum through `abs` (`AbsNaN`) and
    `/`, unless an earlier negative entry already made the loop return NaN -/
theorem harmonic_loop_nan (A : NaNArith α) (B : AbsNaN α) (l : List α) (i s : α)
    (h : RFun.isNaN s = true ∨ ∃ x ∈ l, RFun.isNaN x = true) :
    IterStatistics.harmonic_mean.loop1 l i s = LoopR.ret (RFun.nan : α) ∨
    ∃ i' s', IterStatistics.harmonic_mean.loop1 l i s = LoopR.done (i', s')
      ∧ RFun.isNaN s' = true := by
  induction l generalizing i s with
  | nil =>
    rcases h with h | ⟨x, hx, _⟩
    · exact Or.inr ⟨i, s, by simp [IterStatistics.harmonic_mean.loop1], h⟩
    · simp at hx
  | cons a t ih =>
    unfold IterStatistics.harmonic_mean.loop1
    by_cases ha : a < (0.0 : α)
    · left; simp [ha]
    · simp only [ha, if_false]
      apply ih
      rcases h with h | ⟨x, hx, hn⟩
      · exact Or.inl (A.add_l _ _ h)
      · rcases List.mem_cons.1 hx with rfl | hx
        · exact Or.inl (A.add_r _ _ (A.div_r _ _ (B _ hn)))
        · exact Or.inr ⟨x, hx, hn⟩

/-- any NaN entry ⇒ `harmonic_mean` is NaN -/
theorem harmonic_mean_nan (A : NaNArith α) (B : AbsNaN α) (xs : List α)
    (h : ∃ x ∈ xs, RFun.isNaN x = true) :
    RFun.isNaN (IterStatistics.harmonic_mean xs) = true := by
  rcases harmonic_loop_nan A B xs (0.0 : α) (0.0 : α) (Or.inr h) with e | ⟨i', s', e, hs⟩
  · simp only [IterStatistics.harmonic_mean, e]; exact A.nan
  · simp only [IterStatistics.harmonic_mean, e]
    split
    · exact A.div_r _ _ hs
    · exact A.nan

/-! ### variance, standard deviation -/

theorem variance_loop_nan (A : NaNArith α) (l : List α) (i s v : α)
    (h : RFun.isNaN v = true ∨ (RFun.isNaN s = true ∧ l ≠ []) ∨ ∃ x ∈ l, RFun.isNaN x = true) :
    ∃ i' s' v', IterStatistics.variance.loop2 l i s v = LoopR.done (i', s', v')
      ∧ RFun.isNaN v' = true := by
  induction l generalizing i s v with
  | nil =>
    rcases h with h | ⟨_, h⟩ | ⟨x, hx, _⟩
    · exact ⟨i, s, v, by simp [IterStatistics.variance.loop2], h⟩
    · exact absurd rfl h
    · simp at hx
  | cons a t ih =>
    unfold IterStatistics.variance.loop2
    apply ih
    have hs1 : RFun.isNaN (s + a) = true →
        RFun.isNaN (v + ((((i + (1.0 : α)) * a) - (s + a)) * (((i + (1.0 : α)) * a) - (s + a)))
          / ((i + (1.0 : α)) * ((i + (1.0 : α)) - (1.0 : α)))) = true :=
      fun hs => A.add_r _ _ (A.div_l _ _ (A.mul_l _ _ (A.sub_r _ _ hs)))
    rcases h with h | ⟨h, _⟩ | ⟨x, hx, hn⟩
    · exact Or.inl (A.add_l _ _ h)
    · exact Or.inl (hs1 (A.add_l _ _ h))
    · rcases List.mem_cons.1 hx with rfl | hx
      · exact Or.inl (hs1 (A.add_r _ _ hn))
      · exact Or.inr (Or.inr ⟨x, hx, hn⟩)

/-- any NaN entry ⇒ `variance` is NaN -/
theorem variance_nan (A : NaNArith α) (h1 : ¬ ((1.0 : α) < (1.0 : α))) (xs : List α)
    (h : ∃ x ∈ xs, RFun.isNaN x = true) :
    RFun.isNaN (IterStatistics.variance xs) = true := by
  match xs, h with
  | [x0], _ => rw [variance_singleton h1]; exact A.nan
  | x0 :: y :: t, h =>
    have hc : RFun.isNaN (0.0 : α) = true ∨ (RFun.isNaN x0 = true ∧ y :: t ≠ [])
        ∨ ∃ x ∈ y :: t, RFun.isNaN x = true := by
      obtain ⟨x, hx, hn⟩ := h
      rcases List.mem_cons.1 hx with rfl | hx
      · exact Or.inr (Or.inl ⟨hn, by simp⟩)
      · exact Or.inr (Or.inr ⟨x, hx, hn⟩)
    obtain ⟨i', s', v', e, hv⟩ := variance_loop_nan A (y :: t) (1.0 : α) x0 (0.0 : α) hc
    simp only [IterStatistics.variance, listNext, e]
    split
    · exact A.div_l _ _ hv
    · exact A.nan

/-- any NaN entry ⇒ `std_dev` is NaN -/
theorem std_dev_nan (A : NaNArith α) (S : SqrtNaN α) (h1 : ¬ ((1.0 : α) < (1.0 : α)))
    (xs : List α) (h : ∃ x ∈ xs, RFun.isNaN x = true) :
    RFun.isNaN (IterStatistics.std_dev xs) = true :=
  S _ (variance_nan A h1 xs h)

theorem popvar_loop_eq' (l : List α) (x i s v : α) :
    IterStatistics.population_variance.loop2 l x i s v = IterStatistics.variance.loop2 l i s v := by
  induction l generalizing x i s v with
  | nil => simp [IterStatistics.population_variance.loop2, IterStatistics.variance.loop2]
  | cons a t ih =>
    unfold IterStatistics.population_variance.loop2 IterStatistics.variance.loop2
    exact ih _ _ _ _

/-- any NaN entry ⇒ `population_variance` is NaN, for data of EVERY length: a NaN first entry is
    caught by the `is_nan` guard (`population_variance_head_nan`; on one-entry data nothing else
    would ever look at it), a later one poisons the update loop -/
theorem population_variance_nan (A : NaNArith α) (xs : List α)
    (h : ∃ x ∈ xs, RFun.isNaN x = true) :
    RFun.isNaN (IterStatistics.population_variance xs) = true := by
  match xs, h with
  | x0 :: t, h =>
    by_cases h0 : RFun.isNaN x0 = true
    · rw [population_variance_head_nan x0 t h0]; exact A.nan
    · match t, h with
      | [], h =>
        obtain ⟨x, hx, hn⟩ := h
        rcases List.mem_cons.1 hx with rfl | hx
        · exact absurd hn h0
        · simp at hx
      | y :: t, h =>
        have hc : RFun.isNaN (0.0 : α) = true ∨ (RFun.isNaN x0 = true ∧ y :: t ≠ [])
            ∨ ∃ x ∈ y :: t, RFun.isNaN x = true := by
          obtain ⟨x, hx, hn⟩ := h
          rcases List.mem_cons.1 hx with rfl | hx
          · exact Or.inr (Or.inl ⟨hn, by simp⟩)
          · exact Or.inr (Or.inr ⟨x, hx, hn⟩)
        obtain ⟨i', s', v', e, hv⟩ := variance_loop_nan A (y :: t) (1.0 : α) x0 (0.0 : α) hc
        simp only [IterStatistics.population_variance, listNext, h0, popvar_loop_eq', e]
        exact A.div_l _ _ hv

/-- any NaN entry ⇒ `population_std_dev` is NaN, for data of every length -/
theorem population_std_dev_nan (A : NaNArith α) (S : SqrtNaN α) (xs : List α)
    (h : ∃ x ∈ xs, RFun.isNaN x = true) :
    RFun.isNaN (IterStatistics.population_std_dev xs) = true :=
  S _ (population_variance_nan A xs h)

/-- any NaN entry in data with at least two entries ⇒ `population_variance` is NaN
    (special case of `population_variance_nan`, which needs no length restriction) -/
theorem population_variance_nan_of_two_le (A : NaNArith α) (xs : List α) (_h2 : 2 ≤ xs.length)
    (h : ∃ x ∈ xs, RFun.isNaN x = true) :
    RFun.isNaN (IterStatistics.population_variance xs) = true :=
  population_variance_nan A xs h

/-- … and `population_std_dev` -/
theorem population_std_dev_nan_of_two_le (A : NaNArith α) (S : SqrtNaN α) (xs : List α)
    (h2 : 2 ≤ xs.length) (h : ∃ x ∈ xs, RFun.isNaN x = true) :
    RFun.isNaN (IterStatistics.population_std_dev xs) = true :=
  S _ (population_variance_nan_of_two_le A xs h2 h)

/-- On one-entry data whose entry is not NaN, `population_variance` does not look at the entry any
    further: the result is `0.0 / 1.0` (every carrier).  (A NaN entry gives NaN:
    `population_variance_singleton_nan`.) -/
theorem population_variance_singleton_eq (x : α) (h : RFun.isNaN x = false) :
    IterStatistics.population_variance [x] = (0.0 : α) / (1.0 : α) := by
  simp [IterStatistics.population_variance, IterStatistics.population_variance.loop2, listNext, h]

/-- `population_variance [x]` is NaN exactly when `x` is NaN, on every carrier with the NaN laws
    on which `0.0 / 1.0` is not a NaN -/
theorem population_variance_singleton_isNaN_iff (A : NaNArith α)
    (h01 : RFun.isNaN ((0.0 : α) / (1.0 : α)) = false) (x : α) :
    RFun.isNaN (IterStatistics.population_variance [x]) = true ↔ RFun.isNaN x = true := by
  constructor
  · intro h
    cases hx : RFun.isNaN x with
    | true => rfl
    | false =>
      rw [population_variance_singleton_eq x hx, h01] at h
      exact absurd h Bool.false_ne_true
  · intro hx
    exact population_variance_nan A [x] ⟨x, by simp, hx⟩

/-! ### covariance -/

theorem covariance_loop_nan (A : NaNArith α) (l ys : List α) (hlen : l.length = ys.length)
    (n m1 m2 c : α)
    (h : RFun.isNaN c = true ∨ (∃ x ∈ l, RFun.isNaN x = true) ∨ ∃ y ∈ ys, RFun.isNaN y = true) :
    ∃ n' m1' m2' c', IterStatistics.covariance.loop1 l ys n m1 m2 c
        = LoopR.done ([], n', m1', m2', c') ∧ RFun.isNaN c' = true := by
  induction l generalizing ys n m1 m2 c with
  | nil =>
    cases ys with
    | nil =>
      rcases h with h | ⟨x, hx, _⟩ | ⟨x, hx, _⟩
      · exact ⟨n, m1, m2, c, by simp [IterStatistics.covariance.loop1], h⟩
      · simp at hx
      · simp at hx
    | cons b r => simp at hlen
  | cons a t ih =>
    cases ys with
    | nil => simp at hlen
    | cons b r =>
      unfold IterStatistics.covariance.loop1
      simp only [listNext]
      apply ih r (by simpa using hlen)
      rcases h with h | ⟨x, hx, hn⟩ | ⟨y, hy, hn⟩
      · exact Or.inl (A.add_l _ _ h)
      · rcases List.mem_cons.1 hx with rfl | hx
        · exact Or.inl (A.add_r _ _ (A.mul_l _ _ (A.sub_l _ _ hn)))
        · exact Or.inr (Or.inl ⟨x, hx, hn⟩)
      · rcases List.mem_cons.1 hy with rfl | hy
        · exact Or.inl (A.add_r _ _ (A.mul_r _ _ (A.sub_l _ _ hn)))
        · exact Or.inr (Or.inr ⟨y, hy, hn⟩)

/-- any NaN entry in either sample (equal lengths) ⇒ `covariance` is NaN -/
theorem covariance_nan (A : NaNArith α) (xs ys : List α) (hlen : xs.length = ys.length)
    (h : (∃ x ∈ xs, RFun.isNaN x = true) ∨ ∃ y ∈ ys, RFun.isNaN y = true) :
    RFun.isNaN (IterStatistics.covariance xs ys) = true := by
  obtain ⟨n', m1', m2', c', e, hc⟩ := covariance_loop_nan A xs ys hlen (0.0 : α) (0.0 : α)
    (0.0 : α) (0.0 : α) (Or.inr h)
  simp only [IterStatistics.covariance, e, listNext, Option.isSome_none, Bool.false_eq_true,
    if_false]
  split
  · exact A.div_l _ _ hc
  · exact A.nan

/-- any NaN entry in either sample (equal lengths) ⇒ `population_covariance` is NaN -/
theorem population_covariance_nan (A : NaNArith α) (xs ys : List α)
    (hlen : xs.length = ys.length)
    (h : (∃ x ∈ xs, RFun.isNaN x = true) ∨ ∃ y ∈ ys, RFun.isNaN y = true) :
    RFun.isNaN (IterStatistics.population_covariance xs ys) = true := by
  obtain ⟨n', m1', m2', c', e, hc⟩ := covariance_loop_nan A xs ys hlen (0.0 : α) (0.0 : α)
    (0.0 : α) (0.0 : α) (Or.inr h)
  simp only [IterStatistics.population_covariance, pcov_loop_eq, e, listNext, Option.isSome_none,
    Bool.false_eq_true, if_false]
  split
  · exact A.div_l _ _ hc
  · exact A.nan

end

/-! ### the documented convention HOLDS for `population_variance` on one-entry data -/

/-- `Statistics::population_variance` is documented to return NaN "if data is empty or an entry
    is `f64::NAN`"; on the one-entry vector `[NaN]` the code now returns NaN (IEEE `Float`,
    kernel-evaluated) — before the `is_nan` guard on the first element it returned
    `0.0 / 1.0 = 0`.  A non-NaN single entry still gives `0`. -/
theorem population_variance_singleton_nan_float :
    (RFun.isNaN (RFun.nan : Float) = true) ∧
    RFun.isNaN (IterStatistics.population_variance [(RFun.nan : Float)]) = true ∧
    RFun.isNaN (IterStatistics.population_std_dev [(RFun.nan : Float)]) = true ∧
    IterStatistics.population_variance [(3.0 : Float)] == (0.0 : Float) := by
  refine ⟨by decide, ?_, ?_, ?_⟩
  · rw [population_variance_singleton_nan _ (by decide)]; decide
  · rw [IterStatistics.population_std_dev, population_variance_singleton_nan _ (by decide)]; decide
  · rw [population_variance_singleton_eq _ (by decide)]; decide

end Statrs.Props.C13
