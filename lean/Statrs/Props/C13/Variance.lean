/-
  C13 — the streaming (one-pass, West/Welford-style) `variance`, `population_variance`,
  `std_dev`, `population_std_dev` of `impl Statistics<f64> for T: IntoIterator` equal the
  textbook two-pass definitions (Statrs/Spec/Stats.lean) for data of EVERY length, in exact
  arithmetic (carrier ℝ), and do not depend on the order of the data.
  (`population_variance`'s `if sum.is_nan() { return NAN }` guard on the first element is dead over
  ℝ, where `isNaN` is constantly false; its effect on carriers with NaNs is in
  Conventions.lean / NaNPropagation.lean / FloatInst.lean.)
-/
import Statrs.Lemmas.Stats
import Statrs.Props.C13.Conventions
namespace Statrs.Props.C13
open Statrs Statrs.Gen Statrs.Lemmas.Stats

/-- state of the variance loop after the whole of `x :: t` has been consumed -/
private theorem var_run (x : ℝ) (t : List ℝ) :
    ∃ v', IterStatistics.variance.loop2 t (1 : ℝ) x (0 : ℝ)
        = LoopR.done ((((x :: t).length : ℕ) : ℝ), (x :: t).sum, v')
      ∧ v' = Spec.Stats.ssd (x :: t) := by
  obtain ⟨v', e, hv⟩ := variance_loop t 1 le_rfl x 0
  refine ⟨v', ?_, ?_⟩
  · rw [show ((1 : ℕ) : ℝ) = 1 by norm_num] at e
    rw [e]; simp only [List.length_cons, List.sum_cons, LoopR.done.injEq, Prod.mk.injEq, and_true]
    push_cast; ring
  · rw [ssd_eq]
    have hn : (((1 + t.length : ℕ)) : ℝ) ≠ 0 := by positivity
    simp only [List.length_cons, List.sum_cons, List.map_cons] at hv ⊢
    have : ((t.length + 1 : ℕ) : ℝ) = ((1 + t.length : ℕ) : ℝ) := by push_cast; ring
    rw [this]
    push_cast at hv hn ⊢
    field_simp at hv ⊢
    linarith

/-! ### sample variance / standard deviation -/

/-- `variance xs = Σ (x - x̄)² / (n - 1)` for every data vector with at least two entries -/
theorem variance_eq (xs : List ℝ) (h : 2 ≤ xs.length) :
    IterStatistics.variance xs = Spec.Stats.variance xs := by
  match xs, h with
  | x :: t, h =>
    obtain ⟨v', e, hv⟩ := var_run x t
    have hlt : (1 : ℝ) < (((x :: t).length : ℕ) : ℝ) := by exact_mod_cast h
    simp only [IterStatistics.variance, listNext, lit_one, lit_zero, e, hlt, if_true]
    rw [hv]; rfl

/-- `std_dev = sqrt ∘ variance`, every carrier -/
theorem std_dev_def {α : Type} [Add α] [Sub α] [Mul α] [Div α] [Neg α] [LT α] [LE α] [BEq α]
    [DecidableLT α] [DecidableLE α] [OfScientific α] [Inhabited α] [RFun α] (xs : List α) :
    IterStatistics.std_dev xs = RFun.sqrt (IterStatistics.variance xs) := rfl

/-- `population_std_dev = sqrt ∘ population_variance`, every carrier -/
theorem population_std_dev_def {α : Type} [Add α] [Sub α] [Mul α] [Div α] [Neg α] [LT α] [LE α]
    [BEq α] [DecidableLT α] [DecidableLE α] [OfScientific α] [Inhabited α] [RFun α] (xs : List α) :
    IterStatistics.population_std_dev xs = RFun.sqrt (IterStatistics.population_variance xs) := rfl

/-- `std_dev xs = √(Σ (x - x̄)² / (n - 1))` for every data vector with at least two entries -/
theorem std_dev_eq (xs : List ℝ) (h : 2 ≤ xs.length) :
    IterStatistics.std_dev xs = Spec.Stats.stdDev xs := by
  simp only [IterStatistics.std_dev, variance_eq xs h, rfun_sqrt]; rfl

private theorem h11 : ¬ ((1.0 : ℝ) < (1.0 : ℝ)) := by norm_num

/-- sum of squared deviations is order-independent -/
private theorem ssd_perm {xs ys : List ℝ} (h : xs.Perm ys) :
    Spec.Stats.ssd xs = Spec.Stats.ssd ys := by
  unfold Spec.Stats.ssd Spec.Stats.mean
  rw [h.sum_eq, h.length_eq, (h.map _).sum_eq]

/-- `variance` does not depend on the order of the data (any length) -/
theorem variance_perm (xs ys : List ℝ) (h : xs.Perm ys) :
    IterStatistics.variance xs = IterStatistics.variance ys := by
  by_cases h2 : 2 ≤ xs.length
  · rw [variance_eq xs h2, variance_eq ys (h.length_eq ▸ h2)]
    unfold Spec.Stats.variance
    rw [ssd_perm h, h.length_eq]
  · rw [variance_lt_two h11 xs (by omega), variance_lt_two h11 ys (by rw [← h.length_eq]; omega)]

/-- `std_dev` does not depend on the order of the data -/
theorem std_dev_perm (xs ys : List ℝ) (h : xs.Perm ys) :
    IterStatistics.std_dev xs = IterStatistics.std_dev ys := by
  simp only [IterStatistics.std_dev, variance_perm xs ys h]

/-! ### population variance / standard deviation -/

/-- `population_variance xs = Σ (x - x̄)² / n` for every nonempty data vector -/
theorem population_variance_eq (xs : List ℝ) (h : xs ≠ []) :
    IterStatistics.population_variance xs = Spec.Stats.populationVariance xs := by
  match xs, h with
  | x :: t, _ =>
    obtain ⟨v', e, hv⟩ := var_run x t
    simp only [IterStatistics.population_variance, listNext, rfun_isNaN, Bool.false_eq_true,
      if_false, popvar_loop_eq, lit_one, lit_zero, e]
    rw [hv]; rfl

/-- `population_std_dev xs = √(Σ (x - x̄)² / n)` for every nonempty data vector -/
theorem population_std_dev_eq (xs : List ℝ) (h : xs ≠ []) :
    IterStatistics.population_std_dev xs = Spec.Stats.populationStdDev xs := by
  simp only [IterStatistics.population_std_dev, population_variance_eq xs h, rfun_sqrt]; rfl

/-- `population_variance` does not depend on the order of the data (any length) -/
theorem population_variance_perm (xs ys : List ℝ) (h : xs.Perm ys) :
    IterStatistics.population_variance xs = IterStatistics.population_variance ys := by
  by_cases hx : xs = []
  · subst hx; rw [List.nil_perm.1 h]
  · have hy : ys ≠ [] := fun hy => hx (by subst hy; exact List.perm_nil.1 h)
    rw [population_variance_eq xs hx, population_variance_eq ys hy]
    unfold Spec.Stats.populationVariance
    rw [ssd_perm h, h.length_eq]

/-- `population_std_dev` does not depend on the order of the data -/
theorem population_std_dev_perm (xs ys : List ℝ) (h : xs.Perm ys) :
    IterStatistics.population_std_dev xs = IterStatistics.population_std_dev ys := by
  simp only [IterStatistics.population_std_dev, population_variance_perm xs ys h]

/-- the variance of a single observation is `0` in the population convention -/
theorem population_variance_singleton (x : ℝ) : IterStatistics.population_variance [x] = 0 := by
  rw [population_variance_eq _ (by simp)]
  simp [Spec.Stats.populationVariance, Spec.Stats.ssd, Spec.Stats.mean]

/-! ### non-vacuity -/
example : ∃ xs : List ℝ, 2 ≤ xs.length := ⟨[1, 2], by simp⟩
example : IterStatistics.variance [(1 : ℝ), 2, 6] = 7 := by
  rw [variance_eq _ (by simp)]
  norm_num [Spec.Stats.variance, Spec.Stats.ssd, Spec.Stats.mean]

end Statrs.Props.C13
