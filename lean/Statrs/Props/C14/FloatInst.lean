/-
  C14 — the carrier hypothesis `DataOK` of the permutation theorems (Permutation.lean) is TRUE of
  the executable carrier, IEEE `Float` (Lean's kernel-visible `Float.Model`): every double is
  `≤`-reflexive or NaN (and a NaN is `≤` nothing).  Hence, for `Float` data — NaN entries
  included — every order-statistics call hands back a permutation of the buffer or, on fuel
  exhaustion only, the panic value.
-/
import Statrs.Props.C14.Permutation
import Statrs.Inst.Float
namespace Statrs.Props.C14
open Statrs Statrs.Gen Statrs.Lemmas.Select
open Float.Model

private theorem float_le_def (a b : Float) :
    a ≤ b ↔ (a.toModel.unpack.compare b.toModel.unpack).any (fun x => x.isLE) = true := by
  show a.le b = true ↔ _
  simp only [Float.le]
  rw [decide_eq_true_iff]
  show a.toModel.le b.toModel = true ↔ _
  simp only [Float.Model.le, UnpackedFloat.le]

private theorem compare_self (u : UnpackedFloat) (h : u ≠ .notANumber) :
    u.compare u = some .eq := by
  rcases u with s | _ | s | ⟨s, m, e, hm⟩
  · cases s <;> simp [UnpackedFloat.compare] <;> rfl
  · exact absurd rfl h
  · simp [UnpackedFloat.compare]
  · cases s <;> simp [UnpackedFloat.compare, Ordering.then]

private theorem compare_nan_left' (b : UnpackedFloat) :
    UnpackedFloat.compare .notANumber b = none := by
  cases b <;> rfl

/-- every IEEE double is `≤`-reflexive or NaN-like -/
theorem leOK_float (x : Float) : LeOK x := by
  by_cases h : x.toModel.unpack = .notANumber
  · right
    intro y
    rw [float_le_def, h, compare_nan_left']; simp
  · left
    rw [float_le_def, compare_self _ h]; rfl

theorem dataOK_float (l : List Float) : DataOK l := fun x _ => leOK_float x

theorem select_inplace_perm_float (self : Data Float) (rank : Int) :
    PermOrPanic (Data.select_inplace self rank).2.f_0 self.f_0 :=
  select_inplace_permOrPanic self rank (dataOK_float _)

theorem order_statistic_perm_float (self : Data Float) (order : Int) :
    PermOrPanic (Data.order_statistic self order).2.f_0 self.f_0 :=
  order_statistic_perm_partial self order (dataOK_float _)

theorem median_perm_float (self : Data Float) :
    PermOrPanic (Data.median self).2.f_0 self.f_0 :=
  median_perm_partial self (dataOK_float _)

theorem quantile_perm_float (self : Data Float) (tau : Float) :
    PermOrPanic (Data.quantile self tau).2.f_0 self.f_0 :=
  quantile_perm_partial self tau (dataOK_float _)

theorem interquartile_range_perm_float (self : Data Float) :
    PermOrPanic (Data.interquartile_range self).2.f_0 self.f_0 :=
  interquartile_range_perm_partial self (dataOK_float _)

end Statrs.Props.C14
