/-
  C14 (float level) — order statistics, median and the R-8 quantile of `Data<[f64]>` on EVERY carrier satisfying
  `Statrs.Spec.FloatLaws` (hence on IEEE `Float`, see `FloatQuantileInst.lean`), for NaN-free FINITE data.

  What is proved (all for the generated `Data.select_inplace / order_statistic / median / quantile`, value
  component `.1`; `hnp : (…).2.f_0 ≠ []` says the call did not end in the model's panic value, which only
  arises from fuel exhaustion of the quickselect loops):
    * `select_inplace_mem_fl`, `order_statistic_range_fl`  — the value is an ENTRY of the data, hence not NaN and
      `min ≤ · ≤ max`;
    * `median_odd_range_fl`   — same for the median of an odd number of entries;
    * `median_even_nn_fl`     — the even-length median `(x + y) / 2.0` of two entries is never NaN;
      `median_even_range_fl_rel` — it lies in `[min, max]` when `min + min`, `max + max` do not overflow, relative
      to `HalfLaws` (`(x + x) / 2.0 == x`, an exact IEEE fact not in `FloatLaws`);  overflow makes it `+∞ > max`
      (`median_overflow_counterexample`, kernel-evaluated on `Float`);
    * `lerp_range_fl`         — what the monotone laws carry about `a + t * (b − a)` (`a ≤ b` finite, `b − a`
      finite, `0 ≤ t ≤ 1`): not NaN, `a ≤ a + t·(b − a) ≤ a + (b − a)`.  The upper limit is the `t = 1` value, and
      on `Float` it CAN exceed `b` (`lerp_one_overshoot_counterexample`): "`≤ b`" is not a consequence of the laws;
    * `quantile_shape_fl`     — `quantile τ` (`0 ≤ τ ≤ 1`) is `min`, `max`, or `qLo + qFrac · (qHi − qLo)` where
      `qLo`, `qHi` are the two successively selected ENTRIES and `qFrac = h − (h as i64)`;
    * `quantile_range_fl_rel` — not NaN and `min ≤ quantile τ`, and `≤ qLo + (qHi − qLo)` in the interpolation
      branch, relative to `qLo ≤ qHi` (the selections are adjacent order statistics), `0 ≤ qFrac ≤ 1` (the cast
      truncates) and `max − min` finite.  Without the last premise the result can be NaN for finite NaN-free data
      (`quantile_nan_counterexample`: `[-1e308, -1e308, 1e308]`, `τ = 0.5`);
    * `quantile_range_full_fl_rel` — additionally relative to `LerpLaws` (an interpolation with weight `< 1` does
      not overshoot; PROVED for `Float`, `Draft/Lemmas/LerpLawsFloat.lean`) and `qFrac < 1`: `min ≤ quantile τ ≤ max`
      and `qLo ≤ quantile τ ≤ qHi` in the interpolation branch.
-/
import Statrs.Lemmas.SelectValue
import Statrs.Lemmas.FloatMinMax
import Statrs.Props.C14.Quantile
import Statrs.Lemmas.FloatLawsBasic
import Statrs.Lemmas.FloatLawsExtra
import Statrs.Lemmas.LerpLaws
set_option linter.unusedSectionVars false
set_option linter.unusedVariables false
namespace Statrs.Props.C14
open Statrs Statrs.Gen Statrs.Spec Statrs.Lemmas.Select Statrs.Lemmas.FloatMinMax

variable {α : Type} [Add α] [Sub α] [Mul α] [Div α] [Neg α] [LT α] [LE α] [BEq α]
  [DecidableLT α] [DecidableLE α] [OfScientific α] [Inhabited α] [RFun α]

/-- `(x + x) / 2.0` gives `x` back unless `x + x` overflows: doubling and halving are exact in binary floating
    point (also for subnormal `x`).  Not a consequence of `FloatLaws`; proved for `Float` in
    `FloatQuantileInst.lean` if stated there, otherwise a premise. -/
structure HalfLaws (α : Type) [Add α] [Div α] [BEq α] [OfScientific α] [RFun α] : Prop where
  add_self_half : ∀ x : α, Spec.Fin (x + x) → (((x + x) / (2.0 : α)) == x) = true

section laws
variable (L : FloatLaws α)
include L

/-! ### the order hypotheses of C13/C14 follow from `FloatLaws` -/

/-- full(∀α): every value is `≤`-reflexive or NaN-like, so the permutation theorems of C14 apply -/
theorem dataOK_of_floatLaws (l : List α) : DataOK l := fun x _ => by
  rcases L.nn_or_nan x with h | h
  · exact Or.inl (L.le_rfl' h)
  · exact Or.inr (fun y => L.not_le_nan_left h)

/-! ### `select_inplace`, `order_statistic` -/

/-- full(∀α): `select_inplace(rank)`, `rank ≥ 0`, on non-empty NaN-free data returns an ENTRY of the data and
    leaves a permutation of it (unless the quickselect ran out of fuel) -/
theorem select_inplace_mem_fl (self : Data α) (rank : Int) (h0 : 0 ≤ rank) (hne : self.f_0 ≠ [])
    (hnn : ∀ x ∈ self.f_0, NN x) (hnp : (Data.select_inplace self rank).2.f_0 ≠ []) :
    (Data.select_inplace self rank).1 ∈ self.f_0 ∧
    (Data.select_inplace self rank).2.f_0.Perm self.f_0 := by
  obtain ⟨m1, M1, _⟩ := min_max_bracket_fl L self.f_0 hne hnn
  by_cases hr0 : rank = 0
  · subst hr0
    have : Data.select_inplace self 0 = (Data.min self, self) := by
      unfold Data.select_inplace; simp
    rw [this]; exact ⟨m1, List.Perm.refl _⟩
  · by_cases hbig : usub (Data.len self) 1 < rank
    · have : Data.select_inplace self rank = (Data.max self, self) := by
        unfold Data.select_inplace; simp [hr0, hbig]
      rw [this]; exact ⟨M1, List.Perm.refl _⟩
    · have hlt : rank < self.f_0.length := by
        unfold usub Data.len listLen at hbig
        have := panicInt_neg
        split_ifs at hbig <;> omega
      obtain ⟨_, hp, hm⟩ :=
        select_inplace_inner_value self rank (dataOK_of_floatLaws L _) (by omega) hlt hnp
      exact ⟨hm, hp⟩

omit L in
/-- full(∀α): a selection on the empty buffer (the panic value's buffer) returns the empty buffer -/
theorem select_inplace_nil_buffer (self : Data α) (rank : Int) (h0 : 0 ≤ rank) (h : self.f_0 = []) :
    (Data.select_inplace self rank).2.f_0 = [] := by
  unfold Data.select_inplace
  by_cases hr0 : rank = 0
  · simp [hr0, h]
  · have hbig : usub (Data.len self) 1 < rank := by
      unfold usub Data.len listLen
      have := panicInt_neg
      simp only [h, List.length_nil]
      split_ifs <;> omega
    simp [hr0, hbig, h]

/-- full(∀α): an entry of NaN-free data lies between `Data.min` and `Data.max` and is not NaN -/
theorem entry_range_fl (self : Data α) (hnn : ∀ x ∈ self.f_0, NN x) {x : α} (hx : x ∈ self.f_0) :
    NN x ∧ Data.min self ≤ x ∧ x ≤ Data.max self := by
  have hne : self.f_0 ≠ [] := List.ne_nil_of_mem hx
  obtain ⟨_, _, hb⟩ := min_max_bracket_fl L self.f_0 hne hnn
  exact ⟨hnn x hx, (hb x hx).1, (hb x hx).2⟩

/-- full(∀α): `order_statistic(k)`, `1 ≤ k ≤ n`, of NaN-free data is an entry of the data: not NaN and in
    `[min, max]` (unless the quickselect ran out of fuel) -/
theorem order_statistic_range_fl (self : Data α) (order : Int) (h1 : 1 ≤ order)
    (h2 : order ≤ self.f_0.length) (hnn : ∀ x ∈ self.f_0, NN x)
    (hnp : (Data.order_statistic self order).2.f_0 ≠ []) :
    (Data.order_statistic self order).1 ∈ self.f_0 ∧ NN (Data.order_statistic self order).1 ∧
    Data.min self ≤ (Data.order_statistic self order).1 ∧
    (Data.order_statistic self order).1 ≤ Data.max self := by
  have hne : self.f_0 ≠ [] := by
    intro h; rw [h] at h2; simp at h2; omega
  obtain ⟨m1, M1, _⟩ := min_max_bracket_fl L self.f_0 hne hnn
  have key : (Data.order_statistic self order).1 ∈ self.f_0 := by
    by_cases c1 : order = 1
    · subst c1; rw [order_statistic_one]; exact m1
    · by_cases c2 : order = Data.len self
      · have hn1 : Data.len self ≠ 1 := fun h => c1 (c2.trans h)
        rw [c2, order_statistic_last self hn1]; exact M1
      · have hlen : order < Data.len self := by
          unfold Data.len listLen at c2 ⊢; omega
        rw [order_statistic_inner self order (by omega) hlen] at hnp ⊢
        exact (select_inplace_mem_fl L self (order - 1) (by omega) hne hnn hnp).1
  exact ⟨key, entry_range_fl L self hnn key⟩

/-! ### `median` -/

/-- full(∀α): the median of an ODD number of NaN-free entries is an entry: not NaN and in `[min, max]` -/
theorem median_odd_range_fl (self : Data α) (hodd : umod (Data.len self) 2 ≠ 0)
    (hnn : ∀ x ∈ self.f_0, NN x) (hnp : (Data.median self).2.f_0 ≠ []) :
    (Data.median self).1 ∈ self.f_0 ∧ NN (Data.median self).1 ∧
    Data.min self ≤ (Data.median self).1 ∧ (Data.median self).1 ≤ Data.max self := by
  have hne : self.f_0 ≠ [] := by
    intro h; apply hodd; unfold umod Data.len listLen; simp [h]
  have e : Data.median self = Data.select_inplace self (udiv (Data.len self) 2) := by
    unfold Data.median; simp [hodd]
  have hk : 0 ≤ udiv (Data.len self) 2 := by
    unfold udiv Data.len listLen; simp; omega
  rw [e] at hnp ⊢
  have key := (select_inplace_mem_fl L self _ hk hne hnn hnp).1
  exact ⟨key, entry_range_fl L self hnn key⟩

omit L in
/-- the two entries averaged by the even-length median -/
theorem median_even_eq (self : Data α) (heven : umod (Data.len self) 2 = 0) :
    Data.median self =
      (((Data.select_inplace self (usatSub (udiv (Data.len self) 2) 1)).1 +
        (Data.select_inplace (Data.select_inplace self (usatSub (udiv (Data.len self) 2) 1)).2
          (udiv (Data.len self) 2)).1) / (2.0 : α),
       (Data.select_inplace (Data.select_inplace self (usatSub (udiv (Data.len self) 2) 1)).2
          (udiv (Data.len self) 2)).2) := by
  unfold Data.median; simp [heven]

/-- full(∀α): for an EVEN number (≥ 2) of finite NaN-free entries the median is `(x + y) / 2.0` for two entries
    `x`, `y` of the data -/
theorem median_even_shape_fl (self : Data α) (heven : umod (Data.len self) 2 = 0) (hne : self.f_0 ≠ [])
    (hnn : ∀ x ∈ self.f_0, NN x) (hnp : (Data.median self).2.f_0 ≠ []) :
    ∃ x ∈ self.f_0, ∃ y ∈ self.f_0, (Data.median self).1 = (x + y) / (2.0 : α) := by
  rw [median_even_eq self heven] at hnp ⊢
  have hk : 0 ≤ udiv (Data.len self) 2 := by
    unfold udiv Data.len listLen; simp; omega
  have hk1 : 0 ≤ usatSub (udiv (Data.len self) 2) 1 := by unfold usatSub; split_ifs <;> omega
  have hnp1 : (Data.select_inplace self (usatSub (udiv (Data.len self) 2) 1)).2.f_0 ≠ [] := by
    intro h; exact hnp (select_inplace_nil_buffer _ _ hk h)
  obtain ⟨hx, hp⟩ := select_inplace_mem_fl L self _ hk1 hne hnn hnp1
  have hne2 : (Data.select_inplace self (usatSub (udiv (Data.len self) 2) 1)).2.f_0 ≠ [] := hnp1
  have hnn2 : ∀ x ∈ (Data.select_inplace self (usatSub (udiv (Data.len self) 2) 1)).2.f_0, NN x :=
    fun x hx => hnn x (hp.mem_iff.1 hx)
  obtain ⟨hy, _⟩ := select_inplace_mem_fl L _ _ hk hne2 hnn2 hnp
  exact ⟨_, hx, _, hp.mem_iff.1 hy, rfl⟩

/-- full(∀α): the even-length median of FINITE entries is never NaN (it can be `±∞`, see
    `median_overflow_counterexample`) -/
theorem median_even_nn_fl (self : Data α) (heven : umod (Data.len self) 2 = 0) (hne : self.f_0 ≠ [])
    (hfin : ∀ x ∈ self.f_0, Spec.Fin x) (hnp : (Data.median self).2.f_0 ≠ []) :
    NN (Data.median self).1 := by
  obtain ⟨x, hx, y, hy, e⟩ :=
    median_even_shape_fl L self heven hne (fun x hx => L.fin_nn' (hfin x hx)) hnp
  rw [e]
  exact L.div_nn (L.add_nn (L.fin_nn' (hfin x hx)) (L.fin_nn' (hfin y hy)) (Or.inl (hfin x hx)))
    L.two_nn (L.pos_not_beq_zero L.zero_lt_two) (Or.inr L.two_fin)

/-- full(∀α): `x ↦ (x + x) / 2.0`-sandwich: for finite `lo ≤ x`, `y ≤ hi`,
    `(lo + lo) / 2 ≤ (x + y) / 2 ≤ (hi + hi) / 2` -/
theorem avg_sandwich_fl {lo hi x y : α} (hlo : Spec.Fin lo) (hhi : Spec.Fin hi) (hx : Spec.Fin x)
    (hy : Spec.Fin y) (h1 : lo ≤ x) (h2 : lo ≤ y) (h3 : x ≤ hi) (h4 : y ≤ hi) :
    (lo + lo) / (2.0 : α) ≤ (x + y) / (2.0 : α) ∧ (x + y) / (2.0 : α) ≤ (hi + hi) / (2.0 : α) := by
  have n := fun {a b : α} (ha : Spec.Fin a) (hb : Spec.Fin b) =>
    L.add_nn (L.fin_nn' ha) (L.fin_nn' hb) (Or.inl ha)
  have d := fun {a : α} (ha : NN a) =>
    L.div_nn ha L.two_nn (L.pos_not_beq_zero L.zero_lt_two) (Or.inr L.two_fin)
  have s1 : lo + lo ≤ x + y :=
    L.le_tr (L.mono.add_le_add_right lo x lo h1 (n hlo hlo) (n hx hlo))
      (L.mono.add_le_add_left lo y x h2 (n hx hlo) (n hx hy))
  have s2 : x + y ≤ hi + hi :=
    L.le_tr (L.mono.add_le_add_right x hi y h3 (n hx hy) (n hhi hy))
      (L.mono.add_le_add_left y hi hi h4 (n hhi hy) (n hhi hhi))
  exact ⟨L.mono.div_le_div_right _ _ _ s1 L.zero_lt_two (d (n hlo hlo)) (d (n hx hy)),
    L.mono.div_le_div_right _ _ _ s2 L.zero_lt_two (d (n hx hy)) (d (n hhi hhi))⟩

/-- rel(HalfLaws): the even-length median of finite entries lies in `[min, max]` provided `min + min` and
    `max + max` do not overflow -/
theorem median_even_range_fl_rel (H : HalfLaws α) (self : Data α) (heven : umod (Data.len self) 2 = 0)
    (hne : self.f_0 ≠ []) (hfin : ∀ x ∈ self.f_0, Spec.Fin x)
    (hlo : Spec.Fin (Data.min self + Data.min self)) (hhi : Spec.Fin (Data.max self + Data.max self))
    (hnp : (Data.median self).2.f_0 ≠ []) :
    Data.min self ≤ (Data.median self).1 ∧ (Data.median self).1 ≤ Data.max self := by
  have hnn : ∀ x ∈ self.f_0, NN x := fun x hx => L.fin_nn' (hfin x hx)
  obtain ⟨x, hx, y, hy, e⟩ := median_even_shape_fl L self heven hne hnn hnp
  obtain ⟨m1, M1, hb⟩ := min_max_bracket_fl L self.f_0 hne hnn
  rw [e]
  obtain ⟨a1, a2⟩ := avg_sandwich_fl L (hfin _ m1) (hfin _ M1) (hfin x hx) (hfin y hy)
    (hb x hx).1 (hb y hy).1 (hb x hx).2 (hb y hy).2
  exact ⟨L.le_of_beq_of_le (L.beq_symm (H.add_self_half _ hlo)) a1,
    L.le_of_le_of_beq a2 (H.add_self_half _ hhi)⟩

/-! ### the interpolation `a + t * (b − a)` -/

/-- full(∀α): what the monotone laws carry about the linear interpolation exactly as generated,
    `a + t * (b − a)` with finite `a ≤ b`, finite `b − a` and `0 ≤ t ≤ 1`: it is not NaN, it is `≥ a`, and it is
    `≤ a + (b − a)` (its value at `t = 1`) -/
theorem lerp_range_fl (E : ExtraLaws α) {a b t : α} (ha : Spec.Fin a) (hab : a ≤ b)
    (hw : Spec.Fin (b - a)) (ht0 : (0.0 : α) ≤ t) (ht1 : t ≤ (1.0 : α)) :
    NN (a + t * (b - a)) ∧ a ≤ a + t * (b - a) ∧ a + t * (b - a) ≤ a + (b - a) := by
  have htf : Spec.Fin t := E.fin_of_between L L.zero_fin L.one_fin ht0 ht1
  have hd0 : (0.0 : α) ≤ b - a := L.sub_nonneg_of_le ha hab
  have hpn : NN (t * (b - a)) := L.mul_nn htf hw
  have hp0 : (0.0 : α) ≤ t * (b - a) := L.mul_nonneg ht0 hd0 (Or.inl htf) hpn
  have hp1 : t * (b - a) ≤ b - a := by
    have h1 : NN ((1.0 : α) * (b - a)) := L.mul_nn L.one_fin hw
    exact L.le_of_le_of_beq (L.mono.mul_le_mul_right t 1.0 (b - a) ht1 hd0 hpn h1)
      (L.exact.one_mul _ (L.fin_nn' hw))
  have hs : NN (a + t * (b - a)) := L.add_nn (L.fin_nn' ha) hpn (Or.inl ha)
  have hs0 : NN (a + (0.0 : α)) := L.add_nn (L.fin_nn' ha) L.zero_nn (Or.inl ha)
  have hs1 : NN (a + (b - a)) := L.add_nn (L.fin_nn' ha) (L.fin_nn' hw) (Or.inl ha)
  refine ⟨hs, ?_, L.mono.add_le_add_left _ _ a hp1 hs hs1⟩
  exact L.le_of_beq_of_le (L.beq_symm (L.exact.add_zero a (L.fin_nn' ha)))
    (L.mono.add_le_add_left _ _ a hp0 hs0 hs)

/-! ### `quantile` -/

/-- the position `h = (n + 1/3) τ + 1/3` of the R-8 estimator, as generated -/
def qH (self : Data α) (tau : α) : α :=
  (((RFun.ofInt (Data.len self) : α) + ((1.0 : α) / (3.0 : α))) * tau) + ((1.0 : α) / (3.0 : α))

/-- the first selected entry (rank `⌊h⌋ − 1`) -/
def qLo (self : Data α) (tau : α) : α :=
  (Data.select_inplace self (usatSub (wrapU64 (RFun.toI64 (qH self tau))) 1)).1

/-- the second selected entry (rank `⌊h⌋`, on the buffer left by the first selection) -/
def qHi (self : Data α) (tau : α) : α :=
  (Data.select_inplace (Data.select_inplace self (usatSub (wrapU64 (RFun.toI64 (qH self tau))) 1)).2
    (wrapU64 (RFun.toI64 (qH self tau)))).1

/-- the interpolation weight `h − (h as i64) as f64` -/
def qFrac (self : Data α) (tau : α) : α := qH self tau - (RFun.ofInt (RFun.toI64 (qH self tau)) : α)

omit L in
/-- `Data.quantile` with the truncated position `hf = h as i64` abstracted (a mirror of the generated
    definition: `quantile_eq_with` is `rfl`) -/
def quantileWith (self : Data α) (tau : α) (hf : Int) : α × Data α :=
  if (¬ (((0.0 : α) ≤ tau) ∧ (tau ≤ (1.0 : α)))) ∨ ((Data.is_empty self) = true) then ((RFun.nan : α), self)
  else if (hf ≤ 0) ∨ ((tau == (0.0 : α)) = true) then (Data.min self, self)
  else if ((wrapI64 (Data.len self)) ≤ hf) ∨ ((RFun.ulpsEq tau (1.0 : α)) = true) then (Data.max self, self)
  else
    ((Data.select_inplace self (usatSub (wrapU64 hf) 1)).1 +
        ((qH self tau - (RFun.ofInt hf : α)) *
          ((Data.select_inplace (Data.select_inplace self (usatSub (wrapU64 hf) 1)).2 (wrapU64 hf)).1 -
            (Data.select_inplace self (usatSub (wrapU64 hf) 1)).1)),
     (Data.select_inplace (Data.select_inplace self (usatSub (wrapU64 hf) 1)).2 (wrapU64 hf)).2)

omit L in
/-- full(∀α): the generated `Data.quantile` IS the mirror at `hf = h as i64` -/
theorem quantile_eq_with (self : Data α) (tau : α) :
    Data.quantile self tau = quantileWith self tau (RFun.toI64 (qH self tau)) := rfl

/-- full(∀α): for `0 ≤ τ ≤ 1` and non-empty NaN-free data, `quantile τ` is `min`, or `max`, or the interpolation
    `qLo + qFrac · (qHi − qLo)` between two ENTRIES of the data -/
theorem quantile_shape_fl (self : Data α) (tau : α) (htau0 : (0.0 : α) ≤ tau) (htau1 : tau ≤ (1.0 : α))
    (hne : self.f_0 ≠ []) (hnn : ∀ x ∈ self.f_0, NN x) (hnp : (Data.quantile self tau).2.f_0 ≠ []) :
    (Data.quantile self tau).1 = Data.min self ∨ (Data.quantile self tau).1 = Data.max self ∨
    (qLo self tau ∈ self.f_0 ∧ qHi self tau ∈ self.f_0 ∧
      (Data.quantile self tau).1 = qLo self tau + qFrac self tau * (qHi self tau - qLo self tau)) := by
  have hnot : ¬ ((¬ (((0.0 : α) ≤ tau) ∧ (tau ≤ (1.0 : α)))) ∨ ((Data.is_empty self) = true)) := by
    intro h
    rcases h with h | h
    · exact h ⟨htau0, htau1⟩
    · apply hne
      unfold Data.is_empty listLen at h
      simp at h
      exact h
  rw [quantile_eq_with] at hnp ⊢
  unfold quantileWith at hnp ⊢
  rw [if_neg hnot] at hnp ⊢
  split_ifs at hnp ⊢ with c2 c3
  · exact Or.inl rfl
  · exact Or.inr (Or.inl rfl)
  · right; right
    have hhf : 0 < RFun.toI64 (qH self tau) := by
      have := not_or.1 c2; omega
    have hk : 0 ≤ wrapU64 (RFun.toI64 (qH self tau)) := by unfold wrapU64; omega
    have hk1 : 0 ≤ usatSub (wrapU64 (RFun.toI64 (qH self tau))) 1 := by
      unfold usatSub; split_ifs <;> omega
    have hnp1 : (Data.select_inplace self (usatSub (wrapU64 (RFun.toI64 (qH self tau))) 1)).2.f_0 ≠ [] := by
      intro h; exact hnp (select_inplace_nil_buffer _ _ hk h)
    obtain ⟨hx, hp⟩ := select_inplace_mem_fl L self _ hk1 hne hnn hnp1
    have hnn2 : ∀ x ∈ (Data.select_inplace self
        (usatSub (wrapU64 (RFun.toI64 (qH self tau))) 1)).2.f_0, NN x :=
      fun x hx => hnn x (hp.mem_iff.1 hx)
    obtain ⟨hy, _⟩ := select_inplace_mem_fl L _ _ hk hnp1 hnn2 hnp
    exact ⟨hx, hp.mem_iff.1 hy, rfl⟩

/-- rel(`qLo ≤ qHi`: the two selections are adjacent order statistics; `0 ≤ qFrac ≤ 1`: the `as i64` cast
    truncates; `max − min` finite): for `0 ≤ τ ≤ 1` and non-empty FINITE data the quantile is not NaN, is
    `≥ min`, and in the interpolation branch lies in `[qLo, qLo + (qHi − qLo)]` -/
theorem quantile_range_fl_rel (E : ExtraLaws α) (self : Data α) (tau : α) (htau0 : (0.0 : α) ≤ tau)
    (htau1 : tau ≤ (1.0 : α)) (hne : self.f_0 ≠ []) (hfin : ∀ x ∈ self.f_0, Spec.Fin x)
    (hnp : (Data.quantile self tau).2.f_0 ≠ [])
    (hord : qLo self tau ≤ qHi self tau) (hf0 : (0.0 : α) ≤ qFrac self tau)
    (hf1 : qFrac self tau ≤ (1.0 : α)) (hw : Spec.Fin (Data.max self - Data.min self)) :
    NN (Data.quantile self tau).1 ∧ Data.min self ≤ (Data.quantile self tau).1 ∧
    ((Data.quantile self tau).1 = Data.min self ∨ (Data.quantile self tau).1 = Data.max self ∨
      (qLo self tau ≤ (Data.quantile self tau).1 ∧
       (Data.quantile self tau).1 ≤ qLo self tau + (qHi self tau - qLo self tau))) := by
  have hnn : ∀ x ∈ self.f_0, NN x := fun x hx => L.fin_nn' (hfin x hx)
  obtain ⟨m1, M1, hb⟩ := min_max_bracket_fl L self.f_0 hne hnn
  have hmM : Data.min self ≤ Data.max self := (hb _ m1).2
  rcases quantile_shape_fl L self tau htau0 htau1 hne hnn hnp with h | h | ⟨ha, hbm, h⟩
  · rw [h]; exact ⟨hnn _ m1, L.le_rfl' (hnn _ m1), Or.inl rfl⟩
  · rw [h]; exact ⟨hnn _ M1, hmM, Or.inr (Or.inl rfl)⟩
  · -- the width `qHi − qLo` is squeezed between `0` and `max − min`
    have hw' : Spec.Fin (qHi self tau - qLo self tau) := by
      have h0 : (0.0 : α) ≤ qHi self tau - qLo self tau := L.sub_nonneg_of_le (hfin _ ha) hord
      have n1 : NN (qHi self tau - qLo self tau) := L.le_nnr h0
      have n2 : NN (Data.max self - qLo self tau) :=
        L.sub_nn (hnn _ M1) (hnn _ ha) (Or.inl (hfin _ M1))
      have h1 : qHi self tau - qLo self tau ≤ Data.max self - qLo self tau :=
        L.mono.sub_le_sub_right _ _ _ (hb _ hbm).2 n1 n2
      have h2 : Data.max self - qLo self tau ≤ Data.max self - Data.min self :=
        L.mono.sub_le_sub_left _ _ _ (hb _ ha).1 (L.fin_nn' hw) n2
      exact E.fin_of_between L L.zero_fin hw h0 (L.le_tr h1 h2)
    obtain ⟨r1, r2, r3⟩ := lerp_range_fl L E (hfin _ ha) hord hw' hf0 hf1
    rw [h]
    exact ⟨r1, L.le_tr (hb _ ha).1 r2, Or.inr (Or.inr ⟨r2, r3⟩)⟩

/-- rel(LerpLaws — proved for `Float` — plus `qLo ≤ qHi`, `0 ≤ qFrac < 1`, `max − min` finite): the quantile of
    non-empty finite data lies in `[min, max]` and is not NaN; in the interpolation branch it lies between the two
    selected entries, `qLo ≤ quantile τ ≤ qHi` -/
theorem quantile_range_full_fl_rel (E : ExtraLaws α) (R : LerpLaws α) (self : Data α) (tau : α)
    (htau0 : (0.0 : α) ≤ tau) (htau1 : tau ≤ (1.0 : α)) (hne : self.f_0 ≠ [])
    (hfin : ∀ x ∈ self.f_0, Spec.Fin x) (hnp : (Data.quantile self tau).2.f_0 ≠ [])
    (hord : qLo self tau ≤ qHi self tau) (hf0 : (0.0 : α) ≤ qFrac self tau)
    (hf1 : qFrac self tau < (1.0 : α)) (hw : Spec.Fin (Data.max self - Data.min self)) :
    NN (Data.quantile self tau).1 ∧ Data.min self ≤ (Data.quantile self tau).1 ∧
    (Data.quantile self tau).1 ≤ Data.max self ∧
    ((Data.quantile self tau).1 = Data.min self ∨ (Data.quantile self tau).1 = Data.max self ∨
      (qLo self tau ≤ (Data.quantile self tau).1 ∧ (Data.quantile self tau).1 ≤ qHi self tau)) := by
  have hnn : ∀ x ∈ self.f_0, NN x := fun x hx => L.fin_nn' (hfin x hx)
  obtain ⟨m1, M1, hb⟩ := min_max_bracket_fl L self.f_0 hne hnn
  obtain ⟨r1, r2, r3⟩ := quantile_range_fl_rel L E self tau htau0 htau1 hne hfin hnp hord hf0 (L.lt_le hf1) hw
  rcases quantile_shape_fl L self tau htau0 htau1 hne hnn hnp with h | h | ⟨ha, hbm, h⟩
  · exact ⟨r1, r2, by rw [h]; exact (hb _ m1).2, Or.inl h⟩
  · exact ⟨r1, r2, by rw [h]; exact L.le_rfl' (hnn _ M1), Or.inr (Or.inl h)⟩
  · have hw' : Spec.Fin (qHi self tau - qLo self tau) := by
      have h0 : (0.0 : α) ≤ qHi self tau - qLo self tau := L.sub_nonneg_of_le (hfin _ ha) hord
      have n1 : NN (qHi self tau - qLo self tau) := L.le_nnr h0
      have n2 : NN (Data.max self - qLo self tau) :=
        L.sub_nn (hnn _ M1) (hnn _ ha) (Or.inl (hfin _ M1))
      have h1 : qHi self tau - qLo self tau ≤ Data.max self - qLo self tau :=
        L.mono.sub_le_sub_right _ _ _ (hb _ hbm).2 n1 n2
      have h2 : Data.max self - qLo self tau ≤ Data.max self - Data.min self :=
        L.mono.sub_le_sub_left _ _ _ (hb _ ha).1 (L.fin_nn' hw) n2
      exact E.fin_of_between L L.zero_fin hw h0 (L.le_tr h1 h2)
    have hup : (Data.quantile self tau).1 ≤ qHi self tau := by
      rw [h]; exact R.add_mul_le _ _ _ (hfin _ ha) (hfin _ hbm) hord hw' hf0 hf1
    have hlo : qLo self tau ≤ (Data.quantile self tau).1 := by
      rw [h]; exact (lerp_range_fl L E (hfin _ ha) hord hw' hf0 (L.lt_le hf1)).2.1
    exact ⟨r1, r2, L.le_tr hup (hb _ hbm).2, Or.inr (Or.inr ⟨hlo, hup⟩)⟩

end laws
end Statrs.Props.C14
