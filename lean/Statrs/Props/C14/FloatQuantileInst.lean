/-
  C14 (float level) — `FloatQuantile.lean` INSTANTIATED at the executable carrier IEEE `Float`
  (`floatLaws_float`, `extraLaws_float`), the proof of `HalfLaws Float` from Lean's `Float.Model`, and the
  kernel-evaluated `Float` witnesses for the statements that are false on `f64`:
    * `median_overflow_counterexample`      — `median [1e308, 1e308] = +∞ > max`;
    * `lerp_one_overshoot_counterexample`   — `a + 1.0 * (b − a) > b` for `a = −(0.5 + 2⁻⁵³)`, `b = 8 − 2⁻⁵⁰`;
    * `quantile_nan_counterexample`         — `quantile 0.5` of the finite NaN-free data `[-1e308, -1e308, 1e308]`
      is NaN (`0 · ∞`), relative to the evident `(2.0 as i64) = 2` (`Float.toInt64` is an opaque extern in Lean).
-/
import Statrs.Props.C14.FloatQuantile
import Statrs.Props.Common.FloatLawsFloat_Extra
import Statrs.Lemmas.LerpLawsFloat
import Statrs.Inst.Float
namespace Statrs.Props.C14
open Statrs Statrs.Gen Statrs.Spec Statrs.Props.Common Statrs.Lemmas.FloatModel
open Float.Model
open Float.Model.UnpackedFloat (Sign)

/-! ### `HalfLaws Float` -/

private theorem fin64_beq' {r w : UF} (h : r.beq w = true) : (fin64 r).beq (fin64 w) = true := by
  rw [ubeq_iff] at h ⊢
  exact ⟨fin64_mono h.1, fin64_mono h.2⟩

private theorem beq_of_rounds_rep' {x : ℝ} {r w : UF} (hr : Rounds x r) (hw : Rounds x w) (hrep : Rep w) :
    (fin64 r).beq w = true := by
  have := fin64_beq' ((beq_iff_val hr.1 hw.1 hr.2.1 hw.2.1).2 (hr.2.2.unique hw.2.2))
  rwa [fin64_of_rep hrep] at this

private theorem U_two : U (2.0 : Float) = .finite .positive (2 ^ 52) (-51) (by decide) := by decide

private theorem val_U_two : val (U (2.0 : Float)) = 2 := by
  rw [U_two]; simp only [val, sgn, one_mul]
  rw [show ((2 ^ 52 : ℕ) : ℝ) = (2 : ℝ) ^ (52 : ℤ) by norm_num, ← zpow_add₀ (by norm_num : (2 : ℝ) ≠ 0)]
  norm_num

/-- the double of a representable finite value is on the (unbounded-exponent) binary64 grid -/
private theorem double_on_grid (s : Sign) (m : ℕ) (e : ℤ) (hm : 0 < m) (h : Rep (.finite s m e hm)) :
    ∃ w : UF, FZ w ∧ Canon w ∧ val w = val (.finite s m e hm) + val (.finite s m e hm) := by
  obtain ⟨h1, h2, h3, h4⟩ := h
  by_cases hn : 2 ^ 52 ≤ m
  · refine ⟨.finite s m (e + 1) hm, trivial, ⟨by omega, h3, Or.inr hn⟩, ?_⟩
    simp only [val]
    rw [zpow_add₀ (by norm_num : (2 : ℝ) ≠ 0)]
    ring
  · have he : e = -1074 := by rcases h4 with h4 | h4 <;> omega
    refine ⟨.finite s (2 * m) e (by omega), trivial, ⟨h1, by omega, Or.inl he⟩, ?_⟩
    simp only [val]
    push_cast
    ring

/-- full(Float): `(x + x) / 2.0 == x` whenever `x + x` is finite (doubling and halving are exact) -/
theorem add_self_half_float (x : Float) (h : Spec.Fin (x + x)) :
    (((x + x) / (2.0 : Float)) == x) = true := by
  have hfz : FZ (U (x + x)) := (fz_iff _).2 h
  rw [beq_def, U_div']
  rw [U_add'] at hfz ⊢
  rcases hX : U x with s | _ | s | ⟨s, m, e, hm⟩
  · rw [hX] at hfz; cases s <;> exact absurd hfz (fun h => h)
  · rw [hX] at hfz; exact absurd hfz (fun h => h)
  · rw [U_two]; cases s <;> rfl
  · have hrep : Rep (.finite s m e hm) := hX ▸ rep_U x
    rw [hX] at hfz
    have hr := uadd_rounds (a := .finite s m e hm) (b := .finite s m e hm) trivial trivial hrep.canon hrep.canon
    obtain ⟨w, hw1, hw2, hw3⟩ := double_on_grid s m e hm hrep
    rw [← hw3] at hr
    have hv : val (UnpackedFloat.add .binary64 (.finite s m e hm) (.finite s m e hm)) = val w :=
      hr.val_eq hw1 hw2
    -- no overflow: the clamp is the identity
    have hclamp : fin64 (UnpackedFloat.add .binary64 (.finite s m e hm) (.finite s m e hm))
        = UnpackedFloat.add .binary64 (.finite s m e hm) (.finite s m e hm) := by
      generalize UnpackedFloat.add .binary64 (.finite s m e hm) (.finite s m e hm) = r at hfz hr
      rcases r with s' | _ | s' | ⟨s', m', e', hm'⟩
      · rfl
      · rfl
      · rfl
      · simp only [fin64] at hfz ⊢
        split_ifs at hfz ⊢ with hbig
        · exact absurd hfz (by simp [FZ])
        · rfl
    rw [hclamp]
    have hd := udiv_rounds hr.1 .positive (2 ^ 52) (-51) (by decide)
    rw [← U_two, val_U_two, hv, hw3] at hd
    have hsame : (val (.finite s m e hm) + val (.finite s m e hm)) / 2 = val (.finite s m e hm) := by ring
    rw [hsame] at hd
    exact beq_of_rounds_rep' hd (Rounds.self trivial hrep.canon) hrep

/-- full(Float): `HalfLaws Float` -/
theorem halfLaws_float : HalfLaws Float := ⟨add_self_half_float⟩

/-! ### the ∀α theorems at `Float` -/

/-- full(Float): `select_inplace(rank ≥ 0)` on non-empty NaN-free `f64` data returns an entry of the data -/
theorem select_inplace_mem_float (self : Data Float) (rank : Int) (h0 : 0 ≤ rank) (hne : self.f_0 ≠ [])
    (hnn : ∀ x ∈ self.f_0, NN x) (hnp : (Data.select_inplace self rank).2.f_0 ≠ []) :
    (Data.select_inplace self rank).1 ∈ self.f_0 ∧ (Data.select_inplace self rank).2.f_0.Perm self.f_0 :=
  select_inplace_mem_fl floatLaws_float self rank h0 hne hnn hnp

/-- full(Float): `order_statistic(k)`, `1 ≤ k ≤ n`, of NaN-free `f64` data: an entry, not NaN, in `[min, max]` -/
theorem order_statistic_range_float (self : Data Float) (order : Int) (h1 : 1 ≤ order)
    (h2 : order ≤ self.f_0.length) (hnn : ∀ x ∈ self.f_0, NN x)
    (hnp : (Data.order_statistic self order).2.f_0 ≠ []) :
    (Data.order_statistic self order).1 ∈ self.f_0 ∧ NN (Data.order_statistic self order).1 ∧
    Data.min self ≤ (Data.order_statistic self order).1 ∧
    (Data.order_statistic self order).1 ≤ Data.max self :=
  order_statistic_range_fl floatLaws_float self order h1 h2 hnn hnp

/-- full(Float): the median of an odd number of NaN-free doubles is an entry, not NaN, in `[min, max]` -/
theorem median_odd_range_float (self : Data Float) (hodd : umod (Data.len self) 2 ≠ 0)
    (hnn : ∀ x ∈ self.f_0, NN x) (hnp : (Data.median self).2.f_0 ≠ []) :
    (Data.median self).1 ∈ self.f_0 ∧ NN (Data.median self).1 ∧
    Data.min self ≤ (Data.median self).1 ∧ (Data.median self).1 ≤ Data.max self :=
  median_odd_range_fl floatLaws_float self hodd hnn hnp

/-- full(Float): the median of an even number of finite doubles is never NaN -/
theorem median_even_nn_float (self : Data Float) (heven : umod (Data.len self) 2 = 0) (hne : self.f_0 ≠ [])
    (hfin : ∀ x ∈ self.f_0, Spec.Fin x) (hnp : (Data.median self).2.f_0 ≠ []) : NN (Data.median self).1 :=
  median_even_nn_fl floatLaws_float self heven hne hfin hnp

/-- full(Float): the median of an even number of finite doubles lies in `[min, max]` provided `min + min` and
    `max + max` do not overflow (`HalfLaws Float` is proved above) -/
theorem median_even_range_float (self : Data Float) (heven : umod (Data.len self) 2 = 0)
    (hne : self.f_0 ≠ []) (hfin : ∀ x ∈ self.f_0, Spec.Fin x)
    (hlo : Spec.Fin (Data.min self + Data.min self)) (hhi : Spec.Fin (Data.max self + Data.max self))
    (hnp : (Data.median self).2.f_0 ≠ []) :
    Data.min self ≤ (Data.median self).1 ∧ (Data.median self).1 ≤ Data.max self :=
  median_even_range_fl_rel floatLaws_float halfLaws_float self heven hne hfin hlo hhi hnp

/-- full(Float): `a + t * (b − a)` for finite `a ≤ b`, finite `b − a`, `0 ≤ t ≤ 1`: not NaN, `≥ a`,
    `≤ a + (b − a)` -/
theorem lerp_range_float {a b t : Float} (ha : Spec.Fin a) (hab : a ≤ b) (hw : Spec.Fin (b - a))
    (ht0 : (0.0 : Float) ≤ t) (ht1 : t ≤ (1.0 : Float)) :
    NN (a + t * (b - a)) ∧ a ≤ a + t * (b - a) ∧ a + t * (b - a) ≤ a + (b - a) :=
  lerp_range_fl floatLaws_float extraLaws_float ha hab hw ht0 ht1

/-- full(Float): `quantile τ`, `0 ≤ τ ≤ 1`, of non-empty NaN-free doubles is `min`, `max`, or the interpolation
    between two entries -/
theorem quantile_shape_float (self : Data Float) (tau : Float) (htau0 : (0.0 : Float) ≤ tau)
    (htau1 : tau ≤ (1.0 : Float)) (hne : self.f_0 ≠ []) (hnn : ∀ x ∈ self.f_0, NN x)
    (hnp : (Data.quantile self tau).2.f_0 ≠ []) :
    (Data.quantile self tau).1 = Data.min self ∨ (Data.quantile self tau).1 = Data.max self ∨
    (qLo self tau ∈ self.f_0 ∧ qHi self tau ∈ self.f_0 ∧
      (Data.quantile self tau).1 = qLo self tau + qFrac self tau * (qHi self tau - qLo self tau)) :=
  quantile_shape_fl floatLaws_float self tau htau0 htau1 hne hnn hnp

/-- rel(`qLo ≤ qHi`, `0 ≤ qFrac ≤ 1`, `max − min` finite) on Float: the quantile is not NaN, `≥ min`, and in the
    interpolation branch in `[qLo, qLo + (qHi − qLo)]` -/
theorem quantile_range_float_rel (self : Data Float) (tau : Float) (htau0 : (0.0 : Float) ≤ tau)
    (htau1 : tau ≤ (1.0 : Float)) (hne : self.f_0 ≠ []) (hfin : ∀ x ∈ self.f_0, Spec.Fin x)
    (hnp : (Data.quantile self tau).2.f_0 ≠ [])
    (hord : qLo self tau ≤ qHi self tau) (hf0 : (0.0 : Float) ≤ qFrac self tau)
    (hf1 : qFrac self tau ≤ (1.0 : Float)) (hw : Spec.Fin (Data.max self - Data.min self)) :
    NN (Data.quantile self tau).1 ∧ Data.min self ≤ (Data.quantile self tau).1 ∧
    ((Data.quantile self tau).1 = Data.min self ∨ (Data.quantile self tau).1 = Data.max self ∨
      (qLo self tau ≤ (Data.quantile self tau).1 ∧
       (Data.quantile self tau).1 ≤ qLo self tau + (qHi self tau - qLo self tau))) :=
  quantile_range_fl_rel floatLaws_float extraLaws_float self tau htau0 htau1 hne hfin hnp hord hf0 hf1 hw

/-- rel(`qLo ≤ qHi`, `0 ≤ qFrac < 1`, `max − min` finite) on Float, with `LerpLaws Float` PROVED: the quantile of
    non-empty finite `f64` data is not NaN and lies in `[min, max]` — exactly; in the interpolation branch
    `qLo ≤ quantile τ ≤ qHi` -/
theorem quantile_range_full_float_rel (self : Data Float) (tau : Float) (htau0 : (0.0 : Float) ≤ tau)
    (htau1 : tau ≤ (1.0 : Float)) (hne : self.f_0 ≠ []) (hfin : ∀ x ∈ self.f_0, Spec.Fin x)
    (hnp : (Data.quantile self tau).2.f_0 ≠ [])
    (hord : qLo self tau ≤ qHi self tau) (hf0 : (0.0 : Float) ≤ qFrac self tau)
    (hf1 : qFrac self tau < (1.0 : Float)) (hw : Spec.Fin (Data.max self - Data.min self)) :
    NN (Data.quantile self tau).1 ∧ Data.min self ≤ (Data.quantile self tau).1 ∧
    (Data.quantile self tau).1 ≤ Data.max self ∧
    ((Data.quantile self tau).1 = Data.min self ∨ (Data.quantile self tau).1 = Data.max self ∨
      (qLo self tau ≤ (Data.quantile self tau).1 ∧ (Data.quantile self tau).1 ≤ qHi self tau)) :=
  quantile_range_full_fl_rel floatLaws_float extraLaws_float lerpLaws_float self tau htau0 htau1 hne hfin hnp
    hord hf0 hf1 hw

/-- full(Float): the interpolation `a + t·(b − a)` used by `Data::quantile` with a weight `0 ≤ t < 1`, finite
    `a ≤ b` and a finite difference lies in `[a, b]` and is not NaN — for EVERY such triple of doubles -/
theorem lerp_mem_float {a b t : Float} (ha : Spec.Fin a) (hb : Spec.Fin b) (hab : a ≤ b)
    (hw : Spec.Fin (b - a)) (ht0 : (0.0 : Float) ≤ t) (ht1 : t < (1.0 : Float)) :
    NN (a + t * (b - a)) ∧ a ≤ a + t * (b - a) ∧ a + t * (b - a) ≤ b := by
  obtain ⟨r1, r2, _⟩ := lerp_range_fl floatLaws_float extraLaws_float ha hab hw ht0
    (floatLaws_float.lt_le ht1)
  exact ⟨r1, r2, lerp_le_float a b t ha hb hab hw ht0 ht1⟩

/-! ### witnesses on `Float` -/

set_option maxRecDepth 100000 in
set_option exponentiation.threshold 400 in
/-- counterexample: the data `[1e308, 1e308]` is finite and NaN-free, its median is `(1e308 + 1e308) / 2.0 = +∞`,
    strictly above its maximum `1e308` (the sum overflows before the halving) -/
theorem median_overflow_counterexample :
    RFun.isInf (Data.median ({ f_0 := [1e308, 1e308] } : Data Float)).1 = true ∧
    Data.max ({ f_0 := [1e308, 1e308] } : Data Float) <
      (Data.median ({ f_0 := [1e308, 1e308] } : Data Float)).1 ∧
    (Data.median ({ f_0 := [1e308, 1e308] } : Data Float)).2.f_0 ≠ [] := by
  decide

/-- counterexample: for `a = −(0.5 + 2⁻⁵³)`, `b = 8 − 2⁻⁵⁰` (bit patterns below) the interpolation at `t = 1`,
    `a + 1.0 * (b − a)`, is `8.0 > b`: `b − a` rounds up to `8.5` and `a + 8.5` rounds up to `8`.  So the upper
    limit `a + (b − a)` of `lerp_range_fl` is NOT `≤ b` in general; "within `[a, b]`" does not follow from the
    monotone laws.  (For `t < 1` the rounded product `t * (b − a)` is at most the predecessor of `fl(b − a)`,
    which is `≤ b − a`; the generated `qFrac = h − ⌊h⌋` is always `< 1`.) -/
theorem lerp_one_overshoot_counterexample :
    let a : Float := Float.ofBits 0xBFE0000000000001
    let b : Float := Float.ofBits 0x401FFFFFFFFFFFFF
    a ≤ b ∧ Spec.Fin (b - a) ∧ b < a + (1.0 : Float) * (b - a) ∧ a + (1.0 : Float) * (b - a) = 8.0 := by
  decide

set_option maxRecDepth 100000 in
set_option exponentiation.threshold 400 in
/-- counterexample (relative to the evident `(2.0 as i64) = 2`; `Float.toInt64` is an opaque extern in Lean):
    `quantile(0.5)` of the finite NaN-free data `[-1e308, -1e308, 1e308]` is NaN.  The position is
    `h = (3 + 1/3)·0.5 + 1/3 = 2.0` exactly, so the weight is `0.0`, the two selected entries are `-1e308` and
    `1e308`, their difference overflows to `+∞`, and `0.0 * ∞ = NaN`.  Hence "the quantile of finite NaN-free
    data is not NaN" is FALSE on `f64` without the no-overflow premise `Fin (max − min)` of
    `quantile_range_fl_rel`. -/
theorem quantile_nan_counterexample (htr : RFun.toI64 (2.0 : Float) = 2) :
    RFun.isNaN (Data.quantile ({ f_0 := [-1e308, -1e308, 1e308] } : Data Float) 0.5).1 = true := by
  have hh : qH ({ f_0 := [-1e308, -1e308, 1e308] } : Data Float) 0.5 = 2.0 := by decide
  rw [quantile_eq_with, hh, htr]
  decide

end Statrs.Props.C14
