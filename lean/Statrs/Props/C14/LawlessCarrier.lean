/-
  C14 — the hypothesis `DataOK` of the permutation theorems cannot be dropped: the claim
  "for EVERY carrier, `select_inplace` only permutes the buffer" is false for the model.

  Witness: the carrier `W` = the reals with the STRICT order used as `≤` (so `x ≤ x` fails but
  `x ≤ y` holds for larger `y`: entries are neither reflexive nor NaN-like), data `[2, 2, 3, 3]`,
  rank 1.  The pivot is `2`; the downward scan finds no cell `≤ pivot`, walks below index 0
  (`usub` → the panic sentinel, `listGet` → `default = 0`, and `0 ≤ 2` holds), and the closing
  assignments `self[low+1] = self[end]; self[end] = pivot` then overwrite the pivot cell with
  `default` without storing the pivot: the buffer becomes `[2, 0, 3, 3]`.
  (In Rust the out-of-bounds read panics; no `f64` input reaches this path — `Float` satisfies
  `DataOK`, see FloatInst.lean — so this is a statement about the model on lawless carriers, not
  a defect of the crate.)
-/
import Statrs.Props.C14.Permutation
set_option linter.unusedVariables false
set_option linter.unusedSectionVars false
namespace Statrs.Props.C14.Lawless
open Statrs Statrs.Gen Statrs.Lemmas.Select

section generic
variable {α : Type} [Add α] [Sub α] [Mul α] [Div α] [Neg α] [LT α] [LE α] [BEq α]
  [DecidableLT α] [DecidableLE α] [OfScientific α] [Inhabited α] [RFun α]

private theorem l213 (fuel : ℕ) (h : fuel ≠ 0) (p : α) (s : Data α) (b : Int) :
    Data.select_inplace.loop213 fuel p s b
      = if p ≤ listGet s.f_0 (b + 1) then LoopR.done (b + 1)
        else Data.select_inplace.loop213 (fuel - 1) p s (b + 1) := by
  cases fuel with
  | zero => exact absurd rfl h
  | succ n => rfl

private theorem l215 (fuel : ℕ) (h : fuel ≠ 0) (p : α) (s : Data α) (e : Int) :
    Data.select_inplace.loop215 fuel p s e
      = if listGet s.f_0 (usub e 1) ≤ p then LoopR.done (usub e 1)
        else Data.select_inplace.loop215 (fuel - 1) p s (usub e 1) := by
  cases fuel with
  | zero => exact absurd rfl h
  | succ n => rfl
end generic

/-- the reals with the STRICT order used as `≤` (a carrier violating `DataOK`) -/
def W : Type := ℝ
namespace W
noncomputable instance : Add W := inferInstanceAs (Add ℝ)
noncomputable instance : Sub W := inferInstanceAs (Sub ℝ)
noncomputable instance : Mul W := inferInstanceAs (Mul ℝ)
noncomputable instance : Div W := inferInstanceAs (Div ℝ)
noncomputable instance : Neg W := inferInstanceAs (Neg ℝ)
instance : LT W := inferInstanceAs (LT ℝ)
noncomputable instance : BEq W := inferInstanceAs (BEq ℝ)
noncomputable instance : DecidableLT W := inferInstanceAs (DecidableLT ℝ)
instance : LE W := ⟨fun a b => @LT.lt ℝ _ a b⟩
noncomputable instance : DecidableLE W := fun _ _ => Classical.propDecidable _
noncomputable instance : OfScientific W := inferInstanceAs (OfScientific ℝ)
noncomputable instance : Inhabited W := ⟨(0 : ℝ)⟩
noncomputable instance : RFun W := inferInstanceAs (RFun ℝ)
def of (x : ℝ) : W := x
theorem le_def (a b : ℝ) : (of a ≤ of b) ↔ a < b := Iff.rfl
end W
open W

noncomputable def s0 : Data W := ⟨[of 2, of 2, of 3, of 3]⟩

private theorem g0 : listGet s0.f_0 0 = of 2 := by simp [s0, listGet]
private theorem g1 : listGet s0.f_0 1 = of 2 := by simp [s0, listGet]
private theorem g2 : listGet s0.f_0 2 = of 3 := by simp [s0, listGet]
private theorem g3 : listGet s0.f_0 3 = of 3 := by simp [s0, listGet]
private theorem gp : listGet s0.f_0 panicInt = of 0 := by
  rw [listGet_neg _ _ panicInt_neg]; rfl

private theorem up : Data.select_inplace.loop213 loopFuel (of 2) s0 1 = LoopR.done 2 := by
  rw [l213 _ (by decide)]
  have : (1 : Int) + 1 = 2 := rfl
  rw [this, g2, if_pos ((le_def 2 3).2 (by norm_num))]

private theorem down : Data.select_inplace.loop215 loopFuel (of 2) s0 3 = LoopR.done panicInt := by
  have u3 : usub 3 1 = 2 := by simp [usub]
  have u2 : usub 2 1 = 1 := by simp [usub]
  have u1 : usub 1 1 = 0 := by simp [usub]
  have u0 : usub 0 1 = panicInt := by simp [usub]
  rw [l215 _ (by decide), u3, g2, if_neg (fun h => absurd ((le_def 3 2).1 h) (by norm_num))]
  rw [l215 _ (by decide), u2, g1, if_neg (fun h => absurd ((le_def 2 2).1 h) (by norm_num))]
  rw [l215 _ (by decide), u1, g0, if_neg (fun h => absurd ((le_def 2 2).1 h) (by norm_num))]
  rw [l215 _ (by decide), u0, gp, if_pos ((le_def 0 2).2 (by norm_num))]

private theorem part : Data.select_inplace.loop112 loopFuel (of 2) 1 3 s0 = LoopR.done (2, panicInt, s0) := by
  rw [loopFuel_succ, Data.select_inplace.loop112, up]
  simp only []
  rw [down]
  simp only []
  rw [if_pos (by have := panicInt_neg; omega)]

private theorem m3 : med3 s0 0 3 = s0 := by
  have e1 : udiv (0 + 3) 2 = 1 := by simp [udiv]
  have sw : (Data.swap s0 1 (0 + 1)).2 = s0 := by
    simp [Data.swap, listSwap, listSet, listGet, s0]
  unfold med3
  rw [e1, sw]
  simp only []
  have h1 : ¬ (listGet s0.f_0 3 < listGet s0.f_0 0) := by
    rw [g3, g0]; show ¬ ((3:ℝ) < 2); norm_num
  rw [if_neg h1]
  have h2 : ¬ (listGet s0.f_0 3 < listGet s0.f_0 (0 + 1)) := by
    show ¬ (listGet s0.f_0 3 < listGet s0.f_0 1)
    rw [g3, g1]; show ¬ ((3:ℝ) < 2); norm_num
  rw [if_neg h2]
  have h3 : ¬ (listGet s0.f_0 (0 + 1) < listGet s0.f_0 0) := by
    show ¬ (listGet s0.f_0 1 < listGet s0.f_0 0)
    rw [g1, g0]; show ¬ ((2:ℝ) < 2); norm_num
  rw [if_neg h3]

private theorem step1 : Data.select_inplace.loop1 loopFuel 1 s0 3 0
    = LoopR.ret (of 0, ⟨[of 2, of 0, of 3, of 3]⟩) := by
  rw [loopFuel_succ, loop1_step _ _ _ _ _ (by norm_num), m3]
  have e1 : (0 : Int) + 1 = 1 := rfl
  rw [e1, g1, part]
  simp only []
  have hset : listSet (listSet s0.f_0 1 (listGet s0.f_0 panicInt)) panicInt (of 2)
      = [of 2, of 0, of 3, of 3] := by
    rw [listSet_neg _ _ _ panicInt_neg, gp]
    simp [listSet, s0]
  rw [hset]
  have c1 : ¬ ((1 : Int) ≤ panicInt) := by have := panicInt_neg; omega
  have c2 : panicInt ≤ (1 : Int) := by have := panicInt_neg; omega
  rw [if_neg c1, if_pos c2]
  have : (19999 : ℕ) = 19998 + 1 := rfl
  rw [this, loop1_small _ _ _ _ _ (by norm_num)]
  have hf : finish2 (⟨[of 2, of 0, of 3, of 3]⟩ : Data W) 2 3 = ⟨[of 2, of 0, of 3, of 3]⟩ := by
    unfold finish2
    have : ¬ (listGet [of 2, of 0, of 3, of 3] 3 < listGet [of 2, of 0, of 3, of 3] 2) := by
      simp only [listGet]
      simp
      show ¬ ((3 : ℝ) < 3)
      norm_num
    simp [this]
  rw [hf]
  simp [listGet]

/-- the buffer handed back: the second `2` has been replaced by `default = 0` -/
theorem select_inplace_counterexample_buffer : (Data.select_inplace s0 1).2.f_0 = [of 2, of 0, of 3, of 3] := by
  unfold Data.select_inplace
  have hu : usub (Data.len s0) 1 = 3 := by simp [usub, Data.len, listLen, s0]
  rw [if_neg (by norm_num), hu, if_neg (by norm_num)]
  simp only [step1]

/-- the selection does NOT permute the buffer on this carrier -/
theorem select_inplace_perm_counterexample : ¬ (Data.select_inplace s0 1).2.f_0.Perm s0.f_0 := by
  rw [select_inplace_counterexample_buffer]
  intro h
  have h0 : of 0 ∈ [of 2, of 0, of 3, of 3] := by simp
  have h1 : (0 : ℝ) ∈ ([2, 2, 3, 3] : List ℝ) := h.mem_iff.1 h0
  norm_num at h1

/-- …and indeed the data violate `DataOK` -/
theorem counterexample_not_dataOK : ¬ DataOK s0.f_0 := by
  intro h
  rcases h (of 2) (by simp [s0]) with h | h
  · exact absurd ((le_def 2 2).1 h) (by norm_num)
  · exact h (of 3) ((le_def 2 3).2 (by norm_num))

end Statrs.Props.C14.Lawless
