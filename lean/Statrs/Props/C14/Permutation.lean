/-
  C14 — the in-place selection only permutes the data.

  Statements are for EVERY carrier `α` and are about the buffer component (`.2.f_0`) of the
  generated `&mut self` methods.  Two facts about the model shape every statement:

  * `listSwap l i j` is a permutation when both indices are in range and the identity when both
    are out of range, but with exactly ONE index out of range it overwrites the in-range cell with
    `default` (Rust panics there): `swap_perm_counterexample`.  Hence `Data.swap` is a permutation
    only under the in-range hypothesis (`swap_perm_partial`).
  * inside `select_inplace` every swap is in range for every carrier, but the closing pair of
    assignments `self[low+1] = self[end]; self[end] = pivot` is a swap only if the downward scan
    stopped at a cell `≥ low+1`, which needs `pivot ≤ pivot`; and a fuel-exhausted loop makes the
    model return `panicV`, whose buffer is `[]`.  The theorems therefore assume `DataOK` (every
    entry is `≤`-reflexive or NaN-like — true for all reals and all IEEE doubles, NaN included) and
    conclude `PermOrPanic out inp := out.Perm inp ∨ out = []`; the second alternative arises only
    from fuel exhaustion (`select_inplace_perm_of_not_hang`).  They are named `…_partial` because
    the unconditional claim ("every carrier, every input, plain `List.Perm`") is not true of the
    model: `LawlessCarrier.lean` has a carrier violating `DataOK` on which the selection loses a
    value.  `FloatInst.lean` proves `DataOK` for every `Float` buffer; `SelectCorrect.lean` removes
    the panic alternative over ℝ for buffers of length `≤ loopFuel`.
-/
import Statrs.Lemmas.Select
import Statrs.Real.Simp
namespace Statrs.Props.C14
open Statrs Statrs.Gen Statrs.Lemmas.Select

section generic
variable {α : Type} [Add α] [Sub α] [Mul α] [Div α] [Neg α] [LT α] [LE α] [BEq α]
  [DecidableLT α] [DecidableLE α] [OfScientific α] [Inhabited α] [RFun α]

/-! ### `Data.swap` -/

/-- `swap(i, j)` with both indices in range permutes the buffer.
    Missing for the unconditional claim: the one-index-out-of-range case, where the model (unlike
    Rust, which panics) overwrites a cell with `default` — see `swap_perm_counterexample`. -/
theorem swap_perm_partial (self : Data α) (i j : Int) (hi0 : 0 ≤ i) (hi : i < self.f_0.length)
    (hj0 : 0 ≤ j) (hj : j < self.f_0.length) : (Data.swap self i j).2.f_0.Perm self.f_0 :=
  listSwap_perm _ _ _ hi0 hi hj0 hj

/-- `swap(i, j)` with both indices out of range leaves the buffer unchanged -/
theorem swap_out_of_range (self : Data α) (i j : Int) (hi : i < 0 ∨ (self.f_0.length : Int) ≤ i)
    (hj : j < 0 ∨ (self.f_0.length : Int) ≤ j) : (Data.swap self i j).2.f_0 = self.f_0 :=
  listSwap_out_out _ _ _ hi hj

/-- `swap` preserves the length for all indices -/
theorem swap_length (self : Data α) (i j : Int) :
    (Data.swap self i j).2.f_0.length = self.f_0.length := listSwap_length _ _ _

/-! ### `select_inplace` and the order-statistics API -/

/-- `select_inplace(rank)` returns a permutation of the buffer (or the panic value on fuel
    exhaustion), for every rank — in range or not.
    Missing for the unconditional claim: carriers whose `≤` is neither reflexive nor NaN-like on
    some entry (`DataOK`), and the fuel-exhaustion outcome. -/
theorem select_inplace_perm_partial (self : Data α) (rank : Int) (hok : DataOK self.f_0) :
    PermOrPanic (Data.select_inplace self rank).2.f_0 self.f_0 :=
  select_inplace_permOrPanic self rank hok

/-- …and it is a genuine permutation whenever the outer loop does not run out of fuel -/
theorem select_inplace_perm_of_not_hang (self : Data α) (rank : Int) (hok : DataOK self.f_0)
    (hnh : Data.select_inplace.loop1 loopFuel rank self (usub (Data.len self) 1) 0 ≠ LoopR.hang) :
    (Data.select_inplace self rank).2.f_0.Perm self.f_0 :=
  Lemmas.Select.select_inplace_perm_of_not_hang self rank hok hnh

/-- the two ranks that never enter the loop leave the buffer untouched -/
theorem select_inplace_zero_buffer (self : Data α) : (Data.select_inplace self 0).2 = self := by
  simp [Data.select_inplace]

theorem select_inplace_large_buffer (self : Data α) (rank : Int) (h0 : rank ≠ 0)
    (h : usub (Data.len self) 1 < rank) : (Data.select_inplace self rank).2 = self := by
  simp [Data.select_inplace, h0, h]

theorem order_statistic_perm_partial (self : Data α) (order : Int) (hok : DataOK self.f_0) :
    PermOrPanic (Data.order_statistic self order).2.f_0 self.f_0 := by
  unfold Data.order_statistic
  simp only []
  split_ifs
  · exact PermOrPanic.refl _
  · exact PermOrPanic.refl _
  · exact PermOrPanic.refl _
  · exact select_inplace_permOrPanic self _ hok

/-- two selections in a row (as in `median` for even length and in `quantile`) -/
theorem select_select_perm_partial (self : Data α) (k1 k2 : Int) (hok : DataOK self.f_0) :
    PermOrPanic (Data.select_inplace (Data.select_inplace self k1).2 k2).2.f_0 self.f_0 := by
  have p1 := select_inplace_permOrPanic self k1 hok
  exact (select_inplace_permOrPanic _ k2 (hok.of_permOrPanic p1)).trans p1

theorem median_perm_partial (self : Data α) (hok : DataOK self.f_0) :
    PermOrPanic (Data.median self).2.f_0 self.f_0 := by
  unfold Data.median
  simp only []
  split_ifs
  · exact select_inplace_permOrPanic self _ hok
  · exact select_select_perm_partial self _ _ hok

theorem quantile_perm_partial (self : Data α) (tau : α) (hok : DataOK self.f_0) :
    PermOrPanic (Data.quantile self tau).2.f_0 self.f_0 := by
  unfold Data.quantile
  simp only []
  split_ifs
  · exact PermOrPanic.refl _
  · exact PermOrPanic.refl _
  · exact PermOrPanic.refl _
  · exact select_select_perm_partial self _ _ hok

theorem percentile_eq_quantile (self : Data α) (p : Int) :
    Data.percentile self p = Data.quantile self ((RFun.ofInt p : α) / (100.0 : α)) := rfl

theorem lower_quartile_eq_quantile (self : Data α) :
    Data.lower_quartile self = Data.quantile self (0.25 : α) := rfl

theorem upper_quartile_eq_quantile (self : Data α) :
    Data.upper_quartile self = Data.quantile self (0.75 : α) := rfl

theorem interquartile_range_eq (self : Data α) :
    Data.interquartile_range self
      = ((Data.quantile self (0.75 : α)).1
            - (Data.quantile (Data.quantile self (0.75 : α)).2 (0.25 : α)).1,
         (Data.quantile (Data.quantile self (0.75 : α)).2 (0.25 : α)).2) := rfl

theorem percentile_perm_partial (self : Data α) (p : Int) (hok : DataOK self.f_0) :
    PermOrPanic (Data.percentile self p).2.f_0 self.f_0 := by
  rw [percentile_eq_quantile]; exact quantile_perm_partial self _ hok

theorem lower_quartile_perm_partial (self : Data α) (hok : DataOK self.f_0) :
    PermOrPanic (Data.lower_quartile self).2.f_0 self.f_0 := by
  rw [lower_quartile_eq_quantile]; exact quantile_perm_partial self _ hok

theorem upper_quartile_perm_partial (self : Data α) (hok : DataOK self.f_0) :
    PermOrPanic (Data.upper_quartile self).2.f_0 self.f_0 := by
  rw [upper_quartile_eq_quantile]; exact quantile_perm_partial self _ hok

theorem interquartile_range_perm_partial (self : Data α) (hok : DataOK self.f_0) :
    PermOrPanic (Data.interquartile_range self).2.f_0 self.f_0 := by
  rw [interquartile_range_eq]
  have p1 := quantile_perm_partial self (0.75 : α) hok
  exact (quantile_perm_partial _ (0.25 : α) (hok.of_permOrPanic p1)).trans p1

/-- all of the above keep the length (or return the empty panic buffer) -/
theorem select_inplace_length_partial (self : Data α) (rank : Int) (hok : DataOK self.f_0) :
    (Data.select_inplace self rank).2.f_0.length = self.f_0.length
      ∨ (Data.select_inplace self rank).2.f_0 = [] := by
  rcases select_inplace_permOrPanic self rank hok with h | h
  · exact Or.inl h.length_eq
  · exact Or.inr h

end generic

/-! ### carrier ℝ: `DataOK` always holds -/

theorem dataOK_real (l : List ℝ) : DataOK l := fun x _ => Or.inl (le_refl x)

theorem select_inplace_perm_real (self : Data ℝ) (rank : Int) :
    PermOrPanic (Data.select_inplace self rank).2.f_0 self.f_0 :=
  select_inplace_permOrPanic self rank (dataOK_real _)

theorem median_perm_real (self : Data ℝ) :
    PermOrPanic (Data.median self).2.f_0 self.f_0 :=
  median_perm_partial self (dataOK_real _)

theorem quantile_perm_real (self : Data ℝ) (tau : ℝ) :
    PermOrPanic (Data.quantile self tau).2.f_0 self.f_0 :=
  quantile_perm_partial self tau (dataOK_real _)

theorem interquartile_range_perm_real (self : Data ℝ) :
    PermOrPanic (Data.interquartile_range self).2.f_0 self.f_0 :=
  interquartile_range_perm_partial self (dataOK_real _)

/-! ### the in-range hypothesis of `swap_perm_partial` cannot be dropped -/

/-- with one index out of range the model's `swap` loses a value (Rust panics here) -/
theorem swap_perm_counterexample :
    ¬ (Data.swap ({ f_0 := [1] } : Data ℝ) 0 5).2.f_0.Perm [1] := by
  have e : (Data.swap ({ f_0 := [1] } : Data ℝ) 0 5).2.f_0 = [0] := by
    simp [Data.swap, listSwap, listSet, listGet]; rfl
  rw [e]
  intro h
  have := h.mem_iff (a := (0 : ℝ))
  simp at this

/-! ### non-vacuity -/
example : DataOK ([3, 1, 2] : List ℝ) := dataOK_real _
example : (0 : Int) ≤ 0 ∧ (0 : Int) < (({ f_0 := [3, 1] } : Data ℝ)).f_0.length
    ∧ (1 : Int) < (({ f_0 := [3, 1] } : Data ℝ)).f_0.length := by simp

end Statrs.Props.C14
