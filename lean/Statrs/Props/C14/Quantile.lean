/-
  C14 — order statistics, median and quantiles: the wrapper logic around the selection.

  * Branch lemmas for EVERY carrier `α`: which value `order_statistic` returns on each range of
    `order`, `percentile`/quartiles/IQR as quantiles.
  * Over ℝ, relative to `Spec.SelectCorrectOn l` ("quickselect is correct on the data `l`",
    discharged in `Props/C14/SelectCorrect.lean` for bounded length): `order_statistic` is the
    k-th smallest element, `median` the middle element / mean of the two middle elements,
    `quantile` the documented R-8 estimator `Spec.OrderStats.quantileR8`, which lies in
    `[min, max]` and never decreases in `τ`.  These are named `…_rel`.
-/
import Statrs.Lemmas.Select
import Statrs.Lemmas.OrderStats
import Statrs.Spec.SelectSpec
import Statrs.Props.C13.MinMax
import Statrs.Real.Simp
namespace Statrs.Props.C14
open Statrs Statrs.Gen Statrs.Spec Statrs.Spec.OrderStats Statrs.Lemmas.OrderStats
open Statrs.Lemmas.Select

/-! ### branch logic, every carrier -/
section generic
variable {α : Type} [Add α] [Sub α] [Mul α] [Div α] [Neg α] [LT α] [LE α] [BEq α]
  [DecidableLT α] [DecidableLE α] [OfScientific α] [Inhabited α] [RFun α]

theorem min_empty (self : Data α) (h : self.f_0 = []) : Data.min self = (RFun.nan : α) := by
  simp [Data.min, Data.iter, IterStatistics.min, listNext, h]

theorem max_empty (self : Data α) (h : self.f_0 = []) : Data.max self = (RFun.nan : α) := by
  simp [Data.max, Data.iter, IterStatistics.max, listNext, h]

/-- `order = 1` returns the minimum and leaves the buffer alone -/
theorem order_statistic_one (self : Data α) :
    Data.order_statistic self 1 = (Data.min self, self) := by
  simp [Data.order_statistic]

/-- `order = n ≠ 1` returns the maximum and leaves the buffer alone -/
theorem order_statistic_last (self : Data α) (hn : Data.len self ≠ 1) :
    Data.order_statistic self (Data.len self) = (Data.max self, self) := by
  simp [Data.order_statistic, hn]

/-- `1 < order < n` is the selection of rank `order - 1` (value and buffer) -/
theorem order_statistic_inner (self : Data α) (order : Int) (h1 : 1 < order)
    (hn : order < Data.len self) :
    Data.order_statistic self order = Data.select_inplace self (order - 1) := by
  have e : usub order 1 = order - 1 := by
    unfold usub; have : ¬ order < 1 := by omega
    simp [this]
  have c1 : order ≠ 1 := by omega
  have c2 : order ≠ Data.len self := by omega
  have c3 : ¬ (order < 1 ∨ Data.len self < order) := by omega
  simp [Data.order_statistic, e, c1, c2, c3]

/-- `order` outside `1..=n` returns NaN -/
theorem order_statistic_nan (self : Data α) (order : Int)
    (h : order < 1 ∨ Data.len self < order) :
    (Data.order_statistic self order).1 = (RFun.nan : α) := by
  have hlen0 : (0 : Int) ≤ Data.len self := by unfold Data.len listLen; omega
  have hnil : Data.len self = 0 → self.f_0 = [] := by
    intro hlen
    unfold Data.len listLen at hlen
    exact List.length_eq_zero_iff.1 (by omega)
  by_cases c1 : order = 1
  · subst c1
    rw [order_statistic_one]; exact min_empty self (hnil (by omega))
  by_cases c2 : order = Data.len self
  · have hlen : Data.len self = 0 := by rcases h with h | h <;> omega
    have hn1 : Data.len self ≠ 1 := by omega
    rw [c2, order_statistic_last self hn1]; exact max_empty self (hnil hlen)
  · simp [Data.order_statistic, c1, c2, h]

/-- …and leaves the buffer alone -/
theorem order_statistic_nan_buffer (self : Data α) (order : Int)
    (h : order < 1 ∨ Data.len self < order) : (Data.order_statistic self order).2 = self := by
  unfold Data.order_statistic
  simp only []
  split_ifs <;> rfl

/-- out-of-range `τ` or empty data returns NaN and leaves the buffer alone -/
theorem quantile_nan (self : Data α) (tau : α)
    (h : ¬ ((0.0 : α) ≤ tau ∧ tau ≤ (1.0 : α)) ∨ self.f_0 = []) :
    Data.quantile self tau = ((RFun.nan : α), self) := by
  have g : ¬ ((0.0 : α) ≤ tau ∧ tau ≤ (1.0 : α)) ∨ Data.is_empty self = true := by
    rcases h with h | h
    · exact Or.inl h
    · right; simp [Data.is_empty, listLen, h]
  unfold Data.quantile
  rw [if_pos g]

/-- `percentile(p) = quantile(p / 100)` (value and buffer) -/
theorem percentile_eq (self : Data α) (p : Int) :
    Data.percentile self p = Data.quantile self ((RFun.ofInt p : α) / (100.0 : α)) := rfl

/-- `lower_quartile = quantile(0.25)` -/
theorem lower_quartile_eq (self : Data α) :
    Data.lower_quartile self = Data.quantile self (0.25 : α) := rfl

/-- `upper_quartile = quantile(0.75)` -/
theorem upper_quartile_eq (self : Data α) :
    Data.upper_quartile self = Data.quantile self (0.75 : α) := rfl

/-- `interquartile_range = upper_quartile − lower_quartile`, the lower quartile being computed
    on the buffer left by the upper one -/
theorem interquartile_range_value (self : Data α) :
    (Data.interquartile_range self).1
      = (Data.upper_quartile self).1 - (Data.lower_quartile (Data.upper_quartile self).2).1 := rfl

end generic

/-! ### carrier ℝ, relative to `SelectCorrectOn` -/

theorem selectCorrectOn_of_perm {l l' : List ℝ} (S : SelectCorrectOn l) (p : l'.Perm l) :
    SelectCorrectOn l' where
  value := fun b hb k h0 hk => by
    rw [kth_congr p]; exact S.value b (hb.trans p) k h0 (by rw [← p.length_eq]; exact hk)
  perm := fun b hb k h0 hk =>
    (S.perm b (hb.trans p) k h0 (by rw [← p.length_eq]; exact hk)).trans p.symm

/-- `min` is the 0-th order statistic -/
theorem min_eq_kth (self : Data ℝ) (hne : self.f_0 ≠ []) : Data.min self = kth self.f_0 0 := by
  obtain ⟨h1, h2⟩ := C13.min_real self.f_0 hne
  exact eq_kth_zero _ _ h1 h2

/-- `max` is the last order statistic -/
theorem max_eq_kth (self : Data ℝ) (hne : self.f_0 ≠ []) :
    Data.max self = kth self.f_0 (self.f_0.length - 1) := by
  obtain ⟨h1, h2⟩ := C13.max_real self.f_0 hne
  exact eq_kth_last _ _ h1 h2

/-- for `1 ≤ order ≤ n`, `order_statistic(order)` is the `order`-th smallest entry -/
theorem order_statistic_rel (self : Data ℝ) (order : Int) (S : SelectCorrectOn self.f_0)
    (h1 : 1 ≤ order) (hn : order ≤ self.f_0.length) :
    (Data.order_statistic self order).1 = kth self.f_0 (order - 1).toNat := by
  have hne : self.f_0 ≠ [] := by
    intro e; rw [e] at hn; simp at hn; omega
  have hlen : Data.len self = (self.f_0.length : Int) := rfl
  by_cases c1 : order = 1
  · subst c1; rw [order_statistic_one, min_eq_kth self hne]; rfl
  by_cases c2 : order = Data.len self
  · have hn1 : Data.len self ≠ 1 := fun e => c1 (c2.trans e)
    rw [c2, order_statistic_last self hn1, max_eq_kth self hne]
    have e : self.f_0.length - 1 = (Data.len self - 1).toNat := by rw [hlen]; omega
    rw [e]
  · rw [order_statistic_inner self order (by omega) (by omega)]
    exact S.value self (List.Perm.refl _) (order - 1) (by omega) (by omega)

/-- the buffer left by `order_statistic` is a permutation -/
theorem order_statistic_perm_rel (self : Data ℝ) (order : Int) (S : SelectCorrectOn self.f_0)
    (h1 : 1 ≤ order) (hn : order ≤ self.f_0.length) :
    (Data.order_statistic self order).2.f_0.Perm self.f_0 := by
  have hlen : Data.len self = (self.f_0.length : Int) := rfl
  by_cases c1 : order = 1
  · subst c1; rw [order_statistic_one]
  by_cases c2 : order = Data.len self
  · have hn1 : Data.len self ≠ 1 := fun e => c1 (c2.trans e)
    rw [c2, order_statistic_last self hn1]
  · rw [order_statistic_inner self order (by omega) (by omega)]
    exact S.perm self (List.Perm.refl _) (order - 1) (by omega) (by omega)

/-- `median` is the middle entry (odd length) or the mean of the two middle entries (even
    length) of the sorted data, and the buffer it leaves is a permutation of the input -/
theorem median_rel (self : Data ℝ) (S : SelectCorrectOn self.f_0) (hne : self.f_0 ≠ []) :
    (Data.median self).1 = Spec.OrderStats.median self.f_0
      ∧ (Data.median self).2.f_0.Perm self.f_0 := by
  have hpos : 0 < self.f_0.length := List.length_pos_of_ne_nil hne
  have hlen : Data.len self = (self.f_0.length : Int) := rfl
  have hd : udiv (Data.len self) 2 = ((self.f_0.length / 2 : ℕ) : Int) := by
    unfold udiv; rw [hlen]; simp
  have hm : umod (Data.len self) 2 = ((self.f_0.length % 2 : ℕ) : Int) := by
    unfold umod; rw [hlen]; simp
  unfold Data.median Spec.OrderStats.median
  simp only [hd, hm]
  by_cases hodd : self.f_0.length % 2 = 1
  · have c : ((self.f_0.length % 2 : ℕ) : Int) ≠ 0 := by omega
    rw [if_pos c, if_pos hodd]
    have v := S.value self (List.Perm.refl _) ((self.f_0.length / 2 : ℕ) : Int) (by omega) (by omega)
    have p := S.perm self (List.Perm.refl _) ((self.f_0.length / 2 : ℕ) : Int) (by omega) (by omega)
    rw [Int.toNat_natCast] at v
    exact ⟨v, p⟩
  · have c : ¬ (((self.f_0.length % 2 : ℕ) : Int) ≠ 0) := by omega
    rw [if_neg c, if_neg hodd]
    have hk : 1 ≤ self.f_0.length / 2 := by omega
    have hus : usatSub ((self.f_0.length / 2 : ℕ) : Int) 1 = ((self.f_0.length / 2 - 1 : ℕ) : Int) := by
      unfold usatSub
      have : ¬ (((self.f_0.length / 2 : ℕ) : Int) < 1) := by omega
      rw [if_neg this]; omega
    rw [hus]
    have v1 := S.value self (List.Perm.refl _) ((self.f_0.length / 2 - 1 : ℕ) : Int)
      (by omega) (by omega)
    have p1 := S.perm self (List.Perm.refl _) ((self.f_0.length / 2 - 1 : ℕ) : Int)
      (by omega) (by omega)
    have v2 := S.value _ p1 ((self.f_0.length / 2 : ℕ) : Int) (by omega) (by omega)
    have p2 := S.perm _ p1 ((self.f_0.length / 2 : ℕ) : Int) (by omega) (by omega)
    simp only [Int.toNat_natCast] at v1 v2
    refine ⟨?_, p2⟩
    show ((Data.select_inplace self _).1 + (Data.select_inplace (Data.select_inplace self _).2 _).1)
      / (2.0 : ℝ) = _
    rw [v1, v2]; norm_num

/-- `quantile(τ)` for `0 ≤ τ ≤ 1` on non-empty data is the R-8 estimator, and the buffer it
    leaves is a permutation of the input -/
theorem quantile_rel (self : Data ℝ) (tau : ℝ) (S : SelectCorrectOn self.f_0)
    (hne : self.f_0 ≠ []) (hlen : (self.f_0.length : Int) ≤ i64Max) (h0 : 0 ≤ tau) (h1 : tau ≤ 1) :
    (Data.quantile self tau).1 = quantileR8 self.f_0 tau
      ∧ (Data.quantile self tau).2.f_0.Perm self.f_0 := by
  have hpos : 0 < self.f_0.length := List.length_pos_of_ne_nil hne
  have hh : (((RFun.ofInt (Data.len self) : ℝ) + (1.0:ℝ)/(3.0:ℝ)) * tau + (1.0:ℝ)/(3.0:ℝ))
      = r8pos self.f_0 tau := by
    unfold r8pos Data.len listLen; simp only [rfun_ofInt]; push_cast; norm_num
  have hhpos : 0 ≤ r8pos self.f_0 tau := by unfold r8pos; positivity
  have hf : RFun.toI64 (r8pos self.f_0 tau) = ⌊r8pos self.f_0 tau⌋ := by
    show (if 0 ≤ _ then _ else _) = _
    rw [if_pos hhpos]
  have g : ¬ (¬ ((0.0 : ℝ) ≤ tau ∧ tau ≤ (1.0 : ℝ)) ∨ Data.is_empty self = true) := by
    have e0 : (0.0 : ℝ) = 0 := by norm_num
    have e1 : (1.0 : ℝ) = 1 := by norm_num
    rw [e0, e1]
    intro h; rcases h with h | h
    · exact h ⟨h0, h1⟩
    · have : (self.f_0.length : Int) = 0 := by simpa [Data.is_empty, listLen] using h
      omega
  have hwi : wrapI64 (Data.len self) = (self.f_0.length : Int) := by
    unfold wrapI64 Data.len listLen; unfold i64Max at hlen; omega
  unfold Data.quantile
  simp only [hh, hf, if_neg g, hwi]
  unfold quantileR8
  simp only []
  have ht0 : ((tau == (0.0 : ℝ)) = true) ↔ tau = 0 := by
    rw [real_beq]; norm_num
  have ht1 : (RFun.ulpsEq tau (1.0 : ℝ) = true) ↔ tau = 1 := by
    rw [rfun_ulpsEq, decide_eq_true_eq]; norm_num
  have hz : tau = 0 → ⌊r8pos self.f_0 tau⌋ ≤ 0 := by
    intro e; subst e
    have : ⌊r8pos self.f_0 0⌋ = 0 := by
      unfold r8pos; rw [Int.floor_eq_iff]; constructor <;> norm_num
    omega
  have ho : tau = 1 → (self.f_0.length : Int) ≤ ⌊r8pos self.f_0 tau⌋ := by
    intro e; subst e
    have : ⌊r8pos self.f_0 1⌋ = (self.f_0.length : ℤ) := by
      unfold r8pos; rw [Int.floor_eq_iff]; constructor <;> push_cast <;> linarith
    omega
  by_cases c1 : ⌊r8pos self.f_0 tau⌋ ≤ 0
  · rw [if_pos (Or.inl c1), if_pos c1]
    exact ⟨min_eq_kth self hne, List.Perm.refl _⟩
  · have c1' : ¬ (⌊r8pos self.f_0 tau⌋ ≤ 0 ∨ (tau == (0.0 : ℝ)) = true) := by
      rw [ht0]; intro h; rcases h with h | h
      · exact c1 h
      · exact c1 (hz h)
    rw [if_neg c1', if_neg c1]
    by_cases c2 : (self.f_0.length : Int) ≤ ⌊r8pos self.f_0 tau⌋
    · rw [if_pos (Or.inl c2), if_pos c2]
      exact ⟨max_eq_kth self hne, List.Perm.refl _⟩
    · have c2' : ¬ ((self.f_0.length : Int) ≤ ⌊r8pos self.f_0 tau⌋
          ∨ RFun.ulpsEq tau (1.0 : ℝ) = true) := by
        rw [ht1]; intro h; rcases h with h | h
        · exact c2 h
        · exact c2 (ho h)
      rw [if_neg c2', if_neg c2]
      generalize ⌊r8pos self.f_0 tau⌋ = m at c1 c2
      have hw : wrapU64 m = m := by
        unfold wrapU64; unfold i64Max at hlen; omega
      have hus : usatSub m 1 = m - 1 := by
        unfold usatSub; have : ¬ m < 1 := by omega
        rw [if_neg this]
      rw [hw, hus]
      have v1 := S.value self (List.Perm.refl _) (m - 1) (by omega) (by omega)
      have p1 := S.perm self (List.Perm.refl _) (m - 1) (by omega) (by omega)
      have v2 := S.value _ p1 m (by omega) (by omega)
      have p2 := S.perm _ p1 m (by omega) (by omega)
      refine ⟨?_, p2⟩
      simp only [v1, v2, rfun_ofInt]
      have : (m - 1).toNat = m.toNat - 1 := by omega
      rw [this]

/-- `quantile(τ)` lies between `min` and `max` -/
theorem quantile_bounds_rel (self : Data ℝ) (tau : ℝ) (S : SelectCorrectOn self.f_0)
    (hne : self.f_0 ≠ []) (hlen : (self.f_0.length : Int) ≤ i64Max) (h0 : 0 ≤ tau) (h1 : tau ≤ 1) :
    Data.min self ≤ (Data.quantile self tau).1 ∧ (Data.quantile self tau).1 ≤ Data.max self := by
  rw [(quantile_rel self tau S hne hlen h0 h1).1, min_eq_kth self hne, max_eq_kth self hne]
  exact quantileR8_bounds _ hne tau

/-- `quantile` never decreases in `τ` -/
theorem quantile_mono_rel (self : Data ℝ) (s t : ℝ) (S : SelectCorrectOn self.f_0)
    (hne : self.f_0 ≠ []) (hlen : (self.f_0.length : Int) ≤ i64Max) (h0 : 0 ≤ s) (hst : s ≤ t)
    (h1 : t ≤ 1) : (Data.quantile self s).1 ≤ (Data.quantile self t).1 := by
  rw [(quantile_rel self s S hne hlen h0 (le_trans hst h1)).1,
    (quantile_rel self t S hne hlen (le_trans h0 hst) h1).1]
  exact quantileR8_mono _ hne hst

/-- …also across calls that thread the buffer (`b` is any arrangement of the same data) -/
theorem quantile_mono_threaded_rel (self b : Data ℝ) (hb : b.f_0.Perm self.f_0) (s t : ℝ)
    (S : SelectCorrectOn self.f_0) (hne : self.f_0 ≠ [])
    (hlen : (self.f_0.length : Int) ≤ i64Max) (h0 : 0 ≤ s) (hst : s ≤ t) (h1 : t ≤ 1) :
    (Data.quantile self s).1 ≤ (Data.quantile b t).1 := by
  have hneb : b.f_0 ≠ [] := fun e => hne (by rw [e] at hb; exact List.nil_perm.1 hb)
  rw [(quantile_rel self s S hne hlen h0 (le_trans hst h1)).1,
    (quantile_rel b t (selectCorrectOn_of_perm S hb) hneb (by rw [hb.length_eq]; exact hlen)
      (le_trans h0 hst) h1).1]
  unfold quantileR8 r8pos
  simp only [kth_congr hb, hb.length_eq]
  exact quantileR8_mono _ hne hst

/-- `percentile(p)` for `0 ≤ p ≤ 100` is the R-8 quantile at `p / 100` -/
theorem percentile_rel (self : Data ℝ) (p : Int) (S : SelectCorrectOn self.f_0)
    (hne : self.f_0 ≠ []) (hlen : (self.f_0.length : Int) ≤ i64Max) (h0 : 0 ≤ p) (h1 : p ≤ 100) :
    (Data.percentile self p).1 = quantileR8 self.f_0 ((p : ℝ) / 100) := by
  rw [percentile_eq]
  have e : (RFun.ofInt p : ℝ) / (100.0 : ℝ) = (p : ℝ) / 100 := by
    rw [rfun_ofInt]; norm_num
  rw [e]
  have hp0 : (0 : ℝ) ≤ (p : ℝ) / 100 := by
    have : (0 : ℝ) ≤ (p : ℝ) := by exact_mod_cast h0
    positivity
  have hp1 : (p : ℝ) / 100 ≤ 1 := by
    have : (p : ℝ) ≤ 100 := by exact_mod_cast h1
    linarith
  exact (quantile_rel self _ S hne hlen hp0 hp1).1

/-- `lower_quartile` is the R-8 quantile at `1/4` -/
theorem lower_quartile_rel (self : Data ℝ) (S : SelectCorrectOn self.f_0) (hne : self.f_0 ≠ [])
    (hlen : (self.f_0.length : Int) ≤ i64Max) :
    (Data.lower_quartile self).1 = quantileR8 self.f_0 (1 / 4) := by
  rw [lower_quartile_eq]
  have e : (0.25 : ℝ) = 1 / 4 := by norm_num
  rw [e]
  exact (quantile_rel self _ S hne hlen (by norm_num) (by norm_num)).1

/-- `upper_quartile` is the R-8 quantile at `3/4` -/
theorem upper_quartile_rel (self : Data ℝ) (S : SelectCorrectOn self.f_0) (hne : self.f_0 ≠ [])
    (hlen : (self.f_0.length : Int) ≤ i64Max) :
    (Data.upper_quartile self).1 = quantileR8 self.f_0 (3 / 4) := by
  rw [upper_quartile_eq]
  have e : (0.75 : ℝ) = 3 / 4 := by norm_num
  rw [e]
  exact (quantile_rel self _ S hne hlen (by norm_num) (by norm_num)).1

/-- `interquartile_range` is the difference of the R-8 quantiles at `3/4` and `1/4` (hence
    non-negative) -/
theorem interquartile_range_rel (self : Data ℝ) (S : SelectCorrectOn self.f_0)
    (hne : self.f_0 ≠ []) (hlen : (self.f_0.length : Int) ≤ i64Max) :
    (Data.interquartile_range self).1 = quantileR8 self.f_0 (3 / 4) - quantileR8 self.f_0 (1 / 4)
      ∧ 0 ≤ (Data.interquartile_range self).1 := by
  have e75 : (0.75 : ℝ) = 3 / 4 := by norm_num
  have hu := quantile_rel self (3 / 4) S hne hlen (by norm_num) (by norm_num)
  have hb : (Data.upper_quartile self).2.f_0.Perm self.f_0 := by
    rw [upper_quartile_eq, e75]; exact hu.2
  have hneb : (Data.upper_quartile self).2.f_0 ≠ [] :=
    fun e => hne (by rw [e] at hb; exact List.nil_perm.1 hb)
  have hl := lower_quartile_rel (Data.upper_quartile self).2 (selectCorrectOn_of_perm S hb) hneb
    (by rw [hb.length_eq]; exact hlen)
  have hq : quantileR8 (Data.upper_quartile self).2.f_0 (1 / 4) = quantileR8 self.f_0 (1 / 4) := by
    unfold quantileR8 r8pos
    simp only [kth_congr hb, hb.length_eq]
  have hv : (Data.interquartile_range self).1
      = quantileR8 self.f_0 (3 / 4) - quantileR8 self.f_0 (1 / 4) := by
    rw [interquartile_range_value, hl, hq, upper_quartile_rel self S hne hlen]
  refine ⟨hv, ?_⟩
  rw [hv]
  have := quantileR8_mono self.f_0 hne (s := 1 / 4) (t := 3 / 4) (by norm_num)
  linarith

/-! ### non-vacuity: the premise holds on a concrete data set -/

/-- `SelectCorrectOn` holds for one-point data (rank 0 takes the `min` branch) -/
theorem selectCorrectOn_singleton (x : ℝ) : SelectCorrectOn [x] where
  value := fun b hb k h0 hk => by
    have hk0 : k = 0 := by simp at hk; omega
    subst hk0
    have hb' : b.f_0 = [x] := List.perm_singleton.1 hb
    have : (Data.select_inplace b 0).1 = Data.min b := by simp [Data.select_inplace]
    rw [this, min_eq_kth b (by rw [hb']; simp), hb']; rfl
  perm := fun b hb k h0 hk => by
    have hk0 : k = 0 := by simp at hk; omega
    subst hk0
    have : (Data.select_inplace b 0).2 = b := by simp [Data.select_inplace]
    rw [this]; exact hb

example : (Data.quantile ({ f_0 := [5] } : Data ℝ) (1 / 2)).1 = quantileR8 [5] (1 / 2) :=
  (quantile_rel _ _ (selectCorrectOn_singleton 5) (by simp) (by simp [i64Max]) (by norm_num)
    (by norm_num)).1

end Statrs.Props.C14
