/-
  C14 — `handle_rank_ties(ranks, index, a, b, tie_breaker)`: the tied block `index[a..b]` of the
  sorted enumeration receives one common rank — `b/2 + a/2 + 1/2` (Average), `a + 1` (Min),
  `b` (Max) — written to exactly the positions `index[j].0`, `a ≤ j < b`; every other position of
  `ranks` is left alone.  Branch/loop logic for EVERY carrier `α`; the value of the Average rank
  as a real number over ℝ.  (`Data.ranks` itself is not part of the generated model.)
-/
import Statrs.Lemmas.Select
import Statrs.Real.Simp
set_option linter.unusedSectionVars false
namespace Statrs.Props.C14
open Statrs Statrs.Gen Statrs.Lemmas.Select

section generic
variable {α : Type} [Add α] [Sub α] [Mul α] [Div α] [Neg α] [LT α] [LE α] [BEq α]
  [DecidableLT α] [DecidableLE α] [OfScientific α] [Inhabited α] [RFun α]

/-- the positions written by the call: `index[a..b]` projected to the original indices -/
def tiePositions (index : List (Int × α)) (a b : Int) : List Int :=
  ((List.drop (Int.toNat a) index).take (Int.toNat (b - a))).map Prod.fst

/-- the rank assigned to a tied block, as computed by the code -/
def tieRank (a b : Int) : RankTieBreaker → α
  | RankTieBreaker.Average =>
      (((RFun.ofInt b : α) / (2.0 : α)) + ((RFun.ofInt a : α) / (2.0 : α))) + (0.5 : α)
  | RankTieBreaker.Min => (RFun.ofInt (a + 1) : α)
  | RankTieBreaker.Max => (RFun.ofInt b : α)
  | RankTieBreaker.First => default

/-- writing `rank` at each listed position, left to right -/
def writeAll (l : List (Int × α)) (rank : α) (ranks : List α) : List α :=
  l.foldl (fun r i => listSet r i.1 rank) ranks

theorem loop1_eq (l : List (Int × α)) (rank : α) (ranks : List α) :
    S.slice_statistics.handle_rank_ties.loop1 l rank ranks = LoopR.done (writeAll l rank ranks) := by
  induction l generalizing ranks with
  | nil => rfl
  | cons i t ih => rw [S.slice_statistics.handle_rank_ties.loop1, ih]; rfl

theorem loop3_eq (l : List (Int × α)) (rank : α) (ranks : List α) :
    S.slice_statistics.handle_rank_ties.loop3 l rank ranks = LoopR.done (writeAll l rank ranks) := by
  induction l generalizing ranks with
  | nil => rfl
  | cons i t ih => rw [S.slice_statistics.handle_rank_ties.loop3, ih]; rfl

theorem loop5_eq (l : List (Int × α)) (rank : α) (ranks : List α) :
    S.slice_statistics.handle_rank_ties.loop5 l rank ranks = LoopR.done (writeAll l rank ranks) := by
  induction l generalizing ranks with
  | nil => rfl
  | cons i t ih => rw [S.slice_statistics.handle_rank_ties.loop5, ih]; rfl

theorem writeAll_length (l : List (Int × α)) (rank : α) (ranks : List α) :
    (writeAll l rank ranks).length = ranks.length := by
  induction l generalizing ranks with
  | nil => rfl
  | cons i t ih =>
    show (writeAll t rank (listSet ranks i.1 rank)).length = _
    rw [ih, listSet_length]

/-- pointwise description of the write loop: an in-range listed position holds `rank`, every
    other position keeps its value -/
theorem writeAll_get (l : List (Int × α)) (rank : α) (ranks : List α) (p : Int) :
    listGet (writeAll l rank ranks) p
      = if p ∈ l.map Prod.fst ∧ 0 ≤ p ∧ p < ranks.length then rank else listGet ranks p := by
  induction l generalizing ranks with
  | nil => simp [writeAll]
  | cons i t ih =>
    show listGet (writeAll t rank (listSet ranks i.1 rank)) p = _
    rw [ih, listSet_length]
    by_cases hr : 0 ≤ p ∧ p < (ranks.length : Int)
    · by_cases ht : p ∈ t.map Prod.fst
      · have : p ∈ (i :: t).map Prod.fst := by simp only [List.map_cons, List.mem_cons]; exact Or.inr ht
        rw [if_pos ⟨ht, hr⟩, if_pos ⟨this, hr⟩]
      · rw [if_neg (fun h => ht h.1)]
        by_cases hi : p = i.1
        · have : p ∈ (i :: t).map Prod.fst := by simp only [List.map_cons, List.mem_cons]; exact Or.inl hi
          rw [if_pos ⟨this, hr⟩, ← hi, listGet_listSet_eq _ _ _ hr.1 hr.2]
        · have : p ∉ (i :: t).map Prod.fst := by
            simp only [List.map_cons, List.mem_cons, not_or]; exact ⟨hi, ht⟩
          rw [if_neg (fun h => this h.1), listGet_listSet_ne _ _ _ _ hi]
    · rw [if_neg (fun h => hr h.2), if_neg (fun h => hr h.2)]
      by_cases hi : p = i.1
      · have : listSet ranks i.1 rank = ranks := by
          rw [← hi]
          by_cases hneg : p < 0
          · exact listSet_neg _ _ _ hneg
          · exact listSet_ge _ _ _ (by omega)
        rw [this]
      · rw [listGet_listSet_ne _ _ _ _ hi]

/-- `handle_rank_ties` is the write loop with the tie-breaker's rank (for the three tie-breakers
    that reach it; `First` is `unreachable!()` in Rust and leaves `ranks` alone in the model) -/
theorem handle_rank_ties_eq (ranks : List α) (index : List (Int × α)) (a b : Int)
    (tb : RankTieBreaker) (h : tb ≠ RankTieBreaker.First) :
    (S.slice_statistics.handle_rank_ties ranks index a b tb).2
      = writeAll ((List.drop (Int.toNat a) index).take (Int.toNat (b - a))) (tieRank a b tb) ranks := by
  cases tb with
  | Average => simp only [S.slice_statistics.handle_rank_ties, loop1_eq]; rfl
  | Min => simp only [S.slice_statistics.handle_rank_ties, loop3_eq]; rfl
  | Max => simp only [S.slice_statistics.handle_rank_ties, loop5_eq]; rfl
  | First => exact absurd rfl h

theorem handle_rank_ties_first (ranks : List α) (index : List (Int × α)) (a b : Int) :
    (S.slice_statistics.handle_rank_ties ranks index a b RankTieBreaker.First).2 = ranks := rfl

/-- the length of `ranks` is preserved -/
theorem handle_rank_ties_length (ranks : List α) (index : List (Int × α)) (a b : Int)
    (tb : RankTieBreaker) :
    (S.slice_statistics.handle_rank_ties ranks index a b tb).2.length = ranks.length := by
  by_cases h : tb = RankTieBreaker.First
  · subst h; rfl
  · rw [handle_rank_ties_eq ranks index a b tb h, writeAll_length]

/-- every (in-range) position of the block `index[a..b]` receives the tie-breaker's rank -/
theorem handle_rank_ties_assigns (ranks : List α) (index : List (Int × α)) (a b : Int)
    (tb : RankTieBreaker) (h : tb ≠ RankTieBreaker.First) (p : Int)
    (hp : p ∈ tiePositions index a b) (h0 : 0 ≤ p) (h1 : p < ranks.length) :
    listGet (S.slice_statistics.handle_rank_ties ranks index a b tb).2 p = tieRank a b tb := by
  rw [handle_rank_ties_eq ranks index a b tb h, writeAll_get, if_pos ⟨hp, h0, h1⟩]

/-- …and no other position changes -/
theorem handle_rank_ties_frame (ranks : List α) (index : List (Int × α)) (a b : Int)
    (tb : RankTieBreaker) (p : Int) (hp : p ∉ tiePositions index a b) :
    listGet (S.slice_statistics.handle_rank_ties ranks index a b tb).2 p = listGet ranks p := by
  by_cases h : tb = RankTieBreaker.First
  · subst h; rfl
  · rw [handle_rank_ties_eq ranks index a b tb h, writeAll_get, if_neg (fun hh => hp hh.1)]

/-- the block really is `index[a], …, index[b-1]`: for `0 ≤ a ≤ j < b ≤ |index|`, the position
    `index[j].0` is one of the written positions -/
theorem mem_tiePositions (index : List (Int × α)) (a b : Int) (j : ℕ) (ha : 0 ≤ a)
    (haj : a ≤ j) (hjb : (j : Int) < b) (hj : j < index.length) :
    (index[j]).1 ∈ tiePositions index a b := by
  unfold tiePositions
  apply List.mem_map_of_mem
  rw [List.mem_iff_getElem]
  have h1 : j - a.toNat < ((List.drop a.toNat index).take (b - a).toNat).length := by
    simp only [List.length_take, List.length_drop]; omega
  refine ⟨j - a.toNat, h1, ?_⟩
  simp only [List.getElem_take, List.getElem_drop]
  congr 1; omega

/-- conversely every written position is `index[j].0` for some `a ≤ j < b` -/
theorem of_mem_tiePositions (index : List (Int × α)) (a b : Int) (ha : 0 ≤ a) (p : Int)
    (hp : p ∈ tiePositions index a b) :
    ∃ j : ℕ, ∃ hj : j < index.length, a ≤ j ∧ (j : Int) < b ∧ (index[j]).1 = p := by
  unfold tiePositions at hp
  obtain ⟨x, hx, rfl⟩ := List.mem_map.1 hp
  obtain ⟨k, hk, e⟩ := List.mem_iff_getElem.1 hx
  simp only [List.length_take, List.length_drop] at hk
  refine ⟨a.toNat + k, by omega, by omega, by omega, ?_⟩
  rw [← e]; simp only [List.getElem_take, List.getElem_drop]

/-- the three rank values, as written in the source -/
theorem tieRank_min (a b : Int) : (tieRank a b RankTieBreaker.Min : α) = RFun.ofInt (a + 1) := rfl
theorem tieRank_max (a b : Int) : (tieRank a b RankTieBreaker.Max : α) = RFun.ofInt b := rfl
theorem tieRank_average (a b : Int) :
    (tieRank a b RankTieBreaker.Average : α)
      = (((RFun.ofInt b : α) / (2.0 : α)) + ((RFun.ofInt a : α) / (2.0 : α))) + (0.5 : α) := rfl

end generic

/-! ### carrier ℝ: the rank values -/

/-- Average: the mean of the 1-based ranks `a+1, …, b` of the tied block -/
theorem tieRank_average_real (a b : Int) :
    (tieRank a b RankTieBreaker.Average : ℝ) = ((a : ℝ) + 1 + b) / 2 := by
  simp only [tieRank, rfun_ofInt]; norm_num; ring

/-- …which is indeed the arithmetic mean `(Σ_{r=a+1}^{b} r) / (b - a)` when `a < b` -/
theorem tieRank_average_is_mean (a b : ℕ) (hab : a < b) :
    (tieRank (a : Int) (b : Int) RankTieBreaker.Average : ℝ)
      = (∑ r ∈ Finset.Ico (a + 1) (b + 1), (r : ℝ)) / ((b : ℝ) - a) := by
  rw [tieRank_average_real]
  have hne : ((b : ℝ) - a) ≠ 0 := by
    have : (a : ℝ) < b := by exact_mod_cast hab
    linarith
  have key : ∀ n : ℕ, a ≤ n →
      (∑ r ∈ Finset.Ico (a + 1) (n + 1), (r : ℝ)) = ((a : ℝ) + 1 + n) * ((n : ℝ) - a) / 2 := by
    intro n hn
    induction n, hn using Nat.le_induction with
    | base => simp
    | succ n hn ih =>
      rw [Finset.sum_Ico_succ_top (by omega), ih]; push_cast; ring
  rw [key b (le_of_lt hab)]
  push_cast
  field_simp

theorem tieRank_min_real (a b : Int) : (tieRank a b RankTieBreaker.Min : ℝ) = (a : ℝ) + 1 := by
  simp [tieRank]

theorem tieRank_max_real (a b : Int) : (tieRank a b RankTieBreaker.Max : ℝ) = (b : ℝ) := by
  simp [tieRank]

/-! ### non-vacuity -/
example : (S.slice_statistics.handle_rank_ties [0, 0, 0] [(2, (1 : ℝ)), (0, 1), (1, 5)] 0 2
    RankTieBreaker.Min).2 = [1, 0, 1] := by
  simp [S.slice_statistics.handle_rank_ties, S.slice_statistics.handle_rank_ties.loop3, listSet]

end Statrs.Props.C14
