/-
  C14 — `Data::ranks` (hand model `Statrs.Model.Data.ranks`, tied to the code by the "ranktests"
  correspondence suite), carrier ℝ, ALL inputs.

  With `s` the stably sorted enumeration of the data (strictly increasing in `(value, index)`):
    * `First`: the element at sorted position `k` gets rank `k + 1`; equivalently the rank of
      position `i` is `1 + #{(j, x_j) : x_j < x_i ∨ (x_j = x_i ∧ j < i)}` — a permutation of
      `1..n` that is consistent with the order and stable among ties;
    * `Min`:     rank(i) = 1 + #{j : x_j < x_i};
    * `Max`:     rank(i) = #{j : x_j ≤ x_i};
    * `Average`: rank(i) = (rank_min(i) + rank_max(i)) / 2;
    * for `Min`/`Max`/`Average` the rank of an element depends only on its value and on the
      multiset of the data: ranks are invariant under any permutation of the input, up to the same
      permutation.
  (`handle_rank_ties` is the generated function; its block-write description comes from
  `Statrs.Props.C14.Ranks`.)
-/
import Statrs.Props.C14.Ranks
import Statrs.Lemmas.RankSort
import Statrs.Real.Simp
import Statrs.Inst.Float
set_option linter.unusedSectionVars false
set_option linter.unusedVariables false
namespace Statrs.Props.C14.RanksModel
open Statrs Statrs.Gen Statrs.Model Statrs.Lemmas.Select Statrs.Lemmas.RankSort Statrs.Props.C14

/-! ### the sorted enumeration -/

/-- over ℝ nothing is uncomparable: the sort never panics -/
theorem sortPanics_real (l : List ℝ) : sortPanics l = false := by
  unfold sortPanics
  have : (l.any fun a => (partialCmp a a).isNone) = false := by
    rw [List.any_eq_false]; intro a _; simp [partialCmp]
  rw [this]; simp

theorem ranks_panics_real (l : List ℝ) : Data.ranks_panics (⟨l⟩ : Data ℝ) = false := sortPanics_real l

/-- `enumerated` after the sort -/
noncomputable def srt (l : List ℝ) : List (Int × ℝ) := Data.ranks.enumerated (⟨l⟩ : Data ℝ)

theorem srt_perm (l : List ℝ) : (srt l).Perm (listEnum l) := sortBy_perm _ _

theorem srt_length (l : List ℝ) : (srt l).length = l.length := by
  rw [(srt_perm l).length_eq, listEnum_length]

/-- stability: strictly increasing in `(value, index)` -/
theorem srt_lex (l : List ℝ) : (srt l).Pairwise lexLt :=
  sortBy_lex _ (by intro a b; simp) _ (listEnum_pairwise_fst l)

theorem srt_mem (l : List ℝ) (p : Int × ℝ) :
    p ∈ srt l ↔ ∃ k : ℕ, ∃ hk : k < l.length, p = ((k : Int), l[k]) := by
  rw [(srt_perm l).mem_iff, mem_listEnum]

theorem srt_map_fst_perm (l : List ℝ) :
    ((srt l).map Prod.fst).Perm ((List.range l.length).map (fun (i : ℕ) => (i : Int))) := by
  rw [← listEnum_map_fst]; exact (srt_perm l).map _

theorem srt_map_snd_perm (l : List ℝ) : ((srt l).map Prod.snd).Perm l := by
  have := (srt_perm l).map Prod.snd
  rwa [listEnum_map_snd] at this

theorem srt_fst_nodup (l : List ℝ) : ((srt l).map Prod.fst).Nodup := by
  rw [(srt_map_fst_perm l).nodup_iff]
  exact (List.nodup_range).map (by intro a b h; exact Int.ofNat.inj h)

theorem srt_getElem (l : List ℝ) (k : ℕ) (hk : k < (srt l).length) :
    ∃ i : ℕ, ∃ hi : i < l.length, (srt l)[k] = ((i : Int), l[i]) :=
  (srt_mem l _).1 (List.getElem_mem hk)

/-- every original position occurs at exactly one sorted position -/
theorem srt_pos (l : List ℝ) (i : ℕ) (hi : i < l.length) :
    ∃ k : ℕ, ∃ hk : k < (srt l).length, (srt l)[k] = ((i : Int), l[i]) := by
  have : ((i : Int), l[i]) ∈ srt l := (srt_mem l _).2 ⟨i, hi, rfl⟩
  obtain ⟨k, hk, e⟩ := List.getElem_of_mem this
  exact ⟨k, hk, e⟩

theorem srt_fst_inj (l : List ℝ) (a b : ℕ) (ha : a < (srt l).length) (hb : b < (srt l).length)
    (h : ((srt l)[a]).1 = ((srt l)[b]).1) : a = b := by
  have hn := srt_fst_nodup l
  have := (List.nodup_iff_injective_getElem.1 hn)
  have h' : ((srt l).map Prod.fst)[a]'(by simpa using ha) = ((srt l).map Prod.fst)[b]'(by simpa using hb) := by
    simpa using h
  have := @this ⟨a, by simpa using ha⟩ ⟨b, by simpa using hb⟩ h'
  simpa using this

/-- the sorted positions respect the lexicographic order -/
theorem srt_lt_of_lex (l : List ℝ) (a b : ℕ) (ha : a < (srt l).length) (hb : b < (srt l).length)
    (h : lexLt (srt l)[a] (srt l)[b]) : a < b := by
  rcases lt_trichotomy a b with h1 | h1 | h1
  · exact h1
  · subst h1; exact absurd h (lexLt_irrefl _)
  · exact absurd (List.pairwise_iff_getElem.1 (srt_lex l) b a hb ha h1) (lexLt_asymm h)

theorem srt_snd_mono (l : List ℝ) (a b : ℕ) (ha : a < (srt l).length) (hb : b < (srt l).length)
    (h : a ≤ b) : ((srt l)[a]).2 ≤ ((srt l)[b]).2 := by
  rcases Nat.lt_or_eq_of_le h with h1 | h1
  · rcases List.pairwise_iff_getElem.1 (srt_lex l) a b ha hb h1 with h2 | ⟨h2, _⟩
    · exact le_of_lt h2
    · exact le_of_eq h2
  · subst h1; exact le_refl _

/-! ### `First` -/

noncomputable instance lexLtDec : DecidableRel (lexLt (γ := ℝ)) := fun a b => by
  unfold lexLt; infer_instance

theorem listEnum_append_singleton {β : Type} (t : List β) (x : β) :
    listEnum (t ++ [x]) = listEnum t ++ [((t.length : Int), x)] := by
  simp [listEnum, List.range_succ, List.zip_append]

/-- the `First` loop: write `k + 1` at `idxs[k]`, `k = 0, 1, …` -/
noncomputable def writeSeq (idxs : List Int) (r : List ℝ) : List ℝ :=
  (listEnum idxs).foldl (fun ranks p => listSet ranks p.2 (RFun.ofInt (p.1 + (1 : Int)) : ℝ)) r

theorem writeSeq_snoc (t : List Int) (x : Int) (r : List ℝ) :
    writeSeq (t ++ [x]) r = listSet (writeSeq t r) x (((t.length : Int) + 1 : Int) : ℝ) := by
  unfold writeSeq
  rw [listEnum_append_singleton, List.foldl_append]
  rfl

theorem writeSeq_length (idxs : List Int) (r : List ℝ) : (writeSeq idxs r).length = r.length := by
  induction idxs using List.reverseRecOn with
  | nil => rfl
  | append_singleton t x ih => rw [writeSeq_snoc, listSet_length, ih]

theorem writeSeq_get (idxs : List Int) (r : List ℝ) (hn : idxs.Nodup)
    (hr : ∀ x ∈ idxs, 0 ≤ x ∧ x < (r.length : Int)) (k : ℕ) (hk : k < idxs.length) :
    listGet (writeSeq idxs r) idxs[k] = (k : ℝ) + 1 := by
  induction idxs using List.reverseRecOn generalizing k with
  | nil => simp at hk
  | append_singleton t x ih =>
    rw [writeSeq_snoc]
    have hnt : t.Nodup := (List.nodup_append.1 hn).1
    have hxt : x ∉ t := by
      intro hx
      exact (List.nodup_append.1 hn).2.2 x hx x (by simp) rfl
    have hrx := hr x (by simp)
    by_cases hkt : k < t.length
    · have e : (t ++ [x])[k] = t[k] := List.getElem_append_left hkt
      rw [e, listGet_listSet_ne _ _ _ _ (by intro h; exact hxt (h ▸ List.getElem_mem hkt))]
      exact ih hnt (fun y hy => hr y (by simp [hy])) k hkt
    · have hk' : k = t.length := by simp at hk; omega
      subst hk'
      have e : (t ++ [x])[t.length] = x := by simp
      rw [e, listGet_listSet_eq _ _ _ hrx.1 (by rw [writeSeq_length]; exact hrx.2)]
      push_cast; ring

theorem ranks_first_eq (l : List ℝ) :
    Data.ranks (⟨l⟩ : Data ℝ) RankTieBreaker.First
      = writeSeq ((srt l).map Prod.fst) (List.replicate l.length (0.0 : ℝ)) := by
  unfold Data.ranks
  simp only [sortPanics_real]
  rfl

theorem ranks_first_length (l : List ℝ) :
    (Data.ranks (⟨l⟩ : Data ℝ) RankTieBreaker.First).length = l.length := by
  rw [ranks_first_eq, writeSeq_length, List.length_replicate]

/-- `First`: the element at sorted position `k` (0-based) receives rank `k + 1` -/
theorem ranks_first_sorted (l : List ℝ) (k : ℕ) (hk : k < (srt l).length) :
    listGet (Data.ranks (⟨l⟩ : Data ℝ) RankTieBreaker.First) ((srt l)[k]).1 = (k : ℝ) + 1 := by
  rw [ranks_first_eq]
  have hk' : k < ((srt l).map Prod.fst).length := by simpa using hk
  have := writeSeq_get ((srt l).map Prod.fst) (List.replicate l.length (0.0 : ℝ)) (srt_fst_nodup l)
    (by
      intro x hx
      obtain ⟨p, hp, rfl⟩ := List.mem_map.1 hx
      obtain ⟨i, hi, rfl⟩ := (srt_mem l p).1 hp
      simp only [List.length_replicate]
      constructor <;> omega) k hk'
  simpa using this

/-- `First`, counting form: the rank of position `i` is one plus the number of pairs
    `(j, x_j)` that precede `(i, x_i)` in the order "by value, then by index" -/
theorem ranks_first_count (l : List ℝ) (i : ℕ) (hi : i < l.length) :
    listGet (Data.ranks (⟨l⟩ : Data ℝ) RankTieBreaker.First) (i : Int)
      = (((listEnum l).countP (fun e => decide (e.2 < l[i] ∨ (e.2 = l[i] ∧ e.1 < (i : Int)))) : ℕ) : ℝ) + 1 := by
  obtain ⟨k, hk, e⟩ := srt_pos l i hi
  have h1 := ranks_first_sorted l k hk
  rw [e] at h1
  rw [h1]
  have h2 := countP_lt_getElem (lexLt (γ := ℝ)) lexLt_irrefl (fun a b => lexLt_asymm) (srt l) (srt_lex l) k hk
  rw [e] at h2
  have h3 := (srt_perm l).countP_eq (fun e => decide (lexLt e ((i : Int), l[i])))
  rw [h2] at h3
  have h4 : (listEnum l).countP (fun e => decide (e.2 < l[i] ∨ (e.2 = l[i] ∧ e.1 < (i : Int))))
      = (listEnum l).countP (fun e => decide (lexLt e ((i : Int), l[i]))) := by
    apply List.countP_congr
    intro e _
    simp only [lexLt]
  rw [h4, ← h3]

/-- `First` is consistent with the order of the values… -/
theorem ranks_first_lt_of_lt (l : List ℝ) (i j : ℕ) (hi : i < l.length) (hj : j < l.length)
    (h : l[i] < l[j]) :
    listGet (Data.ranks (⟨l⟩ : Data ℝ) RankTieBreaker.First) (i : Int)
      < listGet (Data.ranks (⟨l⟩ : Data ℝ) RankTieBreaker.First) (j : Int) := by
  obtain ⟨a, ha, ea⟩ := srt_pos l i hi
  obtain ⟨b, hb, eb⟩ := srt_pos l j hj
  have h1 := ranks_first_sorted l a ha
  have h2 := ranks_first_sorted l b hb
  rw [ea] at h1; rw [eb] at h2
  rw [h1, h2]
  have : a < b := srt_lt_of_lex l a b ha hb (by rw [ea, eb]; exact Or.inl h)
  have : (a : ℝ) < b := by exact_mod_cast this
  linarith

/-- …and stable among ties: equal values are ranked in index order -/
theorem ranks_first_stable (l : List ℝ) (i j : ℕ) (hi : i < l.length) (hj : j < l.length)
    (h : l[i] = l[j]) (hij : i < j) :
    listGet (Data.ranks (⟨l⟩ : Data ℝ) RankTieBreaker.First) (i : Int)
      < listGet (Data.ranks (⟨l⟩ : Data ℝ) RankTieBreaker.First) (j : Int) := by
  obtain ⟨a, ha, ea⟩ := srt_pos l i hi
  obtain ⟨b, hb, eb⟩ := srt_pos l j hj
  have h1 := ranks_first_sorted l a ha
  have h2 := ranks_first_sorted l b hb
  rw [ea] at h1; rw [eb] at h2
  rw [h1, h2]
  have : a < b := srt_lt_of_lex l a b ha hb (by rw [ea, eb]; exact Or.inr ⟨h, by show (i : Int) < (j : Int); exact_mod_cast hij⟩)
  have : (a : ℝ) < b := by exact_mod_cast this
  linarith

/-- `First` returns a permutation of `1, 2, …, n` -/
theorem ranks_first_perm (l : List ℝ) :
    (Data.ranks (⟨l⟩ : Data ℝ) RankTieBreaker.First).Perm
      ((List.range l.length).map (fun (k : ℕ) => (k : ℝ) + 1)) := by
  set R := Data.ranks (⟨l⟩ : Data ℝ) RankTieBreaker.First with hR
  have hlen : R.length = l.length := ranks_first_length l
  -- read `R` along the two index lists
  have hp := (srt_map_fst_perm l).map (fun idx => listGet R idx)
  have e1 : (((srt l).map Prod.fst).map (fun idx => listGet R idx))
      = (List.range l.length).map (fun (k : ℕ) => (k : ℝ) + 1) := by
    apply List.ext_getElem
    · simp [srt_length]
    · intro k h1 h2
      simp only [List.getElem_map, List.getElem_range]
      exact ranks_first_sorted l k (by simpa using h1)
  have e2 : (((List.range l.length).map (fun (i : ℕ) => (i : Int))).map (fun idx => listGet R idx)) = R := by
    apply List.ext_getElem
    · simp [hlen]
    · intro k h1 h2
      simp only [List.getElem_map, List.getElem_range]
      exact listGet_nat_lt R k h2
  rw [e1, e2] at hp
  exact hp.symm

/-! ### `Min` / `Max` / `Average` -/

/-- `#{j : x_j < x}` and `#{j : x_j ≤ x}` -/
noncomputable def cLt (l : List ℝ) (x : ℝ) : Int := ((l.countP (fun y => decide (y < x)) : ℕ) : Int)
noncomputable def cLe (l : List ℝ) (x : ℝ) : Int := ((l.countP (fun y => decide (y ≤ x)) : ℕ) : Int)

/-- counting in a list that is split by a predicate at position `p` -/
theorem countP_split (v : List ℝ) (P : ℝ → Bool) (p : ℕ) (hp : p ≤ v.length)
    (h1 : ∀ q (hq : q < v.length), q < p → P v[q] = true)
    (h2 : ∀ q (hq : q < v.length), p ≤ q → P v[q] = false) : v.countP P = p := by
  conv_lhs => rw [← List.take_append_drop p v]
  rw [List.countP_append]
  have e1 : (v.take p).countP P = (v.take p).length := by
    rw [List.countP_eq_length]
    intro a ha
    obtain ⟨q, hq, rfl⟩ := List.getElem_of_mem ha
    rw [List.getElem_take]
    simp only [List.length_take] at hq
    exact h1 q (by omega) (by omega)
  have e2 : (v.drop p).countP P = 0 := by
    rw [List.countP_eq_zero]
    intro a ha
    obtain ⟨q, hq, rfl⟩ := List.getElem_of_mem ha
    rw [List.getElem_drop]
    simp only [List.length_drop] at hq
    rw [h2 (p + q) (by omega) (by omega)]
    simp
  rw [e1, e2, List.length_take]; omega

/-- over ℝ the tie test `*elt == prev_elt` is equality -/
theorem beq_tie_real (x y : ℝ) : ((x == y) = true) ↔ x = y := by
  rw [real_beq]

section steps
variable (s : List (Int × ℝ)) (tb : RankTieBreaker)

theorem step_zero (R : List ℝ) (prev pidx : Int) (pelt : ℝ) (idx : Int) (elt : ℝ) :
    Data.ranks.step (α := ℝ) s tb (R, (prev, (pidx, pelt))) ((0 : Int), (idx, elt))
      = (R, (prev, (idx, elt))) := by
  have h : ((elt == elt) = true) := (beq_tie_real _ _).2 rfl
  simp only [Data.ranks.step, if_true, h]

theorem step_eq (R : List ℝ) (prev pidx : Int) (pelt : ℝ) (i idx : Int) (elt : ℝ) (hi : i ≠ 0)
    (he : elt = pelt) :
    Data.ranks.step (α := ℝ) s tb (R, (prev, (pidx, pelt))) (i, (idx, elt))
      = (R, (prev, (pidx, pelt))) := by
  have h : ((elt == pelt) = true) := (beq_tie_real _ _).2 he
  simp only [Data.ranks.step, if_neg hi, h, if_true]

theorem step_ne (R : List ℝ) (prev pidx : Int) (pelt : ℝ) (i idx : Int) (elt : ℝ) (hi : i ≠ 0)
    (he : elt ≠ pelt) :
    Data.ranks.step (α := ℝ) s tb (R, (prev, (pidx, pelt))) (i, (idx, elt))
      = ((if i = prev + (1 : Int) then listSet R pidx (RFun.ofInt i : ℝ)
          else (S.slice_statistics.handle_rank_ties (α := ℝ) R s prev i tb).2), (i, (idx, elt))) := by
  have h : ¬ ((elt == pelt) = true) := fun h' => he ((beq_tie_real _ _).1 h')
  simp only [Data.ranks.step, if_neg hi, if_neg h]

end steps

/-- the loop state after `k` iterations -/
noncomputable def stK (l : List ℝ) (tb : RankTieBreaker) (k : ℕ) : List ℝ × (Int × (Int × ℝ)) :=
  ((listEnum (srt l)).take k).foldl (Data.ranks.step (α := ℝ) (srt l) tb)
    (List.replicate l.length (0.0 : ℝ), ((0 : Int), ((0 : Int), (0.0 : ℝ))))

theorem stK_succ (l : List ℝ) (tb : RankTieBreaker) (k : ℕ) (hk : k < (srt l).length) :
    stK l tb (k + 1) = Data.ranks.step (α := ℝ) (srt l) tb (stK l tb k) ((k : Int), (srt l)[k]) := by
  unfold stK
  have : (listEnum (srt l))[k]? = some ((k : Int), (srt l)[k]) := by
    rw [List.getElem?_eq_getElem (by rw [listEnum_length]; exact hk), listEnum_getElem _ k hk]
  rw [List.take_add_one, List.foldl_append, this]
  rfl

theorem ranks_tie_eq (l : List ℝ) (tb : RankTieBreaker) (h : tb ≠ RankTieBreaker.First) :
    Data.ranks (⟨l⟩ : Data ℝ) tb
      = (S.slice_statistics.handle_rank_ties (α := ℝ) (stK l tb (srt l).length).1 (srt l)
          (stK l tb (srt l).length).2.1 (l.length : Int) tb).2 := by
  have ht : (listEnum (srt l)).take (srt l).length = listEnum (srt l) := by
    rw [List.take_of_length_le]; rw [listEnum_length]
  unfold stK; rw [ht]
  cases tb with
  | First => exact absurd rfl h
  | Average => unfold Data.ranks; simp only [sortPanics_real]; rfl
  | Min => unfold Data.ranks; simp only [sortPanics_real]; rfl
  | Max => unfold Data.ranks; simp only [sortPanics_real]; rfl

/-- the counts that delimit a block of equal values in the sorted enumeration -/
theorem block_counts (l : List ℝ) (p b : ℕ) (hp : p < (srt l).length) (hpb : p < b)
    (hb : b ≤ (srt l).length)
    (hc : ∀ q (hq : q < (srt l).length), p ≤ q → q < b → ((srt l)[q]).2 = ((srt l)[p]).2)
    (hd : ∀ q (hq : q < (srt l).length), q < p → ((srt l)[q]).2 < ((srt l)[p]).2)
    (he : ∀ q (hq : q < (srt l).length), b ≤ q → ((srt l)[p]).2 < ((srt l)[q]).2) :
    cLt l ((srt l)[p]).2 = (p : Int) ∧ cLe l ((srt l)[p]).2 = (b : Int) := by
  have hlen : ((srt l).map Prod.snd).length = (srt l).length := by simp
  constructor
  · unfold cLt
    rw [← (srt_map_snd_perm l).countP_eq]
    congr 1
    apply countP_split _ _ p (by rw [hlen]; omega)
    · intro q hq hqp
      rw [hlen] at hq
      simpa using hd q hq hqp
    · intro q hq hpq
      rw [hlen] at hq
      simpa using srt_snd_mono l p q hp hq hpq
  · unfold cLe
    rw [← (srt_map_snd_perm l).countP_eq]
    congr 1
    apply countP_split _ _ b (by rw [hlen]; omega)
    · intro q hq hqb
      rw [hlen] at hq
      by_cases hqp : q < p
      · simpa using le_of_lt (hd q hq hqp)
      · simpa using le_of_eq (hc q hq (by omega) hqb)
    · intro q hq hbq
      rw [hlen] at hq
      simpa using he q hq hbq

/-- closing the block `[p, b)`: every position up to `b` holds its final rank -/
theorem block_close (l : List ℝ) (tb : RankTieBreaker) (R R' : List ℝ) (p b : ℕ)
    (hp : p < (srt l).length) (hpb : p < b) (hb : b ≤ (srt l).length)
    (hc : ∀ q (hq : q < (srt l).length), p ≤ q → q < b → ((srt l)[q]).2 = ((srt l)[p]).2)
    (hd : ∀ q (hq : q < (srt l).length), q < p → ((srt l)[q]).2 < ((srt l)[p]).2)
    (he : ∀ q (hq : q < (srt l).length), b ≤ q → ((srt l)[p]).2 < ((srt l)[q]).2)
    (hf : ∀ q (hq : q < (srt l).length), q < p →
      listGet R ((srt l)[q]).1 = tieRank (cLt l ((srt l)[q]).2) (cLe l ((srt l)[q]).2) tb)
    (hw : ∀ q (hq : q < (srt l).length), p ≤ q → q < b →
      listGet R' ((srt l)[q]).1 = tieRank (p : Int) (b : Int) tb)
    (hfr : ∀ j : Int, (∀ q (hq : q < (srt l).length), p ≤ q → q < b → ((srt l)[q]).1 ≠ j) →
      listGet R' j = listGet R j) :
    ∀ q (hq : q < (srt l).length), q < b →
      listGet R' ((srt l)[q]).1 = tieRank (cLt l ((srt l)[q]).2) (cLe l ((srt l)[q]).2) tb := by
  intro q hq hqb
  by_cases hqp : q < p
  · rw [hfr _ (by
      intro q' hq' h1 h2 h3
      have := srt_fst_inj l q' q hq' hq h3
      omega)]
    exact hf q hq hqp
  · have hpq : p ≤ q := by omega
    rw [hw q hq hpq hqb, hc q hq hpq hqb]
    obtain ⟨h1, h2⟩ := block_counts l p b hp hpb hb hc hd he
    rw [h1, h2]

/-- the block write of `handle_rank_ties` on the sorted enumeration -/
theorem hrt_block (l : List ℝ) (tb : RankTieBreaker) (htb : tb ≠ RankTieBreaker.First)
    (R : List ℝ) (hR : R.length = (srt l).length) (p b : ℕ) (hb : b ≤ (srt l).length) :
    let R' := (S.slice_statistics.handle_rank_ties (α := ℝ) R (srt l) (p : Int) (b : Int) tb).2
    R'.length = (srt l).length ∧
    (∀ q (hq : q < (srt l).length), p ≤ q → q < b →
      listGet R' ((srt l)[q]).1 = tieRank (p : Int) (b : Int) tb) ∧
    (∀ j : Int, (∀ q (hq : q < (srt l).length), p ≤ q → q < b → ((srt l)[q]).1 ≠ j) →
      listGet R' j = listGet R j) := by
  intro R'
  refine ⟨by rw [handle_rank_ties_length, hR], ?_, ?_⟩
  · intro q hq hpq hqb
    obtain ⟨i, hi, e⟩ := srt_getElem l q hq
    apply handle_rank_ties_assigns R (srt l) (p : Int) (b : Int) tb htb
    · exact mem_tiePositions (srt l) (p : Int) (b : Int) q (by omega) (by exact_mod_cast hpq)
        (by exact_mod_cast hqb) hq
    · rw [e]; simp
    · rw [e, hR, srt_length]; simp; exact hi
  · intro j hj
    apply handle_rank_ties_frame
    intro hmem
    obtain ⟨q, hq, h1, h2, h3⟩ := of_mem_tiePositions (srt l) (p : Int) (b : Int) (by omega) j hmem
    exact hj q hq (by exact_mod_cast h1) (by exact_mod_cast h2) h3

/-- a singleton block `[p, p+1)` gets rank `p + 1` whatever the tie-breaker -/
theorem tieRank_singleton (p : ℕ) (tb : RankTieBreaker) (htb : tb ≠ RankTieBreaker.First) :
    (tieRank (p : Int) ((p + 1 : ℕ) : Int) tb : ℝ) = (((p + 1 : ℕ) : Int) : ℝ) := by
  cases tb with
  | First => exact absurd rfl htb
  | Average => rw [tieRank_average_real]; push_cast; ring
  | Min => rw [tieRank_min_real]; push_cast; ring
  | Max => rw [tieRank_max_real]

/-- loop invariant after `k ≥ 1` iterations -/
def Inv (l : List ℝ) (tb : RankTieBreaker) (k : ℕ) (st : List ℝ × (Int × (Int × ℝ))) : Prop :=
  ∃ p : ℕ, ∃ hp : p < (srt l).length, st.2.1 = (p : Int) ∧ p < k ∧ st.2.2 = (srt l)[p] ∧
    (∀ q (hq : q < (srt l).length), p ≤ q → q < k → ((srt l)[q]).2 = ((srt l)[p]).2) ∧
    (∀ q (hq : q < (srt l).length), q < p → ((srt l)[q]).2 < ((srt l)[p]).2) ∧
    st.1.length = (srt l).length ∧
    (∀ q (hq : q < (srt l).length), q < p →
      listGet st.1 ((srt l)[q]).1 = tieRank (cLt l ((srt l)[q]).2) (cLe l ((srt l)[q]).2) tb)

theorem inv_one (l : List ℝ) (tb : RankTieBreaker) (h0 : 0 < (srt l).length) :
    Inv l tb 1 (stK l tb 1) := by
  have e : stK l tb 1 = (List.replicate l.length (0.0 : ℝ), ((0 : Int), (srt l)[0])) := by
    rw [stK_succ l tb 0 h0]
    have : stK l tb 0 = (List.replicate l.length (0.0 : ℝ), ((0 : Int), ((0 : Int), (0.0 : ℝ)))) := rfl
    rw [this]
    exact step_zero (srt l) tb _ _ _ _ _ _
  rw [e]
  refine ⟨0, h0, rfl, by omega, rfl, ?_, ?_, ?_, ?_⟩
  · intro q hq h1 h2
    have : q = 0 := by omega
    subst this; rfl
  · intro q hq h1; omega
  · simp [srt_length]
  · intro q hq h1; omega

theorem inv_step (l : List ℝ) (tb : RankTieBreaker) (htb : tb ≠ RankTieBreaker.First) (k : ℕ)
    (hk1 : 1 ≤ k) (hk : k < (srt l).length) (st : List ℝ × (Int × (Int × ℝ))) (h : Inv l tb k st) :
    Inv l tb (k + 1) (Data.ranks.step (α := ℝ) (srt l) tb st ((k : Int), (srt l)[k])) := by
  obtain ⟨p, hp, hprev, hpk, hpe, hc, hd, hlen, hf⟩ := h
  obtain ⟨R, prev, pidx, pelt⟩ := st
  simp only at hprev hpe hlen hf
  subst hprev
  have hk0 : (k : Int) ≠ 0 := by omega
  have hpe1 : pidx = ((srt l)[p]).1 := by rw [← hpe]
  have hpe2 : pelt = ((srt l)[p]).2 := by rw [← hpe]
  by_cases heq : ((srt l)[k]).2 = pelt
  · -- same value: the run continues
    have : Data.ranks.step (α := ℝ) (srt l) tb (R, ((p : Int), (pidx, pelt))) ((k : Int), (srt l)[k])
        = (R, ((p : Int), (pidx, pelt))) :=
      step_eq (srt l) tb R _ _ _ _ ((srt l)[k]).1 ((srt l)[k]).2 hk0 heq
    rw [this]
    refine ⟨p, hp, rfl, by omega, hpe, ?_, hd, hlen, hf⟩
    intro q hq h1 h2
    by_cases hqk : q < k
    · exact hc q hq h1 hqk
    · have : q = k := by omega
      subst this; rw [heq, hpe2]
  · -- a new value: the block `[p, k)` is closed
    have hstep : Data.ranks.step (α := ℝ) (srt l) tb (R, ((p : Int), (pidx, pelt))) ((k : Int), (srt l)[k])
        = ((if (k : Int) = (p : Int) + (1 : Int) then listSet R pidx (RFun.ofInt (k : Int) : ℝ)
            else (S.slice_statistics.handle_rank_ties (α := ℝ) R (srt l) (p : Int) (k : Int) tb).2),
           ((k : Int), (srt l)[k])) :=
      step_ne (srt l) tb R _ _ _ _ ((srt l)[k]).1 ((srt l)[k]).2 hk0 heq
    rw [hstep]
    have hlt : ((srt l)[p]).2 < ((srt l)[k]).2 := by
      have h1 := srt_snd_mono l p k hp hk (by omega)
      rcases lt_or_eq_of_le h1 with h2 | h2
      · exact h2
      · exact absurd (h2.symm.trans hpe2.symm) heq
    set R' := (if (k : Int) = (p : Int) + (1 : Int) then listSet R pidx (RFun.ofInt (k : Int) : ℝ)
            else (S.slice_statistics.handle_rank_ties (α := ℝ) R (srt l) (p : Int) (k : Int) tb).2) with hR'
    -- properties of the write
    have hW : R'.length = (srt l).length ∧
        (∀ q (hq : q < (srt l).length), p ≤ q → q < k →
          listGet R' ((srt l)[q]).1 = tieRank (p : Int) (k : Int) tb) ∧
        (∀ j : Int, (∀ q (hq : q < (srt l).length), p ≤ q → q < k → ((srt l)[q]).1 ≠ j) →
          listGet R' j = listGet R j) := by
      by_cases hs : (k : Int) = (p : Int) + (1 : Int)
      · have hkp : k = p + 1 := by omega
        rw [hR', if_pos hs]
        obtain ⟨i, hi, e⟩ := srt_getElem l p hp
        have hidx0 : 0 ≤ pidx := by rw [hpe1, e]; simp
        have hidx1 : pidx < (R.length : Int) := by rw [hpe1, e, hlen, srt_length]; simp; exact hi
        refine ⟨by rw [listSet_length, hlen], ?_, ?_⟩
        · intro q hq h1 h2
          have : p = q := by omega
          subst this
          rw [← hpe1, listGet_listSet_eq _ _ _ hidx0 hidx1, hkp, tieRank_singleton p tb htb]
          rfl
        · intro j hj
          have : pidx ≠ j := by rw [hpe1]; exact hj p hp (le_refl _) (by omega)
          exact listGet_listSet_ne _ _ _ _ (Ne.symm this)
      · rw [hR', if_neg hs]
        exact hrt_block l tb htb R hlen p k (by omega)
    obtain ⟨hW1, hW2, hW3⟩ := hW
    refine ⟨k, hk, rfl, by omega, rfl, ?_, ?_, hW1, ?_⟩
    · intro q hq h1 h2
      have : q = k := by omega
      subst this; rfl
    · intro q hq hqk
      by_cases hqp : q < p
      · exact lt_trans (hd q hq hqp) hlt
      · rw [hc q hq (by omega) hqk]; exact hlt
    · exact block_close l tb R R' p k hp hpk (by omega) hc hd
        (by
          intro q hq hkq
          exact lt_of_lt_of_le hlt (srt_snd_mono l k q hk hq hkq))
        hf hW2 hW3

theorem inv_all (l : List ℝ) (tb : RankTieBreaker) (htb : tb ≠ RankTieBreaker.First)
    (h0 : 0 < (srt l).length) (k : ℕ) (hk1 : 1 ≤ k) (hk : k ≤ (srt l).length) :
    Inv l tb k (stK l tb k) := by
  induction k, hk1 using Nat.le_induction with
  | base => exact inv_one l tb h0
  | succ k hk1 ih =>
    rw [stK_succ l tb k (by omega)]
    exact inv_step l tb htb k hk1 (by omega) _ (ih (by omega))

/-- MAIN (`Min`/`Max`/`Average`): the rank of position `i` is the tie-breaker's rank of the block
    delimited by `#{x_j < x_i}` and `#{x_j ≤ x_i}` -/
theorem ranks_tie_main (l : List ℝ) (tb : RankTieBreaker) (htb : tb ≠ RankTieBreaker.First)
    (i : ℕ) (hi : i < l.length) :
    listGet (Data.ranks (⟨l⟩ : Data ℝ) tb) (i : Int) = tieRank (cLt l l[i]) (cLe l l[i]) tb := by
  have h0 : 0 < (srt l).length := by rw [srt_length]; omega
  obtain ⟨p, hp, hprev, hpk, hpe, hc, hd, hlen, hf⟩ := inv_all l tb htb h0 (srt l).length h0 (le_refl _)
  rw [ranks_tie_eq l tb htb, hprev]
  have hn : (l.length : Int) = (((srt l).length : ℕ) : Int) := by rw [srt_length]
  rw [hn]
  obtain ⟨hW1, hW2, hW3⟩ := hrt_block l tb htb (stK l tb (srt l).length).1 hlen p (srt l).length (le_refl _)
  obtain ⟨q, hq, e⟩ := srt_pos l i hi
  have := block_close l tb _ _ p (srt l).length hp hpk (le_refl _) hc hd
    (by intro q hq h; omega) hf hW2 hW3 q hq hq
  rw [e] at this
  exact this

theorem ranks_tie_length (l : List ℝ) (tb : RankTieBreaker) :
    (Data.ranks (⟨l⟩ : Data ℝ) tb).length = l.length := by
  by_cases htb : tb = RankTieBreaker.First
  · subst htb; exact ranks_first_length l
  · by_cases h0 : 0 < (srt l).length
    · obtain ⟨p, hp, hprev, hpk, hpe, hc, hd, hlen, hf⟩ := inv_all l tb htb h0 (srt l).length h0 (le_refl _)
      rw [ranks_tie_eq l tb htb, handle_rank_ties_length, hlen, srt_length]
    · have hl : l = [] := by
        have : l.length = 0 := by rw [← srt_length]; omega
        exact List.length_eq_zero_iff.1 this
      subst hl
      rw [ranks_tie_eq [] tb htb, handle_rank_ties_length]
      rfl

/-- `Min`: `rank(i) = 1 + #{j : x_j < x_i}` -/
theorem ranks_min (l : List ℝ) (i : ℕ) (hi : i < l.length) :
    listGet (Data.ranks (⟨l⟩ : Data ℝ) RankTieBreaker.Min) (i : Int)
      = ((l.countP (fun y => decide (y < l[i])) : ℕ) : ℝ) + 1 := by
  rw [ranks_tie_main l _ (by decide) i hi, tieRank_min_real]; simp [cLt]

/-- `Max`: `rank(i) = #{j : x_j ≤ x_i}` -/
theorem ranks_max (l : List ℝ) (i : ℕ) (hi : i < l.length) :
    listGet (Data.ranks (⟨l⟩ : Data ℝ) RankTieBreaker.Max) (i : Int)
      = ((l.countP (fun y => decide (y ≤ l[i])) : ℕ) : ℝ) := by
  rw [ranks_tie_main l _ (by decide) i hi, tieRank_max_real]; simp [cLe]

/-- `Average`: the mean of the `Min` and the `Max` rank -/
theorem ranks_average (l : List ℝ) (i : ℕ) (hi : i < l.length) :
    listGet (Data.ranks (⟨l⟩ : Data ℝ) RankTieBreaker.Average) (i : Int)
      = ((((l.countP (fun y => decide (y < l[i])) : ℕ) : ℝ) + 1)
          + ((l.countP (fun y => decide (y ≤ l[i])) : ℕ) : ℝ)) / 2 := by
  rw [ranks_tie_main l _ (by decide) i hi, tieRank_average_real]; simp [cLt, cLe]

theorem ranks_average_eq_mean (l : List ℝ) (i : ℕ) (hi : i < l.length) :
    listGet (Data.ranks (⟨l⟩ : Data ℝ) RankTieBreaker.Average) (i : Int)
      = (listGet (Data.ranks (⟨l⟩ : Data ℝ) RankTieBreaker.Min) (i : Int)
          + listGet (Data.ranks (⟨l⟩ : Data ℝ) RankTieBreaker.Max) (i : Int)) / 2 := by
  rw [ranks_average l i hi, ranks_min l i hi, ranks_max l i hi]

/-- PERMUTATION INVARIANCE (`Min`/`Max`/`Average`): the rank of an element depends only on its
    value and the multiset of the data — permuting the input permutes the ranks the same way -/
theorem ranks_tie_perm (l l' : List ℝ) (hp : l'.Perm l) (tb : RankTieBreaker)
    (htb : tb ≠ RankTieBreaker.First) (i j : ℕ) (hi : i < l.length) (hj : j < l'.length)
    (hv : l'[j] = l[i]) :
    listGet (Data.ranks (⟨l'⟩ : Data ℝ) tb) (j : Int) = listGet (Data.ranks (⟨l⟩ : Data ℝ) tb) (i : Int) := by
  rw [ranks_tie_main l tb htb i hi, ranks_tie_main l' tb htb j hj, hv]
  unfold cLt cLe
  rw [hp.countP_eq, hp.countP_eq]

/-- tied values receive the same rank (`Min`/`Max`/`Average`) -/
theorem ranks_tie_eq_of_eq (l : List ℝ) (tb : RankTieBreaker) (htb : tb ≠ RankTieBreaker.First)
    (i j : ℕ) (hi : i < l.length) (hj : j < l.length) (hv : l[i] = l[j]) :
    listGet (Data.ranks (⟨l⟩ : Data ℝ) tb) (i : Int) = listGet (Data.ranks (⟨l⟩ : Data ℝ) tb) (j : Int) :=
  (ranks_tie_perm l l (List.Perm.refl l) tb htb j i hj hi hv).symm ▸ rfl

/-! ### non-vacuity -/

example : ∃ l : List ℝ, ∃ i : ℕ, ∃ hi : i < l.length, l[i] = 2 ∧
    listGet (Data.ranks (⟨l⟩ : Data ℝ) RankTieBreaker.Min) (i : Int) = 2 ∧
    listGet (Data.ranks (⟨l⟩ : Data ℝ) RankTieBreaker.Max) (i : Int) = 3 ∧
    listGet (Data.ranks (⟨l⟩ : Data ℝ) RankTieBreaker.Average) (i : Int) = 5 / 2 := by
  refine ⟨[2, 1, 2, 7], 0, by simp, rfl, ?_, ?_, ?_⟩
  · rw [ranks_min _ 0 (by simp)]; norm_num [List.countP_cons]
  · rw [ranks_max _ 0 (by simp)]; norm_num [List.countP_cons]
  · rw [ranks_average _ 0 (by simp)]; norm_num [List.countP_cons]

example : listGet (Data.ranks (⟨[2, 1, 2]⟩ : Data ℝ) RankTieBreaker.First) ((2 : ℕ) : Int) = 3 := by
  rw [ranks_first_count _ 2 (by simp)]
  norm_num [listEnum, List.countP_cons, List.range_succ]

/-- `First` is NOT equivariant under permutations that move tied elements (it ranks ties by
    index): reversing `[1, 1]` leaves the ranks `[1, 2]`, it does not reverse them.  (For
    `Min`/`Max`/`Average` equivariance holds: `ranks_tie_perm`.) -/
theorem ranks_first_reverse_counterexample :
    Data.ranks (⟨([1, 1] : List ℝ).reverse⟩ : Data ℝ) RankTieBreaker.First
      ≠ (Data.ranks (⟨[1, 1]⟩ : Data ℝ) RankTieBreaker.First).reverse := by
  have hrev : ([1, 1] : List ℝ).reverse = [1, 1] := by simp
  rw [hrev]
  have hlen : (Data.ranks (⟨[1, 1]⟩ : Data ℝ) RankTieBreaker.First).length = 2 := ranks_first_length _
  have h0 : listGet (Data.ranks (⟨[1, 1]⟩ : Data ℝ) RankTieBreaker.First) ((0 : ℕ) : Int) = 1 := by
    rw [ranks_first_count _ 0 (by simp)]
    norm_num [listEnum, List.countP_cons, List.range_succ]
  have h1 : listGet (Data.ranks (⟨[1, 1]⟩ : Data ℝ) RankTieBreaker.First) ((1 : ℕ) : Int) = 2 := by
    rw [ranks_first_count _ 1 (by simp)]
    norm_num [listEnum, List.countP_cons, List.range_succ]
  generalize Data.ranks (⟨[1, 1]⟩ : Data ℝ) RankTieBreaker.First = R at hlen h0 h1
  match R, hlen with
  | [a, b], _ =>
    simp [listGet] at h0 h1
    subst h0 h1
    norm_num

/-! ### ties on every carrier: equal values (also equal infinities) are tied

  The tie test of `Data::ranks` is plain equality `*elt == prev_elt` (it used to be
  `(*elt - prev_elt).abs() <= 0.0`, which is false for `elt = prev_elt = ±∞` because `∞ - ∞` is
  NaN, so two equal infinities were ranked `[1, 2]`).  Stated for every carrier: whenever a value
  is comparable with itself (`x ≤ x`: the sort does not panic) and equal to itself
  (`(x == x) = true`), all copies of it are tied — `n` copies of `x` all receive the
  tie-breaker's rank of the block `[0, n)`: `1` (`Min`), `n` (`Max`), `n/2 + 0/2 + 0.5`
  (`Average`).  IEEE `Float` satisfies both hypotheses for every non-NaN `x`, `±∞` included; over
  ℝ they always hold (`ranks_tie_eq_of_eq` above is the statement for arbitrary real data). -/
section ties
variable {α : Type} [Add α] [Sub α] [Mul α] [Div α] [Neg α] [LT α] [LE α] [BEq α]
  [DecidableLT α] [DecidableLE α] [OfScientific α] [Inhabited α] [RFun α]

/-- one loop iteration on a further copy of `x` (or on the first element, a copy of `x`) leaves
    `ranks` and `prev` alone -/
theorem step_run (s : List (Int × α)) (tb : RankTieBreaker) (x : α) (heq : (x == x) = true)
    (st : List α × (Int × (Int × α))) (i idx : Int) (h : i = 0 ∨ st.2.2.2 = x) :
    (Data.ranks.step s tb st (i, (idx, x))).1 = st.1 ∧
    (Data.ranks.step s tb st (i, (idx, x))).2.1 = st.2.1 ∧
    (Data.ranks.step s tb st (i, (idx, x))).2.2.2 = x := by
  by_cases hi : i = 0
  · simp [Data.ranks.step, hi, heq]
  · have hx := h.resolve_left hi
    simp [Data.ranks.step, hi, hx, heq]

theorem foldl_run (s : List (Int × α)) (tb : RankTieBreaker) (x : α) (heq : (x == x) = true)
    (L : List (Int × (Int × α))) (hL : ∀ e ∈ L, e.2.2 = x)
    (st : List α × (Int × (Int × α)))
    (h : st.2.2.2 = x ∨ ∀ hne : L ≠ [], (L.head hne).1 = 0) :
    (L.foldl (Data.ranks.step s tb) st).1 = st.1 ∧
    (L.foldl (Data.ranks.step s tb) st).2.1 = st.2.1 := by
  induction L generalizing st with
  | nil => exact ⟨rfl, rfl⟩
  | cons e t ih =>
    obtain ⟨i, idx, y⟩ := e
    have hy : y = x := hL (i, (idx, y)) (by simp)
    subst hy
    have h' : i = 0 ∨ st.2.2.2 = y := by
      rcases h with h | h
      · exact Or.inr h
      · exact Or.inl (h (by simp))
    obtain ⟨h1, h2, h3⟩ := step_run s tb y heq st i idx h'
    rw [List.foldl_cons]
    obtain ⟨g1, g2⟩ := ih (fun e he => hL e (by simp [he])) _ (Or.inl h3)
    exact ⟨g1.trans h1, g2.trans h2⟩

/-- writing one rank at every position of an enumeration fills the whole vector -/
theorem writeAll_listEnum (l : List α) (rank z : α) :
    writeAll (listEnum l) rank (List.replicate l.length z) = List.replicate l.length rank := by
  apply List.ext_getElem
  · rw [writeAll_length]; simp
  · intro k h1 h2
    rw [← listGet_nat_lt _ k h1, writeAll_get]
    have hk : k < l.length := by simpa using h2
    have hm : (k : Int) ∈ (listEnum l).map Prod.fst := by
      rw [listEnum_map_fst]
      exact List.mem_map.2 ⟨k, List.mem_range.2 hk, rfl⟩
    rw [if_pos ⟨hm, by omega, by simp; exact hk⟩]
    simp

/-- ALL copies of a self-equal value are tied (`Min`/`Max`/`Average`), on every carrier:
    `n` copies of `x` all receive the tie-breaker's rank of the block `[0, n)` -/
theorem ranks_selftie (x : α) (hxx : x ≤ x) (heq : (x == x) = true) (n : ℕ)
    (tb : RankTieBreaker) (htb : tb ≠ RankTieBreaker.First) :
    Data.ranks (⟨List.replicate n x⟩ : Data α) tb
      = List.replicate n (tieRank (0 : Int) (n : Int) tb) := by
  have hp : sortPanics (List.replicate n x) = false := by
    unfold sortPanics
    have : ((List.replicate n x).any fun a => (partialCmp a a).isNone) = false := by
      rw [List.any_eq_false]; intro a ha
      rw [List.eq_of_mem_replicate ha]; simp [partialCmp, hxx]
    rw [this]; simp
  have hs : Data.ranks.enumerated (⟨List.replicate n x⟩ : Data α) = listEnum (List.replicate n x) := by
    unfold Data.ranks.enumerated
    apply sortBy_of_pairwise
    rw [List.pairwise_iff_getElem]
    intro i j hi hj _
    rw [listEnum_length] at hi hj
    rw [listEnum_getElem _ i hi, listEnum_getElem _ j hj]
    simp [hxx]
  have hlen : (listEnum (List.replicate n x)).length = n := by rw [listEnum_length]; simp
  have hfold := foldl_run (listEnum (List.replicate n x)) tb x heq
    (listEnum (listEnum (List.replicate n x)))
    (by
      intro e he
      obtain ⟨k, hk, rfl⟩ := (mem_listEnum _ e).1 he
      rw [listEnum_length] at hk
      rw [listEnum_getElem _ k hk]; simp)
    (List.replicate (List.replicate n x).length (0.0 : α), ((0 : Int), ((0 : Int), (0.0 : α))))
    (Or.inr (by
      intro hne
      have h0 : 0 < (listEnum (listEnum (List.replicate n x))).length :=
        List.length_pos_iff.2 hne
      rw [List.head_eq_getElem]
      have h0' : 0 < (listEnum (List.replicate n x)).length := by
        rwa [listEnum_length] at h0
      rw [listEnum_getElem _ 0 h0']; rfl))
  obtain ⟨g1, g2⟩ := hfold
  have hmain : ∀ tb' : RankTieBreaker, tb' = tb →
      (S.slice_statistics.handle_rank_ties (α := α)
        ((listEnum (listEnum (List.replicate n x))).foldl
          (Data.ranks.step (listEnum (List.replicate n x)) tb)
          (List.replicate (List.replicate n x).length (0.0 : α), ((0 : Int), ((0 : Int), (0.0 : α))))).1
        (listEnum (List.replicate n x))
        ((listEnum (listEnum (List.replicate n x))).foldl
          (Data.ranks.step (listEnum (List.replicate n x)) tb)
          (List.replicate (List.replicate n x).length (0.0 : α), ((0 : Int), ((0 : Int), (0.0 : α))))).2.1
        (listLen (List.replicate n x)) tb).2
      = List.replicate n (tieRank (0 : Int) (n : Int) tb) := by
    intro _ _
    rw [g1, g2, handle_rank_ties_eq _ _ _ _ tb htb]
    have hl : listLen (List.replicate n x) = (n : Int) := by simp [listLen]
    rw [hl]
    have ht : (List.drop (Int.toNat (0 : Int)) (listEnum (List.replicate n x))).take
        (Int.toNat ((n : Int) - 0)) = listEnum (List.replicate n x) := by
      simp only [Int.toNat_zero, List.drop_zero, sub_zero, Int.toNat_natCast]
      rw [List.take_of_length_le (by rw [hlen])]
    rw [ht]
    have := writeAll_listEnum (List.replicate n x) (tieRank (0 : Int) (n : Int) tb) (0.0 : α)
    simpa using this
  cases tb with
  | First => exact absurd rfl htb
  | Average => unfold Data.ranks; simp only [hp, hs]; exact hmain _ rfl
  | Min => unfold Data.ranks; simp only [hp, hs]; exact hmain _ rfl
  | Max => unfold Data.ranks; simp only [hp, hs]; exact hmain _ rfl

/-- two copies of a self-equal value are tied under `Min`, `Max` and `Average` -/
theorem ranks_selftie_pair (x : α) (hxx : x ≤ x) (heq : (x == x) = true) :
    Data.ranks (⟨[x, x]⟩ : Data α) RankTieBreaker.Min = [(RFun.ofInt 1 : α), (RFun.ofInt 1 : α)] ∧
    Data.ranks (⟨[x, x]⟩ : Data α) RankTieBreaker.Max = [(RFun.ofInt 2 : α), (RFun.ofInt 2 : α)] ∧
    Data.ranks (⟨[x, x]⟩ : Data α) RankTieBreaker.Average
      = [(((RFun.ofInt 2 : α) / (2.0 : α)) + ((RFun.ofInt 0 : α) / (2.0 : α))) + (0.5 : α),
         (((RFun.ofInt 2 : α) / (2.0 : α)) + ((RFun.ofInt 0 : α) / (2.0 : α))) + (0.5 : α)] := by
  have hp : sortPanics [x, x] = false := by
    simp [sortPanics, partialCmp, hxx]
  have hs : Data.ranks.enumerated (⟨[x, x]⟩ : Data α) = [((0 : Int), x), ((1 : Int), x)] := by
    simp [Data.ranks.enumerated, listEnum, List.range_succ, sortBy, insertBy, hxx]
  refine ⟨?_, ?_, ?_⟩
  · unfold Data.ranks
    simp only [hp, hs]
    simp [listEnum, List.range_succ, Data.ranks.step, heq, listSet, listLen,
      S.slice_statistics.handle_rank_ties, S.slice_statistics.handle_rank_ties.loop3]
  · unfold Data.ranks
    simp only [hp, hs]
    simp [listEnum, List.range_succ, Data.ranks.step, heq, listSet, listLen,
      S.slice_statistics.handle_rank_ties, S.slice_statistics.handle_rank_ties.loop5]
  · unfold Data.ranks
    simp only [hp, hs]
    simp [listEnum, List.range_succ, Data.ranks.step, heq, listSet, listLen,
      S.slice_statistics.handle_rank_ties, S.slice_statistics.handle_rank_ties.loop1]

end ties

/-- non-vacuity: over IEEE `Float` the hypotheses hold for `x = ∞` (the value the old difference
    test `(∞ - ∞).abs() <= 0.0` failed on), so equal infinities are tied… -/
example (n : ℕ) : Data.ranks (⟨List.replicate n (RFun.inf : Float)⟩ : Data Float) RankTieBreaker.Min
    = List.replicate n (RFun.ofInt 1 : Float) :=
  ranks_selftie (RFun.inf : Float) (by decide) (by decide) n RankTieBreaker.Min (by decide)

example : ¬ (RFun.abs ((RFun.inf : Float) - RFun.inf) ≤ (0.0 : Float)) := by decide

/-- …and over ℝ for every `x` -/
example (x : ℝ) : Data.ranks (⟨[x, x]⟩ : Data ℝ) RankTieBreaker.Max = [(RFun.ofInt 2 : ℝ), RFun.ofInt 2] :=
  (ranks_selftie_pair x (le_refl x) (by simp)).2.1

end Statrs.Props.C14.RanksModel
