/-
  C14 — functional correctness of the generated quickselect over ℝ.

  `select_inplace_correct`: for data of length `≤ loopFuel` (the fuel the translator gives to every
  lifted loop — 20000), every arrangement `b` of the data and every rank `0 ≤ k < n`,
  `Data.select_inplace b k` returns the k-th smallest entry and leaves a permutation of the data
  in the buffer; i.e. the premise `Spec.SelectCorrectOn l` of the `…_rel` theorems in
  `Props/C14/Quantile.lean` holds.  The closing section instantiates those theorems.

  Proof: the classical partition invariant.  Outer loop (`loop1_run`): either the rank lies in
  the active window and everything left of the window is `≤` everything from the window on,
  everything right of it `≥` everything up to it — or the rank lies left of the window and its
  cell is already in sorted position.  Inner loop (`Lemmas.SelectCorrect.loop112_run`): the
  median-of-three step provides both sentinels, so the scans stay inside the window.
-/
import Statrs.Lemmas.SelectCorrect
import Statrs.Props.C14.Quantile
namespace Statrs.Props.C14
open Statrs Statrs.Gen Statrs.Spec Statrs.Spec.OrderStats Statrs.Lemmas.OrderStats
open Statrs.Lemmas.Select Statrs.Lemmas.SelectCorrect

/-- the loop invariant of the outer loop of `select_inplace` -/
def OuterInv (a : List ℝ) (low high k n : Int) : Prop :=
  (low ≤ k ∧ k ≤ high ∧ LeftOK a low n ∧ RightOK a high n) ∨ (k < low ∧ Final a k n)

theorem finish2_eq_condSwap (s : Data ℝ) (low high : Int) (h : high = low + 1) :
    finish2 s low high = condSwap s low high := by
  unfold finish2 condSwap; simp [h]

theorem finish2_eq_self (s : Data ℝ) (low high : Int) (h : high ≠ low + 1) :
    finish2 s low high = s := by
  unfold finish2; simp [h]

/-- the last iteration (window of at most two cells) puts the rank cell in sorted position -/
theorem finish2_final (s : Data ℝ) (low high k n : Int) (hn : (s.f_0.length : Int) = n)
    (hlow : 0 ≤ low) (hhigh : high < n) (h : high ≤ low + 1) (hJ : OuterInv s.f_0 low high k n) :
    Final (finish2 s low high).f_0 k n := by
  by_cases hh : high = low + 1
  · rw [finish2_eq_condSwap s low high hh]
    obtain ⟨r, o, _, _, _⟩ := condSwap_spec s low high low high hlow (by omega) (by omega)
      (by omega) (le_refl _) (by omega) (by omega) (le_refl _)
    rcases hJ with ⟨h1, h2, hA, hB⟩ | ⟨h1, hF⟩
    · have hA' := hA.stable r (le_refl _) hhigh
      have hB' := hB.stable r hlow (le_refl _)
      generalize (condSwap s low high).f_0 = a at o hA' hB'
      by_cases hk : k = low
      · subst hk
        constructor
        · intro i hi0 hik; exact hA' i k hi0 hik (le_refl _) (by omega)
        · intro j hkj hjn
          by_cases hj : j = high
          · rw [hj]; exact o
          · exact hB' k j hlow (by omega) (by omega) hjn
      · have hk' : k = high := by omega
        subst hk'
        constructor
        · intro i hi0 hik
          by_cases hi : i = low
          · rw [hi]; exact o
          · exact hA' i k hi0 (by omega) (by omega) hhigh
        · intro j hkj hjn; exact hB' k j (by omega) (le_refl _) hkj hjn
    · exact hF.stable r h1 hhigh
  · rw [finish2_eq_self s low high hh]
    rcases hJ with ⟨h1, h2, hA, hB⟩ | ⟨h1, hF⟩
    · have hk : k = low := by omega
      have hk' : k = high := by omega
      constructor
      · intro i hi0 hik; exact hA i k hi0 (by omega) (by omega) (by omega)
      · intro j hkj hjn; exact hB k j (by omega) (by omega) (by omega) hjn
    · exact hF

/-- Outer loop, total version: from the invariant, with buffer length `≤ loopFuel` and fuel at
    least the window size (and `≥ 1`), the loop returns `self[rank]` of a permuted buffer in
    which the rank cell is in sorted position. -/
theorem loop1_run (fuel : ℕ) (k n : Int) (s : Data ℝ) (high low : Int)
    (hn : (s.f_0.length : Int) = n) (hnf : s.f_0.length ≤ loopFuel)
    (hlow : 0 ≤ low) (hhigh : high < n) (hk0 : 0 ≤ k) (hkn : k < n)
    (hJ : OuterInv s.f_0 low high k n)
    (hf1 : 1 ≤ fuel) (hf2 : (high - low + 1).toNat ≤ fuel) :
    ∃ s' : Data ℝ, Data.select_inplace.loop1 fuel k s high low
        = LoopR.ret (listGet s'.f_0 k, s')
      ∧ s'.f_0.Perm s.f_0 ∧ Final s'.f_0 k n := by
  induction fuel generalizing s high low with
  | zero => omega
  | succ f ih =>
    by_cases h : high ≤ low + 1
    · rw [loop1_small _ _ _ _ _ h]
      exact ⟨finish2 s low high, rfl, finish2_perm s low high hlow (by omega),
        finish2_final s low high k n hn hlow hhigh h hJ⟩
    · rw [loop1_step _ _ _ _ _ h]
      obtain ⟨rm, m1, m2⟩ := med3_spec s low high hlow (by omega) (by omega)
      generalize med3 s low high = m at rm m1 m2 ⊢
      have lm := rm.length
      obtain ⟨b', e', s5, hrun, r5, q1, q2, q3, q4, q5, q6, q7⟩ :=
        loop112_run loopFuel (listGet m.f_0 (low + 1)) m (low + 1) high (low + 1) high
          (by rw [lm]; exact hnf) (by omega) (le_refl _) (by omega) (by omega) (by omega) (le_refl _)
          (by omega) rfl
          (by intro i h1 h2; have : i = low + 1 := by omega
              rw [this])
          (by intro j h1 h2; have : j = high := by omega
              rw [this]; exact m2)
          (by omega)
      rw [hrun]
      simp only []
      have l5 := r5.length
      have hpc : listGet s5.f_0 (low + 1) = listGet m.f_0 (low + 1) :=
        r5.get_outside (low + 1) (Or.inl (by omega))
      rw [listSet_listSet_eq_swap _ _ _ _ hpc]
      set p := listGet m.f_0 (low + 1) with hp
      -- the buffer after the closing swap, and how it relates to the input
      have rsw : Rearr low high s5.f_0 (listSwap s5.f_0 (low + 1) e') :=
        Rearr.swap _ _ _ _ _ (by omega) (by omega) (by omega) (by omega) (by omega) (by omega)
          (by omega) (by omega)
      have r6 : Rearr low high s.f_0 (listSwap s5.f_0 (low + 1) e') :=
        (rm.trans (r5.mono (by omega) (by omega))).trans rsw
      have g5low : listGet s5.f_0 low = listGet m.f_0 low := r5.get_outside low (Or.inl (by omega))
      have gc : listGet (listSwap s5.f_0 (low + 1) e') (low + 1) = listGet s5.f_0 e' :=
        listGet_listSwap_left _ _ _ (by omega) (by omega)
      have ge : listGet (listSwap s5.f_0 (low + 1) e') e' = p := by
        rw [listGet_listSwap_right _ _ _ (by omega) (by omega)]; exact hpc
      have gn : ∀ j, j ≠ low + 1 → j ≠ e' →
          listGet (listSwap s5.f_0 (low + 1) e') j = listGet s5.f_0 j :=
        fun j h1 h2 => listGet_listSwap_ne _ _ _ _ h1 h2
      have Qle : ∀ i, low ≤ i → i < b' → listGet (listSwap s5.f_0 (low + 1) e') i ≤ p := by
        intro i h1 h2
        by_cases hie : i = e'
        · rw [hie, ge]
        by_cases hic : i = low + 1
        · rw [hic, gc]; exact q6 e' q2 q1
        by_cases hil : i = low
        · rw [gn i hic hie, hil, g5low]; exact m1
        · rw [gn i hic hie]; exact q6 i (by omega) h2
      have Qge : ∀ j, e' ≤ j → j ≤ high → p ≤ listGet (listSwap s5.f_0 (low + 1) e') j := by
        intro j h1 h2
        by_cases hje : j = e'
        · rw [hje, ge]
        · rw [gn j (by omega) hje]; exact q7 j (by omega) h2
      generalize hs6 : listSwap s5.f_0 (low + 1) e' = a6 at r6 ge Qle Qge
      have l6 : (a6.length : Int) = n := by rw [r6.length]; exact hn
      have hu : usub e' 1 = e' - 1 := by
        unfold usub; have : ¬ e' < 1 := by omega
        simp [this]
      -- the invariant for the next window
      have hJ' : OuterInv a6 (if e' ≤ k then b' else low) (if k ≤ e' then usub e' 1 else high)
          k n := by
        rw [hu]
        rcases hJ with ⟨h1, h2, hA, hB⟩ | ⟨h1, hF⟩
        · have hA6 : LeftOK a6 low n := hA.stable r6 (le_refl _) hhigh
          have hB6 : RightOK a6 high n := hB.stable r6 hlow (le_refl _)
          by_cases c1 : k < e'
          · -- continue on the left part `[low, e'-1]`
            left
            rw [if_neg (by omega), if_pos (by omega)]
            refine ⟨h1, by omega, hA6, ?_⟩
            intro i j hi0 hih hhj hjn
            by_cases hjh : j ≤ high
            · by_cases hil : low ≤ i
              · exact le_trans (Qle i hil (by omega)) (Qge j (by omega) hjh)
              · exact hA6 i j hi0 (by omega) (by omega) hjn
            · exact hB6 i j hi0 (by omega) (by omega) hjn
          by_cases c2 : k < b'
          · -- the rank cell already holds the pivot value
            right
            have hkp : listGet a6 k = p := le_antisymm (Qle k h1 c2) (Qge k (by omega) h2)
            rw [if_pos (by omega)]
            refine ⟨c2, ?_, ?_⟩
            · intro i hi0 hik
              by_cases hil : low ≤ i
              · rw [hkp]; exact Qle i hil (by omega)
              · exact hA6 i k hi0 (by omega) h1 hkn
            · intro j hkj hjn
              by_cases hjh : j ≤ high
              · rw [hkp]; exact Qge j (by omega) hjh
              · exact hB6 k j hk0 h2 (by omega) hjn
          · -- continue on the right part `[b', high]`
            left
            rw [if_pos (by omega), if_neg (by omega)]
            refine ⟨by omega, h2, ?_, hB6⟩
            intro i j hi0 hil hlj hjn
            by_cases hjh : j ≤ high
            · by_cases hil' : low ≤ i
              · exact le_trans (Qle i hil' hil) (Qge j (by omega) hjh)
              · exact hA6 i j hi0 (by omega) (by omega) hjn
            · exact hB6 i j hi0 (by omega) (by omega) hjn
        · right
          rw [if_neg (by omega)]
          exact ⟨h1, hF.stable r6 h1 hhigh⟩
      obtain ⟨s', hrun', hperm', hfin'⟩ :=
        ih { f_0 := a6 } (if k ≤ e' then usub e' 1 else high) (if e' ≤ k then b' else low)
          l6 (by show a6.length ≤ loopFuel; rw [r6.length]; exact hnf)
          (by split_ifs <;> omega) (by rw [hu]; split_ifs <;> omega) hJ' (by omega)
          (by rw [hu]; split_ifs <;> omega)
      exact ⟨s', hrun', hperm'.trans r6.perm, hfin'⟩

/-- **Correctness of the generated quickselect over ℝ**: on data of length at most `loopFuel`,
    `select_inplace` returns the k-th smallest entry for every in-range rank and every
    arrangement of the data, and hands back a permutation of the data. -/
theorem select_inplace_correct (l : List ℝ) (hlen : l.length ≤ loopFuel) : SelectCorrectOn l := by
  have key : ∀ b : Data ℝ, b.f_0.Perm l → ∀ k : Int, 0 ≤ k → k < l.length →
      (Data.select_inplace b k).1 = kth l k.toNat ∧ (Data.select_inplace b k).2.f_0.Perm l := by
    intro b hb k hk0 hkn
    have hbl : b.f_0.length = l.length := hb.length_eq
    have hne : b.f_0 ≠ [] := by
      intro e; rw [e] at hbl; simp at hbl; omega
    by_cases hk : k = 0
    · subst hk
      have e : Data.select_inplace b 0 = (Data.min b, b) := by simp [Data.select_inplace]
      rw [e]
      exact ⟨by rw [min_eq_kth b hne, kth_congr hb]; rfl, hb⟩
    · have hu : usub (Data.len b) 1 = (b.f_0.length : Int) - 1 := by
        unfold usub Data.len listLen
        have : ¬ ((b.f_0.length : Int) < 1) := by omega
        simp [this]
      have hnb : ¬ (usub (Data.len b) 1 < k) := by rw [hu]; omega
      obtain ⟨s', hrun, hperm, hfin⟩ :=
        loop1_run loopFuel k (b.f_0.length : Int) b ((b.f_0.length : Int) - 1) 0 rfl
          (by omega) (le_refl _) (by omega) hk0 (by omega)
          (Or.inl ⟨hk0, by omega, fun i j h0 h1 _ _ => by omega, fun i j _ h1 h2 h3 => by omega⟩)
          (by rw [loopFuel_succ]; omega) (by omega)
      have e : Data.select_inplace b k = (listGet s'.f_0 k, s') := by
        unfold Data.select_inplace
        rw [if_neg hk, if_neg hnb]
        simp only [hu, hrun]
      rw [e]
      refine ⟨?_, hperm.trans hb⟩
      have hkk : ((k.toNat : ℕ) : Int) = k := Int.toNat_of_nonneg hk0
      have hl' : s'.f_0.length = b.f_0.length := hperm.length_eq
      have := final_eq_kth s'.f_0 l k.toNat (hperm.trans hb) (by omega)
        (by rw [hkk, hl']; exact hfin)
      rw [hkk] at this
      exact this
  exact ⟨fun b hb k h0 hk => (key b hb k h0 hk).1, fun b hb k h0 hk => (key b hb k h0 hk).2⟩

/-! ### the wrapper theorems, unconditionally for data of length `≤ loopFuel` -/

/-- `select_inplace` permutes (no panic alternative) on data of length `≤ loopFuel` -/
theorem select_inplace_perm (self : Data ℝ) (hlen : self.f_0.length ≤ loopFuel) (k : Int)
    (h0 : 0 ≤ k) (hk : k < self.f_0.length) :
    (Data.select_inplace self k).2.f_0.Perm self.f_0 :=
  (select_inplace_correct _ hlen).perm self (List.Perm.refl _) k h0 hk

/-- `select_inplace(k)` is the k-th smallest entry -/
theorem select_inplace_kth (self : Data ℝ) (hlen : self.f_0.length ≤ loopFuel) (k : Int)
    (h0 : 0 ≤ k) (hk : k < self.f_0.length) :
    (Data.select_inplace self k).1 = kth self.f_0 k.toNat :=
  (select_inplace_correct _ hlen).value self (List.Perm.refl _) k h0 hk

theorem i64_of_fuel {n : ℕ} (h : n ≤ loopFuel) : (n : Int) ≤ i64Max := by
  have : loopFuel = 20000 := rfl
  unfold i64Max; omega

/-- `order_statistic(order)` is the `order`-th smallest entry for `1 ≤ order ≤ n` -/
theorem order_statistic_kth (self : Data ℝ) (hlen : self.f_0.length ≤ loopFuel) (order : Int)
    (h1 : 1 ≤ order) (hn : order ≤ self.f_0.length) :
    (Data.order_statistic self order).1 = kth self.f_0 (order - 1).toNat :=
  order_statistic_rel self order (select_inplace_correct _ hlen) h1 hn

/-- the buffer left by `order_statistic` is a permutation -/
theorem order_statistic_perm (self : Data ℝ) (hlen : self.f_0.length ≤ loopFuel) (order : Int)
    (h1 : 1 ≤ order) (hn : order ≤ self.f_0.length) :
    (Data.order_statistic self order).2.f_0.Perm self.f_0 :=
  order_statistic_perm_rel self order (select_inplace_correct _ hlen) h1 hn

/-- `percentile(p)` for `0 ≤ p ≤ 100` is the R-8 quantile at `p / 100` -/
theorem percentile_spec (self : Data ℝ) (hlen : self.f_0.length ≤ loopFuel) (hne : self.f_0 ≠ [])
    (p : Int) (h0 : 0 ≤ p) (h1 : p ≤ 100) :
    (Data.percentile self p).1 = quantileR8 self.f_0 ((p : ℝ) / 100) :=
  percentile_rel self p (select_inplace_correct _ hlen) hne (i64_of_fuel hlen) h0 h1

/-- `lower_quartile` / `upper_quartile` are the R-8 quantiles at `1/4` and `3/4` -/
theorem quartiles_spec (self : Data ℝ) (hlen : self.f_0.length ≤ loopFuel) (hne : self.f_0 ≠ []) :
    (Data.lower_quartile self).1 = quantileR8 self.f_0 (1 / 4)
      ∧ (Data.upper_quartile self).1 = quantileR8 self.f_0 (3 / 4) :=
  ⟨lower_quartile_rel self (select_inplace_correct _ hlen) hne (i64_of_fuel hlen),
   upper_quartile_rel self (select_inplace_correct _ hlen) hne (i64_of_fuel hlen)⟩

/-- `median` is the middle entry or the mean of the two middle entries -/
theorem median_spec (self : Data ℝ) (hlen : self.f_0.length ≤ loopFuel) (hne : self.f_0 ≠ []) :
    (Data.median self).1 = Spec.OrderStats.median self.f_0
      ∧ (Data.median self).2.f_0.Perm self.f_0 :=
  median_rel self (select_inplace_correct _ hlen) hne

/-- `quantile(τ)` is the R-8 estimator and the buffer is permuted -/
theorem quantile_spec (self : Data ℝ) (hlen : self.f_0.length ≤ loopFuel) (hne : self.f_0 ≠ [])
    (tau : ℝ) (h0 : 0 ≤ tau) (h1 : tau ≤ 1) :
    (Data.quantile self tau).1 = quantileR8 self.f_0 tau
      ∧ (Data.quantile self tau).2.f_0.Perm self.f_0 :=
  quantile_rel self tau (select_inplace_correct _ hlen) hne (i64_of_fuel hlen) h0 h1

/-- `quantile(τ)` lies in `[min, max]` -/
theorem quantile_bounds (self : Data ℝ) (hlen : self.f_0.length ≤ loopFuel) (hne : self.f_0 ≠ [])
    (tau : ℝ) (h0 : 0 ≤ tau) (h1 : tau ≤ 1) :
    Data.min self ≤ (Data.quantile self tau).1 ∧ (Data.quantile self tau).1 ≤ Data.max self :=
  quantile_bounds_rel self tau (select_inplace_correct _ hlen) hne (i64_of_fuel hlen) h0 h1

/-- `quantile` never decreases in `τ` -/
theorem quantile_mono (self : Data ℝ) (hlen : self.f_0.length ≤ loopFuel) (hne : self.f_0 ≠ [])
    (s t : ℝ) (h0 : 0 ≤ s) (hst : s ≤ t) (h1 : t ≤ 1) :
    (Data.quantile self s).1 ≤ (Data.quantile self t).1 :=
  quantile_mono_rel self s t (select_inplace_correct _ hlen) hne (i64_of_fuel hlen) h0 hst h1

/-- `interquartile_range = Q(3/4) − Q(1/4) ≥ 0` -/
theorem interquartile_range_spec (self : Data ℝ) (hlen : self.f_0.length ≤ loopFuel)
    (hne : self.f_0 ≠ []) :
    (Data.interquartile_range self).1 = quantileR8 self.f_0 (3 / 4) - quantileR8 self.f_0 (1 / 4)
      ∧ 0 ≤ (Data.interquartile_range self).1 :=
  interquartile_range_rel self (select_inplace_correct _ hlen) hne (i64_of_fuel hlen)

/-! ### non-vacuity -/
example : SelectCorrectOn [3, 1, 2] := select_inplace_correct _ (by simp [loopFuel])
example : (Data.order_statistic ({ f_0 := [3, 1, 2] } : Data ℝ) 2).1
    = kth [3, 1, 2] 1 :=
  order_statistic_kth _ (by simp [loopFuel]) 2 (by norm_num) (by simp)

end Statrs.Props.C14
