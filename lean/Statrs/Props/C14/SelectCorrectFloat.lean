/-
  C14 (every IEEE-ordered carrier) — functional correctness of the generated quickselect `Data.select_inplace`
  on every carrier `α` with `O : Statrs.Spec.OrderLaws α` (a total preorder on the non-NaN values, `<` its strict
  part; holds for ℝ and for IEEE `Float`), for NaN-free data of length `≤ loopFuel` (the fuel of every lifted
  loop, 20000).

  With ties and `±0` "the k-th smallest entry" is only determined up to the equivalence of `≤`, so the result is
  characterised by counting (`IsRank l k v`): at least `k + 1` entries are `≤ v` and at least `n − k` entries are
  `≥ v`.
    * `loop1_run_fl`            — outer loop, total version (port of the ℝ proof `C14.loop1_run`);
    * `select_inplace_rank_fl`  — `select_inplace(k)`, `k ≥ 0`, returns an entry `v` with `IsRank l (min k (n−1)) v`
                                  and hands back a permutation (no panic alternative);
    * `isRank_mono`             — `IsRank l i u`, `IsRank l j v`, `i ≤ j` ⇒ `u ≤ v`;
    * `select_inplace_mono_fl`, `order_statistic_mono_fl` — selections / order statistics are monotone in the rank;
    * `qLo_le_qHi_fl`           — the two entries interpolated by `quantile` are ordered (the premise `hord` of
                                  `quantile_range_fl_rel` / `quantile_range_full_fl_rel`);
    * `quantile_perm_fl`, `quantile_no_panic_fl` — `quantile` permutes the buffer, never the panic value;
    * `quantile_range_fl`, `quantile_range_full_fl` — those theorems without the premises `hord`, `hnp`.
-/
import Statrs.Lemmas.SelectFloat
import Statrs.Props.C13.MinMax
import Statrs.Props.C14.FloatQuantile
set_option linter.unusedSectionVars false
set_option linter.unusedVariables false
namespace Statrs.Props.C14
open Statrs Statrs.Gen Statrs.Spec Statrs.Lemmas.Select
open Statrs.Lemmas.SelectFloat

namespace FloatSelect

variable {α : Type} [Add α] [Sub α] [Mul α] [Div α] [Neg α] [LT α] [LE α] [BEq α]
  [DecidableLT α] [DecidableLE α] [OfScientific α] [Inhabited α] [RFun α]

/-- the loop invariant of the outer loop of `select_inplace` -/
def OuterInv (a : List α) (low high k n : Int) : Prop :=
  (low ≤ k ∧ k ≤ high ∧ LeftOK a low n ∧ RightOK a high n) ∨ (k < low ∧ Final a k n)

/-- full(∀α): with a two-cell window the closing step is the conditional swap -/
theorem finish2_eq_condSwap (s : Data α) (low high : Int) (h : high = low + 1) :
    finish2 s low high = condSwap s low high := by
  unfold finish2 condSwap; simp [h]

/-- full(∀α): with a one-cell window the closing step does nothing -/
theorem finish2_eq_self (s : Data α) (low high : Int) (h : high ≠ low + 1) :
    finish2 s low high = s := by
  unfold finish2; simp [h]

/-- full(∀α): the last iteration (window of at most two cells) puts the rank cell in sorted position -/
theorem finish2_final (O : OrderLaws α) (s : Data α) (low high k n : Int)
    (hn : (s.f_0.length : Int) = n) (hnn : ∀ x ∈ s.f_0, NN x)
    (hlow : 0 ≤ low) (hhigh : high < n) (h : high ≤ low + 1) (hJ : OuterInv s.f_0 low high k n) :
    Final (finish2 s low high).f_0 k n := by
  by_cases hh : high = low + 1
  · rw [finish2_eq_condSwap s low high hh]
    obtain ⟨r, o, _, _, _⟩ := condSwap_spec O s low high low high hlow (by omega) (by omega)
      (by omega) (le_refl _) (by omega) (by omega) (le_refl _)
      (nn_get hnn _ hlow (by omega)) (nn_get hnn _ (by omega) (by omega))
    rcases hJ with ⟨h1, h2, hA, hB⟩ | ⟨h1, hF⟩
    · have hA' := hA.stable r (le_refl _) hhigh
      have hB' := hB.stable r hlow (le_refl _)
      generalize (condSwap s low high).f_0 = a at o hA' hB'
      by_cases hk : k = low
      · subst hk
        constructor
        · intro i hi0 hik; exact hA' i k hi0 hik (le_refl _) (by omega)
        · intro j hkj hjn
          by_cases hj : j = high
          · rw [hj]; exact o
          · exact hB' k j hlow (by omega) (by omega) hjn
      · have hk' : k = high := by omega
        subst hk'
        constructor
        · intro i hi0 hik
          by_cases hi : i = low
          · rw [hi]; exact o
          · exact hA' i k hi0 (by omega) (by omega) hhigh
        · intro j hkj hjn; exact hB' k j (by omega) (le_refl _) hkj hjn
    · exact hF.stable r h1 hhigh
  · rw [finish2_eq_self s low high hh]
    rcases hJ with ⟨h1, h2, hA, hB⟩ | ⟨h1, hF⟩
    · have hk : k = low := by omega
      have hk' : k = high := by omega
      constructor
      · intro i hi0 hik; exact hA i k hi0 (by omega) (by omega) (by omega)
      · intro j hkj hjn; exact hB k j (by omega) (by omega) (by omega) hjn
    · exact hF

/-- full(∀α): outer loop, total version, on NaN-free data: from the invariant, with buffer length `≤ loopFuel`
    and fuel at least the window size (and `≥ 1`), the loop returns `self[rank]` of a permuted buffer in which
    the rank cell is in sorted position. -/
theorem loop1_run_fl (O : OrderLaws α) (fuel : ℕ) (k n : Int) (s : Data α) (high low : Int)
    (hn : (s.f_0.length : Int) = n) (hnf : s.f_0.length ≤ loopFuel) (hnn : ∀ x ∈ s.f_0, NN x)
    (hlow : 0 ≤ low) (hhigh : high < n) (hk0 : 0 ≤ k) (hkn : k < n)
    (hJ : OuterInv s.f_0 low high k n)
    (hf1 : 1 ≤ fuel) (hf2 : (high - low + 1).toNat ≤ fuel) :
    ∃ s' : Data α, Data.select_inplace.loop1 fuel k s high low
        = LoopR.ret (listGet s'.f_0 k, s')
      ∧ s'.f_0.Perm s.f_0 ∧ Final s'.f_0 k n := by
  induction fuel generalizing s high low with
  | zero => omega
  | succ f ih =>
    by_cases h : high ≤ low + 1
    · rw [loop1_small _ _ _ _ _ h]
      exact ⟨finish2 s low high, rfl, finish2_perm s low high hlow (by omega),
        finish2_final O s low high k n hn hnn hlow hhigh h hJ⟩
    · rw [loop1_step _ _ _ _ _ h]
      obtain ⟨rm, m1, m2⟩ := med3_spec O s low high hlow (by omega) (by omega) hnn
      generalize med3 s low high = m at rm m1 m2 ⊢
      have lm := rm.length
      have nm := nn_perm hnn rm.perm
      have np : NN (listGet m.f_0 (low + 1)) := nn_get nm _ (by omega) (by omega)
      obtain ⟨b', e', s5, hrun, r5, q1, q2, q3, q4, q5, q6, q7⟩ :=
        loop112_run O loopFuel (listGet m.f_0 (low + 1)) m (low + 1) high (low + 1) high
          (by rw [lm]; exact hnf) nm (by omega) (le_refl _) (by omega) (by omega) (by omega)
          (le_refl _) (by omega) rfl
          (by intro i h1 h2; have : i = low + 1 := by omega
              rw [this]; exact O.le_refl _ np)
          (by intro j h1 h2; have : j = high := by omega
              rw [this]; exact m2)
          (by omega)
      rw [hrun]
      simp only []
      have l5 := r5.length
      have hpc : listGet s5.f_0 (low + 1) = listGet m.f_0 (low + 1) :=
        r5.get_outside (low + 1) (Or.inl (by omega))
      rw [listSet_listSet_eq_swap _ _ _ _ hpc]
      set p := listGet m.f_0 (low + 1) with hp
      -- the buffer after the closing swap, and how it relates to the input
      have rsw : Rearr low high s5.f_0 (listSwap s5.f_0 (low + 1) e') :=
        Rearr.swap _ _ _ _ _ (by omega) (by omega) (by omega) (by omega) (by omega) (by omega)
          (by omega) (by omega)
      have r6 : Rearr low high s.f_0 (listSwap s5.f_0 (low + 1) e') :=
        (rm.trans (r5.mono (by omega) (by omega))).trans rsw
      have g5low : listGet s5.f_0 low = listGet m.f_0 low := r5.get_outside low (Or.inl (by omega))
      have gc : listGet (listSwap s5.f_0 (low + 1) e') (low + 1) = listGet s5.f_0 e' :=
        listGet_listSwap_left _ _ _ (by omega) (by omega)
      have ge : listGet (listSwap s5.f_0 (low + 1) e') e' = p := by
        rw [listGet_listSwap_right _ _ _ (by omega) (by omega)]; exact hpc
      have gn : ∀ j, j ≠ low + 1 → j ≠ e' →
          listGet (listSwap s5.f_0 (low + 1) e') j = listGet s5.f_0 j :=
        fun j h1 h2 => listGet_listSwap_ne _ _ _ _ h1 h2
      have Qle : ∀ i, low ≤ i → i < b' → listGet (listSwap s5.f_0 (low + 1) e') i ≤ p := by
        intro i h1 h2
        by_cases hie : i = e'
        · rw [hie, ge]; exact O.le_refl _ np
        by_cases hic : i = low + 1
        · rw [hic, gc]; exact q6 e' q2 q1
        by_cases hil : i = low
        · rw [gn i hic hie, hil, g5low]; exact m1
        · rw [gn i hic hie]; exact q6 i (by omega) h2
      have Qge : ∀ j, e' ≤ j → j ≤ high → p ≤ listGet (listSwap s5.f_0 (low + 1) e') j := by
        intro j h1 h2
        by_cases hje : j = e'
        · rw [hje, ge]; exact O.le_refl _ np
        · rw [gn j (by omega) hje]; exact q7 j (by omega) h2
      generalize hs6 : listSwap s5.f_0 (low + 1) e' = a6 at r6 ge Qle Qge
      have l6 : (a6.length : Int) = n := by rw [r6.length]; exact hn
      have hu : usub e' 1 = e' - 1 := by
        unfold usub; have : ¬ e' < 1 := by omega
        simp [this]
      -- the invariant for the next window
      have hJ' : OuterInv a6 (if e' ≤ k then b' else low) (if k ≤ e' then usub e' 1 else high)
          k n := by
        rw [hu]
        rcases hJ with ⟨h1, h2, hA, hB⟩ | ⟨h1, hF⟩
        · have hA6 : LeftOK a6 low n := hA.stable r6 (le_refl _) hhigh
          have hB6 : RightOK a6 high n := hB.stable r6 hlow (le_refl _)
          by_cases c1 : k < e'
          · -- continue on the left part `[low, e'-1]`
            left
            rw [if_neg (by omega), if_pos (by omega)]
            refine ⟨h1, by omega, hA6, ?_⟩
            intro i j hi0 hih hhj hjn
            by_cases hjh : j ≤ high
            · by_cases hil : low ≤ i
              · exact O.le_trans _ _ _ (Qle i hil (by omega)) (Qge j (by omega) hjh)
              · exact hA6 i j hi0 (by omega) (by omega) hjn
            · exact hB6 i j hi0 (by omega) (by omega) hjn
          by_cases c2 : k < b'
          · -- the rank cell holds a value equivalent to the pivot
            right
            have hk1 : listGet a6 k ≤ p := Qle k h1 c2
            have hk2 : p ≤ listGet a6 k := Qge k (by omega) h2
            rw [if_pos (by omega)]
            refine ⟨c2, ?_, ?_⟩
            · intro i hi0 hik
              by_cases hil : low ≤ i
              · exact O.le_trans _ _ _ (Qle i hil (by omega)) hk2
              · exact hA6 i k hi0 (by omega) h1 hkn
            · intro j hkj hjn
              by_cases hjh : j ≤ high
              · exact O.le_trans _ _ _ hk1 (Qge j (by omega) hjh)
              · exact hB6 k j hk0 h2 (by omega) hjn
          · -- continue on the right part `[b', high]`
            left
            rw [if_pos (by omega), if_neg (by omega)]
            refine ⟨by omega, h2, ?_, hB6⟩
            intro i j hi0 hil hlj hjn
            by_cases hjh : j ≤ high
            · by_cases hil' : low ≤ i
              · exact O.le_trans _ _ _ (Qle i hil' hil) (Qge j (by omega) hjh)
              · exact hA6 i j hi0 (by omega) (by omega) hjn
            · exact hB6 i j hi0 (by omega) (by omega) hjn
        · right
          rw [if_neg (by omega)]
          exact ⟨h1, hF.stable r6 h1 hhigh⟩
      obtain ⟨s', hrun', hperm', hfin'⟩ :=
        ih { f_0 := a6 } (if k ≤ e' then usub e' 1 else high) (if e' ≤ k then b' else low)
          l6 (by show a6.length ≤ loopFuel; rw [r6.length]; exact hnf)
          (nn_perm hnn r6.perm)
          (by split_ifs <;> omega) (by rw [hu]; split_ifs <;> omega) hJ' (by omega)
          (by rw [hu]; split_ifs <;> omega)
      exact ⟨s', hrun', hperm'.trans r6.perm, hfin'⟩

/-! ### the order-statistic characterisation by counting -/

/-- `v` has rank `k` (0-based) in `l`, ties and `±0` included: at least `k + 1` entries are `≤ v` and at least
    `n − k` entries are `≥ v` -/
def IsRank (l : List α) (k : Int) (v : α) : Prop :=
  k + 1 ≤ (l.countP (fun x => decide (x ≤ v)) : Int) ∧
  (l.length : Int) - k ≤ (l.countP (fun x => decide (v ≤ x)) : Int)

omit [Add α] [Sub α] [Mul α] [Div α] [Neg α] [LT α] [BEq α] [DecidableLT α] [OfScientific α] [Inhabited α]
  [RFun α] in
/-- full(∀α): the rank characterisation does not depend on the arrangement of the data -/
theorem IsRank.of_perm {l l' : List α} {k : Int} {v : α} (h : IsRank l' k v) (p : l'.Perm l) :
    IsRank l k v := by
  unfold IsRank at h ⊢
  rw [← p.countP_eq, ← p.countP_eq, ← p.length_eq]; exact h

/-- full(∀α): two disjoint predicates are counted by at most the length -/
theorem countP_disjoint {β : Type} (l : List β) (p q : β → Bool)
    (h : ∀ x ∈ l, ¬ (p x = true ∧ q x = true)) : l.countP p + l.countP q ≤ l.length := by
  induction l with
  | nil => simp
  | cons x t ih =>
    have h1 := ih (fun y hy => h y (List.mem_cons_of_mem _ hy))
    have hx := h x (List.mem_cons_self ..)
    rw [List.countP_cons, List.countP_cons, List.length_cons]
    cases hp : p x <;> cases hq : q x <;> simp_all <;> omega

/-- full(∀α): the rank characterisation is monotone: rank `i ≤` rank `j` gives `u ≤ v` (only transitivity and
    totality on the two values are used) -/
theorem isRank_mono (O : OrderLaws α) {l : List α} {i j : Int} {u v : α} (hu : IsRank l i u)
    (hv : IsRank l j v) (hij : i ≤ j) (nu : NN u) (nv : NN v) : u ≤ v := by
  by_contra hcon
  have hd := countP_disjoint l (fun x => decide (x ≤ v)) (fun x => decide (u ≤ x)) (by
    intro x _ hx
    simp only [decide_eq_true_eq] at hx
    exact hcon (O.le_trans _ _ _ hx.2 hx.1))
  have h1 := hv.1
  have h2 := hu.2
  omega

/-- full(∀α): a cell in its sorted position has that rank -/
theorem final_isRank (O : OrderLaws α) (a : List α) (k : ℕ) (hk : k < a.length)
    (hnn : ∀ x ∈ a, NN x) (hF : Final a (k : Int) (a.length : Int)) :
    IsRank a (k : Int) (listGet a (k : Int)) := by
  have hget : ∀ i (h : i < a.length), listGet a (i : Int) = a[i] := fun i h => listGet_nat_lt a i h
  constructor
  · have h1 : (a.take (k + 1)).countP (fun x => decide (x ≤ listGet a (k : Int)))
        = (a.take (k + 1)).length := by
      rw [List.countP_eq_length]
      intro u hu
      obtain ⟨i, hi, e⟩ := List.mem_iff_getElem.1 hu
      rw [List.getElem_take] at e
      rw [List.length_take] at hi
      simp only [decide_eq_true_eq]
      rw [← e, ← hget i (by omega)]
      by_cases hi' : i = k
      · rw [hi']; exact O.le_refl _ (nn_get hnn _ (by omega) (by omega))
      · exact hF.1 (i : Int) (by omega) (by omega)
    have h2 := (List.take_sublist (k + 1) a).countP_le
      (p := fun x => decide (x ≤ listGet a (k : Int)))
    rw [h1, List.length_take] at h2
    omega
  · have h1 : (a.drop k).countP (fun x => decide (listGet a (k : Int) ≤ x))
        = (a.drop k).length := by
      rw [List.countP_eq_length]
      intro u hu
      obtain ⟨j, hj, e⟩ := List.mem_iff_getElem.1 hu
      rw [List.getElem_drop] at e
      rw [List.length_drop] at hj
      simp only [decide_eq_true_eq]
      rw [← e, ← hget (k + j) (by omega)]
      by_cases hj' : j = 0
      · rw [hj']; exact O.le_refl _ (nn_get hnn _ (by omega) (by omega))
      · exact hF.2 ((k + j : ℕ) : Int) (by omega) (by omega)
    have h2 := (List.drop_sublist k a).countP_le
      (p := fun x => decide (listGet a (k : Int) ≤ x))
    rw [h1, List.length_drop] at h2
    omega

/-! ### `min` / `max` under `OrderLaws` -/

/-- full(∀α): IEEE `<` is asymmetric and negatively transitive on non-NaN values -/
theorem ltLaws_of_orderLaws (O : OrderLaws α) : C13.LtLaws α where
  asymm := fun a b h h' => olt_not_le O h (olt_le O h')
  negTrans := fun a b c ha hb hc h1 h2 h3 =>
    olt_not_le O h3 (O.le_trans _ _ _ (ole_of_not_lt O hb hc h2) (ole_of_not_lt O ha hb h1))

/-- full(∀α): for non-empty NaN-free data `min`, `max` are entries and bracket every entry -/
theorem min_max_bracket_ord (O : OrderLaws α) (l : List α) (hne : l ≠ []) (hnn : ∀ x ∈ l, NN x) :
    IterStatistics.min l ∈ l ∧ IterStatistics.max l ∈ l ∧
    ∀ x ∈ l, IterStatistics.min l ≤ x ∧ x ≤ IterStatistics.max l := by
  obtain ⟨m1, m2⟩ := C13.min_exact (ltLaws_of_orderLaws O) l hne hnn
  obtain ⟨M1, M2⟩ := C13.max_exact (ltLaws_of_orderLaws O) l hne hnn
  exact ⟨m1, M1, fun x hx => ⟨ole_of_not_lt O (hnn x hx) (hnn _ m1) (m2 x hx),
    ole_of_not_lt O (hnn _ M1) (hnn x hx) (M2 x hx)⟩⟩

/-- full(∀α): `min` has rank `0` and `max` has rank `n − 1` -/
theorem min_max_isRank (O : OrderLaws α) (self : Data α) (hne : self.f_0 ≠ [])
    (hnn : ∀ x ∈ self.f_0, NN x) :
    IsRank self.f_0 0 (Data.min self) ∧
    IsRank self.f_0 ((self.f_0.length : Int) - 1) (Data.max self) := by
  obtain ⟨m1, M1, hb⟩ := min_max_bracket_ord O self.f_0 hne hnn
  have m1' : Data.min self ∈ self.f_0 := m1
  have M1' : Data.max self ∈ self.f_0 := M1
  have hb' : ∀ x ∈ self.f_0, Data.min self ≤ x ∧ x ≤ Data.max self := hb
  refine ⟨⟨?_, ?_⟩, ⟨?_, ?_⟩⟩
  · have : 0 < self.f_0.countP (fun x => decide (x ≤ Data.min self)) :=
      List.countP_pos_iff.2 ⟨_, m1', decide_eq_true (hb' _ m1').1⟩
    omega
  · have : self.f_0.countP (fun x => decide (Data.min self ≤ x)) = self.f_0.length := by
      rw [List.countP_eq_length]; intro x hx; exact decide_eq_true (hb' x hx).1
    rw [this]; omega
  · have : self.f_0.countP (fun x => decide (x ≤ Data.max self)) = self.f_0.length := by
      rw [List.countP_eq_length]; intro x hx; exact decide_eq_true (hb' x hx).2
    rw [this]; omega
  · have : 0 < self.f_0.countP (fun x => decide (Data.max self ≤ x)) :=
      List.countP_pos_iff.2 ⟨_, M1', decide_eq_true (hb' _ M1').2⟩
    omega

/-! ### `select_inplace` -/

/-- **full(∀α): correctness of the generated quickselect on every IEEE-ordered carrier.**  For non-empty
    NaN-free data of length `n ≤ loopFuel` and every rank `k ≥ 0`, `select_inplace(k)` returns an entry `v` of
    rank `min k (n − 1)` — at least `min k (n−1) + 1` entries are `≤ v`, at least `n − min k (n−1)` entries are
    `≥ v` — and hands back a permutation of the data (fuel exhaustion does not occur). -/
theorem select_inplace_rank_fl (O : OrderLaws α) (self : Data α) (hlen : self.f_0.length ≤ loopFuel)
    (hne : self.f_0 ≠ []) (hnn : ∀ x ∈ self.f_0, NN x) (k : Int) (hk0 : 0 ≤ k) :
    (Data.select_inplace self k).1 ∈ self.f_0 ∧
    (Data.select_inplace self k).2.f_0.Perm self.f_0 ∧
    IsRank self.f_0 (min k ((self.f_0.length : Int) - 1)) (Data.select_inplace self k).1 := by
  obtain ⟨m1, M1, hb⟩ := min_max_bracket_ord O self.f_0 hne hnn
  obtain ⟨hmin, hmax⟩ := min_max_isRank O self hne hnn
  have hpos : 0 < self.f_0.length := List.length_pos_of_ne_nil hne
  have hu : usub (Data.len self) 1 = (self.f_0.length : Int) - 1 := by
    unfold usub Data.len listLen
    have : ¬ ((self.f_0.length : Int) < 1) := by omega
    simp [this]
  by_cases hk : k = 0
  · subst hk
    have e : Data.select_inplace self 0 = (Data.min self, self) := by simp [Data.select_inplace]
    rw [e, min_eq_left (by omega)]
    exact ⟨m1, List.Perm.refl _, hmin⟩
  by_cases hbig : usub (Data.len self) 1 < k
  · have e : Data.select_inplace self k = (Data.max self, self) := by
      unfold Data.select_inplace; simp [hk, hbig]
    rw [hu] at hbig
    rw [e, min_eq_right (by omega)]
    exact ⟨M1, List.Perm.refl _, hmax⟩
  · have hkn : k < self.f_0.length := by rw [hu] at hbig; omega
    obtain ⟨s', hrun, hperm, hfin⟩ :=
      loop1_run_fl O loopFuel k (self.f_0.length : Int) self ((self.f_0.length : Int) - 1) 0 rfl
        hlen hnn (le_refl _) (by omega) hk0 hkn
        (Or.inl ⟨hk0, by omega, fun i j h0 h1 _ _ => by omega, fun i j _ h1 h2 h3 => by omega⟩)
        (by rw [loopFuel_succ]; omega) (by omega)
    have e : Data.select_inplace self k = (listGet s'.f_0 k, s') := by
      unfold Data.select_inplace
      rw [if_neg hk, if_neg hbig]
      simp only [hu, hrun]
    rw [e, min_eq_left (by omega)]
    have hl' : s'.f_0.length = self.f_0.length := hperm.length_eq
    have hmem : listGet s'.f_0 k ∈ s'.f_0 := listGet_mem _ _ hk0 (by omega)
    refine ⟨hperm.mem_iff.1 hmem, hperm, ?_⟩
    have hkk : ((k.toNat : ℕ) : Int) = k := Int.toNat_of_nonneg hk0
    have := final_isRank O s'.f_0 k.toNat (by omega) (nn_perm hnn hperm)
      (by rw [hkk, hl']; exact hfin)
    rw [hkk] at this
    exact this.of_perm hperm

/-- full(∀α): in-range form: for `0 ≤ k < n` at least `k + 1` entries are `≤ select_inplace(k)` and at least
    `n − k` entries are `≥` it -/
theorem select_inplace_count_fl (O : OrderLaws α) (self : Data α) (hlen : self.f_0.length ≤ loopFuel)
    (hnn : ∀ x ∈ self.f_0, NN x) (k : Int) (hk0 : 0 ≤ k) (hkn : k < self.f_0.length) :
    k + 1 ≤ (self.f_0.countP (fun x => decide (x ≤ (Data.select_inplace self k).1)) : Int) ∧
    (self.f_0.length : Int) - k ≤
      (self.f_0.countP (fun x => decide ((Data.select_inplace self k).1 ≤ x)) : Int) := by
  have hne : self.f_0 ≠ [] := by
    intro h; rw [h] at hkn; simp at hkn; omega
  have := (select_inplace_rank_fl O self hlen hne hnn k hk0).2.2
  rw [min_eq_left (by omega)] at this
  exact this

/-- full(∀α): selections are monotone in the rank, also across rearrangements of the data: for `b₁`, `b₂`
    permutations of the same NaN-free data and `0 ≤ i ≤ j`, `select_inplace b₁ i ≤ select_inplace b₂ j` -/
theorem select_inplace_mono_fl (O : OrderLaws α) (b1 b2 : Data α) (hlen : b1.f_0.length ≤ loopFuel)
    (hne : b1.f_0 ≠ []) (hnn : ∀ x ∈ b1.f_0, NN x) (hp : b2.f_0.Perm b1.f_0) (i j : Int)
    (hi : 0 ≤ i) (hij : i ≤ j) :
    (Data.select_inplace b1 i).1 ≤ (Data.select_inplace b2 j).1 := by
  have hl2 : b2.f_0.length = b1.f_0.length := hp.length_eq
  have hne2 : b2.f_0 ≠ [] := by
    intro h; rw [h] at hp; exact hne (List.nil_perm.1 hp)
  have hnn2 := nn_perm hnn hp
  obtain ⟨a1, _, a3⟩ := select_inplace_rank_fl O b1 hlen hne hnn i hi
  obtain ⟨c1, _, c3⟩ := select_inplace_rank_fl O b2 (by omega) hne2 hnn2 j (by omega)
  have c3' := c3.of_perm hp
  rw [hl2] at c3'
  exact isRank_mono O a3 c3' (min_le_min_right _ hij) (hnn _ a1) (hnn2 _ c1)

end FloatSelect

open FloatSelect

variable {α : Type} [Add α] [Sub α] [Mul α] [Div α] [Neg α] [LT α] [LE α] [BEq α]
  [DecidableLT α] [DecidableLE α] [OfScientific α] [Inhabited α] [RFun α]

/-! ### `order_statistic` -/

/-- full(∀α): `order_statistic(o)`, `1 ≤ o ≤ n`, on NaN-free data of length `≤ loopFuel` is an entry of rank
    `o − 1`: at least `o` entries are `≤` it and at least `n − o + 1` entries are `≥` it -/
theorem order_statistic_rank_fl (O : OrderLaws α) (self : Data α) (hlen : self.f_0.length ≤ loopFuel)
    (hnn : ∀ x ∈ self.f_0, NN x) (o : Int) (h1 : 1 ≤ o) (h2 : o ≤ self.f_0.length) :
    (Data.order_statistic self o).1 ∈ self.f_0 ∧
    IsRank self.f_0 (o - 1) (Data.order_statistic self o).1 := by
  have hne : self.f_0 ≠ [] := by
    intro h; rw [h] at h2; simp at h2; omega
  have hu : usub (Data.len self) 1 = (self.f_0.length : Int) - 1 := by
    unfold usub Data.len listLen
    have : ¬ ((self.f_0.length : Int) < 1) := by omega
    simp [this]
  have hlen' : Data.len self = (self.f_0.length : Int) := rfl
  by_cases c1 : o = 1
  · subst c1
    obtain ⟨a1, _, a3⟩ := select_inplace_rank_fl O self hlen hne hnn 0 (le_refl _)
    have e : Data.select_inplace self 0 = (Data.min self, self) := by simp [Data.select_inplace]
    rw [e, min_eq_left (by omega)] at a3
    rw [e] at a1
    rw [order_statistic_one]
    exact ⟨a1, a3⟩
  · by_cases c2 : o = Data.len self
    · have hn1 : Data.len self ≠ 1 := fun h => c1 (c2.trans h)
      obtain ⟨a1, _, a3⟩ := select_inplace_rank_fl O self hlen hne hnn (Data.len self) (by omega)
      have hbig : usub (Data.len self) 1 < Data.len self := by rw [hu, hlen']; omega
      have hk : ¬ Data.len self = 0 := by omega
      have e : Data.select_inplace self (Data.len self) = (Data.max self, self) := by
        unfold Data.select_inplace; simp [hk, hbig]
      rw [e, min_eq_right (by omega)] at a3
      rw [e] at a1
      rw [c2, order_statistic_last self hn1, hlen']
      exact ⟨a1, a3⟩
    · have hlt : o < Data.len self := by omega
      rw [order_statistic_inner self o (by omega) hlt]
      obtain ⟨a1, _, a3⟩ := select_inplace_rank_fl O self hlen hne hnn (o - 1) (by omega)
      rw [min_eq_left (by omega)] at a3
      exact ⟨a1, a3⟩

/-- full(∀α): `order_statistic` never decreases in the order: for `1 ≤ i ≤ j ≤ n` on NaN-free data of length
    `≤ loopFuel` (each call on the original buffer) -/
theorem order_statistic_mono_fl (O : OrderLaws α) (self : Data α) (hlen : self.f_0.length ≤ loopFuel)
    (hnn : ∀ x ∈ self.f_0, NN x) (i j : Int) (hi : 1 ≤ i) (hij : i ≤ j) (hj : j ≤ self.f_0.length) :
    (Data.order_statistic self i).1 ≤ (Data.order_statistic self j).1 := by
  obtain ⟨a1, a3⟩ := order_statistic_rank_fl O self hlen hnn i hi (by omega)
  obtain ⟨c1, c3⟩ := order_statistic_rank_fl O self hlen hnn j (by omega) hj
  exact isRank_mono O a3 c3 (by omega) (hnn _ a1) (hnn _ c1)

/-! ### `quantile`: the premise `qLo ≤ qHi` is a theorem -/

/-- full(∀α): the two successively selected entries interpolated by `quantile` are ordered, for every `τ`
    (non-empty NaN-free data of length `≤ loopFuel`) -/
theorem qLo_le_qHi_fl (O : OrderLaws α) (self : Data α) (tau : α) (hlen : self.f_0.length ≤ loopFuel)
    (hne : self.f_0 ≠ []) (hnn : ∀ x ∈ self.f_0, NN x) : qLo self tau ≤ qHi self tau := by
  unfold qLo qHi
  have hw : 0 ≤ wrapU64 (RFun.toI64 (qH self tau)) := by unfold wrapU64; omega
  generalize wrapU64 (RFun.toI64 (qH self tau)) = w at hw
  have h1 : 0 ≤ usatSub w 1 := by unfold usatSub; split_ifs <;> omega
  have h2 : usatSub w 1 ≤ w := by unfold usatSub; split_ifs <;> omega
  obtain ⟨_, hp, _⟩ := select_inplace_rank_fl O self hlen hne hnn (usatSub w 1) h1
  exact select_inplace_mono_fl O self _ hlen hne hnn hp _ _ h1 h2

/-- full(∀α): `quantile` hands back a permutation of the data for every `τ` — in particular never the panic
    value (non-empty NaN-free data of length `≤ loopFuel`), so the premise `hnp` of the float-level quantile
    theorems holds -/
theorem quantile_perm_fl (O : OrderLaws α) (self : Data α) (tau : α) (hlen : self.f_0.length ≤ loopFuel)
    (hne : self.f_0 ≠ []) (hnn : ∀ x ∈ self.f_0, NN x) :
    (Data.quantile self tau).2.f_0.Perm self.f_0 := by
  rw [quantile_eq_with]
  unfold quantileWith
  split_ifs
  · exact List.Perm.refl _
  · exact List.Perm.refl _
  · exact List.Perm.refl _
  · have hw : 0 ≤ wrapU64 (RFun.toI64 (qH self tau)) := by unfold wrapU64; omega
    generalize wrapU64 (RFun.toI64 (qH self tau)) = w at hw
    have h1 : 0 ≤ usatSub w 1 := by unfold usatSub; split_ifs <;> omega
    obtain ⟨_, hp, _⟩ := select_inplace_rank_fl O self hlen hne hnn (usatSub w 1) h1
    have hne2 : (Data.select_inplace self (usatSub w 1)).2.f_0 ≠ [] := by
      intro h; rw [h] at hp; exact hne (List.nil_perm.1 hp)
    obtain ⟨_, hp2, _⟩ := select_inplace_rank_fl O (Data.select_inplace self (usatSub w 1)).2
      (by rw [hp.length_eq]; exact hlen) hne2 (nn_perm hnn hp) w hw
    exact hp2.trans hp

/-- full(∀α): `quantile` does not end in the panic value -/
theorem quantile_no_panic_fl (O : OrderLaws α) (self : Data α) (tau : α)
    (hlen : self.f_0.length ≤ loopFuel) (hne : self.f_0 ≠ []) (hnn : ∀ x ∈ self.f_0, NN x) :
    (Data.quantile self tau).2.f_0 ≠ [] := by
  intro h
  have hp := quantile_perm_fl O self tau hlen hne hnn
  rw [h] at hp
  exact hne (List.nil_perm.1 hp)

/-- rel(`0 ≤ qFrac ≤ 1`: the `as i64` cast truncates; `max − min` finite): `quantile_range_fl_rel` with its
    premises `qLo ≤ qHi` and "no panic value" discharged, for data of length `≤ loopFuel` -/
theorem quantile_range_fl (L : FloatLaws α) (E : ExtraLaws α) (self : Data α) (tau : α)
    (hlen : self.f_0.length ≤ loopFuel) (htau0 : (0.0 : α) ≤ tau)
    (htau1 : tau ≤ (1.0 : α)) (hne : self.f_0 ≠ []) (hfin : ∀ x ∈ self.f_0, Spec.Fin x)
    (hf0 : (0.0 : α) ≤ qFrac self tau)
    (hf1 : qFrac self tau ≤ (1.0 : α)) (hw : Spec.Fin (Data.max self - Data.min self)) :
    NN (Data.quantile self tau).1 ∧ Data.min self ≤ (Data.quantile self tau).1 ∧
    ((Data.quantile self tau).1 = Data.min self ∨ (Data.quantile self tau).1 = Data.max self ∨
      (qLo self tau ≤ (Data.quantile self tau).1 ∧
       (Data.quantile self tau).1 ≤ qLo self tau + (qHi self tau - qLo self tau))) :=
  quantile_range_fl_rel L E self tau htau0 htau1 hne hfin
    (quantile_no_panic_fl L.ord self tau hlen hne (fun x hx => L.fin_nn' (hfin x hx)))
    (qLo_le_qHi_fl L.ord self tau hlen hne (fun x hx => L.fin_nn' (hfin x hx))) hf0 hf1 hw

/-- rel(LerpLaws — proved for `Float` — plus `0 ≤ qFrac < 1`, `max − min` finite): `quantile_range_full_fl_rel`
    with its premises `qLo ≤ qHi` and "no panic value" discharged: the quantile of non-empty finite data of length `≤ loopFuel` is not
    NaN, lies in `[min, max]`, and in the interpolation branch between the two selected entries -/
theorem quantile_range_full_fl (L : FloatLaws α) (E : ExtraLaws α) (R : LerpLaws α) (self : Data α)
    (tau : α) (hlen : self.f_0.length ≤ loopFuel)
    (htau0 : (0.0 : α) ≤ tau) (htau1 : tau ≤ (1.0 : α)) (hne : self.f_0 ≠ [])
    (hfin : ∀ x ∈ self.f_0, Spec.Fin x)
    (hf0 : (0.0 : α) ≤ qFrac self tau)
    (hf1 : qFrac self tau < (1.0 : α)) (hw : Spec.Fin (Data.max self - Data.min self)) :
    NN (Data.quantile self tau).1 ∧ Data.min self ≤ (Data.quantile self tau).1 ∧
    (Data.quantile self tau).1 ≤ Data.max self ∧
    ((Data.quantile self tau).1 = Data.min self ∨ (Data.quantile self tau).1 = Data.max self ∨
      (qLo self tau ≤ (Data.quantile self tau).1 ∧ (Data.quantile self tau).1 ≤ qHi self tau)) :=
  quantile_range_full_fl_rel L E R self tau htau0 htau1 hne hfin
    (quantile_no_panic_fl L.ord self tau hlen hne (fun x hx => L.fin_nn' (hfin x hx)))
    (qLo_le_qHi_fl L.ord self tau hlen hne (fun x hx => L.fin_nn' (hfin x hx))) hf0 hf1 hw

end Statrs.Props.C14
