/-
  C14 — `Draft/C14/SelectCorrectFloat.lean` INSTANTIATED at the executable carrier IEEE `Float`
  (`orderLaws_float`, `floatLaws_float`, `extraLaws_float`, `lerpLaws_float`): the generated quickselect is
  correct on NaN-free `f64` data of length `≤ loopFuel`, order statistics are monotone in the order, the two
  entries interpolated by `quantile` are ordered, and the quantile range theorem holds without the premises
  `qLo ≤ qHi` and "no panic value".  Non-vacuity examples on concrete `Float` data close the file.
-/
import Statrs.Props.C14.SelectCorrectFloat
import Statrs.Props.Common.FloatLawsFloat_Order
import Statrs.Props.Common.FloatLawsFloat_Extra
import Statrs.Lemmas.LerpLawsFloat
import Statrs.Inst.Float
namespace Statrs.Props.C14
open Statrs Statrs.Gen Statrs.Spec Statrs.Props.Common Statrs.Lemmas.Select
open FloatSelect

/-- full(Float): `select_inplace(k)`, `k ≥ 0`, on non-empty NaN-free `f64` data of length `n ≤ loopFuel` returns an
    entry `v` of rank `min k (n − 1)` (at least that many `+ 1` entries are `≤ v`, at least `n −` that many are
    `≥ v`) and hands back a permutation of the data -/
theorem select_inplace_rank_float (self : Data Float) (hlen : self.f_0.length ≤ loopFuel)
    (hne : self.f_0 ≠ []) (hnn : ∀ x ∈ self.f_0, NN x) (k : Int) (hk0 : 0 ≤ k) :
    (Data.select_inplace self k).1 ∈ self.f_0 ∧
    (Data.select_inplace self k).2.f_0.Perm self.f_0 ∧
    IsRank self.f_0 (min k ((self.f_0.length : Int) - 1)) (Data.select_inplace self k).1 :=
  select_inplace_rank_fl orderLaws_float self hlen hne hnn k hk0

/-- full(Float): for `0 ≤ k < n` at least `k + 1` entries are `≤ select_inplace(k)` and at least `n − k` entries
    are `≥` it -/
theorem select_inplace_count_float (self : Data Float) (hlen : self.f_0.length ≤ loopFuel)
    (hnn : ∀ x ∈ self.f_0, NN x) (k : Int) (hk0 : 0 ≤ k) (hkn : k < self.f_0.length) :
    k + 1 ≤ (self.f_0.countP (fun x => decide (x ≤ (Data.select_inplace self k).1)) : Int) ∧
    (self.f_0.length : Int) - k ≤
      (self.f_0.countP (fun x => decide ((Data.select_inplace self k).1 ≤ x)) : Int) :=
  select_inplace_count_fl orderLaws_float self hlen hnn k hk0 hkn

/-- full(Float): `order_statistic` never decreases in the order (`1 ≤ i ≤ j ≤ n`, NaN-free data) -/
theorem order_statistic_mono_float (self : Data Float) (hlen : self.f_0.length ≤ loopFuel)
    (hnn : ∀ x ∈ self.f_0, NN x) (i j : Int) (hi : 1 ≤ i) (hij : i ≤ j) (hj : j ≤ self.f_0.length) :
    (Data.order_statistic self i).1 ≤ (Data.order_statistic self j).1 :=
  order_statistic_mono_fl orderLaws_float self hlen hnn i j hi hij hj

/-- full(Float): the two entries interpolated by `quantile` are ordered, for every `τ` -/
theorem qLo_le_qHi_float (self : Data Float) (tau : Float) (hlen : self.f_0.length ≤ loopFuel)
    (hne : self.f_0 ≠ []) (hnn : ∀ x ∈ self.f_0, NN x) : qLo self tau ≤ qHi self tau :=
  qLo_le_qHi_fl orderLaws_float self tau hlen hne hnn

/-- full(Float): `quantile` hands back a permutation of the data (never the panic value) -/
theorem quantile_perm_float_ord (self : Data Float) (tau : Float) (hlen : self.f_0.length ≤ loopFuel)
    (hne : self.f_0 ≠ []) (hnn : ∀ x ∈ self.f_0, NN x) :
    (Data.quantile self tau).2.f_0.Perm self.f_0 :=
  quantile_perm_fl orderLaws_float self tau hlen hne hnn

/-- rel(`0 ≤ qFrac < 1`: the `as i64` cast truncates; `max − min` finite) on Float, with `LerpLaws Float`, the
    order of the two selections and the absence of the panic value PROVED: the quantile of non-empty finite `f64`
    data of length `≤ loopFuel` is not NaN and lies in `[min, max]`; in the interpolation branch
    `qLo ≤ quantile τ ≤ qHi` -/
theorem quantile_range_full_float (self : Data Float) (tau : Float)
    (hlen : self.f_0.length ≤ loopFuel) (htau0 : (0.0 : Float) ≤ tau)
    (htau1 : tau ≤ (1.0 : Float)) (hne : self.f_0 ≠ []) (hfin : ∀ x ∈ self.f_0, Spec.Fin x)
    (hf0 : (0.0 : Float) ≤ qFrac self tau)
    (hf1 : qFrac self tau < (1.0 : Float)) (hw : Spec.Fin (Data.max self - Data.min self)) :
    NN (Data.quantile self tau).1 ∧ Data.min self ≤ (Data.quantile self tau).1 ∧
    (Data.quantile self tau).1 ≤ Data.max self ∧
    ((Data.quantile self tau).1 = Data.min self ∨ (Data.quantile self tau).1 = Data.max self ∨
      (qLo self tau ≤ (Data.quantile self tau).1 ∧ (Data.quantile self tau).1 ≤ qHi self tau)) :=
  quantile_range_full_fl floatLaws_float extraLaws_float lerpLaws_float self tau hlen htau0 htau1 hne hfin
    hf0 hf1 hw

/-! ### non-vacuity: the hypotheses hold for concrete `f64` data (with a tie and a signed zero) -/

example : ∀ x ∈ ([3.0, -0.0, 2.0, 0.0, 2.0] : List Float), NN x := by decide

example : (2 : Int) + 1 ≤ (([3.0, -0.0, 2.0, 0.0, 2.0] : List Float).countP (fun x => decide
    (x ≤ (Data.select_inplace ({ f_0 := [3.0, -0.0, 2.0, 0.0, 2.0] } : Data Float) 2).1)) : Int) :=
  (select_inplace_count_float { f_0 := [3.0, -0.0, 2.0, 0.0, 2.0] } (by simp [loopFuel]) (by decide) 2
    (by norm_num) (by simp)).1

example : (Data.order_statistic ({ f_0 := [3.0, -0.0, 2.0, 0.0, 2.0] } : Data Float) 2).1
    ≤ (Data.order_statistic ({ f_0 := [3.0, -0.0, 2.0, 0.0, 2.0] } : Data Float) 4).1 :=
  order_statistic_mono_float _ (by simp [loopFuel]) (by decide) 2 4 (by norm_num) (by norm_num) (by simp)

end Statrs.Props.C14
