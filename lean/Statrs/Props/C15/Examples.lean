/-
  C15 — non-vacuity: a concrete history with duplicates, a removal of an absent value, removal
  down to the empty state and re-insertion, evaluated on the model (carrier ℝ) and on the
  specification, and the C15 theorems instantiated on it.
-/
import Statrs.Props.C15.Observations
namespace Statrs.Props.C15
open Statrs Statrs.Model Statrs.Spec
open Statrs.Spec.EmpiricalSpec (Op surviving)
open Statrs.Lemmas.Empirical

/-- duplicates (2, 2), an absent removal (7), removal of everything, then 3, 3, 4 -/
def history : List (Op ℝ) :=
  [Op.add 2, Op.add 5, Op.add 2, Op.remove 7, Op.remove 2, Op.remove 5, Op.remove 2,
   Op.add 3, Op.add 3, Op.add 4]

/-- the prefix of `history` that ends in the empty state -/
def historyToEmpty : List (Op ℝ) :=
  [Op.add 2, Op.add 5, Op.add 2, Op.remove 7, Op.remove 2, Op.remove 5, Op.remove 2]

theorem surviving_history : surviving history = 3 ::ₘ 3 ::ₘ 4 ::ₘ 0 := by
  simp only [surviving, history, List.foldl_cons, List.foldl_nil, EmpiricalSpec.step]
  have h72 : (7 : ℝ) ≠ 2 := by norm_num
  have h75 : (7 : ℝ) ≠ 5 := by norm_num
  simp only [Multiset.erase_cons_head, Multiset.erase_cons_tail _ h72.symm,
    Multiset.erase_cons_tail _ h75.symm, Multiset.erase_zero]
  rw [Multiset.cons_swap 4 3, Multiset.cons_swap 4 3]

theorem surviving_historyToEmpty : surviving historyToEmpty = 0 := by
  simp only [surviving, historyToEmpty, List.foldl_cons, List.foldl_nil, EmpiricalSpec.step]
  have h72 : (7 : ℝ) ≠ 2 := by norm_num
  have h75 : (7 : ℝ) ≠ 5 := by norm_num
  simp only [Multiset.erase_cons_head, Multiset.erase_cons_tail _ h72.symm,
    Multiset.erase_cons_tail _ h75.symm, Multiset.erase_zero]

/-- the model, evaluated step by step on the history up to the last removal, is back at `new()` -/
example : run historyToEmpty = unwrapE Empirical.new :=
  run_eq_new_of_empty _ surviving_historyToEmpty

/-- the model evaluated on the whole history: map `{3 ↦ 2, 4 ↦ 1}`, `sum = 3`,
    `mean = 10/3`, `var` (= M2) `= 2/3` -/
theorem run_history : run history = ⟨[(3, 2), (4, 1)], 3, 10 / 3, 2 / 3⟩ := by
  have h : run history = run [Op.add 3, Op.add 3, Op.add 4] := by
    apply history_independent
    rw [surviving_history]
    simp only [surviving, List.foldl_cons, List.foldl_nil, EmpiricalSpec.step]
    rw [Multiset.cons_swap 4 3, Multiset.cons_swap 4 3]
  rw [h]
  simp only [run, List.foldl_cons, List.foldl_nil, apply, new_eq]
  simp only [Empirical.add, rfun_isNaN, Bool.false_eq_true, if_false, rfun_ofInt, mapIncr,
    keyCmp_self, keyCmp_gt (show (3 : ℝ) < 4 by norm_num)]
  congr 1 <;> norm_num

/-- the observations on the example, through the C15 theorems -/
example :
    (run history).cdf 3 = 2 / 3 ∧ (run history).sf 3 = 1 / 3 ∧
    (run history).min = 3 ∧ (run history).max = 4 ∧
    (run history).mean = some (10 / 3) ∧ (run history).variance = some (1 / 3) := by
  rw [run_history]
  refine ⟨?_, ?_, ?_, ?_, ?_, ?_⟩
  · simp only [Empirical.cdf, rfun_isNaN, Bool.false_eq_true, if_false, rfun_ofInt,
      mapSumTo_filter]
    norm_num
  · simp only [Empirical.sf, rfun_isNaN, Bool.false_eq_true, if_false, rfun_ofInt,
      mapSumFrom_filter]
    norm_num
  · simp [Empirical.min, unwrapO]
  · simp [Empirical.max, unwrapO]
  · simp [Empirical.mean]
  · simp only [Empirical.variance, List.isEmpty_cons, Bool.false_eq_true, if_false, rfun_ofInt]
    norm_num

/-- … and they are the textbook values of the surviving multiset `{3, 3, 4}` -/
example :
    EmpiricalSpec.cdf (surviving history) 3 = 2 / 3 ∧
    EmpiricalSpec.mean (surviving history) = 10 / 3 ∧
    EmpiricalSpec.variance (surviving history) = 1 / 3 := by
  have hc := cdf_run history 3
  have hm := mean_run history
  have hv := variance_run history
  have hne : surviving history ≠ 0 := by rw [surviving_history]; exact Multiset.cons_ne_zero
  rw [if_neg hne] at hm hv
  rw [run_history] at hc hm hv
  refine ⟨?_, ?_, ?_⟩
  · rw [← hc]
    simp only [Empirical.cdf, rfun_isNaN, Bool.false_eq_true, if_false, rfun_ofInt,
      mapSumTo_filter]
    norm_num
  · have := Option.some.inj hm
    rw [← this]
  · have := Option.some.inj hv
    rw [← this]; norm_num

/-- hypotheses of `remove_absent_run`, `remove_last_run`, `min_run` are satisfiable -/
example : (7 : ℝ) ∉ surviving history ∧ surviving history ≠ 0 ∧
    surviving [Op.add (2 : ℝ), Op.add 2, Op.remove 2] = {2} := by
  refine ⟨?_, ?_, ?_⟩
  · rw [surviving_history]; norm_num
  · rw [surviving_history]; exact Multiset.cons_ne_zero
  · simp [surviving, EmpiricalSpec.step]

end Statrs.Props.C15
