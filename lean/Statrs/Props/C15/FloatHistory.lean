/-
  C15 (float level) — the discrete observables of `Model.Empirical` are history independent on every carrier
  satisfying the IEEE order laws (`OrderLaws α`, hence on `Float`: `FloatHistoryFloat.lean`).

  The multiset held after a history is taken on the carrier modulo `==` (`-0.0` and `+0.0` are ONE value, as
  for `NonNan`'s `Ord`): it is the multiplicity function `survCount ops : α → Int`, computed from the history
  with `≤` only (`stepCount`: `add w` adds one to the class of `w` — no class when `w` is NaN —, `remove w`
  takes one from the class of `w` when it holds at least one).

    * `rep_run`             — after ANY history the association list is strictly sorted, its keys are not NaN,
                              its counts are `≥ 1`, `sum` is the total, and the lookup of every non-NaN `v` is
                              `survCount ops v`;
    * `survCount_adds_perm` — for insert-only histories `survCount` does not depend on the order of the calls;
    * `history_data`        — same `survCount` ⇒ same list up to the representative (`±0`) of each key, same `sum`;
    * `history_cdf_eq`, `history_sf_eq` — hence `cdf`/`sf` are EQUAL (`=`, bit for bit) for every argument,
                              NaN included; no exception: the key representatives are only compared, never returned;
    * `history_min_beq`, `history_max_beq`, `history_min_eq`, `history_max_eq` — `min`/`max` return the stored
                              representative: `==` always, `=` when the `==`-class of the value is a singleton
                              (on `Float`: every value except `±0`);
    * `remove_absent_run_fl`, `remove_last_fl`, `remove_last_run_fl` — remove of an absent value is the identity; removing
                              the only element gives back `Empirical::new()` field for field.
  (`add(NaN)`/`remove(NaN)` are the identity: `Props/C15/NaN.lean` `add_nan`, `remove_nan`, for every carrier.)
-/
import Statrs.Props.C15.NaN
import Statrs.Props.C15.Observations
import Statrs.Lemmas.FloatHistory
set_option linter.unusedSectionVars false
namespace Statrs.Props.C15
open Statrs Statrs.Spec Statrs.Model Statrs.Lemmas.FloatEmp Statrs.Lemmas.FloatHist
open Statrs.Spec.EmpiricalSpec (Op)

section
variable {α : Type} [Add α] [Sub α] [Mul α] [Div α] [Neg α] [LT α] [LE α] [BEq α]
  [DecidableLT α] [DecidableLE α] [OfScientific α] [Inhabited α] [RFun α]

/-- effect of one call on the multiplicity function of the multiset held (values modulo `a ≤ b ∧ b ≤ a`,
    i.e. IEEE `==`): `add w` adds one copy to the class of `w` (a NaN has no class: `NaN ≤ v` is false),
    `remove w` takes one copy from the class of `w` if it holds one -/
def stepCount (f : α → Int) (op : Op α) (v : α) : Int :=
  match op with
  | Op.add w => if KEq w v then f v + 1 else f v
  | Op.remove w => if KEq w v ∧ 1 ≤ f v then f v - 1 else f v

/-- multiplicity function of the multiset held after the history `ops` (oldest call first), from empty -/
def survCount (ops : List (Op α)) : α → Int := ops.foldl stepCount (fun _ => 0)

/-- full(∀α): `survCount` of a history extended by one call -/
theorem survCount_append (ops : List (Op α)) (op : Op α) :
    survCount (ops ++ [op]) = stepCount (survCount ops) op := by
  simp [survCount, List.foldl_append]

/-- full(∀α): for insert-only histories the multiset held does not depend on the order of the calls -/
theorem survCount_adds_perm {l₁ l₂ : List α} (h : l₁.Perm l₂) :
    survCount (l₁.map Op.add) = survCount (l₂.map Op.add) := by
  unfold survCount
  rw [List.foldl_map, List.foldl_map]
  have key : ∀ (l₁ l₂ : List α), l₁.Perm l₂ → ∀ f : α → Int,
      l₁.foldl (fun g w => stepCount g (Op.add w)) f = l₂.foldl (fun g w => stepCount g (Op.add w)) f := by
    intro l₁ l₂ h
    induction h with
    | nil => intro f; rfl
    | cons x _ ih => intro f; simp only [List.foldl_cons]; exact ih _
    | swap x y l =>
      intro f; simp only [List.foldl_cons]; congr 1
      funext v; simp only [stepCount]; split_ifs <;> rfl
    | trans _ _ ih1 ih2 => intro f; rw [ih1 f, ih2 f]
  exact key l₁ l₂ h _

/-- Representation invariant on any carrier: the state `e` holds the multiset with multiplicity function `f`:
    `EmpOK` (keys not NaN, counts `≥ 1`, `sum` = total), the list is strictly increasing in the key, and
    looking up a non-NaN `v` gives `f v` (`0` = no entry). -/
structure Rep (e : Empirical α) (f : α → Int) : Prop where
  ok : EmpOK e
  srt : Srt e.f_data
  cnt : ∀ v, NN v → cnt e.f_data v = f v

/-- full(∀α): `Empirical::new()` holds the empty multiset -/
theorem rep_new : Rep (unwrapE (Empirical.new (α := α))) (fun _ => 0) :=
  ⟨empOK_new, by simp [Empirical.new, unwrapE], fun v _ => by simp [Empirical.new, unwrapE, cnt, mapGet]⟩

/-- full(∀α): the `data` field after `add` -/
theorem add_data (e : Empirical α) (w : α) :
    (e.add w).f_data = if RFun.isNaN w = true then e.f_data else mapIncr e.f_data w := by
  unfold Empirical.add; split_ifs <;> rfl

/-- full(∀α): the `data` field after `remove` of a value held once: the entry is removed -/
theorem remove_data_one (e : Empirical α) {w : α} (hw : NN w) (hg : mapGet e.f_data w = some 1) :
    (e.remove w).f_data = mapRemove e.f_data w := by
  unfold Empirical.remove
  rw [if_neg (by rw [hw]; exact Bool.false_ne_true), hg]
  simp only [if_true, true_and]
  split_ifs <;> rfl

/-- full(∀α): the `data` field after `remove` of a value held more than once: the count is decremented -/
theorem remove_data_many (e : Empirical α) {w : α} (hw : NN w) {c : Int} (hg : mapGet e.f_data w = some c)
    (hc : c ≠ 1) : (e.remove w).f_data = mapDecr e.f_data w := by
  unfold Empirical.remove
  rw [if_neg (by rw [hw]; exact Bool.false_ne_true), hg]
  simp only [if_neg hc]
  rw [if_neg (fun h => hc h.1)]

/-- full(∀α): under `EmpOK` the lookup is determined by the multiplicity (`0` ⇔ no entry) -/
theorem mapGet_of_cnt {e : Empirical α} (ok : EmpOK e) (v : α) :
    mapGet e.f_data v = if cnt e.f_data v = 0 then none else some (cnt e.f_data v) := by
  unfold cnt
  cases hg : mapGet e.f_data v with
  | none => simp
  | some c =>
    have := (mapGet_spec e.f_data v c hg ok.keys_nn ok.counts_pos).1
    simp only [Option.getD_some]; rw [if_neg (by omega)]

variable (O : OrderLaws α)
include O

/-- full(∀α): a NaN is in no class -/
theorem not_keq_nan {w : α} (h : RFun.isNaN w = true) (v : α) : ¬ KEq w v := fun hq => by
  have := O.le_nn_left _ _ hq.1; simp [NN, h] at this

/-- full(∀α): `add` realises `stepCount (Op.add w)` -/
theorem rep_add {e : Empirical α} {f : α → Int} (h : Rep e f) (w : α) :
    Rep (e.add w) (stepCount f (Op.add w)) := by
  refine ⟨empOK_add h.ok w, ?_, ?_⟩
  · rw [add_data]; split_ifs with hn
    · exact h.srt
    · exact srt_mapIncr O _ h.ok.keys_nn h.srt (by simpa using hn)
  · intro v hv
    rw [add_data]; simp only [stepCount]
    split_ifs with hn hq hq
    · exact absurd hq (not_keq_nan O hn v)
    · exact h.cnt v hv
    · have hw : NN w := by simpa using hn
      unfold Lemmas.FloatHist.cnt; rw [mapGet_mapIncr O _ h.ok.keys_nn hw hv, if_pos hq]
      have := h.cnt v hv; unfold Lemmas.FloatHist.cnt at this; simp [this]
    · have hw : NN w := by simpa using hn
      unfold Lemmas.FloatHist.cnt; rw [mapGet_mapIncr O _ h.ok.keys_nn hw hv, if_neg hq]
      exact h.cnt v hv

/-- full(∀α): `remove` realises `stepCount (Op.remove w)` -/
theorem rep_remove {e : Empirical α} {f : α → Int} (h : Rep e f) (w : α) :
    Rep (e.remove w) (stepCount f (Op.remove w)) := by
  have hok := empOK_remove h.ok w
  cases hn : RFun.isNaN w with
  | true =>
    rw [remove_nan e w hn]
    refine ⟨h.ok, h.srt, fun v hv => ?_⟩
    simp only [stepCount]; rw [if_neg (fun hq => not_keq_nan O hn v hq.1)]; exact h.cnt v hv
  | false =>
    cases hg : mapGet e.f_data w with
    | none =>
      rw [remove_vacant e w hg]
      refine ⟨h.ok, h.srt, fun v hv => ?_⟩
      simp only [stepCount]
      rw [if_neg]; · exact h.cnt v hv
      rintro ⟨hq, h1⟩
      have := h.cnt v hv
      unfold Lemmas.FloatHist.cnt at this
      rw [mapGet_congr O e.f_data (keq_symm O hq), hg] at this
      simp at this; omega
    | some c =>
      have hc1 := (mapGet_spec e.f_data w c hg h.ok.keys_nn h.ok.counts_pos).1
      by_cases hc : c = 1
      · subst hc
        refine ⟨hok, ?_, fun v hv => ?_⟩
        · rw [remove_data_one e hn hg]; exact srt_mapRemove _ h.srt w
        · rw [remove_data_one e hn hg]
          unfold Lemmas.FloatHist.cnt
          rw [mapGet_mapRemove O _ h.ok.keys_nn h.srt hn hv]
          simp only [stepCount]
          have hv' := h.cnt v hv; unfold Lemmas.FloatHist.cnt at hv'
          by_cases hq : KEq w v
          · rw [mapGet_congr O e.f_data (keq_symm O hq), hg] at hv'
            simp at hv'
            rw [if_pos hq, if_pos ⟨hq, by omega⟩]; simp; omega
          · rw [if_neg hq, if_neg (fun h' => hq h'.1)]; exact hv'
      · refine ⟨hok, ?_, fun v hv => ?_⟩
        · rw [remove_data_many e hn hg hc]; exact srt_mapDecr _ h.srt w
        · rw [remove_data_many e hn hg hc]
          unfold Lemmas.FloatHist.cnt
          rw [mapGet_mapDecr O _ h.ok.keys_nn hn hv]
          simp only [stepCount]
          have hv' := h.cnt v hv; unfold Lemmas.FloatHist.cnt at hv'
          by_cases hq : KEq w v
          · have hgv := mapGet_congr O e.f_data (keq_symm O hq)
            rw [hg] at hgv
            rw [hgv] at hv'
            simp at hv'
            rw [if_pos hq, if_pos ⟨hq, by omega⟩, hgv]
            simp [usub]; rw [if_neg (by omega)]; omega
          · rw [if_neg hq, if_neg (fun h' => hq h'.1)]; exact hv'

/-- full(∀α): one call realises `stepCount` -/
theorem rep_apply {e : Empirical α} {f : α → Int} (h : Rep e f) (op : Op α) :
    Rep (apply e op) (stepCount f op) := by
  cases op with
  | add w => exact rep_add O h w
  | remove w => exact rep_remove O h w

/-- full(∀α): after ANY history of `add`/`remove` calls (NaN arguments, removes of absent values included) the
    association list is strictly sorted by key, keys are not NaN, counts are `≥ 1`, `sum` is the total count
    and the list represents exactly the surviving multiset `survCount ops` (values modulo `==`) -/
theorem rep_run (ops : List (Op α)) : Rep (run ops) (survCount ops) := by
  induction ops using List.reverseRecOn with
  | nil => exact rep_new
  | append_singleton ops op ih => rw [run_append, survCount_append]; exact rep_apply O ih op

/-- full(∀α): two states holding the same multiset have the same association list up to the representative
    (`±0`) of each key, and the same `sum` -/
theorem Rep.same {e₁ e₂ : Empirical α} {f₁ f₂ : α → Int} (h₁ : Rep e₁ f₁) (h₂ : Rep e₂ f₂)
    (hf : ∀ v, NN v → f₁ v = f₂ v) : SameUpToRep e₁.f_data e₂.f_data ∧ e₁.f_sum = e₂.f_sum := by
  have hs : SameUpToRep e₁.f_data e₂.f_data := by
    refine sameUpToRep_of_mapGet O _ _ h₁.ok.keys_nn h₂.ok.keys_nn h₁.srt h₂.srt (fun v hv => ?_)
    rw [mapGet_of_cnt h₁.ok, mapGet_of_cnt h₂.ok, h₁.cnt v hv, h₂.cnt v hv, hf v hv]
  exact ⟨hs, by rw [h₁.ok.sum_eq, h₂.ok.sum_eq, tot_sameUpToRep hs]⟩

/-- full(∀α): same data up to representatives and same `sum` ⇒ `cdf` is EQUAL at every argument -/
theorem cdf_eq_of_same {e₁ e₂ : Empirical α} (h : SameUpToRep e₁.f_data e₂.f_data ∧ e₁.f_sum = e₂.f_sum)
    (x : α) : Empirical.cdf e₁ x = Empirical.cdf e₂ x := by
  unfold Empirical.cdf; rw [mapSumTo_sameUpToRep O h.1 x, h.2]

/-- full(∀α): same data up to representatives and same `sum` ⇒ `sf` is EQUAL at every argument -/
theorem sf_eq_of_same {e₁ e₂ : Empirical α} (h : SameUpToRep e₁.f_data e₂.f_data ∧ e₁.f_sum = e₂.f_sum)
    (x : α) : Empirical.sf e₁ x = Empirical.sf e₂ x := by
  unfold Empirical.sf; rw [mapSumFrom_sameUpToRep O h.1 x, h.2]

omit O in
/-- full(∀α): same data up to representatives ⇒ `min` is equal (both empty: the panic default) or `==` -/
theorem min_of_same {e₁ e₂ : Empirical α} (h : SameUpToRep e₁.f_data e₂.f_data) :
    (e₁.f_data = [] ∧ Empirical.min e₁ = Empirical.min e₂) ∨
      (e₁.f_data ≠ [] ∧ KEq (Empirical.min e₁) (Empirical.min e₂)) := by
  unfold Empirical.min
  rcases head_sameUpToRep h with ⟨h1, h2⟩ | ⟨a, b, h1, h2, hab⟩
  · left; rw [h1, h2]; exact ⟨rfl, rfl⟩
  · right; rw [h1, h2]; refine ⟨fun h0 => ?_, hab⟩
    rw [h0] at h1; simp at h1

omit O in
/-- full(∀α): same data up to representatives ⇒ `max` is equal (both empty: the panic default) or `==` -/
theorem max_of_same {e₁ e₂ : Empirical α} (h : SameUpToRep e₁.f_data e₂.f_data) :
    (e₁.f_data = [] ∧ Empirical.max e₁ = Empirical.max e₂) ∨
      (e₁.f_data ≠ [] ∧ KEq (Empirical.max e₁) (Empirical.max e₂)) := by
  unfold Empirical.max
  rw [← List.map_reverse, ← List.map_reverse]
  rcases head_sameUpToRep (reverse_sameUpToRep h) with ⟨h1, h2⟩ | ⟨a, b, h1, h2, hab⟩
  · left; rw [h1, h2]; exact ⟨by simpa using h1, rfl⟩
  · right; rw [h1, h2]; refine ⟨fun h0 => ?_, hab⟩
    rw [h0] at h1; simp at h1

/-! ### history independence -/

/-- full(∀α): two histories with the same surviving multiset reach the same association list up to the
    representative of each key (same length, same counts, `==` keys) and the same `sum` -/
theorem history_data (ops₁ ops₂ : List (Op α)) (h : ∀ v, NN v → survCount ops₁ v = survCount ops₂ v) :
    SameUpToRep (run ops₁).f_data (run ops₂).f_data ∧ (run ops₁).f_sum = (run ops₂).f_sum :=
  Rep.same O (rep_run O ops₁) (rep_run O ops₂) h

/-- full(∀α): same surviving multiset ⇒ `cdf` returns the SAME value (`=`, bit for bit on floats) at every
    argument, NaN included — no exception for `±0` keys -/
theorem history_cdf_eq (ops₁ ops₂ : List (Op α)) (h : ∀ v, NN v → survCount ops₁ v = survCount ops₂ v)
    (x : α) : Empirical.cdf (run ops₁) x = Empirical.cdf (run ops₂) x :=
  cdf_eq_of_same O (history_data O ops₁ ops₂ h) x

/-- full(∀α): same surviving multiset ⇒ `sf` returns the SAME value (`=`) at every argument -/
theorem history_sf_eq (ops₁ ops₂ : List (Op α)) (h : ∀ v, NN v → survCount ops₁ v = survCount ops₂ v)
    (x : α) : Empirical.sf (run ops₁) x = Empirical.sf (run ops₂) x :=
  sf_eq_of_same O (history_data O ops₁ ops₂ h) x

/-- full(∀α): same non-empty surviving multiset ⇒ `min` agrees up to `==` -/
theorem history_min_beq (ops₁ ops₂ : List (Op α)) (h : ∀ v, NN v → survCount ops₁ v = survCount ops₂ v)
    (hne : (run ops₁).f_data ≠ []) : (Empirical.min (run ops₁) == Empirical.min (run ops₂)) = true := by
  rcases min_of_same (history_data O ops₁ ops₂ h).1 with ⟨h0, _⟩ | ⟨_, hq⟩
  · exact absurd h0 hne
  · exact (keq_iff_beq O _ _).1 hq

/-- full(∀α): same non-empty surviving multiset ⇒ `max` agrees up to `==` -/
theorem history_max_beq (ops₁ ops₂ : List (Op α)) (h : ∀ v, NN v → survCount ops₁ v = survCount ops₂ v)
    (hne : (run ops₁).f_data ≠ []) : (Empirical.max (run ops₁) == Empirical.max (run ops₂)) = true := by
  rcases max_of_same (history_data O ops₁ ops₂ h).1 with ⟨h0, _⟩ | ⟨_, hq⟩
  · exact absurd h0 hne
  · exact (keq_iff_beq O _ _).1 hq

/-- full(∀α): same surviving multiset ⇒ `min` returns the SAME value (`=`) whenever the `==`-class of the
    returned value is a singleton (on IEEE doubles: whenever it is not `±0`) -/
theorem history_min_eq (ops₁ ops₂ : List (Op α)) (h : ∀ v, NN v → survCount ops₁ v = survCount ops₂ v)
    (hsing : ∀ b, (Empirical.min (run ops₁) == b) = true → Empirical.min (run ops₁) = b) :
    Empirical.min (run ops₁) = Empirical.min (run ops₂) := by
  rcases min_of_same (history_data O ops₁ ops₂ h).1 with ⟨_, h0⟩ | ⟨_, hq⟩
  · exact h0
  · exact hsing _ ((keq_iff_beq O _ _).1 hq)

/-- full(∀α): same surviving multiset ⇒ `max` returns the SAME value (`=`) whenever the `==`-class of the
    returned value is a singleton -/
theorem history_max_eq (ops₁ ops₂ : List (Op α)) (h : ∀ v, NN v → survCount ops₁ v = survCount ops₂ v)
    (hsing : ∀ b, (Empirical.max (run ops₁) == b) = true → Empirical.max (run ops₁) = b) :
    Empirical.max (run ops₁) = Empirical.max (run ops₂) := by
  rcases max_of_same (history_data O ops₁ ops₂ h).1 with ⟨_, h0⟩ | ⟨_, hq⟩
  · exact h0
  · exact hsing _ ((keq_iff_beq O _ _).1 hq)

/-- full(∀α): insert-only histories that are permutations of each other: same `cdf`, `sf` (`=`) -/
theorem from_iter_perm_cdf_sf {l₁ l₂ : List α} (h : l₁.Perm l₂) (x : α) :
    Empirical.cdf (Empirical.from_iter l₁) x = Empirical.cdf (Empirical.from_iter l₂) x ∧
    Empirical.sf (Empirical.from_iter l₁) x = Empirical.sf (Empirical.from_iter l₂) x := by
  rw [from_iter_eq_run, from_iter_eq_run]
  have := survCount_adds_perm h
  exact ⟨history_cdf_eq O _ _ (fun v _ => by rw [this]) x, history_sf_eq O _ _ (fun v _ => by rw [this]) x⟩

/-! ### identity calls and the hard reset -/

/-- full(∀α): removing a value the history does not hold (no `==` copy survives) changes NOTHING in the state -/
theorem remove_absent_run_fl (ops : List (Op α)) (v : α) (h : survCount ops v = 0) :
    (run ops).remove v = run ops := by
  cases hn : RFun.isNaN v with
  | true => exact remove_nan _ v hn
  | false =>
    apply remove_vacant
    have hr := rep_run O ops
    rw [mapGet_of_cnt hr.ok, hr.cnt v hn, if_pos h]

omit O in
/-- full(∀α): with counts `≥ 1` the total is at least the number of entries -/
theorem tot_ge_length (l : List (α × Int)) (h : ∀ p ∈ l, 1 ≤ p.2) : (l.length : Int) ≤ tot l := by
  induction l with
  | nil => simp [tot]
  | cons a b ih =>
    have h1 := h a (by simp)
    have h2 := ih (fun p hp => h p (by simp [hp]))
    simp [tot] at h2 ⊢; omega

omit O in
/-- full(∀α): removing the only element held (`sum = 1`, the non-NaN value is present up to `==`) gives back
    `Empirical::new()` field for field (`data` empty, `sum = 0`, `mean = 0.0`, `var = 0.0`) -/
theorem remove_last_fl {e : Empirical α} (ok : EmpOK e) (hsum : e.f_sum = 1) {v : α} (hv : NN v) {c : Int}
    (hg : mapGet e.f_data v = some c) : e.remove v = unwrapE Empirical.new := by
  obtain ⟨j1, j2, _, j4, j5, _⟩ := mapGet_spec e.f_data v c hg ok.keys_nn ok.counts_pos
  have ht : tot e.f_data = 1 := by rw [← ok.sum_eq]; exact hsum
  have hc : c = 1 := by omega
  subst hc
  have hnil : mapRemove e.f_data v = [] := by
    have := tot_ge_length _ j4
    apply List.eq_nil_of_length_eq_zero; omega
  unfold Empirical.remove
  rw [if_neg (by rw [hv]; exact Bool.false_ne_true), hg]
  simp [hnil, Empirical.new, unwrapE]

/-- full(∀α): after any history holding exactly one element, removing (a value `==` to) it gives back
    `Empirical::new()` field for field -/
theorem remove_last_run_fl (ops : List (Op α)) (hsum : (run ops).f_sum = 1) {v : α} (hv : NN v)
    (h : 1 ≤ survCount ops v) : (run ops).remove v = unwrapE Empirical.new := by
  have hr := rep_run O ops
  refine remove_last_fl hr.ok hsum hv (c := survCount ops v) ?_
  rw [mapGet_of_cnt hr.ok, hr.cnt v hv, if_neg (by omega)]

end
end Statrs.Props.C15
