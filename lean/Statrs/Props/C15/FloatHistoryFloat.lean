/-
  C15 (IEEE doubles) — `Draft/C15/FloatHistory.lean` instantiated on Lean's IEEE `Float` (`orderLaws_float`), and the
  signed-zero witness: the two insert histories `[+0.0, -0.0]` and `[-0.0, +0.0]` hold the same multiset (values
  modulo `==`) but `min`/`max` return `+0.0` resp. `-0.0` — the representative that was inserted FIRST.  This is
  the only way two histories with the same surviving multiset can be told apart through `cdf`/`sf`/`min`/`max`
  (`history_cdf_eq`, `history_sf_eq`, `history_min_eq`, `history_max_eq`).
-/
import Statrs.Props.C15.FloatHistory
import Statrs.Props.C15.FloatHistoryKey
import Statrs.Props.Common.FloatLawsFloat_Order
set_option linter.unusedSectionVars false
namespace Statrs.Props.C15
open Statrs Statrs.Spec Statrs.Model Statrs.Lemmas.FloatEmp Statrs.Lemmas.FloatHist Statrs.Lemmas.FloatModel
open Statrs.Props.Common
open Statrs.Spec.EmpiricalSpec (Op)

/-- full(Float): after any history of `add`/`remove` calls on IEEE doubles the map is strictly sorted, NaN-free,
    with counts `≥ 1`, `sum` = total, and holds exactly the surviving multiset -/
theorem rep_run_float (ops : List (Op Float)) : Rep (run ops) (survCount ops) := rep_run orderLaws_float ops

/-- full(Float): same surviving multiset ⇒ `cdf` is bit-for-bit equal at every argument -/
theorem history_cdf_eq_float (ops₁ ops₂ : List (Op Float))
    (h : ∀ v, NN v → survCount ops₁ v = survCount ops₂ v) (x : Float) :
    Empirical.cdf (run ops₁) x = Empirical.cdf (run ops₂) x := history_cdf_eq orderLaws_float ops₁ ops₂ h x

/-- full(Float): same surviving multiset ⇒ `sf` is bit-for-bit equal at every argument -/
theorem history_sf_eq_float (ops₁ ops₂ : List (Op Float))
    (h : ∀ v, NN v → survCount ops₁ v = survCount ops₂ v) (x : Float) :
    Empirical.sf (run ops₁) x = Empirical.sf (run ops₂) x := history_sf_eq orderLaws_float ops₁ ops₂ h x

/-- full(Float): same non-empty surviving multiset ⇒ `min` and `max` agree up to `==` -/
theorem history_min_max_beq_float (ops₁ ops₂ : List (Op Float))
    (h : ∀ v, NN v → survCount ops₁ v = survCount ops₂ v) (hne : (run ops₁).f_data ≠ []) :
    (Empirical.min (run ops₁) == Empirical.min (run ops₂)) = true ∧
    (Empirical.max (run ops₁) == Empirical.max (run ops₂)) = true :=
  ⟨history_min_beq orderLaws_float ops₁ ops₂ h hne, history_max_beq orderLaws_float ops₁ ops₂ h hne⟩

/-- full(Float): permuting the inserted data leaves `cdf` and `sf` bit-for-bit unchanged -/
theorem from_iter_perm_cdf_sf_float {l₁ l₂ : List Float} (h : l₁.Perm l₂) (x : Float) :
    Empirical.cdf (Empirical.from_iter l₁) x = Empirical.cdf (Empirical.from_iter l₂) x ∧
    Empirical.sf (Empirical.from_iter l₁) x = Empirical.sf (Empirical.from_iter l₂) x :=
  from_iter_perm_cdf_sf orderLaws_float h x

/-- full(Float): `+0.0` and `-0.0` are one key (`≤` both ways) -/
theorem zero_keq_negzero : KEq (0.0 : Float) (-0.0) := ⟨by decide, by decide⟩

/-- full(Float): `+0.0` and `-0.0` are different doubles -/
theorem zero_ne_negzero : (0.0 : Float) ≠ -0.0 := by
  intro h
  have := congrArg U h
  rw [U_neg, U_zero] at this
  exact absurd this (by decide)

/-- counterexample(Float): `[add +0.0, add -0.0]` and `[add -0.0, add +0.0]` hold the same multiset (modulo `==`),
    but `min` (and `max`) return `+0.0` for the first and `-0.0` for the second history, which are different
    doubles: `min`/`max` are history independent only up to the sign of a zero -/
theorem min_max_signed_zero_counterexample :
    (∀ v : Float, survCount [Op.add (0.0 : Float), Op.add (-0.0)] v
        = survCount [Op.add (-0.0 : Float), Op.add 0.0] v) ∧
    Empirical.min (run [Op.add (0.0 : Float), Op.add (-0.0)]) = 0.0 ∧
    Empirical.min (run [Op.add (-0.0 : Float), Op.add 0.0]) = -0.0 ∧
    Empirical.max (run [Op.add (0.0 : Float), Op.add (-0.0)]) = 0.0 ∧
    Empirical.max (run [Op.add (-0.0 : Float), Op.add 0.0]) = -0.0 ∧
    (0.0 : Float) ≠ -0.0 := by
  have O := orderLaws_float
  have hz := zero_keq_negzero
  have n1 : RFun.isNaN (0.0 : Float) = false := by decide
  have n2 : RFun.isNaN (-0.0 : Float) = false := by decide
  have d1 : (run [Op.add (0.0 : Float), Op.add (-0.0)]).f_data = [(0.0, 2)] := by
    show (((unwrapE Empirical.new).add (0.0 : Float)).add (-0.0)).f_data = _
    rw [add_data, add_data, n1, n2]
    simp only [Bool.false_eq_true, if_false]
    show mapIncr (mapIncr [] (0.0 : Float)) (-0.0) = _
    simp only [mapIncr, keyCmp_of_keq (keq_symm O hz)]; rfl
  have d2 : (run [Op.add (-0.0 : Float), Op.add 0.0]).f_data = [(-0.0, 2)] := by
    show (((unwrapE Empirical.new).add (-0.0 : Float)).add 0.0).f_data = _
    rw [add_data, add_data, n1, n2]
    simp only [Bool.false_eq_true, if_false]
    show mapIncr (mapIncr [] (-0.0 : Float)) 0.0 = _
    simp only [mapIncr, keyCmp_of_keq hz]; rfl
  refine ⟨fun v => ?_, ?_, ?_, ?_, ?_, zero_ne_negzero⟩
  · have e : KEq (-0.0 : Float) v ↔ KEq (0.0 : Float) v :=
      ⟨keq_tr O hz, keq_tr O (keq_symm O hz)⟩
    simp only [survCount, List.foldl, stepCount, e]
  · unfold Empirical.min; rw [d1]; rfl
  · unfold Empirical.min; rw [d2]; rfl
  · unfold Empirical.max; rw [d1]; rfl
  · unfold Empirical.max; rw [d2]; rfl

/-- full(Float): on IEEE doubles the key stored for the class of a non-NaN `v` after any history is `survKey ops v`,
    and `min`/`max` return exactly that stored key -/
theorem key_run_float (ops : List (Op Float)) :
    (∀ v, NN v → mapKey (run ops).f_data v = survKey ops v) ∧
    ((run ops).f_data ≠ [] → survKey ops (Empirical.min (run ops)) = some (Empirical.min (run ops)) ∧
      survKey ops (Empirical.max (run ops)) = some (Empirical.max (run ops))) :=
  ⟨key_run orderLaws_float ops, fun h => ⟨min_run_key orderLaws_float ops h, max_run_key orderLaws_float ops h⟩⟩

/-- full(Float): same surviving multiset and same predicted representative ⇒ `min`, `max` bit-for-bit equal -/
theorem history_min_max_eq_key_float (ops₁ ops₂ : List (Op Float))
    (h : ∀ v, NN v → survCount ops₁ v = survCount ops₂ v)
    (hmin : survKey ops₁ (Empirical.min (run ops₁)) = survKey ops₂ (Empirical.min (run ops₁)))
    (hmax : survKey ops₁ (Empirical.max (run ops₁)) = survKey ops₂ (Empirical.max (run ops₁))) :
    Empirical.min (run ops₁) = Empirical.min (run ops₂) ∧ Empirical.max (run ops₁) = Empirical.max (run ops₂) :=
  ⟨history_min_eq_key orderLaws_float ops₁ ops₂ h hmin, history_max_eq_key orderLaws_float ops₁ ops₂ h hmax⟩

/-- non-vacuity of `history_min_max_eq_key_float` (a history against itself) -/
example (ops : List (Op Float)) : Empirical.min (run ops) = Empirical.min (run ops) ∧
    Empirical.max (run ops) = Empirical.max (run ops) :=
  history_min_max_eq_key_float ops ops (fun _ _ => rfl) rfl rfl

/-- full(Float): the representative `survKey` predicts for the zero class is the one inserted first: `+0.0` for
    `[add +0.0, add -0.0]`, `-0.0` for `[add -0.0, add +0.0]` (so `history_min_eq_key` does not apply, in
    agreement with `min_max_signed_zero_counterexample`) -/
theorem survKey_signed_zero :
    survKey [Op.add (0.0 : Float), Op.add (-0.0)] 0.0 = some 0.0 ∧
    survKey [Op.add (-0.0 : Float), Op.add 0.0] 0.0 = some (-0.0) := by
  have hz := zero_keq_negzero
  have h00 : KEq (0.0 : Float) 0.0 := ⟨by decide, by decide⟩
  have hz' : KEq (-0.0 : Float) 0.0 := ⟨hz.2, hz.1⟩
  constructor
  · simp only [survKey, survState, List.foldl, stepState, stepKey, stepCount, if_pos h00, if_pos hz']
    simp
  · simp only [survKey, survState, List.foldl, stepState, stepKey, stepCount, if_pos h00, if_pos hz']
    simp

/-- non-vacuity: a history with a NaN insert, a remove of an absent value and a real remove; the invariant holds
    and the surviving multiset is `{2.0}` -/
example : Rep (run [Op.add (1.0 : Float), Op.add (0.0 / 0.0), Op.remove 3.0, Op.add 2.0, Op.remove 1.0])
    (survCount [Op.add (1.0 : Float), Op.add (0.0 / 0.0), Op.remove 3.0, Op.add 2.0, Op.remove 1.0]) :=
  rep_run_float _

end Statrs.Props.C15
