/-
  C15 (float level) — exactly WHICH representative of a key (`+0.0` or `-0.0`) `Empirical` stores, hence which one
  `min`/`max` return, for every carrier satisfying the IEEE order laws.

  `survKey ops v` is computed from the history alone: the argument of the `add` call that created the current
  entry of the class of `v` (the first `add` of a value `== v` since that class was last empty); later `add`s of
  the other representative only bump the count, and the entry dies when its count drops to zero.

    * `key_run`                — the key stored for the class of `v` after the history is `survKey ops v`;
    * `min_run_key`, `max_run_key` — the value returned by `min`/`max` is bit-for-bit that stored key;
    * `history_data_eq_key`    — same surviving multiset and same `survKey` ⇒ the maps are EQUAL;
    * `history_min_eq_key`, `history_max_eq_key` — two histories with the same surviving multiset return the SAME
      (`=`) `min`/`max` iff-style criterion: it suffices that they agree on `survKey` at that value.  Together with
      `history_cdf_eq`/`history_sf_eq` (no exception at all) this says exactly where bit-equality can fail: only
      in the representative returned by `min`/`max`, when the class was created by different representatives.
-/
import Statrs.Props.C15.FloatHistory
import Statrs.Lemmas.FloatHistoryKey
set_option linter.unusedSectionVars false
namespace Statrs.Props.C15
open Statrs Statrs.Spec Statrs.Model Statrs.Lemmas.FloatEmp Statrs.Lemmas.FloatHist
open Statrs.Spec.EmpiricalSpec (Op)

section
variable {α : Type} [Add α] [Sub α] [Mul α] [Div α] [Neg α] [LT α] [LE α] [BEq α]
  [DecidableLT α] [DecidableLE α] [OfScientific α] [Inhabited α] [RFun α]

/-- effect of one call on the stored representative of the class of `v` (`f` = multiplicities before the call):
    `add w` with `w == v` creates the entry with key `w` when the class is empty and keeps the stored key
    otherwise; `remove w` with `w == v` deletes the entry when it holds exactly one copy -/
def stepKey (f : α → Int) (g : α → Option α) (op : Op α) (v : α) : Option α :=
  match op with
  | Op.add w => if KEq w v then (if f v = 0 then some w else g v) else g v
  | Op.remove w => if KEq w v ∧ f v = 1 then none else g v

/-- joint evolution of multiplicities and stored representatives -/
def stepState (s : (α → Int) × (α → Option α)) (op : Op α) : (α → Int) × (α → Option α) :=
  (stepCount s.1 op, stepKey s.1 s.2 op)

/-- multiplicities and stored representatives after the history `ops`, from empty -/
def survState (ops : List (Op α)) : (α → Int) × (α → Option α) :=
  ops.foldl stepState (fun _ => 0, fun _ => none)

/-- the representative stored for the class of `v` after the history `ops` -/
def survKey (ops : List (Op α)) : α → Option α := (survState ops).2

/-- full(∀α): `survState` of a history extended by one call -/
theorem survState_append (ops : List (Op α)) (op : Op α) :
    survState (ops ++ [op]) = stepState (survState ops) op := by
  simp [survState, List.foldl_append]

/-- full(∀α): the first component of `survState` is `survCount` -/
theorem survState_fst (ops : List (Op α)) : (survState ops).1 = survCount ops := by
  induction ops using List.reverseRecOn with
  | nil => rfl
  | append_singleton ops op ih => rw [survState_append, survCount_append, ← ih]; rfl

/-- full(∀α): `survKey` of a history extended by one call -/
theorem survKey_append (ops : List (Op α)) (op : Op α) :
    survKey (ops ++ [op]) = stepKey (survCount ops) (survKey ops) op := by
  unfold survKey; rw [survState_append, ← survState_fst]; rfl

variable (O : OrderLaws α)
include O

/-- full(∀α): one call realises `stepKey` on the stored representatives -/
theorem key_apply {e : Empirical α} {f : α → Int} {g : α → Option α} (h : Rep e f)
    (hg : ∀ v, NN v → mapKey e.f_data v = g v) (op : Op α) :
    ∀ v, NN v → mapKey (apply e op).f_data v = stepKey f g op v := by
  intro v hv
  have hcv := h.cnt v hv
  have hgetv := mapGet_of_cnt h.ok v
  rw [hcv] at hgetv
  cases op with
  | add w =>
    show mapKey (e.add w).f_data v = _
    rw [add_data]; simp only [stepKey]
    by_cases hn : RFun.isNaN w = true
    · rw [if_pos hn, if_neg (not_keq_nan O hn v)]; exact hg v hv
    · have hw : NN w := by simpa using hn
      rw [if_neg hn, mapKey_mapIncr O _ h.ok.keys_nn hw hv]
      by_cases hq : KEq w v
      · rw [if_pos hq, if_pos hq]
        have hs := mapKey_isSome e.f_data v
        by_cases h0 : f v = 0
        · rw [if_pos h0]; rw [if_pos h0] at hgetv
          rw [hgetv] at hs
          cases hk : mapKey e.f_data v with
          | none => rfl
          | some k => rw [hk] at hs; simp at hs
        · rw [if_neg h0]; rw [if_neg h0] at hgetv
          rw [hgetv] at hs
          cases hk : mapKey e.f_data v with
          | none => rw [hk] at hs; simp at hs
          | some k => rw [← hg v hv, hk]; rfl
      · rw [if_neg hq, if_neg hq]; exact hg v hv
  | remove w =>
    show mapKey (e.remove w).f_data v = _
    simp only [stepKey]
    by_cases hn : RFun.isNaN w = true
    · rw [remove_nan e w hn, if_neg (fun hq => not_keq_nan O hn v hq.1)]; exact hg v hv
    · have hw : NN w := by simpa using hn
      cases hgw : mapGet e.f_data w with
      | none =>
        rw [remove_vacant e w hgw, if_neg]; · exact hg v hv
        rintro ⟨hq, h1⟩
        rw [mapGet_congr O e.f_data (keq_symm O hq), hgw, if_neg (by omega)] at hgetv
        cases hgetv
      | some c =>
        by_cases hc : c = 1
        · subst hc
          rw [remove_data_one e hw hgw, mapKey_mapRemove O _ h.ok.keys_nn h.srt hw hv]
          by_cases hq : KEq w v
          · rw [mapGet_congr O e.f_data (keq_symm O hq), hgw] at hgetv
            have h1 : f v = 1 := by
              by_cases h0 : f v = 0
              · rw [if_pos h0] at hgetv; cases hgetv
              · rw [if_neg h0] at hgetv; injection hgetv with h'; omega
            rw [if_pos hq, if_pos ⟨hq, h1⟩]
          · rw [if_neg hq, if_neg (fun h' => hq h'.1)]; exact hg v hv
        · rw [remove_data_many e hw hgw hc, mapKey_mapDecr, if_neg]; · exact hg v hv
          rintro ⟨hq, h1⟩
          rw [mapGet_congr O e.f_data (keq_symm O hq), hgw, if_neg (by omega)] at hgetv
          injection hgetv with h'; omega

/-- full(∀α): after any history the key stored for the class of a non-NaN `v` is `survKey ops v`: the argument
    of the `add` that created the current entry -/
theorem key_run (ops : List (Op α)) : ∀ v, NN v → mapKey (run ops).f_data v = survKey ops v := by
  induction ops using List.reverseRecOn with
  | nil => intro v _; rfl
  | append_singleton ops op ih =>
    rw [run_append, survKey_append]; exact key_apply O (rep_run O ops) ih op

omit O in
/-- full(∀α): on a non-empty state `min` is one of the stored keys -/
theorem min_mem {e : Empirical α} (hne : e.f_data ≠ []) : ∃ p ∈ e.f_data, p.1 = Empirical.min e := by
  unfold Empirical.min
  cases hd : e.f_data with
  | nil => exact absurd hd hne
  | cons p t => exact ⟨p, by simp, rfl⟩

omit O in
/-- full(∀α): on a non-empty state `max` is one of the stored keys -/
theorem max_mem {e : Empirical α} (hne : e.f_data ≠ []) : ∃ p ∈ e.f_data, p.1 = Empirical.max e := by
  unfold Empirical.max
  rw [← List.map_reverse]
  cases hd : e.f_data.reverse with
  | nil => exact absurd (List.reverse_eq_nil_iff.1 hd) hne
  | cons p t =>
    refine ⟨p, ?_, rfl⟩
    have : p ∈ e.f_data.reverse := by rw [hd]; simp
    exact List.mem_reverse.1 this

/-- full(∀α): the value returned by `min` is, bit for bit, the representative `survKey` predicts for its class -/
theorem min_run_key (ops : List (Op α)) (hne : (run ops).f_data ≠ []) :
    survKey ops (Empirical.min (run ops)) = some (Empirical.min (run ops)) := by
  obtain ⟨p, hp, hpe⟩ := min_mem hne
  have hr := rep_run O ops
  rw [← key_run O ops _ (by rw [← hpe]; exact hr.ok.keys_nn p hp), ← hpe]
  exact mapKey_self O _ hr.ok.keys_nn hr.srt p hp

/-- full(∀α): the value returned by `max` is, bit for bit, the representative `survKey` predicts for its class -/
theorem max_run_key (ops : List (Op α)) (hne : (run ops).f_data ≠ []) :
    survKey ops (Empirical.max (run ops)) = some (Empirical.max (run ops)) := by
  obtain ⟨p, hp, hpe⟩ := max_mem hne
  have hr := rep_run O ops
  rw [← key_run O ops _ (by rw [← hpe]; exact hr.ok.keys_nn p hp), ← hpe]
  exact mapKey_self O _ hr.ok.keys_nn hr.srt p hp

/-- full(∀α): two histories with the same surviving multiset return the SAME `min` (`=`) as soon as they predict
    the same stored representative for the class of that value -/
theorem history_min_eq_key (ops₁ ops₂ : List (Op α)) (h : ∀ v, NN v → survCount ops₁ v = survCount ops₂ v)
    (hkey : survKey ops₁ (Empirical.min (run ops₁)) = survKey ops₂ (Empirical.min (run ops₁))) :
    Empirical.min (run ops₁) = Empirical.min (run ops₂) := by
  rcases min_of_same (history_data O ops₁ ops₂ h).1 with ⟨_, h0⟩ | ⟨hne, hq⟩
  · exact h0
  · have hne2 : (run ops₂).f_data ≠ [] := by
      intro h2; have := (history_data O ops₁ ops₂ h).1; rw [h2] at this
      exact hne (List.forall₂_nil_right_iff.1 this)
    obtain ⟨p, hp, hpe⟩ := min_mem hne
    have hnn : NN (Empirical.min (run ops₁)) := by rw [← hpe]; exact (rep_run O ops₁).ok.keys_nn p hp
    have e1 := min_run_key O ops₁ hne
    have e2 := min_run_key O ops₂ hne2
    rw [← key_run O ops₂ _ (O.le_nn_right _ _ hq.1), ← mapKey_congr O _ hq, key_run O ops₂ _ hnn, ← hkey, e1] at e2
    injection e2

/-- full(∀α): two histories with the same surviving multiset return the SAME `max` (`=`) as soon as they predict
    the same stored representative for the class of that value -/
theorem history_max_eq_key (ops₁ ops₂ : List (Op α)) (h : ∀ v, NN v → survCount ops₁ v = survCount ops₂ v)
    (hkey : survKey ops₁ (Empirical.max (run ops₁)) = survKey ops₂ (Empirical.max (run ops₁))) :
    Empirical.max (run ops₁) = Empirical.max (run ops₂) := by
  rcases max_of_same (history_data O ops₁ ops₂ h).1 with ⟨_, h0⟩ | ⟨hne, hq⟩
  · exact h0
  · have hne2 : (run ops₂).f_data ≠ [] := by
      intro h2; have := (history_data O ops₁ ops₂ h).1; rw [h2] at this
      exact hne (List.forall₂_nil_right_iff.1 this)
    obtain ⟨p, hp, hpe⟩ := max_mem hne
    have hnn : NN (Empirical.max (run ops₁)) := by rw [← hpe]; exact (rep_run O ops₁).ok.keys_nn p hp
    have e1 := max_run_key O ops₁ hne
    have e2 := max_run_key O ops₂ hne2
    rw [← key_run O ops₂ _ (O.le_nn_right _ _ hq.1), ← mapKey_congr O _ hq, key_run O ops₂ _ hnn, ← hkey, e1] at e2
    injection e2

/-- full(∀α): two histories with the same surviving multiset AND the same stored representatives reach the very
    same map and `sum` (`=`), hence `cdf`, `sf`, `min`, `max` all return bit-for-bit equal values -/
theorem history_data_eq_key (ops₁ ops₂ : List (Op α)) (h : ∀ v, NN v → survCount ops₁ v = survCount ops₂ v)
    (hkey : ∀ v, NN v → survKey ops₁ v = survKey ops₂ v) :
    (run ops₁).f_data = (run ops₂).f_data ∧ (run ops₁).f_sum = (run ops₂).f_sum ∧
    Empirical.min (run ops₁) = Empirical.min (run ops₂) ∧ Empirical.max (run ops₁) = Empirical.max (run ops₂) := by
  have hd := history_data O ops₁ ops₂ h
  have r1 := rep_run O ops₁
  have r2 := rep_run O ops₂
  have e : (run ops₁).f_data = (run ops₂).f_data :=
    eq_of_sameUpToRep_of_mapKey O hd.1 r1.ok.keys_nn r2.ok.keys_nn r1.srt r2.srt
      (fun v hv => by rw [key_run O ops₁ v hv, key_run O ops₂ v hv, hkey v hv])
  refine ⟨e, hd.2, ?_, ?_⟩
  · unfold Empirical.min; rw [e]
  · unfold Empirical.max; rw [e]

end
end Statrs.Props.C15
