/-
  C15 — consistency of the carrier-generic multiset of a history (`survCount`, Draft/C15/FloatHistory.lean) with the
  exact-arithmetic specification: over ℝ (where `a ≤ b ∧ b ≤ a` is `a = b`) `survCount ops v` is the multiplicity of
  `v` in `Spec.EmpiricalSpec.surviving ops`.  So the float-level history-independence theorems are stated for the
  same notion of "surviving multiset" as `Props/C15/Observations.lean`, with `==` in place of `=`.
-/
import Statrs.Props.C15.FloatHistory
namespace Statrs.Props.C15
open Statrs Statrs.Spec Statrs.Model Statrs.Lemmas.FloatHist
open Statrs.Spec.EmpiricalSpec (Op surviving step)

/-- full(ℝ): over ℝ the key equivalence is equality -/
theorem keq_real (a b : ℝ) : KEq a b ↔ a = b :=
  ⟨fun h => le_antisymm h.1 h.2, fun h => h ▸ ⟨le_refl _, le_refl _⟩⟩

/-- full(ℝ): over ℝ `survCount ops v` is the multiplicity of `v` in the specification multiset `surviving ops` -/
theorem survCount_real (ops : List (Op ℝ)) (v : ℝ) :
    survCount ops v = (Multiset.count v (surviving ops) : Int) := by
  induction ops using List.reverseRecOn generalizing v with
  | nil => simp [survCount, surviving]
  | append_singleton ops op ih =>
    rw [survCount_append]
    have hs : surviving (ops ++ [op]) = step (surviving ops) op := by simp [surviving, List.foldl_append]
    rw [hs]
    cases op with
    | add w =>
      simp only [stepCount, step, keq_real, ih]
      by_cases h : w = v
      · subst h; simp
      · rw [if_neg h, Multiset.count_cons_of_ne (Ne.symm h)]
    | remove w =>
      simp only [stepCount, step, keq_real, ih]
      by_cases h : w = v
      · subst h; rw [Multiset.count_erase_self]
        generalize Multiset.count w (surviving ops) = n
        split_ifs with h1
        · have := h1.2; omega
        · have : ¬ (1 : Int) ≤ n := fun h' => h1 ⟨rfl, h'⟩
          omega
      · rw [Multiset.count_erase_of_ne (Ne.symm h)]; simp [h]

/-- full(ℝ): over ℝ two histories have the same `survCount` iff they have the same specification multiset -/
theorem survCount_eq_iff_real (ops₁ ops₂ : List (Op ℝ)) :
    (∀ v, survCount ops₁ v = survCount ops₂ v) ↔ surviving ops₁ = surviving ops₂ := by
  constructor
  · intro h; ext v
    have := h v; rw [survCount_real, survCount_real] at this; exact_mod_cast this
  · intro h v; rw [survCount_real, survCount_real, h]

end Statrs.Props.C15
