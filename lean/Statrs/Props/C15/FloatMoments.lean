/-
  C15 (float level) — the running moments of `Empirical` (hand model `Statrs/Model/Empirical.lean`) over EVERY
  carrier satisfying `FloatLaws` + `ExtraLaws`, hence over IEEE `Float` (`FloatMomentsInst.lean`), for ADD-ONLY
  histories (`Empirical::from_iter`, any sequence of `add`):
    * `empirical_var_nonneg_fl`     — the accumulator `var` (sum of `(n−1)·d·d / n`) is NaN or `≥ 0` after any
      sequence of `add`s, and so is `variance()`;
    * `empirical_mean_between_fl_rel` — rel(`C13.StepLaws`: a streaming step with divisor `≥ 2` does not overshoot —
      proved for `Float`): if every non-NaN data point lies in a finite interval `[lo, hi]` whose width does not
      overflow, `mean()` is not NaN and lies in `[lo, hi]`.
  Literal facts used (`EmpLits`): `(1 as f64) = 1.0`, `(2 as f64) == 2.0`.
  Not true with `remove` (a downdate `var -= …`): `FloatMomentsInst.empirical_remove_negative_variance_counterexample`
  (`add 1e16, add 0.1, add 0.7, remove 1e16` leaves `variance() = −2^53`), and with ONE point held `variance()` is
  `0/0 = NaN` (`empirical_variance_single_nan_float`).
-/
import Statrs.Props.C13.FloatStats
import Statrs.Model.Empirical
set_option linter.unusedSectionVars false
set_option linter.unusedVariables false
namespace Statrs.Props.C15
open Statrs Statrs.Model Statrs.Spec Statrs.Props.C13

/-- exact conversions of the first two counts -/
structure EmpLits (α : Type) [BEq α] [OfScientific α] [RFun α] : Prop where
  ofInt_one_eq : (RFun.ofInt 1 : α) = (1.0 : α)
  ofInt_two : ((RFun.ofInt 2 : α) == (2.0 : α)) = true

variable {α : Type} [Add α] [Sub α] [Mul α] [Div α] [Neg α] [LT α] [LE α] [BEq α]
  [DecidableLT α] [DecidableLE α] [OfScientific α] [Inhabited α] [RFun α]

section laws
variable (L : FloatLaws α) (E : ExtraLaws α) (T : EmpLits α)
include L E T

/-- the count converted to a float: `≥ 1` for `n ≥ 1`, `≥ 2` for `n ≥ 2` (64-bit range) -/
theorem count_ge (n : Int) (h64 : n ≤ 2 ^ 64) :
    (1 ≤ n → (1.0 : α) ≤ RFun.ofInt n) ∧ (2 ≤ n → (2.0 : α) ≤ RFun.ofInt n) := by
  constructor
  · intro h
    exact L.le_of_beq_of_le (L.beq_symm L.ofInt.ofInt_one) (L.ofInt.ofInt_mono 1 n (by norm_num) h h64)
  · intro h
    exact L.le_of_beq_of_le (L.beq_symm T.ofInt_two) (L.ofInt.ofInt_mono 2 n (by norm_num) h h64)

/-- the increment `((s − 1)·d)·d / s` of the accumulator is `≥ 0` when it is not NaN (`s ≥ 1`) -/
theorem var_incr_nonneg {s d : α} (hs : (1.0 : α) ≤ s)
    (hn : NN ((((s - (1.0 : α)) * d) * d) / s)) : (0.0 : α) ≤ (((s - (1.0 : α)) * d) * d) / s := by
  have hspos : (0.0 : α) < s := L.lt_of_lt_of_le' L.zero_lt_one hs
  have nnum : NN (((s - (1.0 : α)) * d) * d) := by
    rw [L.nn_iff]; intro h; have := L.div_nan_left s h; simp [NN, this] at hn
  have ncd : NN ((s - (1.0 : α)) * d) := by
    rw [L.nn_iff]; intro h; have := L.mul_nan_left d h; simp [NN, this] at nnum
  have nd : NN d := by
    rw [L.nn_iff]; intro h; have := L.mul_nan_right ((s - (1.0 : α)) * d) h; simp [NN, this] at nnum
  have hc : (0.0 : α) ≤ s - (1.0 : α) := L.sub_nonneg_of_le L.one_fin hs
  have hnum : (0.0 : α) ≤ ((s - (1.0 : α)) * d) * d := by
    rcases L.ord.le_total _ _ L.zero_nn nd with h | h
    · exact L.mul_nonneg_gen E (L.mul_nonneg_gen E hc h ncd) h nnum
    · exact L.mul_nonpos_nonpos E (L.mul_nonneg_nonpos E hc h ncd) h nnum
  exact div_nonneg_of_nn L hnum hspos hn

/-- the invariant of an add-only history with all (non-NaN) data in `[lo, hi]` -/
structure AddInv (lo hi : α) (e : Empirical α) : Prop where
  sum_nonneg : 0 ≤ e.f_sum
  zero : e.f_sum = 0 → e.f_mean = (0.0 : α)
  data_nil : e.f_sum = 0 → e.f_data = []
  data_ne : 1 ≤ e.f_sum → e.f_data ≠ []
  mean_ok : 1 ≤ e.f_sum → lo ≤ e.f_mean ∧ e.f_mean ≤ hi
  var_ok : NaNOrNonneg e.f_var

omit L E T in
theorem mapIncr_ne_nil (l : List (α × Int)) (v : α) : mapIncr l v ≠ [] := by
  cases l with
  | nil => simp [mapIncr]
  | cons p t =>
    obtain ⟨k, c⟩ := p
    unfold mapIncr
    split <;> simp

/-- `add` keeps the variance accumulator NaN-or-nonnegative (no hypothesis on the data at all) -/
theorem add_var_ok (e : Empirical α) (x : α) (h0 : 0 ≤ e.f_sum) (h64 : e.f_sum + 1 ≤ 2 ^ 64)
    (hv : NaNOrNonneg e.f_var) : NaNOrNonneg (e.add x).f_var := by
  unfold Empirical.add
  split_ifs with hnan
  · exact hv
  · simp only []
    apply nanOrNonneg_of L
    intro hn
    have nv : NN e.f_var := by
      rw [L.nn_iff]; intro h; have := L.add_nan_left
        (((((RFun.ofInt (e.f_sum + 1) : α) - (1.0 : α)) * (x - e.f_mean)) * (x - e.f_mean)) /
          (RFun.ofInt (e.f_sum + 1) : α)) h
      simp [NN, this] at hn
    have nt : NN (((((RFun.ofInt (e.f_sum + 1) : α) - (1.0 : α)) * (x - e.f_mean)) * (x - e.f_mean)) /
          (RFun.ofInt (e.f_sum + 1) : α)) := by
      rw [L.nn_iff]; intro h; have := L.add_nan_right e.f_var h; simp [NN, this] at hn
    have hv0 : (0.0 : α) ≤ e.f_var := by
      rcases hv with h | h
      · simp [NN, h] at nv
      · exact h
    have ht := var_incr_nonneg L E T ((count_ge L E T _ h64).1 (by omega)) nt
    have hz := L.exact.zero_add _ nt
    exact L.le_tr ht (L.le_of_beq_of_le (L.beq_symm hz)
      (L.mono.add_le_add_right _ _ _ hv0 (L.beq_nnl hz) hn))

/-- full(∀α): after any sequence of `add`s (fewer than `2^64`) the accumulator `var` is NaN or `≥ 0` -/
theorem empirical_var_nonneg_fl (l : List α) (hlen : (l.length : Int) ≤ 2 ^ 64) :
    NaNOrNonneg (Empirical.from_iter l).f_var ∧ 0 ≤ (Empirical.from_iter l).f_sum ∧
      (Empirical.from_iter l).f_sum ≤ l.length := by
  have key : ∀ (l : List α) (e : Empirical α), 0 ≤ e.f_sum → e.f_sum + l.length ≤ 2 ^ 64 →
      NaNOrNonneg e.f_var →
      NaNOrNonneg (l.foldl (fun e x => e.add x) e).f_var ∧ 0 ≤ (l.foldl (fun e x => e.add x) e).f_sum ∧
        (l.foldl (fun e x => e.add x) e).f_sum ≤ e.f_sum + l.length := by
    intro l
    induction l with
    | nil => intro e h0 _ hv; exact ⟨hv, h0, by simp⟩
    | cons a t ih =>
      intro e h0 h64 hv
      have hlen : ((a :: t).length : Int) = t.length + 1 := by simp
      rw [hlen] at h64
      have hs : (e.add a).f_sum = e.f_sum ∨ (e.add a).f_sum = e.f_sum + 1 := by
        unfold Empirical.add; split_ifs <;> simp
      have h0' : 0 ≤ (e.add a).f_sum := by rcases hs with h | h <;> omega
      have := ih (e.add a) h0' (by rcases hs with h | h <;> omega)
        (add_var_ok L E T e a h0 (by omega) hv)
      rw [List.foldl_cons]
      exact ⟨this.1, this.2.1, by rw [hlen]; rcases hs with h | h <;> omega⟩
  have := key l (unwrapE Empirical.new) (by simp [Empirical.new, unwrapE]) (by simpa [Empirical.new, unwrapE] using hlen)
    (Or.inr (by simpa [Empirical.new, unwrapE] using L.zero_le_zero))
  simpa [Empirical.from_iter, Empirical.new, unwrapE] using this

/-- full(∀α): `variance()` after any sequence of `add`s that holds at least TWO points is `some v` with `v` NaN or
    `≥ 0` (with one point it is `0/0`, see `empirical_variance_single_nan_float`) -/
theorem empirical_variance_nonneg_fl (l : List α) (hlen : (l.length : Int) ≤ 2 ^ 64)
    (h2 : 2 ≤ (Empirical.from_iter l).f_sum) :
    ∀ v, Empirical.variance (Empirical.from_iter l) = some v → NaNOrNonneg v := by
  obtain ⟨hv, h0, hle⟩ := empirical_var_nonneg_fl L E T l hlen
  intro v hvar
  unfold Empirical.variance at hvar
  split_ifs at hvar with hempty
  cases hvar
  apply nanOrNonneg_of L
  intro hn
  have nv : NN (Empirical.from_iter l).f_var := by
    rw [L.nn_iff]; intro h; have := L.div_nan_left ((RFun.ofInt (Empirical.from_iter l).f_sum : α) - (1.0 : α)) h
    simp [NN, this] at hn
  have nd : NN ((RFun.ofInt (Empirical.from_iter l).f_sum : α) - (1.0 : α)) := by
    rw [L.nn_iff]; intro h; have := L.div_nan_right (Empirical.from_iter l).f_var h; simp [NN, this] at hn
  have hv0 : (0.0 : α) ≤ (Empirical.from_iter l).f_var := by
    rcases hv with h | h
    · simp [NN, h] at nv
    · exact h
  have hlt : (1.0 : α) < RFun.ofInt (Empirical.from_iter l).f_sum :=
    L.lt_of_lt_of_le' L.lit.one_lt_two ((count_ge L E T _ (by omega)).2 h2)
  exact div_nonneg_of_nn L hv0 (E.sub_pos _ _ hlt nd) hn

/-! ### the running mean -/

section mean
variable (M : StreamLits α) (S : StepLaws α)
include M S

/-- `add` keeps the invariant: the running mean stays in `[lo, hi]` -/
theorem add_inv {lo hi : α} (hlo : Spec.Fin lo) (hhi : Spec.Fin hi) (hw1 : Spec.Fin (hi - lo))
    (hw2 : Spec.Fin (lo - hi)) (e : Empirical α) (x : α) (hx : NN x → lo ≤ x ∧ x ≤ hi)
    (h64 : e.f_sum + 1 ≤ 2 ^ 64) (inv : AddInv lo hi e) : AddInv lo hi (e.add x) := by
  have hvar := add_var_ok L E T e x inv.sum_nonneg h64 inv.var_ok
  unfold Empirical.add at hvar ⊢
  split_ifs at hvar ⊢ with hnan
  · exact inv
  · have hxr := hx ((L.nn_iff x).2 hnan)
    refine ⟨by show 0 ≤ e.f_sum + 1; have := inv.sum_nonneg; omega,
      fun h => by (have h' : e.f_sum + 1 = 0 := h); have := inv.sum_nonneg; omega,
      fun h => by (have h' : e.f_sum + 1 = 0 := h); have := inv.sum_nonneg; omega,
      fun _ => mapIncr_ne_nil _ _, fun _ => ?_, hvar⟩
    show lo ≤ e.f_mean + (x - e.f_mean) / (RFun.ofInt (e.f_sum + 1) : α) ∧
      e.f_mean + (x - e.f_mean) / (RFun.ofInt (e.f_sum + 1) : α) ≤ hi
    by_cases hz : e.f_sum = 0
    · rw [inv.zero hz, hz, show (0 : Int) + 1 = 1 from rfl, T.ofInt_one_eq]
      have hfirst := mean_first_step L (L.le_nnr hxr.1)
      exact ⟨L.le_tr hxr.1 (L.beq_ge hfirst), L.le_tr (L.beq_le hfirst) hxr.2⟩
    · have h1 : 1 ≤ e.f_sum := by have := inv.sum_nonneg; omega
      exact mean_step_between L E M S hlo hhi hw1 hw2 (inv.mean_ok h1) hxr
        ((count_ge L E T _ h64).2 (by omega))

/-- rel(StepLaws): if every non-NaN data point lies in a finite interval `[lo, hi]` whose width does not
    overflow, then after `from_iter` (fewer than `2^64` points) `mean()` — when there is data — is not NaN and lies
    in `[lo, hi]` -/
theorem empirical_mean_between_fl_rel {lo hi : α} (hlo : Spec.Fin lo) (hhi : Spec.Fin hi)
    (hw1 : Spec.Fin (hi - lo)) (hw2 : Spec.Fin (lo - hi)) (l : List α) (hlen : (l.length : Int) ≤ 2 ^ 64)
    (hl : ∀ x ∈ l, NN x → lo ≤ x ∧ x ≤ hi) :
    ∀ m, Empirical.mean (Empirical.from_iter l) = some m → NN m ∧ lo ≤ m ∧ m ≤ hi := by
  have key : ∀ (l : List α) (e : Empirical α), e.f_sum + l.length ≤ 2 ^ 64 →
      (∀ x ∈ l, NN x → lo ≤ x ∧ x ≤ hi) → AddInv lo hi e →
      AddInv lo hi (l.foldl (fun e x => e.add x) e) := by
    intro l
    induction l with
    | nil => intro e _ _ inv; exact inv
    | cons a t ih =>
      intro e h64 hl inv
      have hlen : ((a :: t).length : Int) = t.length + 1 := by simp
      rw [hlen] at h64
      have hs : (e.add a).f_sum = e.f_sum ∨ (e.add a).f_sum = e.f_sum + 1 := by
        unfold Empirical.add; split_ifs <;> simp
      rw [List.foldl_cons]
      exact ih (e.add a) (by rcases hs with h | h <;> omega)
        (fun x hx => hl x (List.mem_cons_of_mem _ hx))
        (add_inv L E T M S hlo hhi hw1 hw2 e a (hl a (by simp)) (by have := inv.sum_nonneg; omega) inv)
  have inv0 : AddInv lo hi (unwrapE Empirical.new : Empirical α) :=
    ⟨by simp [Empirical.new, unwrapE], fun _ => by simp [Empirical.new, unwrapE],
     fun _ => by simp [Empirical.new, unwrapE],
     fun h => by simp [Empirical.new, unwrapE] at h, fun h => by simp [Empirical.new, unwrapE] at h,
     Or.inr (by simpa [Empirical.new, unwrapE] using L.zero_le_zero)⟩
  have inv := key l (unwrapE Empirical.new) (by simpa [Empirical.new, unwrapE] using hlen) hl inv0
  intro m hm
  unfold Empirical.mean at hm
  have e : Empirical.from_iter l = l.foldl (fun e x => e.add x) (unwrapE Empirical.new) := rfl
  rw [e] at hm
  split_ifs at hm with hempty
  cases hm
  have h1 : 1 ≤ (l.foldl (fun e x => e.add x) (unwrapE Empirical.new : Empirical α)).f_sum := by
    by_contra hc
    have h0 : (l.foldl (fun e x => e.add x) (unwrapE Empirical.new : Empirical α)).f_sum = 0 := by
      have := inv.sum_nonneg; omega
    -- no point held: the data map is empty — contradiction with `hempty`
    rw [inv.data_nil h0] at hempty
    exact hempty rfl
  exact ⟨L.le_nnr (inv.mean_ok h1).1, inv.mean_ok h1⟩

end mean
end laws
end Statrs.Props.C15
