/-
  C15 (float level) — `FloatMoments.lean` INSTANTIATED at IEEE `Float` (all premises proved: `floatLaws_float`,
  `extraLaws_float`, `C13.streamLits_float`, `C13.stepLaws_float`, `empLits_float`), and the `Float` facts about
  the degenerate and the non-monotone cases:
    * `empirical_variance_single_nan_float`  — with exactly one finite point held, `variance()` is `Some(NaN)`
      (`0/0`), for EVERY finite `f64` point;
    * `empirical_remove_negative_variance_counterexample` — `add 1e16, add 0.1, add 0.7, remove 1e16` leaves the
      two points `{0.1, 0.7}` (true variance `0.18`, true mean `0.4`) with `variance() = −2^53 < 0` and
      `mean() = 1.0 ∉ [0.1, 0.7]`: the downdate in `remove` cancels catastrophically.
-/
import Statrs.Props.C15.FloatMoments
import Statrs.Props.C13.FloatStepLaws
namespace Statrs.Props.C15
open Statrs Statrs.Model Statrs.Spec Statrs.Props.Common Statrs.Props.C13 Statrs.Lemmas.FloatModel
open Float.Model

private abbrev L := floatLaws_float
private abbrev E := extraLaws_float

/-- full(Float): `(1 as f64) = 1.0`, `(2 as f64) == 2.0` -/
theorem empLits_float : EmpLits Float := ⟨by decide, by decide⟩

/-- full(Float): after any sequence of fewer than `2^64` `add`s the accumulator `var` is NaN or `≥ 0`, and with
    at least two points held `variance()` is NaN or `≥ 0` -/
theorem empirical_variance_nonneg_float (l : List Float) (hlen : (l.length : Int) ≤ 2 ^ 64)
    (h2 : 2 ≤ (Empirical.from_iter l).f_sum) :
    ∀ v, Empirical.variance (Empirical.from_iter l) = some v → NaNOrNonneg v :=
  empirical_variance_nonneg_fl L E empLits_float l hlen h2

/-- full(Float): if every non-NaN data point lies in a finite interval `[lo, hi]` whose width does not overflow,
    `mean()` of `from_iter` is not NaN and lies in `[lo, hi]` — exactly -/
theorem empirical_mean_between_float {lo hi : Float} (hlo : Spec.Fin lo) (hhi : Spec.Fin hi)
    (hw1 : Spec.Fin (hi - lo)) (hw2 : Spec.Fin (lo - hi)) (l : List Float) (hlen : (l.length : Int) ≤ 2 ^ 64)
    (hl : ∀ x ∈ l, NN x → lo ≤ x ∧ x ≤ hi) :
    ∀ m, Empirical.mean (Empirical.from_iter l) = some m → NN m ∧ lo ≤ m ∧ m ≤ hi :=
  empirical_mean_between_fl_rel L E empLits_float streamLits_float stepLaws_float hlo hhi hw1 hw2 l hlen hl

/-! ### one point held: `variance()` is `0/0` -/

/-- full(Float): an IEEE zero divided by `+0.0` is NaN -/
theorem zero_div_zero_nan_float (z : Float) (h : (z == (0.0 : Float)) = true) :
    RFun.isNaN (z / (0.0 : Float)) = true := by
  rw [beq_def, U_zero] at h
  rw [isNaN_def, U_div', U_zero]
  rcases hz : U z with s | _ | s | ⟨s, m, e, hm⟩
  · rw [hz] at h; cases s <;> simp [UnpackedFloat.beq, UnpackedFloat.compare] at h
  · rw [hz] at h; simp [UnpackedFloat.beq, UnpackedFloat.compare] at h
  · cases s <;> rfl
  · rw [hz] at h; cases s <;> simp [UnpackedFloat.beq, UnpackedFloat.compare] at h

/-- full(Float): for EVERY finite `f64` `x`, the distribution holding the single point `x` has
    `variance() = Some(NaN)`: the accumulator is an IEEE zero and the divisor is `1.0 − 1.0 = +0.0` -/
theorem empirical_variance_single_nan_float (x : Float) (hx : Spec.Fin x) :
    ∃ v, Empirical.variance (Empirical.from_iter [x]) = some v ∧ RFun.isNaN v = true := by
  have hnn : ¬ RFun.isNaN x = true := (L.nn_iff x).1 (L.fin_nn' hx)
  have h1 : (RFun.ofInt 1 : Float) = 1.0 := by decide
  have h0 : ((1.0 : Float) - 1.0) = 0.0 := by decide
  -- the state after the single `add`
  have hstate : Empirical.from_iter [x] = (unwrapE Empirical.new : Empirical Float).add x := rfl
  have hvar : (Empirical.from_iter [x]).f_var =
      (0.0 : Float) + (((0.0 : Float) * (x - (0.0 : Float))) * (x - (0.0 : Float))) / (1.0 : Float) := by
    rw [hstate]; unfold Empirical.add; rw [if_neg hnn]
    simp only [Empirical.new, unwrapE]
    rw [show ((0 : Int) + 1) = 1 from rfl, h1, h0]
  have hsum : (Empirical.from_iter [x]).f_sum = 1 := by
    rw [hstate]; unfold Empirical.add; rw [if_neg hnn]; rfl
  have hdata : (Empirical.from_iter [x]).f_data.isEmpty = false := by
    rw [hstate]; unfold Empirical.add; rw [if_neg hnn]; rfl
  -- the accumulator is an IEEE zero
  have hd : Spec.Fin (x - (0.0 : Float)) := L.fin_congr E (L.exact.sub_zero x (L.fin_nn' hx)) hx
  have z1 : (((0.0 : Float) * (x - (0.0 : Float))) == (0.0 : Float)) = true := L.exact.zero_mul _ hd
  have n2 : NN (((0.0 : Float) * (x - (0.0 : Float))) * (x - (0.0 : Float))) :=
    L.mul_nn (L.fin_congr E z1 L.zero_fin) hd
  have z2 : ((((0.0 : Float) * (x - (0.0 : Float))) * (x - (0.0 : Float))) == (0.0 : Float)) = true :=
    L.beq_tr (L.exact.mul_congr _ _ _ _ z1 (L.beq_rfl' (L.fin_nn' hd)) n2) z1
  have n3 : NN ((((0.0 : Float) * (x - (0.0 : Float))) * (x - (0.0 : Float))) / (1.0 : Float)) :=
    L.div_nn n2 L.one_nn L.one_not_beq_zero (Or.inr L.one_fin)
  have z3 : (((((0.0 : Float) * (x - (0.0 : Float))) * (x - (0.0 : Float))) / (1.0 : Float)) == (0.0 : Float))
      = true := L.beq_tr (L.exact.div_one _ n2) z2
  have z4 : (((0.0 : Float) + (((0.0 : Float) * (x - (0.0 : Float))) * (x - (0.0 : Float))) / (1.0 : Float))
      == (0.0 : Float)) = true := L.beq_tr (L.exact.zero_add _ n3) z3
  refine ⟨(Empirical.from_iter [x]).f_var / ((RFun.ofInt (Empirical.from_iter [x]).f_sum : Float) - 1.0), ?_, ?_⟩
  · unfold Empirical.variance; rw [hdata]; rfl
  · rw [hsum, h1, h0, hvar]
    exact zero_div_zero_nan_float _ z4

/-! ### `remove`: the downdate can make the variance negative -/

set_option maxRecDepth 100000 in
set_option exponentiation.threshold 400 in
/-- counterexample: the history `add 1e16, add 0.1, add 0.7, remove 1e16` leaves the two points `{0.1, 0.7}`
    (`sum = 2`), but the moments are `mean() = Some(1.0)` — outside `[0.1, 0.7]` — and `variance() < 0`
    (it is `−2^53`; the true values are `0.4` and `0.18`).  Over ℝ the downdate is exact (`C15.inv_run`); in `f64`
    it cancels catastrophically, and `variance()` of a held sample can be NEGATIVE. -/
theorem empirical_remove_negative_variance_counterexample :
    let e := ((((unwrapE Empirical.new : Empirical Float).add 1e16).add 0.1).add 0.7).remove 1e16
    e.f_sum = 2 ∧
    (match Empirical.variance e with | some v => decide (v < (0.0 : Float)) | none => false) = true ∧
    (match Empirical.mean e with | some m => decide ((0.7 : Float) < m) | none => false) = true := by
  decide

end Statrs.Props.C15
